(* VqeRun.v — the executable instance of Chem/Vqe.v used by the C08 correspondence harness and by the
   witnesses of props/C08.v: exact cyclotomic numbers (CycS), circuits given as Python-level gates on
   the pi/8 angle grid (Linq/Interp.v).  The values printed are those of the SAME generic definitions
   the theorems are about (energy, expect_op, defl_spec, opexp_prepared).  Definitions only. *)
From Coq Require Import String ZArith NArith QArith Qcanon List Bool.
From Tangelo Require Import Num.KStruct Num.Cyc Num.Show QSem.State QSem.Measure QSem.Expect Pauli.Word Pauli.Action
     Linq.GateModel Linq.Interp Linq.LinqZ Linq.ExpPaths Chem.Vqe.
Import ListNotations.
Open Scope string_scope.
Open Scope list_scope.

Definition zcirc (gs : list zgate) : option (circuit CycS) := interp_all CycS Z (fun k => k) gs.
(* a Circuit object: gate list and reported width *)
Definition zpc : Type := (list zgate * nat)%type.
Definition mk_pc (c : zpc) : option (pcirc CycS) :=
  match zcirc (fst c) with Some g => Some (PCirc g (snd c)) | None => None end.
Fixpoint mk_pcs (l : list zpc) : option (list (pcirc CycS)) :=
  match l with
  | [] => Some []
  | c :: r => match mk_pc c, mk_pcs r with Some a, Some b => Some (a :: b) | _, _ => None end
  end.

Definition coef (a b : Q) : Cy := cadd L4 (cy_of_Qc (Q2Qc a)) (cmul L4 cy_i (cy_of_Qc (Q2Qc b))).
Definition xop : Type := op CycS.

Definition mk_solver (ref_used : bool) (ref ans : zpc) (proj : option zpc) (H : xop) (defl : list zpc) (coeff : Cy)
  : option (solver CycS) :=
  match mk_pc ref, mk_pc ans, mk_pcs defl with
  | Some r, Some a, Some d =>
      match proj with
      | None => Some (Solver ref_used r a None H d coeff)
      | Some p => match mk_pc p with Some pp => Some (Solver ref_used r a (Some pp) H d coeff) | None => None end
      end
  | _, _, _ => None
  end.

(* one line per case: the energy through the statevector route with the lookup as written (keyw) and
   repaired, <psi|H|psi>, the specification <psi|H|psi> + sum coeff |<psi|psi_d>|^2, and the value
   operator_expectation(H) would return with the default ref_state argument (useref as in the source) *)
Definition run_energy (keyw useref : bool) (n : nat) (v : solver CycS) : string :=
  "E=" ++ show_Cy (energy CycS (sv_route CycS) keyw n v)
  ++ " Efix=" ++ show_Cy (energy CycS (sv_route CycS) false n v)
  ++ " plain=" ++ show_Cy (expect_op CycS n (v_ham v) (prepared CycS v))
  ++ " spec=" ++ show_Cy (kadd (expect_op CycS n (v_ham v) (prepared CycS v)) (defl_spec CycS n v))
  ++ " opexp=" ++ show_Cy (expect_op CycS n (v_ham v) (opexp_prepared CycS useref v None))
  ++ " norm=" ++ show_Cy (norm2 CycS n (prepared CycS v)).
Definition run_case (keyw useref : bool) (n : nat) (ref_used : bool) (ref ans : zpc) (proj : option zpc) (H : xop)
           (defl : list zpc) (coeff : Cy) : string :=
  match mk_solver ref_used ref ans proj H defl coeff with
  | Some v => run_energy keyw useref n v
  | None => "uninterpretable"
  end.

(* ---- witnesses (used by props/C08.v) ---- *)
(* H = Z0; ansatz RY(pi/2) on qubit 0 of width 1; deflation circuit = the same gate but declared on 2 qubits *)
Definition zRY (k : Z) (q : Z) : zgate := G "RY" [q] None (PNum k) false.
Definition zX (q : Z) : zgate := G "X" [q] None PNone false.
Definition wit_width : option (solver CycS) :=
  mk_solver false ([], 0%nat) ([zRY 4 0], 1%nat) None [([(0%N, PZ)], coef 1 0)] [([zRY 4 0], 2%nat)] (coef 2 0).
(* reference override X on qubit 0, empty ansatz of width 1: energy_estimation sees X|0>, operator_expectation |0> *)
Definition wit_ref : option (solver CycS) :=
  mk_solver true ([zX 0], 1%nat) ([zRY 0 0], 1%nat) None [([(0%N, PZ)], coef 1 0)] [] (coef 1 0).

(* the same two solvers written out in the reference semantics (equal to the interpreted ones: VqeRunProofs.v) *)
Definition gRY (k : Z) (q : N) : gate CycS := Gate (B1 (GRY (k : A CycS)) q) [].
Definition gX (q : N) : gate CycS := Gate (B1 GX q) [].
Definition wit_width_d : pcirc CycS := PCirc [gRY 4 0] 2.
Definition wit_width_v : solver CycS :=
  Solver false (PCirc [] 0) (PCirc [gRY 4 0] 1) None [([(0%N, PZ)], coef 1 0)] [wit_width_d] (coef 2 0).
Definition wit_ref_v : solver CycS :=
  Solver true (PCirc [gX 0] 1) (PCirc [gRY 0 0] 1) None [([(0%N, PZ)], coef 1 0)] [] (coef 1 0).
