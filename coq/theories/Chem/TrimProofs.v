(* TrimProofs.v — theorems about the model of trim_trivial_qubits.py (Trim.v). *)
From Coq Require Import String ZArith NArith List Bool Arith Lia.
From Tangelo Require Import Num.KStruct QSem.State Pauli.Word Linq.GateModel Linq.CircuitModel Chem.Trim.
Import ListNotations.
Open Scope list_scope.

(* ------------------------------------------------------------------ string surgery *)
Fixpoint surgery (ks : tstates) (i : nat) (nt : pstr) : pstr :=
  match ks with [] => nt | (q, _) :: r => surgery r (S i) (remove_at (q - i) nt) end.

Definition sign_step (term : pstr) (s : bool) (qb : nat * bool) : bool :=
  match nth_error term (fst qb) with Some (Some PZ) => xorb s (snd qb) | _ => s end.

Lemma sign_of_fold term ks : sign_of term ks = fold_left (sign_step term) ks false.
Proof. reflexivity. Qed.

Lemma trim_loop_eq term : forall ks i neg nt,
  (forall q, In q (map fst ks) -> q < length term) ->
  trim_loop true term ks i neg nt
  = if has_xy term ks then Ok None
    else Ok (Some (fold_left (sign_step term) ks neg, surgery ks i nt)).
Proof.
  induction ks as [|[q b] r IH]; intros i neg nt Hlt; [reflexivity|].
  assert (Hq : q < length term) by (apply Hlt; left; reflexivity).
  assert (Hr : forall q', In q' (map fst r) -> q' < length term) by (intros; apply Hlt; right; assumption).
  destruct (nth_error term q) as [p|] eqn:Ep; [|apply nth_error_None in Ep; lia].
  cbn [trim_loop has_xy existsb fold_left surgery fst snd]. unfold sign_step at 2. cbn [fst snd].
  rewrite Ep.
  destruct p as [[| |]|]; cbn [orb]; try reflexivity; apply IH; exact Hr.
Qed.

Lemma del_from_nokeys : forall l d, del_from d [] l = l.
Proof. induction l as [|x r IH]; intros d; simpl; [reflexivity | rewrite IH; reflexivity]. Qed.

Lemma del_from_irrelevant q keys : forall l d, q < d -> del_from d (q :: keys) l = del_from d keys l.
Proof.
  induction l as [|x r IH]; intros d Hd; simpl; [reflexivity|].
  assert (Nat.eqb d q = false) as -> by (apply Nat.eqb_neq; lia). simpl.
  rewrite !IH by lia. reflexivity.
Qed.

Lemma increasing_not_below : forall keys lo d,
  increasing_from lo keys = true -> d < lo -> existsb (Nat.eqb d) keys = false.
Proof.
  induction keys as [|k r IH]; intros lo d Hinc Hd; simpl in *; [reflexivity|].
  apply andb_prop in Hinc. destruct Hinc as [Hk Hr]. apply Nat.leb_le in Hk.
  assert (Nat.eqb d k = false) as -> by (apply Nat.eqb_neq; lia). simpl.
  apply (IH (S k)); [exact Hr | lia].
Qed.

Lemma del_from_skip keys q x r2 : increasing_from (S q) keys = true ->
  forall r1 d, d + length r1 = q ->
    del_from d (q :: keys) (r1 ++ x :: r2) = r1 ++ del_from (S q) keys r2.
Proof.
  intros Hinc. induction r1 as [|y r1 IH]; intros d Hd; simpl in *.
  - assert (d = q) as -> by lia. rewrite Nat.eqb_refl. simpl.
    apply del_from_irrelevant. lia.
  - assert (Nat.eqb d q = false) as -> by (apply Nat.eqb_neq; lia). simpl.
    rewrite (increasing_not_below keys (S q) d Hinc) by lia.
    f_equal. apply IH. lia.
Qed.

Lemma remove_at_app {X} (a l : list X) k : remove_at (length a + k) (a ++ l) = a ++ remove_at k l.
Proof.
  unfold remove_at. rewrite firstn_app_2.
  replace (S (length a + k)) with (length a + S k) by lia.
  rewrite skipn_app, skipn_all2 by lia.
  replace (length a + S k - length a) with (S k) by lia. simpl. rewrite <- app_assoc. reflexivity.
Qed.

Lemma remove_at_mid {X} (r1 : list X) x r2 : remove_at (length r1) (r1 ++ x :: r2) = r1 ++ r2.
Proof.
  replace (length r1) with (length r1 + 0) by lia. rewrite remove_at_app. reflexivity.
Qed.

Lemma split_at {X} (l : list X) j : j < length l ->
  exists r1 x r2, l = r1 ++ x :: r2 /\ length r1 = j.
Proof.
  intro Hj. destruct (nth_error l j) as [x|] eqn:E; [|apply nth_error_None in E; lia].
  apply nth_error_split in E. destruct E as [r1 [r2 [-> Hl]]]. exists r1, x, r2. split; [reflexivity|exact Hl].
Qed.

Lemma surgery_spec : forall ks d done rest i,
  increasing_from d (map fst ks) = true ->
  (forall q, In q (map fst ks) -> q < d + length rest) ->
  length done + i = d ->
  surgery ks i (done ++ rest) = done ++ del_from d (map fst ks) rest.
Proof.
  induction ks as [|[q b] r IH]; intros d done rest i Hinc Hlt Hlen.
  - simpl. rewrite del_from_nokeys. reflexivity.
  - cbn [map fst increasing_from] in Hinc. apply andb_prop in Hinc. destruct Hinc as [Hdq Hinc].
    apply Nat.leb_le in Hdq.
    assert (Hq : q < d + length rest) by (apply Hlt; left; reflexivity).
    destruct (split_at rest (q - d) ltac:(lia)) as [r1 [x [r2 [-> Hr1]]]].
    cbn [surgery map fst].
    replace (q - i) with (length done + length r1) by lia.
    rewrite remove_at_app, remove_at_mid, app_assoc.
    rewrite (IH (S q) (done ++ r1) r2 (S i)).
    + rewrite <- app_assoc. f_equal. symmetry. apply del_from_skip; [exact Hinc | lia].
    + exact Hinc.
    + intros q' Hq'. specialize (Hlt q' (or_intror Hq')). rewrite app_length in Hlt. simpl in Hlt. lia.
    + rewrite app_length. lia.
Qed.

(* trim_trivial_operator's string surgery, for ALL strictly increasing key lists inside the register:
   the term is skipped iff it has X or Y on a trimmed qubit; otherwise the sign is the product of the
   (Z, state 1) signs and the new string is the old one with exactly the trimmed positions deleted *)
Theorem trim_operator_surgery (term : pstr) (ks : tstates) :
  increasing_from 0 (map fst ks) = true ->
  (forall q, In q (map fst ks) -> q < length term) ->
  trim_loop true term ks 0 false term
  = Ok (if has_xy term ks then None
        else Some (sign_of term ks, del_from 0 (map fst ks) term)).
Proof.
  intros Hinc Hlt. rewrite trim_loop_eq by exact Hlt.
  destruct (has_xy term ks); [reflexivity|].
  rewrite sign_of_fold.
  pose proof (surgery_spec ks 0 [] term 0 Hinc) as Hs. simpl in Hs.
  rewrite Hs by auto. reflexivity.
Qed.

(* the order of the keys matters: with keys (3, 1) the source deletes position 3 and then position 0 *)
Example trim_unsorted_keys_differ :
  trim_loop true [Some PZ; Some PX; None; Some PZ; Some PY] [(3, false); (2, false)] 0 false
            [Some PZ; Some PX; None; Some PZ; Some PY]
  = Ok (Some (false, [Some PZ; None; Some PY])).
Proof. reflexivity. Qed.

(* ------------------------------------------------------------------ classification table *)
Section CaseTable.
  Variable S : KS.
  Add Ring kring_trim : (k_ring S).
  Open Scope K_scope.
  Variable odd_pi : A S -> bool.
  Hypothesis Hodd : forall a, odd_pi a = true -> cis a = (ki : K S) \/ cis a = - (ki : K S).
  Variable TT : trim_tables.
  Hypothesis HTT : tables_sound TT = true.
  Variable val : string -> A S.

  Definition unit_k (x : K S) : Prop := x * kconj x = 1.
  Definition diagU (u : mat2 S) : Prop := m01 u = 0 /\ m10 u = 0 /\ unit_k (m00 u) /\ unit_k (m11 u).
  Definition antiU (u : mat2 S) : Prop := m00 u = 0 /\ m11 u = 0 /\ unit_k (m01 u) /\ unit_k (m10 u).

  Lemma unit_mul x y : unit_k x -> unit_k y -> unit_k (x * y).
  Proof.
    unfold unit_k. intros Hx Hy. rewrite kconj_mul.
    transitivity ((x * kconj x) * (y * kconj y)); [ring|]. rewrite Hx, Hy. ring.
  Qed.
  Lemma unit_1 : unit_k 1.
  Proof. unfold unit_k. rewrite kconj_1. ring. Qed.
  Lemma unit_i : unit_k ki.
  Proof. unfold unit_k. rewrite kconj_i. transitivity (- (ki * ki) : K S); [ring|]. rewrite k_ii. ring. Qed.
  Lemma unit_opp x : unit_k x -> unit_k (- x).
  Proof. unfold unit_k. intro H. rewrite kconj_opp. transitivity (x * kconj x); [ring|exact H]. Qed.

  Lemma smem_subset a b x : subset a b = true -> smem x a = true -> smem x b = true.
  Proof.
    unfold subset, smem. intros Hs Hx. rewrite forallb_forall in Hs. apply existsb_exists in Hx.
    destruct Hx as [y [Hy Hxy]]. apply String.eqb_eq in Hxy. subst y. apply Hs. exact Hy.
  Qed.

  Lemma phase_name_cases n : smem n phase_names = true -> n = "Z"%string \/ n = "RZ"%string.
  Proof.
    unfold smem, phase_names. simpl. rewrite !orb_true_iff, !String.eqb_eq. intuition congruence.
  Qed.

  Lemma phase_gate_diag n a : smem n phase_names = true -> exists u, sem1 S n a = Some u /\ diagU u.
  Proof.
    intro H. destruct (phase_name_cases n H) as [-> | ->].
    - exists (mZ S). split; [reflexivity|]. unfold diagU, mZ; simpl. repeat split; try reflexivity.
      + apply unit_1.
      + apply unit_opp, unit_1.
    - exists (mRZ S a). split; [reflexivity|]. unfold diagU, mRZ; simpl. repeat split; try reflexivity.
      + unfold unit_k. rewrite cis_conj, aopp_inv. rewrite a_comm_mul. apply cis_opp_inv.
      + unfold unit_k. apply cis_unit.
  Qed.

  Lemma odd_cosh a : odd_pi a = true -> cosh_ S a = 0.
  Proof.
    intro H. unfold cosh_. rewrite <- cis_conj. destruct (Hodd a H) as [-> | ->].
    - rewrite kconj_i. ring.
    - rewrite kconj_opp, kconj_i. ring.
  Qed.
  Lemma odd_misinh a : odd_pi a = true -> misinh S a = - ki \/ misinh S a = (ki : K S).
  Proof.
    intro H. unfold misinh. rewrite <- cis_conj. destruct (Hodd a H) as [-> | ->]; [left|right].
    - rewrite kconj_i. transitivity (- ((khalf + khalf) * ki) : K S); [ring|]. rewrite k_half. ring.
    - rewrite kconj_opp, kconj_i. transitivity ((khalf + khalf) * ki : K S); [ring|]. rewrite k_half. ring.
  Qed.

  Lemma bitflip_anti (g : pgate (A S)) :
    is_bitflip (A S) odd_pi TT g = true -> exists u, gate_mat S val g = Some u /\ antiU u.
  Proof.
    pose proof HTT as HT. unfold tables_sound in HT.
    repeat (apply andb_prop in HT; destruct HT as [HT ?]).
    unfold is_bitflip. intro Hbf. apply orb_prop in Hbf. destruct Hbf as [Hbf | Hbf].
    - assert (Hn : smem (pname g) flip_plain_names = true) by (eapply smem_subset; eauto).
      unfold smem, flip_plain_names in Hn. simpl in Hn. rewrite !orb_true_iff, !String.eqb_eq in Hn.
      unfold gate_mat. destruct Hn as [Hn | [Hn | Hn]]; [| |discriminate]; rewrite Hn.
      + exists (mX S). split; [reflexivity|]. unfold antiU, mX; simpl. repeat split; try reflexivity; apply unit_1.
      + exists (mY S). split; [reflexivity|]. unfold antiU, mY; simpl. repeat split; try reflexivity.
        * apply unit_opp, unit_i.
        * apply unit_i.
    - apply andb_prop in Hbf. destruct Hbf as [Hn Hp].
      assert (Hn' : smem (pname g) flip_rot_names = true) by (eapply smem_subset; eauto).
      unfold smem, flip_rot_names in Hn'. simpl in Hn'. rewrite !orb_true_iff, !String.eqb_eq in Hn'.
      destruct (pparam g) as [|a|s] eqn:Ep; try discriminate.
      unfold gate_mat. rewrite Ep. simpl angle_of.
      pose proof (odd_cosh a Hp) as Hc. pose proof (odd_misinh a Hp) as Hs.
      destruct Hn' as [Hn' | [Hn' | Hn']]; [| |discriminate]; rewrite Hn'.
      + exists (mRX S a). split; [reflexivity|]. unfold antiU, mRX; simpl. rewrite Hc.
        repeat split; try reflexivity; destruct Hs as [-> | ->]; try apply unit_opp; apply unit_i.
      + exists (mRY S a). split; [reflexivity|]. unfold antiU, mRY, sinh_; simpl. rewrite Hc.
        repeat split; try reflexivity; destruct Hs as [-> | ->].
        * apply unit_opp. replace (ki * - ki : K S) with (- (ki * ki) : K S) by ring. rewrite k_ii.
          replace (- - (1) : K S) with (1 : K S) by ring. apply unit_1.
        * apply unit_opp. rewrite k_ii. apply unit_opp, unit_1.
        * replace (ki * - ki : K S) with (- (ki * ki) : K S) by ring. rewrite k_ii.
          replace (- - (1) : K S) with (1 : K S) by ring. apply unit_1.
        * rewrite k_ii. apply unit_opp, unit_1.
  Qed.

  Lemma phase_gate (g : pgate (A S)) l :
    subset l phase_names = true -> smem (pname g) l = true -> exists u, gate_mat S val g = Some u /\ diagU u.
  Proof. intros Hs Hn. apply phase_gate_diag. eapply smem_subset; eauto. Qed.

  Lemma diag_col u x : diagU u -> apply_col S u (x, 0) = (m00 u * x, 0).
  Proof. intros [H1 [H2 _]]. unfold apply_col; simpl. rewrite H2. f_equal; ring. Qed.
  Lemma anti_col0 u x : antiU u -> apply_col S u (x, 0) = (0, m10 u * x).
  Proof. intros [H1 [H2 _]]. unfold apply_col; simpl. rewrite H1. f_equal; ring. Qed.
  Lemma diag_col1 u x : diagU u -> apply_col S u (0, x) = (0, m11 u * x).
  Proof. intros [H1 [H2 _]]. unfold apply_col; simpl. rewrite H1. f_equal; ring. Qed.
  Lemma anti_col1 u x : antiU u -> apply_col S u (0, x) = (m01 u * x, 0).
  Proof. intros [H1 [H2 _]]. unfold apply_col; simpl. rewrite H2. f_equal; ring. Qed.

  (* every pattern that trim_trivial_circuit classifies (over any name tables accepted by
     [tables_sound], in particular the regenerated ones) leaves the qubit, started in |0>, in the
     recorded basis state up to a phase — for every angle satisfying the exact predicate and every
     value of a symbolic RZ parameter *)
  Theorem trim_case_table_sound (gs : list (pgate (A S))) (b : bool) :
    classify (A S) odd_pi TT gs = Some b ->
    exists v, run1 S val gs (1, 0) = Some v /\ basis_up_to_phase S b v.
  Proof.
    pose proof HTT as HT. unfold tables_sound in HT.
    repeat (apply andb_prop in HT; destruct HT as [HT ?]).
    repeat match goal with H : negb _ = true |- _ => apply negb_true_iff in H end.
    destruct gs as [|g0 [|g1 [|g2 r]]]; simpl classify; try discriminate.
    - (* one gate *)
      destruct (smem (pname g0) (s1_phase TT)) eqn:E1.
      + intro Hb. injection Hb as <-.
        destruct (phase_gate g0 (s1_phase TT) ltac:(assumption) E1) as [u [Hu Hd]].
        simpl. rewrite Hu. eexists. split; [reflexivity|]. rewrite diag_col by exact Hd.
        match goal with H : s1_phase_state TT = false |- _ => rewrite H end.
        split; simpl; [reflexivity|]. apply unit_mul; [apply Hd | apply unit_1].
      + destruct (smem (pname g0) (s1_flip TT) && is_bitflip (A S) odd_pi TT g0) eqn:E2; [|discriminate].
        intro Hb. injection Hb as <-. apply andb_prop in E2. destruct E2 as [_ E2].
        destruct (bitflip_anti g0 E2) as [u [Hu Ha]].
        simpl. rewrite Hu. eexists. split; [reflexivity|]. rewrite anti_col0 by exact Ha.
        match goal with H : s1_flip_state TT = true |- _ => rewrite H end.
        split; simpl; [reflexivity|]. apply unit_mul; [apply Ha | apply unit_1].
    - (* two gates *)
      destruct (smem (pname g1) (s2_g1_phase TT)) eqn:E1.
      + destruct (smem (pname g0) (s2_pp_g0 TT)) eqn:E0; [|discriminate].
        intro Hb. injection Hb as <-.
        destruct (phase_gate g0 (s2_pp_g0 TT) ltac:(assumption) E0) as [u0 [Hu0 Hd0]].
        destruct (phase_gate g1 (s2_g1_phase TT) ltac:(assumption) E1) as [u1 [Hu1 Hd1]].
        simpl. rewrite Hu0, Hu1. eexists. split; [reflexivity|].
        rewrite diag_col by exact Hd0. rewrite diag_col by exact Hd1.
        match goal with H : s2_pp_state TT = false |- _ => rewrite H end.
        split; simpl; [reflexivity|].
        apply unit_mul; [apply Hd1 | apply unit_mul; [apply Hd0 | apply unit_1]].
      + destruct (smem (pname g1) (s2_g1_flip TT) && is_bitflip (A S) odd_pi TT g1) eqn:E2; [|discriminate].
        apply andb_prop in E2. destruct E2 as [_ E2].
        destruct (bitflip_anti g1 E2) as [u1 [Hu1 Ha1]].
        destruct (smem (pname g0) (s2_ff_g0 TT) && is_bitflip (A S) odd_pi TT g0) eqn:E3.
        * intro Hb. injection Hb as <-. apply andb_prop in E3. destruct E3 as [_ E3].
          destruct (bitflip_anti g0 E3) as [u0 [Hu0 Ha0]].
          simpl. rewrite Hu0, Hu1. eexists. split; [reflexivity|].
          rewrite anti_col0 by exact Ha0. rewrite anti_col1 by exact Ha1.
          match goal with H : s2_ff_state TT = false |- _ => rewrite H end.
          split; simpl; [reflexivity|].
          apply unit_mul; [apply Ha1 | apply unit_mul; [apply Ha0 | apply unit_1]].
        * destruct (smem (pname g0) (s2_pf_g0 TT)) eqn:E4; [|discriminate].
          intro Hb. injection Hb as <-.
          destruct (phase_gate g0 (s2_pf_g0 TT) ltac:(assumption) E4) as [u0 [Hu0 Hd0]].
          simpl. rewrite Hu0, Hu1. eexists. split; [reflexivity|].
          rewrite diag_col by exact Hd0. rewrite anti_col0 by exact Ha1.
          match goal with H : s2_pf_state TT = true |- _ => rewrite H end.
          split; simpl; [reflexivity|].
          apply unit_mul; [apply Ha1 | apply unit_mul; [apply Hd0 | apply unit_1]].
  Qed.
End CaseTable.
