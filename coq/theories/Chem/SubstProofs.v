(* SubstProofs.v — soundness of substituting a qubit by a number (definitions in Subst.v).
   Generic over the number structure S : KS; unbounded (all operators, all states, all basis indices;
   words need not be sorted or duplicate-free).  No axiom: equality of states is stated pointwise.

   Contents (main statements)
     qparity_cons, wdrop_cons_eq/neq, wdrop_notin, wdrop_notin_id, qparity_notin      list-level facts
     app1_supported, app1_mZ_supported, app1_x_eigen, app1_mX_x_eigen                 one factor
     supported_on_word_den, x_eigen_word_den       a word without factor on q preserves the invariant
     word_den_zsubst, word_den_xsubst              one word: the factors on q become the sign (-1)^(parity*b)
     zdiag_word_den_supported, xdiag_word_den_x_eigen
     subst_preserves_support, subst_preserves_x_eigen
     z_substitution         op_den a psi x = op_den (subst_q q b a) psi x   (a is I/Z on q, psi supported on q=b)
     x_substitution         op_den a psi x = op_den (subst_q q s a) psi x   (a is I/X on q, X_q psi = (-1)^s psi) *)
From Coq Require Import NArith ZArith List Bool Lia.
From Tangelo Require Import Num.KStruct QSem.State QSem.BitLemmas Pauli.Word Pauli.Action
  Pauli.WordProofs Pauli.ActionProofs Chem.Subst.
Import ListNotations.

(* ------------------------------------------------------------------ list-level facts (no KS) *)
Lemma qparity_acc (q : N) (w : word) : forall s : bool,
  fold_left (fun s f => if N.eqb (fst f) q then negb s else s) w s = xorb s (qparity q w).
Proof.
  unfold qparity. induction w as [|f w IH]; intro s; simpl.
  - symmetry. apply xorb_false_r.
  - rewrite (IH (if N.eqb (fst f) q then negb s else s)).
    rewrite (IH (if N.eqb (fst f) q then true else false)).
    destruct (N.eqb (fst f) q), s; simpl;
      destruct (fold_left (fun s0 f0 => if N.eqb (fst f0) q then negb s0 else s0) w false); reflexivity.
Qed.

Lemma qparity_nil (q : N) : qparity q [] = false.
Proof. reflexivity. Qed.

Lemma qparity_cons (q : N) (f : N * pauli) (w : word) :
  qparity q (f :: w) = xorb (N.eqb (fst f) q) (qparity q w).
Proof.
  unfold qparity at 1. simpl. rewrite qparity_acc.
  destruct (N.eqb (fst f) q); reflexivity.
Qed.

Lemma wdrop_cons_eq (q : N) (p : pauli) (w : word) : wdrop q ((q, p) :: w) = wdrop q w.
Proof. unfold wdrop. simpl. rewrite N.eqb_refl. reflexivity. Qed.

Lemma wdrop_cons_neq (q q' : N) (p : pauli) (w : word) :
  q' <> q -> wdrop q ((q', p) :: w) = (q', p) :: wdrop q w.
Proof.
  intro Hne. unfold wdrop. simpl. apply N.eqb_neq in Hne. rewrite Hne. reflexivity.
Qed.

Lemma wdrop_notin (q : N) (w : word) : ~ In q (qubits (wdrop q w)).
Proof.
  unfold qubits, wdrop. intro Hin. apply in_map_iff in Hin.
  destruct Hin as [f [Hf Hin]]. apply filter_In in Hin. destruct Hin as [_ Hb].
  rewrite Hf, N.eqb_refl in Hb. discriminate Hb.
Qed.

Lemma wdrop_notin_id (q : N) (w : word) : ~ In q (qubits w) -> wdrop q w = w.
Proof.
  induction w as [|[q' p] w IH]; intro Hn; [reflexivity|].
  assert (Hq : q' <> q) by (intro E; apply Hn; left; exact E).
  assert (Hw : ~ In q (qubits w)) by (intro E; apply Hn; right; exact E).
  rewrite wdrop_cons_neq by exact Hq. rewrite IH by exact Hw. reflexivity.
Qed.

Lemma qparity_notin (q : N) (w : word) : ~ In q (qubits w) -> qparity q w = false.
Proof.
  induction w as [|[q' p] w IH]; intro Hn; [reflexivity|].
  assert (Hq : q' <> q) by (intro E; apply Hn; left; exact E).
  assert (Hw : ~ In q (qubits w)) by (intro E; apply Hn; right; exact E).
  rewrite qparity_cons, IH by exact Hw. cbn [fst].
  apply N.eqb_neq in Hq. rewrite Hq. reflexivity.
Qed.

Lemma pauli_eqb_true (a b : pauli) : pauli_eqb a b = true -> a = b.
Proof. destruct a, b; intro H; try reflexivity; discriminate H. Qed.

Lemma zdiag_on_cons (q : N) (f : N * pauli) (w : word) :
  zdiag_on q (f :: w) = (negb (N.eqb (fst f) q) || pauli_eqb (snd f) PZ) && zdiag_on q w.
Proof. reflexivity. Qed.

Lemma xdiag_on_cons (q : N) (f : N * pauli) (w : word) :
  xdiag_on q (f :: w) = (negb (N.eqb (fst f) q) || pauli_eqb (snd f) PX) && xdiag_on q w.
Proof. reflexivity. Qed.

(* a word without factor on q is both Z-diagonal and X-diagonal on q *)
Lemma zdiag_on_notin (q : N) (w : word) : ~ In q (qubits w) -> zdiag_on q w = true.
Proof.
  induction w as [|[q' p] w IH]; intro Hn; [reflexivity|].
  assert (Hq : q' <> q) by (intro E; apply Hn; left; exact E).
  assert (Hw : ~ In q (qubits w)) by (intro E; apply Hn; right; exact E).
  rewrite zdiag_on_cons, IH by exact Hw. cbn [fst snd].
  apply N.eqb_neq in Hq. rewrite Hq. reflexivity.
Qed.

Lemma xdiag_on_notin (q : N) (w : word) : ~ In q (qubits w) -> xdiag_on q w = true.
Proof.
  induction w as [|[q' p] w IH]; intro Hn; [reflexivity|].
  assert (Hq : q' <> q) by (intro E; apply Hn; left; exact E).
  assert (Hw : ~ In q (qubits w)) by (intro E; apply Hn; right; exact E).
  rewrite xdiag_on_cons, IH by exact Hw. cbn [fst snd].
  apply N.eqb_neq in Hq. rewrite Hq. reflexivity.
Qed.

Section SubstProofs.
  Variable S : KS.
  Add Ring kring_subst : (k_ring S).
  Open Scope K_scope.
  Notation K := (K S).
  Notation state := (state S).

  (* ---------------------------------------------------------------- one factor, Z side *)
  Lemma app1_supported (u : mat2 S) (q' q : N) (b : bool) (psi : state) :
    q' <> q -> supported_on S q b psi -> supported_on S q b (app1 S u q' psi).
  Proof.
    intros Hne Hsup x Hx. unfold app1.
    assert (Hf : bit (flip x q') q <> b) by (rewrite bit_flip_diff by exact Hne; exact Hx).
    rewrite (Hsup x Hx), (Hsup (flip x q') Hf).
    destruct (bit x q'); ring.
  Qed.

  Lemma app1_mZ_supported (q : N) (b : bool) (psi : state) :
    supported_on S q b psi ->
    forall x, app1 S (mZ S) q psi x = (if b then - (1) else 1) * psi x.
  Proof.
    intros Hsup x. unfold app1. cbn [mZ m00 m01 m10 m11].
    destruct (bit x q) eqn:Ebit; destruct b; try ring.
    - assert (Hx : bit x q <> false) by (rewrite Ebit; discriminate).
      rewrite (Hsup x Hx). ring.
    - assert (Hx : bit x q <> true) by (rewrite Ebit; discriminate).
      rewrite (Hsup x Hx). ring.
  Qed.

  Lemma supported_on_ext (q : N) (b : bool) (psi phi : state) :
    (forall x, psi x = phi x) -> supported_on S q b psi -> supported_on S q b phi.
  Proof. intros Hext Hsup x Hx. rewrite <- Hext. apply Hsup. exact Hx. Qed.

  (* a word without factor on q preserves the support *)
  Lemma supported_on_word_den (q : N) (b : bool) (w : word) : ~ In q (qubits w) ->
    forall psi : state, supported_on S q b psi -> supported_on S q b (word_den S w psi).
  Proof.
    induction w as [|[q' p] w IH]; intros Hn psi Hsup; [exact Hsup|].
    assert (Hq : q' <> q) by (intro E; apply Hn; left; exact E).
    assert (Hw : ~ In q (qubits w)) by (intro E; apply Hn; right; exact E).
    rewrite word_den_cons. apply (IH Hw). apply app1_supported; assumption.
  Qed.

  (* one word: all the Z factors on q become the sign (-1)^(parity * b) *)
  Lemma word_den_zsubst (q : N) (b : bool) (w : word) : zdiag_on q w = true ->
    forall psi : state, supported_on S q b psi -> forall x,
    word_den S w psi x =
    (if qparity q w && b then - (1) else 1) * word_den S (wdrop q w) psi x.
  Proof.
    induction w as [|[q' p] w IH]; intros Hz psi Hsup x.
    - rewrite qparity_nil. cbn [andb]. unfold wdrop. simpl filter. ring.
    - rewrite zdiag_on_cons in Hz. apply andb_true_iff in Hz. destruct Hz as [Hf Hz].
      cbn [fst snd] in Hf. rewrite qparity_cons. cbn [fst].
      destruct (N.eqb_spec q' q) as [Heq|Hne].
      + subst q'. cbn [negb orb] in Hf. apply pauli_eqb_true in Hf. subst p.
        rewrite wdrop_cons_eq, word_den_cons. cbn [pauli_mat].
        rewrite (word_den_ext S w (app1 S (mZ S) q psi)
                   (fun y => (if b then - (1) else 1) * psi y)
                   (app1_mZ_supported q b psi Hsup) x).
        rewrite word_den_scale, (IH Hz psi Hsup x).
        destruct (qparity q w), b; cbn [xorb andb]; ring.
      + rewrite (wdrop_cons_neq q q' p w Hne), !word_den_cons, xorb_false_l.
        apply (IH Hz). apply app1_supported; assumption.
  Qed.

  Lemma zdiag_word_den_supported (q : N) (b : bool) (w : word) : zdiag_on q w = true ->
    forall psi : state, supported_on S q b psi -> supported_on S q b (word_den S w psi).
  Proof.
    intros Hz psi Hsup x Hx. rewrite (word_den_zsubst q b w Hz psi Hsup x).
    rewrite (supported_on_word_den q b (wdrop q w) (wdrop_notin q w) psi Hsup x Hx). ring.
  Qed.

  Lemma subst_preserves_support (q : N) (b : bool) (a : op S) (psi : state) :
    supported_on S q b psi -> (forall t, In t a -> zdiag_on q (fst t) = true) ->
    supported_on S q b (op_den S a psi).
  Proof.
    intros Hsup Ha x Hx. induction a as [|t a IH].
    - apply op_den_nil.
    - rewrite op_den_cons.
      rewrite (zdiag_word_den_supported q b (fst t) (Ha t (or_introl eq_refl)) psi Hsup x Hx).
      rewrite IH by (intros t' Ht'; apply Ha; right; exact Ht'). ring.
  Qed.

  Lemma subst_q_cons (q : N) (b : bool) (t : word * K) (a : op S) :
    subst_q S q b (t :: a) =
    (wdrop q (fst t), if qparity q (fst t) && b then - snd t else snd t) :: subst_q S q b a.
  Proof. reflexivity. Qed.

  Theorem z_substitution : forall (q : N) (b : bool) (a : op S) (psi : state),
    (forall t, In t a -> zdiag_on q (fst t) = true) ->
    supported_on S q b psi ->
    forall x, op_den S a psi x = op_den S (subst_q S q b a) psi x.
  Proof.
    intros q b a psi Ha Hsup x. induction a as [|t a IH].
    - reflexivity.
    - rewrite subst_q_cons, !op_den_cons. cbn [fst snd].
      rewrite (word_den_zsubst q b (fst t) (Ha t (or_introl eq_refl)) psi Hsup x).
      rewrite IH by (intros t' Ht'; apply Ha; right; exact Ht').
      destruct (qparity q (fst t) && b); ring.
  Qed.

  (* ---------------------------------------------------------------- one factor, X side *)
  Lemma app1_x_eigen (u : mat2 S) (q' q : N) (s : bool) (psi : state) :
    q' <> q -> x_eigen S q s psi -> x_eigen S q s (app1 S u q' psi).
  Proof.
    intros Hne Heig x. unfold app1.
    assert (Hne' : q <> q') by (intro E; apply Hne; symmetry; exact E).
    rewrite (bit_flip_diff x q q' Hne'), (flip_comm x q q'), (Heig x), (Heig (flip x q')).
    destruct (bit x q'), s; ring.
  Qed.

  Lemma app1_mX_x_eigen (q : N) (s : bool) (psi : state) :
    x_eigen S q s psi ->
    forall x, app1 S (mX S) q psi x = (if s then - (1) else 1) * psi x.
  Proof.
    intros Heig x. unfold app1. cbn [mX m00 m01 m10 m11]. rewrite (Heig x).
    destruct (bit x q), s; ring.
  Qed.

  Lemma x_eigen_ext (q : N) (s : bool) (psi phi : state) :
    (forall x, psi x = phi x) -> x_eigen S q s psi -> x_eigen S q s phi.
  Proof. intros Hext Heig x. rewrite <- !Hext. apply Heig. Qed.

  Lemma x_eigen_word_den (q : N) (s : bool) (w : word) : ~ In q (qubits w) ->
    forall psi : state, x_eigen S q s psi -> x_eigen S q s (word_den S w psi).
  Proof.
    induction w as [|[q' p] w IH]; intros Hn psi Heig; [exact Heig|].
    assert (Hq : q' <> q) by (intro E; apply Hn; left; exact E).
    assert (Hw : ~ In q (qubits w)) by (intro E; apply Hn; right; exact E).
    rewrite word_den_cons. apply (IH Hw). apply app1_x_eigen; assumption.
  Qed.

  Lemma word_den_xsubst (q : N) (s : bool) (w : word) : xdiag_on q w = true ->
    forall psi : state, x_eigen S q s psi -> forall x,
    word_den S w psi x =
    (if qparity q w && s then - (1) else 1) * word_den S (wdrop q w) psi x.
  Proof.
    induction w as [|[q' p] w IH]; intros Hz psi Heig x.
    - rewrite qparity_nil. cbn [andb]. unfold wdrop. simpl filter. ring.
    - rewrite xdiag_on_cons in Hz. apply andb_true_iff in Hz. destruct Hz as [Hf Hz].
      cbn [fst snd] in Hf. rewrite qparity_cons. cbn [fst].
      destruct (N.eqb_spec q' q) as [Heq|Hne].
      + subst q'. cbn [negb orb] in Hf. apply pauli_eqb_true in Hf. subst p.
        rewrite wdrop_cons_eq, word_den_cons. cbn [pauli_mat].
        rewrite (word_den_ext S w (app1 S (mX S) q psi)
                   (fun y => (if s then - (1) else 1) * psi y)
                   (app1_mX_x_eigen q s psi Heig) x).
        rewrite word_den_scale, (IH Hz psi Heig x).
        destruct (qparity q w), s; cbn [xorb andb]; ring.
      + rewrite (wdrop_cons_neq q q' p w Hne), !word_den_cons, xorb_false_l.
        apply (IH Hz). apply app1_x_eigen; assumption.
  Qed.

  Lemma xdiag_word_den_x_eigen (q : N) (s : bool) (w : word) : xdiag_on q w = true ->
    forall psi : state, x_eigen S q s psi -> x_eigen S q s (word_den S w psi).
  Proof.
    intros Hz psi Heig x.
    rewrite (word_den_xsubst q s w Hz psi Heig (flip x q)), (word_den_xsubst q s w Hz psi Heig x).
    rewrite (x_eigen_word_den q s (wdrop q w) (wdrop_notin q w) psi Heig x).
    destruct s; ring.
  Qed.

  Lemma subst_preserves_x_eigen (q : N) (s : bool) (a : op S) (psi : state) :
    x_eigen S q s psi -> (forall t, In t a -> xdiag_on q (fst t) = true) ->
    x_eigen S q s (op_den S a psi).
  Proof.
    intros Heig Ha x. induction a as [|t a IH].
    - rewrite !op_den_nil. destruct s; ring.
    - rewrite !op_den_cons.
      rewrite (xdiag_word_den_x_eigen q s (fst t) (Ha t (or_introl eq_refl)) psi Heig x).
      rewrite IH by (intros t' Ht'; apply Ha; right; exact Ht').
      destruct s; ring.
  Qed.

  Theorem x_substitution : forall (q : N) (s : bool) (a : op S) (psi : state),
    (forall t, In t a -> xdiag_on q (fst t) = true) ->
    x_eigen S q s psi ->
    forall x, op_den S a psi x = op_den S (subst_q S q s a) psi x.
  Proof.
    intros q s a psi Ha Heig x. induction a as [|t a IH].
    - reflexivity.
    - rewrite subst_q_cons, !op_den_cons. cbn [fst snd].
      rewrite (word_den_xsubst q s (fst t) (Ha t (or_introl eq_refl)) psi Heig x).
      rewrite IH by (intros t' Ht'; apply Ha; right; exact Ht').
      destruct (qparity q (fst t) && s); ring.
  Qed.
End SubstProofs.

Print Assumptions z_substitution.
Print Assumptions x_substitution.
