(* AnsatzProofs.v — lemmas about the index-table machines of Chem/Ansatz.v (C07).
   No axioms: the operator generators are Section variables, their properties (dict keys are unique;
   H_order: the key order depends only on the key set) are explicit hypotheses of the theorems. *)
From Coq Require Import List Arith Bool PeanoNat Lia Permutation ZArith.
From Coq Require FinFun.
From Tangelo Require Import Linq.GateModel Chem.Ansatz.
Import ListNotations.

(* ------------------------------------------------------------------------------------------------ *)
(* lists, upd, wblock                                                                                 *)
Lemma nth_error_ext X (a b : list X) :
  length a = length b -> (forall i x, nth_error a i = Some x -> nth_error b i = Some x) -> a = b.
Proof.
  revert b. induction a as [|x a IH]; intros [|y b] Hl H; simpl in Hl; try discriminate; auto.
  f_equal.
  - specialize (H 0 x eq_refl). simpl in H. congruence.
  - apply IH. lia. intros i z Hz. exact (H (S i) z Hz).
Qed.

Lemma last_cons X (a : X) (l : list X) (d : X) : last (a :: l) d = last l a.
Proof.
  revert a d. induction l as [|b l IH]; intros a d. reflexivity.
  change (last (a :: b :: l) d) with (last (b :: l) d). rewrite (IH b d), (IH b a). reflexivity.
Qed.

Lemma upd_length X i (x : X) l l' : upd i x l = Ok l' -> length l' = length l.
Proof.
  revert i l'. induction l as [|y r IH]; intros i l' H; simpl in H; try discriminate.
  destruct i as [|j]. inversion H; auto.
  destruct (upd j x r) as [r'|e] eqn:E; inversion H; subst. simpl. f_equal. eapply IH; eauto.
Qed.

Lemma upd_ok X i (x : X) l : i < length l -> exists l', upd i x l = Ok l'.
Proof.
  revert i. induction l as [|y r IH]; intros i H; simpl in *. lia.
  destruct i as [|j]. eauto. destruct (IH j) as [r' E]. lia. rewrite E. eauto.
Qed.

Lemma upd_nth X i (x : X) l l' :
  upd i x l = Ok l' -> forall j, nth_error l' j = if j =? i then Some x else nth_error l j.
Proof.
  revert i l'. induction l as [|y r IH]; intros i l' H j; simpl in H; try discriminate.
  destruct i as [|i].
  - inversion H; subst. destruct j; auto.
  - destruct (upd i x r) as [r'|e] eqn:E; inversion H; subst. destruct j as [|j]; simpl; auto.
Qed.

Lemma upd_app_r X i (x : X) l l' post : upd i x l = Ok l' -> upd i x (l ++ post) = Ok (l' ++ post).
Proof.
  revert i l'. induction l as [|y r IH]; intros i l' H; simpl in H; try discriminate.
  destruct i as [|i]; simpl. inversion H; auto.
  destruct (upd i x r) as [r'|e] eqn:E; inversion H; subst. rewrite (IH _ _ E). reflexivity.
Qed.

Lemma upd_app X i (x : X) pre l l' post :
  upd i x l = Ok l' -> upd (length pre + i) x (pre ++ l ++ post) = Ok (pre ++ l' ++ post).
Proof.
  intros H. induction pre as [|p pre IH]; simpl. apply upd_app_r; auto. rewrite IH. reflexivity.
Qed.

Lemma upd_mid X (x y : X) pre post : upd (length pre) x (pre ++ y :: post) = Ok (pre ++ x :: post).
Proof. induction pre as [|p pre IH]; simpl; auto. rewrite IH. reflexivity. Qed.

Lemma wblock_ok X (vals : list X) : forall pre old post,
  length old = length vals -> wblock (length pre) vals (pre ++ old ++ post) = Ok (pre ++ vals ++ post).
Proof.
  induction vals as [|x r IH]; intros pre old post Hl; destruct old as [|y old]; simpl in Hl; try discriminate; auto.
  simpl. rewrite upd_mid.
  replace (pre ++ x :: old ++ post) with ((pre ++ [x]) ++ old ++ post) by (rewrite <- app_assoc; reflexivity).
  replace (S (length pre)) with (length (pre ++ [x])) by (rewrite app_length; simpl; lia).
  rewrite IH by lia. rewrite <- app_assoc. reflexivity.
Qed.

Lemma wblock_all X (vals old : list X) : length old = length vals -> wblock 0 vals old = Ok vals.
Proof.
  intros H. generalize (wblock_ok X vals [] old [] H). simpl. rewrite !app_nil_r. auto.
Qed.

Lemma hist_generic St P (step : St -> P -> res St) (build : P -> St) :
  (forall th th', step (build th) th' = Ok (build th')) ->
  forall ths th0, run_hist step (build th0) ths = Ok (build (last ths th0)).
Proof.
  intros H ths. induction ths as [|th r IH]; intros th0. reflexivity.
  simpl run_hist. rewrite H, IH, last_cons. reflexivity.
Qed.

Lemma map_fst_number X (l : list X) k : map fst (number k l) = l.
Proof. revert k. induction l; intros; simpl; f_equal; auto. Qed.

Lemma sum_app a b : sum (a ++ b) = sum a + sum b.
Proof. induction a; simpl; auto. unfold sum in *. simpl. lia. Qed.

Lemma map_fst_combine X Y (a : list X) (b : list Y) : length a = length b -> map fst (combine a b) = a.
Proof. revert b. induction a; intros [|y b] H; simpl in *; try discriminate; auto. f_equal. apply IHa. lia. Qed.

(* ================================================================================================ *)
Section TableProofs.
  Variables W C V : Type.
  Variable weqb : W -> W -> bool.
  Hypothesis weqb_eq : forall a b, weqb a b = true <-> a = b.
  Variable wlen : W -> nat.
  Variable ang : C -> V.

  Notation op := (op W C).
  Notation keys := (keys W C).
  Notation keys_differ := (keys_differ W weqb).
  Notation sort_len := (sort_len W C wlen).
  Notation layer_vg := (layer_vg W C V ang).
  Notation tlookup := (tlookup W weqb).
  Notation assoc := (assoc W C weqb).
  Notation twrite := (twrite W C V weqb ang).
  Notation tbuild := (tbuild W C V wlen ang).
  Notation tupdate := (tupdate W C V weqb wlen ang).

  Lemma weqb_refl a : weqb a a = true.
  Proof. apply weqb_eq. reflexivity. Qed.
  Lemma weqb_neq a b : a <> b -> weqb a b = false.
  Proof. intros H. destruct (weqb a b) eqn:E; auto. apply weqb_eq in E. contradiction. Qed.

  Lemma wmem_In w l : wmem W weqb w l = true <-> In w l.
  Proof.
    induction l as [|y r IH]; simpl. split; [discriminate|tauto].
    rewrite orb_true_iff, IH, weqb_eq. split; intros [H|H]; auto.
  Qed.
  Lemma subset_incl a b : subset W weqb a b = true <-> incl a b.
  Proof.
    unfold subset. rewrite forallb_forall. unfold incl. split; intros H x Hx.
    apply wmem_In. auto. apply wmem_In. auto.
  Qed.
  Lemma keys_differ_false a b : keys_differ a b = false <-> (incl a b /\ incl b a).
  Proof.
    unfold Ansatz.keys_differ. rewrite negb_false_iff, andb_true_iff, !subset_incl. tauto.
  Qed.
  Lemma keys_differ_perm a a' b : Permutation a a' -> keys_differ a b = keys_differ a' b.
  Proof.
    intros Hp.
    destruct (keys_differ a b) eqn:E1, (keys_differ a' b) eqn:E2; auto.
    - apply keys_differ_false in E2. destruct E2 as [H1 H2].
      assert (keys_differ a b = false) as X.
      { apply keys_differ_false. split; intros x Hx.
        apply H1. eapply Permutation_in; eauto.
        eapply Permutation_in. apply Permutation_sym; eauto. auto. }
      congruence.
    - apply keys_differ_false in E1. destruct E1 as [H1 H2].
      assert (keys_differ a' b = false) as X.
      { apply keys_differ_false. split; intros x Hx.
        apply H1. eapply Permutation_in. apply Permutation_sym; eauto. auto.
        eapply Permutation_in; eauto. }
      congruence.
  Qed.

  (* ---- the stable sort by word length ---- *)
  Lemma ins_perm x l : Permutation (ins W C wlen x l) (x :: l).
  Proof.
    induction l as [|y r IH]; simpl; auto.
    destruct (wlen (fst x) <=? wlen (fst y)); auto.
    eapply perm_trans. apply perm_skip. exact IH. apply perm_swap.
  Qed.
  Lemma sort_perm o : Permutation (sort_len o) o.
  Proof.
    induction o as [|x r IH]; simpl; auto.
    eapply perm_trans. apply ins_perm. auto.
  Qed.
  Lemma sort_length o : length (sort_len o) = length o.
  Proof. apply Permutation_length, sort_perm. Qed.
  Lemma keys_sort_perm o : Permutation (keys (sort_len o)) (keys o).
  Proof. apply Permutation_map, sort_perm. Qed.
  Lemma keys_ins x x' l l' : fst x = fst x' -> keys l = keys l' ->
    keys (ins W C wlen x l) = keys (ins W C wlen x' l').
  Proof.
    intros Hx. revert l'. induction l as [|y r IH]; intros [|y' r'] H; simpl in H; try discriminate.
    - simpl. congruence.
    - inversion H as [[H1 H2]]. simpl. rewrite <- Hx, <- H1.
      destruct (wlen (fst x) <=? wlen (fst y)); simpl. congruence.
      rewrite H1. f_equal. apply IH; auto.
  Qed.
  (* the sorted key order depends only on the key order *)
  Lemma keys_sort o o' : keys o = keys o' -> keys (sort_len o) = keys (sort_len o').
  Proof.
    revert o'. induction o as [|x r IH]; intros [|x' r'] H; simpl in H; try discriminate; auto.
    inversion H as [[H1 H2]]. simpl. apply keys_ins; auto.
  Qed.

  (* ---- dict lookups ---- *)
  Lemma tlookup_number ws : NoDup ws -> forall k i w,
    nth_error ws i = Some w -> tlookup w (number k ws) = Ok (k + i).
  Proof.
    induction 1 as [|y r Hn Hd IH]; intros k i w Hi. destruct i; discriminate.
    destruct i as [|i]; simpl in *.
    - inversion Hi; subst. rewrite weqb_refl. f_equal. lia.
    - rewrite weqb_neq. rewrite (IH (S k) i w Hi). f_equal. lia.
      intros ->. apply Hn. eapply nth_error_In; eauto.
  Qed.
  Lemma tlookup_shift w ws off : forall k,
    tlookup w (number (off + k) ws) = match tlookup w (number k ws) with Ok i => Ok (off + i) | Err e => Err e end.
  Proof.
    induction ws as [|y r IH]; intros k; simpl; auto.
    destruct (weqb w y); auto. rewrite <- IH. f_equal. f_equal. lia.
  Qed.
  Lemma assoc_notin w (o : op) : ~ In w (keys o) -> assoc w o = Err KeyError.
  Proof.
    induction o as [|[y c] r IH]; simpl; intros H; auto.
    rewrite weqb_neq by (intros ->; tauto). apply IH. tauto.
  Qed.
  Lemma assoc_In w c (o : op) : NoDup (keys o) -> In (w, c) o -> assoc w o = Ok c.
  Proof.
    induction o as [|[y d] r IH]; simpl; intros Hn Hi. tauto.
    inversion Hn as [|? ? Hy Hr]; subst. destruct Hi as [Hi|Hi].
    - inversion Hi; subst. rewrite weqb_refl. reflexivity.
    - rewrite weqb_neq. auto. intros E. subst y. apply Hy. apply (in_map fst) in Hi. exact Hi.
  Qed.

  (* ---- write-through: every table position receives the new coefficient of ITS word ---- *)
  Lemma twrite_spec ws : NoDup ws -> forall (o : op) v,
    NoDup (keys o) -> incl (keys o) ws -> length v = length ws ->
    exists v', twrite (number 0 ws) o v = Ok v' /\ length v' = length ws /\
      forall i w, nth_error ws i = Some w ->
        nth_error v' i = match assoc w o with Ok c => Some (ang c) | Err _ => nth_error v i end.
  Proof.
    intros Hws. induction o as [|[w0 c0] r IH]; intros v Hn Hin Hl.
    - exists v. simpl. auto.
    - inversion Hn as [|? ? Hw0 Hr]; subst.
      assert (In w0 ws) as Hw by (apply Hin; left; reflexivity).
      apply In_nth_error in Hw. destruct Hw as [i0 Hi0].
      assert (i0 < length ws) as Hlt by (apply nth_error_Some; congruence).
      destruct (upd_ok V i0 (ang c0) v) as [v1 Hv1]. lia.
      destruct (IH v1) as [v' [Hw' [Hl' Hs]]]; auto.
      { intros x Hx. apply Hin. right. auto. }
      { rewrite (upd_length _ _ _ _ _ Hv1). auto. }
      exists v'. split; [|split]; auto.
      + simpl. rewrite (tlookup_number ws Hws 0 i0 w0 Hi0). simpl. rewrite Hv1. exact Hw'.
      + intros i w Hi. rewrite (Hs i w Hi). simpl.
        destruct (weqb w w0) eqn:E.
        * apply weqb_eq in E. subst w0.
          assert (i = i0). { apply (proj1 (NoDup_nth_error ws) Hws). apply nth_error_Some; congruence. congruence. }
          subst i0. rewrite (assoc_notin w r Hw0). rewrite (upd_nth _ _ _ _ _ Hv1 i), Nat.eqb_refl. reflexivity.
        * destruct (assoc w r); auto. rewrite (upd_nth _ _ _ _ _ Hv1 i).
          destruct (i =? i0) eqn:E2; auto. apply Nat.eqb_eq in E2. subst i0.
          rewrite Hi in Hi0. inversion Hi0; subst. rewrite weqb_refl in E. discriminate.
  Qed.

  (* writing the items of o' through the table of a layer whose sorted keys are those of o' *)
  Lemma twrite_layer (o' : op) (v : list V) :
    NoDup (keys o') -> length v = length o' ->
    twrite (number 0 (keys (sort_len o'))) o' v = Ok (layer_vg (sort_len o')).
  Proof.
    intros Hn Hl.
    assert (NoDup (keys (sort_len o'))) as Hws.
    { eapply Permutation_NoDup. apply Permutation_sym, keys_sort_perm. auto. }
    destruct (twrite_spec _ Hws o' v Hn) as [v' [Hw [Hl' Hs]]].
    { intros x Hx. eapply Permutation_in. apply Permutation_sym, keys_sort_perm. auto. }
    { unfold Ansatz.keys. rewrite map_length, sort_length. auto. }
    rewrite Hw. f_equal. symmetry. apply nth_error_ext.
    - unfold Ansatz.layer_vg. rewrite Hl'. unfold Ansatz.keys. rewrite !map_length. reflexivity.
    - intros i x Hx. unfold Ansatz.layer_vg in Hx. rewrite nth_error_map in Hx.
      destruct (nth_error (sort_len o') i) as [[w c]|] eqn:E; simpl in Hx; inversion Hx; subst.
      assert (nth_error (keys (sort_len o')) i = Some w) as Hk.
      { unfold Ansatz.keys. rewrite nth_error_map, E. reflexivity. }
      rewrite (Hs i w Hk).
      rewrite (assoc_In w c o' Hn). reflexivity.
      eapply Permutation_in. apply sort_perm. eapply nth_error_In; eauto.
  Qed.

  Definition dict_pair (o o' : op) : Prop :=
    NoDup (keys o) /\ NoDup (keys o') /\ (keys_differ (keys o) (keys o') = false -> keys o = keys o').

  (* ---- UCCSD / QCC (repaired): one update of a freshly built object = rebuild ---- *)
  Lemma tupdate_step (o o' : op) : dict_pair o o' -> tupdate (tbuild o) o' = Ok (tbuild o').
  Proof.
    intros [Hn [Hn' Ho]]. unfold Ansatz.tupdate. simpl tab. rewrite map_fst_number.
    rewrite (keys_differ_perm _ _ _ (keys_sort_perm o)).
    destruct (keys_differ (keys o) (keys o')) eqn:E; auto.
    specialize (Ho eq_refl). simpl. rewrite (keys_sort _ _ Ho).
    rewrite twrite_layer; auto.
    unfold Ansatz.layer_vg. rewrite map_length, sort_length.
    transitivity (length (keys o)). unfold Ansatz.keys; rewrite map_length; auto.
    rewrite Ho. unfold Ansatz.keys; rewrite map_length; auto.
  Qed.

  (* ---- UCCGD ---- *)
  Lemma gvals_sub (o : op) : NoDup (keys o) -> forall sub, incl sub o ->
    gvals W C V weqb ang (keys sub) o = Ok (layer_vg sub).
  Proof.
    intros Hn. induction sub as [|[w c] r IH]; intros Hi; simpl; auto.
    rewrite (assoc_In w c o Hn) by (apply Hi; left; reflexivity).
    rewrite IH. reflexivity. intros x Hx. apply Hi. right. auto.
  Qed.
  Lemma gupdate_step (o o' : op) : dict_pair o o' ->
    gupdate W C V weqb ang (gbuild W C V ang o) o' = Ok (gbuild W C V ang o').
  Proof.
    intros [Hn [Hn' Ho]]. unfold gupdate. simpl gorder.
    destruct (keys_differ (keys o) (keys o')) eqn:E; auto.
    specialize (Ho eq_refl). rewrite Ho. rewrite (gvals_sub o' Hn' o') by (intros x; auto).
    simpl gvg. rewrite wblock_all. unfold gbuild. reflexivity.
    unfold Ansatz.layer_vg. rewrite !map_length.
    transitivity (length (keys o)). unfold Ansatz.keys; rewrite map_length; auto.
    rewrite Ho. unfold Ansatz.keys; rewrite map_length; auto.
  Qed.

  (* ---- layers ---- *)
  Lemma twrite_seg ws (o : op) : forall pre seg post seg',
    twrite (number 0 ws) o seg = Ok seg' ->
    twrite (number (length pre) ws) o (pre ++ seg ++ post) = Ok (pre ++ seg' ++ post).
  Proof.
    induction o as [|[w c] r IH]; intros pre seg post seg' H; simpl in *.
    - inversion H; auto.
    - replace (length pre) with (length pre + 0) by lia. rewrite tlookup_shift.
      destruct (tlookup w (number 0 ws)) as [i|e]; try discriminate.
      destruct (upd i (ang c) seg) as [seg1|e] eqn:E; try discriminate.
      rewrite (upd_app _ _ _ pre _ _ post E).
      replace (length pre + 0) with (length pre) by lia. apply IH. auto.
  Qed.

  Notation ltabs_fixed := (ltabs_fixed W C).
  Notation lloop := (lloop W C V weqb ang).

  (* old sorted layer s against the new (unsorted) dict o' of the same layer *)
  Definition layer_rel (s o' : op) : Prop :=
    NoDup (keys o') /\ (keys_differ (keys s) (keys o') = false -> keys s = keys (sort_len o')).

  Lemma lloop_ok ss os' : Forall2 layer_rel ss os' -> forall pre,
    lloop (ltabs_fixed (length pre) ss) os' (pre ++ concat (map layer_vg ss)) = Ok None
    \/ (lloop (ltabs_fixed (length pre) ss) os' (pre ++ concat (map layer_vg ss))
          = Ok (Some (pre ++ concat (map layer_vg (map sort_len os'))))
        /\ Forall2 (fun s o' => keys s = keys (sort_len o')) ss os').
  Proof.
    induction 1 as [|s o' sr or' [Hn Ho] HF IH]; intros pre.
    - right. simpl. auto.
    - simpl. rewrite map_fst_number.
      destruct (keys_differ (keys s) (keys o')) eqn:E; auto.
      specialize (Ho eq_refl).
      assert (length s = length o') as Hlen.
      { transitivity (length (keys s)). unfold Ansatz.keys; rewrite map_length; auto.
        rewrite Ho. unfold Ansatz.keys. rewrite map_length, sort_length. auto. }
      assert (twrite (number 0 (keys s)) o' (layer_vg s) = Ok (layer_vg (sort_len o'))) as Hw.
      { rewrite Ho. apply twrite_layer; auto. unfold Ansatz.layer_vg. rewrite map_length. auto. }
      rewrite (twrite_seg _ _ pre _ (concat (map layer_vg sr)) _ Hw).
      assert (length pre + length s = length (pre ++ layer_vg (sort_len o'))) as Hoff.
      { rewrite app_length. unfold Ansatz.layer_vg. rewrite map_length, sort_length. lia. }
      rewrite Hoff. rewrite app_assoc.
      destruct (IH (pre ++ layer_vg (sort_len o'))) as [H1|[H1 H2]]; auto.
      right. split; auto. rewrite H1. rewrite <- app_assoc. reflexivity.
  Qed.

  Lemma ltabs_fixed_keys ss ss' : Forall2 (fun s s' => keys s = keys s') ss ss' ->
    forall off, ltabs_fixed off ss = ltabs_fixed off ss' /\ concat (map keys ss) = concat (map keys ss').
  Proof.
    induction 1 as [|s s' r r' Hk HF IH]; intros off; simpl; auto.
    assert (length s = length s') as Hl.
    { transitivity (length (keys s)). unfold Ansatz.keys; rewrite map_length; auto.
      rewrite Hk. unfold Ansatz.keys; rewrite map_length; auto. }
    rewrite Hk, Hl. destruct (IH (off + length s')) as [H1 H2]. rewrite H1, H2. auto.
  Qed.

  Lemma lupdate_step (os os' : list op) : Forall2 dict_pair os os' ->
    lupdate W C V weqb wlen ang ltabs_fixed (lbuild W C V wlen ang ltabs_fixed os) os'
    = Ok (lbuild W C V wlen ang ltabs_fixed os').
  Proof.
    intros HF.
    assert (Forall2 layer_rel (map sort_len os) os') as HR.
    { induction HF as [|o o' r r' [Hn [Hn' Ho]] HF IH]; simpl; constructor; auto.
      split; auto. intros Hk. apply keys_sort. apply Ho.
      rewrite <- Hk. symmetry. apply keys_differ_perm, keys_sort_perm. }
    unfold lupdate. simpl ltabs. simpl lvg.
    destruct (lloop_ok _ _ HR []) as [H1|[H1 H2]]; simpl in H1; rewrite H1; auto.
    unfold lbuild. simpl.
    assert (Forall2 (fun s s' => keys s = keys s') (map sort_len os) (map sort_len os')) as HK.
    { clear - H2. remember (map sort_len os) as ss. clear Heqss.
      induction H2; simpl; constructor; auto. }
    destruct (ltabs_fixed_keys _ _ HK 0) as [E1 E2]. rewrite E1, E2. reflexivity.
  Qed.

  (* ---- with generators ---- *)
  Section Gen.
    Variable P : Type.
    Variable gen : P -> op.
    Hypothesis Hord : H_order W C weqb P gen.
    Hypothesis Hnd : H_nodup W C P gen.

    Lemma gen_dict_pair th th' : dict_pair (gen th) (gen th').
    Proof. split; [|split]; auto. Qed.

    Theorem uccsd_update_equiv_rebuild : forall ths th0,
      run_hist (uccsd_update W C V weqb wlen ang P gen) (uccsd_build W C V wlen ang P gen th0) ths
      = Ok (uccsd_build W C V wlen ang P gen (last ths th0)).
    Proof.
      apply (hist_generic _ _ (uccsd_update W C V weqb wlen ang P gen) (uccsd_build W C V wlen ang P gen)).
      intros th th'. apply tupdate_step, gen_dict_pair.
    Qed.

    Theorem uccgd_update_equiv_rebuild : forall ths th0,
      run_hist (uccgd_update W C V weqb ang P gen) (uccgd_build W C V ang P gen th0) ths
      = Ok (uccgd_build W C V ang P gen (last ths th0)).
    Proof.
      apply (hist_generic _ _ (uccgd_update W C V weqb ang P gen) (uccgd_build W C V ang P gen)).
      intros th th'. apply gupdate_step, gen_dict_pair.
    Qed.
  End Gen.

  Section GenLayers.
    Variable P : Type.
    Variable gens : P -> list op.
    Hypothesis HL : HL_layers W C P weqb gens.

    Theorem upccgsd_update_equiv_rebuild : forall ths th0,
      run_hist (upccgsd_update W C V P weqb wlen ang gens ltabs_fixed)
               (upccgsd_build W C V P wlen ang gens ltabs_fixed th0) ths
      = Ok (upccgsd_build W C V P wlen ang gens ltabs_fixed (last ths th0)).
    Proof.
      apply (hist_generic _ _ (upccgsd_update W C V P weqb wlen ang gens ltabs_fixed)
                          (upccgsd_build W C V P wlen ang gens ltabs_fixed)).
      intros th th'. apply lupdate_step. apply HL.
    Qed.
  End GenLayers.
End TableProofs.

(* ================================================================================================ *)
(* positional classes (HEA, RUCC, VariationalCircuitAnsatz)                                           *)
Section PositionalProofs.
  Variable V : Type.
  Lemma size_ok_iff n (th : list V) : size_ok V n th = true <-> length th = n.
  Proof. unfold size_ok. apply Nat.eqb_eq. Qed.

  (* accepted iff the length is n_var_params; an accepted vector overwrites every variational gate *)
  Lemma pos_update_spec n (v th : list V) : length v = n ->
    (length th = n /\ pos_update V n v th = Ok th) \/ (length th <> n /\ pos_update V n v th = Err ValueError).
  Proof.
    intros Hv. unfold pos_update. destruct (size_ok V n th) eqn:E.
    - apply size_ok_iff in E. left. split; auto. rewrite <- E, firstn_all. apply wblock_all. lia.
    - right. split; auto. intros H. apply size_ok_iff in H. congruence.
  Qed.

  Lemma pos_history n : forall ths v v', length v = n ->
    run_hist (pos_update V n) v ths = Ok v' -> v' = last ths v /\ length v' = n.
  Proof.
    induction ths as [|th r IH]; intros v v' Hv H; simpl in H.
    - inversion H; subst. auto.
    - destruct (pos_update_spec n v th Hv) as [[Hl E]|[Hl E]]; rewrite E in H; try discriminate.
      rewrite last_cons. apply IH; auto.
  Qed.
End PositionalProofs.

(* ================================================================================================ *)
(* pUCCD                                                                                              *)
Lemma exc_eqb_eq a b : exc_eqb a b = true <-> a = b.
Proof.
  destruct a as [a1 a2], b as [b1 b2]. unfold exc_eqb. simpl.
  rewrite andb_true_iff, !Nat.eqb_eq. split. intros [-> ->]; auto. intros H; inversion H; auto.
Qed.

Lemma place_perm n e L : Permutation (concat (map snd (place n e L))) (e :: concat (map snd L)).
Proof.
  induction L as [|[free es] r IH]; simpl. auto.
  destruct (nmem (fst e) free && nmem (snd e) free); simpl.
  - rewrite <- app_assoc. simpl. apply Permutation_sym, Permutation_middle.
  - eapply perm_trans. apply Permutation_app_head. exact IH. apply Permutation_sym, Permutation_middle.
Qed.
Lemma pack_fold_perm n exs : forall L,
  Permutation (concat (map snd (fold_left (fun L e => place n e L) exs L))) (concat (map snd L) ++ exs).
Proof.
  induction exs as [|e r IH]; intros L; simpl. rewrite app_nil_r. auto.
  eapply perm_trans. apply IH. eapply perm_trans. apply Permutation_app_tail. apply place_perm.
  simpl. apply Permutation_middle.
Qed.
(* layer packing only reorders the excitations: none lost, none duplicated (all n, all lists) *)
Lemma packed_perm n exs : Permutation (packed n exs) exs.
Proof. unfold packed, pack. apply (pack_fold_perm n exs [(seq 0 n, [])]). Qed.

Lemma NoDup_app_intro X (a b : list X) :
  NoDup a -> NoDup b -> (forall x, In x a -> In x b -> False) -> NoDup (a ++ b).
Proof.
  intros Ha Hb H. induction Ha as [|x r Hx Hr IH]; simpl; auto.
  constructor.
  - rewrite in_app_iff. intros [H1|H1]; auto. apply (H x); simpl; auto.
  - apply IH. intros y Hy. apply H. simpl; auto.
Qed.

Lemma NoDup_list_prod X Y (a : list X) (b : list Y) : NoDup a -> NoDup b -> NoDup (list_prod a b).
Proof.
  intros Ha Hb. induction Ha as [|x r Hx Hr IH]; simpl. constructor.
  apply NoDup_app_intro.
  - apply FinFun.Injective_map_NoDup; auto. intros y y' H. inversion H; auto.
  - auto.
  - intros [p q] H1 H2. apply in_map_iff in H1. destruct H1 as [y [E _]]. inversion E; subst.
    apply in_prod_iff in H2. tauto.
Qed.

Section PUCCDProofs.
  Variable V : Type.
  (* every variational gate of the packed order receives the parameter of ITS excitation,
     whatever the previous gate parameters were *)
  Lemma puccd_update_spec nocc nvirt (v th : list V) :
    length v = nocc * nvirt -> length th = nocc * nvirt ->
    exists v', puccd_update V nocc nvirt v th = Ok v' /\ length v' = nocc * nvirt /\
      forall j e i, nth_error (packed (nocc + nvirt) (puccd_excitations nocc nvirt)) j = Some e ->
                    nth_error (puccd_excitations nocc nvirt) i = Some e ->
                    nth_error v' j = nth_error th i.
  Proof.
    intros Hv Hth. unfold puccd_update, puccd_table.
    assert (length (puccd_excitations nocc nvirt) = nocc * nvirt) as Hex.
    { unfold puccd_excitations. change (length (list_prod (seq 0 nocc) (seq nocc nvirt)) = nocc * nvirt).
      rewrite prod_length, !seq_length. reflexivity. }
    assert (NoDup (puccd_excitations nocc nvirt)) as Hnd.
    { apply NoDup_list_prod; apply seq_NoDup. }
    set (exs := puccd_excitations nocc nvirt) in *.
    set (ws := packed (nocc + nvirt) exs).
    assert (Permutation ws exs) as Hp by apply packed_perm.
    assert (NoDup ws) as Hws by (eapply Permutation_NoDup; [apply Permutation_sym; eauto|auto]).
    assert (keys exc V (combine exs th) = exs) as Hk by (apply map_fst_combine; lia).
    replace (size_ok V (nocc * nvirt) th) with true by (symmetry; apply size_ok_iff; auto).
    destruct (twrite_spec exc V V exc_eqb exc_eqb_eq (fun _ => 0) (fun x => x) ws Hws (combine exs th) v) as [v' [Hw [Hl Hs]]].
    - rewrite Hk. auto.
    - rewrite Hk. intros x Hx. eapply Permutation_in. apply Permutation_sym; eauto. auto.
    - rewrite (Permutation_length Hp). lia.
    - exists v'. split; auto. split. rewrite Hl, (Permutation_length Hp). auto.
      intros j e i Hj Hi. rewrite (Hs j e Hj).
      destruct (nth_error th i) as [t|] eqn:Et.
      + rewrite (assoc_In exc V V exc_eqb exc_eqb_eq (fun _ => 0) (fun x => x) e t (combine exs th)); auto. rewrite Hk; auto.
        assert (nth_error (combine exs th) i = Some (e, t)) as Hc.
        { clear - Hi Et. revert th i Hi Et. induction exs as [|a r IH]; intros [|b th] [|i] Hi Et; simpl in *; try discriminate.
          inversion Hi; inversion Et; auto. apply IH; auto. }
        eapply nth_error_In; eauto.
      + exfalso. apply nth_error_None in Et. assert (i < length exs) by (apply nth_error_Some; congruence). lia.
  Qed.
End PUCCDProofs.

(* ================================================================================================ *)
(* ADAPT                                                                                              *)
Section ADAPTProofs.
  Variables Sg T V : Type.
  Variable mulp : Sg -> T -> V.
  Variable init : V.
  Notation adapt_inner := (adapt_inner Sg T V mulp).
  Notation adapt_loop := (adapt_loop Sg T V mulp).
  Notation adapt_layout := (adapt_layout Sg T V mulp).

  Lemma adapt_inner_ok t : forall (o : list Sg) pp pr vp vo vr,
    length pp = length vp -> length vo = length o ->
    adapt_inner (length pp) (length o) t (pp ++ o ++ pr) (vp ++ vo ++ vr)
    = Ok (vp ++ map (fun s => mulp s t) o ++ vr).
  Proof.
    induction o as [|s o IH]; intros pp pr vp vo vr Hp Hv; destruct vo as [|y vo]; simpl in Hv; try discriminate.
    - reflexivity.
    - simpl adapt_inner. rewrite nth_error_app2 by lia. rewrite Nat.sub_diag. simpl.
      rewrite Hp, upd_mid.
      replace (pp ++ s :: o ++ pr) with ((pp ++ [s]) ++ o ++ pr) by (rewrite <- app_assoc; reflexivity).
      replace (vp ++ mulp s t :: vo ++ vr) with ((vp ++ [mulp s t]) ++ vo ++ vr) by (rewrite <- app_assoc; reflexivity).
      replace (S (length vp)) with (length (pp ++ [s])) by (rewrite app_length; simpl; lia).
      rewrite IH. rewrite <- app_assoc. reflexivity.
      rewrite !app_length; simpl; lia. lia.
  Qed.

  Lemma adapt_inner_length t : forall n idx pf v v', adapt_inner idx n t pf v = Ok v' -> length v' = length v.
  Proof.
    induction n as [|n IH]; intros idx pf v v' H; simpl in H. inversion H; auto.
    destruct (nth_error pf idx); try discriminate.
    destruct (upd idx (mulp s t) v) as [v1|e] eqn:E; try discriminate.
    rewrite (IH _ _ _ _ H). eapply upd_length; eauto.
  Qed.
  Lemma adapt_loop_length nt : forall todo j th pf v v', adapt_loop nt j todo th pf v = Ok v' -> length v' = length v.
  Proof.
    induction todo as [|n r IH]; intros j th pf v v' H; simpl in H. inversion H; auto.
    destruct (nth_error th j); try discriminate.
    destruct (adapt_inner (sum (firstn j nt)) n t pf v) as [v1|e] eqn:E; try discriminate.
    rewrite (IH _ _ _ _ _ H). eapply adapt_inner_length; eauto.
  Qed.

  Lemma sum_map_length (ops : list (list Sg)) : sum (map (@length Sg) ops) = length (concat ops).
  Proof. induction ops as [|o r IH]; simpl; auto. rewrite app_length. unfold sum in *. simpl. rewrite IH. reflexivity. Qed.

  Lemma adapt_loop_ok : forall (td dn : list (list Sg)) thd tht vd vt pr,
    length thd = length dn -> length vd = length (concat dn) -> length vt = length (concat td) ->
    length td <= length tht ->
    adapt_loop (map (@length Sg) (dn ++ td)) (length dn) (map (@length Sg) td) (thd ++ tht)
               (concat dn ++ concat td ++ pr) (vd ++ vt)
    = Ok (vd ++ adapt_layout td tht).
  Proof.
    induction td as [|o td IH]; intros dn thd tht vd vt pr Hth Hvd Hvt Hlen.
    - simpl. destruct vt; simpl in Hvt; try discriminate. destruct tht; reflexivity.
    - destruct tht as [|t tht]; simpl in Hlen; try lia.
      simpl adapt_loop. rewrite nth_error_app2 by lia. rewrite Hth, Nat.sub_diag. simpl.
      rewrite map_app, firstn_app, map_length, Nat.sub_diag. simpl firstn at 2. rewrite app_nil_r.
      rewrite <- (map_length (@length Sg) dn) at 1. rewrite firstn_all, sum_map_length.
      simpl concat in *. rewrite app_length in Hvt.
      set (vo := firstn (length o) vt). set (vr := skipn (length o) vt).
      assert (vt = vo ++ vr) as Evt by (symmetry; apply firstn_skipn).
      assert (length vo = length o) as Hvo by (unfold vo; rewrite firstn_length; lia).
      rewrite Evt. rewrite <- (app_assoc o (concat td) pr). simpl map.
      rewrite (adapt_inner_ok t o (concat dn) (concat td ++ pr) vd vo vr); auto.
      replace (S (length dn)) with (length (dn ++ [o])) by (rewrite app_length; simpl; lia).
      replace (map (@length Sg) dn ++ length o :: map (@length Sg) td)
        with (map (@length Sg) ((dn ++ [o]) ++ td)) by (rewrite <- app_assoc, map_app; reflexivity).
      replace (thd ++ t :: tht) with ((thd ++ [t]) ++ tht) by (rewrite <- app_assoc; reflexivity).
      replace (concat dn ++ o ++ concat td ++ pr) with (concat (dn ++ [o]) ++ concat td ++ pr)
        by (rewrite concat_app; simpl; rewrite app_nil_r, <- app_assoc; reflexivity).
      replace (vd ++ map (fun s => mulp s t) o ++ vr) with ((vd ++ map (fun s => mulp s t) o) ++ vr)
        by (rewrite <- app_assoc; reflexivity).
      rewrite IH.
      + simpl. rewrite <- app_assoc. reflexivity.
      + rewrite !app_length. simpl. lia.
      + rewrite concat_app, !app_length, map_length. simpl. rewrite app_nil_r. lia.
      + assert (length vt = length vo + length vr) by (rewrite Evt, app_length; reflexivity). lia.
      + lia.
  Qed.

  Notation astate := (astate Sg V).
  Definition ainv (ops : list (list Sg)) (s : astate) : Prop :=
    nterms Sg V s = map (@length Sg) ops /\ prefs Sg V s = concat ops /\ length (avg Sg V s) = length (concat ops).

  (* on any state whose bookkeeping matches `ops`, an update with at least len(ops) parameters puts
     sign*theta_i on every gate of operator i  *)
  Lemma adapt_update_layout ops s th : ainv ops s -> length ops <= length th ->
    adapt_update Sg T V mulp s th = Ok (AState Sg V (nterms Sg V s) (prefs Sg V s) (adapt_layout ops th)).
  Proof.
    intros [Hn [Hp Hv]] Hl. unfold adapt_update. rewrite Hn, Hp.
    generalize (adapt_loop_ok ops [] [] th [] (avg Sg V s) [] eq_refl eq_refl Hv Hl).
    simpl. rewrite app_nil_r. intros ->. reflexivity.
  Qed.
  Lemma adapt_update_short ops s th : ainv ops s -> forall s', adapt_update Sg T V mulp s th = Ok s' -> ainv ops s'.
  Proof.
    intros [Hn [Hp Hv]] s' H. unfold adapt_update in H.
    destruct (adapt_loop (nterms Sg V s) 0 (nterms Sg V s) th (prefs Sg V s) (avg Sg V s)) as [v|e] eqn:E; inversion H; subst.
    split; [|split]; simpl; auto. rewrite (adapt_loop_length _ _ _ _ _ _ _ E). auto.
  Qed.
  Lemma adapt_add_inv ops s sg : ainv ops s -> ainv (ops ++ [sg]) (adapt_add Sg V init s sg).
  Proof.
    intros [Hn [Hp Hv]]. unfold adapt_add, ainv. simpl.
    rewrite Hn, Hp, map_app, concat_app, !app_length, repeat_length. simpl. rewrite app_nil_r. auto.
  Qed.
  Lemma adapt_fresh_inv ops : ainv ops (adapt_fresh Sg V init ops).
  Proof. unfold ainv, adapt_fresh. simpl. rewrite repeat_length. auto. Qed.

  Lemma adapt_hist_inv : forall h ops s s', ainv ops s ->
    run_hist (adapt_step Sg T V mulp init) s h = Ok s' -> ainv (ops ++ adds Sg T h) s'.
  Proof.
    induction h as [|[sg|th] r IH]; intros ops s s' Hi H; simpl in H.
    - inversion H; subst. simpl. rewrite app_nil_r. auto.
    - simpl adds. replace (ops ++ sg :: adds Sg T r) with ((ops ++ [sg]) ++ adds Sg T r) by (rewrite <- app_assoc; reflexivity).
      eapply IH; [|exact H]. apply adapt_add_inv; auto.
    - destruct (adapt_update Sg T V mulp s th) as [s1|e] eqn:E; try discriminate.
      simpl adds. eapply IH; [|exact H]. eapply adapt_update_short; eauto.
  Qed.

  (* after ANY history of add_operator / update_var_params calls, one more update with a vector of the
     advertised length leaves exactly the variational parameters of a fresh ADAPTAnsatz built from
     the same operators and that vector *)
  Theorem adapt_update_equiv_rebuild h s th :
    run_hist (adapt_step Sg T V mulp init) (adapt_fresh Sg V init []) h = Ok s ->
    length th = length (adds Sg T h) ->
    exists s1 s2, adapt_update Sg T V mulp s th = Ok s1 /\ adapt_build Sg T V mulp init (adds Sg T h) th = Ok s2
                  /\ avg Sg V s1 = avg Sg V s2 /\ avg Sg V s1 = adapt_layout (adds Sg T h) th
                  /\ nterms Sg V s1 = nterms Sg V s2 /\ prefs Sg V s1 = prefs Sg V s2.
  Proof.
    intros H Hl.
    assert (ainv (adds Sg T h) s) as Hi by (apply (adapt_hist_inv h [] _ s (adapt_fresh_inv [])); auto).
    assert (ainv (adds Sg T h) (adapt_fresh Sg V init (adds Sg T h))) as Hf by apply adapt_fresh_inv.
    unfold adapt_build. rewrite Hl, Nat.eqb_refl.
    rewrite (adapt_update_layout _ _ th Hi) by lia. rewrite (adapt_update_layout _ _ th Hf) by lia.
    do 2 eexists. split; [reflexivity|]. split; [reflexivity|]. simpl.
    destruct Hi as [A [B _]]. rewrite A, B. auto.
  Qed.
End ADAPTProofs.

(* ================================================================================================ *)
(* VSQS                                                                                               *)
Section VSQSProofs.
  Variables T C V : Type.
  Variable gu : T -> C -> V.
  Variable gb : T -> C -> option V.
  Notation cfg := (vsqs_cfg C).
  Notation ord := (ord C).
  Notation nvg := (n_var_gates C).
  Notation stride := (stride C).

  Lemma block_length X (c : cfg) (g : C -> X) q : length (block C c g q) = length q * ord c.
  Proof.
    unfold block, Ansatz.ord. destruct (order2 C c).
    rewrite app_length, !map_length, rev_length. lia. rewrite map_length. lia.
  Qed.

  Lemma getp_ok (th : list T) k d : k < length th -> getp T th k = Ok (nth k th d).
  Proof.
    intros H. unfold getp. destruct (nth_error th k) eqn:E.
    rewrite (nth_error_nth _ _ d E). reflexivity. apply nth_error_None in E. lia.
  Qed.

  Lemma upd_qu_op_ok (c : cfg) q t start pre old post :
    start = length pre -> length old = length q * ord c ->
    upd_qu_op T C V gu c q start t (length q) (pre ++ old ++ post) = Ok (pre ++ block C c (gu t) q ++ post).
  Proof.
    intros -> Ho. unfold upd_qu_op, block. unfold Ansatz.ord in Ho. destruct (order2 C c).
    - set (o1 := firstn (length q) old). set (o2 := skipn (length q) old).
      assert (old = o1 ++ o2) as E by (symmetry; apply firstn_skipn).
      assert (length o1 = length q) as H1 by (unfold o1; rewrite firstn_length; lia).
      assert (length o2 = length q) as H2.
      { assert (length old = length o1 + length o2) by (rewrite E, app_length; reflexivity). lia. }
      rewrite E, <- app_assoc.
      rewrite (wblock_ok V (map (gu t) q) pre o1 (o2 ++ post)) by (rewrite map_length; auto).
      replace (pre ++ map (gu t) q ++ o2 ++ post) with ((pre ++ map (gu t) q) ++ o2 ++ post)
        by (rewrite <- app_assoc; reflexivity).
      replace (length pre + length q) with (length (pre ++ map (gu t) q)) by (rewrite app_length, map_length; reflexivity).
      rewrite wblock_ok by (rewrite map_length, rev_length; auto).
      rewrite <- !app_assoc. reflexivity.
    - rewrite wblock_ok. reflexivity. rewrite map_length. lia.
  Qed.

  Lemma interval_layout_length X (c : cfg) (g : T -> C -> X) th i d :
    length (vsqs_interval_layout T C c g th i d) = nvg c.
  Proof.
    unfold vsqs_interval_layout, n_var_gates, n_nav. rewrite !app_length, !block_length.
    destruct (hnav C c); simpl. rewrite block_length. lia. lia.
  Qed.

  Lemma vsqs_interval_ok (c : cfg) off th i d pre old post :
    length pre = off + nvg c * i -> length old = nvg c -> stride c * i + stride c <= length th ->
    vsqs_interval T C V gu c off th i (pre ++ old ++ post) = Ok (pre ++ vsqs_interval_layout T C c gu th i d ++ post).
  Proof.
    intros Hp Ho Hth. unfold vsqs_interval, vsqs_interval_layout.
    set (n1 := length (hinit C c) * ord c). set (n2 := length (hfinal C c) * ord c).
    set (o1 := firstn n1 old). set (r1 := skipn n1 old). set (o2 := firstn n2 r1). set (o3 := skipn n2 r1).
    assert (old = o1 ++ o2 ++ o3) as E by (unfold o1, o2, o3, r1; rewrite !firstn_skipn; reflexivity).
    assert (length old = n1 + n2 + n_nav C c * ord c) as Ho' by (rewrite Ho; unfold n_var_gates, n1, n2; lia).
    assert (length o1 = n1) as H1 by (unfold o1; rewrite firstn_length; lia).
    assert (length r1 = n2 + n_nav C c * ord c) as Hr by (unfold r1; rewrite skipn_length; lia).
    assert (length o2 = n2) as H2 by (unfold o2; rewrite firstn_length; lia).
    assert (length o3 = n_nav C c * ord c) as H3 by (unfold o3; rewrite skipn_length; lia).
    clearbody o1 o2 o3. subst old. clear r1 Hr Ho' Ho.
    unfold n_nav in H3. unfold Ansatz.stride in *.
    destruct (hnav C c) as [qn|] eqn:En.
    - rewrite <- !app_assoc. rewrite (getp_ok th (3 * i) d) by lia.
      rewrite (upd_qu_op_ok c (hinit C c) _ _ pre o1 (o2 ++ o3 ++ post)); auto.
      rewrite (getp_ok th (3 * i + 1) d) by lia.
      replace (pre ++ block C c (gu (nth (3 * i) th d)) (hinit C c) ++ o2 ++ o3 ++ post)
        with ((pre ++ block C c (gu (nth (3 * i) th d)) (hinit C c)) ++ o2 ++ o3 ++ post)
        by (rewrite <- app_assoc; reflexivity).
      rewrite upd_qu_op_ok; auto.
      2:{ rewrite app_length, block_length. unfold n1 in *. lia. }
      rewrite (getp_ok th (3 * i + 2) d) by lia.
      replace ((pre ++ block C c (gu (nth (3 * i) th d)) (hinit C c)) ++
               block C c (gu (nth (3 * i + 1) th d)) (hfinal C c) ++ o3 ++ post)
        with (((pre ++ block C c (gu (nth (3 * i) th d)) (hinit C c)) ++
               block C c (gu (nth (3 * i + 1) th d)) (hfinal C c)) ++ o3 ++ post)
        by (rewrite <- !app_assoc; reflexivity).
      rewrite upd_qu_op_ok; auto.
      + rewrite <- !app_assoc. reflexivity.
      + rewrite !app_length, !block_length. unfold n1, n2 in *. lia.
    - simpl in H3. destruct o3; simpl in H3; try discriminate.
      rewrite <- !app_assoc. rewrite (getp_ok th (2 * i) d) by lia.
      rewrite (upd_qu_op_ok c (hinit C c) _ _ pre o1 (o2 ++ [] ++ post)); auto.
      rewrite (getp_ok th (2 * i + 1) d) by lia.
      replace (pre ++ block C c (gu (nth (2 * i) th d)) (hinit C c) ++ o2 ++ [] ++ post)
        with ((pre ++ block C c (gu (nth (2 * i) th d)) (hinit C c)) ++ o2 ++ post)
        by (rewrite <- app_assoc; reflexivity).
      rewrite upd_qu_op_ok; auto.
      + rewrite <- !app_assoc. simpl. reflexivity.
      + rewrite app_length, block_length. unfold n1 in *. lia.
  Qed.

  Lemma vsqs_loop_ok (c : cfg) off th d : forall m k pre rest,
    length pre = off + nvg c * k -> length rest = nvg c * m -> stride c * (k + m) <= length th ->
    vsqs_loop T C V gu c off th (seq k m) (pre ++ rest)
    = Ok (pre ++ flat_map (fun i => vsqs_interval_layout T C c gu th i d) (seq k m)).
  Proof.
    induction m as [|m IH]; intros k pre rest Hp Hr Hth.
    - destruct rest; simpl in Hr; try lia. reflexivity.
    - set (old := firstn (nvg c) rest). set (rest' := skipn (nvg c) rest).
      assert (rest = old ++ rest') as E by (symmetry; apply firstn_skipn).
      assert (length old = nvg c) as Hold by (unfold old; rewrite firstn_length; nia).
      assert (length rest' = nvg c * m) as Hrest by (unfold rest'; rewrite skipn_length; nia).
      rewrite E. simpl seq. simpl vsqs_loop.
      rewrite (vsqs_interval_ok c off th k d pre old rest') by (auto; nia).
      replace (pre ++ vsqs_interval_layout T C c gu th k d ++ rest')
        with ((pre ++ vsqs_interval_layout T C c gu th k d) ++ rest') by (rewrite <- app_assoc; reflexivity).
      rewrite IH.
      + simpl flat_map. rewrite <- app_assoc. reflexivity.
      + rewrite app_length, interval_layout_length. nia.
      + auto.
      + replace (S k + m) with (k + S m) by lia. auto.
  Qed.

  (* every write of update_var_params lands on the gate it belongs to: after the update the
     variational gates carry, interval by interval and term by term, prefac(theta)*coeff *)
  Lemma vsqs_update_ok (c : cfg) v th d :
    length v = nvg c * n_steps C c -> vsqs_n_var_params C c <= length th ->
    vsqs_update T C V gu c v th = Ok (vsqs_layout T C c gu th d).
  Proof.
    intros Hv Hth. unfold vsqs_update, vsqs_layout.
    apply (vsqs_loop_ok c 0 th d (n_steps C c) 0 [] v); simpl; auto.
    unfold vsqs_n_var_params in Hth. nia.
  Qed.

  Lemma layout_length X (c : cfg) (g : T -> C -> X) th d :
    length (vsqs_layout T C c g th d) = nvg c * n_steps C c.
  Proof.
    unfold vsqs_layout. generalize 0. induction (n_steps C c) as [|m IH]; intros k; simpl. lia.
    rewrite app_length, interval_layout_length, IH. lia.
  Qed.

  Lemma somes_all X (l : list (option X)) : Forall (fun x => x <> None) l -> length (somes l) = length l.
  Proof. induction 1 as [|[x|] r H HF IH]; simpl; auto. contradiction. Qed.

  (* the layout is the same list of (parameter, coefficient) slots whatever is put on them *)
  Lemma block_map X Y (c : cfg) (g : C -> X) (f : X -> Y) q : map f (block C c g q) = block C c (fun x => f (g x)) q.
  Proof. unfold block. destruct (order2 C c). rewrite map_app, !map_map. reflexivity. rewrite map_map. reflexivity. Qed.
  Lemma layout_map X (c : cfg) (g : T -> C -> X) th d :
    vsqs_layout T C c g th d = map (fun tc => g (fst tc) (snd tc)) (vsqs_layout T C c pair th d).
  Proof.
    unfold vsqs_layout. induction (seq 0 (n_steps C c)) as [|i r IH]; simpl; auto.
    rewrite map_app, <- IH. f_equal. unfold vsqs_interval_layout.
    rewrite !map_app, !block_map. destruct (hnav C c); simpl. rewrite block_map. reflexivity. reflexivity.
  Qed.

  (* ---- the repaired update: Python-int offset n_ref = len(variational gates) - n_var_gates*(intervals-1) ---- *)
  Lemma pyupd_nat X (s : nat) (x : X) l : pyupd (Z.of_nat s) x l = upd s x l.
  Proof.
    unfold pyupd. destruct (Z.of_nat s <? 0)%Z eqn:E. apply Z.ltb_lt in E. lia. rewrite Nat2Z.id. reflexivity.
  Qed.
  Lemma wblockz_nat X (vals : list X) : forall s l, wblockz (Z.of_nat s) vals l = wblock s vals l.
  Proof.
    induction vals as [|x r IH]; intros s l; simpl; auto. rewrite pyupd_nat. destruct (upd s x l); auto.
    replace (Z.of_nat s + 1)%Z with (Z.of_nat (S s)) by lia. apply IH.
  Qed.
  Lemma upd_qu_op_z_nat (c : cfg) q s t num v :
    upd_qu_op_z T C V gu c q (Z.of_nat s) t num v = upd_qu_op T C V gu c q s t num v.
  Proof.
    unfold upd_qu_op_z, upd_qu_op. rewrite wblockz_nat. destruct (wblock s (map (gu t) q) v); auto.
    destruct (order2 C c); auto. rewrite <- Nat2Z.inj_add. apply wblockz_nat.
  Qed.
  Lemma vsqs_interval_z_nat (c : cfg) off th i v :
    vsqs_interval_z T C V gu c (Z.of_nat off) th i v = vsqs_interval T C V gu c off th i v.
  Proof.
    unfold vsqs_interval_z, vsqs_interval. cbv zeta.
    destruct (getp T th (stride c * i)) as [t0|e]; auto.
    rewrite <- Nat2Z.inj_add, upd_qu_op_z_nat.
    destruct (upd_qu_op T C V gu c (hinit C c) (off + nvg c * i) t0 (length (hinit C c)) v) as [v1|e]; auto.
    destruct (getp T th (stride c * i + 1)) as [t1|e]; auto.
    rewrite <- Nat2Z.inj_add, upd_qu_op_z_nat.
    destruct (upd_qu_op T C V gu c (hfinal C c) (off + nvg c * i + length (hinit C c) * ord c) t1 (length (hfinal C c)) v1) as [v2|e]; auto.
    destruct (hnav C c) as [qn|]; auto.
    destruct (getp T th (stride c * i + 2)) as [t2|e]; auto.
    rewrite <- Nat2Z.inj_add. apply upd_qu_op_z_nat.
  Qed.
  Lemma vsqs_loop_z_nat (c : cfg) off th : forall is v,
    vsqs_loop_z T C V gu c (Z.of_nat off) th is v = vsqs_loop T C V gu c off th is v.
  Proof.
    induction is as [|i r IH]; intros v; simpl; auto. rewrite vsqs_interval_z_nat.
    destruct (vsqs_interval T C V gu c off th i v); auto.
  Qed.

  (* for ANY prefix of variational gates coming from the reference circuit, an update of the advertised
     length writes exactly the VSQS segment; any other length is rejected *)
  Lemma vsqs_update_fixed_ok (c : cfg) pre w th d :
    length w = nvg c * n_steps C c -> length th = vsqs_n_var_params C c ->
    vsqs_update_fixed T C V gu c (pre ++ w) th = Ok (pre ++ vsqs_layout T C c gu th d).
  Proof.
    intros Hw Hth. unfold vsqs_update_fixed. rewrite Hth, Nat.eqb_refl.
    replace (Z.of_nat (length (pre ++ w)) - Z.of_nat (nvg c * n_steps C c))%Z with (Z.of_nat (length pre))
      by (rewrite app_length, Hw; lia).
    rewrite vsqs_loop_z_nat. unfold vsqs_layout.
    apply (vsqs_loop_ok c (length pre) th d (n_steps C c) 0 pre w); auto. nia.
    unfold vsqs_n_var_params in Hth. nia.
  Qed.
  Lemma vsqs_update_fixed_size (c : cfg) v th :
    length th <> vsqs_n_var_params C c -> vsqs_update_fixed T C V gu c v th = Err ValueError.
  Proof.
    intros H. unfold vsqs_update_fixed. destruct (length th =? vsqs_n_var_params C c) eqn:E; auto.
    apply Nat.eqb_eq in E. contradiction.
  Qed.

  Variable R : V -> V -> Prop.
  Hypothesis Hrel : forall t c v, gb t c = Some v -> R v (gu t c).

  Lemma somes_rel (L : list (T * C)) :
    Forall (fun x => x <> None) (map (fun tc => gb (fst tc) (snd tc)) L) ->
    Forall2 R (somes (map (fun tc => gb (fst tc) (snd tc)) L)) (map (fun tc => gu (fst tc) (snd tc)) L).
  Proof.
    induction L as [|[t c] r IH]; simpl; intros H. constructor.
    inversion H as [|? ? H1 H2]; subst. simpl in H1.
    destruct (gb t c) as [v|] eqn:E. constructor; auto. contradiction.
  Qed.

  Definition no_drop (c : cfg) th d : Prop := Forall (fun x => x <> None) (vsqs_layout T C c gb th d).

  (* vsqs_offsets: when build_circuit emitted all n_var_gates gates per interval (no coefficient*time
     below the 1e-10 cut), any later update with at least n_var_params parameters succeeds and the
     gates carry exactly the slots of the layout; a fresh build with those parameters fills the same
     slots with R-related values (R: equal modulo 4*pi, the `2c / 4pi+2c` rule). *)
  Theorem vsqs_offsets (c : cfg) th0 th d :
    no_drop c th0 d -> vsqs_n_var_params C c <= length th ->
    vsqs_update T C V gu c (vsqs_build T C V gb c th0 d) th = Ok (vsqs_layout T C c gu th d)
    /\ (no_drop c th d -> Forall2 R (vsqs_build T C V gb c th d) (vsqs_layout T C c gu th d)).
  Proof.
    intros Hnd Hth. split.
    - apply vsqs_update_ok; auto. unfold vsqs_build. rewrite (somes_all _ _ Hnd). apply layout_length.
    - intros Hnd'. unfold vsqs_build, no_drop in *. rewrite (layout_map _ c gb) in *. rewrite (layout_map _ c gu).
      apply somes_rel. auto.
  Qed.

  (* the full statement on the repaired code: whatever variational gates the user's reference circuit has *)
  Theorem vsqs_offsets_any_reference (c : cfg) (pre : list V) th0 th d :
    no_drop c th0 d ->
    (length th = vsqs_n_var_params C c ->
       vsqs_update_fixed T C V gu c (pre ++ vsqs_build T C V gb c th0 d) th = Ok (pre ++ vsqs_layout T C c gu th d))
    /\ (length th <> vsqs_n_var_params C c ->
       vsqs_update_fixed T C V gu c (pre ++ vsqs_build T C V gb c th0 d) th = Err ValueError).
  Proof.
    intros Hnd. split; intros Hth.
    - apply vsqs_update_fixed_ok; auto. unfold vsqs_build. rewrite (somes_all _ _ Hnd). apply layout_length.
    - apply vsqs_update_fixed_size; auto.
  Qed.

  (* ---- source-selected variants ---- *)
  Variable gbv : T -> C -> V.
  Hypothesis Hrelv : forall t c, R (gbv t c) (gu t c).

  Lemma vsqs_update_src_fixed (c : cfg) v th :
    vsqs_update_src T C V gu true true c v th = vsqs_update_fixed T C V gu c v th.
  Proof.
    unfold vsqs_update_src, vsqs_update_fixed. destruct (length th =? vsqs_n_var_params C c); reflexivity.
  Qed.
  Lemma map_rel X (f g : X -> V) (L : list X) : (forall x, R (f x) (g x)) -> Forall2 R (map f L) (map g L).
  Proof. intros H. induction L; simpl; constructor; auto. Qed.

  (* the full statement for the code as it is now (build emits every gate; size test; offsets from n_ref):
     no hypothesis on the parameter values any more *)
  Theorem vsqs_src_full (c : cfg) (pre : list V) th0 th d :
    (length th = vsqs_n_var_params C c ->
       vsqs_update_src T C V gu true true c (pre ++ vsqs_build_src T C V gb gbv false c th0 d) th
       = Ok (pre ++ vsqs_layout T C c gu th d))
    /\ (length th <> vsqs_n_var_params C c ->
       vsqs_update_src T C V gu true true c (pre ++ vsqs_build_src T C V gb gbv false c th0 d) th = Err ValueError)
    /\ Forall2 R (vsqs_build_src T C V gb gbv false c th d) (vsqs_layout T C c gu th d).
  Proof.
    unfold vsqs_build_src. split; [|split].
    - intros Hth. rewrite vsqs_update_src_fixed. apply vsqs_update_fixed_ok; auto. apply layout_length.
    - intros Hth. rewrite vsqs_update_src_fixed. apply vsqs_update_fixed_size; auto.
    - rewrite (layout_map _ c gbv), (layout_map _ c gu). apply map_rel. intros [t x]; simpl; auto.
  Qed.
End VSQSProofs.

(* ================================================================================================ *)
(* counting                                                                                           *)
Lemma combs2_double X (l : list X) : 2 * length (combs2 l) = length l * (length l - 1).
Proof.
  induction l as [|x r IH]; simpl; auto.
  rewrite app_length, map_length. destruct (length r) as [|n] eqn:E; simpl in *; nia.
Qed.
Lemma half_double a c : 2 * c = a -> a / 2 = c.
Proof. intros <-. rewrite Nat.mul_comm. apply Nat.div_mul. lia. Qed.
Lemma combs2_length X (l : list X) : length (combs2 l) = length l * (length l - 1) / 2.
Proof. symmetry. apply half_double, combs2_double. Qed.

Theorem uccsd_singlet_count nocc nvirt : uccsd_singlet_params nocc nvirt = uccsd_singlet_closed nocc nvirt.
Proof.
  unfold uccsd_singlet_params, uccsd_singlet_closed, uccsd_singles.
  generalize (combs2_double _ (list_prod (seq 0 nvirt) (seq 0 nocc))).
  rewrite prod_length, !seq_length. set (c := length (combs2 _)). rewrite (Nat.mul_comm nvirt nocc).
  set (s := nocc * nvirt). intros H.
  assert (s * (s + 1) = 2 * (s + c)) as E by (destruct s; simpl in *; nia).
  rewrite E, (Nat.mul_comm 2), Nat.div_mul by lia. lia.
Qed.

Lemma quarter a b c1 c2 : 2 * c1 = a -> 2 * c2 = b -> a * b / 4 = c1 * c2.
Proof. intros <- <-. replace (2 * c1 * (2 * c2)) with (c1 * c2 * 4) by nia. apply Nat.div_mul. lia. Qed.

Theorem uccsd_openshell_count na nb oa ob : uccsd_open_params na nb oa ob = uccsd_open_closed na nb oa ob.
Proof.
  unfold uccsd_open_params, uccsd_open_closed. rewrite !prod_length, !seq_length.
  set (va := oa - na). set (vb := ob - nb).
  generalize (combs2_double _ (seq 0 na)) (combs2_double _ (seq 0 va))
             (combs2_double _ (seq 0 nb)) (combs2_double _ (seq 0 vb)).
  rewrite !seq_length. intros H1 H2 H3 H4.
  replace (na * (na - 1) * va * (va - 1)) with ((na * (na - 1)) * (va * (va - 1))) by nia.
  replace (nb * (nb - 1) * vb * (vb - 1)) with ((nb * (nb - 1)) * (vb * (vb - 1))) by nia.
  rewrite (quarter _ _ _ _ H1 H2), (quarter _ _ _ _ H3 H4). nia.
Qed.

Lemma flat_map_dup_length X (l : list X) : length (flat_map (fun x => [x; x]) l) = 2 * length l.
Proof. induction l; simpl; auto. rewrite IHl. lia. Qed.
Theorem upccgsd_count n k : k * upccgsd_layer_terms n = upccgsd_closed n k.
Proof.
  unfold upccgsd_layer_terms, upccgsd_closed. rewrite flat_map_dup_length.
  generalize (combs2_double _ (seq 0 n)). rewrite seq_length. intros H.
  rewrite (half_double _ _ H). reflexivity.
Qed.

Theorem puccd_count nocc nvirt : length (puccd_excitations nocc nvirt) = nocc * nvirt.
Proof.
  unfold puccd_excitations. change (length (list_prod (seq 0 nocc) (seq nocc nvirt)) = nocc * nvirt).
  rewrite prod_length, !seq_length. reflexivity.
Qed.

Lemma filter_repeat_true n : filter (fun b : bool => b) (repeat true n) = repeat true n.
Proof. induction n; simpl; f_equal; auto. Qed.
Lemma filter_repeat_false n : filter (fun b : bool => b) (repeat false n) = [].
Proof. induction n; simpl; auto. Qed.
Lemma hea_rot_count nq per : length (filter (fun b : bool => b) (hea_rot_layer nq per)) = nq * per.
Proof.
  unfold hea_rot_layer. induction per as [|p IH]; simpl. lia.
  rewrite filter_app, app_length, IH, filter_repeat_true, repeat_length. lia.
Qed.
Theorem hea_count nq per layers : hea_params nq per layers = nq * per * (layers + 1).
Proof.
  unfold hea_params. induction layers as [|l IH]; simpl.
  - rewrite hea_rot_count. lia.
  - rewrite !filter_app, !app_length, IH. unfold hea_ent_layer. rewrite filter_repeat_false, hea_rot_count. simpl. lia.
Qed.

(* ================================================================================================ *)
(* small facts used by props/C07.v                                                                    *)
(* for k <= 2 layers the offsets as written coincide with the running sums *)
Lemma ltabs_asis_le2 W C (ss : list (op W C)) : length ss <= 2 -> ltabs_asis W C 0 ss = ltabs_fixed W C 0 ss.
Proof. destruct ss as [|a [|b [|c r]]]; simpl; intros H; try reflexivity. lia. Qed.

(* all-zero parameters: the generated operator is empty (every coefficient is removed by compress),
   hence the ansatz contributes no gate at all: the circuit is the reference circuit *)
Lemma tbuild_empty W C V wlen ang : tbuild W C V wlen ang [] = TState W V [] [] [].
Proof. reflexivity. Qed.
Lemma gbuild_empty W C V ang : gbuild W C V ang [] = GState W V [] [].
Proof. reflexivity. Qed.
Lemma lbuild_empty W C V wlen ang mk (os : list (op W C)) :
  Forall (fun o => o = []) os ->
  lwords W V (lbuild W C V wlen ang mk os) = [] /\ lvg W V (lbuild W C V wlen ang mk os) = [].
Proof. induction 1 as [|o r Ho HF [IH1 IH2]]; simpl; auto. subst o. simpl in *. auto. Qed.

(* update_var_params of VSQS / ADAPT has no size test: longer vectors go through *)
Lemma firstn_layout_ignored_vsqs T C V gu (c : vsqs_cfg C) v th extra d :
  length v = n_var_gates C c * n_steps C c -> length th = vsqs_n_var_params C c ->
  vsqs_update T C V gu c v (th ++ extra) = Ok (vsqs_layout T C c gu (th ++ extra) d).
Proof. intros Hv Hth. apply vsqs_update_ok; auto. rewrite app_length. lia. Qed.

Lemma uccgd_count_upto_9 :
  forall n, n <= 9 -> uccgd_params n = uccgd_closed n /\ uccgd_closed n = n * (n + 1) * (n + 2) * (n + 3) / 24 - n.
Proof.
  assert (forallb (fun n => (uccgd_params n =? uccgd_closed n)
                            && (uccgd_closed n =? n * (n + 1) * (n + 2) * (n + 3) / 24 - n)) (seq 0 10) = true) as H
    by (vm_compute; reflexivity).
  intros n Hn. rewrite forallb_forall in H. specialize (H n). rewrite in_seq in H.
  assert (0 <= n < 0 + 10) as Hr by lia. specialize (H Hr).
  apply andb_true_iff in H. destruct H as [H1 H2]. apply Nat.eqb_eq in H1, H2. auto.
Qed.

Lemma zero_params_empty W C V wlen ang :
  tbuild W C V wlen ang [] = TState W V [] [] [] /\ gbuild W C V ang [] = GState W V [] [].
Proof. split. apply tbuild_empty. apply gbuild_empty. Qed.
