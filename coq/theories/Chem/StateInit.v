(* StateInit.v — the one-qubit step of tangelo/linq/helpers/circuits/statevector.py (definitions only).
   StateVector._bloch_angles(a, b) returns, for the amplitude pair (a, b) of the least significant qubit,
       theta = 2*arccos(|a| / r),  phi = arg b - arg a,  remains = r * exp(i*(arg a + arg b)/2),  r = sqrt(|a|^2+|b|^2)
   (all zero when r < eps) and _rotations_to_disentangle hands  -phi to RZ and -theta to RY; the uncomputing
   circuit applies the RZ multiplexor first, then the RY multiplexor.  On one pair this is the matrix
       RY(-theta) * RZ(-phi)  applied to  (a, b).                                                         *)
From Coq Require Import Reals.
From Tangelo Require Import Num.KStruct Num.CReal QSem.State.
Local Open Scope R_scope.

Section Apply.
  Variable S : KS.
  Definition mapply (u : mat2 S) (a b : K S) : K S * K S :=
    (kadd (kmul (m00 u) a) (kmul (m01 u) b), kadd (kmul (m10 u) a) (kmul (m11 u) b)).
  (* the disentangling matrix for the angles (theta, phi) computed by _bloch_angles *)
  Definition disentangler (theta phi : A S) : mat2 S := mmul S (mRY S (aopp theta)) (mRZ S (aopp phi)).
End Apply.

(* a complex number given by modulus and argument (np.absolute, np.angle) *)
Definition polar (m al : R) : C := (m * cos al, m * sin al).

Definition bloch_r (ma mb : R) : R := sqrt (ma * ma + mb * mb).
(* theta = 2*arccos(|a|/r) is characterised by its half-angle values (arccos maps [0,1] to [0, pi/2]):
   cos(theta/2) = |a|/r and sin(theta/2) = |b|/r.  Reals.Ratan.acos depends on Classical_Prop.classic, which is
   not among the axioms allowed in this development, so the theorem is stated for every theta with these
   two values instead of for the term 2 * acos (|a|/r). *)
Definition is_bloch_theta (ma mb theta : R) : Prop :=
  cos (theta / 2) = ma / bloch_r ma mb /\ sin (theta / 2) = mb / bloch_r ma mb.
Definition bloch_phi (al be : R) : R := be - al.
Definition bloch_t (al be : R) : R := al + be.
(* "remains": r * e^{i t / 2}  (Ccis t = e^{i t/2}) *)
Definition bloch_remains (ma mb al be : R) : C := Cmul (bloch_r ma mb, 0) (Ccis (bloch_t al be)).
