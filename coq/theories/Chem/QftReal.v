(* QftReal.v — the real-number instance of the angle family: hp k = pi / 2^k. *)
From Coq Require Import Reals Lra.
From Tangelo Require Import Num.KStruct Num.CReal.
Local Open Scope R_scope.

Definition rhp (k : nat) : R := PI / 2 ^ k.

Lemma rhp_0 : rhp 0 = @api CRealS.
Proof. unfold rhp. change (@api CRealS) with PI. rewrite pow_O. field. Qed.

Lemma rhp_S (k : nat) : @aadd CRealS (rhp (S k)) (rhp (S k)) = rhp k.
Proof.
  change (rhp (S k) + rhp (S k) = rhp k). unfold rhp. rewrite <- tech_pow_Rmult.
  assert (H : 2 ^ k <> 0) by (apply pow_nonzero; lra). field. exact H.
Qed.
