(* IntegralsProofs.v — lemmas about Chem/Integrals.v (C04; reused by C13).
   1. partition produced by convert_frozen_orbitals   2. electron / spin bookkeeping
   3. finite-sum algebra over an arbitrary commutative ring with 1/2
   4. folding frozen orbitals preserves Slater-Condon energies (restricted and unrestricted)
   5. spin-orbital assembly (spinorb_from_spatial / UHF blocks) vs spatial Slater-Condon energies
   6. index conventions (numpy transposes) *)
From Coq Require Import List ZArith Bool Arith Lia Ring Permutation Sorted.
From Tangelo Require Import Chem.Integrals.
Import ListNotations.

(* ================================================================== 1. list facts, partition *)
Lemma NoDup_app_intro {X} (l1 l2 : list X) :
  NoDup l1 -> NoDup l2 -> (forall x, In x l1 -> ~ In x l2) -> NoDup (l1 ++ l2).
Proof.
  induction l1 as [|a l1 IH]; simpl; intros H1 H2 H12; auto.
  inversion H1; subst. constructor.
  - rewrite in_app_iff. intros [Hin | Hin]; [tauto | exact (H12 a (or_introl eq_refl) Hin)].
  - apply IH; auto.
Qed.

Lemma NoDup_map_inj_on {X Y} (f : X -> Y) (l : list X) :
  NoDup l -> (forall x y, In x l -> In y l -> f x = f y -> x = y) -> NoDup (map f l).
Proof.
  induction l as [|a l IH]; simpl; intros Hnd Hinj; [constructor|].
  inversion Hnd; subst. constructor.
  - rewrite in_map_iff. intros [y [Hy Hin]].
    assert (y = a) by (apply Hinj; auto). subst. contradiction.
  - apply IH; auto.
Qed.

Lemma zmem_spec z l : zmem z l = true <-> exists n, In n l /\ Z.of_nat n = z.
Proof.
  unfold zmem. rewrite existsb_exists. split; intros [n [Hin He]]; exists n; split; auto.
  - apply Z.eqb_eq; auto.
  - apply Z.eqb_eq; auto.
Qed.

Lemma nmem_spec n l : nmem n l = true <-> In n l.
Proof.
  unfold nmem. rewrite existsb_exists. split.
  - intros [m [Hin He]]. apply Nat.eqb_eq in He. subst; auto.
  - intro Hin. exists n. split; auto. apply Nat.eqb_refl.
Qed.

Lemma occupied_spec occ i : In i (occupied occ) <-> i < length occ /\ 0 < occ_at occ i.
Proof.
  unfold occupied. rewrite filter_In, in_seq, Nat.ltb_lt. lia.
Qed.
Lemma virtual_spec occ i : In i (virtual occ) <-> i < length occ /\ occ_at occ i = 0.
Proof.
  unfold virtual. rewrite filter_In, in_seq, Nat.eqb_eq. lia.
Qed.

Lemma filter_sorted (f : nat -> bool) l : StronglySorted lt l -> StronglySorted lt (filter f l).
Proof.
  induction 1 as [|a l Hs IH Hall]; simpl; [constructor|].
  destruct (f a); auto. constructor; auto.
  rewrite Forall_forall in *. intros x Hx. apply filter_In in Hx. apply Hall; tauto.
Qed.
Lemma seq_sorted s n : StronglySorted lt (seq s n).
Proof.
  revert s; induction n as [|n IH]; intro s; simpl; constructor; auto.
  rewrite Forall_forall. intros x Hx. apply in_seq in Hx. lia.
Qed.
Lemma sorted_NoDup l : StronglySorted lt l -> NoDup l.
Proof.
  induction 1 as [|a l Hs IH Hall]; constructor; auto.
  rewrite Forall_forall in Hall. intro Hin. specialize (Hall a Hin). lia.
Qed.

(* the frozen part: elements of the user list that are members of the class (in user order) *)
Lemma frozen_class_spec (cls : list nat) (fz : list Z) i :
  In i (map Z.to_nat (filter (fun z => zmem z cls) fz)) <-> In i cls /\ In (Z.of_nat i) fz.
Proof.
  rewrite in_map_iff. split.
  - intros [z [Hz Hin]]. apply filter_In in Hin. destruct Hin as [Hin Hm].
    apply zmem_spec in Hm. destruct Hm as [n [Hn He]]. subst z. rewrite Nat2Z.id in Hz. subst. auto.
  - intros [Hc Hf]. exists (Z.of_nat i). split; [apply Nat2Z.id|].
    apply filter_In. split; auto. apply zmem_spec. exists i; auto.
Qed.
Lemma frozen_class_NoDup (cls : list nat) (fz : list Z) :
  NoDup fz -> NoDup (map Z.to_nat (filter (fun z => zmem z cls) fz)).
Proof.
  intro Hnd. apply NoDup_map_inj_on.
  - apply NoDup_filter; auto.
  - intros x y Hx Hy He. apply filter_In in Hx. apply filter_In in Hy.
    destruct Hx as [_ Hx]. destruct Hy as [_ Hy].
    apply zmem_spec in Hx. apply zmem_spec in Hy.
    destruct Hx as [n [_ Hn]]. destruct Hy as [m [_ Hm]]. subst. rewrite !Nat2Z.id in He. subst; auto.
Qed.

Definition all_orbs (p : part) : list nat := aocc p ++ focc p ++ avir p ++ fvir p.

Lemma active_class_spec (cls : list nat) (fz : list Z) i :
  In i (filter (fun i => negb (nmem i (map Z.to_nat (filter (fun z => zmem z cls) fz)))) cls)
  <-> In i cls /\ ~ In (Z.of_nat i) fz.
Proof.
  rewrite filter_In, negb_true_iff. split.
  - intros [Hc Hn]. split; auto. intro Hf.
    assert (nmem i (map Z.to_nat (filter (fun z => zmem z cls) fz)) = true) as Hm.
    { apply nmem_spec. apply frozen_class_spec. auto. }
    congruence.
  - intros [Hc Hn]. split; auto.
    destruct (nmem i (map Z.to_nat (filter (fun z => zmem z cls) fz))) eqn:E; auto.
    apply nmem_spec in E. apply frozen_class_spec in E. tauto.
Qed.

(* membership characterisation of the four lists *)
Lemma split_one_spec occ fz i :
  let p := split_one occ fz in
  (In i (focc p) <-> i < length occ /\ 0 < occ_at occ i /\ In (Z.of_nat i) fz) /\
  (In i (aocc p) <-> i < length occ /\ 0 < occ_at occ i /\ ~ In (Z.of_nat i) fz) /\
  (In i (fvir p) <-> i < length occ /\ occ_at occ i = 0 /\ In (Z.of_nat i) fz) /\
  (In i (avir p) <-> i < length occ /\ occ_at occ i = 0 /\ ~ In (Z.of_nat i) fz).
Proof.
  simpl. rewrite !frozen_class_spec, !active_class_spec, occupied_spec, virtual_spec. tauto.
Qed.

Lemma split_one_NoDup occ fz : NoDup fz -> NoDup (all_orbs (split_one occ fz)).
Proof.
  intro Hnd. unfold all_orbs.
  pose proof (split_one_spec occ fz) as Hs. cbv zeta in Hs.
  assert (Ha : NoDup (aocc (split_one occ fz))).
  { simpl. apply NoDup_filter. apply sorted_NoDup. apply filter_sorted. apply seq_sorted. }
  assert (Hv : NoDup (avir (split_one occ fz))).
  { simpl. apply NoDup_filter. apply sorted_NoDup. apply filter_sorted. apply seq_sorted. }
  assert (Hfo : NoDup (focc (split_one occ fz))) by (simpl; apply frozen_class_NoDup; auto).
  assert (Hfv : NoDup (fvir (split_one occ fz))) by (simpl; apply frozen_class_NoDup; auto).
  apply NoDup_app_intro; auto.
  - apply NoDup_app_intro; auto.
    + apply NoDup_app_intro; auto.
      intros x Hx Hy. apply (Hs x) in Hx. apply (Hs x) in Hy. tauto.
    + intros x Hx Hy. apply in_app_iff in Hy. apply (Hs x) in Hx.
      destruct Hy as [Hy | Hy]; apply (Hs x) in Hy; lia.
  - intros x Hx Hy. rewrite !in_app_iff in Hy. apply (Hs x) in Hx.
    destruct Hy as [Hy | [Hy | Hy]]; apply (Hs x) in Hy; try lia; tauto.
Qed.

Lemma split_one_cover occ fz i : In i (all_orbs (split_one occ fz)) <-> i < length occ.
Proof.
  unfold all_orbs. rewrite !in_app_iff.
  pose proof (split_one_spec occ fz i) as Hs. cbv zeta in Hs.
  destruct Hs as [H1 [H2 [H3 H4]]]. rewrite H1, H2, H3, H4.
  split.
  - intros [H|[H|[H|H]]]; tauto.
  - intro H. destruct (in_dec Z.eq_dec (Z.of_nat i) fz); destruct (Nat.eq_dec (occ_at occ i) 0).
    + right; right; right. tauto.
    + right; left. split; [tauto|]. split; [lia|tauto].
    + right; right; left. tauto.
    + left. split; [tauto|]. split; [lia|tauto].
Qed.

Theorem split_one_partition occ fz :
  NoDup fz -> Permutation (all_orbs (split_one occ fz)) (seq 0 (length occ)).
Proof.
  intro Hnd. apply NoDup_Permutation.
  - apply split_one_NoDup; auto.
  - apply seq_NoDup.
  - intro x. rewrite split_one_cover, in_seq. lia.
Qed.

Lemma split_one_active_sorted occ fz :
  StronglySorted lt (aocc (split_one occ fz)) /\ StronglySorted lt (avir (split_one occ fz)).
Proof. simpl. split; apply filter_sorted; apply filter_sorted; apply seq_sorted. Qed.

(* frozen lists keep the user's order; sorted when the user list is *)
Lemma map_filter_sorted (cls : list nat) (fz : list Z) :
  StronglySorted Z.lt fz -> StronglySorted lt (map Z.to_nat (filter (fun z => zmem z cls) fz)).
Proof.
  induction 1 as [|a l Hs IH Hall]; simpl; [constructor|].
  destruct (zmem a cls) eqn:E; auto. simpl. constructor; auto.
  rewrite Forall_forall in *. intros x Hx. apply in_map_iff in Hx. destruct Hx as [z [Hz Hin]].
  apply filter_In in Hin. destruct Hin as [Hin Hm]. specialize (Hall z Hin).
  apply zmem_spec in E. destruct E as [n [_ Hn]]. apply zmem_spec in Hm. destruct Hm as [m [_ Hm]]. subst.
  rewrite !Nat2Z.id. lia.
Qed.
Lemma split_one_frozen_sorted occ fz :
  StronglySorted Z.lt fz ->
  StronglySorted lt (focc (split_one occ fz)) /\ StronglySorted lt (fvir (split_one occ fz)).
Proof. intro H. simpl. split; apply map_filter_sorted; auto. Qed.

(* electrons: sum of occupations over a list; invariant under permutation *)
Lemma nel_app occ l1 l2 : nel occ (l1 ++ l2) = nel occ l1 + nel occ l2.
Proof. induction l1; simpl; auto. rewrite IHl1. lia. Qed.
Lemma nel_perm occ l1 l2 : Permutation l1 l2 -> nel occ l1 = nel occ l2.
Proof. induction 1; simpl; lia. Qed.
Lemma nel_zero occ l : (forall i, In i l -> occ_at occ i = 0) -> nel occ l = 0.
Proof.
  induction l as [|a l IH]; simpl; intro H; auto.
  rewrite (H a), IH; auto.
Qed.
Lemma nel_seq_total occ : nel occ (seq 0 (length occ)) = fold_right Nat.add 0 occ.
Proof.
  unfold occ_at.
  assert (G : forall l pre, nel (pre ++ l) (seq (length pre) (length l)) = fold_right Nat.add 0 l).
  { induction l as [|a l IH]; intro pre; simpl; auto.
    unfold occ_at at 1. rewrite app_nth2, Nat.sub_diag; auto. simpl. f_equal.
    specialize (IH (pre ++ [a])). rewrite <- app_assoc, app_length in IH. simpl in IH.
    rewrite Nat.add_1_r in IH. exact IH. }
  exact (G occ []).
Qed.

(* n_active_electrons = total electrons minus electrons in frozen occupied orbitals *)
Theorem split_one_electrons occ fz :
  NoDup fz ->
  nel occ (aocc (split_one occ fz)) + nel occ (focc (split_one occ fz)) = fold_right Nat.add 0 occ.
Proof.
  intro Hnd. rewrite <- nel_seq_total, <- (nel_perm occ _ _ (split_one_partition occ fz Hnd)).
  unfold all_orbs. rewrite !nel_app.
  pose proof (split_one_spec occ fz) as Hs. cbv zeta in Hs.
  rewrite (nel_zero occ (avir _)), (nel_zero occ (fvir _)); [lia| |].
  - intros i Hi. apply (Hs i) in Hi. tauto.
  - intros i Hi. apply (Hs i) in Hi. tauto.
Qed.

Lemma range_NoDup n : NoDup (range n).
Proof.
  unfold range. apply NoDup_map_inj_on; [apply seq_NoDup|].
  intros x y _ _ H. apply Nat2Z.inj; auto.
Qed.
Lemma range_sorted n : StronglySorted Z.lt (range n).
Proof.
  unfold range. generalize (Z.to_nat n) as m. intro m. generalize 0 as s.
  induction m as [|m IH]; intro s; simpl; constructor; auto.
  rewrite Forall_forall. intros x Hx. apply in_map_iff in Hx. destruct Hx as [y [Hy Hin]].
  apply in_seq in Hin. lia.
Qed.

(* validity of a frozen specification: the denoted list(s) have no repeated index *)
Definition spec_nodup_r (s : fspec) : Prop := forall fz, frozen_list_r s = COk fz -> NoDup fz.
Definition spec_nodup_u (s : fspec) : Prop := forall fa fb, frozen_list_u s = COk (fa, fb) -> NoDup fa /\ NoDup fb.
Lemma spec_nodup_int_r n : spec_nodup_r (FInt n).
Proof. intros fz H. inversion H. apply range_NoDup. Qed.
Lemma spec_nodup_none_r : spec_nodup_r FNone.
Proof. intros fz H. inversion H. constructor. Qed.
Lemma spec_nodup_int_u n : spec_nodup_u (FInt n).
Proof. intros fa fb H. inversion H. split; apply range_NoDup. Qed.

Record part_ok (occ : list nat) (p : part) : Prop := {
  pk_perm : Permutation (all_orbs p) (seq 0 (length occ));
  pk_sorted : StronglySorted lt (aocc p) /\ StronglySorted lt (avir p);
  pk_occ : forall i, In i (aocc p ++ focc p) -> 0 < occ_at occ i;
  pk_vir : forall i, In i (avir p ++ fvir p) -> occ_at occ i = 0;
  pk_elec : nel occ (aocc p) + nel occ (focc p) = fold_right Nat.add 0 occ
}.

Lemma split_one_ok occ fz : NoDup fz -> part_ok occ (split_one occ fz).
Proof.
  intro Hnd. pose proof (split_one_spec occ fz) as Hs. cbv zeta in Hs. constructor.
  - apply split_one_partition; auto.
  - apply split_one_active_sorted.
  - intros i Hi. apply in_app_iff in Hi. destruct Hi as [Hi | Hi]; apply (Hs i) in Hi; tauto.
  - intros i Hi. apply in_app_iff in Hi. destruct Hi as [Hi | Hi]; apply (Hs i) in Hi; tauto.
  - apply split_one_electrons; auto.
Qed.

Theorem partition_is_partition_r occ s p :
  spec_nodup_r s -> convert_r occ s = COk p ->
  part_ok occ p /\ 0 < nel occ (aocc p) /\ nel occ (aocc p) <> 2 * length (active_mos p).
Proof.
  intros Hv Hc. unfold convert_r in Hc.
  destruct (frozen_list_r s) as [fz|e] eqn:Ef; [|discriminate].
  destruct (nel occ (aocc (split_one occ fz)) =? 0) eqn:E0; [discriminate|].
  destruct (nel occ (aocc (split_one occ fz)) =? 2 * length (active_mos (split_one occ fz))) eqn:E1; [discriminate|].
  inversion Hc; subst. apply Nat.eqb_neq in E0. apply Nat.eqb_neq in E1.
  split; [apply split_one_ok; apply Hv; auto|]. split; [lia|auto].
Qed.

Theorem partition_is_partition_u occa occb s pa pb :
  spec_nodup_u s -> convert_u occa occb s = COk (pa, pb) ->
  part_ok occa pa /\ part_ok occb pb /\ 0 < nel occa (aocc pa) + nel occb (aocc pb).
Proof.
  intros Hv Hc. unfold convert_u in Hc.
  destruct (frozen_list_u s) as [[fa fb]|e] eqn:Ef; [|discriminate].
  destruct (nel occa (aocc (split_one occa fa)) + nel occb (aocc (split_one occb fb)) =? 0) eqn:E0; [discriminate|].
  destruct ((nel occa (aocc (split_one occa fa)) =? 2 * length (active_mos (split_one occa fa)))
            && (nel occb (aocc (split_one occb fb)) =? 2 * length (active_mos (split_one occb fb)))) eqn:E1; [discriminate|].
  inversion Hc; subst. apply Nat.eqb_neq in E0. destruct (Hv _ _ Ef) as [Ha Hb].
  split; [apply split_one_ok; auto|]. split; [apply split_one_ok; auto|lia].
Qed.

(* freeze_mos (restricted) succeeds only if no half-filled orbital is frozen *)
Theorem freeze_r_no_half occ s p :
  freeze_r occ s = COk p -> convert_r occ s = COk p /\ forall i, In i (focc p) -> occ_at occ i <> 1.
Proof.
  unfold freeze_r. destruct (convert_r occ s) as [q|e]; [|discriminate].
  destruct (existsb (fun i => occ_at occ i =? 1) (focc q)) eqn:E; [discriminate|].
  intro H. inversion H; subst. split; auto. intros i Hi Hone.
  assert (existsb (fun i => occ_at occ i =? 1) (focc p) = true) as Hx.
  { apply existsb_exists. exists i. split; auto. apply Nat.eqb_eq; auto. }
  congruence.
Qed.

(* the modelled error cases *)
Theorem convert_r_errors occ s :
  (forall e, frozen_list_r s = CErr e -> convert_r occ s = CErr CTypeError /\ e = CTypeError) /\
  (forall fz, frozen_list_r s = COk fz ->
     (convert_r occ s = CErr CValueError <->
      nel occ (aocc (split_one occ fz)) = 0 \/ nel occ (aocc (split_one occ fz)) = 2 * length (active_mos (split_one occ fz)))).
Proof.
  split.
  - intros e He. unfold convert_r. rewrite He.
    destruct s; simpl in He; try discriminate; try (inversion He; auto).
    destruct (all_items item_plain l); [discriminate|]. inversion He; auto.
  - intros fz Hf. unfold convert_r. rewrite Hf.
    destruct (nel occ (aocc (split_one occ fz)) =? 0) eqn:E0.
    + apply Nat.eqb_eq in E0. tauto.
    + apply Nat.eqb_neq in E0.
      destruct (nel occ (aocc (split_one occ fz)) =? 2 * length (active_mos (split_one occ fz))) eqn:E1.
      * apply Nat.eqb_eq in E1. tauto.
      * apply Nat.eqb_neq in E1. split; [discriminate|]. intros [H|H]; contradiction.
Qed.

(* ================================================================== 2. electron / spin bookkeeping *)
Lemma n_active_ab_r_sum occ spin p :
  n_active_electrons (n_active_ab_r occ spin p) = Z.of_nat (nel occ (aocc p)).
Proof.
  unfold n_active_electrons, n_active_ab_r. simpl.
  pose proof (Z.div_mod (Z.of_nat (nel occ (aocc p))) 2). lia.
Qed.

Lemma count_ge_cons occ k a l :
  count_ge occ k (a :: l) = (if k <=? occ_at occ a then 1 else 0) + count_ge occ k l.
Proof. unfold count_ge. simpl. destruct (k <=? occ_at occ a); simpl; lia. Qed.

Lemma nel_counts occ l : (forall i, In i l -> occ_at occ i <= 2) -> nel occ l = count_ge occ 1 l + count_ge occ 2 l.
Proof.
  induction l as [|a l IH]; intro Hb; [reflexivity|].
  rewrite !count_ge_cons. simpl nel. rewrite IH by (intros; apply Hb; simpl; auto).
  assert (occ_at occ a <= 2) by (apply Hb; simpl; auto).
  destruct (Nat.leb_spec 1 (occ_at occ a)); destruct (Nat.leb_spec 2 (occ_at occ a)); lia.
Qed.

(* For a high-spin restricted(-open) occupation whose unpaired electrons (= spin) all sit in active
   orbitals, the formula of n_active_ab_electrons gives the true alpha and beta counts of the active
   space, hence active_spin = spin. *)
Theorem n_active_ab_r_correct occ (spin : Z) p :
  (forall i, In i (aocc p) -> occ_at occ i <= 2) ->
  (Z.of_nat (count_ge occ 1 (aocc p)) - Z.of_nat (count_ge occ 2 (aocc p)) = spin)%Z ->
  n_active_ab_r occ spin p = (Z.of_nat (count_ge occ 1 (aocc p)), Z.of_nat (count_ge occ 2 (aocc p)))%Z
  /\ active_spin (n_active_ab_r occ spin p) = spin.
Proof.
  intros Hb Hs. unfold active_spin, n_active_ab_r. simpl.
  rewrite (nel_counts occ _ Hb).
  set (a := count_ge occ 1 (aocc p)) in *. set (b := count_ge occ 2 (aocc p)) in *.
  assert (Hd : (Z.of_nat (a + b) = 2 * Z.of_nat b + spin)%Z) by lia.
  rewrite Hd.
  pose proof (Z.div_mod spin 2) as Hm. pose proof (Z.mod_pos_bound spin 2).
  assert (E1 : ((2 * Z.of_nat b + spin) / 2 = Z.of_nat b + spin / 2)%Z).
  { rewrite Z.add_comm, Z.mul_comm, Z.div_add by lia. lia. }
  assert (E2 : ((2 * Z.of_nat b + spin) mod 2 = spin mod 2)%Z).
  { rewrite Z.add_comm, Z.mul_comm, Z.mod_add by lia. reflexivity. }
  rewrite E1, E2. split; [f_equal|]; lia.
Qed.

(* ================================================================== 3. finite sums *)
Section Sums.
  Variable R : CRing.
  Add Ring rr : (c_ring R).
  Open Scope CR_scope.
  Notation K := (K R).

  Lemma half_double (x : K) : chalf * (x + x) = x.
  Proof.
    transitivity ((chalf + chalf) * x); [ring|]. rewrite (c_half R). ring.
  Qed.
  Lemma half_split (a b c : K) : b = a + (c + c) -> chalf * b = chalf * a + c.
  Proof.
    intro H. rewrite H. transitivity (chalf * a + chalf * (c + c)); [ring|]. rewrite half_double. reflexivity.
  Qed.

  Lemma sumL_app {X} (l1 l2 : list X) (f : X -> K) : sumL (l1 ++ l2) f = sumL l1 f + sumL l2 f.
  Proof. induction l1 as [|a l1 IH]; simpl; [ring|]. rewrite IH. ring. Qed.
  Lemma sumL_ext {X} (l : list X) (f g : X -> K) : (forall x, In x l -> f x = g x) -> sumL l f = sumL l g.
  Proof.
    induction l as [|a l IH]; simpl; intro H; auto. rewrite (H a), IH; auto.
  Qed.
  Lemma sumL_add {X} (l : list X) (f g : X -> K) : sumL l (fun x => f x + g x) = sumL l f + sumL l g.
  Proof. induction l as [|a l IH]; simpl; [ring|]. rewrite IH. ring. Qed.
  Lemma sumL_sub {X} (l : list X) (f g : X -> K) : sumL l (fun x => f x - g x) = sumL l f - sumL l g.
  Proof. induction l as [|a l IH]; simpl; [ring|]. rewrite IH. ring. Qed.
  Lemma sumL_scale {X} (l : list X) (c : K) (f : X -> K) : sumL l (fun x => c * f x) = c * sumL l f.
  Proof. induction l as [|a l IH]; simpl; [ring|]. rewrite IH. ring. Qed.
  Lemma sumL_scale_r {X} (l : list X) (c : K) (f : X -> K) : sumL l (fun x => f x * c) = sumL l f * c.
  Proof. induction l as [|a l IH]; simpl; [ring|]. rewrite IH. ring. Qed.
  Lemma sumL_zero {X} (l : list X) : sumL l (fun _ => 0) = (0 : K).
  Proof. induction l as [|a l IH]; simpl; [reflexivity|]. rewrite IH. ring. Qed.
  Lemma sumL_swap {X Y} (l1 : list X) (l2 : list Y) (f : X -> Y -> K) :
    sumL l1 (fun x => sumL l2 (fun y => f x y)) = sumL l2 (fun y => sumL l1 (fun x => f x y)).
  Proof.
    induction l1 as [|a l1 IH]; simpl.
    - rewrite sumL_zero. reflexivity.
    - rewrite IH, <- sumL_add. reflexivity.
  Qed.
  Lemma sumL_map {X Y} (m : X -> Y) (l : list X) (f : Y -> K) : sumL (map m l) f = sumL l (fun x => f (m x)).
  Proof. induction l as [|a l IH]; simpl; auto. rewrite IH. reflexivity. Qed.
  Lemma sumL_perm {X} (l l' : list X) (f : X -> K) : Permutation l l' -> sumL l f = sumL l' f.
  Proof. induction 1; simpl; try rewrite IHPermutation; try ring. congruence. Qed.
  Lemma sumL_gate {X} (l : list X) (b : bool) (f : X -> K) : sumL l (fun x => gate b (f x)) = gate b (sumL l f).
  Proof. destruct b; simpl; auto. apply sumL_zero. Qed.

  Lemma sum2_app_l {X Y} (l1 l1' : list X) (l2 : list Y) (f : X -> Y -> K) : sum2 (l1 ++ l1') l2 f = sum2 l1 l2 f + sum2 l1' l2 f.
  Proof. unfold sum2. apply sumL_app. Qed.
  Lemma sum2_app_r {X Y} (l1 : list X) (l2 l2' : list Y) (f : X -> Y -> K) : sum2 l1 (l2 ++ l2') f = sum2 l1 l2 f + sum2 l1 l2' f.
  Proof. unfold sum2. rewrite <- sumL_add. apply sumL_ext. intros. apply sumL_app. Qed.
  Lemma sum2_sub {X Y} (l1 : list X) (l2 : list Y) (f g : X -> Y -> K) :
    sum2 l1 l2 (fun i j => f i j - g i j) = sum2 l1 l2 f - sum2 l1 l2 g.
  Proof. unfold sum2. rewrite <- sumL_sub. apply sumL_ext. intros. apply sumL_sub. Qed.
  Lemma sum2_add {X Y} (l1 : list X) (l2 : list Y) (f g : X -> Y -> K) :
    sum2 l1 l2 (fun i j => f i j + g i j) = sum2 l1 l2 f + sum2 l1 l2 g.
  Proof. unfold sum2. rewrite <- sumL_add. apply sumL_ext. intros. apply sumL_add. Qed.
  Lemma sum2_scale {X Y} (l1 : list X) (l2 : list Y) (c : K) (f : X -> Y -> K) :
    sum2 l1 l2 (fun i j => c * f i j) = c * sum2 l1 l2 f.
  Proof. unfold sum2. rewrite <- sumL_scale. apply sumL_ext. intros. apply sumL_scale. Qed.
  Lemma sum2_swap {X Y} (l1 : list X) (l2 : list Y) (f : X -> Y -> K) : sum2 l1 l2 f = sum2 l2 l1 (fun y x => f x y).
  Proof. unfold sum2. apply sumL_swap. Qed.
  Lemma sum2_ext {X Y} (l1 : list X) (l2 : list Y) (f g : X -> Y -> K) : (forall x y, f x y = g x y) -> sum2 l1 l2 f = sum2 l1 l2 g.
  Proof. intro H. unfold sum2. apply sumL_ext. intros. apply sumL_ext. intros. apply H. Qed.
  Lemma sum2_map {X Y X' Y'} (m1 : X -> X') (m2 : Y -> Y') l1 l2 (f : X' -> Y' -> K) :
    sum2 (map m1 l1) (map m2 l2) f = sum2 l1 l2 (fun x y => f (m1 x) (m2 y)).
  Proof. unfold sum2. rewrite sumL_map. apply sumL_ext. intros. apply sumL_map. Qed.

  (* Kronecker collapse of a sum over 0..n-1 *)
  Lemma sumn_delta (n a : nat) (f : nat -> K) :
    sumn n (fun i => gate (i =? a) (f i)) = gate (a <? n) (f a).
  Proof.
    unfold sumn.
    assert (G : forall s, sumL (seq s n) (fun i => gate (i =? a) (f i)) = gate ((s <=? a) && (a <? s + n)) (f a)).
    { induction n as [|n IH]; intro s.
      - simpl. destruct (Nat.leb_spec s a); destruct (Nat.ltb_spec a (s + 0)); simpl; try reflexivity; lia.
      - change (seq s (S n)) with (s :: seq (S s) n).
        change (sumL (s :: seq (S s) n) (fun i => gate (i =? a) (f i)))
          with (gate (s =? a) (f s) + sumL (seq (S s) n) (fun i => gate (i =? a) (f i))).
        rewrite IH. replace (S s + n)%nat with (s + S n)%nat by lia.
        destruct (Nat.eqb_spec s a) as [Heq|Hne].
        + subst s. destruct (Nat.leb_spec (S a) a); destruct (Nat.leb_spec a a); destruct (Nat.ltb_spec a (a + S n));
            try lia; simpl; ring.
        + destruct (Nat.leb_spec (S s) a); destruct (Nat.leb_spec s a); destruct (Nat.ltb_spec a (s + S n));
            try lia; simpl; ring. }
    rewrite G. simpl. reflexivity.
  Qed.
  Lemma sumn_delta' (n a : nat) (f : nat -> K) :
    sumn n (fun i => gate (a =? i) (f i)) = gate (a <? n) (f a).
  Proof.
    rewrite <- sumn_delta. apply sumL_ext. intros x _. rewrite Nat.eqb_sym. reflexivity.
  Qed.
  Lemma gate_and (a b : bool) (x : K) : gate (a && b) x = gate a (gate b x).
  Proof. destruct a, b; reflexivity. Qed.
  Lemma gate_mul_l (b : bool) (c x : K) : c * gate b x = gate b (c * x).
  Proof. destruct b; simpl; ring. Qed.
  Lemma gate_true (x : K) : gate true x = x.
  Proof. reflexivity. Qed.

  (* ================================================================== 4. folding frozen orbitals *)
  Definition HH (h : T2t R) (L : list nat) : K := sumL L (fun i => h i i).
  Definition JJ (g : T4t R) (L M : list nat) : K := sum2 L M (fun i j => g i j j i).
  Definition KK (g : T4t R) (L M : list nat) : K := sum2 L M (fun i j => g i j i j).

  Lemma HH_app h L M : HH h (L ++ M) = HH h L + HH h M.
  Proof. apply sumL_app. Qed.
  Lemma JJ_app g L1 L2 M1 M2 :
    JJ g (L1 ++ L2) (M1 ++ M2) = JJ g L1 M1 + JJ g L1 M2 + JJ g L2 M1 + JJ g L2 M2.
  Proof. unfold JJ. rewrite sum2_app_l, !sum2_app_r. ring. Qed.
  Lemma KK_app g L1 L2 M1 M2 :
    KK g (L1 ++ L2) (M1 ++ M2) = KK g L1 M1 + KK g L1 M2 + KK g L2 M1 + KK g L2 M2.
  Proof. unfold KK. rewrite sum2_app_l, !sum2_app_r. ring. Qed.

  Definition exch_sym (g : T4t R) : Prop := forall p q r s, g p q r s = g q p s r.

  Lemma JJ_sym g L M : exch_sym g -> JJ g L M = JJ g M L.
  Proof. intro Hs. unfold JJ. rewrite sum2_swap. apply sum2_ext. intros. apply Hs. Qed.
  Lemma KK_sym g L M : exch_sym g -> KK g L M = KK g M L.
  Proof. intro Hs. unfold KK. rewrite sum2_swap. apply sum2_ext. intros. apply Hs. Qed.

  Lemma e_det_atoms h g Oa Ob :
    e_det R h g Oa Ob = HH h Oa + HH h Ob
      + chalf * (JJ g Oa Oa - KK g Oa Oa + (JJ g Ob Ob - KK g Ob Ob) + JJ g Oa Ob + JJ g Ob Oa).
  Proof. unfold e_det, HH, JJ, KK. rewrite !sum2_sub. reflexivity. Qed.

  Lemma of_core_atoms h g F : of_core R h g F = two * HH h F + (two * JJ g F F - KK g F F).
  Proof.
    unfold of_core, HH, JJ, KK. rewrite sumL_add, sumL_scale. f_equal.
    change (sumL F (fun i => sumL F (fun j => two * g i j j i - g i j i j)))
      with (sum2 F F (fun i j => two * g i j j i - g i j i j)).
    rewrite sum2_sub, sum2_scale. reflexivity.
  Qed.

  Lemma HH_fold h g F O : HH (of_h1 R h g F) O = HH h O + (two * JJ g F O - KK g F O).
  Proof.
    unfold HH, of_h1, JJ, KK. rewrite sumL_add. f_equal.
    rewrite sumL_swap.
    change (sumL F (fun y => sumL O (fun x => two * g y x x y - g y x y x)))
      with (sum2 F O (fun i j => two * g i j j i - g i j i j)).
    rewrite sum2_sub, sum2_scale. reflexivity.
  Qed.

  (* core constant + Slater-Condon energy of the active determinant in the folded integrals
     = Slater-Condon energy of (frozen doubly occupied) + active occupation in the full integrals.
     Holds for closed- and open-shell active determinants (Oa, Ob arbitrary). *)
  Theorem fold_restricted_energy h g F Oa Ob :
    exch_sym g ->
    of_core R h g F + e_det R (of_h1 R h g F) g Oa Ob = e_det R h g (F ++ Oa) (F ++ Ob).
  Proof.
    intro Hs. rewrite !e_det_atoms, of_core_atoms, !HH_fold, !HH_app, !JJ_app, !KK_app.
    rewrite (JJ_sym g Oa F Hs), (JJ_sym g Ob F Hs), (KK_sym g Oa F Hs), (KK_sym g Ob F Hs).
    set (a := JJ g Oa Oa - KK g Oa Oa + (JJ g Ob Ob - KK g Ob Ob) + JJ g Oa Ob + JJ g Ob Oa).
    set (c := two * JJ g F F - KK g F F + (two * JJ g F Oa - KK g F Oa) + (two * JJ g F Ob - KK g F Ob)).
    match goal with |- _ = _ + chalf * ?b => rewrite (half_split a b c) end.
    - unfold c, two. ring.
    - unfold a, c, two. ring.
  Qed.

  (* the arrays actually returned are the restrictions to the active list (numpy.ix_) *)
  Lemma e_det_restrict h g (A Pa Pb : list nat) :
    e_det R (restrict2 R A A h) (restrict4 R A A A A g) Pa Pb
    = e_det R h g (map (fun p => nth p A 0%nat) Pa) (map (fun p => nth p A 0%nat) Pb).
  Proof.
    unfold e_det. rewrite !sumL_map, !sum2_map. reflexivity.
  Qed.

  Corollary fold_restricted_energy_arrays h g F A Pa Pb :
    exch_sym g ->
    of_core R h g F + e_det R (restrict2 R A A (of_h1 R h g F)) (restrict4 R A A A A g) Pa Pb
    = e_det R h g (F ++ map (fun p => nth p A 0%nat) Pa) (F ++ map (fun p => nth p A 0%nat) Pb).
  Proof. intro Hs. rewrite e_det_restrict. apply fold_restricted_energy; auto. Qed.

  (* ---- unrestricted *)
  Lemma e_det_u_atoms ha hb gaa gab gbb Oa Ob :
    e_det_u R ha hb gaa gab gbb Oa Ob = HH ha Oa + HH hb Ob
      + chalf * (JJ gaa Oa Oa - KK gaa Oa Oa + (JJ gbb Ob Ob - KK gbb Ob Ob) + JJ gab Oa Ob + JJ gab Oa Ob).
  Proof.
    unfold e_det_u, HH, JJ, KK. rewrite !sum2_sub.
    rewrite (sum2_swap Ob Oa). reflexivity.
  Qed.

  Lemma uhf_core_atoms ha hb gaa gab gbb Fa Fb :
    uhf_core R ha hb gaa gab gbb Fa Fb
    = HH ha Fa + HH hb Fb + chalf * (JJ gaa Fa Fa - KK gaa Fa Fa) + chalf * (JJ gbb Fb Fb - KK gbb Fb Fb)
      + chalf * (JJ gab Fa Fb + JJ gab Fa Fb).
  Proof.
    unfold uhf_core, HH, JJ, KK. rewrite !sumL_add.
    change (sumL Fa (fun i => sumL Fa (fun j => chalf * (gaa i j j i - gaa i j i j))))
      with (sum2 Fa Fa (fun i j => chalf * (gaa i j j i - gaa i j i j))).
    change (sumL Fb (fun i => sumL Fb (fun j => chalf * (gbb i j j i - gbb i j i j))))
      with (sum2 Fb Fb (fun i j => chalf * (gbb i j j i - gbb i j i j))).
    change (sumL Fa (fun i => sumL Fb (fun j => chalf * gab i j j i)))
      with (sum2 Fa Fb (fun i j => chalf * gab i j j i)).
    change (sumL Fb (fun i => sumL Fa (fun j => chalf * gab j i i j)))
      with (sum2 Fb Fa (fun i j => chalf * gab j i i j)).
    rewrite (sum2_swap Fb Fa). rewrite !sum2_scale, !sum2_sub. ring.
  Qed.

  Lemma HH_fold_a ha gaa gab Fa Fb O :
    HH (uhf_h1a R ha gaa gab Fa Fb) O = HH ha O + (JJ gaa Fa O - KK gaa Fa O) + JJ gab O Fb.
  Proof.
    unfold HH, uhf_h1a, JJ, KK. rewrite !sumL_add. f_equal. f_equal.
    rewrite sumL_swap.
    change (sumL Fa (fun y => sumL O (fun x => gaa y x x y - gaa y x y x)))
      with (sum2 Fa O (fun i j => gaa i j j i - gaa i j i j)).
    apply sum2_sub.
  Qed.
  Lemma HH_fold_b hb gbb gab Fa Fb O :
    HH (uhf_h1b R hb gbb gab Fa Fb) O = HH hb O + (JJ gbb Fb O - KK gbb Fb O) + JJ gab Fa O.
  Proof.
    unfold HH, uhf_h1b, JJ, KK. rewrite !sumL_add. f_equal; [f_equal|].
    - rewrite sumL_swap.
      change (sumL Fb (fun y => sumL O (fun x => gbb y x x y - gbb y x y x)))
        with (sum2 Fb O (fun i j => gbb i j j i - gbb i j i j)).
      apply sum2_sub.
    - rewrite sumL_swap. reflexivity.
  Qed.

  Theorem fold_unrestricted_energy ha hb gaa gab gbb Fa Fb Oa Ob :
    exch_sym gaa -> exch_sym gbb ->
    uhf_core R ha hb gaa gab gbb Fa Fb
    + e_det_u R (uhf_h1a R ha gaa gab Fa Fb) (uhf_h1b R hb gbb gab Fa Fb) gaa gab gbb Oa Ob
    = e_det_u R ha hb gaa gab gbb (Fa ++ Oa) (Fb ++ Ob).
  Proof.
    intros Hsa Hsb. rewrite !e_det_u_atoms, uhf_core_atoms, HH_fold_a, HH_fold_b, !HH_app, !JJ_app, !KK_app.
    rewrite (JJ_sym gaa Oa Fa Hsa), (JJ_sym gbb Ob Fb Hsb), (KK_sym gaa Oa Fa Hsa), (KK_sym gbb Ob Fb Hsb).
    rewrite (half_double (JJ gab Fa Fb)).
    set (a := JJ gaa Oa Oa - KK gaa Oa Oa + (JJ gbb Ob Ob - KK gbb Ob Ob) + JJ gab Oa Ob + JJ gab Oa Ob).
    set (c := JJ gaa Fa Oa - KK gaa Fa Oa + (JJ gbb Fb Ob - KK gbb Fb Ob) + JJ gab Oa Fb + JJ gab Fa Ob).
    set (d := JJ gaa Fa Fa - KK gaa Fa Fa + (JJ gbb Fb Fb - KK gbb Fb Fb)).
    transitivity (HH ha Fa + HH hb Fb + HH ha Oa + HH hb Ob + JJ gab Fa Fb
                  + (chalf * (d + a) + c)).
    - unfold a, c, d. ring.
    - rewrite <- (half_split (d + a) _ c (eq_refl _)).
      transitivity (HH ha Fa + HH ha Oa + (HH hb Fb + HH hb Ob)
                    + (chalf * (d + a + (c + c)) + chalf * (JJ gab Fa Fb + JJ gab Fa Fb))).
      + rewrite (half_double (JJ gab Fa Fb)). ring.
      + unfold a, c, d. ring.
  Qed.

  (* ================================================================== 5. spin-orbital assembly *)
  Lemma even_mod i : ((2 * i) mod 2 = 0)%nat.
  Proof. rewrite Nat.mul_comm. apply Nat.mod_mul. lia. Qed.
  Lemma odd_mod i : ((2 * i + 1) mod 2 = 1)%nat.
  Proof. rewrite Nat.add_comm, Nat.mul_comm, Nat.mod_add by lia. reflexivity. Qed.
  Lemma even_div i : ((2 * i) / 2 = i)%nat.
  Proof. rewrite Nat.mul_comm. apply Nat.div_mul. lia. Qed.
  Lemma odd_div i : ((2 * i + 1) / 2 = i)%nat.
  Proof. rewrite Nat.add_comm, Nat.mul_comm, Nat.div_add by lia. reflexivity. Qed.

  (* restricted: InteractionOperator(c, so1 h, 1/2 so2 g) has the spatial Slater-Condon energy on the
     determinant with alpha orbitals Oa (spin-orbitals 2i) and beta orbitals Ob (spin-orbitals 2i+1) *)
  Theorem interaction_operator_matches_r h g Oa Ob :
    e_so R (so1 R h) (io2_r R g) (det_so Oa Ob) = e_det R h g Oa Ob.
  Proof.
    unfold e_so, det_so, e_det.
    rewrite sumL_app, !sumL_map, sum2_app_l, !sum2_app_r, !sum2_map. cbv beta.
    assert (E1 : sumL Oa (fun x => so1 R h (2 * x)%nat (2 * x)%nat) = sumL Oa (fun i => h i i)).
    { apply sumL_ext. intros x _. unfold so1. rewrite Nat.eqb_refl, even_div. reflexivity. }
    assert (E2 : sumL Ob (fun x => so1 R h (2 * x + 1)%nat (2 * x + 1)%nat) = sumL Ob (fun i => h i i)).
    { apply sumL_ext. intros x _. unfold so1. rewrite Nat.eqb_refl, odd_div. reflexivity. }
    assert (Eaa : sum2 Oa Oa (fun x y => io2_r R g (2 * x)%nat (2 * y)%nat (2 * y)%nat (2 * x)%nat - io2_r R g (2 * x)%nat (2 * y)%nat (2 * x)%nat (2 * y)%nat)
                  = chalf * sum2 Oa Oa (fun i j => g i j j i - g i j i j)).
    { rewrite <- sum2_scale. apply sum2_ext. intros x y. unfold io2_r, so2.
      rewrite !even_mod, !even_div. simpl. ring. }
    assert (Ebb : sum2 Ob Ob (fun x y => io2_r R g (2 * x + 1)%nat (2 * y + 1)%nat (2 * y + 1)%nat (2 * x + 1)%nat
                                        - io2_r R g (2 * x + 1)%nat (2 * y + 1)%nat (2 * x + 1)%nat (2 * y + 1)%nat)
                  = chalf * sum2 Ob Ob (fun i j => g i j j i - g i j i j)).
    { rewrite <- sum2_scale. apply sum2_ext. intros x y. unfold io2_r, so2.
      rewrite !odd_mod, !odd_div. simpl. ring. }
    assert (Eab : sum2 Oa Ob (fun x y => io2_r R g (2 * x)%nat (2 * y + 1)%nat (2 * y + 1)%nat (2 * x)%nat
                                        - io2_r R g (2 * x)%nat (2 * y + 1)%nat (2 * x)%nat (2 * y + 1)%nat)
                  = chalf * sum2 Oa Ob (fun i j => g i j j i)).
    { rewrite <- sum2_scale. apply sum2_ext. intros x y. unfold io2_r, so2.
      rewrite !even_mod, !odd_mod, !even_div, !odd_div. simpl. ring. }
    assert (Eba : sum2 Ob Oa (fun x y => io2_r R g (2 * x + 1)%nat (2 * y)%nat (2 * y)%nat (2 * x + 1)%nat
                                        - io2_r R g (2 * x + 1)%nat (2 * y)%nat (2 * x + 1)%nat (2 * y)%nat)
                  = chalf * sum2 Ob Oa (fun i j => g i j j i)).
    { rewrite <- sum2_scale. apply sum2_ext. intros x y. unfold io2_r, so2.
      rewrite !even_mod, !odd_mod, !even_div, !odd_div. simpl. ring. }
    rewrite E1, E2, Eaa, Ebb, Eab, Eba. ring.
  Qed.
End Sums.

(* ================================================================== 6. index conventions *)
Definition CHEM_TO_PHYS : axes := (0, 2, 3, 1).
Definition PHYS_TO_CHEM : axes := (0, 3, 1, 2).
Definition RDM_SWAP : axes := (1, 0, 3, 2).

(* g_phys[p,q,r,s] = (ps|qr) *)
Lemma chem_to_phys_spec {X} (ax : axes) (eri : nat -> nat -> nat -> nat -> X) :
  ax = CHEM_TO_PHYS -> forall p q r s, transpose4 ax eri p q r s = eri p s q r.
Proof. intros ->. reflexivity. Qed.
Lemma phys_to_chem_spec {X} (ax : axes) (g : nat -> nat -> nat -> nat -> X) :
  ax = PHYS_TO_CHEM -> forall p q r s, transpose4 ax g p q r s = g p r s q.
Proof. intros ->. reflexivity. Qed.
Lemma phys_chem_roundtrip {X} (fwd back : axes) (eri : nat -> nat -> nat -> nat -> X) :
  fwd = CHEM_TO_PHYS -> back = PHYS_TO_CHEM ->
  forall p q r s, transpose4 back (transpose4 fwd eri) p q r s = eri p q r s.
Proof. intros -> ->. reflexivity. Qed.
Lemma rdm_swap_involution {X} (ax : axes) (t : nat -> nat -> nat -> nat -> X) :
  ax = RDM_SWAP -> forall p q r s, transpose4 ax (transpose4 ax t) p q r s = t p q r s.
Proof. intros ->. reflexivity. Qed.

Section Conv.
  Variable R : CRing.
  Add Ring rr2 : (c_ring R).
  Open Scope CR_scope.

  (* chemist symmetry (ij|kl) = (kl|ij) gives the electron-exchange symmetry used by the folding theorems *)
  Lemma phys_sym_of_chem_sym (ax : axes) (eri : T4t R) :
    ax = CHEM_TO_PHYS -> (forall i j k l, eri i j k l = eri k l i j) -> exch_sym R (transpose4 ax eri).
  Proof. intros -> Hs p q r s. simpl. apply Hs. Qed.

  (* Slater-Condon energy from the physicist-ordered tensor the code builds = textbook chemist formula *)
  Theorem index_convention_energy (ax : axes) (h : T2t R) (eri : T4t R) Oa Ob :
    ax = CHEM_TO_PHYS -> e_det R h (transpose4 ax eri) Oa Ob = e_det_chem R h eri Oa Ob.
  Proof. intros ->. reflexivity. Qed.
End Conv.

(* finite obligations over regenerated tuple lists *)
Definition axes_eqb (a b : axes) : bool :=
  let '(a0, a1, a2, a3) := a in let '(b0, b1, b2, b3) := b in
  (a0 =? b0) && (a1 =? b1) && (a2 =? b2) && (a3 =? b3).
Lemma axes_eqb_eq a b : axes_eqb a b = true -> a = b.
Proof.
  destruct a as [[[a0 a1] a2] a3]. destruct b as [[[b0 b1] b2] b3]. simpl.
  rewrite !andb_true_iff, !Nat.eqb_eq. intros [[[-> ->] ->] ->]. reflexivity.
Qed.
Lemma all_axes_eq (a : axes) (l : list axes) :
  forallb (axes_eqb a) l = true -> forall x, In x l -> x = a.
Proof.
  intros H x Hin. rewrite forallb_forall in H. symmetry. apply axes_eqb_eq. apply H; auto.
Qed.
