(* Integrals.v — model (definitions only) of the Tangelo-side chemistry bookkeeping behind C04/C13:
     - convert_frozen_orbitals / freeze_mos        (tangelo/toolboxes/molecular_computation/frozen_orbitals.py, molecule.py)
     - n_active_ab_electrons, active_spin, active_mos, frozen_mos, n_active_mos, n_active_sos (molecule.py)
     - folding of frozen occupied orbitals: openfermion's get_active_space_integrals as called by
       SecondQuantizedMolecule.get_integrals, and _get_active_space_integrals_uhf
     - spinorb_from_spatial + InteractionOperator assembly, _get_molecular_hamiltonian_uhf (aa, bb, abba, baab)
     - numpy's transpose(a,b,c,d) on 4-index tensors
     - Slater-Condon diagonal energies (the specification side)
   Integrals are abstract functions over an arbitrary commutative ring with 1/2 (record CRing);
   all orbital counts are arbitrary.  Proofs live in IntegralsProofs.v. *)
From Coq Require Import List ZArith Bool Arith Lia Ring.
From Coq Require String.
Import ListNotations.

(* ------------------------------------------------------------------ exceptions *)
Inductive cerr : Type := CValueError | CTypeError | CNotImplemented.
Inductive cres (X : Type) : Type := COk (x : X) | CErr (e : cerr).
Arguments COk {_}. Arguments CErr {_}.

(* ------------------------------------------------------------------ frozen-orbital specification *)
(* an element of a user list: a Python int, a numpy integer, or anything else (float, str, None, list) *)
Inductive fitem : Type := FI (z : Z) | FNp (z : Z) | FBad.
(* the frozen_orbitals argument: None, an int (or numpy integer), a flat list, a list of two lists,
   anything else (str other than "frozen_core", float, tuple, dict ...) *)
Inductive fspec : Type :=
| FNone | FInt (n : Z) | FList (l : list fitem) | FPair (a b : list fitem) | FOther.

Definition range (n : Z) : list Z := map Z.of_nat (seq 0 (Z.to_nat n)).
Definition item_plain (x : fitem) : option Z := match x with FI z => Some z | _ => None end.
Definition item_any (x : fitem) : option Z := match x with FI z | FNp z => Some z | FBad => None end.
Fixpoint all_items (f : fitem -> option Z) (l : list fitem) : option (list Z) :=
  match l with
  | [] => Some []
  | x :: r => match f x, all_items f r with Some z, Some zs => Some (z :: zs) | _, _ => None end
  end.

(* mo_occ: occupation numbers 0,1,2 (restricted) or 0,1 (one spin of UHF) *)
Definition occ_at (occ : list nat) (i : nat) : nat := nth i occ 0.
Definition occupied (occ : list nat) : list nat := filter (fun i => 0 <? occ_at occ i) (seq 0 (length occ)).
Definition virtual (occ : list nat) : list nat := filter (fun i => occ_at occ i =? 0) (seq 0 (length occ)).
Definition zmem (z : Z) (l : list nat) : bool := existsb (fun n => (Z.of_nat n =? z)%Z) l.
Definition nmem (n : nat) (l : list nat) : bool := existsb (Nat.eqb n) l.

Record part : Type := mkPart { aocc : list nat; focc : list nat; avir : list nat; fvir : list nat }.

(* the four list comprehensions of convert_frozen_orbitals for one spin *)
Definition split_one (occ : list nat) (frozen : list Z) : part :=
  let o := occupied occ in
  let v := virtual occ in
  let fo := map Z.to_nat (filter (fun z => zmem z o) frozen) in
  let fv := map Z.to_nat (filter (fun z => zmem z v) frozen) in
  mkPart (filter (fun i => negb (nmem i fo)) o) fo (filter (fun i => negb (nmem i fv)) v) fv.

Definition nel (occ : list nat) (l : list nat) : nat := fold_right (fun i a => occ_at occ i + a) 0 l.
Definition active_mos (p : part) : list nat := aocc p ++ avir p.

Definition frozen_list_r (s : fspec) : cres (list Z) :=
  match s with
  | FNone => COk []
  | FInt n => COk (range n)
  | FList l => match all_items item_plain l with Some zs => COk zs | None => CErr CTypeError end
  | FPair _ _ => CErr CTypeError
  | FOther => CErr CTypeError
  end.

Definition convert_r (occ : list nat) (s : fspec) : cres part :=
  match frozen_list_r s with
  | CErr e => CErr e
  | COk fz =>
      let p := split_one occ fz in
      let ne := nel occ (aocc p) in
      let nm := length (active_mos p) in
      if ne =? 0 then CErr CValueError
      else if ne =? 2 * nm then CErr CValueError
      else COk p
  end.

(* SecondQuantizedMolecule.freeze_mos (restricted): half-filled orbitals cannot be frozen *)
Definition freeze_r (occ : list nat) (s : fspec) : cres part :=
  match convert_r occ s with
  | CErr e => CErr e
  | COk p => if existsb (fun i => occ_at occ i =? 1) (focc p) then CErr CNotImplemented else COk p
  end.

Definition frozen_list_u (s : fspec) : cres (list Z * list Z) :=
  match s with
  | FNone => COk ([], [])
  | FInt n => COk (range n, range n)
  | FPair a b => match all_items item_any a, all_items item_any b with
                 | Some x, Some y => COk (x, y)
                 | _, _ => CErr CTypeError
                 end
  | FList _ => CErr CTypeError
  | FOther => CErr CTypeError
  end.

Definition convert_u (occa occb : list nat) (s : fspec) : cres (part * part) :=
  match frozen_list_u s with
  | CErr e => CErr e
  | COk (fa, fb) =>
      let pa := split_one occa fa in
      let pb := split_one occb fb in
      let na := nel occa (aocc pa) in
      let nb := nel occb (aocc pb) in
      if na + nb =? 0 then CErr CValueError
      else if (na =? 2 * length (active_mos pa)) && (nb =? 2 * length (active_mos pb)) then CErr CValueError
      else COk (pa, pb)
  end.

(* get_frozen_core: number of core orbitals of the atoms, from the (regenerated) table *)
Fixpoint core_lookup (tab : list (String.string * nat)) (e : String.string) : nat :=
  match tab with
  | [] => 0
  | (k, v) :: r => if String.eqb k e then v else core_lookup r e
  end.
Definition frozen_core_count (tab : list (String.string * nat)) (elems : list String.string) : nat :=
  fold_right (fun e a => core_lookup tab e + a) 0 elems.

(* ------------------------------------------------------------------ electron / spin bookkeeping *)
Definition n_active_ab_r (occ : list nat) (spin : Z) (p : part) : Z * Z :=
  let n := Z.of_nat (nel occ (aocc p)) in
  (n / 2 + spin / 2 + n mod 2, n / 2 - spin / 2)%Z.
Definition n_active_ab_u (occa occb : list nat) (pa pb : part) : Z * Z :=
  (Z.of_nat (nel occa (aocc pa)), Z.of_nat (nel occb (aocc pb))).
Definition n_active_electrons (ab : Z * Z) : Z := (fst ab + snd ab)%Z.
Definition active_spin (ab : Z * Z) : Z := (fst ab - snd ab)%Z.
Definition n_active_mos_r (p : part) : nat := length (active_mos p).
Definition n_active_sos_r (p : part) : nat := 2 * length (active_mos p).
Definition n_active_sos_u (pa pb : part) : nat := Nat.max (2 * length (active_mos pa)) (2 * length (active_mos pb)).
Definition frozen_mos_r (p : part) : option (list nat) :=
  match focc p, fvir p with
  | [], [] => None
  | fo, [] => Some fo
  | [], fv => Some fv
  | fo, fv => Some (fo ++ fv)
  end.
(* the alpha / beta electron counts a high-spin restricted(-open) occupation really has in a set of orbitals *)
Definition count_ge (occ : list nat) (k : nat) (l : list nat) : nat := length (filter (fun i => k <=? occ_at occ i) l).

(* ------------------------------------------------------------------ numpy transpose of a 4-index tensor *)
Definition axes : Type := (nat * nat * nat * nat)%type.
Definition pick (ax : axes) (m : nat) (i0 i1 i2 i3 : nat) : nat :=
  let '(a, b, c, d) := ax in
  if a =? m then i0 else if b =? m then i1 else if c =? m then i2 else i3.
(* result[i0,i1,i2,i3] = T[j] with j[ax[k]] = i_k *)
Definition transpose4 {X : Type} (ax : axes) (T : nat -> nat -> nat -> nat -> X) : nat -> nat -> nat -> nat -> X :=
  fun i0 i1 i2 i3 => T (pick ax 0 i0 i1 i2 i3) (pick ax 1 i0 i1 i2 i3) (pick ax 2 i0 i1 i2 i3) (pick ax 3 i0 i1 i2 i3).
Definition valid_axes (ax : axes) : bool :=
  let '(a, b, c, d) := ax in
  forallb (fun m => nmem m [a; b; c; d]) [0; 1; 2; 3].

(* fermionic terms of an interaction operator: a+_i a_j and a+_i a+_j a_k a_l (spin-orbital indices) *)
Inductive term : Type := T1 (i j : nat) | T2 (i j k l : nat).

(* ------------------------------------------------------------------ commutative ring with 1/2 *)
Record CRing : Type := mkCRing {
  K : Type;
  c0 : K; c1 : K;
  cadd : K -> K -> K; cmul : K -> K -> K; csub : K -> K -> K; copp : K -> K;
  chalf : K;
  c_ring : ring_theory c0 c1 cadd cmul csub copp (@eq K);
  c_half : cadd chalf chalf = c1
}.
Arguments c0 {_}. Arguments c1 {_}. Arguments cadd {_}. Arguments cmul {_}. Arguments csub {_}.
Arguments copp {_}. Arguments chalf {_}.

Declare Scope CR_scope.
Delimit Scope CR_scope with CR.
Notation "0" := c0 : CR_scope.
Notation "1" := c1 : CR_scope.
Infix "+" := cadd : CR_scope.
Infix "*" := cmul : CR_scope.
Infix "-" := csub : CR_scope.
Notation "- x" := (copp x) : CR_scope.

Section Ints.
  Variable R : CRing.
  Open Scope CR_scope.
  Definition T2t : Type := nat -> nat -> K R.
  Definition T4t : Type := nat -> nat -> nat -> nat -> K R.

  Definition sumL {X : Type} (l : list X) (f : X -> K R) : K R := fold_right (fun x a => f x + a) 0 l.
  Definition sum2 {X Y : Type} (l1 : list X) (l2 : list Y) (f : X -> Y -> K R) : K R :=
    sumL l1 (fun i => sumL l2 (fun j => f i j)).
  Definition sumn (n : nat) (f : nat -> K R) : K R := sumL (seq 0 n) f.
  Definition two : K R := 1 + 1.
  Definition gate (b : bool) (x : K R) : K R := if b then x else 0.

  (* ---- restricted fold: openfermion get_active_space_integrals(one, two, frozen_occupied, active_mos) *)
  Definition of_core (h : T2t) (g : T4t) (F : list nat) : K R :=
    sumL F (fun i => two * h i i + sumL F (fun j => two * g i j j i - g i j i j)).
  Definition of_h1 (h : T2t) (g : T4t) (F : list nat) : T2t :=
    fun u v => h u v + sumL F (fun i => two * g i u v i - g i u i v).
  (* numpy.ix_(A, A) / numpy.ix_(A, A, A, A) *)
  Definition restrict2 (A B : list nat) (h : T2t) : T2t := fun p q => h (nth p A 0%nat) (nth q B 0%nat).
  Definition restrict4 (A B C D : list nat) (g : T4t) : T4t :=
    fun p q r s => g (nth p A 0%nat) (nth q B 0%nat) (nth r C 0%nat) (nth s D 0%nat).

  (* ---- unrestricted fold: _get_active_space_integrals_uhf (blocks aa, ab, bb; note the swapped reads) *)
  Definition uhf_core (ha hb : T2t) (gaa gab gbb : T4t) (Fa Fb : list nat) : K R :=
    sumL Fa (fun i => ha i i + sumL Fa (fun j => chalf * (gaa i j j i - gaa i j i j))
                              + sumL Fb (fun j => chalf * gab i j j i))
    + sumL Fb (fun i => hb i i + sumL Fa (fun j => chalf * gab j i i j)
                                + sumL Fb (fun j => chalf * (gbb i j j i - gbb i j i j))).
  Definition uhf_h1a (ha : T2t) (gaa gab : T4t) (Fa Fb : list nat) : T2t :=
    fun u v => ha u v + sumL Fa (fun i => gaa i u v i - gaa i u i v) + sumL Fb (fun i => gab u i i v).
  Definition uhf_h1b (hb : T2t) (gbb gab : T4t) (Fa Fb : list nat) : T2t :=
    fun u v => hb u v + sumL Fb (fun i => gbb i u v i - gbb i u i v) + sumL Fa (fun i => gab i u v i).

  (* ---- Slater-Condon diagonal energy of a determinant (specification).  Convention of openfermion:
          H = c + sum h[p,q] a+_p a_q + 1/2 sum g[p,q,r,s] a+_p a+_q a_r a_s  with spatial g[p,q,r,s] read
          for spin patterns (s,t,t,s).  Oa / Ob: spatial orbitals occupied by an alpha / beta electron. *)
  Definition e_det (h : T2t) (g : T4t) (Oa Ob : list nat) : K R :=
    sumL Oa (fun i => h i i) + sumL Ob (fun i => h i i)
    + chalf * (sum2 Oa Oa (fun i j => g i j j i - g i j i j) + sum2 Ob Ob (fun i j => g i j j i - g i j i j)
               + sum2 Oa Ob (fun i j => g i j j i) + sum2 Ob Oa (fun i j => g i j j i)).
  Definition e_det_u (ha hb : T2t) (gaa gab gbb : T4t) (Oa Ob : list nat) : K R :=
    sumL Oa (fun i => ha i i) + sumL Ob (fun i => hb i i)
    + chalf * (sum2 Oa Oa (fun i j => gaa i j j i - gaa i j i j) + sum2 Ob Ob (fun i j => gbb i j j i - gbb i j i j)
               + sum2 Oa Ob (fun i j => gab i j j i) + sum2 Ob Oa (fun j i => gab i j j i)).
  (* the same in chemist notation (ij|kl): sum h_ii + 1/2 sum [(ii|jj) - (ij|ji)] *)
  Definition e_det_chem (h : T2t) (eri : T4t) (Oa Ob : list nat) : K R :=
    sumL Oa (fun i => h i i) + sumL Ob (fun i => h i i)
    + chalf * (sum2 Oa Oa (fun i j => eri i i j j - eri i j j i) + sum2 Ob Ob (fun i j => eri i i j j - eri i j j i)
               + sum2 Oa Ob (fun i j => eri i i j j) + sum2 Ob Oa (fun i j => eri i i j j)).

  (* ---- spin-orbital operator: spinorb_from_spatial, then InteractionOperator(c, one, 1/2 two) *)
  Definition so1 (h : T2t) : T2t :=
    fun P Q => gate (P mod 2 =? Q mod 2) (h (P / 2) (Q / 2))%nat.
  Definition so2 (g : T4t) : T4t :=
    fun P Q R0 S => gate ((P mod 2 =? S mod 2) && (Q mod 2 =? R0 mod 2)) (g (P / 2) (Q / 2) (R0 / 2) (S / 2))%nat.
  Definition io2_r (g : T4t) : T4t := fun P Q R0 S => chalf * so2 g P Q R0 S.

  (* _get_molecular_hamiltonian_uhf: na, nb active orbitals; blocks aa, bb, abba, baab; zero elsewhere *)
  Definition inb (x n : nat) : bool := x <? n.
  Definition uso1 (na nb : nat) (ha hb : T2t) : T2t :=
    fun P Q =>
      let p := (P / 2)%nat in let q := (Q / 2)%nat in
      match (P mod 2)%nat, (Q mod 2)%nat with
      | O, O => gate (inb p na && inb q na) (ha p q)
      | S O, S O => gate (inb p nb && inb q nb) (hb p q)
      | _, _ => 0
      end.
  Definition uso2 (na nb : nat) (gaa gab gbb : T4t) : T4t :=
    fun P Q R0 S =>
      let p := (P / 2)%nat in let q := (Q / 2)%nat in let r := (R0 / 2)%nat in let s := (S / 2)%nat in
      match (P mod 2)%nat, (Q mod 2)%nat, (R0 mod 2)%nat, (S mod 2)%nat with
      | O, O, O, O => gate (inb p na && inb q na && inb r na && inb s na) (chalf * gaa p q r s)
      | S O, S O, S O, S O => gate (inb p nb && inb q nb && inb r nb && inb s nb) (chalf * gbb p q r s)
      | O, S O, S O, O => gate (inb p na && inb q nb && inb r nb && inb s na) (chalf * gab p q r s)
      | S O, O, O, S O => gate (inb p nb && inb q na && inb r na && inb s nb) (chalf * gab q p s r)
      | _, _, _, _ => 0
      end.

  (* diagonal Fock-space element of c + sum one[P,Q] a+_P a_Q + sum two[P,Q,R,S] a+_P a+_Q a_R a_S on the
     determinant with occupied spin-orbitals D (Slater-Condon rule for number-conserving diagonal parts) *)
  Definition e_so (one : T2t) (twob : T4t) (D : list nat) : K R :=
    sumL D (fun P => one P P) + sum2 D D (fun P Q => twob P Q Q P - twob P Q P Q).
  Definition det_so (Oa Ob : list nat) : list nat := map (fun i => 2 * i)%nat Oa ++ map (fun i => 2 * i + 1)%nat Ob.

  (* the terms get_fermion_operator produces from an InteractionOperator: non-zero entries only *)
  Definition idx2 (n : nat) : list (nat * nat) := list_prod (seq 0 n) (seq 0 n).
  Definition ham_terms (iszero : K R -> bool) (nq : nat) (one : T2t) (twob : T4t) : list (term * K R) :=
    filter (fun tc => negb (iszero (snd tc)))
      (map (fun pq => (T1 (fst pq) (snd pq), one (fst pq) (snd pq))) (idx2 nq)
       ++ map (fun x => (T2 (fst (fst x)) (snd (fst x)) (fst (snd x)) (snd (snd x)),
                         twob (fst (fst x)) (snd (fst x)) (fst (snd x)) (snd (snd x))))
              (list_prod (idx2 nq) (idx2 nq))).
End Ints.

Arguments sumL {R X}. Arguments sum2 {R X Y}. Arguments sumn {R}. Arguments two {R}. Arguments gate {R}.
