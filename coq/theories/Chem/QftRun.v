(* QftRun.v — exact validation of the implementation's QFT gate lists in the cyclotomic instance
   (DESIGN §4.3): the list returned by the real get_qft_circuit (angles on the pi/8 grid, i.e. lists of
   at most 4 qubits) is interpreted by Linq.Interp in Q(zeta_32), run on every basis state of an
   n-qubit register, and every amplitude is compared EXACTLY with the DFT specification
       <z| QFT |x> = 2^{-m/2} w^{val qs x * val qs' z}   if z agrees with x outside qs, else 0
   (qs' = qs with swap, rev qs without; conjugate exponent for the inverse), w = e^{2 pi i/2^m}.
   Also the two instances of the angle family: units of pi/8 (Cyc). *)
From Coq Require Import String ZArith NArith List Bool.
From Tangelo Require Import Num.KStruct Num.Cyc Num.Show QSem.State Linq.GateModel Linq.Interp Linq.LinqZ Linq.Equiv Chem.Qft.
Import ListNotations.
Open Scope string_scope.

(* pi/2^k in units of pi/8 (k <= 3; smaller angles are not on the grid) *)
Definition chp (k : nat) : Z :=
  match k with 0%nat => 8 | 1%nat => 4 | 2%nat => 2 | 3%nat => 1 | _ => 0 end%Z.

(* e^{2 pi i e / 2^m} for m <= 5: cis u = e^{i u pi/16}, so the step is 32/2^m units *)
Definition cw_step (m : nat) : Z :=
  match m with 0%nat => 0 | 1%nat => 16 | 2%nat => 8 | 3%nat => 4 | 4%nat => 2 | 5%nat => 1 | _ => 0 end%Z.

Definition dft_entry (qs : list N) (inverse swap : bool) (x z : N) : K CycS :=
  let m := length qs in
  if N.eqb (put qs x z) x then
    let e := Z.of_nat (val qs x * val (if swap then qs else rev qs) z) in
    let e' := if inverse then Z.opp e else e in
    @kmul CycS (kpow CycS (@krs2 CycS) m) (@cis CycS (e' * cw_step m)%Z)
  else @k0 CycS.

(* inverse without swap: the adjoint of (bit reversal o DFT) reads the INPUT register reversed *)
Definition dft_entry_gen (qs : list N) (inverse swap : bool) (x z : N) : K CycS :=
  if inverse && negb swap then
    let m := length qs in
    if N.eqb (put qs x z) x then
      @kmul CycS (kpow CycS (@krs2 CycS) m)
            (@cis CycS (Z.opp (Z.of_nat (val (rev qs) x * val qs z)) * cw_step m)%Z)
    else @k0 CycS
  else dft_entry qs inverse swap x z.

Definition qft_check (n : nat) (qs : list Z) (inverse swap : bool) (gs : list zgate) : string :=
  match cy_interp_all gs with
  | None => "?"
  | Some c =>
    let qn := map zn qs in
    let dim := Nat.pow 2 n in
    if forallb (fun x =>
         let col := run CycS n c (tab CycS n (ket CycS (N.of_nat x))) in
         forallb (fun z => cyeq (nth z col (@k0 CycS)) (dft_entry_gen qn inverse swap (N.of_nat x) (N.of_nat z)))
                 (seq 0 dim)) (seq 0 dim)
    then "E" else "N"
  end.

(* the model's list on the grid, for the same check (model vs specification, exact) *)
Definition qang_units (a : qang) : Z := match a with QA s k => if s then Z.opp (chp k) else chp k end.
Definition to_zgate (g : qgate) : zgate :=
  PGate (pname g) (ptarget g) (pcontrol g)
        (match pparam g with PNone => PNone | PNum a => PNum (qang_units a) | PStr s => PStr s end) (pvar g).
Definition model_check (n : nat) (qs : list Z) (inverse swap : bool) : string :=
  qft_check n qs inverse swap (map to_zgate (qft_gates qs inverse swap)).
