(* Decomp.v — models (definitions only) of the Tangelo-authored logic of the problem-decomposition
   classes (property C15).  Energies and coordinates are elements of an arbitrary commutative ring
   [CRing] (instances at the end: Z, Qc; the theorems of DecompProofs.v hold for every instance, in
   particular for R).

   Sources modelled (read from /repo, tied by the correspondence of harness/props/C15.py):
     oniom/oniom_problem_decomposition.py   distribute_atoms, simulate
     oniom/_helpers/helper_classes.py       Fragment.__init__ checks, Fragment.simulate, Link.relink (one cap atom)
     incremental/incremental_helper.py      mi_summation, frag_info_flattened
     dmet/dmet_problem_decomposition.py     constructor bookkeeping (lines 123-192), cost of _oneshot_loop
   Proofs are in DecompProofs.v. *)
From Coq Require Import ZArith String Bool Arith Ring List.
Import ListNotations.
Open Scope string_scope.
Open Scope list_scope.

(* ------------------------------------------------------------------ Python results *)
Inductive perr : Type :=
| ValueError | TypeError | KeyError | IndexError
| RuntimeError (tag : string).          (* tag = a word of the message, to tell the raise sites apart *)
Inductive res (X : Type) : Type := Ok (x : X) | Err (e : perr).
Arguments Ok {_}. Arguments Err {_}.
Definition bind {X Y} (r : res X) (f : X -> res Y) : res Y :=
  match r with Ok x => f x | Err e => Err e end.
Notation "'do' x <- r ; k" := (bind r (fun x => k)) (at level 200, x name, r at level 100, k at level 200).

Fixpoint mapM {X Y} (f : X -> res Y) (l : list X) : res (list Y) :=
  match l with
  | [] => Ok []
  | x :: r => do y <- f x; do ys <- mapM f r; Ok (y :: ys)
  end.

(* l[i] with Python's negative indices *)
Definition py_index (len : nat) (i : Z) : option nat :=
  if (0 <=? i)%Z then (if (i <? Z.of_nat len)%Z then Some (Z.to_nat i) else None)
  else (if (- Z.of_nat len <=? i)%Z then Some (Z.to_nat (Z.of_nat len + i)) else None).
Definition py_nth {X} (l : list X) (i : Z) : res X :=
  match py_index (length l) i with
  | Some k => match nth_error l k with Some x => Ok x | None => Err IndexError end
  | None => Err IndexError
  end.
(* l[:n] *)
Definition py_prefix {X} (l : list X) (n : Z) : list X :=
  if (0 <=? n)%Z then firstn (Z.to_nat n) l else firstn (Z.to_nat (Z.of_nat (length l) + n)) l.

(* ------------------------------------------------------------------ numbers *)
Record CRing : Type := mkCRing {
  car :> Type;
  r0 : car; r1 : car;
  radd : car -> car -> car; rmul : car -> car -> car; rsub : car -> car -> car; ropp : car -> car;
  r_th : ring_theory r0 r1 radd rmul rsub ropp (@eq car)
}.
Arguments r0 {_}. Arguments r1 {_}. Arguments radd {_}. Arguments rmul {_}. Arguments rsub {_}. Arguments ropp {_}.

Declare Scope R_scope.
Delimit Scope R_scope with Rg.
Infix "+" := radd : R_scope.
Infix "*" := rmul : R_scope.
Infix "-" := rsub : R_scope.
Notation "- x" := (ropp x) : R_scope.

(* Python's sum(l): 0 + x1 + x2 + ... *)
Definition rsum {R : CRing} (l : list R) : R := fold_left radd l r0.

(* itertools.combinations(l, k), in itertools' order *)
Fixpoint combinations {X} (l : list X) (k : nat) {struct l} : list (list X) :=
  match k, l with
  | O, _ => [[]]
  | S _, [] => []
  | S k', x :: r => map (cons x) (combinations r k') ++ combinations r k
  end.

(* ================================================================== ONIOM *)
Section Oniom.
  Variable R : CRing.
  Local Open Scope R_scope.

  Definition vec : Type := (R * R * R)%type.
  Definition vadd (a b : vec) : vec := let '(a1, a2, a3) := a in let '(b1, b2, b3) := b in (a1 + b1, a2 + b2, a3 + b3).
  Definition vsub (a b : vec) : vec := let '(a1, a2, a3) := a in let '(b1, b2, b3) := b in (a1 - b1, a2 - b2, a3 - b3).
  Definition vscale (c : R) (a : vec) : vec := let '(a1, a2, a3) := a in (c * a1, c * a2, c * a3).
  Definition vzero : vec := (r0, r0, r0).
  Definition vdot (a b : vec) : R := let '(a1, a2, a3) := a in let '(b1, b2, b3) := b in a1 * b1 + a2 * b2 + a3 * b3.
  Definition vcross (a b : vec) : vec :=
    let '(a1, a2, a3) := a in let '(b1, b2, b3) := b in (a2 * b3 - a3 * b2, a3 * b1 - a1 * b3, a1 * b2 - a2 * b1).

  Definition atom : Type := (string * vec)%type.     (* (element, (x, y, z)) *)
  Definition geometry : Type := list atom.

  (* Link with a single-element species: self.species = [(species, (0., 0., 0.))] *)
  Record link : Type := mkLink { l_staying : Z; l_leaving : Z; l_factor : R; l_species : string }.

  (* Link.relink, branch len(elements) == 1 (no rotation):
       staying = geometry[self.staying][1]; leaving = geometry[self.leaving][1]
       replacement = self.factor*(leaving-staying) + staying
       translation = replacement - chem_group_xyz[0];  chem_group_xyz += translation        *)
  Definition relink (li : link) (g : geometry) : res (list atom) :=
    do s <- py_nth g (l_staying li);
    do l <- py_nth g (l_leaving li);
    let replacement := vadd (vscale (l_factor li) (vsub (snd l) (snd s))) (snd s) in
    let translation := vsub replacement vzero in
    Ok [(l_species li, vadd vzero translation)].

  (* selected_atoms *)
  Inductive sel : Type := SelAll | SelCount (n : Z) | SelList (l : list Z) | SelBad.

  Definition level : Type := nat.        (* (solver, basis, options) of one accuracy level, abstract *)

  Record fragment : Type := mkFragment {
    f_sel : sel; f_low : option level; f_high : option level; f_links : list link }.

  (* Fragment.__init__: the two checks on (selected_atoms, solver_low, solver_high) *)
  Definition fragment_init (s : sel) (lo hi : option level) (links : list link) : res fragment :=
    match s, hi with
    | SelAll, _ | _, Some _ =>
        match lo, hi with
        | None, None => Err ValueError
        | _, _ => Ok (mkFragment s lo hi links)
        end
    | _, None => Err (RuntimeError "solver_high")
    end.

  (* --- distribute_atoms, as written.  fragment.geometry is either the very list object
         self.geometry (selected_atoms is None) or a fresh list; [+=] extends the object in place. *)
  Inductive gref : Type := Shared | Own (g : geometry).

  Definition select_asis (sys : geometry) (s : sel) : res gref :=
    match s with
    | SelAll => Ok Shared
    | SelCount n => Ok (Own (py_prefix sys n))
    | SelList l => do g <- mapM (py_nth sys) l; Ok (Own g)
    | SelBad => Err TypeError
    end.

  Fixpoint add_links (links : list link) (sys : geometry) (gr : gref) : res (geometry * gref) :=
    match links with
    | [] => Ok (sys, gr)
    | li :: r =>
        do caps <- relink li sys;
        match gr with
        | Shared => add_links r (sys ++ caps) Shared
        | Own g => add_links r sys (Own (g ++ caps))
        end
    end.

  Fixpoint distribute_asis_loop (frs : list fragment) (sys : geometry) (acc : list gref) : res (geometry * list gref) :=
    match frs with
    | [] => Ok (sys, rev acc)
    | f :: r =>
        do gr <- select_asis sys (f_sel f);
        do sg <- add_links (f_links f) sys gr;
        distribute_asis_loop r (fst sg) (snd sg :: acc)
    end.

  Definition deref (sys : geometry) (gr : gref) : geometry := match gr with Shared => sys | Own g => g end.

  (* result: the final self.geometry and the geometry every fragment is built with *)
  Definition distribute_asis (sys : geometry) (frs : list fragment) : res (geometry * list geometry) :=
    do r <- distribute_asis_loop frs sys [];
    Ok (fst r, map (deref (fst r)) (snd r)).

  (* --- repaired variant: the whole-system selection copies the list (self.geometry[:]) *)
  Definition select_repaired (sys : geometry) (s : sel) : res geometry :=
    match s with
    | SelAll => Ok sys
    | SelCount n => Ok (py_prefix sys n)
    | SelList l => mapM (py_nth sys) l
    | SelBad => Err TypeError
    end.
  Fixpoint caps_of (links : list link) (sys : geometry) : res (list atom) :=
    match links with
    | [] => Ok []
    | li :: r => do c <- relink li sys; do cs <- caps_of r sys; Ok (c ++ cs)
    end.
  Definition distribute_repaired (sys : geometry) (frs : list fragment) : res (geometry * list geometry) :=
    do gs <- mapM (fun f => do g <- select_repaired sys (f_sel f); do c <- caps_of (f_links f) sys; Ok (g ++ c)) frs;
    Ok (sys, gs).

  (* --- Fragment.simulate and ONIOMProblemDecomposition.simulate.
         [E lv g]: what the solver of level lv returns for the molecule built from geometry g. *)
  Variable E : level -> geometry -> R.

  Definition fragment_energy (f : fragment) (g : geometry) : R :=
    let e_low := match f_low f with Some lv => E lv g | None => r0 end in
    match f_high f with
    | Some hv => let e_high := E hv g in let e_low' := e_low * (- r1) in e_high + e_low'
    | None => r0 + e_low
    end.

  Definition oniom_simulate (fgs : list (fragment * geometry)) : R :=
    rsum (map (fun fg => fragment_energy (fst fg) (snd fg)) fgs).

  Definition oniom_asis (sys : geometry) (frs : list fragment) : res R :=
    do d <- distribute_asis sys frs; Ok (oniom_simulate (combine frs (snd d))).
  Definition oniom_repaired (sys : geometry) (frs : list fragment) : res R :=
    do d <- distribute_repaired sys frs; Ok (oniom_simulate (combine frs (snd d))).
End Oniom.


Arguments Shared {_}. Arguments Own {_}.

(* ================================================================== method of increments *)
(* str(tuple of ints) *)
From Coq Require Import DecimalString Decimal DecimalNat.
From Coq Require Import List.
Definition dec_nat (n : nat) : string := NilZero.string_of_uint (Nat.to_uint n).
Fixpoint join_cs (l : list string) : string :=
  match l with [] => "" | [x] => x | x :: r => (x ++ ", " ++ join_cs r)%string end.
Definition py_tuple_str (t : list nat) : string :=
  match t with
  | [] => "()"
  | [x] => ("(" ++ dec_nat x ++ ",)")%string
  | _ => ("(" ++ join_cs (map dec_nat t) ++ ")")%string
  end.

Section MI.
  Variable R : CRing.
  Local Open Scope R_scope.
  Variable Key : Type.                       (* dictionary keys (Python: str) *)
  Variable keyb : Key -> Key -> bool.        (* == on keys *)
  Variable key_of : list nat -> Key.         (* str(tuple) *)

  (* one entry of frag_info[n_body]: key, eval(key), "energy_total" (None allowed), "correction" *)
  Record mfrag : Type := mkMfrag { m_key : Key; m_tuple : list nat; m_energy : option R; m_corr : R }.
  Definition frag_info : Type := list (nat * list mfrag).    (* insertion-ordered dict n_body -> dict *)

  (* insertion-ordered dict Key -> V *)
  Definition dict (V : Type) : Type := list (Key * V).
  Fixpoint dget {V} (d : dict V) (k : Key) : option V :=
    match d with [] => None | (k', v) :: r => if keyb k' k then Some v else dget r k end.
  Fixpoint dset {V} (d : dict V) (k : Key) (v : V) : dict V :=
    match d with
    | [] => [(k, v)]
    | (k', v') :: r => if keyb k' k then (k', v) :: r else (k', v') :: dset r k v
    end.
  Definition dupdate {V} (a b : dict V) : dict V := fold_left (fun d kv => dset d (fst kv) (snd kv)) b a.

  (* frag_info_flattened = reduce(lambda a, b: {**a, **b}, self.frag_info.values()) *)
  Definition flattened (fi : frag_info) : res (dict mfrag) :=
    match fi with
    | [] => Err TypeError                      (* reduce() of empty iterable with no initial value *)
    | (_, l) :: r =>
        Ok (fold_left (fun a nl => dupdate a (map (fun m => (m_key m, m)) (snd nl))) r
                      (dupdate [] (map (fun m => (m_key m, m)) l)))
    end.

  Definition level_get (fi : frag_info) (n : nat) : option (list mfrag) :=
    match find (fun nl => Nat.eqb (fst nl) n) fi with Some nl => Some (snd nl) | None => None end.

  (* the innermost two loops: for n_increment in range(1, n_body): for sub in combinations(eval(id), n_increment) *)
  Definition sub_keys (t : list nat) (n_body : nat) : list Key :=
    flat_map (fun j => map key_of (combinations t j)) (seq 1 (n_body - 1)).

  Fixpoint subtract_all (eps : dict R) (k : Key) (subs : list Key) : res (dict R) :=
    match subs with
    | [] => Ok eps
    | s :: r =>
        match dget eps k, dget eps s with
        | Some cur, Some e => subtract_all (dset eps k (cur - e)) k r
        | _, _ => Err KeyError
        end
    end.

  Definition mi_frag (fe : dict R) (emf : R) (n_body : nat) (eps : dict R) (m : mfrag) : res (dict R) :=
    match dget fe (m_key m) with
    | None => Err KeyError
    | Some e =>
        let eps1 := dset eps (m_key m) (e - emf) in
        if Nat.ltb 1 n_body then subtract_all eps1 (m_key m) (sub_keys (m_tuple m) n_body) else Ok eps1
    end.

  Fixpoint mi_level (fe : dict R) (emf : R) (n_body : nat) (eps : dict R) (ms : list mfrag) : res (dict R) :=
    match ms with
    | [] => Ok eps
    | m :: r => do eps' <- mi_frag fe emf n_body eps m; mi_level fe emf n_body eps' r
    end.

  Fixpoint mi_levels (fi : frag_info) (fe : dict R) (emf : R) (ns : list nat) (eps : dict R) : res (dict R) :=
    match ns with
    | [] => Ok eps
    | n :: r =>
        match level_get fi n with
        | None => Err KeyError
        | Some ms => do eps' <- mi_level fe emf n eps ms; mi_levels fi fe emf r eps'
        end
    end.

  Definition mi_summation (fi : frag_info) (emf : R) (user : option (dict R)) : res R :=
    do fl <- flattened fi;
    do fe <- mapM (fun km => match m_energy (snd km) with Some e => Ok (fst km, e) | None => Err ValueError end) fl;
    do upd <- match user with
              | None => Ok []
              | Some u => mapM (fun ke => match dget fl (fst ke) with
                                          | Some m => Ok (fst ke, snd ke + m_corr m)
                                          | None => Err KeyError end) u
              end;
    let fe' := dupdate fe upd in
    let n_max := fold_left Nat.max (map fst fi) 0 in
    do eps <- mi_levels fi fe' emf (seq 1 n_max) [];
    Ok (emf + rsum (map snd eps)).

  (* the complete table over the centres [cs]: every non-empty sub-tuple, level by level *)
  Definition full_info (cs : list nat) (En Corr : list nat -> R) : frag_info :=
    map (fun k => (k, map (fun t => mkMfrag (key_of t) t (Some (En t)) (Corr t)) (combinations cs k)))
        (seq 1 (length cs)).
End MI.

(* ================================================================== DMET constructor bookkeeping *)
Inductive frag_atoms : Type := FaCounts (l : list Z) | FaNested (l : list (list Z)).
Inductive solvers_arg : Type := SolversStr | SolversList (n : nat).
Inductive options_arg : Type := OptionsEmpty | OptionsDict | OptionsList (n : nat).

Definition zsum (l : list Z) : Z := fold_left Z.add l 0%Z.
Definition zmax (l : list Z) : option Z :=
  match l with [] => None | x :: r => Some (fold_left Z.max r x) end.

Record dmet_book : Type := mkBook {
  b_order : list nat;        (* original index of the atom at each position of self.molecule afterwards *)
  b_counts : list Z;         (* self.fragment_atoms afterwards *)
  b_nsolvers : nat; b_noptions : nat; b_nfrozen : nat }.

Definition dmet_tail (order : list nat) (counts : list Z) (n_frozen : nat) (sv : solvers_arg) (op : options_arg)
  : res dmet_book :=
  if negb (Z.eqb (Z.of_nat (length order)) (zsum counts)) then Err (RuntimeError "sites") else
  let nf := length counts in
  if negb (Nat.eqb n_frozen 0) && negb (Nat.eqb n_frozen nf) then Err (RuntimeError "frozen") else
  match (match sv with SolversStr => Some nf | SolversList n => if Nat.eqb n nf then Some n else None end) with
  | None => Err (RuntimeError "solvers does not")
  | Some ns =>
      match (match op with OptionsEmpty => Some ns | OptionsDict => Some ns
                      | OptionsList n => if Nat.eqb n 0 then Some ns else if Nat.eqb n ns then Some n else None end) with
      | None => Err (RuntimeError "options")
      | Some no => Ok (mkBook order counts ns no nf)
      end
  end.

(* as written: only the upper bound and distinctness of the indices are checked, and the site-count
   check is made against the molecule rebuilt from the selected atoms *)
Definition dmet_book_asis (natm : nat) (fa : frag_atoms) (n_frozen : nat) (sv : solvers_arg) (op : options_arg)
  : res dmet_book :=
  match fa with
  | FaCounts l => dmet_tail (seq 0 natm) l n_frozen sv op
  | FaNested l =>
      let flat := concat l in
      match zmax flat with
      | None => Err ValueError                       (* max() of an empty sequence *)
      | Some mx =>
          if (Z.of_nat natm <=? mx)%Z then Err (RuntimeError "higher") else
          if negb (Nat.eqb (length flat) (length (nodup Z.eq_dec flat))) then Err (RuntimeError "once") else
          do order <- mapM (fun i => match py_index natm i with Some k => Ok k | None => Err IndexError end) flat;
          dmet_tail order (map (fun f => Z.of_nat (length f)) l) n_frozen sv op
      end
  end.

(* repaired: indices must be >= 0 and cover the molecule *)
Definition dmet_book_repaired (natm : nat) (fa : frag_atoms) (n_frozen : nat) (sv : solvers_arg) (op : options_arg)
  : res dmet_book :=
  match fa with
  | FaCounts l => dmet_tail (seq 0 natm) l n_frozen sv op
  | FaNested l =>
      let flat := concat l in
      match zmax flat with
      | None => Err ValueError
      | Some mx =>
          if (Z.of_nat natm <=? mx)%Z then Err (RuntimeError "higher") else
          if existsb (fun i => (i <? 0)%Z) flat then Err (RuntimeError "negative") else
          if negb (Nat.eqb (length flat) (length (nodup Z.eq_dec flat))) then Err (RuntimeError "once") else
          if negb (Nat.eqb (length flat) natm) then Err (RuntimeError "sites") else
          dmet_tail (map Z.to_nat flat) (map (fun f => Z.of_nat (length f)) l) n_frozen sv op
      end
  end.

(* ---- the chain of index checks as it stands in the source (regenerated by translator/decomp_facts.py into
        Gen.DecompFacts.dmet_checks): each element is one `if/elif <test>: raise RuntimeError` of the nested branch, in order *)
Inductive dmet_check : Type := ChkHigher | ChkNegative | ChkOnce | ChkCover.
Definition dmet_check_eqb (a b : dmet_check) : bool :=
  match a, b with
  | ChkHigher, ChkHigher | ChkNegative, ChkNegative | ChkOnce, ChkOnce | ChkCover, ChkCover => true
  | _, _ => false
  end.
Definition check_fails (natm : nat) (flat : list Z) (mx : Z) (c : dmet_check) : option perr :=
  match c with
  | ChkHigher => if (Z.of_nat natm <=? mx)%Z then Some (RuntimeError "higher") else None
  | ChkNegative => if existsb (fun i => (i <? 0)%Z) flat then Some (RuntimeError "negative") else None
  | ChkOnce => if negb (Nat.eqb (length flat) (length (nodup Z.eq_dec flat))) then Some (RuntimeError "once") else None
  | ChkCover => if negb (Nat.eqb (length flat) natm) then Some (RuntimeError "sites") else None
  end.
Fixpoint first_failure (natm : nat) (flat : list Z) (mx : Z) (cs : list dmet_check) : option perr :=
  match cs with
  | [] => None
  | c :: r => match check_fails natm flat mx c with Some e => Some e | None => first_failure natm flat mx r end
  end.
(* the constructor with the check chain [cs] (the chain must start with the max() test: translator requirement) *)
Definition dmet_book_src (cs : list dmet_check) (natm : nat) (fa : frag_atoms) (n_frozen : nat) (sv : solvers_arg) (op : options_arg)
  : res dmet_book :=
  match fa with
  | FaCounts l => dmet_tail (seq 0 natm) l n_frozen sv op
  | FaNested l =>
      let flat := concat l in
      match zmax flat with
      | None => Err ValueError
      | Some mx =>
          match first_failure natm flat mx cs with
          | Some e => Err e
          | None =>
              do order <- mapM (fun i => match py_index natm i with Some k => Ok k | None => Err IndexError end) flat;
              dmet_tail order (map (fun f => Z.of_nat (length f)) l) n_frozen sv op
          end
      end
  end.
Definition checks_cover (cs : list dmet_check) : bool :=
  existsb (dmet_check_eqb ChkHigher) cs && existsb (dmet_check_eqb ChkNegative) cs
  && existsb (dmet_check_eqb ChkOnce) cs && existsb (dmet_check_eqb ChkCover) cs.

(* _oneshot_loop: number_of_electron = 0.0; += n_electron_frag ...; return number_of_electron - N *)
Definition oneshot_cost {R : CRing} (n_frag : list R) (n_total : R) : R := (rsum n_frag - n_total)%Rg.

(* ================================================================== instances *)
From Coq Require Import QArith Qcanon.
From Coq Require Import List.
Definition ZRing : CRing := mkCRing Z 0%Z 1%Z Z.add Z.mul Z.sub Z.opp Zth.
Definition QcRing : CRing := mkCRing Qc 0%Qc 1%Qc Qcplus Qcmult Qcminus Qcopp Qcrt.

(* implicit ring argument where it can be inferred *)
Arguments vadd {R}. Arguments vsub {R}. Arguments vscale {R}. Arguments vdot {R}. Arguments vcross {R}.
Arguments l_staying {R}. Arguments l_leaving {R}. Arguments l_factor {R}. Arguments l_species {R}.
Arguments mkLink {R}. Arguments relink {R}.
Arguments f_sel {R}. Arguments f_low {R}. Arguments f_high {R}. Arguments f_links {R}. Arguments mkFragment {R}.
Arguments fragment_init {R}. Arguments select_asis {R}. Arguments select_repaired {R}. Arguments add_links {R}.
Arguments caps_of {R}. Arguments deref {R}. Arguments distribute_asis_loop {R}.
Arguments distribute_asis {R}. Arguments distribute_repaired {R}.
Arguments fragment_energy {R}. Arguments oniom_simulate {R}. Arguments oniom_asis {R}. Arguments oniom_repaired {R}.

(* ---- distribute_atoms with the fact regenerated from the source: does the selected_atoms=None branch copy self.geometry? *)
Definition distribute_src {R : CRing} (copies : bool) (sys : geometry R) (frs : list (fragment R)) : res (geometry R * list (geometry R)) :=
  if copies then distribute_repaired sys frs else distribute_asis sys frs.
Definition oniom_src {R : CRing} (copies : bool) (E : level -> geometry R -> R) (sys : geometry R) (frs : list (fragment R)) : res R :=
  do d <- distribute_src copies sys frs; Ok (oniom_simulate E (combine frs (snd d))).

(* ---- DMETProblemDecomposition._default_optimizer.  K: numbers; [small x] stands for abs(x) < tol; [newton] is the
        external root search (scipy.optimize.newton), an arbitrary function that may raise; [guard] is the fact regenerated
        from the source: is the cost evaluated at the initial chemical potential first and that value returned when small? *)
Definition default_optimizer_src {K : Type} (guard : bool) (small : K -> bool) (newton : (K -> K) -> K -> res K)
           (cost : K -> K) (mu0 : K) : res K :=
  if guard then (if small (cost mu0) then Ok mu0 else newton cost mu0) else newton cost mu0.
