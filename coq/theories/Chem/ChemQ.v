(* ChemQ.v — executable instance of the chemistry models over the exact rationals Qc (a CRing with
   Leibniz equality, so every theorem of IntegralsProofs / RdmProofs applies to what is computed here),
   tensors given as nested lists of integers, and the printers used by the correspondence harness. *)
From Coq Require Import String ZArith QArith Qcanon List Bool Arith.
From Tangelo Require Import Num.Show.
From Tangelo Require Import Chem.Integrals.
From Tangelo Require Import Chem.Rdm.
Import ListNotations.
Open Scope string_scope.

Lemma qc_half : Qcplus (Q2Qc (1 # 2)) (Q2Qc (1 # 2)) = Q2Qc 1.
Proof. apply Qc_is_canon. reflexivity. Qed.
Definition QcR : CRing := mkCRing Qc (Q2Qc 0) (Q2Qc 1) Qcplus Qcmult Qcminus Qcopp (Q2Qc (1 # 2)) Qcrt qc_half.

Definition qz (z : Z) : Qc := Q2Qc (inject_Z z).
Definition qq (n : Z) (d : positive) : Qc := Q2Qc (n # d).
Definition qc_iszero (q : Qc) : bool := Qc_eq_bool q (Q2Qc 0).

Definition mk2 (l : list (list Z)) : T2t QcR := fun p q => qz (nth q (nth p l []) 0%Z).
Definition mk4 (l : list (list (list (list Z)))) : T4t QcR :=
  fun p q r s => qz (nth s (nth r (nth q (nth p l []) []) []) 0%Z).
Definition mk2q (l : list (list Qc)) : T2t QcR := fun p q => nth q (nth p l []) (Q2Qc 0).
Definition mk4q (l : list (list (list (list Qc)))) : T4t QcR :=
  fun p q r s => nth s (nth r (nth q (nth p l []) []) []) (Q2Qc 0).

Definition show_nats (l : list nat) : string := "[" ++ join "," (map show_nat l) ++ "]".
Definition show_cerr (e : cerr) : string :=
  match e with CValueError => "ValueError" | CTypeError => "TypeError" | CNotImplemented => "NotImplementedError" end.
Definition show_part (p : part) : string :=
  "ao=" ++ show_nats (aocc p) ++ " fo=" ++ show_nats (focc p) ++ " av=" ++ show_nats (avir p) ++ " fv=" ++ show_nats (fvir p).
Definition show_t2 (n1 n2 : nat) (t : T2t QcR) : string :=
  join " " (map (fun pq => show_Qc (t (fst pq) (snd pq))) (list_prod (seq 0 n1) (seq 0 n2))).
Definition show_t4 (n1 n2 n3 n4 : nat) (t : T4t QcR) : string :=
  join " " (map (fun x => show_Qc (t (fst (fst x)) (snd (fst x)) (fst (snd x)) (snd (snd x))))
                (list_prod (list_prod (seq 0 n1) (seq 0 n2)) (list_prod (seq 0 n3) (seq 0 n4)))).
Definition show_term (tc : term * Qc) : string :=
  match fst tc with
  | T1 i j => show_nat i ++ "," ++ show_nat j
  | T2 i j k l => show_nat i ++ "," ++ show_nat j ++ "," ++ show_nat k ++ "," ++ show_nat l
  end ++ ":" ++ show_Qc (snd tc).
Definition show_terms (l : list (term * Qc)) : string := join ";" (map show_term l).
Definition show_opt_nats (o : option (list nat)) : string := match o with None => "None" | Some l => show_nats l end.

(* ---- C04: everything the restricted SecondQuantizedMolecule exposes, for one stub molecule *)
Definition c04_r (occ : list nat) (spin : Z) (s : fspec) (core : Z) (h : list (list Z)) (g : list (list (list (list Z)))) : string :=
  match freeze_r occ s with
  | CErr e => "Err:" ++ show_cerr e
  | COk p =>
      let A := active_mos p in
      let na := length A in
      let H := mk2 h in let G := mk4 g in
      let c := Qcplus (qz core) (of_core QcR H G (focc p)) in
      let h1 := restrict2 QcR A A (of_h1 QcR H G (focc p)) in
      let g1 := restrict4 QcR A A A A G in
      let ab := n_active_ab_r occ spin p in
      show_part p ++ " ab=" ++ show_Z (fst ab) ++ "," ++ show_Z (snd ab) ++ " spin=" ++ show_Z (active_spin ab)
      ++ " nmos=" ++ show_nat (n_active_mos_r p) ++ " nsos=" ++ show_nat (n_active_sos_r p)
      ++ " fmos=" ++ show_opt_nats (frozen_mos_r p)
      ++ " | core=" ++ show_Qc c ++ " | h=" ++ show_t2 na na h1 ++ " | g=" ++ show_t4 na na na na g1
      ++ " | terms=" ++ show_terms (ham_terms QcR qc_iszero (2 * na) (so1 QcR h1) (io2_r QcR g1))
  end.

Definition c04_u (occa occb : list nat) (s : fspec) (core : Z) (ha hb : list (list Z))
           (gaa gab gbb : list (list (list (list Z)))) : string :=
  match convert_u occa occb s with
  | CErr e => "Err:" ++ show_cerr e
  | COk (pa, pb) =>
      let Aa := active_mos pa in let Ab := active_mos pb in
      let na := length Aa in let nb := length Ab in
      let Ha := mk2 ha in let Hb := mk2 hb in
      let Gaa := mk4 gaa in let Gab := mk4 gab in let Gbb := mk4 gbb in
      let c := Qcplus (qz core) (uhf_core QcR Ha Hb Gaa Gab Gbb (focc pa) (focc pb)) in
      let h1a := restrict2 QcR Aa Aa (uhf_h1a QcR Ha Gaa Gab (focc pa) (focc pb)) in
      let h1b := restrict2 QcR Ab Ab (uhf_h1b QcR Hb Gbb Gab (focc pa) (focc pb)) in
      let g1aa := restrict4 QcR Aa Aa Aa Aa Gaa in
      let g1ab := restrict4 QcR Aa Ab Ab Aa Gab in
      let g1bb := restrict4 QcR Ab Ab Ab Ab Gbb in
      let ab := n_active_ab_u occa occb pa pb in
      "a:" ++ show_part pa ++ " b:" ++ show_part pb
      ++ " ab=" ++ show_Z (fst ab) ++ "," ++ show_Z (snd ab) ++ " spin=" ++ show_Z (active_spin ab)
      ++ " nmos=" ++ show_nat na ++ "," ++ show_nat nb ++ " nsos=" ++ show_nat (n_active_sos_u pa pb)
      ++ " | core=" ++ show_Qc c ++ " | ha=" ++ show_t2 na na h1a ++ " | hb=" ++ show_t2 nb nb h1b
      ++ " | gaa=" ++ show_t4 na na na na g1aa ++ " | gab=" ++ show_t4 na nb nb na g1ab ++ " | gbb=" ++ show_t4 nb nb nb nb g1bb
      ++ " | terms=" ++ show_terms (ham_terms QcR qc_iszero (n_active_sos_u pa pb) (uso1 QcR na nb h1a h1b) (uso2 QcR na nb g1aa g1ab g1bb))
  end.

(* ---- C13: get_rdm placement / spin summation / energy contraction on a table of measured expectation
        values (one real table at a time: the model is linear in ev with real weights, so the harness feeds
        real and imaginary parts separately) *)
(* expectation values as dense tables (zero for terms that are not measured) *)
Definition ev_dense (e1 : list (list Qc)) (e2 : list (list (list (list Qc)))) (t : term) : Qc :=
  match t with
  | T1 i j => mk2q e1 i j
  | T2 i j k l => mk4q e2 i j k l
  end.
Definition c13_rdm (ax : axes) (fc : fac) (nso : nat) (core : Z) (h : list (list Qc)) (g : list (list (list (list Qc))))
           (ts : list term) (e1 : list (list Qc)) (e2 : list (list (list (list Qc)))) : string :=
  let ev := ev_dense e1 e2 in
  let n := (nso / 2)%nat in
  let d1 := rdm1_sum QcR ev nso ts in          (* the loops, as in the source *)
  let d2 := rdm2_sum_f QcR ev ts in            (* closed form (RdmProofs.rdm2_sum_closed) *)
  "d1s=" ++ show_t2 nso nso (rdm1_spin QcR ev ts) ++ " | d2s=" ++ show_t4 nso nso nso nso (rdm2_spin QcR ev ts)
  ++ " | d1=" ++ show_t2 n n d1 ++ " | d2=" ++ show_t4 n n n n d2
  ++ " | e=" ++ show_Qc (energy_r QcR ax fc n (qz core) (mk2q h) (mk4q g) d1 d2).

(* padding helper on integer arrays; third part: the caller's 2-RDM array after the call *)
Definition c13_pad (alias : bool) (ax_in ax_out : axes) (n nocc nocc0 : nat) (A : list nat)
           (d1 : list (list Z)) (d2 : list (list (list (list Z)))) : string :=
  let r := pad_restricted QcR alias ax_in ax_out nocc nocc0 A (mk2 d1) (mk4 d2) in
  let n0 := length A in
  "d1=" ++ show_t2 n n (fst (fst r)) ++ " | d2=" ++ show_t4 n n n n (snd (fst r)) ++ " | in2=" ++ show_t4 n0 n0 n0 n0 (snd r).
