(* RdmProofs.v — lemmas about Chem/Rdm.v (C13).
   1. Kronecker collapses of nested index sums         2. contraction of placed tensors = sum over terms
   3. energy_contraction (restricted, spin-summed and spin-resolved)
   4. the spin-summation loops equal their closed forms  5. Hermiticity  6. traces
   7. padding with frozen orbitals: 1-RDM trace, aliasing of the caller's 2-RDM *)
From Coq Require Import List ZArith Bool Arith Lia Ring Permutation.
From Tangelo Require Import Chem.Integrals.
From Tangelo Require Import Chem.IntegralsProofs.
From Tangelo Require Import Chem.Rdm.
Import ListNotations.

Lemma term_eq_dec (a b : term) : {a = b} + {a <> b}.
Proof. decide equality; apply Nat.eq_dec. Qed.

Section RdmP.
  Variable R : CRing.
  Add Ring rr3 : (c_ring R).
  Open Scope CR_scope.
  Notation K := (K R).

  (* ---- 1. Kronecker collapses *)
  Lemma sumn_pick (n a : nat) (f : nat -> K) : a < n -> sumn n (fun p => gate (a =? p) (f p)) = f a.
  Proof.
    intro H. rewrite sumn_delta'. replace (a <? n) with true by (symmetry; apply Nat.ltb_lt; auto). reflexivity.
  Qed.
  Lemma sumn_pickL (n a : nat) (c : bool) (f : nat -> K) :
    a < n -> sumn n (fun p => gate (c && (a =? p)) (f p)) = gate c (f a).
  Proof.
    intro H. destruct c; simpl.
    - apply sumn_pick; auto.
    - apply sumL_zero.
  Qed.
  Lemma sumn_add n (f g : nat -> K) : sumn n (fun p => f p + g p) = sumn n f + sumn n g.
  Proof. apply sumL_add. Qed.
  Lemma sumn_ext n (f g : nat -> K) : (forall p, f p = g p) -> sumn n f = sumn n g.
  Proof. intro H. apply sumL_ext. intros; apply H. Qed.
  Lemma sumn_zero n : sumn n (fun _ => 0) = (0 : K).
  Proof. apply sumL_zero. Qed.

  Lemma collapse4 (n1 n2 n3 n4 a b c d : nat) (F : nat -> nat -> nat -> nat -> K) :
    a < n1 -> b < n2 -> c < n3 -> d < n4 ->
    sumn n1 (fun p => sumn n2 (fun q => sumn n3 (fun r => sumn n4 (fun s =>
        gate ((a =? p) && (b =? q) && (c =? r) && (d =? s)) (F p q r s))))) = F a b c d.
  Proof.
    intros Ha Hb Hc Hd.
    transitivity (sumn n1 (fun p => sumn n2 (fun q => sumn n3 (fun r => gate ((a =? p) && (b =? q) && (c =? r)) (F p q r d))))).
    { apply sumn_ext; intro p. apply sumn_ext; intro q. apply sumn_ext; intro r.
      apply (sumn_pickL n4 d ((a =? p) && (b =? q) && (c =? r)) (fun s => F p q r s)); auto. }
    transitivity (sumn n1 (fun p => sumn n2 (fun q => gate ((a =? p) && (b =? q)) (F p q c d)))).
    { apply sumn_ext; intro p. apply sumn_ext; intro q.
      apply (sumn_pickL n3 c ((a =? p) && (b =? q)) (fun r => F p q r d)); auto. }
    transitivity (sumn n1 (fun p => gate (a =? p) (F p b c d))).
    { apply sumn_ext; intro p. apply (sumn_pickL n2 b (a =? p) (fun q => F p q c d)); auto. }
    apply (sumn_pick n1 a (fun p => F p b c d)); auto.
  Qed.
  Lemma collapse2 (n1 n2 a b : nat) (F : nat -> nat -> K) :
    a < n1 -> b < n2 ->
    sumn n1 (fun p => sumn n2 (fun q => gate ((a =? p) && (b =? q)) (F p q))) = F a b.
  Proof.
    intros Ha Hb.
    transitivity (sumn n1 (fun p => gate (a =? p) (F p b))).
    { apply sumn_ext; intro p. apply (sumn_pickL n2 b (a =? p) (fun q => F p q)); auto. }
    apply (sumn_pick n1 a (fun p => F p b)); auto.
  Qed.

  (* ---- 2. contractions are linear in the density tensor; contraction of a placed tensor *)
  Lemma contract4_add n1 n2 n3 n4 (g d e : T4t R) :
    contract4 R n1 n2 n3 n4 g (fun p q r s => d p q r s + e p q r s)
    = contract4 R n1 n2 n3 n4 g d + contract4 R n1 n2 n3 n4 g e.
  Proof.
    unfold contract4. rewrite <- sumn_add. apply sumn_ext; intro p.
    rewrite <- sumn_add. apply sumn_ext; intro q. rewrite <- sumn_add. apply sumn_ext; intro r.
    rewrite <- sumn_add. apply sumn_ext; intro s. ring.
  Qed.
  Lemma contract4_zero n1 n2 n3 n4 (g : T4t R) : contract4 R n1 n2 n3 n4 g (fun _ _ _ _ => 0) = 0.
  Proof.
    unfold contract4.
    transitivity (sumn n1 (fun _ => (0 : K))); [|apply sumn_zero]. apply sumn_ext; intro p.
    transitivity (sumn n2 (fun _ => (0 : K))); [|apply sumn_zero]. apply sumn_ext; intro q.
    transitivity (sumn n3 (fun _ => (0 : K))); [|apply sumn_zero]. apply sumn_ext; intro r.
    transitivity (sumn n4 (fun _ => (0 : K))); [|apply sumn_zero]. apply sumn_ext; intro s. ring.
  Qed.
  Lemma contract4_single n1 n2 n3 n4 (g : T4t R) a b c d (v : K) :
    a < n1 -> b < n2 -> c < n3 -> d < n4 ->
    contract4 R n1 n2 n3 n4 g (fun p q r s => gate ((a =? p) && (b =? q) && (c =? r) && (d =? s)) v) = g a b c d * v.
  Proof.
    intros. unfold contract4.
    rewrite <- (collapse4 n1 n2 n3 n4 a b c d (fun p q r s => g p q r s * v)) by auto.
    apply sumn_ext; intro p. apply sumn_ext; intro q. apply sumn_ext; intro r. apply sumn_ext; intro s.
    apply gate_mul_l.
  Qed.
  Lemma contract2_add n1 n2 (h d e : T2t R) :
    contract2 R n1 n2 h (fun p q => d p q + e p q) = contract2 R n1 n2 h d + contract2 R n1 n2 h e.
  Proof.
    unfold contract2. rewrite <- sumn_add. apply sumn_ext; intro p.
    rewrite <- sumn_add. apply sumn_ext; intro q. ring.
  Qed.
  Lemma contract2_zero n1 n2 (h : T2t R) : contract2 R n1 n2 h (fun _ _ => 0) = 0.
  Proof.
    unfold contract2.
    transitivity (sumn n1 (fun _ => (0 : K))); [|apply sumn_zero]. apply sumn_ext; intro p.
    transitivity (sumn n2 (fun _ => (0 : K))); [|apply sumn_zero]. apply sumn_ext; intro q. ring.
  Qed.
  Lemma contract2_single n1 n2 (h : T2t R) a b (v : K) :
    a < n1 -> b < n2 ->
    contract2 R n1 n2 h (fun p q => gate ((a =? p) && (b =? q)) v) = h a b * v.
  Proof.
    intros. unfold contract2.
    rewrite <- (collapse2 n1 n2 a b (fun p q => h p q * v)) by auto.
    apply sumn_ext; intro p. apply sumn_ext; intro q. apply gate_mul_l.
  Qed.

  Variable ev : term -> K.

  Definition phi_lt (phi : nat -> nat) (n : nat) (t : term) : Prop :=
    match t with
    | T1 i j => phi i < n /\ phi j < n
    | T2 i j k l => phi i < n /\ phi j < n /\ phi k < n /\ phi l < n
    end.

  Lemma contract4_place phi n (g : T4t R) ts :
    Forall (phi_lt phi n) ts ->
    contract4 R n n n n g (place2 R ev phi ts)
    = sumL ts (fun t => match t with T2 i j k l => g (phi i) (phi l) (phi j) (phi k) * ev t | _ => 0 end).
  Proof.
    induction 1 as [|t ts Ht Hts IH].
    - simpl. apply contract4_zero.
    - unfold place2. simpl sumL. rewrite contract4_add. fold (place2 R ev phi ts). rewrite IH. f_equal.
      destruct t as [i j|i j k l].
      + apply contract4_zero.
      + simpl in Ht. destruct Ht as [Hi [Hj [Hk Hl]]]. apply contract4_single; auto.
  Qed.
  Lemma contract2_place phi n (h : T2t R) ts :
    Forall (phi_lt phi n) ts ->
    contract2 R n n h (place1 R ev phi ts)
    = sumL ts (fun t => match t with T1 i j => h (phi i) (phi j) * ev t | _ => 0 end).
  Proof.
    induction 1 as [|t ts Ht Hts IH].
    - simpl. apply contract2_zero.
    - unfold place1. simpl sumL. rewrite contract2_add. fold (place1 R ev phi ts). rewrite IH. f_equal.
      destruct t as [i j|i j k l].
      + simpl in Ht. destruct Ht. apply contract2_single; auto.
      + apply contract2_zero.
  Qed.

  (* ---- 3. energy contraction *)
  (* spin-summed RDMs (closed form of get_rdm's output) contracted as energy_from_rdms does, with the
     reverse tuple and the factor 1/2: the sum over the measured terms of coefficient * expectation *)
  Theorem energy_contraction_spatial (ax : axes) n core (h : T2t R) (g : T4t R) ts :
    ax = PHYS_TO_CHEM -> Forall (phi_lt halfidx n) ts ->
    energy_r R ax FHalf n core h g (rdm1_sum_f R ev ts) (rdm2_sum_f R ev ts)
    = core + sumL ts (fun t => coef_spatial R h g t * ev t).
  Proof.
    intros -> Hts. unfold energy_r, rdm1_sum_f, rdm2_sum_f.
    rewrite contract2_place, contract4_place by auto. simpl fac_val.
    rewrite <- sumL_scale.
    transitivity (core + (sumL ts (fun t => match t with T1 i j => h (halfidx i) (halfidx j) * ev t | T2 _ _ _ _ => 0 end)
                          + sumL ts (fun x => chalf * match x with T1 _ _ => 0
                                                     | T2 i j k l => transpose4 PHYS_TO_CHEM g (halfidx i) (halfidx l) (halfidx j) (halfidx k) * ev x end))).
    { ring. }
    rewrite <- sumL_add. f_equal. apply sumL_ext. intros t _.
    destruct t as [i j|i j k l]; unfold coef_spatial; fold (halfidx i); fold (halfidx j).
    - ring.
    - fold (halfidx k); fold (halfidx l). rewrite (phys_to_chem_spec PHYS_TO_CHEM g (eq_refl _)). ring.
  Qed.

  (* for the terms spinorb_from_spatial populates, the spatial coefficient IS the operator's coefficient *)
  Lemma coef_spatial_spin_ok (h : T2t R) (g : T4t R) t :
    spin_ok t = true -> coef_spatial R h g t = coef_r R h g t.
  Proof.
    destruct t as [i j|i j k l]; unfold spin_ok, coef_spatial, coef_r, so1, io2_r, so2; cbv beta; intro H; rewrite H; reflexivity.
  Qed.

  Theorem energy_contraction (ax : axes) n core (h : T2t R) (g : T4t R) ts :
    ax = PHYS_TO_CHEM -> Forall (phi_lt halfidx n) ts -> Forall (fun t => spin_ok t = true) ts ->
    energy_r R ax FHalf n core h g (rdm1_sum_f R ev ts) (rdm2_sum_f R ev ts)
    = core + sumL ts (fun t => coef_r R h g t * ev t).
  Proof.
    intros Hax Hts Hsp. rewrite (energy_contraction_spatial ax n core h g ts Hax Hts). f_equal.
    apply sumL_ext. intros t Hin. rewrite Forall_forall in Hsp. rewrite coef_spatial_spin_ok; auto.
  Qed.

  (* terms that are not measured because their coefficient vanishes do not change the expectation *)
  Lemma unmeasured_zero_terms (h : T2t R) (g : T4t R) ts ts0 :
    (forall t, In t ts0 -> coef_r R h g t = 0) ->
    sumL (ts ++ ts0) (fun t => coef_r R h g t * ev t) = sumL ts (fun t => coef_r R h g t * ev t).
  Proof.
    intro Hz. rewrite sumL_app.
    rewrite (sumL_ext R ts0 _ (fun _ => 0)); [rewrite sumL_zero; ring|].
    intros t Hin. rewrite Hz; auto. ring.
  Qed.

  (* spin-resolved RDMs (sum_spin=False) against the spin-orbital coefficient tensors one[P,Q], two[P,Q,R,S]
     (= InteractionOperator's): sum one*D1 + sum two[P,R,S,Q]-transposed * D2 *)
  Theorem energy_contraction_spin_resolved (ax : axes) nso core (one : T2t R) (twob : T4t R) ts :
    ax = PHYS_TO_CHEM -> Forall (phi_lt (fun i => i) nso) ts ->
    energy_r R ax FOne nso core one twob (rdm1_spin R ev ts) (rdm2_spin R ev ts)
    = core + sumL ts (fun t => match t with T1 i j => one i j | T2 i j k l => twob i j k l end * ev t).
  Proof.
    intros -> Hts. unfold energy_r, rdm1_spin, rdm2_spin.
    rewrite contract2_place, contract4_place by auto. simpl fac_val.
    transitivity (core + (sumL ts (fun t => match t with T1 i j => one i j * ev t | T2 _ _ _ _ => 0 end)
                          + sumL ts (fun t => match t with T1 _ _ => 0
                                                | T2 i j k l => transpose4 PHYS_TO_CHEM twob i l j k * ev t end))).
    { ring. }
    rewrite <- sumL_add. f_equal. apply sumL_ext. intros t _.
    destruct t as [i j|i j k l].
    - ring.
    - rewrite (phys_to_chem_spec PHYS_TO_CHEM twob (eq_refl _)). ring.
  Qed.

  (* ---- 4. the spin-summation loops of get_rdm equal the closed forms *)
  Definition ssum1 (nso : nat) (D : T2t R) : T2t R :=
    fun p q => sumn nso (fun i => sumn nso (fun j => gate ((i / 2 =? p) && (j / 2 =? q))%nat (D i j))).
  Definition ssum2 (nso : nat) (D : T4t R) : T4t R :=
    fun p q r s => sumn nso (fun i => sumn nso (fun j => sumn nso (fun k => sumn nso (fun l =>
       gate ((i / 2 =? p) && (j / 2 =? q) && (k / 2 =? r) && (l / 2 =? s))%nat (D i j k l))))).

  Lemma ssum1_ext nso (D E : T2t R) p q : (forall i j, D i j = E i j) -> ssum1 nso D p q = ssum1 nso E p q.
  Proof. intro H. unfold ssum1. apply sumn_ext; intro i. apply sumn_ext; intro j. rewrite H. reflexivity. Qed.
  Lemma ssum1_add nso (D E : T2t R) p q :
    ssum1 nso (fun i j => D i j + E i j) p q = ssum1 nso D p q + ssum1 nso E p q.
  Proof.
    unfold ssum1. rewrite <- sumn_add. apply sumn_ext; intro i. rewrite <- sumn_add. apply sumn_ext; intro j.
    destruct ((i / 2 =? p) && (j / 2 =? q))%nat; simpl; ring.
  Qed.
  Lemma ssum1_zero nso p q : ssum1 nso (fun _ _ => 0) p q = 0.
  Proof.
    unfold ssum1.
    transitivity (sumn nso (fun _ => (0 : K))); [|apply sumn_zero]. apply sumn_ext; intro i.
    transitivity (sumn nso (fun _ => (0 : K))); [|apply sumn_zero]. apply sumn_ext; intro j.
    destruct ((i / 2 =? p) && (j / 2 =? q))%nat; reflexivity.
  Qed.
  Lemma ssum1_single nso a b (v : K) p q :
    a < nso -> b < nso ->
    ssum1 nso (fun i j => gate ((a =? i) && (b =? j)) v) p q = gate ((a / 2 =? p) && (b / 2 =? q))%nat v.
  Proof.
    intros Ha Hb. unfold ssum1.
    rewrite <- (collapse2 nso nso a b (fun i j => gate ((i / 2 =? p) && (j / 2 =? q))%nat v)) by auto.
    apply sumn_ext; intro i. apply sumn_ext; intro j.
    destruct ((i / 2 =? p) && (j / 2 =? q))%nat; destruct ((a =? i) && (b =? j)); reflexivity.
  Qed.

  Lemma ssum2_ext nso (D E : T4t R) p q r s :
    (forall i j k l, D i j k l = E i j k l) -> ssum2 nso D p q r s = ssum2 nso E p q r s.
  Proof.
    intro H. unfold ssum2. apply sumn_ext; intro i. apply sumn_ext; intro j. apply sumn_ext; intro k.
    apply sumn_ext; intro l. rewrite H. reflexivity.
  Qed.
  Lemma ssum2_add nso (D E : T4t R) p q r s :
    ssum2 nso (fun i j k l => D i j k l + E i j k l) p q r s = ssum2 nso D p q r s + ssum2 nso E p q r s.
  Proof.
    unfold ssum2. rewrite <- sumn_add. apply sumn_ext; intro i. rewrite <- sumn_add. apply sumn_ext; intro j.
    rewrite <- sumn_add. apply sumn_ext; intro k. rewrite <- sumn_add. apply sumn_ext; intro l.
    destruct ((i / 2 =? p) && (j / 2 =? q) && (k / 2 =? r) && (l / 2 =? s))%nat; simpl; ring.
  Qed.
  Lemma ssum2_zero nso p q r s : ssum2 nso (fun _ _ _ _ => 0) p q r s = 0.
  Proof.
    unfold ssum2.
    transitivity (sumn nso (fun _ => (0 : K))); [|apply sumn_zero]. apply sumn_ext; intro i.
    transitivity (sumn nso (fun _ => (0 : K))); [|apply sumn_zero]. apply sumn_ext; intro j.
    transitivity (sumn nso (fun _ => (0 : K))); [|apply sumn_zero]. apply sumn_ext; intro k.
    transitivity (sumn nso (fun _ => (0 : K))); [|apply sumn_zero]. apply sumn_ext; intro l.
    destruct ((i / 2 =? p) && (j / 2 =? q) && (k / 2 =? r) && (l / 2 =? s))%nat; reflexivity.
  Qed.
  Lemma ssum2_single nso a b c d (v : K) p q r s :
    a < nso -> b < nso -> c < nso -> d < nso ->
    ssum2 nso (fun i j k l => gate ((a =? i) && (b =? j) && (c =? k) && (d =? l)) v) p q r s
    = gate ((a / 2 =? p) && (b / 2 =? q) && (c / 2 =? r) && (d / 2 =? s))%nat v.
  Proof.
    intros Ha Hb Hc Hd. unfold ssum2.
    rewrite <- (collapse4 nso nso nso nso a b c d
                  (fun i j k l => gate ((i / 2 =? p) && (j / 2 =? q) && (k / 2 =? r) && (l / 2 =? s))%nat v)) by auto.
    apply sumn_ext; intro i. apply sumn_ext; intro j. apply sumn_ext; intro k. apply sumn_ext; intro l.
    destruct ((i / 2 =? p) && (j / 2 =? q) && (k / 2 =? r) && (l / 2 =? s))%nat;
      destruct ((a =? i) && (b =? j) && (c =? k) && (d =? l)); reflexivity.
  Qed.

  Theorem rdm1_sum_closed nso ts p q :
    Forall (phi_lt (fun i => i) nso) ts -> rdm1_sum R ev nso ts p q = rdm1_sum_f R ev ts p q.
  Proof.
    intro H. change (rdm1_sum R ev nso ts p q) with (ssum1 nso (rdm1_spin R ev ts) p q).
    induction H as [|t ts Ht Hts IH].
    - unfold rdm1_spin, place1. simpl. apply ssum1_zero.
    - transitivity (match t with
                    | T1 i j => gate ((halfidx i =? p) && (halfidx j =? q)) (ev t)
                    | T2 _ _ _ _ => 0 end + rdm1_sum_f R ev ts p q); [|reflexivity].
      rewrite <- IH.
      rewrite (ssum1_ext nso _ (fun i j => match t with
                                            | T1 i0 j0 => gate ((i0 =? i) && (j0 =? j)) (ev t)
                                            | T2 _ _ _ _ => 0 end + rdm1_spin R ev ts i j)) by (intros; reflexivity).
      rewrite ssum1_add. f_equal.
      destruct t as [i0 j0|i0 j0 k0 l0].
      + simpl in Ht. destruct Ht. apply ssum1_single; auto.
      + apply ssum1_zero.
  Qed.
  Theorem rdm2_sum_closed nso ts p q r s :
    Forall (phi_lt (fun i => i) nso) ts -> rdm2_sum R ev nso ts p q r s = rdm2_sum_f R ev ts p q r s.
  Proof.
    intro H. change (rdm2_sum R ev nso ts p q r s) with (ssum2 nso (rdm2_spin R ev ts) p q r s).
    induction H as [|t ts Ht Hts IH].
    - unfold rdm2_spin, place2. simpl. apply ssum2_zero.
    - transitivity (match t with
                    | T1 _ _ => 0
                    | T2 i j k l => gate ((halfidx i =? p) && (halfidx l =? q) && (halfidx j =? r) && (halfidx k =? s)) (ev t)
                    end + rdm2_sum_f R ev ts p q r s); [|reflexivity].
      rewrite <- IH.
      rewrite (ssum2_ext nso _ (fun i j k l => match t with
                                                | T1 _ _ => 0
                                                | T2 i0 j0 k0 l0 => gate ((i0 =? i) && (l0 =? j) && (j0 =? k) && (k0 =? l)) (ev t)
                                                end + rdm2_spin R ev ts i j k l)) by (intros; reflexivity).
      rewrite ssum2_add. f_equal.
      destruct t as [i0 j0|i0 j0 k0 l0].
      + apply ssum2_zero.
      + simpl in Ht. destruct Ht as [Hi [Hj [Hk Hl]]]. apply ssum2_single; auto.
  Qed.

  (* ---- 5. Hermiticity: if expectation values of conjugate terms are conjugate and the measured term list
          is closed under conjugation, D1[q,p] = conj D1[p,q] and D2[q,p,s,r] = conj D2[p,q,r,s]
          (for the spin-resolved and the spin-summed matrices alike: phi arbitrary) *)
  Variable conj : K -> K.
  Hypothesis conj_add : forall a b, conj (a + b) = conj a + conj b.
  Hypothesis conj_0 : conj 0 = 0.

  Lemma conj_sumL {X} (l : list X) (f : X -> K) : conj (sumL l f) = sumL l (fun x => conj (f x)).
  Proof. induction l as [|a l IH]; simpl; auto. rewrite conj_add, IH. reflexivity. Qed.
  Lemma conj_gate b x : conj (gate b x) = gate b (conj x).
  Proof. destruct b; simpl; auto. Qed.

  Theorem rdm_hermitian phi ts :
    (forall t, ev (dag t) = conj (ev t)) -> Permutation (map dag ts) ts ->
    (forall p q, place1 R ev phi ts q p = conj (place1 R ev phi ts p q))
    /\ (forall p q r s, place2 R ev phi ts q p s r = conj (place2 R ev phi ts p q r s)).
  Proof.
    intros Hev Hperm. split.
    - intros p q. unfold place1. rewrite conj_sumL.
      rewrite <- (sumL_perm R _ _ _ Hperm), sumL_map. apply sumL_ext. intros t _.
      destruct t as [i j|i j k l]; simpl.
      + rewrite conj_gate, <- Hev. simpl. rewrite andb_comm. reflexivity.
      + symmetry; apply conj_0.
    - intros p q r s. unfold place2. rewrite conj_sumL.
      rewrite <- (sumL_perm R _ _ _ Hperm), sumL_map. apply sumL_ext. intros t _.
      destruct t as [i j|i j k l]; simpl.
      + symmetry; apply conj_0.
      + rewrite conj_gate, <- Hev. simpl. f_equal.
        destruct (phi l =? q), (phi i =? p), (phi k =? s), (phi j =? r); reflexivity.
  Qed.

  (* ---- 6. trace of the 1-RDM = sum of the expectation values of the number operators, provided every
          number operator a+_P a_P is among the measured terms (its coefficient h_PP is not zero) *)
  Lemma sumL_filter {X} (f : X -> bool) (l : list X) (g : X -> K) :
    sumL l (fun x => gate (f x) (g x)) = sumL (filter f l) g.
  Proof.
    induction l as [|a l IH]; simpl; auto. rewrite IH. destruct (f a); simpl; ring.
  Qed.

  Lemma trace_spin_terms nso ts :
    Forall (phi_lt (fun i => i) nso) ts ->
    sumn nso (fun P => rdm1_spin R ev ts P P) = sumL (filter is_num ts) ev.
  Proof.
    intro H. rewrite <- sumL_filter. unfold rdm1_spin, place1, sumn. rewrite sumL_swap.
    apply sumL_ext. intros t Hin. rewrite Forall_forall in H. specialize (H t Hin).
    destruct t as [i j|i j k l]; simpl.
    - simpl in H. destruct H as [Hi Hj].
      transitivity (sumL (seq 0 nso) (fun P => gate (i =? P) (gate (j =? i) (ev (T1 i j))))).
      { apply sumL_ext. intros P _. destruct (Nat.eqb_spec i P) as [->|Hne]; simpl; auto. }
      fold (sumn nso (fun P => gate (i =? P) (gate (j =? i) (ev (T1 i j))))).
      rewrite sumn_pick by auto. rewrite Nat.eqb_sym. reflexivity.
    - apply sumL_zero.
  Qed.

  Theorem rdm1_trace nso ts :
    NoDup ts -> Forall (phi_lt (fun i => i) nso) ts -> (forall P, P < nso -> In (T1 P P) ts) ->
    sumn nso (fun P => rdm1_spin R ev ts P P) = sumn nso (fun P => ev (T1 P P)).
  Proof.
    intros Hnd Hlt Hall. rewrite trace_spin_terms by auto.
    unfold sumn. rewrite <- (sumL_map R (fun P => T1 P P) (seq 0 nso) ev).
    apply sumL_perm. apply NoDup_Permutation.
    - apply NoDup_filter; auto.
    - apply NoDup_map_inj_on; [apply seq_NoDup|]. intros x y _ _ E. inversion E; auto.
    - intro t. rewrite filter_In, in_map_iff. split.
      + intros [Hin Hn]. destruct t as [i j|i j k l]; simpl in Hn; [|discriminate].
        apply Nat.eqb_eq in Hn. subst j. exists i. split; auto. apply in_seq.
        rewrite Forall_forall in Hlt. specialize (Hlt _ Hin). simpl in Hlt. lia.
      + intros [P [E Hin]]. subst t. apply in_seq in Hin. split; [apply Hall; lia|]. simpl. apply Nat.eqb_refl.
  Qed.

  (* spin-summed: for spin-conserving terms the diagonal of the spin-summed matrix collects exactly the
     number operators *)
  Lemma half_eq_spin i j : (i / 2 = j / 2 -> i mod 2 = j mod 2 -> i = j)%nat.
  Proof.
    intros H1 H2. rewrite (Nat.div_mod i 2), (Nat.div_mod j 2) by lia. rewrite H1, H2. reflexivity.
  Qed.
  Theorem rdm1_trace_spin_summed n ts :
    Forall (phi_lt (fun i => i) (2 * n)) ts -> Forall (fun t => spin_ok t = true) ts ->
    sumn n (fun p => rdm1_sum_f R ev ts p p) = sumL (filter is_num ts) ev.
  Proof.
    intros Hlt Hsp. rewrite <- sumL_filter. unfold rdm1_sum_f, place1, sumn. rewrite sumL_swap.
    apply sumL_ext. intros t Hin. rewrite Forall_forall in Hlt, Hsp. specialize (Hlt t Hin). specialize (Hsp t Hin).
    destruct t as [i j|i j k l]; simpl.
    - simpl in Hlt, Hsp. destruct Hlt as [Hi Hj]. apply Nat.eqb_eq in Hsp.
      transitivity (sumL (seq 0 n) (fun p => gate (halfidx i =? p) (gate (halfidx j =? halfidx i) (ev (T1 i j))))).
      { apply sumL_ext. intros p _. destruct (Nat.eqb_spec (halfidx i) p) as [<-|Hne]; simpl; auto. }
      fold (sumn n (fun p => gate (halfidx i =? p) (gate (halfidx j =? halfidx i) (ev (T1 i j))))).
      assert (Hh : halfidx i < n). { unfold halfidx. apply Nat.div_lt_upper_bound; lia. }
      rewrite sumn_pick by auto.
      destruct (Nat.eqb_spec (halfidx j) (halfidx i)) as [E|E]; destruct (Nat.eqb_spec i j) as [E'|E']; simpl; auto.
      + exfalso. apply E'. apply half_eq_spin; auto.
      + exfalso. apply E. subst; auto.
    - apply sumL_zero.
  Qed.

  (* ---- 7. padding with frozen orbitals *)
  Lemma pos_nth (A : list nat) p : NoDup A -> p < length A -> pos A (nth p A 0%nat) = Some p.
  Proof.
    revert p. induction A as [|a A IH]; intros p Hnd Hp; simpl in Hp; [lia|].
    inversion Hnd as [|x l Hnin Hnd']; subst. destruct p as [|p]; simpl.
    - rewrite Nat.eqb_refl. reflexivity.
    - destruct (Nat.eqb_spec a (nth p A 0%nat)) as [E|E].
      + exfalso. apply Hnin. rewrite E. apply nth_In. lia.
      + rewrite IH by (auto; lia). reflexivity.
  Qed.
  Lemma pos_none (A : list nat) P : ~ In P A -> pos A P = None.
  Proof.
    induction A as [|a A IH]; simpl; intro H; auto.
    destruct (Nat.eqb_spec a P) as [E|E]; [exfalso; apply H; auto|].
    rewrite IH by tauto. reflexivity.
  Qed.
  Lemma sumL_nth (A : list nat) (f : nat -> K) :
    sumL A f = sumn (length A) (fun p => f (nth p A 0%nat)).
  Proof.
    induction A as [|a A IH]; [reflexivity|].
    unfold sumn. simpl length. rewrite <- cons_seq, <- seq_shift. simpl sumL. rewrite sumL_map. simpl.
    f_equal. exact IH.
  Qed.

  Definition frozen_occ_of (n nocc : nat) (A : list nat) : list nat :=
    filter (fun P => (P <? nocc) && negb (nmem P A)) (seq 0 n).

  (* the padded 1-RDM carries the active trace plus 2 for every occupied orbital outside the active list *)
  Theorem pad_restricted_trace alias ax_in ax_out n nocc nocc0 (A : list nat) (d1 : T2t R) (d2 : T4t R) :
    NoDup A -> (forall P, In P A -> P < n) ->
    sumn n (fun P => fst (fst (pad_restricted R alias ax_in ax_out nocc nocc0 A d1 d2)) P P)
    = sumn (length A) (fun p => d1 p p) + sumL (frozen_occ_of n nocc A) (fun _ => two).
  Proof.
    intros Hnd Hlt. unfold pad_restricted. cbv zeta. simpl fst.
    assert (Hperm : Permutation (seq 0 n) (A ++ filter (fun P => negb (nmem P A)) (seq 0 n))).
    { apply NoDup_Permutation.
      - apply seq_NoDup.
      - apply NoDup_app_intro; auto.
        + apply NoDup_filter. apply seq_NoDup.
        + intros x Hx Hy. apply filter_In in Hy. destruct Hy as [_ Hy]. apply negb_true_iff in Hy.
          assert (nmem x A = true) by (apply nmem_spec; auto). congruence.
      - intro x. rewrite in_app_iff, filter_In, in_seq, negb_true_iff. split.
        + intro Hx. destruct (nmem x A) eqn:E; [left; apply nmem_spec; auto | right; split; auto; lia].
        + intros [Hx | [Hx _]]; [specialize (Hlt x Hx); lia | lia]. }
    unfold sumn at 1. rewrite (sumL_perm R _ _ _ Hperm), sumL_app. f_equal.
    - rewrite sumL_nth. apply sumL_ext. intros p Hp. apply in_seq in Hp.
      unfold embed2. rewrite pos_nth by (auto; lia). reflexivity.
    - unfold frozen_occ_of. rewrite <- !sumL_filter. apply sumL_ext. intros P HP.
      unfold embed2, diag_occ.
      destruct (nmem P A) eqn:E; simpl.
      + rewrite andb_false_r. reflexivity.
      + assert (~ In P A) by (intro Hin; apply nmem_spec in Hin; congruence).
        rewrite pos_none by auto. rewrite Nat.eqb_refl, andb_true_r. simpl. reflexivity.
  Qed.

  (* the outputs do not depend on whether the work is done on a view or on a copy; working on a copy leaves
     the caller's array as it was *)
  Theorem pad_restricted_repair_same_outputs ax_in ax_out nocc nocc0 A (d1 : T2t R) (d2 : T4t R) :
    fst (pad_restricted R true ax_in ax_out nocc nocc0 A d1 d2) = fst (pad_restricted R false ax_in ax_out nocc nocc0 A d1 d2)
    /\ snd (pad_restricted R false ax_in ax_out nocc nocc0 A d1 d2) = d2.
  Proof. split; reflexivity. Qed.
End RdmP.
