(* TimeEvo.v — model of the time-evolution part of tangelo/toolboxes/ansatz_generator/ansatz_utils.py
   and of tangelo/toolboxes/unitary_generator/trotter_suzuki.py                 (definitions only)

     recursive_trotter_suzuki_decomposition   -> suzuki
     get_exponentiated_qubit_operator_circuit -> exp_qubit_op   (term order = the order of the input list,
                                                 identity term -> returned phase / PHASE on the control / CPHASE on the last control,
                                                 threshold, time scalar or per-term dictionary)
     trotterize (QubitOperator branch)        -> trotterize     (time / n, circuit * n, phase ** n)
     trotterize (FermionOperator branch)      -> trotterize_mapped (the mapped qubit operator is an input:
                                                 fermion_to_qubit_mapping is the subject of C03)
     TrotterSuzukiUnitary.build_circuit       -> build_circuit  ("time" / "repeat")

   A qubit operator is the list of its (word, real coefficient) terms in dictionary order; a time
   dictionary is given positionally (the code demands equal key sets; a length mismatch models the
   ValueError).  Complex coefficients are outside the model (np.real drops the imaginary part).
   The returned global phase exp(-i * sum of identity coefficients) is represented by that sum (a
   number p, meaning the phase e^{-i p}); phase ** n is n * p.
   Number operations: record cops of PauliExp.v.  n_trotter_steps = 0 (ZeroDivisionError) and
   trotter_order = 0 (unbounded recursion) are outside the model: they return Err ValueError. *)
From Coq Require Import String ZArith NArith List Bool Arith.
From Tangelo Require Import Num.KStruct QSem.State Pauli.Word Linq.GateModel Linq.Interp Chem.PauliExp.
Import ListNotations.
Open Scope string_scope.
Open Scope list_scope.

Inductive time_arg (Ang : Type) : Type :=
| TScalar (t : Ang)
| TDict (ts : list Ang).
Arguments TScalar {_}. Arguments TDict {_}.

Inductive step_method : Type := ByTime | ByRepeat.

Definition repeat_list {X} (n : nat) (l : list X) : list X := concat (repeat l n).

Section TimeEvo.
  Variable Ang : Type.
  Variable Ops : cops Ang.
  Variable T : ptables.
  Notation pgate := (pgate Ang).

  Definition term : Type := (list (N * pauli) * Ang)%type.

  (* [(pauli, np.real(coeff)*time) for pauli, coeff in pauli_words] *)
  Definition scale1 (t : Ang) (terms : list term) : list term :=
    map (fun wc => (fst wc, o_mul Ops (snd wc) t)) terms.

  (* order 2 (k = 0) and the recursion for order 2(k+1), k >= 1 *)
  Fixpoint suzuki_even (k : nat) (terms : list term) (t : Ang) : list term :=
    match k with
    | 0%nat => scale1 (o_half Ops t) terms ++ scale1 (o_half Ops t) (rev terms)
    | S k' =>
      let ord := (2 * (k + 1))%nat in
      let outside := suzuki_even k' terms (o_mul Ops (o_u Ops ord) t) in
      let outside2 := outside ++ outside in
      let inside := suzuki_even k' terms (o_mul Ops (o_v Ops ord) t) in
      outside2 ++ inside ++ outside2
    end.

  Definition suzuki (order : nat) (terms : list term) (t : Ang) : res (list term) :=
    if (order =? 1)%nat then Ok (scale1 t terms)
    else if (order =? 0)%nat then Err ValueError
    else if Nat.even order then Ok (suzuki_even (order / 2 - 1) terms t)
    else Err ValueError.

  Fixpoint zip_times (terms : list term) (ts : list Ang) : list term :=
    match terms, ts with
    | (w, c) :: r, t :: rt => (w, o_mul Ops c t) :: zip_times r rt
    | _, _ => []
    end.

  Definition timed (terms : list term) (time : time_arg Ang) (order : nat) : res (list term) :=
    match time with
    | TScalar t => suzuki order terms t
    | TDict ts => if (length ts =? length terms)%nat then suzuki order (zip_times terms ts) (o_one Ops)
                  else Err ValueError
    end.

  (* the gates of an identity term under control *)
  Definition id_gates (l : list (string * Z)) (target : N) (control : option (list N)) (c : Ang) (v : bool)
    : res (list pgate) :=
    mapM (fun nm => mk Ang (fst nm) target control (PNum (zmul Ang Ops (snd nm) c)) v) l.

  Definition term_gates (w : list (N * pauli)) (c : Ang) (v : bool) (control : option (list N))
    : res (list pgate * Ang) :=
    match w with
    | _ :: _ =>
      if o_small Ops c then Ok ([], o_zero Ops)
      else do g <- exp_pauliword_to_gates Ang Ops T w c v control; Ok (g, o_zero Ops)
    | [] =>
      match control with
      | None => Ok ([], c)
      | Some [q] => do g <- id_gates (id_single T) q None c v; Ok (g, o_zero Ops)
      | Some cs =>
        match id_target T with
        | Some t => do g <- id_gates (id_multi T) t (Some cs) c v; Ok (g, o_zero Ops)      (* as-is before the fix *)
        | None =>
          match cs with
          | [] => Err IndexError                                                          (* control[-1] *)
          | _ => do g <- id_gates (id_multi T) (last cs 0%N) (Some (removelast cs)) c v; Ok (g, o_zero Ops)
          end
        end
      end
    end.

  Fixpoint exp_terms (L : list term) (v : bool) (control : option (list N)) : res (list pgate * Ang) :=
    match L with
    | [] => Ok ([], o_zero Ops)
    | (w, c) :: r =>
      do here <- term_gates w c v control;
      do rest <- exp_terms r v control;
      Ok (fst here ++ fst rest, o_add Ops (snd here) (snd rest))
    end.

  Definition exp_qubit_op (terms : list term) (time : time_arg Ang) (v : bool) (order : nat)
             (control : option (list N)) : res (list pgate * Ang) :=
    do L <- timed terms time order; exp_terms L v control.

  Definition time_div (n : nat) (time : time_arg Ang) : time_arg Ang :=
    match time with
    | TScalar t => TScalar (o_divn Ops n t)
    | TDict ts => TDict (map (o_divn Ops n) ts)
    end.

  Definition trotterize (terms : list term) (time : time_arg Ang) (n : nat) (order : nat) (v : bool)
             (control : option (list N)) : res (list pgate * Ang) :=
    if (n =? 0)%nat then Err ValueError else
    do r <- exp_qubit_op terms (time_div n time) v order control;
    Ok (repeat_list n (fst r), nmul Ang Ops n (snd r)).

  (* FermionOperator branch: qterms = the terms of fermion_to_qubit_mapping(sum_k c_k t_k / n  f_k) *)
  Definition trotterize_mapped (qterms : list term) (n : nat) (order : nat) (v : bool)
             (control : option (list N)) : res (list pgate * Ang) :=
    if (n =? 0)%nat then Err ValueError else
    do r <- exp_qubit_op qterms (TScalar (o_one Ops)) v order control;
    Ok (repeat_list n (fst r), nmul Ang Ops n (snd r)).

  (* TrotterSuzukiUnitary(H, time, trotter_order, n_trotter_steps).build_circuit(n_steps, control, method) *)
  Definition build_circuit (terms : list term) (time : Ang) (order n_trotter : nat) (n_steps : nat)
             (control : option (list N)) (m : step_method) : res (list pgate) :=
    match m with
    | ByTime =>
      do r <- trotterize terms (TScalar (o_mul Ops time (o_nat Ops n_steps))) n_trotter order false control;
      Ok (fst r)
    | ByRepeat =>
      if (n_steps =? 0)%nat then Err ValueError else
      do r <- trotterize terms (TScalar time) n_trotter order false control;
      Ok (repeat_list n_steps (fst r))
    end.

  (* weighted sum of the coefficients of a term list (used to state the Suzuki coefficient theorem) *)
  Definition wsum (g : list (N * pauli) -> Ang) (L : list term) : Ang :=
    fold_right (fun wc acc => o_add Ops (o_mul Ops (g (fst wc)) (snd wc)) acc) (o_zero Ops) L.
End TimeEvo.
