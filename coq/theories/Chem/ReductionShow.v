(* ReductionShow.v — printers and executable instances of the C14 models, used only by the
   correspondence harness (harness/props/C14.py parses these strings). *)
From Coq Require Import String Ascii ZArith NArith QArith Qcanon List Bool Arith.
From Tangelo Require Import Num.KStruct Num.Cyc Num.Show Pauli.Word Linq.GateModel Linq.CircuitModel Linq.LinqZ
     Chem.Frobenius Chem.Trim Chem.Taper.
Import ListNotations.
Open Scope string_scope.

Definition show_bits (v : list bool) : string :=
  List.fold_right (fun (b : bool) s => (if b then "1" else "0") ++ s) "" v.
Definition show_bmat (M : list (list bool)) : string := join "|" (map show_bits M).
Definition show_res {X} (f : X -> string) (r : res X) : string :=
  match r with Ok x => f x | Err e => "Err:" ++ show_err e end.

Definition bits_of (s : string) : list bool :=
  map (fun c => Ascii.eqb c "1"%char) (list_ascii_of_string s).

(* ---- GF(2) ---- *)
Definition run_echelon (nrows : nat) (cols : list string) : string :=
  show_res show_bmat (echelon nrows (map bits_of cols)).
Definition run_kernel (n : nat) (rows : list string) : string :=
  show_res show_bmat (get_kernel n (map bits_of rows)).

(* ---- dense rows ---- *)
Definition p4_of_char (c : Ascii.ascii) : p4 :=
  if Ascii.eqb c "1"%char then P4Z else if Ascii.eqb c "2"%char then P4X
  else if Ascii.eqb c "3"%char then P4Y else P4I.
Definition row_of (s : string) : row := map p4_of_char (list_ascii_of_string s).
Definition show_row (r : row) : string :=
  List.fold_right (fun p s => show_nat (p4_code p) ++ s) "" r.

Definition run_cliffords (n : nat) (kernel : list string) : string :=
  join ";" (map (fun c => show_nat (fst (fst c)) ++ "," ++ show_row (snd (fst c)) ++ "," ++ show_row (snd c))
                (get_cliffords n (map row_of kernel))).

(* ---- tapering pipeline over the exact cyclotomic numbers ---- *)
Definition cy_zero (c : Cy) : bool := ceqb L4 c (c0 L4).
Definition cy_of_frac (num : Z) (den : positive) : Cy := cy_of_Qc (Q2Qc (num # den)).
Definition cy_complex (re im : Z) (den : positive) : Cy :=
  @kadd CycS (cy_of_frac re den) (@kmul CycS (@ki CycS) (cy_of_frac im den)).
Definition show_mfop (a : mfop CycS) : string :=
  join ";" (map (fun t => show_row (fst t) ++ ":" ++ show_Cy (snd t)) a).

Definition mk_mfop (den : positive) (l : list (string * (Z * Z))) : mfop CycS :=
  map (fun t => (row_of (fst t), cy_complex (fst (snd t)) (snd (snd t)) den)) l.

Definition run_pipeline (ctab : list (list Z)) (cull : bool) (n : nat) (den : positive)
           (a : list (string * (Z * Z))) (psi : string) : string :=
  match taper_pipeline CycS cy_zero ctab cull n (mk_mfop den a) (bits_of psi) with
  | Err e => "Err:" ++ show_err e
  | Ok (kernel, qidx, signs, u, t) =>
    "K=" ++ join "|" (map show_row kernel) ++ " Q=" ++ join "," (map show_nat qidx)
    ++ " E=" ++ show_bits signs ++ " U=" ++ show_mfop u ++ " T=" ++ show_mfop t
  end.

(* z2_tapering(op) for another operator, with the symmetry data of the pipeline of [a] *)
Definition run_taper_other (ctab : list (list Z)) (cull : bool) (n : nat) (den : positive)
           (a : list (string * (Z * Z))) (psi : string) (b : list (string * (Z * Z))) : string :=
  match taper_pipeline CycS cy_zero ctab cull n (mk_mfop den a) (bits_of psi) with
  | Err e => "Err:" ++ show_err e
  | Ok (kernel, qidx, signs, u, _) =>
    "T=" ++ show_mfop (do_taper CycS cy_zero ctab cull u kernel qidx signs (mk_mfop den b))
  end.

(* ---- trimming ---- *)
Definition zodd_pi (m off : Z) (k : Z) : bool := Z.eqb (k mod m)%Z off.

Definition show_states (l : list (Z * bool)) : string :=
  join "," (map (fun qb : Z * bool => show_Z (fst qb) ++ ":" ++ (if snd qb then "1" else "0")) l).
Definition run_trim_circuit (TT : trim_tables) (m off : Z) (T : tables) (gs : list zgate) (nq : option Z) : string :=
  match build Z T gs nq with
  | Err e => "BuildErr:" ++ show_err e
  | Ok c => match trim_trivial_circuit Z (zodd_pi m off) TT T c with
            | Err e => "Err:" ++ show_err e
            | Ok (cn, ts) => show_gates (cgates Z cn) ++ " # " ++ show_states ts
            end
  end.

Definition pauli_letter (p : pauli) : string := match p with PX => "X" | PY => "Y" | PZ => "Z" end.
Definition show_word (w : word) : string :=
  join "." (map (fun qp => pauli_letter (snd qp) ++ show_N (fst qp)) w).
Definition zz_neg (c : Z * Z) : Z * Z := (Z.opp (fst c), Z.opp (snd c)).
Definition show_zz (c : Z * Z) : string := show_Z (fst c) ++ "," ++ show_Z (snd c).
Definition run_trim_operator (reindex : bool) (ks : list (nat * bool)) (n : nat) (a : list (word * (Z * Z))) : string :=
  show_res (fun l => join ";" (map (fun t => show_word (fst t) ++ ":" ++ show_zz (snd t)) l))
           (trim_operator (Z * Z) zz_neg reindex ks n a).

(* ---- compression: terms are numbered; prints the indices kept and discarded ---- *)
Definition run_compress (x2 : nat -> nat) (keep : Q -> Q -> Q -> bool) (e : Q) (n : nat)
           (l : list (nat * cq)) : string :=
  let '(k, d) := compress_split x2 keep e n l in
  join "," (map (fun t => show_nat (fst t)) k) ++ " # " ++ join "," (map (fun t => show_nat (fst t)) d).
