(* Qpe.v — models behind phase estimation (definitions only):
     add_ctrl / add_controls      CircuitUnitary.add_controls, method "all" (unitary_circuit.py): every gate gets
                                  the extra control(s); a name starting with "C" keeps its name and appends to its
                                  control list, any other name is prefixed with "C"
     s_add_ctrl                   the same on semantic gates
     cpowers                      the controlled powers of QPESolver.build: the i-th listed register qubit
                                  controls the i-th operation (U^(2^i))
     qpe_run                      QFT, controlled powers, inverse QFT (register layout of qpe.py:128-195)
     masked / indep               |x restricted to the register> (x) u  as a function on basis indices      *)
From Coq Require Import String ZArith NArith List Bool.
From Tangelo Require Import Num.KStruct QSem.State Linq.GateModel Linq.Interp Chem.Qft.
Import ListNotations.
Open Scope string_scope.

(* ---- Python level ---- *)
Section AddControls.
  Variable Ang : Type.
  Definition add_ctrl (cl : list Z) (g : pgate Ang) : res (pgate Ang) :=
    if starts_with_C (pname g) then
      match pcontrol g with
      | Some c => Ok (PGate (pname g) (ptarget g) (Some (c ++ cl)%list) (pparam g) (pvar g))
      | None => Err TypeError                     (* None += list *)
      end
    else Ok (PGate ("C" ++ pname g) (ptarget g) (Some cl) (pparam g) (pvar g)).
  Definition add_controls (cl : list Z) (gs : list (pgate Ang)) : res (list (pgate Ang)) := mapM (add_ctrl cl) gs.
End AddControls.
Arguments add_ctrl {_}. Arguments add_controls {_}.

Close Scope string_scope.
Open Scope list_scope.

(* ---- semantic level ---- *)
Section QpeSem.
  Variable S : KS.

  Definition s_add_ctrl (cl : list N) (g : gate S) : gate S := Gate (gbase g) (gctrl g ++ cl).

  Definition masked (qs : list N) (x : N) (u : state S) : state S :=
    fun z => if agree qs z x then u z else k0.
  (* u does not depend on the qubits in qs: it is the state of the OTHER register *)
  Definition indep (qs : list N) (u : state S) : Prop := forall z q, In q qs -> u (flip z q) = u z.
  (* g depends only on the qubits in qs *)
  Definition only_on (qs : list N) (g : N -> K S) : Prop :=
    forall y z, (forall q, In q qs -> bit y q = bit z q) -> g y = g z.

  Fixpoint cpowers (qs : list N) (Us : list (state S -> state S)) (psi : state S) : state S :=
    match qs, Us with
    | q :: r, U :: Ur => cpowers r Ur (ctrl S [q] U psi)
    | _, _ => psi
    end.

  Definition qpe_run (hp : nat -> A S) (qs : list N) (Us : list (state S -> state S)) (psi : state S) : state S :=
    den S (s_qft S (fam S hp true) qs true true)
        (cpowers qs Us (den S (s_qft S (fam S hp false) qs false true) psi)).
End QpeSem.
