(* BridgeProofs.v — the dense-row operations of Chem/Taper.v agree with the sparse-word
   operations of Pauli/Word.v through [row_word] (Chem/Bridge.v):
     row_word_wf        the word of a row is sorted
     wmul_row_word      product: xor of the codes + phase table c_calc  =  wmul
     wcommute_row_word  symplectic product  =  wcommute
     row_word_inj       rows of equal length with the same word are equal *)
From Coq Require Import NArith ZArith List Bool Arith Lia.
From Tangelo Require Import Num.KStruct Pauli.Word Chem.Taper Chem.Bridge.
Import ListNotations.

(* ------------------------------------------------------------------ qubit indices of a word *)
Lemma row_word_from_head : forall r q q' p w,
  row_word_from q r = (q', p) :: w -> (q <= q')%N.
Proof.
  induction r as [|x r IH]; intros q q' p w H.
  - discriminate H.
  - destruct x; cbn [row_word_from p4_to_pauli] in H;
      try (injection H as Hq _ _; lia).
    apply IH in H. lia.
Qed.

Lemma row_word_from_head_succ : forall r q q' p w,
  row_word_from (N.succ q) r = (q', p) :: w -> (q < q')%N.
Proof.
  intros r q q' p w H. apply row_word_from_head in H. lia.
Qed.

(* ------------------------------------------------------------------ well-formedness *)
Lemma sorted_row_word_from : forall r q lo,
  (forall l, lo = Some l -> (l < q)%N) -> sorted_from lo (row_word_from q r) = true.
Proof.
  induction r as [|x r IH]; intros q lo Hlo.
  - reflexivity.
  - assert (Hnext : sorted_from (Some q) (row_word_from (N.succ q) r) = true).
    { apply IH. intros l Hl. injection Hl as Hl. lia. }
    assert (Hhd : (match lo with None => true | Some l => N.ltb l q end) = true).
    { destruct lo as [l|]; [|reflexivity]. apply N.ltb_lt. apply Hlo. reflexivity. }
    destruct x; cbn [row_word_from p4_to_pauli sorted_from];
      try (rewrite Hhd, Hnext; reflexivity).
    apply IH. intros l Hl. specialize (Hlo l Hl). lia.
Qed.

Lemma row_word_wf : forall r, word_wf (row_word r) = true.
Proof.
  intros r. unfold word_wf, row_word. apply sorted_row_word_from.
  intros l Hl. discriminate Hl.
Qed.

(* ------------------------------------------------------------------ one step of wmul_fuel *)
Lemma wmul_fuel_left : forall k wa wb q p,
  List.length wa + List.length wb <= k ->
  (forall q' p' w', wb = (q', p') :: w' -> (q < q')%N) ->
  wmul_fuel (S k) ((q, p) :: wa) wb
  = (let '(w, e) := wmul_fuel k wa wb in ((q, p) :: w, e)).
Proof.
  intros k wa wb q p Hk Hh. destruct wb as [|[q' p'] w'].
  - cbn [wmul_fuel]. destruct k as [|k].
    + destruct wa as [|t wa]; [reflexivity | cbn [List.length] in Hk; lia].
    + cbn [wmul_fuel]. destruct wa as [|[qa pa] wa]; reflexivity.
  - cbn [wmul_fuel]. specialize (Hh q' p' w' eq_refl).
    apply N.ltb_lt in Hh. rewrite Hh. reflexivity.
Qed.

Lemma wmul_fuel_right : forall k wa wb q p,
  List.length wa + List.length wb <= k ->
  (forall q' p' w', wa = (q', p') :: w' -> (q < q')%N) ->
  wmul_fuel (S k) wa ((q, p) :: wb)
  = (let '(w, e) := wmul_fuel k wa wb in ((q, p) :: w, e)).
Proof.
  intros k wa wb q p Hk Hh. destruct wa as [|[qa pa] wa].
  - cbn [wmul_fuel]. destruct k as [|k].
    + destruct wb as [|t wb]; [reflexivity | cbn [List.length] in Hk; lia].
    + cbn [wmul_fuel]. reflexivity.
  - cbn [wmul_fuel]. specialize (Hh qa pa wa eq_refl).
    assert (H1 : N.ltb qa q = false) by (apply N.ltb_ge; lia).
    assert (H2 : N.ltb q qa = true) by (apply N.ltb_lt; exact Hh).
    rewrite H1, H2. reflexivity.
Qed.

Lemma wmul_fuel_both : forall k wa wb q pa pb,
  wmul_fuel (S k) ((q, pa) :: wa) ((q, pb) :: wb)
  = (let '(w, e) := wmul_fuel k wa wb in
     match pmul1 pa pb with
     | (None, e1) => (w, (e + e1)%Z)
     | (Some p, e1) => ((q, p) :: w, (e + e1)%Z)
     end).
Proof.
  intros k wa wb q pa pb. cbn [wmul_fuel]. rewrite N.ltb_irrefl. reflexivity.
Qed.

(* ------------------------------------------------------------------ product *)
Lemma wmul_fuel_row_word_from : forall a b, List.length a = List.length b ->
  forall q f,
  List.length (row_word_from q a) + List.length (row_word_from q b) <= f ->
  wmul_fuel f (row_word_from q a) (row_word_from q b)
  = (row_word_from q (row_xor a b), row_phase c_calc_expected a b).
Proof.
  induction a as [|x a IH]; intros b Hl q f Hf; destruct b as [|y b]; try discriminate Hl.
  - cbn. destruct f; reflexivity.
  - injection Hl as Hl. specialize (IH b Hl (N.succ q)).
    pose proof (row_word_from_head_succ a q) as Ha.
    pose proof (row_word_from_head_succ b q) as Hb.
    destruct x, y;
      cbn [row_word_from p4_to_pauli List.length] in Hf;
      cbn [row_word_from p4_to_pauli row_xor row_phase].
    all: try (destruct f as [|f]; [lia|]).
    all: first
      [ (* I, I *)
        cbn -[Z.add]; rewrite Z.add_0_l; apply IH; exact Hf
      | (* both non-identity *)
        rewrite wmul_fuel_both; rewrite IH; [cbn -[Z.add]; apply (f_equal2 pair); [reflexivity | lia] | lia]
      | (* right only *)
        rewrite wmul_fuel_right;
        [rewrite IH; [cbn -[Z.add]; apply (f_equal2 pair); [reflexivity | lia] | lia] | lia | exact Ha]
      | (* left only *)
        rewrite wmul_fuel_left;
        [rewrite IH; [cbn -[Z.add]; apply (f_equal2 pair); [reflexivity | lia] | lia] | lia | exact Hb] ].
Qed.

Theorem wmul_row_word : forall a b, List.length a = List.length b ->
  wmul (row_word a) (row_word b) = (row_word (row_xor a b), row_phase c_calc_expected a b).
Proof.
  intros a b Hl. unfold wmul, row_word.
  apply wmul_fuel_row_word_from; [exact Hl | apply Nat.le_refl].
Qed.

(* ------------------------------------------------------------------ one step of anti_count *)
Lemma anti_count_nil_r : forall wa k, anti_count wa [] k = 0.
Proof.
  intros wa k. destruct k as [|k]; [reflexivity|].
  destruct wa as [|[qa pa] wa]; reflexivity.
Qed.

Lemma anti_count_nil_l : forall wb k, anti_count [] wb k = 0.
Proof.
  intros wb k. destruct k as [|k]; reflexivity.
Qed.

Lemma anti_count_left : forall k wa wb q p,
  (forall q' p' w', wb = (q', p') :: w' -> (q < q')%N) ->
  anti_count ((q, p) :: wa) wb (S k) = anti_count wa wb k.
Proof.
  intros k wa wb q p Hh. destruct wb as [|[q' p'] w'].
  - rewrite !anti_count_nil_r. reflexivity.
  - cbn [anti_count]. specialize (Hh q' p' w' eq_refl).
    apply N.ltb_lt in Hh. rewrite Hh. reflexivity.
Qed.

Lemma anti_count_right : forall k wa wb q p,
  (forall q' p' w', wa = (q', p') :: w' -> (q < q')%N) ->
  anti_count wa ((q, p) :: wb) (S k) = anti_count wa wb k.
Proof.
  intros k wa wb q p Hh. destruct wa as [|[qa pa] wa].
  - rewrite !anti_count_nil_l. reflexivity.
  - cbn [anti_count]. specialize (Hh qa pa wa eq_refl).
    assert (H1 : N.ltb qa q = false) by (apply N.ltb_ge; lia).
    assert (H2 : N.ltb q qa = true) by (apply N.ltb_lt; exact Hh).
    rewrite H1, H2. reflexivity.
Qed.

Lemma anti_count_both : forall k wa wb q pa pb,
  anti_count ((q, pa) :: wa) ((q, pb) :: wb) (S k)
  = (if pauli_eqb pa pb then 0 else 1) + anti_count wa wb k.
Proof.
  intros k wa wb q pa pb. cbn [anti_count]. rewrite N.ltb_irrefl. reflexivity.
Qed.

(* ------------------------------------------------------------------ commutation *)
Lemma dotb_app : forall u1 v1 u2 v2, List.length u1 = List.length v1 ->
  dotb (u1 ++ u2) (v1 ++ v2) = xorb (dotb u1 v1) (dotb u2 v2).
Proof.
  induction u1 as [|x u1 IH]; intros v1 u2 v2 Hl; destruct v1 as [|y v1]; try discriminate Hl.
  - cbn [app dotb]. destruct (dotb u2 v2); reflexivity.
  - injection Hl as Hl. cbn [app dotb]. rewrite (IH v1 u2 v2 Hl).
    destruct (x && y), (dotb u1 v1), (dotb u2 v2); reflexivity.
Qed.

Lemma even_anti_count_row_word_from : forall a b, List.length a = List.length b ->
  forall q f,
  List.length (row_word_from q a) + List.length (row_word_from q b) <= f ->
  Nat.even (anti_count (row_word_from q a) (row_word_from q b) f)
  = negb (xorb (dotb (row_z a) (row_x b)) (dotb (row_x a) (row_z b))).
Proof.
  induction a as [|x a IH]; intros b Hl q f Hf; destruct b as [|y b]; try discriminate Hl.
  - cbn [row_word_from]. rewrite anti_count_nil_l. reflexivity.
  - injection Hl as Hl. specialize (IH b Hl (N.succ q)).
    pose proof (row_word_from_head_succ a q) as Ha.
    pose proof (row_word_from_head_succ b q) as Hb.
    destruct x, y;
      cbn [row_word_from p4_to_pauli List.length] in Hf;
      unfold row_x, row_z in IH |- *;
      cbn [row_word_from p4_to_pauli map p4_x p4_z dotb andb].
    all: try (destruct f as [|f]; [lia|]).
    all: first
      [ (* I, I *)
        rewrite (IH f Hf)
      | (* both non-identity *)
        rewrite anti_count_both; cbn [pauli_eqb Nat.add];
        try rewrite Nat.even_succ, <- Nat.negb_even;
        rewrite IH by lia
      | (* right only *)
        rewrite anti_count_right by exact Ha; rewrite IH by lia
      | (* left only *)
        rewrite anti_count_left by exact Hb; rewrite IH by lia ].
    all: destruct (dotb (map p4_z a) (map p4_x b)), (dotb (map p4_x a) (map p4_z b)); reflexivity.
Qed.

Theorem wcommute_row_word : forall a b, List.length a = List.length b ->
  wcommute (row_word a) (row_word b) = row_commute a b.
Proof.
  intros a b Hl. unfold wcommute, row_commute, row_bin, row_word.
  rewrite (even_anti_count_row_word_from a b Hl 0%N _ (Nat.le_refl _)).
  rewrite dotb_app.
  - reflexivity.
  - unfold row_z, row_x. rewrite !map_length. exact Hl.
Qed.

(* ------------------------------------------------------------------ injectivity *)
Lemma row_word_from_inj : forall a b, List.length a = List.length b ->
  forall q, row_word_from q a = row_word_from q b -> a = b.
Proof.
  induction a as [|x a IH]; intros b Hl q H; destruct b as [|y b]; try discriminate Hl.
  - reflexivity.
  - injection Hl as Hl. specialize (IH b Hl (N.succ q)).
    pose proof (row_word_from_head_succ a q) as Ha.
    pose proof (row_word_from_head_succ b q) as Hb.
    destruct x, y; cbn [row_word_from p4_to_pauli] in H.
    all: first
      [ (* same Pauli on both sides *)
        injection H as H; rewrite (IH H); reflexivity
      | rewrite (IH H); reflexivity
      | (* different non-identity Paulis *)
        discriminate H
      | (* identity against a factor on qubit q *)
        apply Ha in H; lia
      | symmetry in H; apply Hb in H; lia ].
Qed.

Lemma row_word_inj : forall a b, List.length a = List.length b ->
  row_word a = row_word b -> a = b.
Proof.
  intros a b Hl H. exact (row_word_from_inj a b Hl 0%N H).
Qed.

Print Assumptions row_word_wf.
Print Assumptions wmul_row_word.
Print Assumptions wcommute_row_word.
Print Assumptions row_word_inj.
