(* FrobeniusProofs.v — theorems about the model of frobenius_norm_compression (Frobenius.v). *)
From Coq Require Import QArith Qcanon List Bool Arith Lia Lqa ZArith NArith.
From Tangelo Require Import Num.KStruct Num.Cyc QSem.State Pauli.Word Pauli.Action Chem.Frobenius.
Import ListNotations.
Open Scope Q_scope.

Lemma abs2_nonneg (c : cq) : 0 <= abs2 c.
Proof. unfold abs2. destruct c as [a b]; simpl. nra. Qed.

Lemma Qlt_bool_false a b : Qlt_bool a b = false -> b <= a.
Proof.
  unfold Qlt_bool. intro H. apply negb_false_iff in H. apply Qle_bool_iff. exact H.
Qed.

Lemma Qle_bool_false a b : Qle_bool a b = false -> b < a.
Proof.
  intro H. destruct (Qlt_le_dec b a) as [Hlt|Hle]; [exact Hlt|].
  apply Qle_bool_iff in Hle. congruence.
Qed.

(* what the discard branch of either comparison of the menu guarantees *)
Definition keep_sound (keep : Q -> Q -> Q -> bool) : Prop :=
  forall s e f2, keep s e f2 = false -> 0 <= e /\ s * f2 <= e * e.

Lemma cmp_sqrt_gt_sound : keep_sound cmp_sqrt_gt.
Proof.
  intros s e f2 H. unfold cmp_sqrt_gt in H. apply orb_false_iff in H. destruct H as [H1 H2].
  apply Qlt_bool_false in H1. apply Qlt_bool_false in H2. split; assumption.
Qed.

Lemma cmp_sqrt_ge_sound : keep_sound cmp_sqrt_ge.
Proof.
  intros s e f2 H. unfold cmp_sqrt_ge in H. apply orb_false_iff in H. destruct H as [H1 H2].
  apply Qle_bool_false in H1. apply Qle_bool_false in H2. split; lra.
Qed.

Lemma pow2_pos k : 0 < pow2 k.
Proof.
  unfold pow2. change 0 with (inject_Z 0). rewrite <- Zlt_Qlt. apply Z.pow_pos_nonneg; lia.
Qed.

Lemma pow2_mono a b : (a <= b)%nat -> pow2 a <= pow2 b.
Proof.
  intro H. unfold pow2. rewrite <- Zle_Qle. apply Z.pow_le_mono_r; lia.
Qed.

Section FrobProofs.
  Variable W : Type.
  Variable keep : Q -> Q -> Q -> bool.
  Hypothesis Hkeep : keep_sound keep.

  Lemma loop_bound (e f2 : Q) : 0 <= f2 ->
    forall (l : list (term W)) (s dsum : Q),
      dsum <= s -> dsum * f2 <= e * e ->
      (dsum + sum_abs2 (snd (loop keep e f2 s l))) * f2 <= e * e.
  Proof.
    intros Hf. induction l as [|t r IH]; intros s dsum Hds Hd; simpl.
    - setoid_replace (dsum + 0) with dsum by ring. exact Hd.
    - pose proof (abs2_nonneg (snd t)) as Ha.
      destruct (loop keep e f2 (s + abs2 (snd t)) r) as [k d] eqn:El.
      destruct (keep (s + abs2 (snd t)) e f2) eqn:Ek; simpl.
      + specialize (IH (s + abs2 (snd t)) dsum). rewrite El in IH. simpl in IH.
        apply IH; [lra | exact Hd].
      + destruct (Hkeep _ _ _ Ek) as [He Hs].
        specialize (IH (s + abs2 (snd t)) (dsum + abs2 (snd t))). rewrite El in IH. simpl in IH.
        setoid_replace (dsum + (abs2 (snd t) + sum_abs2 d))
          with (dsum + abs2 (snd t) + sum_abs2 d) by ring.
        apply IH; [lra|].
        apply Qle_trans with ((s + abs2 (snd t)) * f2); [|exact Hs].
        apply Qmult_le_compat_r; [lra | exact Hf].
  Qed.

  (* for EVERY operator (term list), tolerance (also negative) and register size: the squared
     coefficients of the discarded terms sum to at most (epsilon / frob_factor)^2 *)
  Theorem discard_bound (x2 : nat -> nat) (e : Q) (n : nat) (l : list (term W)) :
    sum_abs2 (discarded x2 keep e n l) * pow2 (x2 n) <= e * e.
  Proof.
    unfold discarded, compress_split.
    pose proof (loop_bound e (pow2 (x2 n)) (Qlt_le_weak _ _ (pow2_pos _)) (sort_asc l) 0 0) as H.
    setoid_replace (sum_abs2 (snd (loop keep e (pow2 (x2 n)) 0 (sort_asc l))))
      with (0 + sum_abs2 (snd (loop keep e (pow2 (x2 n)) 0 (sort_asc l)))) by ring.
    apply H; [lra|]. nra.
  Qed.

  (* Frobenius norm of the discarded part: ||D||_F^2 = 2^n * sum |c|^2 <= epsilon^2 whenever the
     factor is at least 2^(n/2), i.e. n <= x2 n *)
  Theorem frobenius_norm_bound (x2 : nat -> nat) (e : Q) (n : nat) (l : list (term W)) :
    (n <= x2 n)%nat -> sum_abs2 (discarded x2 keep e n l) * pow2 n <= e * e.
  Proof.
    intro Hn. apply Qle_trans with (sum_abs2 (discarded x2 keep e n l) * pow2 (x2 n)).
    - rewrite !(Qmult_comm (sum_abs2 _)). apply Qmult_le_compat_r; [apply pow2_mono; exact Hn|].
      induction (discarded x2 keep e n l) as [|t r IHr]; simpl; [lra|].
      pose proof (abs2_nonneg (snd t)). lra.
    - apply discard_bound.
  Qed.

  (* nothing is lost or invented: kept and discarded terms partition the sorted input *)
  Lemma loop_partition e f2 : forall (l : list (term W)) s,
    (length (fst (loop keep e f2 s l)) + length (snd (loop keep e f2 s l)))%nat = length l.
  Proof.
    induction l as [|t r IH]; intros s; simpl; [reflexivity|].
    specialize (IH (s + abs2 (snd t))).
    destruct (loop keep e f2 (s + abs2 (snd t)) r) as [k d].
    destruct (keep (s + abs2 (snd t)) e f2); simpl in *; lia.
  Qed.
End FrobProofs.

Lemma x2_floor_even n : Nat.even n = true -> (n <= x2_floor_half n)%nat.
Proof.
  intro H. unfold x2_floor_half. apply Nat.even_spec in H. destruct H as [k ->].
  rewrite Nat.mul_comm, Nat.div_mul by lia. lia.
Qed.

(* ---- the eigenvalue clause fails for odd registers with the floor exponent ----
   H = 3/5 I + 3/5 Z0 on ONE qubit, epsilon = 1: every term is discarded (compressed operator = 0,
   all eigenvalues 0), while |0> is an eigenvector of H with eigenvalue 6/5: shift 6/5 > epsilon. *)
Definition q35 : cq := (3 # 5, 0).
Definition odd_witness : list (term word) := [([], q35); ([(0%N, PZ)], q35)].
Definition cy_of_cq (c : cq) : K CycS := @kadd CycS (cy_of_Qc (Q2Qc (fst c))) (@kmul CycS (@ki CycS) (cy_of_Qc (Q2Qc (snd c)))).
Definition op_of_terms (l : list (term word)) : op CycS := map (fun t => (fst t, cy_of_cq (snd t))) l.

Lemma odd_witness_all_dropped :
  compress x2_floor_half cmp_sqrt_gt 1 1 odd_witness = []
  /\ length (discarded x2_floor_half cmp_sqrt_gt 1 1 odd_witness) = 2%nat.
Proof. vm_compute. split; reflexivity. Qed.

Lemma odd_witness_eigen :
  op_den CycS (op_of_terms odd_witness) (ket CycS 0) 0%N = cy_of_Qc (Q2Qc (6 # 5))
  /\ op_den CycS (op_of_terms odd_witness) (ket CycS 0) 1%N = @k0 CycS.
Proof. split; apply (proj1 (ceqb_eq L4 _ _)); vm_compute; reflexivity. Qed.

Theorem frobenius_odd_refuted :
  exists (l : list (term word)) (e : Q) (n : nat) (lam : Q),
    Nat.odd n = true
    /\ compress x2_floor_half cmp_sqrt_gt e n l = []                 (* compressed operator is 0 *)
    /\ (forall x, (x < 2)%N ->                                             (* H |0> = lam |0> *)
          op_den CycS (op_of_terms l) (ket CycS 0) x
          = @kmul CycS (cy_of_Qc (Q2Qc lam)) (ket CycS 0 x))
    /\ e < lam.                                                            (* |lam - 0| > epsilon *)
Proof.
  exists odd_witness, 1, 1%nat, (6 # 5). split; [reflexivity|]. split; [apply odd_witness_all_dropped|].
  split.
  - intros x Hx. assert (x = 0%N \/ x = 1%N) as [-> | ->] by lia;
      apply (proj1 (ceqb_eq L4 _ _)); vm_compute; reflexivity.
  - reflexivity.
Qed.
