(* Bridge.v — dense rows of Chem/Taper.v as sparse words of Pauli/Word.v (definitions only;
   proofs in BridgeProofs.v): a dense row [p4] per qubit becomes the sorted list of its
   non-identity factors. *)
From Coq Require Import NArith ZArith List Bool.
From Tangelo Require Import Num.KStruct Pauli.Word Chem.Taper.
Import ListNotations.

Definition p4_to_pauli (p : p4) : option pauli :=
  match p with P4I => None | P4Z => Some PZ | P4X => Some PX | P4Y => Some PY end.
(* the sparse word of a dense row whose first entry sits on qubit q *)
Fixpoint row_word_from (q : N) (r : row) : word :=
  match r with
  | [] => []
  | p :: r' => match p4_to_pauli p with
               | None => row_word_from (N.succ q) r'
               | Some a => (q, a) :: row_word_from (N.succ q) r'
               end
  end.
Definition row_word (r : row) : word := row_word_from 0 r.
