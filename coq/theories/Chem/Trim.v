(* Trim.v — model of tangelo/toolboxes/operators/trim_trivial_qubits.py (definitions only; proofs in
   TrimProofs.v).

   trim_trivial_operator : per term, the string surgery of the source (delete character [qubit - i]
       of the running string for the i-th key, or overwrite with 'I'), the sign for (Z, state 1), the
       skip for X / Y.  Faithful for key lists with key_i >= i (always true for the sorted dictionary
       that trim_trivial_circuit returns); Python's negative slice indices are not modelled.
   is_bitflip_gate, trim_trivial_circuit : the classification of one-qubit components of size 1 / 2.
       The name sets and the resulting states are NOT typed here: they are the record [trim_tables],
       regenerated from the source by translator/reduction_tables.py (gen/ReductionTables.v).
       The float predicate  abs(float(p) % (2 pi) - pi) <= atol  is the parameter [odd_pi].
   The circuit-level function reuses the Circuit model of Linq/CircuitModel.v (split, entangled
   indices, +, trim_qubits). *)
From Coq Require Import String ZArith NArith List Bool Arith.
From Tangelo Require Import Num.KStruct QSem.State Pauli.Word Linq.GateModel Linq.CircuitModel.
Import ListNotations.
Open Scope string_scope.
Open Scope list_scope.

(* ------------------------------------------------------------------ trim_trivial_operator *)
Definition pstr : Type := list (option pauli).            (* 'I' = None *)

Fixpoint set_at {X} (l : list X) (i : nat) (x : X) : option (list X) :=
  match l, i with
  | [], _ => None
  | _ :: r, O => Some (x :: r)
  | y :: r, S k => match set_at r k x with Some r' => Some (y :: r') | None => None end
  end.

(* pauli_of_to_string(term, n): IndexError when a factor lies outside the register *)
Definition of_to_string (w : word) (n : nat) : res pstr :=
  fold_left (fun acc qp => do s <- acc;
                           match set_at s (N.to_nat (fst qp)) (Some (snd qp)) with
                           | Some s' => Ok s' | None => Err IndexError end)
            w (Ok (repeat None n)).

(* pauli_string_to_of *)
Fixpoint to_word_from (q : nat) (s : pstr) : word :=
  match s with
  | [] => []
  | None :: r => to_word_from (S q) r
  | Some p :: r => (N.of_nat q, p) :: to_word_from (S q) r
  end.
Definition to_word (s : pstr) : word := to_word_from 0 s.

Definition remove_at {X} (k : nat) (l : list X) : list X := firstn k l ++ skipn (S k) l.
Definition blank_at (k : nat) (l : pstr) : pstr := firstn k l ++ None :: skipn (S k) l.

Definition tstates : Type := list (nat * bool).           (* the dict trim_states, in iteration order *)

(* the inner loop over enumerate(trim_states.keys()); None = the term is skipped ("0 in c") *)
Fixpoint trim_loop (reindex : bool) (term : pstr) (ks : tstates) (i : nat) (neg : bool) (nt : pstr)
  : res (option (bool * pstr)) :=
  match ks with
  | [] => Ok (Some (neg, nt))
  | (q, b) :: r =>
    match nth_error term q with
    | None => Err IndexError
    | Some (Some PX) | Some (Some PY) => Ok None
    | Some p =>
      let neg' := match p with Some PZ => xorb neg b | _ => neg end in
      let nt' := if reindex then remove_at (q - i) nt else blank_at q nt in
      trim_loop reindex term r (S i) neg' nt'
    end
  end.

Section TrimOp.
  Variable C : Type.                       (* coefficients *)
  Variable cneg : C -> C.

  (* one term of qu_op.terms -> the term added to qu_op_trim (before openfermion merges equal words) *)
  Definition trim_term (reindex : bool) (ks : tstates) (n : nat) (t : word * C) : res (option (word * C)) :=
    do s <- of_to_string (fst t) n;
    do r <- trim_loop reindex s ks 0 false s;
    Ok (match r with
        | None => None
        | Some (neg, nt) => Some (to_word nt, if neg then cneg (snd t) else snd t)
        end).

  Fixpoint trim_operator (reindex : bool) (ks : tstates) (n : nat) (a : list (word * C)) : res (list (word * C)) :=
    match a with
    | [] => Ok []
    | t :: r => do x <- trim_term reindex ks n t;
                do xs <- trim_operator reindex ks n r;
                Ok (match x with Some u => u :: xs | None => xs end)
    end.
End TrimOp.

(* ---- the specification the surgery is compared with ---- *)
(* delete the characters whose ORIGINAL index (counted from d) is a key *)
Fixpoint del_from (d : nat) (keys : list nat) (l : pstr) : pstr :=
  match l with
  | [] => []
  | x :: r => if existsb (Nat.eqb d) keys then del_from (S d) keys r else x :: del_from (S d) keys r
  end.
Definition has_xy (term : pstr) (ks : tstates) : bool :=
  existsb (fun qb => match nth_error term (fst qb) with
                     | Some (Some PX) | Some (Some PY) => true | _ => false end) ks.
Definition sign_of (term : pstr) (ks : tstates) : bool :=       (* true = -1 *)
  fold_left (fun s qb => match nth_error term (fst qb) with
                         | Some (Some PZ) => xorb s (snd qb) | _ => s end) ks false.
Fixpoint increasing_from (lo : nat) (ks : list nat) : bool :=
  match ks with [] => true | k :: r => Nat.leb lo k && increasing_from (S k) r end.

(* ------------------------------------------------------------------ trim_trivial_circuit *)
Record trim_tables : Type := TrimTables {
  bf_plain : list string;        (* is_bitflip_gate: gate.name in {...}                       *)
  bf_rot : list string;          (* is_bitflip_gate: gate.name in {...} and odd multiple of pi *)
  s1_phase : list string;  s1_phase_state : bool;    (* size 1: gate0.name in {...}  -> state  *)
  s1_flip : list string;   s1_flip_state : bool;     (* size 1: gate0.name in {...} and bitflip *)
  s2_g1_phase : list string;                         (* size 2: gate1.name in {...}             *)
  s2_pp_g0 : list string;  s2_pp_state : bool;       (*   gate0.name in {...}                   *)
  s2_g1_flip : list string;                          (* size 2: gate1.name in {...} and bitflip *)
  s2_ff_g0 : list string;  s2_ff_state : bool;       (*   gate0.name in {...} and bitflip       *)
  s2_pf_g0 : list string;  s2_pf_state : bool        (*   gate0.name in {...}                   *)
}.

Section TrimCirc.
  Variable Ang : Type.
  Variable odd_pi : Ang -> bool.
  Variable TT : trim_tables.
  Variable T : tables.

  Definition is_bitflip (g : pgate Ang) : bool :=
    smem (pname g) (bf_plain TT)
    || (smem (pname g) (bf_rot TT) && match pparam g with PNum a => odd_pi a | _ => false end).

  (* Some b: the component is removed and its qubit recorded in state b; None: kept *)
  Definition classify (gs : list (pgate Ang)) : option bool :=
    match gs with
    | [g0] =>
      if smem (pname g0) (s1_phase TT) then Some (s1_phase_state TT)
      else if smem (pname g0) (s1_flip TT) && is_bitflip g0 then Some (s1_flip_state TT)
      else None
    | [g0; g1] =>
      if smem (pname g1) (s2_g1_phase TT) then
        (if smem (pname g0) (s2_pp_g0 TT) then Some (s2_pp_state TT) else None)
      else if smem (pname g1) (s2_g1_flip TT) && is_bitflip g1 then
        (if smem (pname g0) (s2_ff_g0 TT) && is_bitflip g0 then Some (s2_ff_state TT)
         else if smem (pname g0) (s2_pf_g0 TT) then Some (s2_pf_state TT)
         else None)
      else None
    | _ => None
    end.

  Fixpoint zinsert_state (q : Z) (b : bool) (l : list (Z * bool)) : list (Z * bool) :=
    match l with
    | [] => [(q, b)]
    | (q', b') :: r => if Z.ltb q q' then (q, b) :: l
                       else if Z.eqb q q' then (q, b) :: r else (q', b') :: zinsert_state q b r
    end.

  Definition trim_trivial_circuit (c : circ Ang) : res (circ Ang * list (Z * bool)) :=
    do circs <- split_c Ang T c false;
    let e_indices := entangled_indices Ang (cgates Ang c) in
    let used := fold_left zunion e_indices [] in
    let idle := filter (fun q => negb (zmem q used)) (zrange (width Ang c)) in
    do st <- fold_left
               (fun acc ci =>
                  do s <- acc;
                  let '(cn, ts) := s in
                  let '(ci_c, ci_idx) := ci in
                  let keep := do cn' <- concat Ang T cn ci_c; Ok (cn', ts) in
                  if negb (Nat.eqb (length (cidx Ang ci_c)) 1)
                     || negb (Nat.eqb (size Ang ci_c) 1 || Nat.eqb (size Ang ci_c) 2) then keep
                  else match classify (cgates Ang ci_c), ci_idx with
                       | Some b, q :: _ => Ok (cn, zinsert_state q b ts)
                       | _, _ => keep
                       end)
               (combine circs e_indices)
               (Ok (empty_circ Ang None, map (fun q => (q, false)) idle));
    do cn <- trim_qubits Ang (fst st);
    Ok (cn, snd st).
End TrimCirc.

(* ---- reference semantics of the one-qubit gates that the classification may name ---- *)
Section TrimSem.
  Variable S : KS.
  Open Scope K_scope.

  Definition sem1 (name : string) (a : A S) : option (mat2 S) :=
    if String.eqb name "X" then Some (mX S) else
    if String.eqb name "Y" then Some (mY S) else
    if String.eqb name "Z" then Some (mZ S) else
    if String.eqb name "RX" then Some (mRX S a) else
    if String.eqb name "RY" then Some (mRY S a) else
    if String.eqb name "RZ" then Some (mRZ S a) else None.

  (* value of a gate parameter: numbers as they are, symbols through a valuation *)
  Definition angle_of (val : string -> A S) (p : param (A S)) : A S :=
    match p with PNum a => a | PStr s => val s | PNone => a0 end.

  Definition gate_mat (val : string -> A S) (g : pgate (A S)) : option (mat2 S) :=
    sem1 (pname g) (angle_of val (pparam g)).

  (* the state M_k ... M_1 |0> of the qubit, as the pair (amplitude of |0>, amplitude of |1>) *)
  Definition apply_col (u : mat2 S) (v : K S * K S) : K S * K S :=
    (m00 u * fst v + m01 u * snd v, m10 u * fst v + m11 u * snd v).
  Fixpoint run1 (val : string -> A S) (gs : list (pgate (A S))) (v : K S * K S) : option (K S * K S) :=
    match gs with
    | [] => Some v
    | g :: r => match gate_mat val g with Some u => run1 val r (apply_col u v) | None => None end
    end.

  (* "the qubit is in |b> up to a phase" *)
  Definition basis_up_to_phase (b : bool) (v : K S * K S) : Prop :=
    (if b then fst v = 0 else snd v = 0)
    /\ (let amp := if b then snd v else fst v in amp * kconj amp = 1).
End TrimSem.

(* the largest name sets for which the classification is sound w.r.t. [sem1] *)
Definition subset (a b : list string) : bool := forallb (fun x => smem x b) a.
Definition phase_names : list string := ["Z"; "RZ"].
Definition flip_plain_names : list string := ["X"; "Y"].
Definition flip_rot_names : list string := ["RX"; "RY"].
Definition tables_sound (TT : trim_tables) : bool :=
  subset (bf_plain TT) flip_plain_names && subset (bf_rot TT) flip_rot_names
  && subset (s1_phase TT) phase_names && negb (s1_phase_state TT)
  && subset (s1_flip TT) (flip_plain_names ++ flip_rot_names) && s1_flip_state TT
  && subset (s2_g1_phase TT) phase_names && subset (s2_pp_g0 TT) phase_names && negb (s2_pp_state TT)
  && subset (s2_g1_flip TT) (flip_plain_names ++ flip_rot_names)
  && subset (s2_ff_g0 TT) (flip_plain_names ++ flip_rot_names) && negb (s2_ff_state TT)
  && subset (s2_pf_g0 TT) phase_names && s2_pf_state TT.
