(* QftProofs.v — theorems about the model of get_qft_circuit (Chem/Qft.v), for EVERY qubit list:
     interp_qft           the Python-level gate list is interpreted as the semantic circuit s_qft
     rot_dft / qft_dft    the circuit implements the discrete Fourier transform of the listed register
                          (first listed qubit least significant), by induction over the list
     qft_inverse          the inverse=True list denotes the two-sided inverse of the forward list
     qft_inverse_list     ... and is Circuit.inverse's list up to the order of the (disjoint) swaps
   generic over the number structure S with an angle family hp k = pi/2^k. *)
From Coq Require Import String ZArith NArith List Bool Lia Arith.
From Tangelo Require Import Num.KStruct QSem.State QSem.StateLemmas QSem.GateLemmas QSem.CircuitLemmas QSem.Commute.
From Tangelo Require Import Linq.GateModel Linq.Interp Linq.InterpProofs Chem.Qft.
Import ListNotations.
Open Scope list_scope.

(* ---------------- lists ---------------- *)
Lemma ends_ind {X : Type} (P : list X -> Prop) :
  P [] -> (forall a, P [a]) -> (forall a mid b, P mid -> P (a :: mid ++ [b])) -> forall l, P l.
Proof.
  intros H0 H1 H2 l.
  assert (Hn : forall n l, length l <= n -> P l).
  { induction n as [|n IH]; intros l0 Hl.
    - destruct l0; [exact H0 | simpl in Hl; lia].
    - destruct l0 as [|a r]; [exact H0|].
      destruct (rev r) as [|b m] eqn:Er.
      + apply (f_equal (@rev X)) in Er. rewrite rev_involutive in Er. subst r. apply H1.
      + apply (f_equal (@rev X)) in Er. rewrite rev_involutive in Er. simpl in Er. subst r.
        apply H2. apply IH. simpl in Hl. rewrite app_length, rev_length in Hl. simpl in Hl. rewrite rev_length. lia. }
  apply (Hn (length l)). lia.
Qed.

Lemma combine_app {X Y : Type} (l1 : list X) (l2 : list Y) x y :
  length l1 = length l2 -> combine (l1 ++ x) (l2 ++ y) = combine l1 l2 ++ combine x y.
Proof.
  revert l2. induction l1 as [|a r IH]; intros [|b s] H; simpl in *; try discriminate; [reflexivity|].
  f_equal. apply IH. lia.
Qed.

Lemma swap_pairs_nil {X : Type} : swap_pairs (@nil X) = [].
Proof. reflexivity. Qed.
Lemma swap_pairs_one {X : Type} (a : X) : swap_pairs [a] = [].
Proof. reflexivity. Qed.
Lemma swap_pairs_ends {X : Type} (a b : X) (mid : list X) :
  swap_pairs (a :: mid ++ [b]) = (a, b) :: swap_pairs mid.
Proof.
  unfold swap_pairs.
  assert (Hl : length (a :: mid ++ [b]) = 1 * 2 + length mid).
  { simpl. rewrite app_length. simpl. lia. }
  rewrite Hl, Nat.div_add_l by lia.
  assert (Hle : length mid / 2 <= length mid) by (apply Nat.div_le_upper_bound; lia).
  set (k := length mid / 2) in *.
  change (1 + k) with (Datatypes.S k).
  simpl rev. rewrite rev_app_distr. simpl rev. simpl app. simpl combine. rewrite firstn_cons. f_equal.
  rewrite combine_app by (rewrite rev_length; reflexivity).
  rewrite firstn_app.
  rewrite combine_length, rev_length, Nat.min_id.
  replace (k - length mid) with 0 by lia.
  rewrite firstn_O. apply app_nil_r.
Qed.

Lemma swap_pairs_in {X : Type} (l : list X) p q : In (p, q) (swap_pairs l) -> In p l /\ In q l.
Proof.
  unfold swap_pairs. intro H.
  assert (H' : In (p, q) (combine l (rev l))).
  { rewrite <- (firstn_skipn (length l / 2)). apply in_or_app. left. exact H. }
  split; [eapply in_combine_l; exact H' | apply in_rev; eapply in_combine_r; exact H'].
Qed.

Lemma swap_pairs_map {X Y : Type} (f : X -> Y) (l : list X) :
  swap_pairs (map f l) = map (fun p => (f (fst p), f (snd p))) (swap_pairs l).
Proof.
  unfold swap_pairs. rewrite map_length, <- map_rev, <- firstn_map. f_equal.
  generalize (rev l) as l2. induction l as [|a r IH]; intros [|b s]; simpl; try reflexivity.
  f_equal. apply IH.
Qed.

(* ---------------- bits ---------------- *)
Lemma bit_setb_same z t b : bit (setb z t b) t = b.
Proof.
  unfold setb. destruct (Bool.eqb (bit z t) b) eqn:E.
  - apply eqb_prop in E. exact E.
  - rewrite bit_flip_same. destruct (bit z t), b; simpl in *; congruence.
Qed.

Lemma bit_setb_other z t b q : t <> q -> bit (setb z t b) q = bit z q.
Proof. intro H. unfold setb. destruct (Bool.eqb (bit z t) b); [reflexivity | apply bit_flip_other; exact H]. Qed.

Lemma bit_put_in qs x z q : In q qs -> bit (put qs x z) q = bit x q.
Proof.
  induction qs as [|a r IH]; simpl; intro H; [contradiction|].
  destruct (N.eq_dec a q) as [->|Hne]; [apply bit_setb_same|].
  rewrite bit_setb_other by exact Hne. apply IH. destruct H; [contradiction | assumption].
Qed.

Lemma bit_put_notin qs x z q : ~ In q qs -> bit (put qs x z) q = bit z q.
Proof.
  induction qs as [|a r IH]; simpl; intro H; [reflexivity|].
  rewrite bit_setb_other by (intro E; apply H; left; exact E).
  apply IH. intro G. apply H. right. exact G.
Qed.

Lemma bit_ext_N (x y : N) : (forall q, bit x q = bit y q) -> x = y.
Proof. intro H. apply N.bits_inj. exact H. Qed.

Lemma put_ext qs qs' x z z' :
  (forall q, In q qs <-> In q qs') -> (forall q, ~ In q qs -> bit z q = bit z' q) -> put qs x z = put qs' x z'.
Proof.
  intros Hin Hz. apply bit_ext_N. intro q.
  destruct (in_dec N.eq_dec q qs) as [Hi|Hn].
  - rewrite bit_put_in by exact Hi. rewrite bit_put_in by (apply Hin; exact Hi). reflexivity.
  - rewrite bit_put_notin by exact Hn. rewrite bit_put_notin by (intro G; apply Hn; apply Hin; exact G).
    apply Hz. exact Hn.
Qed.

Lemma val_ext qs y y' : (forall q, In q qs -> bit y q = bit y' q) -> val qs y = val qs y'.
Proof.
  induction qs as [|a r IH]; simpl; intro H; [reflexivity|].
  rewrite (H a (or_introl eq_refl)), IH; [reflexivity|]. intros q Hq. apply H. right. exact Hq.
Qed.

Lemma val_app l t z : val (l ++ [t]) z = val l z + 2 ^ length l * Nat.b2n (bit z t).
Proof.
  induction l as [|a r IH]; simpl val; simpl length.
  - simpl. lia.
  - rewrite IH. rewrite Nat.pow_succ_r'. lia.
Qed.

Lemma val_lt qs z : val qs z < 2 ^ length qs.
Proof.
  induction qs as [|a r IH]; simpl val; simpl length; [simpl; lia|].
  rewrite Nat.pow_succ_r'. destruct (bit z a); simpl Nat.b2n; lia.
Qed.

Lemma bit_swapq a b z q :
  bit (swapq a b z) q = if N.eqb q a then bit z b else if N.eqb q b then bit z a else bit z q.
Proof.
  unfold swapq. destruct (Bool.eqb (bit z a) (bit z b)) eqn:E.
  - apply eqb_prop in E.
    destruct (N.eqb_spec q a) as [->|Ha]; [exact E|].
    destruct (N.eqb_spec q b) as [->|Hb]; [symmetry; exact E | reflexivity].
  - assert (Hab : a <> b). { intro H. subst. rewrite eqb_reflx in E. discriminate. }
    unfold flip2.
    destruct (N.eqb_spec q a) as [->|Ha].
    + rewrite bit_flip_other by (intro H; apply Hab; symmetry; exact H). rewrite bit_flip_same.
      destruct (bit z a), (bit z b); simpl in *; congruence.
    + destruct (N.eqb_spec q b) as [->|Hb].
      * rewrite bit_flip_same, bit_flip_other by exact Hab.
        destruct (bit z a), (bit z b); simpl in *; congruence.
      * rewrite !bit_flip_other by (intro H; subst; contradiction). reflexivity.
Qed.

(* the permutation of basis indices implemented by a list of swaps (first gate applied first) *)
Definition sigma (pairs : list (N * N)) (z : N) : N :=
  fold_right (fun p acc => swapq (fst p) (snd p) acc) z pairs.

Lemma sigma_swaps (qs : list N) :
  NoDup qs -> forall z,
    (forall q, ~ In q qs -> bit (sigma (swap_pairs qs) z) q = bit z q)
    /\ val (rev qs) (sigma (swap_pairs qs) z) = val qs z.
Proof.
  induction qs as [| a | a mid b IH] using ends_ind; intros Hnd z.
  - split; reflexivity.
  - split; reflexivity.
  - rewrite swap_pairs_ends. simpl sigma.
    inversion Hnd as [|a' l' Ha Hnd']; subst.
    apply NoDup_remove in Hnd'. rewrite app_nil_r in Hnd'. destruct Hnd' as [Hmid Hb].
    assert (Hab : a <> b). { intro E. apply Ha. apply in_or_app. right. left. symmetry. exact E. }
    assert (Ham : ~ In a mid). { intro G. apply Ha. apply in_or_app. left. exact G. }
    destruct (IH Hmid z) as [IH1 IH2].
    fold (sigma (swap_pairs mid) z). set (y := sigma (swap_pairs mid) z) in *.
    split.
    + intros q Hq. rewrite bit_swapq.
      assert (q <> a) by (intro E; apply Hq; left; symmetry; exact E).
      assert (q <> b) by (intro E; apply Hq; right; apply in_or_app; right; left; symmetry; exact E).
      destruct (N.eqb_spec q a); [contradiction|]. destruct (N.eqb_spec q b); [contradiction|].
      apply IH1. intro G. apply Hq. right. apply in_or_app. left. exact G.
    + simpl rev. rewrite rev_app_distr. simpl rev. simpl app.
      change ((b :: rev mid) ++ [a]) with (b :: (rev mid ++ [a])).
      simpl val. rewrite !val_app, rev_length.
      rewrite !bit_swapq, !N.eqb_refl.
      destruct (N.eqb_spec b a) as [E|_]; [exfalso; apply Hab; symmetry; exact E|].
      rewrite (val_ext (rev mid) (swapq a b y) y).
      * rewrite IH2. rewrite (IH1 a Ham), (IH1 b Hb). reflexivity.
      * intros q Hq. apply in_rev in Hq. rewrite bit_swapq.
        destruct (N.eqb_spec q a) as [->|_]; [contradiction|].
        destruct (N.eqb_spec q b) as [->|_]; [contradiction|]. reflexivity.
Qed.

Section QftProofs.
  Variable S : KS.
  Add Ring kring : (k_ring S).
  Open Scope K_scope.
  Variable hp : nat -> A S.
  Hypothesis hp_0 : hp 0 = api.
  Hypothesis hp_S : forall k, aadd (hp (Datatypes.S k)) (hp (Datatypes.S k)) = hp k.

  Notation K := (K S).
  Notation state := (state S).
  Notation w := (w S hp).
  Notation kpow := (kpow S).
  Notation den := (den S).
  Notation den_gate := (den_gate S).
  Notation supp := (supp S).

  (* ---------------- roots of unity ---------------- *)
  Lemma w_0 : w 0 = 1.
  Proof. reflexivity. Qed.
  Lemma w_1 : w 1 = - (1).
  Proof. unfold Qft.w. rewrite hp_0, cis_pi. apply k_ii. Qed.
  Lemma w_sq k : w (Datatypes.S k) * w (Datatypes.S k) = w k.
  Proof.
    destruct k as [|k].
    - rewrite w_1. simpl. ring.
    - unfold Qft.w. rewrite <- (hp_S k), cis_add. ring.
  Qed.

  Lemma kpow_0 x : kpow x 0 = 1.
  Proof. reflexivity. Qed.
  Lemma kpow_S x n : kpow x (Datatypes.S n) = x * kpow x n.
  Proof. reflexivity. Qed.
  Lemma kpow_add x a b : kpow x (a + b) = kpow x a * kpow x b.
  Proof. induction a as [|a IH]; simpl; [ring|]. rewrite IH. ring. Qed.
  Lemma kpow_one n : kpow 1 n = 1.
  Proof. induction n as [|n IH]; simpl; [reflexivity|]. rewrite IH. ring. Qed.
  Lemma kpow_mul x a b : kpow x (a * b) = kpow (kpow x a) b.
  Proof.
    induction b as [|b IH].
    - rewrite Nat.mul_0_r. reflexivity.
    - rewrite Nat.mul_succ_r, Nat.add_comm, kpow_add, IH. reflexivity.
  Qed.
  Lemma kpow_w_double k n : kpow (w (Datatypes.S k)) (2 * n) = kpow (w k) n.
  Proof.
    induction n as [|n IH]; [reflexivity|].
    replace (2 * Datatypes.S n)%nat with (Datatypes.S (Datatypes.S (2 * n)))%nat by lia.
    rewrite !kpow_S, IH, <- (w_sq k). ring.
  Qed.
  Lemma kpow_w_half k : kpow (w (Datatypes.S k)) (2 ^ k) = - (1).
  Proof.
    induction k as [|k IH].
    - simpl Nat.pow. rewrite kpow_S, kpow_0, w_1. ring.
    - rewrite Nat.pow_succ_r', kpow_w_double. exact IH.
  Qed.
  Lemma kpow_w_full k : kpow (w k) (2 ^ k) = 1.
  Proof.
    induction k as [|k IH].
    - simpl Nat.pow. rewrite kpow_S, kpow_0, w_0. ring.
    - rewrite Nat.pow_succ_r', kpow_w_double. exact IH.
  Qed.
  Lemma kpow_w_pow a b : kpow (w (a + b)) (2 ^ b) = w a.
  Proof.
    induction b as [|b IH].
    - rewrite Nat.add_0_r. simpl Nat.pow. rewrite kpow_S, kpow_0. ring.
    - rewrite Nat.add_succ_r, Nat.pow_succ_r', kpow_w_double. exact IH.
  Qed.
  (* w n is a 2^n-th root of unity: exponents count modulo 2^n *)
  Lemma kpow_w_mod n e : kpow (w n) e = kpow (w n) (e mod 2 ^ n).
  Proof.
    assert (Hp : (2 ^ n <> 0)%nat) by (apply Nat.pow_nonzero; lia).
    rewrite (Nat.div_mod e (2 ^ n)%nat Hp) at 1.
    rewrite kpow_add, kpow_mul, kpow_w_full, kpow_one. ring.
  Qed.

  (* ---------------- single gates ---------------- *)
  Lemma den_sH t (psi : state) z : den_gate (sH S t) psi z = app1 S (mH S) t psi z.
  Proof. reflexivity. Qed.

  Lemma den_sCP (a : nat -> A S) c t k (psi : state) z :
    den_gate (sCP S a c t k) psi z = (if bit z c && bit z t then cis (a k) * cis (a k) else 1) * psi z.
  Proof.
    unfold State.den_gate, State.ctrl, allset, sCP; simpl.
    destruct (bit z c); simpl; [|ring].
    unfold State.app1. destruct (bit z t); simpl; ring.
  Qed.

  Lemma den_sSWAP p q (psi : state) z : den_gate (sSWAP S p q) psi z = psi (swapq p q z).
  Proof. reflexivity. Qed.

  (* product of the phases picked up from the controls in [rest] (first control: index k) *)
  Fixpoint phprod (a : nat -> A S) (rest : list N) (k : nat) (z : N) : K :=
    match rest with
    | [] => 1
    | c :: r => (if bit z c then cis (a k) * cis (a k) else 1) * phprod a r (Datatypes.S k) z
    end.

  Lemma den_cphases (a : nat -> A S) t rest : forall k (psi : state) z,
    den (s_cphases S a t rest k) psi z = (if bit z t then phprod a rest k z else 1) * psi z.
  Proof.
    induction rest as [|c r IH]; intros k psi z; simpl s_cphases.
    - simpl. destruct (bit z t); ring.
    - rewrite den_app, den_cons, den_nil, den_sCP, IH. simpl phprod.
      destruct (bit z c), (bit z t); simpl; ring.
  Qed.

  Lemma phprod_ext a rest : forall k y y', (forall q, In q rest -> bit y q = bit y' q) -> phprod a rest k y = phprod a rest k y'.
  Proof.
    induction rest as [|c r IH]; intros k y y' H; simpl; [reflexivity|].
    rewrite (H c (or_introl eq_refl)), (IH (Datatypes.S k) y y'); [reflexivity|].
    intros q Hq. apply H. right. exact Hq.
  Qed.

  (* with the forward angles the product is a power of one root of unity *)
  Lemma phprod_val rest : forall k x,
    phprod hp rest k x = kpow (w (k + length rest)) (val (rev rest) x).
  Proof.
    induction rest as [|c r IH]; intros k x; simpl phprod.
    - reflexivity.
    - rewrite IH. simpl rev. rewrite val_app, rev_length. simpl length.
      rewrite Nat.add_succ_r. simpl plus.
      rewrite kpow_add.
      destruct (bit x c); simpl Nat.b2n.
      + rewrite Nat.mul_1_r.
        change (Datatypes.S (k + length r))%nat with (Datatypes.S k + length r)%nat.
        rewrite (kpow_w_pow (Datatypes.S k) (length r)). unfold Qft.w at 3. ring.
      + rewrite Nat.mul_0_r, kpow_0. ring.
  Qed.

  (* Hadamard on a state whose qubit t has the definite value bit x t *)
  Lemma den_sH_supp t x (psi : state) z :
    (forall y, bit y t <> bit x t -> psi y = 0) ->
    den_gate (sH S t) psi z = krs2 * (if bit z t && bit x t then - (1) else 1) * psi (setb z t (bit x t)).
  Proof.
    intro Hs. rewrite den_sH. unfold State.app1, setb.
    destruct (bit z t) eqn:Ez, (bit x t) eqn:Ex; simpl.
    - rewrite (Hs (flip z t)) by (rewrite bit_flip_same, Ez; discriminate). ring.
    - rewrite (Hs z) by (rewrite Ez; discriminate). ring.
    - rewrite (Hs z) by (rewrite Ez; discriminate). ring.
    - rewrite (Hs (flip z t)) by (rewrite bit_flip_same, Ez; discriminate). ring.
  Qed.

  (* ---------------- the rotation part is the DFT followed by the bit reversal ---------------- *)
  Theorem rot_rev_dft (L : list N) :
    NoDup L -> forall (psi : state) x, supp L x psi -> forall z,
      den (s_rot_rev S hp L) psi z
      = kpow krs2 (length L) * kpow (w (length L)) (val (rev L) x * val L z) * psi (put L x z).
  Proof.
    induction L as [|t rest IH]; intros Hnd psi x Hs z.
    - simpl. ring.
    - inversion Hnd as [|t' r' Ht Hrest]; subst.
      simpl s_rot_rev. rewrite den_cons, den_app.
      set (psi' := den (s_cphases S hp t rest 1) (den_gate (sH S t) psi)).
      assert (Hst : forall y, bit y t <> bit x t -> psi y = 0).
      { intros y Hy. apply Hs. exists t. split; [left; reflexivity | exact Hy]. }
      assert (Hpsi' : forall y, psi' y = (if bit y t then phprod hp rest 1 y else 1)
                                         * (krs2 * (if bit y t && bit x t then - (1) else 1) * psi (setb y t (bit x t)))).
      { intro y. unfold psi'. rewrite den_cphases, (den_sH_supp t x psi y Hst). reflexivity. }
      assert (Hs' : supp rest x psi').
      { intros y [q [Hq Hne]]. rewrite Hpsi'.
        rewrite (Hs (setb y t (bit x t))); [ring|].
        exists q. split; [right; exact Hq|].
        rewrite bit_setb_other by (intro E; subst; contradiction). exact Hne. }
      rewrite (IH Hrest psi' x Hs' z). rewrite Hpsi'.
      rewrite (bit_put_notin rest x z t Ht).
      rewrite (phprod_ext hp rest 1 (put rest x z) x) by (intros q Hq; apply bit_put_in; exact Hq).
      rewrite phprod_val.
      change (put (t :: rest) x z) with (setb (put rest x z) t (bit x t)).
      set (P := psi (setb (put rest x z) t (bit x t))).
      simpl rev. rewrite val_app, rev_length. simpl val. simpl length.
      set (m := length rest). set (X := val (rev rest) x). set (Y := val rest z).
      change (1 + m)%nat with (Datatypes.S m).
      set (p := (2 ^ m)%nat).
      destruct (bit z t), (bit x t); simpl Nat.b2n; simpl andb; cbv iota.
      + match goal with |- context [Qft.kpow S (w (Datatypes.S m)) ?e] => replace e with (X + p + 2 * (X * Y) + (2 * p) * Y)%nat by ring end.
        rewrite !kpow_add, kpow_w_double, (kpow_mul _ (2 * p)%nat Y).
        unfold p. rewrite <- Nat.pow_succ_r', kpow_w_full, kpow_one, kpow_w_half, kpow_S. ring.
      + match goal with |- context [Qft.kpow S (w (Datatypes.S m)) ?e] => replace e with (X + 2 * (X * Y))%nat by ring end.
        rewrite !kpow_add, kpow_w_double, kpow_S. ring.
      + match goal with |- context [Qft.kpow S (w (Datatypes.S m)) ?e] => replace e with (2 * (X * Y) + (2 * p) * Y)%nat by ring end.
        rewrite !kpow_add, kpow_w_double, (kpow_mul _ (2 * p)%nat Y).
        unfold p. rewrite <- Nat.pow_succ_r', kpow_w_full, kpow_one, kpow_S. ring.
      + match goal with |- context [Qft.kpow S (w (Datatypes.S m)) ?e] => replace e with (2 * (X * Y))%nat by ring end.
        rewrite kpow_w_double, kpow_S. ring.
  Qed.

  (* in terms of the qubit list as written by the caller *)
  Theorem rot_dft (qs : list N) :
    NoDup qs -> forall (psi : state) x, supp qs x psi -> forall z,
      den (s_rot S hp qs) psi z
      = kpow krs2 (length qs) * kpow (w (length qs)) (val qs x * val (rev qs) z) * psi (put qs x z).
  Proof.
    intros Hnd psi x Hs z. unfold s_rot.
    assert (Hs' : supp (rev qs) x psi).
    { intros y [q [Hq Hne]]. apply Hs. exists q. split; [apply in_rev; exact Hq | exact Hne]. }
    rewrite (rot_rev_dft (rev qs) (NoDup_rev Hnd) psi x Hs' z).
    rewrite rev_involutive, rev_length.
    rewrite (put_ext (rev qs) qs x z z); [reflexivity | | reflexivity].
    intro q. symmetry. apply in_rev.
  Qed.

  (* ---------------- the swap layer ---------------- *)
  Lemma den_swaps pairs : forall (phi : state) z,
    den (map (fun p => sSWAP S (fst p) (snd p)) pairs) phi z = phi (sigma pairs z).
  Proof.
    induction pairs as [|p r IH]; intros phi z; [reflexivity|].
    simpl map. rewrite den_cons, IH, den_sSWAP. reflexivity.
  Qed.

  (* get_qft_circuit(qs) with the default swap=True: the DFT of the listed register *)
  Theorem qft_dft (qs : list N) :
    NoDup qs -> forall (psi : state) x, supp qs x psi -> forall z,
      den (s_qft S hp qs false true) psi z
      = kpow krs2 (length qs) * kpow (w (length qs)) (val qs x * val qs z) * psi (put qs x z).
  Proof.
    intros Hnd psi x Hs z. unfold s_qft. rewrite den_app. unfold s_swaps. rewrite den_swaps.
    rewrite (rot_dft qs Hnd psi x Hs).
    destruct (sigma_swaps qs Hnd z) as [H1 H2]. rewrite H2.
    rewrite (put_ext qs qs x (sigma (swap_pairs qs) z) z); [reflexivity | intro; reflexivity | exact H1].
  Qed.

  (* swap=False: the same with the output register read in reversed order *)
  Theorem qft_noswap_dft (qs : list N) :
    NoDup qs -> forall (psi : state) x, supp qs x psi -> forall z,
      den (s_qft S hp qs false false) psi z
      = kpow krs2 (length qs) * kpow (w (length qs)) (val qs x * val (rev qs) z) * psi (put qs x z).
  Proof.
    intros Hnd psi x Hs z. unfold s_qft. rewrite app_nil_r. apply rot_dft; assumption.
  Qed.
End QftProofs.

(* ---------------- interpretation of the Python-level list; inverse ---------------- *)
Section QftInterp.
  Variable S : KS.
  Variable hp : nat -> A S.
  Notation interp_all := (interp_all S qang (ang_of S hp)).
  Notation interp := (interp S qang (ang_of S hp)).
  Notation den := (den S).

  Lemma interp_all_cons g r :
    interp_all (g :: r) = match interp g, interp_all r with Some G, Some R => Some (G :: R) | _, _ => None end.
  Proof. reflexivity. Qed.

  Lemma interp_gH t : interp (gH t) = Some (sH S (zn t)).
  Proof. reflexivity. Qed.
  Lemma interp_gCPHASE neg c t k : interp (gCPHASE neg c t k) = Some (sCP S (fam S hp neg) (zn c) (zn t) k).
  Proof. destruct neg; reflexivity. Qed.
  Lemma interp_gSWAP a b : interp (gSWAP a b) = Some (sSWAP S (zn a) (zn b)).
  Proof. reflexivity. Qed.

  Lemma interp_cphases neg t rest : forall k,
    interp_all (cphases neg t rest k) = Some (s_cphases S (fam S hp neg) (zn t) (map zn rest) k).
  Proof.
    induction rest as [|c r IH]; intro k; [reflexivity|].
    simpl cphases. simpl map. simpl s_cphases.
    apply (interp_all_app S qang (ang_of S hp)); [apply IH|].
    rewrite interp_all_cons, interp_gCPHASE. reflexivity.
  Qed.

  Lemma interp_rot_rev neg l : interp_all (rot_rev neg l) = Some (s_rot_rev S (fam S hp neg) (map zn l)).
  Proof.
    induction l as [|t rest IH]; [reflexivity|].
    simpl rot_rev. simpl map. simpl s_rot_rev.
    rewrite interp_all_cons, interp_gH.
    pose proof (interp_all_app S qang (ang_of S hp) _ _ _ _ (interp_cphases neg t rest 1) IH) as H.
    unfold qgate in *. rewrite H. reflexivity.
  Qed.

  Lemma interp_swap_list ps :
    interp_all (map (fun p => gSWAP (fst p) (snd p)) ps)
    = Some (map (fun p => sSWAP S (fst p) (snd p)) (map (fun p => (zn (fst p), zn (snd p))) ps)).
  Proof.
    induction ps as [|p r IH]; [reflexivity|].
    simpl map. rewrite interp_all_cons, interp_gSWAP, IH. reflexivity.
  Qed.

  Lemma interp_swaps qs : interp_all (swap_registers qs) = Some (s_swaps S (map zn qs)).
  Proof. unfold swap_registers, s_swaps. rewrite swap_pairs_map. apply interp_swap_list. Qed.

  (* the gate list of get_qft_circuit is interpreted as the semantic circuit, for every list *)
  Theorem interp_qft qs inv swap :
    interp_all (qft_gates qs inv swap) = Some (s_qft S (fam S hp inv) (map zn qs) inv swap).
  Proof.
    unfold qft_gates, s_qft, qft_rotations, s_rot. rewrite <- map_rev.
    assert (Hsw : interp_all (if swap then swap_registers qs else [])
                  = Some (if swap then s_swaps S (map zn qs) else [])).
    { destruct swap; [apply interp_swaps | reflexivity]. }
    destruct inv.
    - apply (interp_all_app S qang (ang_of S hp)); [exact Hsw|].
      apply (interp_all_rev S qang (ang_of S hp)). apply interp_rot_rev.
    - apply (interp_all_app S qang (ang_of S hp)); [apply interp_rot_rev | exact Hsw].
  Qed.

  (* ---- inverse ---- *)
  Lemma gate_inv_cphases a t rest : forall k,
    map (gate_inv S) (s_cphases S a t rest k) = s_cphases S (fun j => aopp (a j)) t rest k.
  Proof.
    induction rest as [|c r IH]; intro k; [reflexivity|].
    simpl s_cphases. rewrite map_app, IH. reflexivity.
  Qed.

  Lemma gate_inv_rot a L : map (gate_inv S) (s_rot_rev S a L) = s_rot_rev S (fun j => aopp (a j)) L.
  Proof.
    induction L as [|t rest IH]; [reflexivity|].
    simpl s_rot_rev. simpl map. rewrite map_app, gate_inv_cphases, IH. reflexivity.
  Qed.

  Lemma gate_inv_swaps (ps : list (N * N)) :
    map (gate_inv S) (map (fun p => sSWAP S (fst p) (snd p)) ps) = map (fun p => sSWAP S (fst p) (snd p)) ps.
  Proof. induction ps as [|p r IH]; [reflexivity|]. simpl. rewrite IH. reflexivity. Qed.

  Lemma wf_cphases a t rest : ~ In t rest -> forall k, Forall (gate_wf S) (s_cphases S a t rest k).
  Proof.
    induction rest as [|c r IH]; intros Ht k; [constructor|].
    simpl s_cphases. apply Forall_app. split.
    - apply IH. intro G. apply Ht. right. exact G.
    - constructor; [|constructor]. intros q Hq Hc. simpl in Hq, Hc.
      destruct Hq as [<-|[]]. destruct Hc as [E|[]]. apply Ht. left. exact E.
  Qed.

  Lemma wf_rot a L : NoDup L -> Forall (gate_wf S) (s_rot_rev S a L).
  Proof.
    induction L as [|t rest IH]; intro Hnd; [constructor|].
    inversion Hnd; subst. simpl s_rot_rev. constructor.
    - intros q Hq Hc. destruct Hc.
    - apply Forall_app. split; [apply wf_cphases; assumption | apply IH; assumption].
  Qed.

  Lemma wf_swaps (ps : list (N * N)) : Forall (gate_wf S) (map (fun p => sSWAP S (fst p) (snd p)) ps).
  Proof. induction ps as [|p r IH]; constructor; [intros q Hq Hc; destruct Hc | exact IH]. Qed.

  (* a list of gates on pairwise disjoint qubit sets denotes the same operation in reversed order *)
  Lemma den_rev_disjoint (c : circuit S) :
    ForallOrdPairs (fun g h => disjoint (State.gate_qubits S g) (State.gate_qubits S h)) c ->
    forall psi, den (rev c) psi = den c psi.
  Proof.
    induction 1 as [|g r Hg Hr IH]; intro psi; [reflexivity|].
    simpl rev. rewrite den_app, den_cons, den_nil, IH, den_cons.
    symmetry. apply den_gate_comm_circuit. exact Hg.
  Qed.

  Lemma swaps_disjoint (qs : list N) :
    NoDup qs ->
    ForallOrdPairs (fun g h => disjoint (State.gate_qubits S g) (State.gate_qubits S h)) (s_swaps S qs).
  Proof.
    induction qs as [| a | a mid b IH] using ends_ind; intro Hnd; unfold s_swaps.
    - constructor.
    - constructor.
    - rewrite swap_pairs_ends. simpl map.
      inversion Hnd as [|a' l' Ha Hnd']; subst.
      apply NoDup_remove in Hnd'. rewrite app_nil_r in Hnd'. destruct Hnd' as [Hmid Hb].
      assert (Ham : ~ In a mid). { intro G. apply Ha. apply in_or_app. left. exact G. }
      constructor; [|apply IH; exact Hmid].
      apply Forall_forall. intros h Hh. apply in_map_iff in Hh. destruct Hh as [[p q] [<- Hpq]].
      apply swap_pairs_in in Hpq. destruct Hpq as [Hp Hq].
      intros u Hu Hv. simpl in Hu, Hv.
      destruct Hu as [<-|[<-|[]]]; destruct Hv as [<-|[<-|[]]]; contradiction.
  Qed.

  (* the inverse=True circuit is the two-sided inverse of the forward circuit, on every state *)
  Theorem qft_inverse (qs : list N) (swap : bool) :
    NoDup qs ->
    (forall psi, den (s_qft S (fam S hp true) qs true swap) (den (s_qft S (fam S hp false) qs false swap) psi) = psi)
    /\ (forall psi, den (s_qft S (fam S hp false) qs false swap) (den (s_qft S (fam S hp true) qs true swap) psi) = psi).
  Proof.
    intro Hnd.
    set (F := s_qft S (fam S hp false) qs false swap).
    set (I := s_qft S (fam S hp true) qs true swap).
    set (SW := if swap then s_swaps S qs else @nil (gate S)).
    assert (HF : F = s_rot S (fam S hp false) qs ++ SW) by reflexivity.
    assert (HI : I = SW ++ rev (s_rot S (fam S hp true) qs)) by reflexivity.
    assert (Hinv : circuit_inv S F = rev SW ++ rev (s_rot S (fam S hp true) qs)).
    { unfold circuit_inv. rewrite HF, rev_app_distr, map_app. f_equal.
      - unfold SW. destruct swap; [|reflexivity]. unfold s_swaps. rewrite map_rev, gate_inv_swaps. reflexivity.
      - rewrite map_rev. unfold s_rot. rewrite gate_inv_rot. reflexivity. }
    assert (Hsw : forall psi, den (rev SW) psi = den SW psi).
    { unfold SW. destruct swap; [|reflexivity]. apply den_rev_disjoint. apply swaps_disjoint. exact Hnd. }
    assert (Hden : forall psi, den I psi = den (circuit_inv S F) psi).
    { intro psi. rewrite Hinv, HI, !den_app, Hsw. reflexivity. }
    assert (Hwf : Forall (gate_wf S) F).
    { rewrite HF. apply Forall_app. split.
      - unfold s_rot. apply wf_rot. apply NoDup_rev. exact Hnd.
      - unfold SW. destruct swap; [apply wf_swaps | constructor]. }
    split; intro psi.
    - rewrite Hden. apply circuit_inv_l. exact Hwf.
    - rewrite Hden. apply circuit_inv_r. exact Hwf.
  Qed.
End QftInterp.

(* ---------------- the list of Circuit.inverse ---------------- *)
Section QftInverseList.
  Variable T : tables.
  Hypothesis T_H : smem "H" (invertible T) = true.
  Hypothesis T_CPHASE : smem "CPHASE" (invertible T) = true.
  Hypothesis T_SWAP : smem "SWAP" (invertible T) = true.

  (* Gate.inverse over the dyadic angles: -pi/2 and -pi/4 for S and T *)
  Definition qinverse : qgate -> res qgate := gate_inverse qang qang_opp (QA true 1) (QA true 2) T.

  Lemma mapM_app {X Y} (f : X -> res Y) a b a' b' :
    mapM f a = Ok a' -> mapM f b = Ok b' -> mapM f (a ++ b) = Ok (a' ++ b').
  Proof.
    revert a'. induction a as [|x r IH]; simpl; intros a' Ha Hb.
    - inversion Ha; subst. exact Hb.
    - destruct (f x) as [y|]; simpl in *; [|discriminate].
      destruct (mapM f r) as [r'|] eqn:Hr; simpl in *; [|discriminate].
      inversion Ha; subst. rewrite (IH r' eq_refl Hb). reflexivity.
  Qed.

  Lemma mapM_rev {X Y} (f : X -> res Y) l l' : mapM f l = Ok l' -> mapM f (rev l) = Ok (rev l').
  Proof.
    revert l'. induction l as [|x r IH]; simpl; intros l' H.
    - inversion H; reflexivity.
    - destruct (f x) as [y|] eqn:Hx; simpl in *; [|discriminate].
      destruct (mapM f r) as [r'|] eqn:Hr; simpl in *; [|discriminate].
      inversion H; subst. simpl rev. apply mapM_app; [apply IH; reflexivity|].
      simpl. rewrite Hx. reflexivity.
  Qed.

  Lemma qinverse_H t : qinverse (gH t) = Ok (gH t).
  Proof. unfold qinverse, gate_inverse, gH; simpl. rewrite T_H. reflexivity. Qed.
  Lemma qinverse_CPHASE c t k : qinverse (gCPHASE false c t k) = Ok (gCPHASE true c t k).
  Proof. unfold qinverse, gate_inverse, gCPHASE; simpl. rewrite T_CPHASE. reflexivity. Qed.
  Lemma qinverse_SWAP a b : qinverse (gSWAP a b) = Ok (gSWAP a b).
  Proof. unfold qinverse, gate_inverse, gSWAP; simpl. rewrite T_SWAP. reflexivity. Qed.

  Lemma qinverse_cphases t rest : forall k, mapM qinverse (cphases false t rest k) = Ok (cphases true t rest k).
  Proof.
    induction rest as [|c r IH]; intro k; [reflexivity|].
    simpl cphases. apply mapM_app; [apply IH|]. simpl. rewrite qinverse_CPHASE. reflexivity.
  Qed.

  Lemma qinverse_rot l : mapM qinverse (rot_rev false l) = Ok (rot_rev true l).
  Proof.
    induction l as [|t rest IH]; [reflexivity|].
    simpl rot_rev. change (gH t :: cphases false t rest 1 ++ rot_rev false rest)
      with ([gH t] ++ (cphases false t rest 1 ++ rot_rev false rest)).
    change (gH t :: cphases true t rest 1 ++ rot_rev true rest)
      with ([gH t] ++ (cphases true t rest 1 ++ rot_rev true rest)).
    apply mapM_app; [simpl; rewrite qinverse_H; reflexivity|].
    apply mapM_app; [apply qinverse_cphases | exact IH].
  Qed.

  Lemma qinverse_swaps qs : mapM qinverse (swap_registers qs) = Ok (swap_registers qs).
  Proof.
    unfold swap_registers. induction (swap_pairs qs) as [|p r IH]; [reflexivity|].
    simpl. rewrite qinverse_SWAP. simpl. rewrite IH. reflexivity.
  Qed.

  (* Circuit.inverse of the forward QFT (gates reversed, each inverted by Gate.inverse) is the
     inverse=True list except that the swap layer appears in reversed order *)
  Theorem qft_inverse_list qs swap :
    mapM qinverse (rev (qft_gates qs false swap))
    = Ok ((if swap then rev (swap_registers qs) else []) ++ rev (qft_rotations true qs))
    /\ qft_gates qs true swap = (if swap then swap_registers qs else []) ++ rev (qft_rotations true qs).
  Proof.
    split; [|reflexivity].
    unfold qft_gates. rewrite rev_app_distr. apply mapM_app.
    - destruct swap; [|reflexivity]. apply mapM_rev. apply qinverse_swaps.
    - apply mapM_rev. unfold qft_rotations. apply qinverse_rot.
  Qed.
End QftInverseList.

(* ---------------- validity of the argument gives distinct qubits ---------------- *)
Lemma zmem_in z l : zmem z l = true <-> In z l.
Proof.
  induction l as [|y r IH]; simpl; [split; [discriminate | contradiction]|].
  rewrite orb_true_iff, IH, Z.eqb_eq. split; intros [H|H]; auto.
Qed.

Lemma qubits_ok_nodup qs : qubits_ok qs = true -> NoDup (map zn qs).
Proof.
  unfold qubits_ok. rewrite andb_true_iff. intros [Hpos Hnd].
  induction qs as [|a r IH]; simpl in *; [constructor|].
  apply andb_true_iff in Hpos. destruct Hpos as [Ha Hr].
  apply andb_true_iff in Hnd. destruct Hnd as [Hna Hndr].
  constructor; [|apply IH; assumption].
  intro Hin. apply in_map_iff in Hin. destruct Hin as [b [Hb Hbin]].
  assert (Hbpos : (0 <= b)%Z).
  { rewrite forallb_forall in Hr. apply Z.leb_le. apply Hr. exact Hbin. }
  apply Z.leb_le in Ha. unfold zn in Hb. assert (b = a) by lia. subst b.
  apply negb_true_iff in Hna. apply zmem_in in Hbin. congruence.
Qed.

(* the model of get_qft_circuit (Python level) is the DFT: every accepted argument, default swap *)
Section QftModel.
  Variable S : KS.
  Variable hp : nat -> A S.
  Hypothesis hp_0 : hp 0 = api.
  Hypothesis hp_S : forall k, aadd (hp (Datatypes.S k)) (hp (Datatypes.S k)) = hp k.

  Theorem qft_model_dft (a : qubits_arg) (gs : list qgate) :
    qft_circuit a false true = Ok gs ->
    exists C, interp_all S qang (ang_of S hp) gs = Some C /\
      let qs := map zn (qubit_list a) in
      forall (psi : state S) x, supp S qs x psi -> forall z,
        den S C psi z = kmul (kmul (kpow S krs2 (length qs)) (kpow S (w S hp (length qs)) (val qs x * val qs z)))
                             (psi (put qs x z)).
  Proof.
    unfold qft_circuit. destruct (qubits_ok (qubit_list a)) eqn:Hok; [|discriminate].
    intro H. inversion H; subst gs; clear H.
    exists (s_qft S (fam S hp false) (map zn (qubit_list a)) false true).
    split; [exact (interp_qft S hp (qubit_list a) false true)|].
    cbv zeta. intros psi x Hs z.
    apply (qft_dft S hp hp_0 hp_S (map zn (qubit_list a)) (qubits_ok_nodup _ Hok) psi x Hs z).
  Qed.

  Theorem qft_model_inverse (a : qubits_arg) (swap : bool) (gf gi : list qgate) :
    qft_circuit a false swap = Ok gf -> qft_circuit a true swap = Ok gi ->
    exists F I, interp_all S qang (ang_of S hp) gf = Some F /\ interp_all S qang (ang_of S hp) gi = Some I
                /\ (forall psi, den S I (den S F psi) = psi) /\ (forall psi, den S F (den S I psi) = psi).
  Proof.
    unfold qft_circuit. destruct (qubits_ok (qubit_list a)) eqn:Hok; [|discriminate].
    intros H1 H2. inversion H1; inversion H2; subst; clear H1 H2.
    exists (s_qft S (fam S hp false) (map zn (qubit_list a)) false swap),
           (s_qft S (fam S hp true) (map zn (qubit_list a)) true swap).
    split; [exact (interp_qft S hp (qubit_list a) false swap)|]. split; [exact (interp_qft S hp (qubit_list a) true swap)|].
    apply qft_inverse. apply qubits_ok_nodup. exact Hok.
  Qed.
End QftModel.
