(* DecompProofs.v — lemmas about the models of Decomp.v (property C15).  No axioms. *)
From Coq Require Import ZArith String Bool Arith Ring Lia Permutation List.
From Tangelo Require Import Chem.Decomp.
Import ListNotations.
Open Scope list_scope.

(* ------------------------------------------------------------------ list facts (before any Section) *)
Lemma mapM_ok_length : forall {X Y} (f : X -> res Y) l r, mapM f l = Ok r -> length r = length l.
Proof.
  induction l as [|x l IH]; simpl; intros r H.
  - inversion H; reflexivity.
  - destruct (f x) as [y|e]; simpl in H; [|discriminate].
    destruct (mapM f l) as [ys|e]; simpl in H; [|discriminate].
    inversion H; subst; simpl; f_equal; apply IH; reflexivity.
Qed.

Lemma mapM_app : forall {X Y} (f : X -> res Y) a b r,
  mapM f (a ++ b) = Ok r ->
  exists ra rb, mapM f a = Ok ra /\ mapM f b = Ok rb /\ r = ra ++ rb.
Proof.
  induction a as [|x a IH]; simpl; intros b r H.
  - exists [], r; auto.
  - destruct (f x) as [y|e]; simpl in *; [|discriminate].
    destruct (mapM f (a ++ b)) as [ys|e] eqn:E; simpl in H; [|discriminate].
    inversion H; subst. destruct (IH _ _ E) as (ra & rb & Ha & Hb & Hr).
    exists (y :: ra), rb. rewrite Ha; simpl. subst; auto.
Qed.

Lemma mapM_ext_ok : forall {X Y} (f g : X -> res Y) l,
  (forall x, In x l -> f x = g x) -> mapM f l = mapM g l.
Proof.
  induction l as [|x l IH]; simpl; intros H; [reflexivity|].
  rewrite (H x (or_introl eq_refl)). rewrite IH; auto.
Qed.

Lemma nodup_app_intro : forall {X} (a b : list X),
  NoDup a -> NoDup b -> (forall x, In x a -> ~ In x b) -> NoDup (a ++ b).
Proof.
  induction a as [|x a IH]; simpl; intros b Ha Hb Hd; [assumption|].
  inversion Ha; subst. constructor.
  - rewrite in_app_iff. intros [H|H]; [contradiction|]. apply (Hd x); auto.
  - apply IH; auto.
Qed.

Lemma nodup_app_inv : forall {X} (a b : list X),
  NoDup (a ++ b) -> NoDup a /\ NoDup b /\ (forall x, In x a -> ~ In x b).
Proof.
  induction a as [|x a IH]; simpl; intros b H.
  - repeat split; auto. constructor.
  - inversion H; subst. destruct (IH _ H3) as (Ha & Hb & Hd).
    repeat split; auto.
    + constructor; auto. intro Hx; apply H2; apply in_or_app; auto.
    + intros y [Hy|Hy] Hyb; subst.
      * apply H2; apply in_or_app; auto.
      * apply (Hd y); auto.
Qed.

Lemma NoDup_map_in : forall {X Y} (f : X -> Y) (l : list X),
  (forall x y, In x l -> In y l -> f x = f y -> x = y) -> NoDup l -> NoDup (map f l).
Proof.
  induction l as [|a l IH]; simpl; intros Hinj Hnd; [constructor|].
  inversion Hnd; subst. constructor.
  - intros Hin. apply in_map_iff in Hin. destruct Hin as (x & Hfx & Hx).
    assert (x = a) by (apply Hinj; auto). subst. contradiction.
  - apply IH; auto.
Qed.

Lemma nodup_length_NoDup : forall (l : list Z), length (nodup Z.eq_dec l) = length l -> NoDup l.
Proof.
  assert (Hle : forall l : list Z, length (nodup Z.eq_dec l) <= length l).
  { induction l as [|a l IH]; simpl; [lia|]. destruct (in_dec Z.eq_dec a l); simpl; lia. }
  induction l as [|a l IH]; simpl; intros H; [constructor|].
  destruct (in_dec Z.eq_dec a l) as [Hin|Hnin].
  - specialize (Hle l); lia.
  - simpl in H. constructor; auto.
Qed.

Lemma fold_max_ge : forall (r : list Z) (x y : Z), In y (x :: r) -> (y <= fold_left Z.max r x)%Z.
Proof.
  induction r as [|a r IH]; simpl; intros x y H.
  - destruct H as [H|[]]; subst; lia.
  - destruct H as [H|[H|H]]; subst.
    + specialize (IH (Z.max y a) (Z.max y a) (or_introl eq_refl)); lia.
    + specialize (IH (Z.max x y) (Z.max x y) (or_introl eq_refl)); lia.
    + apply IH; right; assumption.
Qed.

Lemma zsum_acc : forall l a, fold_left Z.add l a = (a + fold_left Z.add l 0)%Z.
Proof.
  induction l as [|x l IH]; simpl; intros a; [lia|].
  rewrite IH. rewrite (IH x). lia.
Qed.

(* ------------------------------------------------------------------ combinations *)
Inductive sublist {X} : list X -> list X -> Prop :=
| sub_nil : forall l, sublist [] l
| sub_cons : forall x c l, sublist c l -> sublist (x :: c) (x :: l)
| sub_skip : forall x c l, sublist c l -> sublist c (x :: l).

Lemma comb_0 : forall {X} (l : list X), combinations l 0 = [[]].
Proof. destruct l; reflexivity. Qed.

Lemma comb_in_sub : forall {X} (l : list X) k c, In c (combinations l k) -> sublist c l /\ length c = k.
Proof.
  induction l as [|x l IH]; intros k c H.
  - destruct k; simpl in H; [|contradiction]. destruct H as [H|[]]; subst. split; [constructor|reflexivity].
  - destruct k as [|k].
    + simpl in H. destruct H as [H|[]]; subst. split; [constructor|reflexivity].
    + simpl in H. apply in_app_or in H. destruct H as [H|H].
      * apply in_map_iff in H. destruct H as (c' & Hc & Hin); subst.
        destruct (IH _ _ Hin) as [Hs Hl]. split; [constructor; assumption|simpl; congruence].
      * destruct (IH _ _ H) as [Hs Hl]. split; [apply sub_skip; assumption|assumption].
Qed.

Lemma sub_in_comb : forall {X} (c l : list X), sublist c l -> In c (combinations l (length c)).
Proof.
  intros X c l H. induction H as [l|x c l H IH|x c l H IH].
  - simpl. rewrite comb_0. left; reflexivity.
  - simpl. apply in_or_app. left. apply in_map. assumption.
  - destruct c as [|y c].
    + simpl. left; reflexivity.
    + simpl. apply in_or_app. right. exact IH.
Qed.

Lemma sublist_nil_r : forall {X} (c : list X), sublist c [] -> c = [].
Proof. intros X c H. inversion H; reflexivity. Qed.

Lemma sublist_trans : forall {X} (b c : list X), sublist b c -> forall a, sublist a b -> sublist a c.
Proof.
  intros X b c H. induction H as [l|x b c H IH|x b c H IH]; intros a Ha.
  - apply sublist_nil_r in Ha; subst; constructor.
  - inversion Ha; subst.
    + constructor.
    + constructor; apply IH; assumption.
    + apply sub_skip; apply IH; assumption.
  - apply sub_skip; apply IH; assumption.
Qed.

Lemma sublist_in : forall {X} (c l : list X), sublist c l -> forall y, In y c -> In y l.
Proof.
  intros X c l H. induction H; intros y Hy.
  - destruct Hy.
  - destruct Hy as [Hy|Hy]; [left; assumption|right; auto].
  - right; auto.
Qed.

(* sub-tuples of a sub-tuple are sub-tuples *)
Lemma comb_trans : forall {X} (f t u : list X) k j,
  In t (combinations f k) -> In u (combinations t j) -> In u (combinations f j).
Proof.
  intros X f t u k j Ht Hu.
  destruct (comb_in_sub _ _ _ Ht) as [Hs _]. destruct (comb_in_sub _ _ _ Hu) as [Hs' Hl].
  subst j. apply sub_in_comb. eapply sublist_trans; eassumption.
Qed.

Lemma comb_NoDup : forall {X} (l : list X) k, NoDup l -> NoDup (combinations l k).
Proof.
  induction l as [|x l IH]; intros k Hnd.
  - destruct k; simpl; constructor; [intros []|constructor].
  - destruct k as [|k]; simpl.
    + constructor; [intros []|constructor].
    + inversion Hnd; subst. apply nodup_app_intro.
      * apply FinFun.Injective_map_NoDup; [|apply IH; assumption].
        intros a b Hab; inversion Hab; reflexivity.
      * apply IH; assumption.
      * intros c Hc Hc'. apply in_map_iff in Hc. destruct Hc as (c' & Hcc & _); subst.
        destruct (comb_in_sub _ _ _ Hc') as [Hs _].
        apply H1. eapply sublist_in; [eassumption|left; reflexivity].
Qed.

Lemma comb_levels_NoDup : forall {X} (f : list X) (ks : list nat),
  NoDup f -> NoDup ks -> NoDup (flat_map (combinations f) ks).
Proof.
  intros X f ks Hf. induction ks as [|k ks IH]; simpl; intros Hk; [constructor|].
  inversion Hk; subst. apply nodup_app_intro.
  - apply comb_NoDup; assumption.
  - apply IH; assumption.
  - intros c Hc Hc'. apply in_flat_map in Hc'. destruct Hc' as (k' & Hk' & Hin).
    destruct (comb_in_sub _ _ _ Hc) as [_ L1]. destruct (comb_in_sub _ _ _ Hin) as [_ L2].
    apply H1. congruence.
Qed.

(* ------------------------------------------------------------------ ring sums *)
Section RingFacts.
  Variable R : CRing.
  Add Ring rr : (r_th R).
  Local Open Scope R_scope.

  Fixpoint lsum (l : list R) : R := match l with [] => r0 | x :: r => x + lsum r end.

  Lemma fold_radd_acc : forall (l : list R) a, fold_left radd l a = a + lsum l.
  Proof. induction l as [|x l IH]; simpl; intros a; [ring|]. rewrite IH. ring. Qed.

  Lemma rsum_lsum : forall l : list R, rsum l = lsum l.
  Proof. intros l. unfold rsum. rewrite fold_radd_acc. ring. Qed.

  Lemma lsum_app : forall a b : list R, lsum (a ++ b) = lsum a + lsum b.
  Proof. induction a as [|x a IH]; simpl; intros b; [ring|]. rewrite IH; ring. Qed.

  Lemma lsum_perm : forall a b : list R, Permutation a b -> lsum a = lsum b.
  Proof.
    intros a b H. induction H; simpl; try ring.
    - rewrite IHPermutation; ring.
    - congruence.
  Qed.

  Lemma lsum_zero : forall l : list R, Forall (fun x => x = r0) l -> lsum l = r0.
  Proof. induction l as [|x l IH]; simpl; intros H; [reflexivity|]. inversion H; subst. rewrite IH; auto. ring. Qed.

  Lemma rsub_zero_eq : forall a b : R, a - b = r0 -> a = b.
  Proof. intros a b H. assert (E : a = (a - b) + b) by ring. rewrite E, H. ring. Qed.

  Lemma vec_eq : forall a b c a' b' c' : R, a = a' -> b = b' -> c = c' -> (a, b, c) = (a', b', c').
  Proof. intros; subst; reflexivity. Qed.

  (* ---------------------------------------------------------------- Link.relink *)
  Lemma link_on_bond : forall (g : geometry R) (li : link R) (s l : atom R),
    py_nth g (l_staying li) = Ok s -> py_nth g (l_leaving li) = Ok l ->
    exists c, relink li g = Ok [(l_species li, c)]
              /\ vsub c (snd s) = vscale (l_factor li) (vsub (snd l) (snd s)).
  Proof.
    intros g li s l Hs Hl. unfold relink. rewrite Hs, Hl. simpl.
    eexists; split; [reflexivity|].
    destruct s as [es [[s1 s2] s3]], l as [el [[l1 l2] l3]]; simpl.
    apply vec_eq; ring.
  Qed.

  (* the cap lies on the line through the two atoms, at [factor] times the bond length (squared) *)
  Lemma link_collinear_scaled : forall (g : geometry R) (li : link R) (s l : atom R) c sp,
    py_nth g (l_staying li) = Ok s -> py_nth g (l_leaving li) = Ok l ->
    relink li g = Ok [(sp, c)] ->
    vcross (vsub c (snd s)) (vsub (snd l) (snd s)) = vzero R
    /\ vdot (vsub c (snd s)) (vsub c (snd s))
       = l_factor li * l_factor li * vdot (vsub (snd l) (snd s)) (vsub (snd l) (snd s)).
  Proof.
    intros g li s l c sp Hs Hl. unfold relink. rewrite Hs, Hl. simpl. intros H; inversion H; subst; clear H.
    destruct s as [es [[s1 s2] s3]], l as [el [[l1 l2] l3]]; simpl.
    split; [apply vec_eq; ring|ring].
  Qed.

  Lemma relink_err_iff : forall (g : geometry R) (li : link R),
    (exists e, relink li g = Err e) <->
    (exists e, py_nth g (l_staying li) = Err e) \/ (exists e, py_nth g (l_leaving li) = Err e).
  Proof.
    intros g li. unfold relink.
    destruct (py_nth g (l_staying li)) as [s|e]; simpl.
    - destruct (py_nth g (l_leaving li)) as [l|e]; simpl.
      + split; [intros [e H]; discriminate|intros [[e H]|[e H]]; discriminate].
      + split; [intros _; right; eauto|intros _; eauto].
    - split; [intros _; left; eauto|intros _; eauto].
  Qed.

  (* ---------------------------------------------------------------- ONIOM energy sum *)
  Variable E : level -> geometry R -> R.

  Definition same_level (f : fragment R) : Prop :=
    match f_low f, f_high f with Some a, Some b => a = b | _, _ => False end.

  Lemma same_level_energy : forall f g, same_level f -> fragment_energy E f g = r0.
  Proof.
    intros f g H. unfold same_level in H. unfold fragment_energy.
    destruct (f_low f) as [a|]; [|contradiction]. destruct (f_high f) as [b|]; [|contradiction].
    subst. ring.
  Qed.

  Lemma simulate_lsum : forall fgs,
    oniom_simulate E fgs = lsum (map (fun fg => fragment_energy E (fst fg) (snd fg)) fgs).
  Proof. intros; unfold oniom_simulate; apply rsum_lsum. Qed.

  (* E_ONIOM with any number of model fragments treated at identical high and low level, the system
     fragment (low level only) at any position of the list: the low-level energy of the system *)
  Lemma oniom_telescopes_simulate : forall pre post sysf g L,
    f_low sysf = Some L -> f_high sysf = None ->
    Forall (fun fg => same_level (fst fg)) (pre ++ post) ->
    oniom_simulate E (pre ++ (sysf, g) :: post) = E L g.
  Proof.
    intros pre post sysf g L Hl Hh Hall. rewrite simulate_lsum, map_app, lsum_app. simpl.
    apply Forall_app in Hall. destruct Hall as [Hpre Hpost].
    rewrite (lsum_zero (map _ pre)), (lsum_zero (map _ post)).
    - unfold fragment_energy. rewrite Hl, Hh. ring.
    - apply Forall_map. eapply Forall_impl; [|exact Hpost]. intros [f g'] H; apply same_level_energy; exact H.
    - apply Forall_map. eapply Forall_impl; [|exact Hpre]. intros [f g'] H; apply same_level_energy; exact H.
  Qed.

  (* system at low level L + one model at (high H, low L) whose geometry has the same energies as the
     system's: the high-level energy *)
  Lemma oniom_model_is_system_simulate : forall sysf mf g gm L H,
    f_low sysf = Some L -> f_high sysf = None -> f_low mf = Some L -> f_high mf = Some H ->
    E L gm = E L g -> E H gm = E H g ->
    oniom_simulate E [(sysf, g); (mf, gm)] = E H g /\ oniom_simulate E [(mf, gm); (sysf, g)] = E H g.
  Proof.
    intros sysf mf g gm L H Hl Hh Ml Mh EL EH. rewrite !simulate_lsum. simpl.
    unfold fragment_energy. rewrite Hl, Hh, Ml, Mh, EL, EH. split; ring.
  Qed.

  (* fragments with identical levels can be dropped from the sum *)
  Lemma oniom_drop_same_level : forall (keep : fragment R -> bool) fgs,
    (forall fg, In fg fgs -> keep (fst fg) = false -> same_level (fst fg)) ->
    oniom_simulate E fgs = oniom_simulate E (filter (fun fg => keep (fst fg)) fgs).
  Proof.
    intros keep fgs. rewrite !simulate_lsum. induction fgs as [|fg fgs IH]; simpl; intros H; [reflexivity|].
    destruct (keep (fst fg)) eqn:Ek; simpl.
    - rewrite IH; auto.
    - rewrite same_level_energy; [|apply H; auto]. rewrite IH; auto. ring.
  Qed.

  (* ---------------------------------------------------------------- distribute_atoms *)
  Lemma distribute_repaired_geometry_unchanged : forall (sys : geometry R) frs d,
    distribute_repaired sys frs = Ok d -> fst d = sys /\ length (snd d) = length frs.
  Proof.
    intros sys frs d. unfold distribute_repaired.
    destruct (mapM _ frs) as [gs|e] eqn:Em; simpl; [|discriminate].
    intros H; inversion H; subst; simpl. split; [reflexivity|]. eapply mapM_ok_length; eassumption.
  Qed.

  Lemma add_links_own : forall links (sys : geometry R) g,
    add_links links sys (Own g) = do c <- caps_of links sys; Ok (sys, Own (g ++ c)).
  Proof.
    induction links as [|li r IH]; simpl; intros sys g.
    - rewrite app_nil_r; reflexivity.
    - destruct (relink li sys) as [caps|e]; simpl; [|reflexivity].
      rewrite IH. destruct (caps_of r sys) as [cs|e]; simpl; [|reflexivity].
      rewrite app_assoc; reflexivity.
  Qed.

  (* guard: no link is attached to a whole-system fragment *)
  Definition no_link_on_whole (f : fragment R) : Prop := f_sel f = SelAll -> f_links f = [].

  Lemma distribute_asis_loop_guarded : forall frs (sys : geometry R) acc,
    Forall no_link_on_whole frs ->
    (do r <- distribute_asis_loop frs sys acc; Ok (fst r, map (deref (fst r)) (snd r)))
    = (do gs <- mapM (fun f => do g <- select_repaired sys (f_sel f); do c <- caps_of (f_links f) sys; Ok (g ++ c)) frs;
       Ok (sys, map (deref sys) (rev acc) ++ gs)).
  Proof.
    induction frs as [|f frs IH]; simpl; intros sys acc Hg.
    - rewrite app_nil_r; reflexivity.
    - inversion Hg as [|f' frs' Hf Hrest]; subst.
      destruct (f_sel f) as [|n|l|] eqn:Es; simpl.
      + rewrite (Hf Es). simpl. rewrite IH by assumption.
        destruct (mapM _ frs) as [gs|e]; simpl; [|reflexivity].
        rewrite app_nil_r. simpl. rewrite map_app. simpl. rewrite <- app_assoc. reflexivity.
      + rewrite add_links_own. destruct (caps_of (f_links f) sys) as [c|e]; simpl; [|reflexivity].
        rewrite IH by assumption. destruct (mapM _ frs) as [gs|e]; simpl; [|reflexivity].
        rewrite map_app. simpl. rewrite <- app_assoc. reflexivity.
      + destruct (mapM (py_nth sys) l) as [g|e]; simpl; [|reflexivity].
        rewrite add_links_own. destruct (caps_of (f_links f) sys) as [c|e]; simpl; [|reflexivity].
        rewrite IH by assumption. destruct (mapM _ frs) as [gs|e]; simpl; [|reflexivity].
        rewrite map_app. simpl. rewrite <- app_assoc. reflexivity.
      + reflexivity.
  Qed.

  Lemma distribute_asis_eq_repaired_guarded : forall (sys : geometry R) frs,
    Forall no_link_on_whole frs -> distribute_asis sys frs = distribute_repaired sys frs.
  Proof.
    intros sys frs Hg. unfold distribute_asis, distribute_repaired.
    rewrite (distribute_asis_loop_guarded frs sys [] Hg). reflexivity.
  Qed.

  (* ---------------------------------------------------------------- whole pipeline *)
  Definition sys_fragment (L : level) : fragment R := mkFragment SelAll (Some L) None [].

  Lemma combine_app_eq : forall {X Y} (a a' : list X) (b b' : list Y),
    length a = length b -> combine (a ++ a') (b ++ b') = combine a b ++ combine a' b'.
  Proof.
    induction a as [|x a IH]; intros a' b b' H; destruct b as [|y b]; simpl in *; try discriminate; [reflexivity|].
    f_equal. apply IH. lia.
  Qed.

  Lemma oniom_repaired_telescopes : forall (sys : geometry R) pre post L e,
    Forall same_level (pre ++ post) ->
    oniom_repaired E sys (pre ++ sys_fragment L :: post) = Ok e -> e = E L sys.
  Proof.
    intros sys pre post L e Hall. unfold oniom_repaired, distribute_repaired.
    destruct (mapM _ (pre ++ sys_fragment L :: post)) as [gs|er] eqn:Em; simpl; [|discriminate].
    intros H; inversion H; subst; clear H.
    destruct (mapM_app _ _ _ _ Em) as (ra & rb & Ha & Hb & Hr).
    simpl in Hb. rewrite app_nil_r in Hb.
    destruct (mapM _ post) as [rp|er] eqn:Ep; simpl in Hb; [|discriminate].
    inversion Hb; subst; clear Hb.
    rewrite combine_app_eq by (symmetry; eapply mapM_ok_length; eassumption).
    simpl. apply oniom_telescopes_simulate; try reflexivity.
    apply Forall_app in Hall. destruct Hall as [Hpre Hpost]. apply Forall_app. split.
    - rewrite Forall_forall in *. intros [f g] Hin. simpl. apply Hpre. eapply in_combine_l; eassumption.
    - rewrite Forall_forall in *. intros [f g] Hin. simpl. apply Hpost. eapply in_combine_l; eassumption.
  Qed.

  Lemma oniom_asis_telescopes_guarded : forall (sys : geometry R) pre post L e,
    Forall same_level (pre ++ post) -> Forall no_link_on_whole (pre ++ post) ->
    oniom_asis E sys (pre ++ sys_fragment L :: post) = Ok e -> e = E L sys.
  Proof.
    intros sys pre post L e Hall Hg. unfold oniom_asis.
    rewrite distribute_asis_eq_repaired_guarded.
    - apply oniom_repaired_telescopes; assumption.
    - apply Forall_app in Hg. destruct Hg as [Hp Hq]. apply Forall_app. split; [assumption|].
      constructor; [|assumption]. intros _; reflexivity.
  Qed.

  (* the model fragment is the whole system (selected_atoms None, or the count of all atoms), no link *)
  Lemma py_prefix_all : forall {X} (l : list X), py_prefix l (Z.of_nat (length l)) = l.
  Proof.
    intros X l. unfold py_prefix. destruct (0 <=? Z.of_nat (length l))%Z eqn:Ez; [|apply Z.leb_gt in Ez; lia].
    rewrite Nat2Z.id. apply firstn_all.
  Qed.

  Lemma oniom_repaired_model_is_system : forall (sys : geometry R) L H s e,
    s = SelAll \/ s = SelCount (Z.of_nat (length sys)) ->
    oniom_repaired E sys [sys_fragment L; mkFragment s (Some L) (Some H) []] = Ok e -> e = E H sys.
  Proof.
    intros sys L H s e Hs. unfold oniom_repaired, distribute_repaired. simpl.
    assert (Hsel : select_repaired sys s = Ok sys).
    { destruct Hs; subst; simpl; [reflexivity|]. rewrite py_prefix_all; reflexivity. }
    rewrite Hsel. simpl. rewrite !app_nil_r. intros Heq; inversion Heq; subst; clear Heq.
    rewrite simulate_lsum. simpl. unfold fragment_energy; simpl. ring.
  Qed.

  (* index-list selection: the model geometry is the system's atoms in the listed order; with an energy
     function that does not depend on the atom order the identity still holds *)
  Lemma oniom_repaired_model_is_system_perm : forall (sys : geometry R) L H idx gm e,
    (forall lv a b, Permutation a b -> E lv a = E lv b) ->
    mapM (py_nth sys) idx = Ok gm -> Permutation gm sys ->
    oniom_repaired E sys [sys_fragment L; mkFragment (SelList idx) (Some L) (Some H) []] = Ok e -> e = E H sys.
  Proof.
    intros sys L H idx gm e Hinv Hm Hp. unfold oniom_repaired, distribute_repaired. simpl.
    rewrite Hm. simpl. rewrite !app_nil_r. intros Heq; inversion Heq; subst; clear Heq.
    rewrite simulate_lsum. simpl. unfold fragment_energy; simpl.
    rewrite (Hinv L gm sys Hp), (Hinv H gm sys Hp). ring.
  Qed.

  (* ---------------------------------------------------------------- DMET cost *)
  Lemma oneshot_cost_zero_iff : forall (ns : list R) (N : R), oneshot_cost ns N = r0 <-> rsum ns = N.
  Proof.
    intros ns N. unfold oneshot_cost. split; intros H.
    - apply rsub_zero_eq; assumption.
    - rewrite H; ring.
  Qed.
End RingFacts.

(* ------------------------------------------------------------------ DMET constructor bookkeeping *)
Lemma dmet_tail_ok : forall order counts nf sv op b,
  dmet_tail order counts nf sv op = Ok b ->
  b_order b = order /\ b_counts b = counts /\ Z.of_nat (length order) = zsum counts
  /\ b_nsolvers b = length counts /\ b_nfrozen b = length counts.
Proof.
  intros order counts nf sv op b. unfold dmet_tail.
  destruct (Z.eqb (Z.of_nat (length order)) (zsum counts)) eqn:Es; simpl; [|discriminate].
  apply Z.eqb_eq in Es.
  destruct (negb (Nat.eqb nf 0) && negb (Nat.eqb nf (length counts))); [discriminate|].
  destruct sv as [|n].
  - destruct op as [| |n']; try (intros H; inversion H; subst; simpl; auto).
    destruct (Nat.eqb n' 0); [inversion H; subst; simpl; auto|].
    destruct (Nat.eqb n' (length counts)) eqn:En; [|discriminate].
    inversion H; subst; simpl; auto.
  - destruct (Nat.eqb n (length counts)) eqn:En; [|discriminate].
    apply Nat.eqb_eq in En. subst n.
    destruct op as [| |n']; try (intros H; inversion H; subst; simpl; auto).
    destruct (Nat.eqb n' 0); [inversion H; subst; simpl; auto|].
    destruct (Nat.eqb n' (length counts)) eqn:En'; [|discriminate].
    inversion H; subst; simpl; auto.
Qed.

Lemma zmax_ge : forall l mx x, zmax l = Some mx -> In x l -> (x <= mx)%Z.
Proof.
  intros l mx x H Hin. destruct l as [|a r]; simpl in H; [discriminate|].
  inversion H; subst. apply fold_max_ge; assumption.
Qed.

Lemma dmet_repaired_permutation : forall natm fa nf sv op b,
  dmet_book_repaired natm fa nf sv op = Ok b ->
  Permutation (b_order b) (seq 0 natm) /\ zsum (b_counts b) = Z.of_nat natm
  /\ match fa with
     | FaCounts l => b_order b = seq 0 natm /\ b_counts b = l
     | FaNested l => b_order b = map Z.to_nat (concat l) /\ b_counts b = map (fun f => Z.of_nat (length f)) l
     end.
Proof.
  intros natm fa nf sv op b. unfold dmet_book_repaired. destruct fa as [l|l].
  - intros H. apply dmet_tail_ok in H. destruct H as (Ho & Hc & Hs & _).
    rewrite Ho, Hc. rewrite seq_length in Hs. repeat split; auto.
  - destruct (zmax (concat l)) as [mx|] eqn:Emx; [|discriminate].
    destruct (Z.of_nat natm <=? mx)%Z eqn:Ehi; [discriminate|].
    destruct (existsb (fun i => (i <? 0)%Z) (concat l)) eqn:Eneg; [discriminate|].
    destruct (Nat.eqb (length (concat l)) (length (nodup Z.eq_dec (concat l)))) eqn:End; simpl; [|discriminate].
    destruct (Nat.eqb (length (concat l)) natm) eqn:Elen; simpl; [|discriminate].
    intros H. apply dmet_tail_ok in H. destruct H as (Ho & Hc & Hs & _).
    apply Nat.eqb_eq in End. apply Nat.eqb_eq in Elen. apply Z.leb_gt in Ehi.
    assert (Hnd : NoDup (concat l)) by (apply nodup_length_NoDup; congruence).
    assert (Hrange : forall x, In x (concat l) -> (0 <= x < Z.of_nat natm)%Z).
    { intros x Hx. split.
      - destruct (x <? 0)%Z eqn:Ex; [|lia].
        assert (existsb (fun i => (i <? 0)%Z) (concat l) = true) by (apply existsb_exists; eauto). congruence.
      - pose proof (zmax_ge _ _ _ Emx Hx). lia. }
    rewrite Ho, Hc. rewrite map_length in Hs. split; [|split; [|split; reflexivity]].
    + apply NoDup_Permutation_bis.
      * apply NoDup_map_in; [|assumption].
        intros x y Hx Hy Hxy. apply Hrange in Hx. apply Hrange in Hy. lia.
      * rewrite map_length, seq_length. lia.
      * intros k Hk. apply in_map_iff in Hk. destruct Hk as (x & Hx & Hin); subst.
        apply Hrange in Hin. apply in_seq. lia.
    + rewrite <- Hs. lia.
Qed.

Lemma dmet_asis_eq_repaired_guarded : forall natm fa nf sv op,
  match fa with
  | FaCounts _ => True
  | FaNested l => Forall (fun i => (0 <= i)%Z) (concat l) /\ length (concat l) = natm
  end ->
  dmet_book_asis natm fa nf sv op = dmet_book_repaired natm fa nf sv op.
Proof.
  intros natm fa nf sv op Hg. destruct fa as [l|l]; [reflexivity|].
  destruct Hg as [Hpos Hlen]. unfold dmet_book_asis, dmet_book_repaired.
  destruct (zmax (concat l)) as [mx|] eqn:Emx; [|reflexivity].
  destruct (Z.of_nat natm <=? mx)%Z eqn:Ehi; [reflexivity|].
  assert (Eneg : existsb (fun i => (i <? 0)%Z) (concat l) = false).
  { destruct (existsb _ (concat l)) eqn:Ex; [|reflexivity].
    apply existsb_exists in Ex. destruct Ex as (x & Hx & Hlt).
    rewrite Forall_forall in Hpos. specialize (Hpos x Hx). lia. }
  rewrite Eneg.
  destruct (negb (Nat.eqb (length (concat l)) (length (nodup Z.eq_dec (concat l))))); [reflexivity|].
  rewrite Hlen, Nat.eqb_refl. simpl.
  assert (Hm : mapM (fun i => match py_index natm i with Some k => Ok k | None => Err IndexError end) (concat l)
               = Ok (map Z.to_nat (concat l))).
  { apply Z.leb_gt in Ehi.
    assert (Hr : forall x, In x (concat l) -> (0 <= x < Z.of_nat natm)%Z).
    { intros x Hx. rewrite Forall_forall in Hpos. split; [auto|]. pose proof (zmax_ge _ _ _ Emx Hx). lia. }
    clear - Hr. induction (concat l) as [|x r IH]; simpl; [reflexivity|].
    assert (Hx : (0 <= x < Z.of_nat natm)%Z) by (apply Hr; left; reflexivity).
    unfold py_index at 1. destruct (0 <=? x)%Z eqn:E0; [|lia]. destruct (x <? Z.of_nat natm)%Z eqn:E1; [|lia].
    simpl. rewrite IH; [reflexivity|]. intros y Hy; apply Hr; right; assumption. }
  rewrite Hm. reflexivity.
Qed.

(* ------------------------------------------------------------------ more list facts *)
Lemma flat_map_ext_in : forall {X Y} (f g : X -> list Y) l,
  (forall x, In x l -> f x = g x) -> flat_map f l = flat_map g l.
Proof.
  induction l as [|x l IH]; simpl; intros H; [reflexivity|].
  rewrite (H x (or_introl eq_refl)), IH; auto.
Qed.

Lemma comb_too_long : forall {X} (l : list X) k, length l < k -> combinations l k = [].
Proof.
  induction l as [|x l IH]; intros k H; destruct k as [|k]; simpl in *; try lia; [reflexivity|].
  rewrite (IH k) by lia. rewrite (IH (S k)) by lia. reflexivity.
Qed.

Lemma comb_full : forall {X} (l : list X), combinations l (length l) = [l].
Proof.
  induction l as [|x l IH]; simpl; [reflexivity|].
  rewrite IH. rewrite comb_too_long by lia. reflexivity.
Qed.

Lemma fold_max_seq' : forall m a b,
  fold_left Nat.max (seq a m) b = match m with 0 => b | S m' => Nat.max b (a + m') end.
Proof.
  induction m as [|m IH]; intros a b; [reflexivity|].
  simpl. rewrite IH. destruct m; lia.
Qed.
Lemma fold_max_seq : forall m a b, fold_left Nat.max (seq a (S m)) b = Nat.max b (a + m).
Proof. intros; apply (fold_max_seq' (S m)). Qed.

(* ================================================================== method of increments *)
Section MIProofs.
  Variable R : CRing.
  Add Ring rr2 : (r_th R).
  Variable Key : Type.
  Variable keyb : Key -> Key -> bool.
  Variable key_of : list nat -> Key.
  Hypothesis keyb_spec : forall a b, keyb a b = true <-> a = b.

  Local Notation dg := (dget Key keyb).
  Local Notation ds := (dset Key keyb).
  Local Notation mkey := (m_key R Key).
  Local Notation mtuple := (m_tuple R Key).
  Local Notation subk := (sub_keys Key key_of).
  Local Notation lget := (level_get R Key).

  Definition keys {V} (d : dict Key V) : list Key := map fst d.
  Definition val (d : dict Key R) (k : Key) : R := match dg d k with Some v => v | None => r0 end.

  Lemma keyb_refl : forall a, keyb a a = true.
  Proof. intros a; apply keyb_spec; reflexivity. Qed.
  Lemma keyb_neq : forall a b, a <> b -> keyb a b = false.
  Proof. intros a b H. destruct (keyb a b) eqn:E; [|reflexivity]. apply keyb_spec in E; contradiction. Qed.

  Lemma dget_dset_same : forall {V} (d : dict Key V) k v, dg (ds d k v) k = Some v.
  Proof.
    induction d as [|[k' v'] d IH]; simpl; intros k v.
    - rewrite keyb_refl; reflexivity.
    - destruct (keyb k' k) eqn:E; simpl; rewrite E; [reflexivity|apply IH].
  Qed.

  Lemma dget_dset_other : forall {V} (d : dict Key V) k v k', k' <> k -> dg (ds d k v) k' = dg d k'.
  Proof.
    induction d as [|[a va] d IH]; simpl; intros k v k' Hne.
    - rewrite keyb_neq; auto.
    - destruct (keyb a k) eqn:E; simpl.
      + apply keyb_spec in E; subst a. rewrite keyb_neq; auto.
      + destruct (keyb a k'); [reflexivity|apply IH; assumption].
  Qed.

  Lemma keys_dset_in : forall {V} (d : dict Key V) k v, In k (keys d) -> keys (ds d k v) = keys d.
  Proof.
    induction d as [|[a va] d IH]; simpl; intros k v Hin; [contradiction|].
    destruct (keyb a k) eqn:E; simpl; [reflexivity|].
    f_equal. apply IH. destruct Hin as [Hin|Hin]; [|assumption].
    subst a. rewrite keyb_refl in E; discriminate.
  Qed.

  Lemma keys_dset_fresh : forall {V} (d : dict Key V) k v, ~ In k (keys d) -> ds d k v = d ++ [(k, v)].
  Proof.
    induction d as [|[a va] d IH]; simpl; intros k v Hnin; [reflexivity|].
    destruct (keyb a k) eqn:E.
    - apply keyb_spec in E; subst a. exfalso; apply Hnin; left; reflexivity.
    - f_equal. apply IH. intros H; apply Hnin; right; assumption.
  Qed.

  Lemma dget_some_in : forall {V} (d : dict Key V) k v, dg d k = Some v -> In k (keys d).
  Proof.
    induction d as [|[a va] d IH]; simpl; intros k v H; [discriminate|].
    destruct (keyb a k) eqn:E; [left; apply keyb_spec; assumption|right; eapply IH; eassumption].
  Qed.

  Lemma in_dget : forall {V} (d : dict Key V) k, In k (keys d) -> exists v, dg d k = Some v.
  Proof.
    induction d as [|[a va] d IH]; simpl; intros k H; [contradiction|].
    destruct (keyb a k) eqn:E; [eauto|].
    destruct H as [H|H]; [subst; rewrite keyb_refl in E; discriminate|apply IH; assumption].
  Qed.

  Lemma dget_in_nodup : forall {V} (d : dict Key V) k v, NoDup (keys d) -> In (k, v) d -> dg d k = Some v.
  Proof.
    induction d as [|[a va] d IH]; simpl; intros k v Hnd Hin; [contradiction|].
    inversion Hnd; subst. destruct Hin as [Hin|Hin].
    - inversion Hin; subst. rewrite keyb_refl; reflexivity.
    - destruct (keyb a k) eqn:E.
      + apply keyb_spec in E; subst a. exfalso; apply H1. unfold keys. apply in_map_iff. exists (k, v); auto.
      + apply IH; assumption.
  Qed.

  Lemma values_by_keys : forall (d : dict Key R), NoDup (keys d) -> map snd d = map (val d) (keys d).
  Proof.
    induction d as [|[k v] d IH]; simpl; intros Hnd; [reflexivity|].
    inversion Hnd; subst. f_equal.
    - unfold val; simpl. rewrite keyb_refl; reflexivity.
    - rewrite IH by assumption. apply map_ext_in. intros k' Hk'.
      unfold val; simpl. rewrite keyb_neq; [reflexivity|]. intros Heq; subst; contradiction.
  Qed.

  Lemma dupdate_fresh : forall {V} (b a : dict Key V), NoDup (keys a ++ keys b) -> dupdate Key keyb a b = a ++ b.
  Proof.
    unfold dupdate. induction b as [|[k v] b IH]; simpl; intros a Hnd; [rewrite app_nil_r; reflexivity|].
    assert (Hfresh : ~ In k (keys a)).
    { destruct (nodup_app_inv _ _ Hnd) as (_ & _ & Hd). intros Hin. apply (Hd k Hin). left; reflexivity. }
    rewrite keys_dset_fresh by assumption. rewrite IH.
    - rewrite <- app_assoc; reflexivity.
    - unfold keys in *. rewrite map_app. simpl. rewrite <- app_assoc. simpl. exact Hnd.
  Qed.

  (* ---- the subtraction loop *)
  Lemma subtract_all_ok : forall subs (eps : dict Key R) k cur,
    dg eps k = Some cur ->
    (forall s, In s subs -> In s (keys eps) /\ s <> k) ->
    exists eps', subtract_all R Key keyb eps k subs = Ok eps'
                 /\ keys eps' = keys eps
                 /\ (forall k', k' <> k -> dg eps' k' = dg eps k')
                 /\ dg eps' k = Some (cur - lsum R (map (val eps) subs))%Rg.
  Proof.
    induction subs as [|s r IH]; intros eps k cur Hk Hs.
    - exists eps. simpl. repeat split; auto. rewrite Hk. f_equal. ring.
    - simpl. rewrite Hk. destruct (Hs s (or_introl eq_refl)) as [Hin Hne].
      destruct (in_dget _ _ Hin) as [e He]. rewrite He.
      assert (Hkin : In k (keys eps)) by (eapply dget_some_in; eassumption).
      destruct (IH (ds eps k (cur - e)%Rg) k (cur - e)%Rg) as (eps' & Hok & Hkeys & Hoth & Hval).
      + apply dget_dset_same.
      + intros s' Hs'. destruct (Hs s' (or_intror Hs')) as [Hin' Hne']. split; [|assumption].
        rewrite keys_dset_in; assumption.
      + exists eps'. split; [exact Hok|]. split; [rewrite Hkeys; apply keys_dset_in; assumption|].
        split.
        * intros k' Hk'. rewrite Hoth by assumption. apply dget_dset_other; assumption.
        * rewrite Hval. f_equal.
          assert (Hmap : map (val (ds eps k (cur - e)%Rg)) r = map (val eps) r).
          { apply map_ext_in. intros s' Hs'. destruct (Hs s' (or_intror Hs')) as [_ Hne'].
            unfold val. rewrite dget_dset_other by assumption. reflexivity. }
          rewrite Hmap. assert (Hv : val eps s = e) by (unfold val; rewrite He; reflexivity).
          rewrite Hv. ring.
  Qed.

  Lemma sub_keys_small : forall t n, n <= 1 -> subk t n = [].
  Proof. intros t n H. unfold sub_keys. replace (n - 1) with 0 by lia. reflexivity. Qed.

  Lemma mi_frag_ok : forall (fe : dict Key R) emf n (eps : dict Key R) m e,
    dg fe (mkey m) = Some e ->
    ~ In (mkey m) (keys eps) ->
    (forall s, In s (subk (mtuple m) n) -> In s (keys eps)) ->
    exists eps', mi_frag R Key keyb key_of fe emf n eps m = Ok eps'
                 /\ keys eps' = keys eps ++ [mkey m]
                 /\ (forall k', k' <> mkey m -> dg eps' k' = dg eps k')
                 /\ dg eps' (mkey m) = Some ((e - emf) - lsum R (map (val eps) (subk (mtuple m) n)))%Rg.
  Proof.
    intros fe emf n eps m e Hfe Hfresh Hsubs. unfold mi_frag. rewrite Hfe.
    assert (Hk1 : keys (ds eps (mkey m) (e - emf)%Rg) = keys eps ++ [mkey m]).
    { rewrite keys_dset_fresh by assumption. unfold keys. rewrite map_app. reflexivity. }
    destruct (Nat.ltb 1 n) eqn:En.
    - destruct (subtract_all_ok (subk (mtuple m) n) (ds eps (mkey m) (e - emf)%Rg) (mkey m) (e - emf)%Rg)
        as (eps' & Hok & Hkeys & Hoth & Hval).
      + apply dget_dset_same.
      + intros s Hs. specialize (Hsubs s Hs). split.
        * rewrite Hk1. apply in_or_app; left; assumption.
        * intros Heq; subst. contradiction.
      + exists eps'. split; [exact Hok|]. split; [rewrite Hkeys; exact Hk1|]. split.
        * intros k' Hk'. rewrite Hoth by assumption. apply dget_dset_other; assumption.
        * rewrite Hval. f_equal. f_equal. f_equal. apply map_ext_in. intros s Hs.
          unfold val. rewrite dget_dset_other; [reflexivity|].
          intros Heq; subst. apply Hfresh. apply Hsubs; assumption.
    - apply Nat.ltb_ge in En. rewrite sub_keys_small by assumption.
      exists (ds eps (mkey m) (e - emf)%Rg). split; [reflexivity|]. split; [exact Hk1|]. split.
      + intros k' Hk'. apply dget_dset_other; assumption.
      + rewrite dget_dset_same. f_equal. simpl. ring.
  Qed.

  Lemma mi_level_keys : forall ms (fe : dict Key R) emf n (eps : dict Key R),
    (forall m, In m ms -> exists e, dg fe (mkey m) = Some e) ->
    NoDup (keys eps ++ map mkey ms) ->
    (forall m s, In m ms -> In s (subk (mtuple m) n) -> In s (keys eps)) ->
    exists eps', mi_level R Key keyb key_of fe emf n eps ms = Ok eps' /\ keys eps' = keys eps ++ map mkey ms.
  Proof.
    induction ms as [|m ms IH]; intros fe emf n eps Hfe Hnd Hsubs.
    - exists eps. simpl. rewrite app_nil_r. auto.
    - simpl. destruct (Hfe m (or_introl eq_refl)) as [e He].
      assert (Hfresh : ~ In (mkey m) (keys eps)).
      { destruct (nodup_app_inv _ _ Hnd) as (_ & _ & Hd). intros Hin. apply (Hd _ Hin). left; reflexivity. }
      destruct (mi_frag_ok fe emf n eps m e He Hfresh) as (eps1 & Hok & Hkeys & _ & _).
      { intros s Hs. eapply Hsubs; [left; reflexivity|exact Hs]. }
      rewrite Hok. simpl.
      destruct (IH fe emf n eps1) as (eps' & Hok' & Hkeys').
      + intros m' Hm'. apply Hfe; right; assumption.
      + rewrite Hkeys. rewrite <- app_assoc. exact Hnd.
      + intros m' s Hm' Hs. rewrite Hkeys. apply in_or_app; left. eapply Hsubs; [right; exact Hm'|exact Hs].
      + exists eps'. split; [exact Hok'|]. rewrite Hkeys', Hkeys, <- app_assoc. reflexivity.
  Qed.

  (* "epsilon defined before use": every sub-tuple key a level needs was produced by an earlier level *)
  Fixpoint closed (fi : frag_info R Key) (known : list Key) (ns : list nat) : Prop :=
    match ns with
    | [] => True
    | n :: r => exists ms, lget fi n = Some ms
                           /\ (forall m s, In m ms -> In s (subk (mtuple m) n) -> In s known)
                           /\ closed fi (known ++ map mkey ms) r
    end.

  Definition lvl_keys (fi : frag_info R Key) (ns : list nat) : list Key :=
    flat_map (fun n => match lget fi n with Some ms => map mkey ms | None => [] end) ns.

  Lemma mi_levels_keys : forall (fi : frag_info R Key) (fe : dict Key R) emf ns (eps : dict Key R),
    (forall n ms m, lget fi n = Some ms -> In m ms -> exists e, dg fe (mkey m) = Some e) ->
    closed fi (keys eps) ns ->
    NoDup (keys eps ++ lvl_keys fi ns) ->
    exists eps', mi_levels R Key keyb key_of fi fe emf ns eps = Ok eps' /\ keys eps' = keys eps ++ lvl_keys fi ns.
  Proof.
    intros fi fe emf. induction ns as [|n ns IH]; intros eps Hfe Hcl Hnd.
    - exists eps. simpl. rewrite app_nil_r; auto.
    - simpl in Hcl. destruct Hcl as (ms & Hl & Hs & Hc).
      simpl. rewrite Hl. unfold lvl_keys in *. simpl in Hnd. rewrite Hl in Hnd. rewrite app_assoc in Hnd.
      destruct (mi_level_keys ms fe emf n eps) as (eps1 & Hok & Hkeys).
      + intros m Hm. eapply Hfe; eassumption.
      + destruct (nodup_app_inv _ _ Hnd) as (H1 & _ & _). exact H1.
      + exact Hs.
      + rewrite Hok. simpl. destruct (IH eps1) as (eps' & Hok' & Hkeys').
        * exact Hfe.
        * rewrite Hkeys. exact Hc.
        * rewrite Hkeys. exact Hnd.
        * exists eps'. split; [exact Hok'|]. rewrite Hkeys', Hkeys. rewrite <- app_assoc. reflexivity.
  Qed.

  Lemma mi_levels_app : forall (fi : frag_info R Key) (fe : dict Key R) emf a b (eps : dict Key R),
    mi_levels R Key keyb key_of fi fe emf (a ++ b) eps
    = (do e <- mi_levels R Key keyb key_of fi fe emf a eps; mi_levels R Key keyb key_of fi fe emf b e).
  Proof.
    intros fi fe emf. induction a as [|n a IH]; simpl; intros b eps; [reflexivity|].
    destruct (lget fi n) as [ms|]; [|reflexivity].
    destruct (mi_level R Key keyb key_of fe emf n eps ms) as [e|er]; simpl; [apply IH|reflexivity].
  Qed.

  (* the top level holds one fragment F whose proper sub-tuples are exactly the keys of all lower levels
     (in any order): the increments sum to E(F) *)
  Lemma mi_levels_top : forall (fi : frag_info R Key) (fe : dict Key R) emf lows n mF eF,
    (forall n ms m, lget fi n = Some ms -> In m ms -> exists e, dg fe (mkey m) = Some e) ->
    closed fi [] lows ->
    NoDup (lvl_keys fi lows ++ [mkey mF]) ->
    lget fi n = Some [mF] -> dg fe (mkey mF) = Some eF ->
    Permutation (subk (mtuple mF) n) (lvl_keys fi lows) ->
    exists eps, mi_levels R Key keyb key_of fi fe emf (lows ++ [n]) [] = Ok eps
                /\ (emf + rsum (map snd eps))%Rg = eF.
  Proof.
    intros fi fe emf lows n mF eF Hfe Hcl Hnd Hl HeF Hperm.
    destruct (nodup_app_inv _ _ Hnd) as (HndK & _ & Hdisj).
    destruct (mi_levels_keys fi fe emf lows [] Hfe Hcl) as (epsL & HokL & HkeysL); [exact HndK|].
    simpl in HkeysL.
    rewrite mi_levels_app, HokL. simpl. rewrite Hl. simpl.
    destruct (mi_frag_ok fe emf n epsL mF eF HeF) as (eps' & Hok & Hkeys & Hoth & Hval).
    - rewrite HkeysL. intros Hin. apply (Hdisj _ Hin). left; reflexivity.
    - intros s Hs. rewrite HkeysL. eapply Permutation_in; eassumption.
    - rewrite Hok. simpl. exists eps'. split; [reflexivity|].
      rewrite rsum_lsum. rewrite values_by_keys by (rewrite Hkeys, HkeysL; exact Hnd).
      rewrite Hkeys, map_app, lsum_app. simpl.
      assert (Hold : map (val eps') (keys epsL) = map (val epsL) (keys epsL)).
      { apply map_ext_in. intros k Hk. unfold val. rewrite Hoth; [reflexivity|].
        intros Heq; subst. rewrite HkeysL in Hk. apply (Hdisj _ Hk). left; reflexivity. }
      rewrite Hold. assert (Hv : val eps' (mkey mF) = ((eF - emf) - lsum R (map (val epsL) (subk (mtuple mF) n)))%Rg).
      { unfold val at 1. rewrite Hval. reflexivity. }
      rewrite Hv. rewrite (lsum_perm R _ _ (Permutation_map (val epsL) Hperm)). rewrite HkeysL. ring.
  Qed.

  (* ---- flattened / fragment_energies for tables with distinct keys *)
  Local Notation kv := (fun m : mfrag R Key => (mkey m, m)).
  Definition en (m : mfrag R Key) : R := match m_energy R Key m with Some e => e | None => r0 end.

  Lemma flattened_nodup : forall (fi : frag_info R Key),
    fi <> [] -> NoDup (map mkey (flat_map snd fi)) ->
    flattened R Key keyb fi = Ok (map kv (flat_map snd fi)).
  Proof.
    intros fi Hne Hnd. destruct fi as [|[n l] r]; [contradiction|]. unfold flattened. f_equal.
    simpl in Hnd. simpl flat_map.
    assert (Hgen : forall (q : frag_info R Key) (a : list (mfrag R Key)),
      NoDup (map mkey (a ++ flat_map snd q)) ->
      fold_left (fun a0 nl => dupdate Key keyb a0 (map kv (snd nl))) q (map kv a) = map kv (a ++ flat_map snd q)).
    { clear Hnd Hne. induction q as [|[n' l'] q IH]; simpl; intros a Hnd; [rewrite app_nil_r; reflexivity|].
      rewrite dupdate_fresh.
      - rewrite <- map_app. rewrite IH; rewrite <- app_assoc; [reflexivity|exact Hnd].
      - unfold keys. rewrite !map_map. simpl. rewrite <- map_app.
        rewrite app_assoc, map_app in Hnd. destruct (nodup_app_inv _ _ Hnd) as (H1 & _ & _). exact H1. }
    rewrite dupdate_fresh.
    - simpl. apply Hgen. exact Hnd.
    - simpl. unfold keys. rewrite map_map. simpl.
      rewrite map_app in Hnd. destruct (nodup_app_inv _ _ Hnd) as (H1 & _ & _). exact H1.
  Qed.

  Lemma energies_ok : forall (ms : list (mfrag R Key)),
    (forall m, In m ms -> m_energy R Key m <> None) ->
    mapM (fun km : Key * mfrag R Key => match m_energy R Key (snd km) with Some e => Ok (fst km, e) | None => Err ValueError end)
         (map kv ms) = Ok (map (fun m => (mkey m, en m)) ms).
  Proof.
    induction ms as [|m ms IH]; simpl; intros H; [reflexivity|].
    unfold en at 1. destruct (m_energy R Key m) as [e|] eqn:Ee; [|exfalso; apply (H m); auto].
    simpl. rewrite IH; [reflexivity|]. intros m' Hm'; apply H; right; assumption.
  Qed.

  Lemma lget_in : forall (fi : frag_info R Key) n ms, lget fi n = Some ms -> In (n, ms) fi.
  Proof.
    intros fi n ms. unfold level_get. destruct (find _ fi) as [[n' ms']|] eqn:Ef; [|discriminate].
    intros H; inversion H; subst. apply find_some in Ef. destruct Ef as [Hin Heq].
    simpl in Heq. apply Nat.eqb_eq in Heq. subst. exact Hin.
  Qed.

  Definition n_max (fi : frag_info R Key) : nat := fold_left Nat.max (map fst fi) 0.

  Lemma mi_summation_unfold : forall (fi : frag_info R Key) emf,
    fi <> [] -> NoDup (map mkey (flat_map snd fi)) ->
    (forall m, In m (flat_map snd fi) -> m_energy R Key m <> None) ->
    let fe := map (fun m => (mkey m, en m)) (flat_map snd fi) in
    mi_summation R Key keyb key_of fi emf None
    = (do eps <- mi_levels R Key keyb key_of fi fe emf (seq 1 (n_max fi)) []; Ok (emf + rsum (map snd eps))%Rg)
    /\ (forall n ms m, lget fi n = Some ms -> In m ms -> dg fe (mkey m) = Some (en m)).
  Proof.
    intros fi emf Hne Hnd Hen fe. split.
    - unfold mi_summation. rewrite flattened_nodup by assumption. simpl.
      rewrite energies_ok by assumption. simpl. reflexivity.
    - intros n ms m Hl Hm. apply dget_in_nodup.
      + unfold fe, keys. rewrite map_map. simpl. exact Hnd.
      + unfold fe. apply in_map_iff. exists m. split; [reflexivity|].
        apply in_flat_map. exists (n, ms). split; [apply lget_in; assumption|assumption].
  Qed.

  (* mi_epsilon_defined_before_use: a table that is closed under taking sub-tuples (each needed key
     produced by a lower level), with distinct keys and all energies present, never raises *)
  Lemma mi_summation_closed_ok : forall (fi : frag_info R Key) emf,
    fi <> [] -> NoDup (map mkey (flat_map snd fi)) ->
    (forall m, In m (flat_map snd fi) -> m_energy R Key m <> None) ->
    closed fi [] (seq 1 (n_max fi)) -> NoDup (lvl_keys fi (seq 1 (n_max fi))) ->
    exists v, mi_summation R Key keyb key_of fi emf None = Ok v.
  Proof.
    intros fi emf Hne Hnd Hen Hcl Hndl.
    destruct (mi_summation_unfold fi emf Hne Hnd Hen) as [Hu Hfe]. rewrite Hu.
    destruct (mi_levels_keys fi (map (fun m => (mkey m, en m)) (flat_map snd fi)) emf (seq 1 (n_max fi)) []) as (eps & Hok & _).
    - intros n ms m Hl Hm. eexists. eapply Hfe; eassumption.
    - exact Hcl.
    - exact Hndl.
    - rewrite Hok. simpl. eauto.
  Qed.

  (* general form of "full order = total": any key order inside the levels *)
  Lemma mi_summation_top : forall (fi : frag_info R Key) emf mF eF,
    NoDup (map mkey (flat_map snd fi)) ->
    (forall m, In m (flat_map snd fi) -> m_energy R Key m <> None) ->
    1 <= n_max fi ->
    closed fi [] (seq 1 (n_max fi - 1)) ->
    NoDup (lvl_keys fi (seq 1 (n_max fi - 1)) ++ [mkey mF]) ->
    lget fi (n_max fi) = Some [mF] -> m_energy R Key mF = Some eF ->
    Permutation (subk (mtuple mF) (n_max fi)) (lvl_keys fi (seq 1 (n_max fi - 1))) ->
    mi_summation R Key keyb key_of fi emf None = Ok eF.
  Proof.
    intros fi emf mF eF Hnd Hen Hn Hcl Hndl Hl HeF Hperm.
    assert (Hne : fi <> []) by (intros ->; discriminate).
    destruct (mi_summation_unfold fi emf Hne Hnd Hen) as [Hu Hfe]. rewrite Hu.
    assert (Hseq : seq 1 (n_max fi) = seq 1 (n_max fi - 1) ++ [n_max fi]).
    { replace (n_max fi) with (S (n_max fi - 1)) at 1 by lia. rewrite seq_S. f_equal. f_equal. lia. }
    rewrite Hseq.
    destruct (mi_levels_top fi (map (fun m => (mkey m, en m)) (flat_map snd fi)) emf
                (seq 1 (n_max fi - 1)) (n_max fi) mF eF) as (eps & Hok & Hsum); try assumption.
    - intros n ms m Hl' Hm. eexists. eapply Hfe; eassumption.
    - rewrite (Hfe _ _ mF Hl (or_introl eq_refl)). unfold en. rewrite HeF. reflexivity.
    - rewrite Hok. simpl. rewrite Hsum. reflexivity.
  Qed.

  (* ---- the complete table over distinct centres *)
  Hypothesis key_inj : forall s t, key_of s = key_of t -> s = t.

  Section Full.
    Variable cs : list nat.
    Variables En Corr : list nat -> R.
    Hypothesis cs_ne : cs <> [].
    Hypothesis cs_nd : NoDup cs.

    Local Notation mk := (fun t => mkMfrag R Key (key_of t) t (Some (En t)) (Corr t)).
    Local Notation FI := (full_info R Key key_of cs En Corr).

    Lemma full_frags : flat_map snd FI = map mk (flat_map (combinations cs) (seq 1 (length cs))).
    Proof.
      unfold full_info. generalize (seq 1 (length cs)). induction l as [|k l IH]; simpl; [reflexivity|].
      rewrite IH, map_app. reflexivity.
    Qed.

    Lemma full_keys_nodup : forall ks, NoDup ks -> NoDup (map key_of (flat_map (combinations cs) ks)).
    Proof.
      intros ks Hks. apply FinFun.Injective_map_NoDup; [exact key_inj|]. apply comb_levels_NoDup; assumption.
    Qed.

    Lemma full_nmax : n_max FI = length cs.
    Proof.
      unfold n_max, full_info. rewrite map_map. simpl. rewrite map_id.
      destruct (length cs) as [|m] eqn:El; [reflexivity|]. rewrite fold_max_seq. lia.
    Qed.

    Lemma full_lget : forall k, 1 <= k <= length cs -> lget FI k = Some (map mk (combinations cs k)).
    Proof.
      intros k Hk. unfold level_get, full_info.
      assert (Hin : In k (seq 1 (length cs))) by (apply in_seq; lia).
      revert Hin. generalize (seq 1 (length cs)). induction l as [|a l IH]; simpl; intros Hin; [contradiction|].
      destruct (Nat.eqb a k) eqn:Ea.
      - apply Nat.eqb_eq in Ea; subst; reflexivity.
      - apply IH. destruct Hin as [Hin|Hin]; [subst; rewrite Nat.eqb_refl in Ea; discriminate|assumption].
    Qed.

    Lemma full_lvl_keys : forall a m, 1 <= a -> a + m <= length cs + 1 ->
      lvl_keys FI (seq a m) = flat_map (fun j => map key_of (combinations cs j)) (seq a m).
    Proof.
      intros a m Ha Hm. unfold lvl_keys. apply flat_map_ext_in. intros j Hj. apply in_seq in Hj.
      rewrite full_lget by lia. rewrite map_map. reflexivity.
    Qed.

    Lemma full_closed : forall m a, 1 <= a -> a + m <= length cs + 1 ->
      closed FI (flat_map (fun j => map key_of (combinations cs j)) (seq 1 (a - 1))) (seq a m).
    Proof.
      induction m as [|m IH]; intros a Ha Hm; simpl; [exact I|].
      exists (map mk (combinations cs a)). split; [apply full_lget; lia|]. split.
      - intros mm s Hmm Hs. apply in_map_iff in Hmm. destruct Hmm as (t & Ht & Hin); subst mm. simpl in Hs.
        unfold sub_keys in Hs. apply in_flat_map in Hs. destruct Hs as (j & Hj & Hs).
        apply in_map_iff in Hs. destruct Hs as (u & Hu & Hin'); subst s.
        apply in_flat_map. exists j. split; [exact Hj|]. apply in_map. eapply comb_trans; eassumption.
      - rewrite map_map. cbn [m_key].
        replace (flat_map (fun j => map key_of (combinations cs j)) (seq 1 (a - 1)) ++ map (fun t => key_of t) (combinations cs a))
          with (flat_map (fun j => map key_of (combinations cs j)) (seq 1 a)).
        + specialize (IH (S a)). replace (S a - 1) with a in IH by lia. apply IH; lia.
        + replace a with (S (a - 1)) at 1 by lia. rewrite seq_S, flat_map_app. cbn [flat_map]. rewrite app_nil_r.
          replace (1 + (a - 1)) with a by lia. reflexivity.
    Qed.

    Lemma flat_map_map_comb : forall ks,
      flat_map (fun j => map key_of (combinations cs j)) ks = map key_of (flat_map (combinations cs) ks).
    Proof. induction ks as [|k ks IH]; simpl; [reflexivity|]. rewrite IH, map_app. reflexivity. Qed.

    Lemma mi_full_order_is_total : forall emf, mi_summation R Key keyb key_of FI emf None = Ok (En cs).
    Proof.
      intros emf.
      assert (Hlen : 1 <= length cs) by (destruct cs; [contradiction|simpl; lia]).
      apply (mi_summation_top FI emf (mk cs) (En cs)).
      - rewrite full_frags, map_map. simpl. apply full_keys_nodup. apply seq_NoDup.
      - rewrite full_frags. intros m Hm. apply in_map_iff in Hm. destruct Hm as (t & Ht & _); subst; simpl; discriminate.
      - rewrite full_nmax; exact Hlen.
      - rewrite full_nmax. apply (full_closed (length cs - 1) 1); lia.
      - rewrite full_nmax. rewrite full_lvl_keys by lia. simpl.
        rewrite flat_map_map_comb.
        replace [key_of cs] with (map key_of (flat_map (combinations cs) [length cs]))
          by (simpl; rewrite comb_full; reflexivity).
        rewrite <- map_app, <- flat_map_app. apply full_keys_nodup.
        replace (seq 1 (length cs - 1) ++ [length cs]) with (seq 1 (length cs)).
        + apply seq_NoDup.
        + replace (length cs) with (S (length cs - 1)) at 1 by lia. rewrite seq_S. f_equal. f_equal. lia.
      - rewrite full_nmax. rewrite full_lget by lia. rewrite comb_full. reflexivity.
      - reflexivity.
      - rewrite full_nmax. rewrite full_lvl_keys by lia. simpl. apply Permutation_refl.
    Qed.

    Lemma mi_full_closed_ok : closed FI [] (seq 1 (n_max FI)) /\ NoDup (lvl_keys FI (seq 1 (n_max FI))).
    Proof.
      rewrite full_nmax. split.
      - apply (full_closed (length cs) 1); lia.
      - rewrite full_lvl_keys by lia. rewrite flat_map_map_comb. apply full_keys_nodup. apply seq_NoDup.
    Qed.
  End Full.
End MIProofs.

(* a key type with decidable equality for which [key_of] is trivially injective: the tuple itself *)
Definition list_keyb (a b : list nat) : bool := if list_eq_dec Nat.eq_dec a b then true else false.
Lemma list_keyb_spec : forall a b, list_keyb a b = true <-> a = b.
Proof. intros a b. unfold list_keyb. destruct (list_eq_dec Nat.eq_dec a b); split; intros H; congruence. Qed.

(* ------------------------------------------------------------------ Python's str(tuple of ints) is injective *)
From Coq Require Import Ascii DecimalString Decimal DecimalNat DecimalFacts.
Section TupleStr.
Local Open Scope string_scope.
Lemma to_uint_nonnil : forall n, Nat.to_uint n <> Nil.
Proof.
  intros n H. pose proof (Unsigned.to_of (Nat.to_uint n)) as E. rewrite Unsigned.of_to in E.
  rewrite H in E. discriminate E.
Qed.

Lemma dec_nat_inj : forall a b, dec_nat a = dec_nat b -> a = b.
Proof.
  intros a b H. unfold dec_nat in H. apply (f_equal NilZero.uint_of_string) in H.
  rewrite !NilZero.usu in H by apply to_uint_nonnil. inversion H. apply Unsigned.to_uint_inj; assumption.
Qed.

Definition is_digit (c : ascii) : bool :=
  match c with
  | "0" | "1" | "2" | "3" | "4" | "5" | "6" | "7" | "8" | "9" => true
  | _ => false
  end%char.
Fixpoint all_digits (s : string) : bool :=
  match s with EmptyString => true | String c r => is_digit c && all_digits r end.

Lemma nilempty_digits : forall d, all_digits (NilEmpty.string_of_uint d) = true.
Proof. induction d; simpl; auto. Qed.

Lemma dec_nat_digits : forall n, all_digits (dec_nat n) = true /\ dec_nat n <> "".
Proof.
  intros n. unfold dec_nat. pose proof (to_uint_nonnil n) as Hn.
  destruct (Nat.to_uint n) eqn:E; try contradiction; simpl; (split; [apply nilempty_digits|discriminate]).
Qed.

(* a digit string followed by a string that starts with a non-digit splits uniquely *)
Lemma digits_split : forall d1 d2 c1 c2 r1 r2,
  all_digits d1 = true -> all_digits d2 = true -> is_digit c1 = false -> is_digit c2 = false ->
  d1 ++ String c1 r1 = d2 ++ String c2 r2 -> d1 = d2 /\ String c1 r1 = String c2 r2.
Proof.
  induction d1 as [|a d1 IH]; intros d2 c1 c2 r1 r2 H1 H2 N1 N2 H; destruct d2 as [|b d2]; simpl in *.
  - auto.
  - inversion H; subst. apply andb_true_iff in H2. destruct H2 as [Hb _]. congruence.
  - inversion H; subst. apply andb_true_iff in H1. destruct H1 as [Ha _]. congruence.
  - inversion H; subst. apply andb_true_iff in H1. apply andb_true_iff in H2.
    destruct (IH d2 c1 c2 r1 r2) as [E1 E2]; try tauto. subst; auto.
Qed.

Lemma app_assoc_s : forall a b c : string, (a ++ b) ++ c = a ++ (b ++ c).
Proof. induction a; simpl; intros; [reflexivity|rewrite IHa; reflexivity]. Qed.

Fixpoint rest (l : list nat) : string :=
  match l with [] => ")" | x :: r => ", " ++ dec_nat x ++ rest r end.

Lemma join_rest : forall l x, join_cs (map dec_nat (x :: l)) ++ ")" = dec_nat x ++ rest l.
Proof.
  induction l as [|y l IH]; intros x.
  - reflexivity.
  - change (join_cs (map dec_nat (x :: y :: l))) with (dec_nat x ++ ", " ++ join_cs (map dec_nat (y :: l))).
    rewrite !app_assoc_s. rewrite IH. reflexivity.
Qed.

Lemma tuple_str_cons2 : forall x y l, py_tuple_str (x :: y :: l) = "(" ++ dec_nat x ++ rest (y :: l).
Proof.
  intros x y l. unfold py_tuple_str. rewrite <- join_rest. reflexivity.
Qed.

Lemma rest_first : forall l, exists c r, rest l = String c r /\ is_digit c = false.
Proof. destruct l; simpl; eauto. Qed.

Lemma rest_inj : forall l l', rest l = rest l' -> l = l'.
Proof.
  induction l as [|a l IH]; intros l' H; destruct l' as [|b l']; simpl in H; try discriminate; [reflexivity|].
  inversion H as [H']. clear H.
  destruct (rest_first l) as (c1 & r1 & E1 & N1). destruct (rest_first l') as (c2 & r2 & E2 & N2).
  rewrite E1, E2 in H'.
  destruct (digits_split _ _ _ _ _ _ (proj1 (dec_nat_digits a)) (proj1 (dec_nat_digits b)) N1 N2 H') as [Ed Er].
  apply dec_nat_inj in Ed. subst. f_equal. apply IH. rewrite E1, E2. exact Er.
Qed.

Lemma dec_first : forall n, exists c r, dec_nat n = String c r /\ is_digit c = true.
Proof.
  intros n. destruct (dec_nat_digits n) as [Hd Hne]. destruct (dec_nat n) as [|c r]; [contradiction|].
  simpl in Hd. apply andb_true_iff in Hd. destruct Hd. eauto.
Qed.

Lemma py_tuple_str_inj : forall s t, py_tuple_str s = py_tuple_str t -> s = t.
Proof.
  intros s t H.
  destruct s as [|x [|x' s]]; destruct t as [|y [|y' t]]; try reflexivity;
    rewrite ?tuple_str_cons2 in H; simpl in H; inversion H as [H']; clear H.
  - destruct (dec_first y) as (c & r & E & D). rewrite E in H'. simpl in H'. inversion H'; subst. discriminate D.
  - destruct (dec_first y) as (c & r & E & D). rewrite E in H'. simpl in H'. inversion H'; subst. discriminate D.
  - destruct (dec_first x) as (c & r & E & D). rewrite E in H'. simpl in H'. inversion H'; subst. discriminate D.
  - destruct (digits_split (dec_nat x) (dec_nat y) "," "," ")" ")"
                (proj1 (dec_nat_digits x)) (proj1 (dec_nat_digits y)) eq_refl eq_refl H') as [Ed _].
    apply dec_nat_inj in Ed. subst; reflexivity.
  - destruct (digits_split (dec_nat x) (dec_nat y) "," "," ")" (" " ++ dec_nat y' ++ rest t)
                (proj1 (dec_nat_digits x)) (proj1 (dec_nat_digits y)) eq_refl eq_refl H') as [_ Er].
    inversion Er.
  - destruct (dec_first x) as (c & r & E & D). rewrite E in H'. simpl in H'. inversion H'; subst. discriminate D.
  - destruct (digits_split (dec_nat x) (dec_nat y) "," "," (" " ++ dec_nat x' ++ rest s) ")"
                (proj1 (dec_nat_digits x)) (proj1 (dec_nat_digits y)) eq_refl eq_refl H') as [_ Er].
    inversion Er.
  - destruct (digits_split (dec_nat x) (dec_nat y) "," "," (" " ++ dec_nat x' ++ rest s) (" " ++ dec_nat y' ++ rest t)
                (proj1 (dec_nat_digits x)) (proj1 (dec_nat_digits y)) eq_refl eq_refl H') as [Ed Er].
    apply dec_nat_inj in Ed. subst. f_equal.
    assert (Hr : rest (x' :: s) = rest (y' :: t)) by (simpl; inversion Er; reflexivity).
    apply rest_inj in Hr. exact Hr.
Qed.
End TupleStr.

(* ------------------------------------------------------------------ models parametrised by the regenerated source facts *)
Lemma first_failure_none : forall natm flat mx cs c,
  first_failure natm flat mx cs = None -> In c cs -> check_fails natm flat mx c = None.
Proof.
  induction cs as [|a cs IH]; simpl; intros c H Hin; [contradiction|].
  destruct (check_fails natm flat mx a) eqn:Ea; [discriminate|].
  destruct Hin as [Hin|Hin]; [subst; assumption|apply IH; assumption].
Qed.

Lemma existsb_check_in : forall c cs, existsb (dmet_check_eqb c) cs = true -> In c cs.
Proof.
  intros c cs H. apply existsb_exists in H. destruct H as (x & Hx & Heq).
  destruct c, x; simpl in Heq; try discriminate; assumption.
Qed.

Lemma mapM_py_index_range : forall natm (flat : list Z),
  (forall x, In x flat -> (0 <= x < Z.of_nat natm)%Z) ->
  mapM (fun i => match py_index natm i with Some k => Ok k | None => Err IndexError end) flat = Ok (map Z.to_nat flat).
Proof.
  intros natm flat Hr. induction flat as [|x r IH]; simpl; [reflexivity|].
  assert (Hx : (0 <= x < Z.of_nat natm)%Z) by (apply Hr; left; reflexivity).
  unfold py_index at 1. destruct (0 <=? x)%Z eqn:E0; [|lia]. destruct (x <? Z.of_nat natm)%Z eqn:E1; [|lia].
  simpl. rewrite IH; [reflexivity|]. intros y Hy; apply Hr; right; assumption.
Qed.

(* whenever the source's check chain contains the four tests, acceptance means: permutation, counts sum to natm *)
Lemma dmet_src_permutation : forall cs, checks_cover cs = true ->
  forall natm fa nf sv op b,
    dmet_book_src cs natm fa nf sv op = Ok b ->
    Permutation (b_order b) (seq 0 natm) /\ zsum (b_counts b) = Z.of_nat natm
    /\ match fa with
       | FaCounts l => b_order b = seq 0 natm /\ b_counts b = l
       | FaNested l => b_order b = map Z.to_nat (concat l) /\ b_counts b = map (fun f => Z.of_nat (length f)) l
       end.
Proof.
  intros cs Hc natm fa nf sv op b. unfold checks_cover in Hc.
  apply andb_true_iff in Hc. destruct Hc as [Hc Hcov]. apply andb_true_iff in Hc. destruct Hc as [Hc Honce].
  apply andb_true_iff in Hc. destruct Hc as [Hhi Hneg].
  apply existsb_check_in in Hhi. apply existsb_check_in in Hneg. apply existsb_check_in in Honce. apply existsb_check_in in Hcov.
  unfold dmet_book_src. destruct fa as [l|l].
  - intros H. apply dmet_tail_ok in H. destruct H as (Ho & Hcn & Hs & _).
    rewrite Ho, Hcn. rewrite seq_length in Hs. repeat split; auto.
  - destruct (zmax (concat l)) as [mx|] eqn:Emx; [|discriminate].
    destruct (first_failure natm (concat l) mx cs) as [e|] eqn:Eff; [discriminate|].
    pose proof (first_failure_none _ _ _ _ _ Eff Hhi) as F1. pose proof (first_failure_none _ _ _ _ _ Eff Hneg) as F2.
    pose proof (first_failure_none _ _ _ _ _ Eff Honce) as F3. pose proof (first_failure_none _ _ _ _ _ Eff Hcov) as F4.
    simpl in F1, F2, F3, F4.
    destruct (Z.of_nat natm <=? mx)%Z eqn:Ehi; [discriminate|].
    destruct (existsb (fun i => (i <? 0)%Z) (concat l)) eqn:Eneg; [discriminate|].
    destruct (Nat.eqb (length (concat l)) (length (nodup Z.eq_dec (concat l)))) eqn:End; simpl in F3; [|discriminate].
    destruct (Nat.eqb (length (concat l)) natm) eqn:Elen; simpl in F4; [|discriminate].
    apply Nat.eqb_eq in End. apply Nat.eqb_eq in Elen. apply Z.leb_gt in Ehi.
    assert (Hnd : NoDup (concat l)) by (apply nodup_length_NoDup; congruence).
    assert (Hrange : forall x, In x (concat l) -> (0 <= x < Z.of_nat natm)%Z).
    { intros x Hx. split.
      - destruct (x <? 0)%Z eqn:Ex; [|lia].
        assert (existsb (fun i => (i <? 0)%Z) (concat l) = true) by (apply existsb_exists; eauto). congruence.
      - pose proof (zmax_ge _ _ _ Emx Hx). lia. }
    rewrite (mapM_py_index_range natm (concat l) Hrange). simpl.
    intros H. apply dmet_tail_ok in H. destruct H as (Ho & Hcn & Hs & _).
    rewrite Ho, Hcn. rewrite map_length in Hs. split; [|split; [|split; reflexivity]].
    + apply NoDup_Permutation_bis.
      * apply NoDup_map_in; [|assumption].
        intros x y Hx Hy Hxy. apply Hrange in Hx. apply Hrange in Hy. lia.
      * rewrite map_length, seq_length. lia.
      * intros k Hk. apply in_map_iff in Hk. destruct Hk as (x & Hx & Hin); subst.
        apply Hrange in Hin. apply in_seq. lia.
    + rewrite <- Hs. lia.
Qed.

(* the chain of the original source is the as-is model *)
Lemma dmet_src_asis : forall natm fa nf sv op,
  dmet_book_src [ChkHigher; ChkOnce] natm fa nf sv op = dmet_book_asis natm fa nf sv op.
Proof.
  intros natm fa nf sv op. destruct fa as [l|l]; [reflexivity|]. unfold dmet_book_src, dmet_book_asis.
  destruct (zmax (concat l)) as [mx|]; [|reflexivity]. simpl.
  destruct (Z.of_nat natm <=? mx)%Z; [reflexivity|].
  destruct (negb (Nat.eqb (length (concat l)) (length (nodup Z.eq_dec (concat l))))); reflexivity.
Qed.

Section SrcOniom.
  Variable R : CRing.
  Variable E : level -> geometry R -> R.
  Lemma oniom_src_telescopes : forall copies, copies = true ->
    forall (sys : geometry R) pre post L e,
      Forall (same_level R) (pre ++ post) ->
      oniom_src copies E sys (pre ++ sys_fragment R L :: post) = Ok e -> e = E L sys.
  Proof. intros copies Hc; subst. exact (oniom_repaired_telescopes R E). Qed.

  Lemma distribute_src_unchanged : forall copies, copies = true ->
    forall (sys : geometry R) frs d, distribute_src copies sys frs = Ok d -> fst d = sys /\ length (snd d) = length frs.
  Proof. intros copies Hc; subst. exact (distribute_repaired_geometry_unchanged R). Qed.
End SrcOniom.

(* ------------------------------------------------------------------ default optimizer *)
(* with the guard, a start value at which the electron-number criterion already holds is returned whatever the root
   search would do (in particular when the cost does not depend on mu and the secant method cannot make a step) *)
Lemma optimizer_accepts_solved_start : forall (K : Type) guard, guard = true ->
  forall (small : K -> bool) newton cost mu0,
    small (cost mu0) = true ->
    default_optimizer_src guard small newton cost mu0 = Ok mu0.
Proof. intros K guard Hg small newton cost mu0 Hs. subst. unfold default_optimizer_src. rewrite Hs. reflexivity. Qed.

(* whatever is returned through the guard satisfies the criterion; other results are the root search's *)
Lemma optimizer_result : forall (K : Type) guard (small : K -> bool) newton cost mu0 r,
  default_optimizer_src guard small newton cost mu0 = Ok r ->
  (r = mu0 /\ small (cost mu0) = true) \/ newton cost mu0 = Ok r.
Proof.
  intros K guard small newton cost mu0 r. unfold default_optimizer_src. destruct guard.
  - destruct (small (cost mu0)) eqn:Es; intros H; [left; inversion H; auto|right; assumption].
  - intros H; right; assumption.
Qed.

(* without the guard (original source): a root search that cannot make a step raises although the criterion holds *)
Lemma optimizer_asis_refuted :
  exists (small : Z -> bool) newton cost mu0,
    small (cost mu0) = true /\ default_optimizer_src false small newton cost mu0 = Err (RuntimeError "Tolerance").
Proof. exists (fun _ => true), (fun _ _ => Err (RuntimeError "Tolerance")), (fun _ => 0%Z), 0%Z. split; reflexivity. Qed.
