(* PauliExpReal.v — the real-number instance of the C06 models: coefficients, times and gate
   parameters are real numbers (so "for every real coefficient" is literal), the number structure is
   CRealS (K = R*R, angles = R, cis a = e^{i a/2}).  Closed forms of the half-angle functions:
   cosh_ (c + c) = cos c, misinh (c + c) = -i sin c. *)
From Coq Require Import Reals Lra ZArith NArith List Bool Ring.
From Tangelo Require Import Num.KStruct Num.CReal QSem.State Linq.RealInst.
From Tangelo Require Import Chem.PauliExp Chem.PauliExpProofs Chem.TimeEvo Chem.TimeEvoProofs.
Import ListNotations.
Local Open Scope R_scope.

(* u k stands for Suzuki's factor of order k, 1 / (4 - 4 ** (1 / (k - 1))); the theorems hold for EVERY
   choice of these factors (and Rpower would bring in Classical_Prop.classic), so they are a parameter *)
Definition ROps (u : nat -> R) : cops R :=
  COps R 0 1 Rplus Rmult Ropp (fun x => x / 2) (fun n x => x / INR n) INR
       u (fun k => 1 - 4 * u k) of_units
       (fun x => if Rle_dec 0 x then true else false)
       (fun x => if Rle_dec (Rabs x) (/ 10 ^ 10) then true else false).

Section U.
  Variable u : nat -> R.
  Local Notation ROpsu := (ROps u).

Lemma R_ring : ring_theory (o_zero ROpsu) (o_one ROpsu) (o_add ROpsu) (o_mul ROpsu) (o_sub R ROpsu) (o_opp ROpsu) (@eq R).
Proof.
  constructor; intros; unfold o_sub; cbn [o_zero o_one o_add o_mul o_opp ROpsu]; ring.
Qed.

Lemma R_half_ok : forall t, o_add ROpsu (o_half ROpsu t) (o_half ROpsu t) = t.
Proof. intro t. cbn [o_add o_half ROpsu]. lra. Qed.

Lemma R_v_ok : forall k, o_add ROpsu (o_v ROpsu k)
                           (o_add ROpsu (o_add ROpsu (o_u ROpsu k) (o_u ROpsu k)) (o_add ROpsu (o_u ROpsu k) (o_u ROpsu k)))
                         = o_one ROpsu.
Proof. intro k. cbn [o_add o_v o_u o_one ROpsu]. lra. Qed.

Lemma R_nmul n y : nmul R ROpsu n y = INR n * y.
Proof.
  induction n as [|n IH].
  - cbn [nmul o_zero ROpsu]. change (INR 0) with 0. ring.
  - cbn [nmul]. rewrite IH, S_INR. cbn [o_add ROpsu]. ring.
Qed.

Lemma R_divn_ok : forall n t, n <> 0%nat -> nmul R ROpsu n (o_divn ROpsu n t) = t.
Proof.
  intros n t Hn. rewrite R_nmul. cbn [o_divn ROpsu]. field. apply not_0_INR. exact Hn.
Qed.

Definition rid (a : R) : A CRealS := a.

Lemma of_units_4 : of_units 4 = @api2 CRealS.
Proof. unfold of_units. simpl. lra. Qed.
Lemma of_units_8 : of_units 8 = @api CRealS.
Proof. unfold of_units. simpl. lra. Qed.

Lemma R_ang_ok : ang_ok CRealS R rid ROpsu.
Proof.
  constructor.
  - intros x y. reflexivity.
  - reflexivity.
  - intro x. reflexivity.
  - exact of_units_4.
  - exact of_units_8.
Qed.

(* closed forms: with a = c + c the RZ angle, cos(a/2) = cos c and -i sin(a/2) = -i sin c *)
Lemma cosh_dbl (c : R) : cosh_ CRealS (dbl CRealS R rid c) = (cos c, 0).
Proof.
  unfold cosh_, dbl, rid. apply C_eq; simpl;
    replace ((c + c) / 2) with c by lra; replace (- (c + c) / 2) with (- c) by lra;
    rewrite cos_neg, sin_neg; lra.
Qed.

Lemma misinh_dbl (c : R) : misinh CRealS (dbl CRealS R rid c) = (0, - sin c).
Proof.
  unfold misinh, dbl, rid. apply C_eq; simpl;
    replace ((c + c) / 2) with c by lra; replace (- (c + c) / 2) with (- c) by lra;
    rewrite cos_neg, sin_neg; lra.
Qed.

(* the phase a returned number p stands for: e^{-ip} *)
Lemma ph_real (p : R) : ph CRealS R rid p = (cos p, - sin p).
Proof.
  unfold ph, dbl, rid. apply C_eq; simpl; replace (- (p + p) / 2) with (- p) by lra;
    [apply cos_neg | apply sin_neg].
Qed.

(* exp(-i c P) on a state, in real and imaginary parts *)
Definition exp_word_real (w : list (N * Pauli.Word.pauli)) (c : R) (psi : state CRealS) : state CRealS :=
  fun x => Cadd (Cmul (cos c, 0) (psi x)) (Cmul (0, - sin c) (Pauli.Action.word_den CRealS w psi x)).

Lemma exp_word_real_eq w c psi : exp_word CRealS w (dbl CRealS R rid c) psi = exp_word_real w c psi.
Proof. unfold exp_word, exp_word_real. rewrite cosh_dbl, misinh_dbl. reflexivity. Qed.

Section WithTables.
  Variable T : ptables.
  Hypothesis HT : tables_ok T.

  Theorem exp_pauliword_correct_real w (c : R) v control :
    w <> [] -> NoDup (map fst w) -> NoDup (ctl control) -> (forall q, In q (ctl control) -> ~ In q (map fst w)) ->
    exists gs C, exp_pauliword_to_gates R ROpsu T w c v control = GateModel.Ok gs
                 /\ Interp.interp_all CRealS R rid gs = Some C
                 /\ forall psi, den CRealS C psi = ctrl CRealS (ctl control) (exp_word_real w c) psi.
  Proof.
    intros H1 H2 H3 H4.
    destruct (exp_pauliword_correct CRealS R rid ROpsu T R_ang_ok HT w c v control H1 H2 H3 H4) as [gs [C [E1 [E2 E3]]]].
    exists gs, C. split; [exact E1|]. split; [exact E2|]. intro psi. rewrite E3.
    apply StateLemmas.ctrl_ext. intro s. apply exp_word_real_eq.
  Qed.

  Theorem commuting_sum_exact_real s terms (t : R) n order v L (psi : state CRealS) :
    n <> 0%nat -> suzuki R ROpsu order terms (t / INR n) = GateModel.Ok L -> nodrop R ROpsu L ->
    words_ok R terms -> eigen CRealS R s terms psi ->
    exists gs p C, trotterize R ROpsu T terms (TScalar t) n order v None = GateModel.Ok (gs, p)
                   /\ Interp.interp_all CRealS R rid gs = Some C
                   /\ forall x, Cmul (cos p, - sin p) (den CRealS C psi x)
                                = Cmul (cos (wsum R ROpsu (sgw R ROpsu s) terms * t),
                                        - sin (wsum R ROpsu (sgw R ROpsu s) terms * t)) (psi x).
  Proof.
    intros Hn HL Hnd Hw He.
    destruct (commuting_sum_exact CRealS R rid ROpsu T R_ang_ok HT R_ring R_half_ok R_v_ok R_divn_ok
                                  s terms t n order v L psi Hn HL Hnd Hw He) as [gs [p [C [E1 [E2 E3]]]]].
    exists gs, p, C. split; [exact E1|]. split; [exact E2|]. intro x.
    rewrite <- !ph_real. exact (E3 x).
  Qed.
End WithTables.

(* basis facts with the constants as they are regenerated (pi/8 units read as reals) *)
Lemma basis_facts_real :
  mmul CRealS (mH CRealS) (mmul CRealS (mZ CRealS) (mH CRealS)) = mX CRealS
  /\ mmul CRealS (mRX CRealS (- of_units 4)) (mmul CRealS (mZ CRealS) (mRX CRealS (of_units 4))) = mY CRealS.
Proof.
  split; [apply mH_Z_mH|]. rewrite of_units_4. exact (mRX_Z_mRX CRealS).
Qed.

(* pointwise closed form for canonical (sorted) words *)
Lemma exp_word_real_closed w c (psi : state CRealS) x :
  Pauli.Word.word_wf w = true ->
  exp_word_real w c psi x
  = Cadd (Cmul (cos c, 0) (psi x))
         (Cmul (0, - sin c) (Cmul (Pauli.Action.word_phase CRealS w x) (psi (Pauli.Action.word_flip w x)))).
Proof.
  intro H. unfold exp_word_real. rewrite (Pauli.ActionProofs.word_den_closed_form CRealS w H). reflexivity.
Qed.

Section IdentityReal.
  Variable T : ptables.
  Hypothesis HI : id_tables_ok T.

  Theorem identity_term_phase_real (c : R) (v : bool) :
    (term_gates R ROpsu T [] c v None = GateModel.Ok ([], c)
     /\ forall (psi : state CRealS) x, Cmul (cos c, - sin c) (psi x) = exp_word_real [] c psi x)
    /\ (forall q, exists gs C, term_gates R ROpsu T [] c v (Some [q]) = GateModel.Ok (gs, 0)
                               /\ Interp.interp_all CRealS R rid gs = Some C
                               /\ forall psi, den CRealS C psi = ctrl CRealS [q] (exp_word_real [] c) psi)
    /\ (forall q1 q2 r, NoDup (q1 :: q2 :: r) ->
          exists gs C, term_gates R ROpsu T [] c v (Some (q1 :: q2 :: r)) = GateModel.Ok (gs, 0)
                       /\ Interp.interp_all CRealS R rid gs = Some C
                       /\ forall psi, den CRealS C psi = ctrl CRealS (q1 :: q2 :: r) (exp_word_real [] c) psi).
  Proof.
    split; [|split].
    - destruct (identity_uncontrolled CRealS R rid ROpsu T c v) as [E1 E2]. split; [exact E1|].
      intros psi x. rewrite <- exp_word_real_eq, <- ph_real. exact (E2 psi x).
    - intro q. destruct (identity_one_control CRealS R rid ROpsu T R_ang_ok HI c v q) as [gs [C [E1 [E2 E3]]]].
      exists gs, C. split; [exact E1|]. split; [exact E2|]. intro psi. rewrite E3.
      apply StateLemmas.ctrl_ext. intro s. apply exp_word_real_eq.
    - intros q1 q2 r Hnd.
      destruct (identity_multi_control CRealS R rid ROpsu T R_ang_ok HI c v q1 q2 r Hnd) as [gs [C [E1 [E2 E3]]]].
      exists gs, C. split; [exact E1|]. split; [exact E2|]. intro psi. rewrite E3.
      apply StateLemmas.ctrl_ext. intro s. apply exp_word_real_eq.
  Qed.
End IdentityReal.
End U.
