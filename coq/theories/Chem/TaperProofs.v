(* TaperProofs.v — theorems about the GF(2) part of the tapering model (Taper.v):
   echelon_invariant, kernel_rows_commute.  (Clifford rotation: CliffordProofs.v.) *)
From Coq Require Import List Bool Arith ZArith NArith Lia.
From Tangelo Require Import Num.KStruct Pauli.Word Linq.GateModel Chem.Taper.
Import ListNotations.
Open Scope list_scope.

(* ------------------------------------------------------------------ list / xor facts *)
Lemma vxor_length : forall a b, length a = length b -> length (vxor a b) = length a.
Proof.
  induction a as [|x a IH]; intros [|y b] H; simpl in *; try discriminate; [reflexivity|].
  f_equal. apply IH. lia.
Qed.

Lemma vxor_nth : forall a b t, length a = length b -> getb (vxor a b) t = xorb (getb a t) (getb b t).
Proof.
  unfold getb. induction a as [|x a IH]; intros [|y b] t H; simpl in *; try discriminate.
  - destruct t; reflexivity.
  - destruct t as [|t]; [reflexivity|]. apply IH. lia.
Qed.

Lemma vxor_skipn : forall m a b, skipn m (vxor a b) = vxor (skipn m a) (skipn m b).
Proof.
  induction m as [|m IH]; intros a b; [reflexivity|].
  destruct a as [|x a], b as [|y b]; simpl; try reflexivity.
  - destruct (skipn m a) as [|? ?]; reflexivity.
  - apply IH.
Qed.

Lemma dotb_nil_r : forall a, dotb a [] = false.
Proof. destruct a; reflexivity. Qed.

Lemma dotb_vxor : forall r x y, length x = length y -> dotb r (vxor x y) = xorb (dotb r x) (dotb r y).
Proof.
  induction r as [|c r IH]; intros x y H; [reflexivity|].
  destruct x as [|a x], y as [|b y]; simpl in *; try discriminate; [reflexivity|].
  rewrite IH by lia. destruct c, a, b, (dotb r x), (dotb r y); reflexivity.
Qed.

Lemma dotb_app : forall a1 b1 a2 b2, length a1 = length b1 ->
  dotb (a1 ++ a2) (b1 ++ b2) = xorb (dotb a1 b1) (dotb a2 b2).
Proof.
  induction a1 as [|x a1 IH]; intros [|y b1] a2 b2 H; simpl in *; try discriminate.
  - destruct (dotb a2 b2); reflexivity.
  - rewrite IH by lia. destruct (x && y), (dotb a1 b1), (dotb a2 b2); reflexivity.
Qed.

Lemma dotb_swap_halves n r w : length r = length w -> n <= length r ->
  dotb (swap_halves n r) (swap_halves n w) = dotb r w.
Proof.
  intros Hl Hn. unfold swap_halves.
  rewrite dotb_app by (rewrite !skipn_length; lia).
  rewrite <- (firstn_skipn n r) at 3. rewrite <- (firstn_skipn n w) at 3.
  rewrite dotb_app by (rewrite !firstn_length; lia).
  apply xorb_comm.
Qed.

Lemma dotb_unit j : forall r s k,
  dotb r (map (fun i => Nat.eqb i j) (seq s k))
  = if (s <=? j) && (j <? s + k) then nth (j - s) r false else false.
Proof.
  induction r as [|x r IH]; intros s k.
  - simpl. destruct ((s <=? j) && (j <? s + k)); [destruct (j - s)|]; reflexivity.
  - destruct k as [|k].
    + simpl. replace (j <? s + 0) with (j <? s) by (f_equal; lia).
      destruct (s <=? j) eqn:E1, (j <? s) eqn:E2; simpl; try reflexivity.
      apply Nat.leb_le in E1. apply Nat.ltb_lt in E2. lia.
    + cbn [seq map dotb]. rewrite IH.
      destruct (Nat.eq_dec s j) as [->|Hne].
      * rewrite Nat.eqb_refl, andb_true_r.
        assert (H1 : (S j <=? j) = false) by (apply Nat.leb_gt; lia). rewrite H1. cbn [andb].
        assert (H2 : (j <=? j) = true) by (apply Nat.leb_le; lia). rewrite H2.
        assert (H3 : (j <? j + S k) = true) by (apply Nat.ltb_lt; lia). rewrite H3. cbn [andb].
        rewrite Nat.sub_diag. cbn [nth]. rewrite xorb_false_r. reflexivity.
      * assert (H0 : (s =? j) = false) by (apply Nat.eqb_neq; exact Hne). rewrite H0, andb_false_r.
        rewrite xorb_false_l.
        destruct (le_lt_dec s j) as [Hle|Hgt].
        -- assert (H1 : (S s <=? j) = true) by (apply Nat.leb_le; lia).
           assert (H2 : (s <=? j) = true) by (apply Nat.leb_le; lia). rewrite H1, H2. cbn [andb].
           replace (S s + k) with (s + S k) by lia.
           destruct (j <? s + S k); [|reflexivity].
           replace (j - s) with (S (j - S s)) by lia. reflexivity.
        -- assert (H1 : (S s <=? j) = false) by (apply Nat.leb_gt; lia).
           assert (H2 : (s <=? j) = false) by (apply Nat.leb_gt; lia). rewrite H1, H2. reflexivity.
Qed.

Lemma existsb_id_false_nth : forall l t, existsb (fun b : bool => b) l = false -> nth t l false = false.
Proof.
  induction l as [|x l IH]; intros t H; simpl in *; [destruct t; reflexivity|].
  apply orb_false_iff in H. destruct H as [Hx Hl]. destruct t; [exact Hx | apply IH; exact Hl].
Qed.

Lemma nth_firstn_lt {X} (d : X) : forall m l t, t < m -> nth t (firstn m l) d = nth t l d.
Proof.
  induction m as [|m IH]; intros l t Ht; [lia|].
  destruct l as [|x l]; [destruct t; reflexivity|]. simpl.
  destruct t as [|t]; [reflexivity|]. apply IH. lia.
Qed.

Lemma set_nth_length {X} (x : X) : forall l j, length (set_nth j x l) = length l.
Proof.
  induction l as [|y l IH]; intros j; [destruct j; reflexivity|]. destruct j; simpl; [reflexivity|]. rewrite IH. reflexivity.
Qed.

(* ------------------------------------------------------------------ echelon_invariant *)
Section Invariant.
  Variable P : col -> Prop.
  Hypothesis Pxor : forall a b, P a -> P b -> P (vxor b a).

  Lemma set_nth_Forall x : P x -> forall M j, Forall P M -> Forall P (set_nth j x M).
  Proof.
    intros Hx. induction M as [|y M IH]; intros j HM; [destruct j; constructor|].
    inversion HM as [|? ? Hy HM']; subst.
    destruct j; simpl; constructor; auto.
  Qed.

  Lemma nth_error_Forall M i a : Forall P M -> nth_error M i = Some a -> P a.
  Proof. intros HM Hi. rewrite Forall_forall in HM. apply HM. eapply nth_error_In; eauto. Qed.

  Lemma xor_into_Forall i0 M j : Forall P M -> Forall P (xor_into i0 M j).
  Proof.
    intro HM. unfold xor_into.
    destruct (nth_error M i0) as [a|] eqn:Ea; [|exact HM].
    destruct (nth_error M j) as [b|] eqn:Eb; [|exact HM].
    apply set_nth_Forall; [|exact HM].
    apply Pxor; eapply nth_error_Forall; eauto.
  Qed.

  Lemma swap_cols_Forall M i j : Forall P M -> Forall P (swap_cols M i j).
  Proof.
    intro HM. unfold swap_cols.
    destruct (nth_error M i) as [a|] eqn:Ea; [|exact HM].
    destruct (nth_error M j) as [b|] eqn:Eb; [|exact HM].
    apply set_nth_Forall; [eapply nth_error_Forall; eauto|].
    apply set_nth_Forall; [eapply nth_error_Forall; eauto | exact HM].
  Qed.

  Lemma fold_xor_Forall i0 : forall rest M, Forall P M -> Forall P (fold_left (xor_into i0) rest M).
  Proof.
    induction rest as [|j rest IH]; intros M HM; simpl; [exact HM|].
    apply IH. apply xor_into_Forall. exact HM.
  Qed.

  Definition okP (r : res (bmat * nat)) : Prop :=
    match r with Ok s => Forall P (fst s) | Err _ => True end.

  Lemma row_step_ok rw st : Forall P (fst st) -> okP (row_step rw st).
  Proof.
    destruct st as [M p]. simpl. intro HM. destruct p as [|p']; [exact I|].
    destruct (filter (fun j => getb (nth j M []) rw) (seq 0 (S p'))) as [|i0 rest]; simpl; [exact HM|].
    apply swap_cols_Forall, fold_xor_Forall. exact HM.
  Qed.

  Lemma fold_rows_ok : forall rows acc, okP acc ->
    okP (fold_left (fun acc rw => do s <- acc; row_step rw s) rows acc).
  Proof.
    induction rows as [|rw rows IH]; intros acc Hacc; simpl; [exact Hacc|].
    apply IH. destruct acc as [s|e]; simpl; [|exact I]. apply row_step_ok. exact Hacc.
  Qed.

  (* bool_col_echelon only xors columns into columns and permutes columns: EVERY property of columns
     that is closed under xor survives, for every boolean matrix of every shape *)
  Theorem echelon_invariant nrows M M' :
    Forall P M -> echelon nrows M = Ok M' -> Forall P M'.
  Proof.
    intros HM. unfold echelon.
    pose proof (fold_rows_ok (rev (seq 0 (nrows - length M))) (Ok (M, length M)) HM) as H.
    destruct (fold_left _ _ _) as [s|e]; simpl; [|discriminate].
    intro E. injection E as <-. exact H.
  Qed.
End Invariant.

(* the number of columns never changes *)
Lemma echelon_length nrows M M' : echelon nrows M = Ok M' -> length M' = length M.
Proof.
  unfold echelon.
  assert (Hgen : forall rows acc,
             (forall s, acc = Ok s -> length (fst s) = length M) ->
             forall s, fold_left (fun acc rw => do s <- acc; row_step rw s) rows acc = Ok s ->
                       length (fst s) = length M).
  { induction rows as [|rw rows IH]; intros acc Hacc s; simpl; [apply Hacc|].
    apply IH. intros s' Hs'. destruct acc as [[M0 p]|e]; simpl in Hs'; [|discriminate].
    specialize (Hacc _ eq_refl). simpl in Hacc.
    destruct p as [|p']; [discriminate|].
    destruct (filter _ _) as [|i0 rest]; injection Hs' as <-; simpl; [exact Hacc|].
    unfold swap_cols.
    assert (Hf : forall rest M1, length (fold_left (xor_into i0) rest M1) = length M1).
    { induction rest0 as [|j r IHr]; intros M1; simpl; [reflexivity|]. rewrite IHr.
      unfold xor_into. destruct (nth_error M1 i0); [|reflexivity]. destruct (nth_error M1 j); [|reflexivity].
      apply set_nth_length. }
    destruct (nth_error _ i0); [|rewrite Hf; exact Hacc].
    destruct (nth_error _ p'); [|rewrite Hf; exact Hacc].
    rewrite !set_nth_length, Hf. exact Hacc. }
  intro E. destruct (fold_left _ _ _) as [s|e] eqn:Ef; simpl in E; [|discriminate].
  injection E as <-. eapply Hgen; [|exact Ef]. intros s' Hs'. injection Hs' as <-. reflexivity.
Qed.

(* ------------------------------------------------------------------ kernel_rows_commute *)
Section Kernel.
  Variable n : nat.
  Variable rows : list col.
  Hypothesis Hrows : forall r, In r rows -> length r = 2 * n.
  Let m := length rows.

  (* top block = E . bottom block, column by column *)
  Definition kinv (c : col) : Prop :=
    length c = m + 2 * n /\ forall t, t < m -> getb c t = dotb (nth t rows []) (skipn m c).

  Lemma kinv_xor a b : kinv a -> kinv b -> kinv (vxor b a).
  Proof.
    intros [La Ha] [Lb Hb]. split.
    - rewrite vxor_length; lia.
    - intros t Ht. rewrite vxor_nth by lia. rewrite vxor_skipn.
      rewrite dotb_vxor by (rewrite !skipn_length; lia).
      rewrite Ha, Hb by exact Ht. reflexivity.
  Qed.

  Lemma kinv_extended : Forall kinv (extended n rows).
  Proof.
    unfold extended. rewrite Forall_forall. intros c Hc. apply in_map_iff in Hc.
    destruct Hc as [j [<- Hj]]. apply in_seq in Hj.
    assert (Hlm : length (map (fun r => nth j r false) rows) = m) by apply map_length.
    split.
    - rewrite app_length, Hlm. unfold unit_vec. rewrite map_length, seq_length. reflexivity.
    - intros t Ht. unfold getb. rewrite app_nth1 by lia.
      rewrite skipn_app, skipn_all2 by lia. rewrite Hlm, Nat.sub_diag. cbn [skipn app].
      unfold unit_vec. rewrite dotb_unit.
      replace ((0 <=? j) && (j <? 0 + 2 * n)) with true
        by (symmetry; apply andb_true_iff; split; [apply Nat.leb_le | apply Nat.ltb_lt]; lia).
      rewrite Nat.sub_0_r.
      rewrite (nth_indep _ false ((fun r => nth j r false) [])) by lia.
      rewrite (map_nth (fun r => nth j r false) rows [] t). reflexivity.
  Qed.

  (* every vector returned by get_kernel commutes (stabilizer product, as do_commute computes it)
     with every term of the operator — for ALL boolean matrices with rows of length 2n *)
  Theorem kernel_rows_commute ker :
    get_kernel n rows = Ok ker ->
    forall v r, In v ker -> In r rows -> anticommute_bin n r v = false.
  Proof.
    unfold get_kernel. fold m.
    destruct (echelon (m + 2 * n) (extended n rows)) as [E|e] eqn:EE; simpl; [|discriminate].
    pose proof (echelon_invariant kinv kinv_xor _ _ _ kinv_extended EE) as HE.
    destruct n as [|n'] eqn:En; [discriminate|]. destruct m as [|m'] eqn:Em; [discriminate|].
    rewrite <- En, <- Em in *.
    destruct (flat_map _ (seq 0 n)) as [|k0 ks] eqn:Ek; [discriminate|].
    intro Hk. injection Hk as <-. intros v r Hv Hr.
    change (In v (map (swap_halves n) (k0 :: ks))) in Hv. rewrite <- Ek in Hv.
    apply in_map_iff in Hv. destruct Hv as [w [<- Hw]].
    apply in_flat_map in Hw. destruct Hw as [i [_ Hw]].
    destruct (existsb (fun b : bool => b) (firstn m (nth i E []))) eqn:Ex; [destruct Hw|].
    destruct Hw as [<- | []].
    destruct (nth_in_or_default i E []) as [Hin | Hd].
    - rewrite Forall_forall in HE. destruct (HE _ Hin) as [Lc Hc].
      destruct (In_nth _ _ [] Hr) as [t [Ht <-]]. fold m in Ht.
      assert (Hlr : length (nth t rows []) = 2 * n) by (apply Hrows, nth_In; exact Ht).
      unfold anticommute_bin.
      rewrite dotb_swap_halves.
      + rewrite <- Hc by exact Ht. unfold getb.
        rewrite <- (nth_firstn_lt false m _ t Ht). apply existsb_id_false_nth. exact Ex.
      + rewrite skipn_length, Lc. transitivity (2 * n); [exact Hlr | lia].
      + apply Nat.le_trans with (2 * n); [lia|]. apply Nat.eq_le_incl. symmetry. exact Hlr.
    - rewrite Hd. unfold anticommute_bin, swap_halves. rewrite !skipn_nil, firstn_nil. simpl. apply dotb_nil_r.
  Qed.
End Kernel.
