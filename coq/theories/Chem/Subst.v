(* Subst.v — substitution of a qubit by a number in a qubit operator (definitions only; proofs are in
   SubstProofs.v).  Used by C14: when every word of an operator has I or Z (resp. I or X) on qubit q and
   the state lives in a Z_q (resp. X_q) eigenspace, the factor on q can be replaced by its eigenvalue
   (-1)^b: the factor is dropped and the coefficient changes sign when the word had an odd number of
   factors on q and b is set.  Words are NOT assumed sorted or duplicate-free here. *)
From Coq Require Import NArith ZArith List Bool.
From Tangelo Require Import Num.KStruct QSem.State Pauli.Word Pauli.Action.
Import ListNotations.

(* every factor of w on qubit q is Z  (i.e. w has I or Z on q) *)
Definition zdiag_on (q : N) (w : word) : bool :=
  forallb (fun f => negb (N.eqb (fst f) q) || pauli_eqb (snd f) PZ) w.
Definition xdiag_on (q : N) (w : word) : bool :=
  forallb (fun f => negb (N.eqb (fst f) q) || pauli_eqb (snd f) PX) w.
(* parity of the number of factors on q *)
Definition qparity (q : N) (w : word) : bool :=
  fold_left (fun s f => if N.eqb (fst f) q then negb s else s) w false.
Definition wdrop (q : N) (w : word) : word := filter (fun f => negb (N.eqb (fst f) q)) w.

Section Subst.
  Variable S : KS.
  Open Scope K_scope.
  (* replace the factor on qubit q by the number (-1)^b : drop it and flip the sign when b *)
  Definition subst_q (q : N) (b : bool) (a : op S) : op S :=
    map (fun t => (wdrop q (fst t), if qparity q (fst t) && b then - snd t else snd t)) a.
  (* psi lives on the subspace where qubit q is |b> *)
  Definition supported_on (q : N) (b : bool) (psi : state S) : Prop :=
    forall x, bit x q <> b -> psi x = 0.
  (* psi is an eigenvector of X_q with eigenvalue (-1)^s *)
  Definition x_eigen (q : N) (s : bool) (psi : state S) : Prop :=
    forall x, psi (flip x q) = if s then - psi x else psi x.
End Subst.
