(* PauliExpQ.v — executable instances of the C06 models for the correspondence harness.
   (1) QOps: numbers are canonical rationals; gate parameters and coefficients are in units of pi/16
       (so 2c for c = k*pi/16 is k units of pi/8), times are pure rationals; thr = the threshold in the
       same units (supplied by the harness from the regenerated exponent); uq = rational stand-ins for
       the Suzuki factors (only orders 1 and 2 are compared through this instance).
   (2) MOps: "monomials" q * prod(symbolic factors), to compare the STRUCTURE of the recursive
       Trotter-Suzuki sequence of any even order: factor code 2k = u_k, 2k+1 = 1 - 4 u_k.
   Printers produce the canonical strings the harness compares with. *)
From Coq Require Import String ZArith NArith QArith Qcanon List Bool.
From Tangelo Require Import Num.Show Pauli.Word Linq.GateModel Chem.PauliExp Chem.TimeEvo.
Import ListNotations.
Open Scope string_scope.

Definition qc_of_Z (z : Z) : Qc := Q2Qc (inject_Z z).
Definition qc_of_nat (n : nat) : Qc := qc_of_Z (Z.of_nat n).
Definition qc_leb (a b : Qc) : bool := Qle_bool (this a) (this b).
Definition qc_abs (a : Qc) : Qc := if qc_leb 0%Qc a then a else Qcopp a.
Definition qc (n : Z) (d : positive) : Qc := Q2Qc (n # d).

Definition QOps (thr : Qc) (uq : nat -> Qc) : cops Qc :=
  COps Qc 0%Qc 1%Qc Qcplus Qcmult Qcopp
       (fun x => Qcdiv x (qc_of_Z 2)) (fun n x => Qcdiv x (qc_of_nat n)) qc_of_nat
       uq (fun k => Qcminus 1%Qc (Qcmult (qc_of_Z 4) (uq k)))
       (fun k => qc_of_Z (2 * k)) (fun x => qc_leb 0%Qc x) (fun x => qc_leb (qc_abs x) thr).

Definition show_qparam (p : param Qc) : string :=
  match p with PNone => "_" | PNum a => show_Qc a | PStr s => "'" ++ s end.
Definition show_zlist (l : list Z) : string := join "." (map show_Z l).
Definition show_qgate (g : pgate Qc) : string :=
  pname g ++ "(" ++ show_zlist (ptarget g) ++ ";"
        ++ (match pcontrol g with None => "N" | Some c => show_zlist c end) ++ ";"
        ++ show_qparam (pparam g) ++ ";" ++ show_bool (pvar g) ++ ")".
Definition show_e (e : err) : string :=
  match e with ValueError => "ValueError" | TypeError => "TypeError" | AttributeError => "AttributeError"
          | IndexError => "IndexError" | KeyError => "KeyError" end.
Definition show_gates_res (r : res (list (pgate Qc))) : string :=
  match r with Ok gs => "Ok " ++ join " " (map show_qgate gs) | Err e => "Err:" ++ show_e e end.
Definition show_circ_phase (r : res (list (pgate Qc) * Qc)) : string :=
  match r with Ok (gs, p) => "Ok " ++ join " " (map show_qgate gs) ++ " | " ++ show_Qc p | Err e => "Err:" ++ show_e e end.

(* word / term constructors for generated case files *)
Definition pz (c : nat) : pauli := match c with 0%nat => PX | 1%nat => PY | _ => PZ end.
Definition W (l : list (N * nat)) : list (N * pauli) := map (fun qc => (fst qc, pz (snd qc))) l.

(* ---- monomials ---- *)
Definition mono : Type := (Qc * list nat)%type.
Definition MOps : cops mono :=
  COps mono (0%Qc, []) (1%Qc, []) (fun a _ => a) (fun a b => (Qcmult (fst a) (fst b), (snd a ++ snd b)%list))
       (fun a => (Qcopp (fst a), snd a))
       (fun a => (Qcdiv (fst a) (qc_of_Z 2), snd a)) (fun _ a => a) (fun n => (qc_of_nat n, []))
       (fun k => (1%Qc, [(2 * k)%nat])) (fun k => (1%Qc, [(2 * k + 1)%nat]))
       (fun _ => (0%Qc, [])) (fun _ => true) (fun _ => false).
Definition show_mono (m : mono) : string := show_Qc (fst m) ++ "|" ++ join "." (map show_nat (snd m)).
(* terms are labelled by a one-factor word on qubit i carrying coefficient 1: the output lists, per
   position of the sequence, the label and the monomial multiplying t * c_label *)
Definition show_suzuki (order n_terms : nat) : string :=
  match suzuki mono MOps order (map (fun i => ([(N.of_nat i, PZ)], (1%Qc, @nil nat))) (seq 0 n_terms)) (1%Qc, []) with
  | Ok L => join " " (map (fun wc => match fst wc with (q, _) :: _ => show_N q | [] => "?" end ++ ":" ++ show_mono (snd wc)) L)
  | Err e => "Err:" ++ show_e e
  end.
