(* DecompShow.v — executable instance (exact rationals Qc) of the models of Decomp.v, the two stub energy
   functions used by the correspondence harness, and printers.  Used only by harness/props/C15.py
   (the Python side computes the same canonical strings from the implementation's results). *)
From Coq Require Import ZArith String Bool Arith QArith Qcanon Ascii List.
From Tangelo Require Import Num.Show Chem.Decomp.
Import ListNotations.
Open Scope string_scope.

Definition qc (n : Z) (d : positive) : Qc := Q2Qc (Qmake n d).
Definition zq (z : Z) : Qc := Q2Qc (inject_Z z).

Definition show_perr (e : perr) : string :=
  match e with
  | ValueError => "ValueError" | TypeError => "TypeError" | KeyError => "KeyError" | IndexError => "IndexError"
  | RuntimeError t => "RuntimeError:" ++ t
  end.
Definition show_res {X} (f : X -> string) (r : res X) : string :=
  match r with Ok x => "Ok " ++ f x | Err e => "Err:" ++ show_perr e end.

Definition qvec : Type := vec QcRing.
Definition qatom : Type := atom QcRing.
Definition qgeom : Type := geometry QcRing.

Definition show_vec (v : qvec) : string :=
  let '(x, y, z) := v in show_Qc x ++ " " ++ show_Qc y ++ " " ++ show_Qc z.
Definition show_atom (a : qatom) : string := fst a ++ ":" ++ show_vec (snd a).
Definition show_geom (g : qgeom) : string := show_list show_atom g.

(* ---- stub energies: any deterministic function of (level, geometry) would do; these two are
        non-linear in the atoms; E_ord depends on the atom order, E_sym does not *)
Definition elem_code (s : string) : Z :=
  match s with
  | String c r => Z.of_N (N_of_ascii c) + 7 * Z.of_nat (String.length r)
  | EmptyString => 0
  end.
Definition atom_hash (a : qatom) : Qc :=
  let '(x, y, z) := snd a in (zq (elem_code (fst a)) + zq 3 * x + zq 5 * y + zq 7 * z)%Qc.
Fixpoint e_ord_from (lv : nat) (i : Z) (g : qgeom) : Qc :=
  match g with
  | [] => 0%Qc
  | a :: r => (zq (i * (Z.of_nat lv + 2)) * (atom_hash a * atom_hash a) + e_ord_from lv (i + 1) r)%Qc
  end.
Definition E_ord (lv : level) (g : qgeom) : Qc := (e_ord_from lv 1 g + zq (1000 * Z.of_nat lv))%Qc.
Definition E_sym (lv : level) (g : qgeom) : Qc :=
  (zq (Z.of_nat lv + 2) * fold_right (fun a acc => (atom_hash a * atom_hash a + acc)%Qc) 0%Qc g + zq (1000 * Z.of_nat lv))%Qc.

(* ---- ONIOM *)
Definition frag_spec : Type := (sel * option level * option level * list (link QcRing))%type.
Definition mk_frags (specs : list frag_spec) : res (list (fragment QcRing)) :=
  mapM (fun sp : frag_spec => let '(s, lo, hi, ls) := sp in fragment_init s lo hi ls) specs.

Definition run_oniom (asis sym : bool) (sys : qgeom) (specs : list frag_spec) : string :=
  show_res (fun x => x)
    (do frs <- mk_frags specs;
     do d <- (if asis then distribute_asis sys frs else distribute_repaired sys frs);
     let e := oniom_simulate (if sym then E_sym else E_ord) (combine frs (snd d)) in
     Ok ("sys=" ++ show_geom (fst d) ++ " frags=" ++ show_list show_geom (snd d) ++ " e=" ++ show_Qc e)).

Definition run_relink (li : link QcRing) (g : qgeom) : string := show_res show_geom (relink li g).

(* ---- method of increments with Python's string keys *)
Definition qfrag (key : string) (t : list nat) (e : option Qc) (c : Qc) : mfrag QcRing string :=
  mkMfrag QcRing string key t e c.
Definition run_mi (fi : frag_info QcRing string) (emf : Qc) (user : option (list (string * Qc))) : string :=
  show_res show_Qc (mi_summation QcRing string String.eqb py_tuple_str fi emf user).

(* ---- DMET bookkeeping *)
Definition show_book (b : dmet_book) : string :=
  "order=" ++ show_list show_nat (b_order b) ++ " counts=" ++ show_list show_Z (b_counts b)
  ++ " ns=" ++ show_nat (b_nsolvers b) ++ " no=" ++ show_nat (b_noptions b) ++ " nf=" ++ show_nat (b_nfrozen b).
Definition run_dmet (asis : bool) (natm : nat) (fa : frag_atoms) (nf : nat) (sv : solvers_arg) (op : options_arg) : string :=
  show_res show_book (if asis then dmet_book_asis natm fa nf sv op else dmet_book_repaired natm fa nf sv op).

(* ---- the same runs with the model variant selected by the facts regenerated from the source (Gen.DecompFacts) *)
Definition run_oniom_src (copies sym : bool) (sys : qgeom) (specs : list frag_spec) : string := run_oniom (negb copies) sym sys specs.
Definition run_dmet_src (cs : list dmet_check) (natm : nat) (fa : frag_atoms) (nf : nat) (sv : solvers_arg) (op : options_arg) : string :=
  show_res show_book (dmet_book_src cs natm fa nf sv op).
