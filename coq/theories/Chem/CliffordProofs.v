(* CliffordProofs.v — the Clifford rotation of Z2 tapering, on the dense-row model of
   MultiformOperator.__mul__ (Taper.v) with the phase table c_calc of the source:
   for anticommuting Pauli rows sigma, tau:  U = (sigma + tau)/sqrt2  satisfies
   U U = I,  U tau U = sigma,  U sigma U = tau   as formal sums of Pauli rows (coefficient of every row). *)
From Coq Require Import List Bool Arith ZArith Lia.
From Tangelo Require Import Num.KStruct Pauli.Word Chem.Taper Chem.TaperProofs.
Import ListNotations.
Open Scope list_scope.

Notation ctab := c_calc_expected.

(* ------------------------------------------------------------------ one position *)
Definition anti1 (a b : p4) : bool := xorb (p4_z a && p4_x b) (p4_x a && p4_z b).

Lemma p4_xor_self a : p4_xor a a = P4I. Proof. destruct a; reflexivity. Qed.
Lemma p4_xor_comm a b : p4_xor a b = p4_xor b a. Proof. destruct a, b; reflexivity. Qed.
Lemma p4_xor_id_r a : p4_xor a P4I = a. Proof. destruct a; reflexivity. Qed.
Lemma p4_xor_cancel a b : p4_xor a (p4_xor b a) = b. Proof. destruct a, b; reflexivity. Qed.
Lemma cphase_self a : cphase ctab a a = 0%Z. Proof. destruct a; reflexivity. Qed.
Lemma cphase_id_r a : cphase ctab a P4I = 0%Z. Proof. destruct a; reflexivity. Qed.
Lemma cphase_id_l a : cphase ctab P4I a = 0%Z. Proof. destruct a; reflexivity. Qed.
Lemma cphase_assoc a b c :
  ((cphase ctab b c + cphase ctab a (p4_xor b c)) mod 4
   = (cphase ctab a b + cphase ctab (p4_xor a b) c) mod 4)%Z.
Proof. destruct a, b, c; reflexivity. Qed.
Lemma cphase_anti a b :
  ((cphase ctab b a) mod 4 = (cphase ctab a b + (if anti1 a b then 2 else 0)) mod 4)%Z.
Proof. destruct a, b; reflexivity. Qed.

Lemma add_mod4 a a' b b' : (a mod 4 = a' mod 4 -> b mod 4 = b' mod 4 -> (a + b) mod 4 = (a' + b') mod 4)%Z.
Proof. intros Ha Hb. rewrite Z.add_mod, Ha, Hb, <- Z.add_mod by lia. reflexivity. Qed.

(* ------------------------------------------------------------------ rows *)
Fixpoint antip (a b : row) : bool :=
  match a, b with x :: a', y :: b' => xorb (anti1 x y) (antip a' b') | _, _ => false end.

Lemma row_xor_self : forall a, row_xor a a = repeat P4I (length a).
Proof. induction a as [|x a IH]; simpl; [reflexivity|]. rewrite p4_xor_self, IH. reflexivity. Qed.

Lemma row_xor_comm : forall a b, row_xor a b = row_xor b a.
Proof.
  induction a as [|x a IH]; intros [|y b]; simpl; try reflexivity.
  rewrite p4_xor_comm, IH. reflexivity.
Qed.

Lemma row_xor_id_r : forall a, row_xor a (repeat P4I (length a)) = a.
Proof. induction a as [|x a IH]; simpl; [reflexivity|]. rewrite p4_xor_id_r, IH. reflexivity. Qed.

Lemma row_xor_cancel : forall a b, length a = length b -> row_xor a (row_xor b a) = b.
Proof.
  induction a as [|x a IH]; intros [|y b] H; simpl in *; try discriminate; [reflexivity|].
  rewrite p4_xor_cancel, IH by lia. reflexivity.
Qed.

Lemma row_xor_length : forall a b, length a = length b -> length (row_xor a b) = length a.
Proof.
  induction a as [|x a IH]; intros [|y b] H; simpl in *; try discriminate; [reflexivity|].
  rewrite IH by lia. reflexivity.
Qed.

Lemma row_phase_self : forall a, row_phase ctab a a = 0%Z.
Proof. induction a as [|x a IH]; simpl; [reflexivity|]. rewrite cphase_self, IH. reflexivity. Qed.

Lemma row_phase_id_r : forall a, row_phase ctab a (repeat P4I (length a)) = 0%Z.
Proof. induction a as [|x a IH]; simpl; [reflexivity|]. rewrite cphase_id_r, IH. reflexivity. Qed.

Lemma row_phase_id_l : forall a, row_phase ctab (repeat P4I (length a)) a = 0%Z.
Proof. induction a as [|x a IH]; simpl; [reflexivity|]. rewrite cphase_id_l, IH. reflexivity. Qed.

Lemma row_phase_assoc : forall a b c, length a = length b -> length b = length c ->
  ((row_phase ctab b c + row_phase ctab a (row_xor b c)) mod 4
   = (row_phase ctab a b + row_phase ctab (row_xor a b) c) mod 4)%Z.
Proof.
  induction a as [|x a IH]; intros [|y b] [|z c] H1 H2; simpl in *; try discriminate; [reflexivity|].
  specialize (IH b c ltac:(lia) ltac:(lia)).
  pose proof (cphase_assoc x y z) as Hp.
  replace (cphase ctab y z + row_phase ctab b c + (cphase ctab x (p4_xor y z) + row_phase ctab a (row_xor b c)))%Z
    with ((cphase ctab y z + cphase ctab x (p4_xor y z)) + (row_phase ctab b c + row_phase ctab a (row_xor b c)))%Z by ring.
  replace (cphase ctab x y + row_phase ctab a b + (cphase ctab (p4_xor x y) z + row_phase ctab (row_xor a b) c))%Z
    with ((cphase ctab x y + cphase ctab (p4_xor x y) z) + (row_phase ctab a b + row_phase ctab (row_xor a b) c))%Z by ring.
  apply add_mod4; assumption.
Qed.

Lemma if_xorb_mod4 p q :
  ((if xorb p q then 2 else 0) mod 4 = ((if p then 2 else 0) + (if q then 2 else 0)) mod 4)%Z.
Proof. destruct p, q; reflexivity. Qed.

Lemma row_phase_anti : forall a b, length a = length b ->
  ((row_phase ctab b a) mod 4 = (row_phase ctab a b + (if antip a b then 2 else 0)) mod 4)%Z.
Proof.
  induction a as [|x a IH]; intros [|y b] H; simpl in *; try discriminate; [reflexivity|].
  specialize (IH b ltac:(lia)). pose proof (cphase_anti x y) as Hp.
  transitivity (((cphase ctab x y + (if anti1 x y then 2 else 0))
                 + (row_phase ctab a b + (if antip a b then 2 else 0))) mod 4)%Z.
  - apply add_mod4; assumption.
  - replace (cphase ctab x y + (if anti1 x y then 2 else 0) + (row_phase ctab a b + (if antip a b then 2 else 0)))%Z
      with ((cphase ctab x y + row_phase ctab a b) + ((if anti1 x y then 2 else 0) + (if antip a b then 2 else 0)))%Z by ring.
    apply add_mod4; [reflexivity|]. symmetry. apply if_xorb_mod4.
Qed.

Lemma row_commute_antip : forall a b, length a = length b -> row_commute a b = negb (antip a b).
Proof.
  intros a b H. unfold row_commute, row_bin, row_z, row_x. f_equal.
  rewrite dotb_app by (rewrite !map_length; exact H).
  revert b H. induction a as [|x a IH]; intros [|y b] H; simpl in *; try discriminate; [reflexivity|].
  rewrite <- (IH b) by lia. unfold anti1.
  destruct (p4_z x && p4_x y), (p4_x x && p4_z y),
           (dotb (map p4_z a) (map p4_x b)), (dotb (map p4_x a) (map p4_z b)); reflexivity.
Qed.

(* ------------------------------------------------------------------ i^e *)
Section Cliff.
  Variable S : KS.
  Add Ring kring_cliff : (k_ring S).
  Open Scope K_scope.

  Lemma ipow_mod a b : (a mod 4 = b mod 4)%Z -> ipow S a = ipow S b.
  Proof. unfold ipow. intros ->. reflexivity. Qed.

  Lemma ii_a : (ki : K S) * - ki = 1.
  Proof. transitivity (- (ki * ki) : K S); [ring|]. rewrite k_ii. ring. Qed.

  Lemma ipow_add a b : ipow S (a + b) = ipow S a * ipow S b.
  Proof.
    unfold ipow. rewrite Z.add_mod by lia.
    pose proof (Z.mod_pos_bound a 4 ltac:(lia)) as Ha. pose proof (Z.mod_pos_bound b 4 ltac:(lia)) as Hb.
    assert (Ea : (a mod 4 = 0 \/ a mod 4 = 1 \/ a mod 4 = 2 \/ a mod 4 = 3)%Z) by lia.
    assert (Eb : (b mod 4 = 0 \/ b mod 4 = 1 \/ b mod 4 = 2 \/ b mod 4 = 3)%Z) by lia.
    destruct Ea as [-> | [-> | [-> | ->]]], Eb as [-> | [-> | [-> | ->]]]; cbn;
      first [ ring
            | symmetry; apply k_ii
            | symmetry; apply ii_a
            | (transitivity (- ki * ki : K S); [symmetry | ring]; transitivity (ki * - ki : K S); [ring | apply ii_a])
            | (transitivity (ki * ki : K S); [symmetry; apply k_ii | ring]) ].
  Qed.

  Lemma ipow_0 : ipow S 0 = 1. Proof. reflexivity. Qed.
  Lemma ipow_2 : ipow S 2 = - (1). Proof. reflexivity. Qed.

  (* ---------------------------------------------------------------- formal sums of rows *)
  Definition coeff (a : mfop S) (r : row) : K S :=
    fold_right (fun t acc => if row_eqb (fst t) r then snd t + acc else acc) 0 a.
  Definition mf_equiv (a b : mfop S) : Prop := forall r, coeff a r = coeff b r.

  Lemma half_pair (x : K S) : krs2 * (krs2 * x) + krs2 * (krs2 * x) = x.
  Proof.
    transitivity ((krs2 * krs2 + krs2 * krs2) * x); [ring|]. rewrite k_rs2, k_half. ring.
  Qed.

  Variable sigma tau : row.
  Hypothesis Hlen : length sigma = length tau.
  Hypothesis Hanti : row_commute sigma tau = false.

  Definition U : mfop S := [(sigma, krs2); (tau, krs2)].
  Definition idrow : row := repeat P4I (length sigma).

  Lemma anti_phase : ipow S (row_phase ctab tau sigma) = - ipow S (row_phase ctab sigma tau).
  Proof.
    rewrite row_commute_antip in Hanti by exact Hlen. apply negb_false_iff in Hanti.
    pose proof (row_phase_anti sigma tau Hlen) as H. rewrite Hanti in H.
    rewrite (ipow_mod _ _ H), ipow_add, ipow_2. ring.
  Qed.

  Lemma xor_tt : row_xor tau tau = idrow.
  Proof. unfold idrow. rewrite Hlen. apply row_xor_self. Qed.

  (* U U = I *)
  Theorem clifford_unitary : mf_equiv (mf_mul_raw S ctab U U) [(idrow, 1)].
  Proof.
    intro r. unfold U, mf_mul_raw, coeff. cbn [flat_map map app fold_right fst snd].
    rewrite row_xor_self, xor_tt, (row_xor_comm tau sigma), !row_phase_self, anti_phase, ipow_0.
    fold idrow.
    destruct (row_eqb idrow r), (row_eqb (row_xor sigma tau) r).
    - transitivity (krs2 * (krs2 * 1) + krs2 * (krs2 * 1) : K S); [ring|]. rewrite half_pair. ring.
    - transitivity (krs2 * (krs2 * 1) + krs2 * (krs2 * 1) : K S); [ring|]. rewrite half_pair. ring.
    - ring.
    - ring.
  Qed.

  Lemma phase_tts :
    ipow S (row_phase ctab tau sigma) * ipow S (row_phase ctab tau (row_xor tau sigma)) = 1.
  Proof.
    rewrite <- ipow_add.
    pose proof (row_phase_assoc tau tau sigma eq_refl (eq_sym Hlen)) as H.
    rewrite (ipow_mod _ _ H), row_phase_self, xor_tt. unfold idrow.
    rewrite row_phase_id_l. reflexivity.
  Qed.

  Lemma phase_sst :
    ipow S (row_phase ctab sigma tau) * ipow S (row_phase ctab sigma (row_xor sigma tau)) = 1.
  Proof.
    rewrite <- ipow_add.
    pose proof (row_phase_assoc sigma sigma tau eq_refl Hlen) as H.
    rewrite (ipow_mod _ _ H), row_phase_self, row_xor_self, Hlen, row_phase_id_l. reflexivity.
  Qed.

  (* U tau U = sigma *)
  Theorem clifford_maps_tau : mf_equiv (mf_mul_raw S ctab U (mf_mul_raw S ctab [(tau, 1)] U)) [(sigma, 1)].
  Proof.
    intro r. unfold U, mf_mul_raw, coeff. cbn [flat_map map app fold_right fst snd].
    rewrite xor_tt, !row_phase_self, ipow_0.
    rewrite (row_xor_cancel sigma tau Hlen).
    rewrite (row_xor_comm tau sigma), (row_xor_cancel tau sigma (eq_sym Hlen)).
    unfold idrow. rewrite row_xor_id_r, row_phase_id_r.
    rewrite Hlen, row_xor_id_r, row_phase_id_r, ipow_0.
    pose proof phase_tts as H1. pose proof phase_sst as H2. pose proof anti_phase as H3.
    rewrite (row_xor_comm tau sigma) in H1.
    set (p := ipow S (row_phase ctab tau sigma)) in *.
    set (p' := ipow S (row_phase ctab sigma tau)) in *.
    set (a := ipow S (row_phase ctab tau (row_xor sigma tau))) in *.
    set (b := ipow S (row_phase ctab sigma (row_xor sigma tau))) in *.
    assert (Hpb : p * b = - (1)) by (rewrite H3; transitivity (- (p' * b)); [ring | rewrite H2; ring]).
    destruct (row_eqb tau r), (row_eqb sigma r).
    - transitivity ((krs2 * (krs2 * (p * b)) + krs2 * (krs2 * (p * a)))
                    + (krs2 * (krs2 * 1) + krs2 * (krs2 * 1)) : K S); [ring|].
      rewrite Hpb, H1, half_pair. ring.
    - transitivity (krs2 * (krs2 * (p * b)) + krs2 * (krs2 * 1) : K S); [ring|]. rewrite Hpb. ring.
    - transitivity (krs2 * (krs2 * 1) + krs2 * (krs2 * (p * a)) : K S); [ring|].
      rewrite H1, half_pair. ring.
    - ring.
  Qed.
End Cliff.

(* the closed statements: for every number structure, every pair of anticommuting rows of equal length *)
Theorem clifford_rotation_maps (S : KS) (sigma tau : row) :
  length sigma = length tau -> row_commute sigma tau = false ->
  mf_equiv S (mf_mul_raw S ctab (U S sigma tau) (U S sigma tau)) [(repeat P4I (length sigma), k1)]
  /\ mf_equiv S (mf_mul_raw S ctab (U S sigma tau) (mf_mul_raw S ctab [(tau, k1)] (U S sigma tau))) [(sigma, k1)].
Proof.
  intros Hl Ha. split; [apply clifford_unitary | apply clifford_maps_tau]; assumption.
Qed.
