(* QpeProofs.v — phase kick-back, controlled circuits, and exactness of phase estimation on the abstract
   level (generic number structure with the angle family hp k = pi/2^k):
     kickback            a controlled U on (register function g) * (eigenvector u of U, eigenvalue lam)
                         multiplies the control's |1> branch by lam
     add_controls_den    adding controls to every gate of a circuit gives the controlled circuit
     interp_add_ctrl     ... for the Python-level renaming rule of CircuitUnitary.add_controls
     cpowers_kick        the controlled powers turn the uniform register into the Fourier state of the phase
     qpe_exact           QFT, controlled powers U^(2^i) with eigenvalue w_n^(m 2^i), inverse QFT: the register
                         ends in |m> (x) u exactly, i.e. outcome m with probability 1 *)
From Coq Require Import String ZArith NArith List Bool Lia Arith.
From Tangelo Require Import Num.KStruct QSem.State QSem.StateLemmas QSem.GateLemmas QSem.CircuitLemmas QSem.Measure QSem.MeasureProofs.
From Tangelo Require Import Linq.GateModel Linq.Interp Chem.Qft Chem.QftProofs Chem.Qpe.
Import ListNotations.
Open Scope list_scope.

Lemma agree_spec qs y x : agree qs y x = true <-> forall q, In q qs -> bit y q = bit x q.
Proof.
  unfold agree. rewrite forallb_forall. split; intros H q Hq.
  - apply eqb_prop. apply H. exact Hq.
  - rewrite (H q Hq). apply eqb_reflx.
Qed.

Lemma agree_false qs y x : agree qs y x = false -> exists q, In q qs /\ bit y q <> bit x q.
Proof.
  unfold agree. induction qs as [|a r IH]; simpl; [discriminate|].
  destruct (Bool.eqb (bit y a) (bit x a)) eqn:E; simpl.
  - intro H. destruct (IH H) as [q [Hq Hne]]. exists q. split; [right; exact Hq | exact Hne].
  - intros _. exists a. split; [left; reflexivity|]. intro H. rewrite H, eqb_reflx in E. discriminate.
Qed.

Lemma agree_put qs x z : agree qs (put qs x z) x = true.
Proof. apply agree_spec. intros q Hq. apply bit_put_in. exact Hq. Qed.

Section QpeProofs.
  Variable S : KS.
  Add Ring kring : (k_ring S).
  Open Scope K_scope.
  Notation K := (K S).
  Notation state := (state S).
  Notation den := (den S).
  Notation den_gate := (den_gate S).
  Notation ctrl := (ctrl S).
  Notation kpow := (kpow S).

  (* ---------------- locality of circuits that do not touch the qubits cs ---------------- *)
  Lemma local_off_comp cs (f g : state -> state) :
    local_off S cs f -> local_off S cs g -> local_off S cs (fun s => g (f s)).
  Proof.
    intros Hf Hg phi phi' x H. apply Hg. intros y Hy. apply Hf. intros y' Hy'. apply H.
    intros c Hc. rewrite (Hy' c Hc). apply Hy. exact Hc.
  Qed.

  Lemma local_off_ctrl cs cs' (f : state -> state) : local_off S cs f -> local_off S cs (ctrl cs' f).
  Proof.
    intros Hf phi phi' x H. unfold State.ctrl. destruct (allset x cs').
    - apply Hf. exact H.
    - apply H. intros; reflexivity.
  Qed.

  Definition base_off (cs : list N) (g : gate S) : Prop := forall q, In q (base_qubits S (gbase g)) -> ~ In q cs.

  Lemma local_off_den_gate cs g : base_off cs g -> local_off S cs (den_gate g).
  Proof. intro H. unfold State.den_gate. apply local_off_ctrl. apply den_base_local. exact H. Qed.

  Lemma local_off_den cs (c : circuit S) : Forall (base_off cs) c -> local_off S cs (den c).
  Proof.
    induction c as [|g r IH]; intro H.
    - intros phi phi' x Hx. apply Hx. intros; reflexivity.
    - inversion H; subst.
      assert (E : forall s, den (g :: r) s = den r (den_gate g s)) by reflexivity.
      intros phi phi' x Hx. rewrite !E.
      apply (local_off_comp cs (den_gate g) (den r)); [apply local_off_den_gate; assumption | apply IH; assumption | exact Hx].
  Qed.

  (* ---------------- adding controls to every gate = controlling the circuit ---------------- *)
  Lemma allset_app x a b : allset x (a ++ b) = allset x a && allset x b.
  Proof. unfold allset. apply forallb_app. Qed.

  Lemma den_gate_add_ctrl g cl psi : den_gate (s_add_ctrl S cl g) psi = ctrl cl (den_gate g) psi.
  Proof.
    apply state_ext. intro x. unfold State.den_gate, State.ctrl, s_add_ctrl; simpl.
    rewrite allset_app. destruct (allset x (gctrl g)), (allset x cl); reflexivity.
  Qed.

  Theorem add_controls_den (c : circuit S) (cl : list N) :
    Forall (base_off cl) c -> forall psi, den (map (s_add_ctrl S cl) c) psi = ctrl cl (den c) psi.
  Proof.
    induction c as [|g r IH]; intros H psi.
    - simpl. symmetry. apply (ctrl_id S cl psi).
    - inversion H; subst. simpl map. rewrite den_cons, den_gate_add_ctrl, IH by assumption.
      rewrite ctrl_compose by (apply local_off_den; assumption).
      apply ctrl_ext. intro s. reflexivity.
  Qed.

  (* ---------------- phase kick-back ---------------- *)
  Theorem kickback (U : state -> state) (cs : list N) (c : N) (lam : K) (u : state) (g : N -> K) :
    local_off S cs U -> linear S U -> (forall z, U u z = lam * u z) -> only_on S cs g -> In c cs ->
    forall z, ctrl [c] U (fun y => g y * u y) z = (if bit z c then lam else 1) * (g z * u z).
  Proof.
    intros Hloc Hlin Heig Hg Hc z. unfold State.ctrl, allset. simpl forallb.
    destruct (bit z c); simpl; [|ring].
    rewrite (Hloc (fun y => g y * u y) (sscale S (g z) u) z).
    - rewrite Hlin. unfold sscale. rewrite Heig. ring.
    - intros y Hy. unfold sscale. rewrite (Hg y z Hy). reflexivity.
  Qed.

  (* ---------------- the controlled powers ---------------- *)
  (* the i-th operation has eigenvector u with eigenvalue lam^(2^i) and does not touch the register *)
  Fixpoint all_eig (qs : list N) (u : state) (lam : K) (Us : list (state -> state)) (i : nat) : Prop :=
    match Us with
    | [] => True
    | U :: r => (local_off S qs U /\ linear S U /\ forall z, U u z = kpow lam (2 ^ i) * u z)
                /\ all_eig qs u lam r (Datatypes.S i)
    end.

  Lemma kpow_sq_step (lam : K) i : kpow (kpow lam (2 ^ i)) 2 = kpow lam (2 ^ Datatypes.S i).
  Proof. rewrite <- kpow_mul. f_equal. rewrite Nat.pow_succ_r'. lia. Qed.

  Lemma cpowers_kick (qs : list N) (u : state) (lam : K) :
    forall (qs' : list N) (Us : list (state -> state)) (i : nat) (g : N -> K),
      (forall q, In q qs' -> In q qs) -> length Us = length qs' -> all_eig qs u lam Us i -> only_on S qs g ->
      forall z, cpowers S qs' Us (fun y => g y * u y) z = kpow (kpow lam (2 ^ i)) (val qs' z) * (g z * u z).
  Proof.
    induction qs' as [|q r IH]; intros Us i g Hin Hlen Heig Hg z.
    - destruct Us; simpl; ring.
    - destruct Us as [|U Ur]; [simpl in Hlen; discriminate|].
      simpl in Heig. destruct Heig as [[Hloc [Hlin He]] Hrest].
      simpl cpowers.
      set (g' := fun y => (if bit y q then kpow lam (2 ^ i) else 1) * g y).
      assert (E : ctrl [q] U (fun y => g y * u y) = (fun y => g' y * u y)).
      { apply state_ext. intro y.
        rewrite (kickback U qs q (kpow lam (2 ^ i)) u g Hloc Hlin He Hg (Hin q (or_introl eq_refl)) y).
        unfold g'. ring. }
      rewrite E.
      assert (Hg' : only_on S qs g').
      { intros y y' Hy. unfold g'. rewrite (Hy q (Hin q (or_introl eq_refl))), (Hg y y' Hy). reflexivity. }
      rewrite (IH Ur (Datatypes.S i) g' (fun q' Hq' => Hin q' (or_intror Hq')) ltac:(simpl in Hlen; lia) Hrest Hg' z).
      simpl val. rewrite kpow_add, (kpow_mul S _ 2 (val r z)), kpow_sq_step. unfold g'.
      destruct (bit z q); simpl Nat.b2n.
      + rewrite kpow_S, kpow_0. ring.
      + rewrite kpow_0. ring.
  Qed.

  (* ---------------- exactness of phase estimation ---------------- *)
  Lemma indep_put qs (u : state) : indep S qs u -> forall x z, u (put qs x z) = u z.
  Proof.
    intros Hi x z.
    assert (H : forall l, (forall q, In q l -> In q qs) -> u (put l x z) = u z).
    { induction l as [|a r IH]; intro Hl; [reflexivity|].
      simpl put. unfold setb. destruct (Bool.eqb (bit (put r x z) a) (bit x a)).
      - apply IH. intros q Hq. apply Hl. right. exact Hq.
      - rewrite Hi by (apply Hl; left; reflexivity). apply IH. intros q Hq. apply Hl. right. exact Hq. }
    apply H. auto.
  Qed.

  Variable hp : nat -> A S.
  Hypothesis hp_0 : hp 0 = api.
  Hypothesis hp_S : forall k, aadd (hp (Datatypes.S k)) (hp (Datatypes.S k)) = hp k.
  Notation w := (w S hp).

  Lemma supp_masked qs x (u : state) : supp S qs x (masked S qs x u).
  Proof.
    intros y [q [Hq Hne]]. unfold masked.
    destruct (agree qs y x) eqn:E; [|reflexivity].
    exfalso. apply Hne. apply (proj1 (agree_spec qs y x) E). exact Hq.
  Qed.

  (* the Fourier transform of |x>_qs (x) u is the Fourier state of val qs x, times u *)
  Lemma qft_masked qs x (u : state) :
    NoDup qs -> indep S qs u -> forall z,
      den (s_qft S (fam S hp false) qs false true) (masked S qs x u) z
      = (kpow krs2 (length qs) * kpow (w (length qs)) (val qs x * val qs z)) * u z.
  Proof.
    intros Hnd Hi z.
    change (fam S hp false) with hp.
    rewrite (qft_dft S hp hp_0 hp_S qs Hnd (masked S qs x u) x (supp_masked qs x u) z).
    unfold masked. rewrite agree_put, (indep_put qs u Hi). reflexivity.
  Qed.

  (* QPESolver's circuit on the abstract level: register qs (first listed qubit controls U^(2^0)), system
     state u with U^(2^i) u = lam^(2^i) u, lam = w_n^m = e^{2 pi i m/2^n}; from |0..0>_qs (x) u the run ends
     EXACTLY in |m>_qs (x) u  (xm: any index whose register value is m) *)
  Theorem qpe_exact (qs : list N) (u : state) (Us : list (state -> state)) (m : nat) (x0 xm : N) :
    NoDup qs -> indep S qs u -> length Us = length qs ->
    all_eig qs u (kpow (w (length qs)) m) Us 0 ->
    val qs x0 = 0%nat -> val qs xm = m ->
    qpe_run S hp qs Us (masked S qs x0 u) = masked S qs xm u.
  Proof.
    intros Hnd Hi Hlen Heig Hx0 Hxm. unfold qpe_run.
    set (n := length qs) in *.
    set (F := s_qft S (fam S hp false) qs false true).
    set (g := fun z : N => kpow krs2 n * kpow (w n) (val qs x0 * val qs z)).
    assert (E1 : den F (masked S qs x0 u) = (fun z => g z * u z)).
    { apply state_ext. intro z. unfold F. rewrite (qft_masked qs x0 u Hnd Hi z). reflexivity. }
    assert (Hg : only_on S qs g).
    { intros y z Hy. unfold g. rewrite (val_ext qs y z Hy). reflexivity. }
    assert (E2 : cpowers S qs Us (fun z => g z * u z) = den F (masked S qs xm u)).
    { apply state_ext. intro z.
      rewrite (cpowers_kick qs u (kpow (w n) m) qs Us 0 g (fun q H => H) Hlen Heig Hg z).
      unfold F. rewrite (qft_masked qs xm u Hnd Hi z). fold n. unfold g.
      rewrite Hx0, Hxm. simpl Nat.pow. rewrite Nat.mul_0_l, kpow_0.
      rewrite (kpow_S S _ 0), kpow_0, (kpow_mul S (w n) m (val qs z)).
      replace (kpow (w n) m * 1) with (kpow (w n) m) by ring. ring. }
    rewrite E1, E2. unfold F.
    apply (proj1 (qft_inverse S hp qs true Hnd)).
  Qed.

  (* ---------------- the arithmetic of the iterative feedback (IterativeQPEControl.return_gates) ----------------
     Round j (j = 0 first) applies U^(2^(n-1-j)) controlled by the ancilla, eigenvalue w_n^(m 2^(n-1-j)) = w_(j+1)^m,
     and the correction PHASE(-pi * phase * 2^(n-1-j)) where phase = sum_{l<j} b_l / 2^(n-1-l) collects the digits
     b_l of m measured so far: its entry is conj(w_(j+1)^(m mod 2^j)).  The relative phase the ancilla sees is then
     exactly (-1)^(digit j of m): after the final H the ancilla is |digit j> with certainty. *)
  Lemma kconj_kpow (x : K) n : kconj (kpow x n) = kpow (kconj x) n.
  Proof. induction n as [|n IH]; simpl; [apply kconj_1|]. rewrite kconj_mul, IH. reflexivity. Qed.

  Lemma w_unit k : w k * kconj (w k) = 1.
  Proof.
    destruct k as [|k]; simpl.
    - rewrite kconj_1. ring.
    - rewrite kconj_mul.
      transitivity ((cis (hp k) * kconj (cis (hp k))) * (cis (hp k) * kconj (cis (hp k)))); [ring|].
      rewrite (cis_unit S). ring.
  Qed.

  Lemma kpow_unit (x : K) n : x * kconj x = 1 -> kpow x n * kpow (kconj x) n = 1.
  Proof.
    intro H. induction n as [|n IH]; simpl; [ring|].
    transitivity ((x * kconj x) * (kpow x n * kpow (kconj x) n)); [ring|]. rewrite H, IH. ring.
  Qed.

  Lemma kpow_m1 n : kpow (- (1)) n = if Nat.odd n then - (1) else 1.
  Proof.
    induction n as [|n IH]; [reflexivity|].
    rewrite kpow_S, IH, Nat.odd_succ, <- Nat.negb_odd. destruct (Nat.odd n); simpl; ring.
  Qed.

  Theorem iqpe_feedback_phase (j m : nat) :
    kpow (w (Datatypes.S j)) m * kconj (kpow (w (Datatypes.S j)) (m mod 2 ^ j))
    = if Nat.odd (m / 2 ^ j) then - (1) else 1.
  Proof.
    assert (Hp : (2 ^ j <> 0)%nat) by (apply Nat.pow_nonzero; lia).
    rewrite (Nat.div_mod m (2 ^ j) Hp) at 1.
    rewrite kpow_add, (kpow_mul S _ (2 ^ j) (m / 2 ^ j)), (kpow_w_half S hp hp_0 hp_S j), kpow_m1, kconj_kpow.
    set (r := (m mod 2 ^ j)%nat).
    transitivity ((if Nat.odd (m / 2 ^ j) then - (1) else 1)
                  * (kpow (w (Datatypes.S j)) r * kpow (kconj (w (Datatypes.S j))) r)); [ring|].
    rewrite (kpow_unit _ r (w_unit (Datatypes.S j))). ring.
  Qed.

  (* the hypotheses of qpe_exact are satisfiable by a non-trivial object: one register qubit (1), system
     qubit 0 in |1>, U = Z with eigenvalue -1 = w_1^1 *)
  Lemma qpe_hyps_example :
    let u : state := fun z => if bit z 0 then 1 else 0 in
    let U : state -> state := den_gate (Gate (B1 GZ 0%N) []) in
    indep S [1%N] u /\ all_eig [1%N] u (kpow (w 1) 1) [U] 0 /\ u 1%N = 1 /\ val [1%N] 2%N = 1%nat /\ val [1%N] 0%N = 0%nat.
  Proof.
    intros u U. split; [|split; [|split; [reflexivity | split; reflexivity]]].
    - intros z q [<-|[]]. unfold u. rewrite bit_flip_other by discriminate. reflexivity.
    - simpl all_eig. split; [|exact I]. split; [|split].
      + apply local_off_den_gate. intros q [<-|[]] [E|[]]. discriminate.
      + apply den_gate_linear.
      + intro z. unfold U, State.den_gate, State.ctrl, allset; simpl forallb; cbv iota.
        simpl den_base. unfold State.app1, mZ; simpl.
        change (cis (hp 0) * cis (hp 0)) with (w 1). rewrite (w_1 S hp hp_0). unfold u.
        destruct (bit z 0) eqn:E; rewrite ?bit_flip_same, ?E; simpl; ring.
  Qed.
End QpeProofs.

(* ---------------- CircuitUnitary.add_controls (Python level) ---------------- *)
Section AddControlsInterp.
  Variable S : KS.
  Variable Ang : Type.
  Variable ang : Ang -> A S.
  Notation interp := (interp S Ang ang).
  Notation interp_all := (interp_all S Ang ang).

  Ltac str_cases :=
    repeat match goal with
           | |- context [String.eqb ?a ?b] => destruct (String.eqb_spec a b); subst; simpl in *
           | H : context [String.eqb ?a ?b] |- _ => destruct (String.eqb_spec a b); subst; simpl in *
           end.

  (* whenever the re-named gate is one the semantics knows, it is the same base gate with the extra controls *)
  (* Gate.__init__ accepts a control list only for names starting with "C" (mk_gate of Linq/GateModel.v) *)
  Definition ctrl_named (g : pgate Ang) : Prop := starts_with_C (pname g) = false -> pcontrol g = None.

  Lemma interp_add_ctrl (cl : list Z) (g g' : pgate Ang) G G' :
    ctrl_named g ->
    add_ctrl cl g = Ok g' -> interp g = Some G -> interp g' = Some G' -> G' = s_add_ctrl S (map zn cl) G.
  Proof.
    unfold add_ctrl, ctrl_named. destruct g as [name t c p v]; simpl. intro Hcn.
    destruct (starts_with_C name) eqn:HC.
    - destruct c as [c|]; [|discriminate]. intro H; inversion H; subst; clear H.
      unfold Interp.interp; simpl.
      destruct t as [|t1 [|t2 [|t3 r]]]; try discriminate.
      + destruct (g1_of_name S Ang ang name p); [|discriminate].
        intros H1 H2; inversion H1; inversion H2; subst. unfold s_add_ctrl; simpl. rewrite map_app. reflexivity.
      + destruct (String.eqb name "SWAP" || String.eqb name "CSWAP").
        * destruct p; try discriminate. intros H1 H2; inversion H1; inversion H2; subst.
          unfold s_add_ctrl; simpl. rewrite map_app. reflexivity.
        * destruct (String.eqb name "XX"); [|discriminate].
          destruct p; try discriminate. intros H1 H2; inversion H1; inversion H2; subst.
          unfold s_add_ctrl; simpl. rewrite map_app. reflexivity.
    - rewrite (Hcn eq_refl). clear Hcn. intro H; inversion H; subst; clear H.
      unfold Interp.interp; simpl pname; simpl ptarget; simpl pcontrol; simpl pparam.
      destruct t as [|t1 [|t2 [|t3 r]]]; try discriminate.
      + unfold g1_of_name. destruct p as [|a|s]; try discriminate.
        * str_cases; try discriminate; intros H1 H2; inversion H1; inversion H2; subst; reflexivity.
        * str_cases; try discriminate; intros H1 H2; inversion H1; inversion H2; subst; reflexivity.
      + str_cases; try discriminate; destruct p; try discriminate;
          intros H1 H2; inversion H1; inversion H2; subst; reflexivity.
  Qed.

  Theorem interp_add_controls (cl : list Z) (gs gs' : list (pgate Ang)) C C' :
    Forall ctrl_named gs ->
    add_controls cl gs = Ok gs' -> interp_all gs = Some C -> interp_all gs' = Some C' ->
    C' = map (s_add_ctrl S (map zn cl)) C.
  Proof.
    unfold add_controls. revert gs' C C'. induction gs as [|g r IH]; simpl; intros gs' C C' Hn H HC HC'.
    - inversion H; subst. simpl in HC'. inversion HC; inversion HC'; reflexivity.
    - inversion Hn as [|g0 r0 Hng Hnr]; subst. destruct (add_ctrl cl g) as [g'|] eqn:Hg; simpl in H; [|discriminate].
      destruct (mapM (add_ctrl cl) r) as [r'|] eqn:Hr; simpl in H; [|discriminate].
      inversion H; subst; clear H. simpl in HC'.
      destruct (interp g) as [G|] eqn:HG; [|discriminate].
      destruct (Interp.interp_all S Ang ang r) as [R|] eqn:HR; [|discriminate].
      destruct (interp g') as [G'|] eqn:HG'; [|discriminate].
      destruct (Interp.interp_all S Ang ang r') as [R'|] eqn:HR'; [|discriminate].
      inversion HC; inversion HC'; subst. simpl.
      rewrite (interp_add_ctrl cl g g' G G' Hng Hg HG HG'), (IH r' R R' Hnr eq_refl eq_refl HR'). reflexivity.
  Qed.

  (* CircuitUnitary.add_controls, method "all": the result denotes the controlled circuit *)
  Theorem add_controls_controlled (cl : list Z) (gs gs' : list (pgate Ang)) C C' :
    Forall ctrl_named gs ->
    add_controls cl gs = Ok gs' -> interp_all gs = Some C -> interp_all gs' = Some C' ->
    Forall (base_off S (map zn cl)) C ->
    forall psi, den S C' psi = ctrl S (map zn cl) (den S C) psi.
  Proof.
    intros Hn H HC HC' Hoff psi. rewrite (interp_add_controls cl gs gs' C C' Hn H HC HC').
    apply add_controls_den. exact Hoff.
  Qed.
End AddControlsInterp.
