(* Frobenius.v — model of QubitOperator.frobenius_norm_compression (tangelo/toolboxes/operators/
   operators.py), definitions only; proofs in FrobeniusProofs.v.

   Python:   coef2_sum = 0.;  frob_factor = 2**(n_qubits // 2)
             self.terms = sorted(terms, key=abs(coef))            (stable, ascending)
             for term, coef: coef2_sum += abs(coef)**2
                             if sqrt(coef2_sum) > epsilon / frob_factor: keep term
   Coefficients are exact complex rationals (re, im); the loop is modelled in squared form, which is
   exact:  sqrt(s) > e / f   <->   e < 0  \/  s * f^2 > e^2     (f > 0, s >= 0),
   with f^2 = 2^(x2 n) where [x2 n] is TWICE the exponent of frob_factor.  The exponent expression and
   the comparison are regenerated from the source by translator/reduction_tables.py (gen/ReductionTables.v
   selects [x2_floor_half] / [x2_true_half] / ... and [cmp_sqrt_gt] / [cmp_sqrt_ge]). *)
From Coq Require Import QArith List Bool Arith.
Import ListNotations.
Open Scope Q_scope.

Definition cq : Type := (Q * Q)%type.                       (* re, im *)
Definition abs2 (c : cq) : Q := fst c * fst c + snd c * snd c.
Definition Qlt_bool (a b : Q) : bool := negb (Qle_bool b a).

(* menu of exponent expressions (twice the exponent of 2 in frob_factor) *)
Definition x2_floor_half (n : nat) : nat := (2 * (n / 2))%nat.      (* 2**(n // 2)       *)
Definition x2_ceil_half (n : nat) : nat := (2 * ((n + 1) / 2))%nat. (* 2**((n + 1) // 2) *)
Definition x2_true_half (n : nat) : nat := n.                        (* 2**(n / 2)        *)

(* menu of comparisons "sqrt(s) CMP e / f" in squared form; f2 = f^2 > 0 *)
Definition cmp_sqrt_gt (s e f2 : Q) : bool := Qlt_bool e 0 || Qlt_bool (e * e) (s * f2).
Definition cmp_sqrt_ge (s e f2 : Q) : bool := Qle_bool e 0 || Qle_bool (e * e) (s * f2).

Definition pow2 (k : nat) : Q := inject_Z (Z.pow 2 (Z.of_nat k)).

Section Frob.
  Variable W : Type.                                   (* term keys (Pauli words) *)
  Variable x2 : nat -> nat.
  Variable keep : Q -> Q -> Q -> bool.

  Definition term : Type := (W * cq)%type.

  (* sorted(..., key=abs): stable insertion sort, ascending in |c| (equivalently in |c|^2) *)
  Fixpoint insert_asc (t : term) (l : list term) : list term :=
    match l with
    | [] => [t]
    | u :: r => if Qle_bool (abs2 (snd t)) (abs2 (snd u)) then t :: l else u :: insert_asc t r
    end.
  Definition sort_asc (l : list term) : list term := fold_right insert_asc [] l.

  (* the loop: returns (kept, discarded), both in processing order *)
  Fixpoint loop (e f2 s : Q) (l : list term) : list term * list term :=
    match l with
    | [] => ([], [])
    | t :: r =>
      let s' := s + abs2 (snd t) in
      let '(k, d) := loop e f2 s' r in
      if keep s' e f2 then (t :: k, d) else (k, t :: d)
    end.

  Definition compress_split (e : Q) (n : nat) (l : list term) : list term * list term :=
    loop e (pow2 (x2 n)) 0 (sort_asc l).
  Definition compress (e : Q) (n : nat) (l : list term) : list term := fst (compress_split e n l).
  Definition discarded (e : Q) (n : nat) (l : list term) : list term := snd (compress_split e n l).

  Definition sum_abs2 (l : list term) : Q := fold_right (fun t acc => abs2 (snd t) + acc) 0 l.
End Frob.

Arguments compress {_}. Arguments discarded {_}. Arguments sum_abs2 {_}. Arguments sort_asc {_}.
Arguments compress_split {_}. Arguments loop {_}.
