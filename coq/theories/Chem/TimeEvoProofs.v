(* TimeEvoProofs.v — theorems about the model of get_exponentiated_qubit_operator_circuit / trotterize
   (TimeEvo.v).  Generic over the number structure S : KS and the number type of coefficients.

     suzuki_weighted_sum      for every weight g on words, every even order 2(k+1), every time t:
                              sum_j g(w_j) c_j over the Trotter-Suzuki sequence = (sum_k g(w_k) c_k) * t
                              (in particular the coefficients of each term add up to t * c_k)
     suzuki_palindromic       the sequence of every even order reads the same backwards
     den_scale, den_repeat    circuits are homogeneous; a repeated circuit is the iterated operation
     identity_uncontrolled / identity_one_control / identity_multi_control   identity-term handling: for EVERY
                              control list the gates denote the controlled phase e^{-ic} (source after fix ae252bf:
                              CPHASE(-c) on the last control, controlled by the others)
     identity_multi_control_asis, identity_multi_control_asis_refuted   the definition before the fix (CPHASE(-2c),
                              CRZ(2c) on the hard-coded target 0): correct only when 0 is not a control, ValueError otherwise
     exp_terms_eigen          joint eigenvector of the words: phase * circuit = e^{-i (sum of +-c_j)}
     trotterize_structure     circuit = n-fold repetition, phase number = n-fold sum
     trotterize_eigen         the same for trotterize; with suzuki_weighted_sum: e^{-i t E}  *)
From Coq Require Import String ZArith NArith List Bool Arith Lia Ring Permutation FunctionalExtensionality.
From Tangelo Require Import Num.KStruct QSem.State QSem.StateLemmas QSem.GateLemmas.
From Tangelo Require Import Pauli.Word Pauli.Action Pauli.ActionProofs.
From Tangelo Require Import Linq.GateModel Linq.Interp Linq.InterpProofs Chem.PauliExp Chem.PauliExpProofs Chem.TimeEvo.
Import ListNotations.
Open Scope list_scope.

(* ==================================================================== coefficient arithmetic *)
Section RingFacts.
  Variable Ang : Type.
  Variable Ops : cops Ang.
  Definition o_sub (x y : Ang) : Ang := o_add Ops x (o_opp Ops y).
  Hypothesis Rth : ring_theory (o_zero Ops) (o_one Ops) (o_add Ops) (o_mul Ops) o_sub (o_opp Ops) (@eq Ang).
  Add Ring angring : Rth.
  Hypothesis half_ok : forall t, o_add Ops (o_half Ops t) (o_half Ops t) = t.
  (* o_v k = 1 - 4 * o_u k *)
  Hypothesis v_ok : forall k, o_add Ops (o_v Ops k)
                                (o_add Ops (o_add Ops (o_u Ops k) (o_u Ops k)) (o_add Ops (o_u Ops k) (o_u Ops k)))
                              = o_one Ops.
  Notation "x + y" := (o_add Ops x y).
  Notation "x * y" := (o_mul Ops x y).
  Notation wsum := (wsum Ang Ops).
  Notation term := (term Ang).

  Lemma wsum_app g (L1 L2 : list term) : wsum g (L1 ++ L2) = wsum g L1 + wsum g L2.
  Proof. induction L1 as [|a L1 IH]; simpl; [ring|]. rewrite IH. ring. Qed.

  Lemma wsum_rev g (L : list term) : wsum g (rev L) = wsum g L.
  Proof. induction L as [|a L IH]; simpl; [reflexivity|]. rewrite wsum_app, IH. simpl. ring. Qed.

  Lemma wsum_scale1 g t (L : list term) : wsum g (scale1 Ang Ops t L) = wsum g L * t.
  Proof. induction L as [|a L IH]; simpl; [ring|]. rewrite IH. ring. Qed.

  Theorem suzuki_weighted_sum g k : forall (terms : list term) t,
    wsum g (suzuki_even Ang Ops k terms t) = wsum g terms * t.
  Proof.
    induction k as [|k IH]; intros terms t.
    - simpl. rewrite wsum_app, !wsum_scale1, wsum_rev.
      transitivity (wsum g terms * (o_half Ops t + o_half Ops t)); [ring|]. rewrite half_ok. reflexivity.
    - cbn [suzuki_even]. rewrite !wsum_app, !IH.
      set (u := o_u Ops (2 * (S k + 1))). set (v := o_v Ops (2 * (S k + 1))). set (W := wsum g terms).
      transitivity (W * t * (v + ((u + u) + (u + u)))); [ring|].
      unfold u, v. rewrite v_ok. ring.
  Qed.

  Theorem suzuki_order1_sum g (terms : list term) t : wsum g (scale1 Ang Ops t terms) = wsum g terms * t.
  Proof. apply wsum_scale1. Qed.

  Lemma zip_times_ones (terms : list term) :
    wsum (fun _ => o_one Ops) terms = wsum (fun _ => o_one Ops) terms.
  Proof. reflexivity. Qed.
End RingFacts.

Section Palindrome.
  Variable Ang : Type.
  Variable Ops : cops Ang.

  Lemma scale1_rev t (L : list (term Ang)) : rev (scale1 Ang Ops t L) = scale1 Ang Ops t (rev L).
  Proof. unfold scale1. symmetry. apply map_rev. Qed.

  Theorem suzuki_palindromic k : forall (terms : list (term Ang)) t,
    rev (suzuki_even Ang Ops k terms t) = suzuki_even Ang Ops k terms t.
  Proof.
    induction k as [|k IH]; intros terms t.
    - simpl. rewrite rev_app_distr, !scale1_rev, rev_involutive. reflexivity.
    - cbn [suzuki_even]. rewrite !rev_app_distr, !IH, <- !app_assoc. reflexivity.
  Qed.
End Palindrome.

(* ==================================================================== homogeneity, repetition *)
Section Homogeneous.
  Variable S : KS.
  Add Ring kring3 : (k_ring S).
  Open Scope K_scope.
  Notation state := (state S).

  Lemma den_gate_scale (g : gate S) (k : K S) (psi : state) :
    den_gate S g (sscale S k psi) = sscale S k (den_gate S g psi).
  Proof.
    apply state_ext. intro x. unfold den_gate, ctrl, sscale. destruct (allset x (gctrl g)); [|reflexivity].
    destruct (gbase g) as [u q|q1 q2|a q1 q2]; simpl.
    - unfold app1. destruct (bit x q); ring.
    - reflexivity.
    - unfold app_xx. ring.
  Qed.

  Lemma den_scale (c : circuit S) : forall (k : K S) (psi : state),
    den S c (sscale S k psi) = sscale S k (den S c psi).
  Proof.
    induction c as [|g r IH]; intros k psi; [reflexivity|].
    rewrite !den_cons, den_gate_scale. apply IH.
  Qed.

  Fixpoint kpow (k : K S) (n : nat) : K S := match n with 0%nat => 1 | Datatypes.S m => k * kpow k m end.

  Lemma kpow_cancel (a b d y : K S) n : a * d = 1 -> kpow a n * (kpow (b * d) n * y) = kpow b n * y.
  Proof.
    intro H. induction n as [|n IH]; simpl; [ring|].
    transitivity ((a * d) * b * (kpow a n * (kpow (b * d) n * y))); [ring|]. rewrite H, IH. ring.
  Qed.

  Lemma repeat_list_S {X} n (l : list X) : repeat_list (Datatypes.S n) l = l ++ repeat_list n l.
  Proof. reflexivity. Qed.

  (* a state that a circuit only rescales is rescaled n times by the n-fold repetition *)
  Lemma den_repeat_eigen (c : circuit S) (k : K S) (psi : state) n :
    den S c psi = sscale S k psi -> den S (repeat_list n c) psi = sscale S (kpow k n) psi.
  Proof.
    intro H. induction n as [|n IH].
    - apply state_ext. intro x. unfold sscale. simpl. ring.
    - rewrite repeat_list_S, den_app, H, den_scale, IH.
      apply state_ext. intro x. unfold sscale. simpl. ring.
  Qed.

  Lemma interp_all_repeat Ang (ang : Ang -> A S) gs C n :
    interp_all S Ang ang gs = Some C -> interp_all S Ang ang (repeat_list n gs) = Some (repeat_list n C).
  Proof.
    intro H. induction n as [|n IH]; [reflexivity|].
    rewrite !repeat_list_S. apply interp_all_app; assumption.
  Qed.
End Homogeneous.

(* ==================================================================== identity terms, eigenvectors *)
Section Evolution.
  Variable S : KS.
  Add Ring kring4 : (k_ring S).
  Open Scope K_scope.
  Variable Ang : Type.
  Variable ang : Ang -> A S.
  Variable Ops : cops Ang.
  Variable T : ptables.
  Hypothesis HA : ang_ok S Ang ang Ops.
  Hypothesis HT : tables_ok T.
  (* the identity-term part of the regenerated tables *)
  Record id_tables_ok : Prop := IdTablesOk {
    t_single : id_single T = [("PHASE", (-1)%Z)]%string;
    t_multi : id_multi T = [("CPHASE", (-1)%Z)]%string;
    t_target : id_target T = None }.
  Hypothesis HI : id_tables_ok.
  (* the tables of the source BEFORE fix ae252bf (kept for the as-is statements; never assumed together with HI) *)
  Record id_tables_asis : Prop := IdTablesAsIs {
    a_multi : id_multi T = [("CPHASE", (-2)%Z); ("CRZ", 2%Z)]%string;
    a_target : id_target T = Some 0%N }.
  Hypothesis HIa : id_tables_asis.

  Notation state := (state S).
  Notation interp_all := (interp_all S Ang ang).
  Notation dbl := (dbl S Ang ang).
  Notation term := (term Ang).

  (* the phase e^{-i p} a number p stands for *)
  Definition ph (p : Ang) : K S := cis (aopp (dbl p)).

  Lemma dbl_add x y : dbl (o_add Ops x y) = aadd (dbl x) (dbl y).
  Proof.
    unfold PauliExpProofs.dbl. rewrite (ang_add_ok _ _ _ _ HA).
    set (a := ang x). set (b := ang y).
    rewrite <- (a_assoc a b (aadd a b)), (a_assoc b a b), (a_comm b a), <- (a_assoc a b b), (a_assoc a a (aadd b b)).
    reflexivity.
  Qed.
  Lemma dbl_zero : dbl (o_zero Ops) = a0.
  Proof. unfold PauliExpProofs.dbl. rewrite (ang_zero_ok _ _ _ _ HA). apply a_0_l. Qed.
  Lemma dbl_opp x : dbl (o_opp Ops x) = aopp (dbl x).
  Proof. unfold PauliExpProofs.dbl. rewrite (ang_opp_ok _ _ _ _ HA), aopp_add. reflexivity. Qed.

  Lemma ph_add x y : ph (o_add Ops x y) = ph x * ph y.
  Proof. unfold ph. rewrite dbl_add, aopp_add, cis_add. reflexivity. Qed.
  Lemma ph_zero : ph (o_zero Ops) = 1.
  Proof. unfold ph. rewrite dbl_zero, aopp_0. apply cis_0. Qed.
  Lemma ph_opp x : ph (o_opp Ops x) = cis (dbl x).
  Proof. unfold ph. rewrite dbl_opp, aopp_inv. reflexivity. Qed.
  Lemma ph_nmul n x : ph (nmul Ang Ops n x) = kpow S (ph x) n.
  Proof. induction n as [|n IH]; simpl; [apply ph_zero|]. rewrite ph_add, IH. reflexivity. Qed.

  Lemma exp_word_nil a (psi : state) x : exp_word S [] a psi x = cis (aopp a) * psi x.
  Proof. unfold exp_word. simpl. rewrite <- (cosh_misinh S a). ring. Qed.

  (* ---- identity term, no control: no gate, the returned phase is e^{-ic} = exp(-i c I) ---- *)
  Theorem identity_uncontrolled c v :
    term_gates Ang Ops T [] c v None = Ok ([], c)
    /\ forall (psi : state) x, ph c * psi x = exp_word S [] (dbl c) psi x.
  Proof. split; [reflexivity|]. intros psi x. rewrite exp_word_nil. reflexivity. Qed.

  Lemma ang_zmul_m1 c : ang (zmul Ang Ops (-1) c) = aopp (ang c).
  Proof.
    simpl. rewrite (ang_opp_ok _ _ _ _ HA), (ang_add_ok _ _ _ _ HA), (ang_zero_ok _ _ _ _ HA), (a_0_r S).
    reflexivity.
  Qed.
  Lemma ang_zmul_2 c : ang (zmul Ang Ops 2 c) = dbl c.
  Proof.
    simpl. rewrite !(ang_add_ok _ _ _ _ HA), (ang_zero_ok _ _ _ _ HA), (a_0_r S). reflexivity.
  Qed.
  Lemma ang_zmul_m2 c : ang (zmul Ang Ops (-2) c) = aopp (dbl c).
  Proof.
    simpl. rewrite (ang_opp_ok _ _ _ _ HA), !(ang_add_ok _ _ _ _ HA), (ang_zero_ok _ _ _ _ HA), (a_0_r S).
    reflexivity.
  Qed.

  Local Opaque zmul.

  (* ---- identity term, one control q: PHASE(-c) on q = controlled e^{-ic} ---- *)
  Theorem identity_one_control c v q :
    exists gs C, term_gates Ang Ops T [] c v (Some [q]) = Ok (gs, o_zero Ops)
                 /\ interp_all gs = Some C
                 /\ forall psi : state, den S C psi = ctrl S [q] (exp_word S [] (dbl c)) psi.
  Proof.
    exists [PGate "PHASE" [zq q] None (PNum (zmul Ang Ops (-1) c)) v].
    exists [Gate (B1 (GPHASE (aopp (ang c))) q) []]. split; [|split].
    - unfold term_gates, id_gates. rewrite (t_single HI). reflexivity.
    - apply interp_all_one. unfold Interp.interp. simpl pname. simpl ptarget. simpl pcontrol. simpl pparam.
      cbn [g1_of_name String.eqb Ascii.eqb Bool.eqb orb]. rewrite ang_zmul_m1, zn_zq. reflexivity.
    - intro psi. apply state_ext. intro x. rewrite den_cons, den_nil. unfold den_gate, ctrl; simpl.
      rewrite andb_true_r, exp_word_nil. unfold app1; simpl. destruct (bit x q).
      + unfold PauliExpProofs.dbl. rewrite aopp_add, cis_add. ring.
      + ring.
  Qed.

  (* ---- identity term, several controls (current source): ONE gate CPHASE(-c) whose target is the last control and
          whose controls are the others = the phase e^{-ic} on the all-ones branch of the controls, for EVERY list of
          distinct controls (no proviso about qubit 0) ---- *)
  Lemma allset_split x (cs : list N) d : cs <> [] -> allset x cs = allset x (removelast cs) && bit x (last cs d).
  Proof.
    intro H. rewrite (app_removelast_last d H) at 1. unfold allset. rewrite forallb_app. simpl.
    rewrite andb_true_r. reflexivity.
  Qed.

  Theorem identity_multi_control c v q1 q2 r :
    NoDup (q1 :: q2 :: r) ->
    exists gs C, term_gates Ang Ops T [] c v (Some (q1 :: q2 :: r)) = Ok (gs, o_zero Ops)
                 /\ interp_all gs = Some C
                 /\ forall psi : state, den S C psi = ctrl S (q1 :: q2 :: r) (exp_word S [] (dbl c)) psi.
  Proof.
    intro Hnd.
    assert (Hne : q1 :: q2 :: r <> []) by discriminate.
    assert (Hnd' : NoDup (last (q1 :: q2 :: r) 0%N :: removelast (q1 :: q2 :: r))).
    { apply (Permutation_NoDup (l := removelast (q1 :: q2 :: r) ++ [last (q1 :: q2 :: r) 0%N])).
      - apply Permutation_sym, Permutation_cons_append.
      - rewrite <- (app_removelast_last 0%N Hne). exact Hnd. }
    assert (Htg : term_gates Ang Ops T [] c v (Some (q1 :: q2 :: r))
                  = Ok ([PGate "CPHASE" [zq (last (q1 :: q2 :: r) 0%N)] (Some (map zq (removelast (q1 :: q2 :: r))))
                               (PNum (zmul Ang Ops (-1) c)) v], o_zero Ops)).
    { unfold term_gates, id_gates. rewrite (t_target HI), (t_multi HI).
      cbn [mapM fst snd]. rewrite (mk_some Ang _ _ _ _ _ Hnd'). reflexivity. }
    revert Htg Hnd' Hne. generalize (q1 :: q2 :: r). intros cs Htg Hnd' Hne.
    set (t := last cs 0%N) in *. set (rest := removelast cs) in *.
    exists [PGate "CPHASE" [zq t] (Some (map zq rest)) (PNum (zmul Ang Ops (-1) c)) v].
    exists [Gate (B1 (GPHASE (aopp (ang c))) t) rest]. split; [exact Htg|split].
    - apply interp_all_one. unfold Interp.interp. simpl pname. simpl ptarget. simpl pcontrol. simpl pparam.
      cbn [g1_of_name String.eqb Ascii.eqb Bool.eqb orb]. rewrite ang_zmul_m1, zn_zq, map_zn_zq. reflexivity.
    - intro psi. apply state_ext. intro x. rewrite den_cons, den_nil. unfold den_gate, ctrl; simpl gctrl; simpl gbase.
      rewrite (allset_split x cs 0%N Hne). fold t rest.
      destruct (allset x rest); [|reflexivity]. simpl andb.
      rewrite exp_word_nil. unfold den_base, app1; simpl. destruct (bit x t).
      + unfold PauliExpProofs.dbl. rewrite aopp_add, cis_add. ring.
      + ring.
  Qed.

  (* ---- the definition BEFORE the fix: CPHASE(-2c) CRZ(2c) on the hard-coded target (qubit 0) is the controlled phase
          PROVIDED that target is not among the controls ... ---- *)
  Theorem identity_multi_control_asis c v q1 q2 r :
    NoDup (0%N :: q1 :: q2 :: r) ->
    exists gs C, term_gates Ang Ops T [] c v (Some (q1 :: q2 :: r)) = Ok (gs, o_zero Ops)
                 /\ interp_all gs = Some C
                 /\ forall psi : state, den S C psi = ctrl S (q1 :: q2 :: r) (exp_word S [] (dbl c)) psi.
  Proof.
    intro Hnd. set (t0 := 0%N) in *.
    assert (Htg : term_gates Ang Ops T [] c v (Some (q1 :: q2 :: r))
                  = Ok ([PGate "CPHASE" [zq t0] (Some (map zq (q1 :: q2 :: r))) (PNum (zmul Ang Ops (-2) c)) v;
                         PGate "CRZ" [zq t0] (Some (map zq (q1 :: q2 :: r))) (PNum (zmul Ang Ops 2 c)) v], o_zero Ops)).
    { unfold term_gates, id_gates. rewrite (a_target HIa), (a_multi HIa). fold t0.
      cbn [mapM fst snd]. rewrite !(mk_some Ang _ t0 (q1 :: q2 :: r)) by exact Hnd. reflexivity. }
    revert Htg Hnd. generalize (q1 :: q2 :: r). intros cs Htg Hnd. clearbody t0.
    exists [PGate "CPHASE" [zq t0] (Some (map zq cs)) (PNum (zmul Ang Ops (-2) c)) v;
            PGate "CRZ" [zq t0] (Some (map zq cs)) (PNum (zmul Ang Ops 2 c)) v].
    exists [Gate (B1 (GPHASE (aopp (dbl c))) t0) cs; Gate (B1 (GRZ (dbl c)) t0) cs]. split; [exact Htg|split].
    - apply interp_all_cons; [|apply interp_all_one]; unfold Interp.interp;
        simpl pname; simpl ptarget; simpl pcontrol; simpl pparam;
        cbn [g1_of_name String.eqb Ascii.eqb Bool.eqb orb];
        rewrite ?ang_zmul_m2, ?ang_zmul_2, zn_zq, map_zn_zq; reflexivity.
    - intro psi. apply state_ext. intro x. rewrite !den_cons, den_nil. unfold den_gate, ctrl; simpl gctrl; simpl gbase.
      destruct (allset x cs) eqn:Hx; [|reflexivity].
      rewrite exp_word_nil. unfold den_base, app1; simpl. rewrite Hx.
      destruct (bit x t0).
      + transitivity (cis (dbl c) * cis (aopp (dbl c)) * (cis (aopp (dbl c)) * psi x)); [ring|].
        rewrite (cis_opp_inv S). ring.
      + ring.
  Qed.

  (* ... and when the hard-coded target IS among several controls that construction raises ValueError (Gate refuses
     target = control): the defect repaired by fix ae252bf *)
  Theorem identity_multi_control_asis_refuted c v :
    term_gates Ang Ops T [] c v (Some [0%N; 1%N]) = Err ValueError.
  Proof. unfold term_gates, id_gates. rewrite (a_target HIa), (a_multi HIa). reflexivity. Qed.

  (* ---- joint eigenvectors ---- *)
  Definition sg (b : bool) : K S := if b then 1 else - (1).

  (* s w = true: eigenvalue +1 of the word w, false: -1 *)
  Definition eigen (s : list (N * pauli) -> bool) (L : list term) (psi : state) : Prop :=
    forall w c, In (w, c) L -> w <> [] -> forall x, word_den S w psi x = sg (s w) * psi x.

  (* the number E with  phase * circuit psi = e^{-iE} psi : signed coefficients of the kept terms *)
  Definition esum (s : list (N * pauli) -> bool) (L : list term) : Ang :=
    fold_right (fun wc acc =>
                  o_add Ops (match fst wc with
                             | [] => snd wc
                             | _ :: _ => if o_small Ops (snd wc) then o_zero Ops
                                         else if s (fst wc) then snd wc else o_opp Ops (snd wc)
                             end) acc) (o_zero Ops) L.

  Definition words_ok (L : list term) : Prop := Forall (fun wc => NoDup (map fst (fst wc))) L.

  Lemma exp_word_eigen w a (psi : state) b :
    (forall x, word_den S w psi x = sg b * psi x) ->
    exp_word S w a psi = sscale S (if b then cis (aopp a) else cis a) psi.
  Proof.
    intro H. apply state_ext. intro x. unfold exp_word, sscale. rewrite H. destruct b; unfold sg.
    - rewrite <- (cosh_misinh S a). ring.
    - rewrite <- (cosh_sub_misinh S a). ring.
  Qed.

  Theorem exp_terms_eigen s v : forall (L : list term) (psi : state),
    words_ok L -> eigen s L psi ->
    exists gs p C, exp_terms Ang Ops T L v None = Ok (gs, p)
                   /\ interp_all gs = Some C
                   /\ den S C psi = sscale S (kmul (ph (esum s L)) (cis (dbl p))) psi.
  Proof.
    induction L as [|[w c] r IH]; intros psi Hw He.
    - exists [], (o_zero Ops), []. split; [reflexivity|]. split; [reflexivity|].
      apply state_ext. intro x. unfold sscale. simpl esum. rewrite ph_zero, dbl_zero, cis_0. simpl. ring.
    - inversion Hw as [|a l Hw1 Hw2]; subst. simpl in Hw1.
      assert (He' : eigen s r psi) by (intros w' c' Hin; apply (He w' c'); right; exact Hin).
      destruct (IH psi Hw2 He') as [gs [p [C [E1 [E2 E3]]]]].
      destruct w as [|qp w'].
      + (* identity term: contributes to the returned phase only *)
        exists gs, (o_add Ops c p), C. split; [|split; [exact E2|]].
        * cbn [exp_terms term_gates]. simpl bind. rewrite E1. reflexivity.
        * rewrite E3. apply state_ext. intro x. unfold sscale. cbn [esum fold_right fst snd].
          fold (esum s r). rewrite ph_add, dbl_add, cis_add.
          transitivity ((ph c * cis (dbl c)) * (ph (esum s r) * cis (dbl p) * psi x)); [|ring].
          unfold ph. rewrite (a_comm_mul S (cis (aopp (dbl c)))), (cis_opp_inv S). ring.
      + set (w := qp :: w') in *.
        destruct (o_small Ops c) eqn:Hsm.
        * (* below the threshold: dropped *)
          exists gs, (o_add Ops (o_zero Ops) p), C. split; [|split; [exact E2|]].
          -- unfold w. cbn [exp_terms term_gates]. rewrite Hsm. simpl bind. rewrite E1. reflexivity.
          -- rewrite E3. apply state_ext. intro x. unfold sscale. cbn [esum fold_right fst snd].
             fold (esum s r). unfold w. rewrite Hsm, !ph_add, !dbl_add, ph_zero, dbl_zero, !cis_add, cis_0. ring.
        * (* kept: the gates of exp(-i c w) *)
          assert (Hne : w <> []) by (unfold w; discriminate).
          destruct (exp_pauliword_correct S Ang ang Ops T HA HT w c v None Hne Hw1 (NoDup_nil _)
                      (fun q (H : In q []) => match H with end)) as [g1 [C1 [F1 [F2 F3]]]].
          exists (g1 ++ gs), (o_add Ops (o_zero Ops) p), (C1 ++ C). split; [|split].
          -- unfold w in *. cbn [exp_terms term_gates]. rewrite Hsm, F1. simpl bind. rewrite E1. reflexivity.
          -- apply interp_all_app; assumption.
          -- rewrite den_app, F3. simpl ctl. rewrite ctrl_nil.
             rewrite (exp_word_eigen w (dbl c) psi (s w)) by (apply (He w c); [left; reflexivity | exact Hne]).
             rewrite den_scale, E3.
             apply state_ext. intro x. unfold sscale. subst w. cbn [esum fold_right fst snd]. fold (esum s r).
             rewrite Hsm, !ph_add, !dbl_add, dbl_zero, !cis_add, cis_0.
             destruct (s (qp :: w')).
             ++ unfold ph. ring.
             ++ rewrite ph_opp. ring.
  Qed.

  (* phase * circuit: multiply by the returned phase e^{-ip} *)
  Corollary exp_terms_eigen_phase s v (L : list term) (psi : state) :
    words_ok L -> eigen s L psi ->
    exists gs p C, exp_terms Ang Ops T L v None = Ok (gs, p) /\ interp_all gs = Some C
                   /\ forall x, ph p * den S C psi x = ph (esum s L) * psi x.
  Proof.
    intros Hw He. destruct (exp_terms_eigen s v L psi Hw He) as [gs [p [C [E1 [E2 E3]]]]].
    exists gs, p, C. split; [exact E1|]. split; [exact E2|]. intro x. rewrite E3. unfold sscale.
    transitivity ((ph p * cis (dbl p)) * (ph (esum s L) * psi x)); [ring|].
    unfold ph. rewrite (a_comm_mul S (cis (aopp (dbl p)))), (cis_opp_inv S). ring.
  Qed.

  (* ---- trotterize: n-fold repetition, phase ** n ---- *)
  Theorem trotterize_structure terms time n order v control gs p :
    trotterize Ang Ops T terms time n order v control = Ok (gs, p) ->
    exists g1 p1, exp_qubit_op Ang Ops T terms (time_div Ang Ops n time) v order control = Ok (g1, p1)
                  /\ gs = repeat_list n g1 /\ p = nmul Ang Ops n p1 /\ ph p = kpow S (ph p1) n.
  Proof.
    unfold trotterize. destruct (n =? 0)%nat; [discriminate|].
    destruct (exp_qubit_op Ang Ops T terms (time_div Ang Ops n time) v order control) as [[g1 p1]|e]; [|discriminate].
    simpl. intro H. inversion H; subst. exists g1, p1. repeat split. apply ph_nmul.
  Qed.

  Theorem trotterize_eigen s terms time n order v L (psi : state) :
    n <> 0%nat -> timed Ang Ops terms (time_div Ang Ops n time) order = Ok L ->
    words_ok L -> eigen s L psi ->
    exists gs p C, trotterize Ang Ops T terms time n order v None = Ok (gs, p)
                   /\ interp_all gs = Some C
                   /\ forall x, ph p * den S C psi x = kpow S (ph (esum s L)) n * psi x.
  Proof.
    intros Hn Ht Hw He.
    destruct (exp_terms_eigen s v L psi Hw He) as [g1 [p1 [C1 [E1 [E2 E3]]]]].
    exists (repeat_list n g1), (nmul Ang Ops n p1), (repeat_list n C1). split; [|split].
    - unfold trotterize, exp_qubit_op. destruct (Nat.eqb_spec n 0); [contradiction|].
      rewrite Ht. simpl bind. rewrite E1. reflexivity.
    - apply interp_all_repeat. exact E2.
    - intro x. rewrite (den_repeat_eigen S C1 _ psi n E3), ph_nmul. unfold sscale.
      apply kpow_cancel. unfold ph. rewrite (a_comm_mul S (cis (aopp (dbl p1)))). apply (cis_opp_inv S).
  Qed.
End Evolution.

(* ==================================================================== the combination:
   commuting terms (joint eigenvector), scalar time, n steps, order 1 or any even order:
   phase * circuit psi = e^{-i t E} psi  with  E = sum_k (+-1) c_k  the eigenvalue of H on psi *)
Section Combined.
  Variable S : KS.
  Add Ring kring5 : (k_ring S).
  Variable Ang : Type.
  Variable ang : Ang -> A S.
  Variable Ops : cops Ang.
  Variable T : ptables.
  Hypothesis HA : ang_ok S Ang ang Ops.
  Hypothesis HT : tables_ok T.
  Hypothesis Rth : ring_theory (o_zero Ops) (o_one Ops) (o_add Ops) (o_mul Ops) (o_sub Ang Ops) (o_opp Ops) (@eq Ang).
  Add Ring angring2 : Rth.
  Hypothesis half_ok : forall t, o_add Ops (o_half Ops t) (o_half Ops t) = t.
  Hypothesis v_ok : forall k, o_add Ops (o_v Ops k)
                                (o_add Ops (o_add Ops (o_u Ops k) (o_u Ops k)) (o_add Ops (o_u Ops k) (o_u Ops k)))
                              = o_one Ops.
  Hypothesis divn_ok : forall n t, n <> 0%nat -> nmul Ang Ops n (o_divn Ops n t) = t.
  Notation term := (term Ang).
  Notation "x + y" := (o_add Ops x y).
  Notation "x * y" := (o_mul Ops x y).

  (* eigenvalue sign of a word as a number; the identity has eigenvalue 1 *)
  Definition sgw (s : list (N * pauli) -> bool) (w : list (N * pauli)) : Ang :=
    match w with [] => o_one Ops | _ :: _ => if s w then o_one Ops else o_opp Ops (o_one Ops) end.

  (* no term of the sequence falls below the threshold *)
  Definition nodrop (L : list term) : Prop :=
    Forall (fun wc => fst wc <> [] -> o_small Ops (snd wc) = false) L.

  Lemma esum_wsum s (L : list term) : nodrop L -> esum Ang Ops s L = wsum Ang Ops (sgw s) L.
  Proof.
    induction 1 as [|[w c] r Hd Hr IH]; [reflexivity|].
    cbn [esum wsum fold_right fst snd]. fold (esum Ang Ops s r). fold (wsum Ang Ops (sgw s) r). rewrite IH.
    destruct w as [|qp w']; cbn [sgw fst snd]; [ring|].
    simpl in Hd. rewrite Hd by discriminate. destruct (s (qp :: w')); ring.
  Qed.

  Lemma in_scale1 t (L : list term) w c : In (w, c) (scale1 Ang Ops t L) -> exists c', In (w, c') L.
  Proof.
    unfold scale1. rewrite in_map_iff. intros [[w' c'] [E Hin]]. inversion E; subst. exists c'. exact Hin.
  Qed.

  Lemma in_suzuki_even k : forall (terms : list term) t w c,
    In (w, c) (suzuki_even Ang Ops k terms t) -> exists c', In (w, c') terms.
  Proof.
    induction k as [|k IH]; intros terms t w c Hin.
    - simpl in Hin. apply in_app_or in Hin. destruct Hin as [H|H]; apply in_scale1 in H; destruct H as [c' H].
      + exists c'. exact H.
      + exists c'. apply in_rev. exact H.
    - cbn [suzuki_even] in Hin.
      repeat (apply in_app_or in Hin; destruct Hin as [Hin|Hin]); eapply IH; exact Hin.
  Qed.

  Lemma in_suzuki order (terms L : list term) t w c :
    suzuki Ang Ops order terms t = Ok L -> In (w, c) L -> exists c', In (w, c') terms.
  Proof.
    unfold suzuki. destruct (order =? 1)%nat.
    - intro H. inversion H; subst. apply in_scale1.
    - destruct (order =? 0)%nat; [discriminate|]. destruct (Nat.even order); [|discriminate].
      intro H. inversion H; subst. apply in_suzuki_even.
  Qed.

  Lemma suzuki_wsum g order (terms L : list term) t :
    suzuki Ang Ops order terms t = Ok L -> wsum Ang Ops g L = wsum Ang Ops g terms * t.
  Proof.
    unfold suzuki. destruct (order =? 1)%nat.
    - intro H. inversion H; subst. apply (wsum_scale1 Ang Ops Rth).
    - destruct (order =? 0)%nat; [discriminate|]. destruct (Nat.even order); [|discriminate].
      intro H. inversion H; subst. apply (suzuki_weighted_sum Ang Ops Rth half_ok v_ok).
  Qed.

  Lemma nmul_mul n x y : nmul Ang Ops n (x * y) = x * nmul Ang Ops n y.
  Proof. induction n as [|n IH]; simpl; [ring|]. rewrite IH. ring. Qed.

  Theorem commuting_sum_exact s terms t n order v L (psi : state S) :
    n <> 0%nat -> suzuki Ang Ops order terms (o_divn Ops n t) = Ok L -> nodrop L ->
    words_ok Ang terms -> eigen S Ang s terms psi ->
    exists gs p C, trotterize Ang Ops T terms (TScalar t) n order v None = Ok (gs, p)
                   /\ interp_all S Ang ang gs = Some C
                   /\ forall x, kmul (ph S Ang ang p) (den S C psi x)
                                = kmul (ph S Ang ang (wsum Ang Ops (sgw s) terms * t)) (psi x).
  Proof.
    intros Hn HL Hnd Hw He.
    assert (HwL : words_ok Ang L).
    { unfold words_ok in *. rewrite Forall_forall in *. intros [w c] Hin.
      destruct (in_suzuki order terms L _ w c HL Hin) as [c' Hin']. apply (Hw (w, c') Hin'). }
    assert (HeL : eigen S Ang s L psi).
    { intros w c Hin. destruct (in_suzuki order terms L _ w c HL Hin) as [c' Hin']. apply (He w c' Hin'). }
    destruct (trotterize_eigen S Ang ang Ops T HA HT s terms (TScalar t) n order v L psi Hn HL HwL HeL)
      as [gs [p [C [E1 [E2 E3]]]]].
    exists gs, p, C. split; [exact E1|]. split; [exact E2|]. intro x. rewrite E3.
    rewrite <- (ph_nmul S Ang ang Ops HA), (esum_wsum s L Hnd), (suzuki_wsum _ order terms L _ HL).
    rewrite nmul_mul, divn_ok by exact Hn. reflexivity.
  Qed.
End Combined.

(* a concrete joint eigenvector (non-vacuity of the eigenvector theorems): Z on qubit 0 and the
   indicator of "qubit 0 is 0" *)
Section Witness.
  Variable S : KS.
  Add Ring kring6 : (k_ring S).
  Variable Ang : Type.
  Lemma eigen_Z0 (c : Ang) :
    eigen S Ang (fun _ => true) [([(0%N, PZ)], c)] (fun x => if bit x 0 then k0 else k1).
  Proof.
    intros w c' [H|[]] _ x. inversion H; subst. unfold word_den, sg; simpl. unfold app1; simpl.
    destruct (bit x 0); ring.
  Qed.
End Witness.
