(* Ansatz.v — index-table state machines of the ansatz classes of
   tangelo/toolboxes/ansatz_generator (C07).  DEFINITIONS ONLY (proofs: AnsatzProofs.v).

   What is modelled is the Tangelo-authored bookkeeping that ties variational parameters to gate
   positions: the circuit of an ansatz is determined by
       - its "structure"  : the ordered list of exponentiated Pauli words / excitations, and
       - its "vg"         : the ordered list of parameters of circuit._variational_gates,
   and update_var_params overwrites entries of vg through a cached table.  The operator generator
   (openfermion + qubit encoding) is NOT modelled: it is a Section variable  gen : P -> op
   (op = the items() of the generated QubitOperator, in dict order).  Python's IndexError / KeyError
   / ValueError are results  Err _  (Linq/GateModel.v). *)
From Coq Require Import List Arith Bool PeanoNat ZArith.
From Tangelo Require Import Linq.GateModel.
Import ListNotations.

(* ------------------------------------------------------------------------------------------------ *)
(* Python list item assignment  l[i] = x  (i >= 0): IndexError when out of range *)
Fixpoint upd {X} (i : nat) (x : X) (l : list X) {struct l} : res (list X) :=
  match l with
  | [] => Err IndexError
  | y :: r => match i with
              | O => Ok (x :: r)
              | S j => match upd j x r with Ok r' => Ok (y :: r') | Err e => Err e end
              end
  end.

(* for i, x in enumerate(vals): l[start + i] = x *)
Fixpoint wblock {X} (start : nat) (vals : list X) (l : list X) : res (list X) :=
  match vals with
  | [] => Ok l
  | x :: r => match upd start x l with Ok l' => wblock (S start) r l' | Err e => Err e end
  end.

(* l[i] = x for a Python int i: negative indices count from the end *)
Definition pyupd {X} (i : Z) (x : X) (l : list X) : res (list X) :=
  if (i <? 0)%Z
  then (if (- i <=? Z.of_nat (length l))%Z then upd (length l - Z.to_nat (- i)) x l else Err IndexError)
  else upd (Z.to_nat i) x l.
Fixpoint wblockz {X} (start : Z) (vals : list X) (l : list X) : res (list X) :=
  match vals with
  | [] => Ok l
  | x :: r => match pyupd start x l with Ok l' => wblockz (start + 1)%Z r l' | Err e => Err e end
  end.

(* list(enumerate(l, k)) with the pair flipped: (item, index) *)
Fixpoint number {X} (k : nat) (l : list X) : list (X * nat) :=
  match l with [] => [] | x :: r => (x, k) :: number (S k) r end.

(* a history of calls on one object *)
Fixpoint run_hist {S P} (step : S -> P -> res S) (s : S) (l : list P) : res S :=
  match l with
  | [] => Ok s
  | p :: r => match step s p with Ok s' => run_hist step s' r | Err e => Err e end
  end.

Definition sum (l : list nat) : nat := fold_right Nat.add 0 l.

(* ================================================================================================ *)
(* 1. Pauli-word tables: UCCSD, QCC, UpCCGSD (layers), UCCGD (stored order)                          *)
(* ================================================================================================ *)
Section Table.
  Variables W C V : Type.          (* Pauli word, coefficient, gate parameter *)
  Variable weqb : W -> W -> bool.
  Variable wlen : W -> nat.        (* len(pauli_word): the sort key *)
  Variable ang : C -> V.           (* 2*coef if coef >= 0 else 4*pi + 2*coef *)

  Definition op := list (W * C).   (* qubit_op.terms.items() in dict order *)
  Definition keys (o : op) : list W := map fst o.
  Definition table := list (W * nat).   (* pauli_to_angles_mapping, insertion order *)

  Fixpoint wmem (w : W) (l : list W) : bool :=
    match l with [] => false | y :: r => weqb w y || wmem w r end.
  Definition subset (a b : list W) : bool := forallb (fun w => wmem w b) a.
  (* set(a) != set(b) *)
  Definition keys_differ (a b : list W) : bool := negb (subset a b && subset b a).

  (* table[w] *)
  Fixpoint tlookup (w : W) (t : table) : res nat :=
    match t with
    | [] => Err KeyError
    | (y, i) :: r => if weqb w y then Ok i else tlookup w r
    end.
  (* table[w] = i *)
  Fixpoint tset (w : W) (i : nat) (t : table) : table :=
    match t with
    | [] => [(w, i)]
    | (y, j) :: r => if weqb w y then (y, i) :: r else (y, j) :: tset w i r
    end.
  (* terms[w] *)
  Fixpoint assoc (w : W) (o : op) : res C :=
    match o with
    | [] => Err KeyError
    | (y, c) :: r => if weqb w y then Ok c else assoc w r
    end.

  (* sorted(items, key=lambda x: len(x[0])) — stable *)
  Fixpoint ins (x : W * C) (l : op) : op :=
    match l with
    | [] => [x]
    | y :: r => if wlen (fst x) <=? wlen (fst y) then x :: l else y :: ins x r
    end.
  Definition sort_len (o : op) : op := fold_right ins [] o.
  Definition layer_vg (s : op) : list V := map (fun wc => ang (snd wc)) s.

  (* ---- one table (UCCSD; QCC as repaired) ---- *)
  Record tstate := TState { tab : table; twords : list W; tvg : list V }.

  Definition tbuild (o : op) : tstate :=
    let s := sort_len o in TState (number 0 (keys s)) (keys s) (layer_vg s).

  (* for pauli_word, coef in qubit_op.terms.items(): vg[table[pauli_word]].parameter = ang(coef) *)
  Fixpoint twrite (t : table) (o : op) (v : list V) : res (list V) :=
    match o with
    | [] => Ok v
    | (w, c) :: r => match tlookup w t with
                     | Err e => Err e
                     | Ok i => match upd i (ang c) v with Err e => Err e | Ok v' => twrite t r v' end
                     end
    end.

  Definition tupdate (s : tstate) (o : op) : res tstate :=
    if keys_differ (map fst (tab s)) (keys o) then Ok (tbuild o)
    else match twrite (tab s) o (tvg s) with
         | Err e => Err e
         | Ok v => Ok (TState (tab s) (twords s) v)
         end.

  (* ---- QCC as written: self.pauli_to_angles_mapping = {} in __init__, never cleared by build_circuit ---- *)
  Definition qcc_build_asis (t0 : table) (o : op) : tstate :=
    let s := sort_len o in
    TState (fold_left (fun t wi => tset (fst wi) (snd wi) t) (number 0 (keys s)) t0) (keys s) (layer_vg s).
  Definition qcc_update_asis (s : tstate) (o : op) : res tstate :=
    if keys_differ (map fst (tab s)) (keys o) then Ok (qcc_build_asis (tab s) o)
    else match twrite (tab s) o (tvg s) with
         | Err e => Err e
         | Ok v => Ok (TState (tab s) (twords s) v)
         end.

  (* ---- layers (UpCCGSD): one table per layer, global gate indices = local index + offset ---- *)
  Record lstate := LState { ltabs : list table; lwords : list W; lvg : list V }.

  (* repaired: running sum of the layer sizes *)
  Fixpoint ltabs_fixed (off : nat) (ss : list op) : list table :=
    match ss with [] => [] | s :: r => number off (keys s) :: ltabs_fixed (off + length s) r end.
  (* as written: sum_prev[0] = 0, sum_prev[k+1] = len(layer k)   (not cumulative) *)
  Fixpoint ltabs_asis (off : nat) (ss : list op) : list table :=
    match ss with [] => [] | s :: r => number off (keys s) :: ltabs_asis (length s) r end.

  Definition lbuild (mk : nat -> list op -> list table) (os : list op) : lstate :=
    let ss := map sort_len os in
    LState (mk 0 ss) (concat (map keys ss)) (concat (map layer_vg ss)).

  (* for current_k in range(k): if keys changed: build_circuit; break  else write through *)
  Fixpoint lloop (ts : list table) (os : list op) (v : list V) : res (option (list V)) :=
    match ts, os with
    | t :: tr, o :: orr =>
        if keys_differ (map fst t) (keys o) then Ok None
        else match twrite t o v with Err e => Err e | Ok v' => lloop tr orr v' end
    | _, _ => Ok (Some v)
    end.
  Definition lupdate (mk : nat -> list op -> list table) (s : lstate) (os : list op) : res lstate :=
    match lloop (ltabs s) os (lvg s) with
    | Err e => Err e
    | Ok None => Ok (lbuild mk os)
    | Ok (Some v) => Ok (LState (ltabs s) (lwords s) v)
    end.

  (* ---- UCCGD: pauli_order = list(terms.items()) (no sort); update walks the STORED order ---- *)
  Record gstate := GState { gorder : list W; gvg : list V }.
  Definition gbuild (o : op) : gstate := GState (keys o) (layer_vg o).
  Fixpoint gvals (ws : list W) (o : op) : res (list V) :=
    match ws with
    | [] => Ok []
    | w :: r => match assoc w o with
                | Err e => Err e
                | Ok c => match gvals r o with Err e => Err e | Ok vs => Ok (ang c :: vs) end
                end
    end.
  Definition gupdate (s : gstate) (o : op) : res gstate :=
    if keys_differ (gorder s) (keys o) then Ok (gbuild o)
    else match gvals (gorder s) o with
         | Err e => Err e
         | Ok vals => match wblock 0 vals (gvg s) with
                      | Err e => Err e
                      | Ok v => Ok (GState (gorder s) v)
                      end
         end.

  (* ---- with the generator ---- *)
  Variable P : Type.
  Variable gen : P -> op.
  Definition H_order : Prop :=
    forall th th', keys_differ (keys (gen th)) (keys (gen th')) = false -> keys (gen th) = keys (gen th').
  Definition H_nodup : Prop := forall th, NoDup (keys (gen th)).

  Definition uccsd_build (th : P) := tbuild (gen th).
  Definition uccsd_update (s : tstate) (th : P) := tupdate s (gen th).
  Definition uccgd_build (th : P) := gbuild (gen th).
  Definition uccgd_update (s : gstate) (th : P) := gupdate s (gen th).
End Table.

(* layers with one generator per layer: gens th = [gen_0 th; ...; gen_{k-1} th] *)
Section Layers.
  Variables W C V P : Type.
  Variable weqb : W -> W -> bool.
  Variable wlen : W -> nat.
  Variable ang : C -> V.
  Variable gens : P -> list (op W C).
  (* every layer's generator: same number of layers for all parameters, dict keys unique,
     key order depends only on the key set (H_order per layer) *)
  Definition HL_layers : Prop :=
    forall th th', Forall2 (fun o o' => NoDup (keys W C o) /\ NoDup (keys W C o') /\
                              (keys_differ W weqb (keys W C o) (keys W C o') = false -> keys W C o = keys W C o'))
                           (gens th) (gens th').
  Definition upccgsd_build mk (th : P) := lbuild W C V wlen ang mk (gens th).
  Definition upccgsd_update mk (s : lstate W V) (th : P) := lupdate W C V weqb wlen ang mk s (gens th).
End Layers.

(* ================================================================================================ *)
(* 2. positional update: HEA, RUCC, VariationalCircuitAnsatz                                          *)
(*    for i in range(n_var_params): vg[i].parameter = var_params[i]   after the size test             *)
(* ================================================================================================ *)
Section Positional.
  Variable V : Type.
  (* set_var_params: np.array(var_params).size != n_var_params -> ValueError *)
  Definition size_ok (n : nat) (th : list V) : bool := length th =? n.
  Definition pos_update (n : nat) (v : list V) (th : list V) : res (list V) :=
    if size_ok n th then wblock 0 (firstn n th) v else Err ValueError.
  (* build_circuit = construct the fixed gate skeleton (n variational gates with placeholders),
     then update_var_params *)
  Definition pos_build (n : nat) (skeleton : list V) (th : list V) : res (list V) := pos_update n skeleton th.
End Positional.

(* ================================================================================================ *)
(* 3. pUCCD: excitations, first-fit layer packing, exc_to_param_mapping                               *)
(* ================================================================================================ *)
Definition exc := (nat * nat)%type.
Definition exc_eqb (a b : exc) : bool := (fst a =? fst b) && (snd a =? snd b).
(* itertools.product(range(n_occ), range(n_occ, n_occ + n_virt)) *)
Definition puccd_excitations (nocc nvirt : nat) : list exc := list_prod (seq 0 nocc) (seq nocc nvirt).

Definition nmem (x : nat) (l : list nat) : bool := existsb (Nat.eqb x) l.
Definition nremove2 (p q : nat) (l : list nat) : list nat :=
  filter (fun x => negb ((x =? p) || (x =? q))) l.
(* a circuit layer: (free qubits, excitations placed) *)
Definition player := (list nat * list exc)%type.
Fixpoint place (n : nat) (e : exc) (L : list player) : list player :=
  match L with
  | [] => [(nremove2 (fst e) (snd e) (seq 0 n), [e])]
  | (free, es) :: r =>
      if nmem (fst e) free && nmem (snd e) free
      then (nremove2 (fst e) (snd e) free, es ++ [e]) :: r
      else (free, es) :: place n e r
  end.
Definition pack (n : nat) (exs : list exc) : list player :=
  fold_left (fun L e => place n e L) exs [(seq 0 n, [])].
Definition packed (n : nat) (exs : list exc) : list exc := concat (map snd (pack n exs)).

Section PUCCD.
  Variable V : Type.
  Definition puccd_table (nocc nvirt : nat) : table exc :=
    number 0 (packed (nocc + nvirt) (puccd_excitations nocc nvirt)).
  (* for i, (p, q) in enumerate(excitations): vg[exc_to_param_mapping[(p, q)]] = var_params[i] *)
  Definition puccd_update (nocc nvirt : nat) (v : list V) (th : list V) : res (list V) :=
    if size_ok V (nocc * nvirt) th
    then twrite exc V V exc_eqb (fun x => x) (puccd_table nocc nvirt)
                (combine (puccd_excitations nocc nvirt) th) v
    else Err ValueError.
  (* the parameter that ends on variational gate j *)
  Definition puccd_layout (nocc nvirt : nat) (th : list V) : list (res V) :=
    map (fun e => assoc exc V exc_eqb e (combine (puccd_excitations nocc nvirt) th))
        (packed (nocc + nvirt) (puccd_excitations nocc nvirt)).
End PUCCD.

(* ================================================================================================ *)
(* 4. ADAPT: _n_terms_operators, _var_params_prefactor, add_operator                                  *)
(* ================================================================================================ *)
Section ADAPT.
  Variables Sg T V : Type.          (* sign prefactor, parameter, gate parameter *)
  Variable mulp : Sg -> T -> V.     (* prefactor * var_params[var_index] *)
  Variable init : V.               (* parameter of a freshly emitted gate: exp_pauliword_to_gates(word, 0.1) *)

  Record astate := AState { nterms : list nat; prefs : list Sg; avg : list V }.

  (* for param_subindex in range(length_op): idx = param_index + param_subindex *)
  Fixpoint adapt_inner (idx n : nat) (t : T) (pf : list Sg) (v : list V) : res (list V) :=
    match n with
    | O => Ok v
    | S n' => match nth_error pf idx with
              | None => Err IndexError
              | Some s => match upd idx (mulp s t) v with
                          | Err e => Err e
                          | Ok v' => adapt_inner (S idx) n' t pf v'
                          end
              end
    end.
  (* for var_index in range(n_var_params): param_index = sum(_n_terms_operators[:var_index]) *)
  Fixpoint adapt_loop (nt : list nat) (j : nat) (todo : list nat) (th : list T) (pf : list Sg) (v : list V)
    : res (list V) :=
    match todo with
    | [] => Ok v
    | n :: r => match nth_error th j with
                | None => Err IndexError
                | Some t => match adapt_inner (sum (firstn j nt)) n t pf v with
                            | Err e => Err e
                            | Ok v' => adapt_loop nt (S j) r th pf v'
                            end
                end
    end.
  Definition adapt_update (s : astate) (th : list T) : res astate :=
    match adapt_loop (nterms s) 0 (nterms s) th (prefs s) (avg s) with
    | Err e => Err e
    | Ok v => Ok (AState (nterms s) (prefs s) v)
    end.
  (* add_operator(op): op = the sign of each of its Pauli terms *)
  Definition adapt_add (s : astate) (signs : list Sg) : astate :=
    AState (nterms s ++ [length signs]) (prefs s ++ signs) (avg s ++ repeat init (length signs)).
  (* ADAPTAnsatz(..., operators=ops).build_circuit(th): emit every gate with 0.1, then update *)
  Definition adapt_fresh (ops : list (list Sg)) : astate :=
    AState (map (@length Sg) ops) (concat ops) (repeat init (length (concat ops))).
  Definition adapt_build (ops : list (list Sg)) (th : list T) : res astate :=
    if length th =? length ops then adapt_update (adapt_fresh ops) th else Err ValueError.

  (* what must stand on the variational gates: operator i contributes sign * th_i for each term *)
  Fixpoint adapt_layout (ops : list (list Sg)) (th : list T) : list V :=
    match ops, th with
    | o :: r, t :: tr => map (fun s => mulp s t) o ++ adapt_layout r tr
    | _, _ => []
    end.

  Inductive aop := AAdd (signs : list Sg) | AUpd (th : list T).
  Definition adapt_step (s : astate) (o : aop) : res astate :=
    match o with AAdd sg => Ok (adapt_add s sg) | AUpd th => adapt_update s th end.
  (* the operators added by a history, in order *)
  Fixpoint adds (h : list aop) : list (list Sg) :=
    match h with [] => [] | AAdd sg :: r => sg :: adds r | AUpd _ :: r => adds r end.
End ADAPT.

(* ================================================================================================ *)
(* 5. VSQS: blocks of variational gates per interval; offsets n_var_gates*i + ...                      *)
(* ================================================================================================ *)
Section VSQS.
  Variables T C V : Type.          (* schedule parameter, Hamiltonian coefficient, gate parameter *)
  Variable gu : T -> C -> V.       (* update : prefac * coeff,  prefac = 2/trotter_order*dt*theta *)
  Variable gb : T -> C -> option V.
  (* build  : get_exponentiated_qubit_operator_circuit: ang(coeff*theta*dt/order), and NO gate
     when abs(coeff*time) <= 1e-10  (None) *)

  Record vsqs_cfg := VCfg { hinit : list C; hfinal : list C; hnav : option (list C);
                            order2 : bool; n_steps : nat (* intervals - 1 *) }.
  Definition n_nav (c : vsqs_cfg) := match hnav c with None => 0 | Some l => length l end.
  Definition stride (c : vsqs_cfg) := match hnav c with None => 2 | Some _ => 3 end.
  Definition ord (c : vsqs_cfg) := if order2 c then 2 else 1.
  Definition n_var_gates (c : vsqs_cfg) := (length (hinit c) + length (hfinal c) + n_nav c) * ord c.
  Definition vsqs_n_var_params (c : vsqs_cfg) := n_steps c * stride c.

  (* one Trotterised operator: order 1: terms; order 2: terms then reversed terms *)
  Definition block {X} (c : vsqs_cfg) (g : C -> X) (q : list C) : list X :=
    if order2 c then map g q ++ map g (rev q) else map g q.

  (* _update_gate_params_for_qu_op(qu_op_list, n_var_start, var_param, num_terms) *)
  Definition upd_qu_op (c : vsqs_cfg) (q : list C) (start : nat) (t : T) (num : nat) (v : list V) : res (list V) :=
    match wblock start (map (gu t) q) v with
    | Err e => Err e
    | Ok v1 => if order2 c then wblock (start + num) (map (gu t) (rev q)) v1 else Ok v1
    end.
  Definition getp (th : list T) (i : nat) : res T :=
    match nth_error th i with Some t => Ok t | None => Err IndexError end.
  (* off = number of variational gates that precede the VSQS ones in circuit._variational_gates *)
  Definition vsqs_interval (c : vsqs_cfg) (off : nat) (th : list T) (i : nat) (v : list V) : res (list V) :=
    match getp th (stride c * i) with Err e => Err e | Ok t0 =>
    match upd_qu_op c (hinit c) (off + n_var_gates c * i) t0 (length (hinit c)) v with Err e => Err e | Ok v1 =>
    match getp th (stride c * i + 1) with Err e => Err e | Ok t1 =>
    match upd_qu_op c (hfinal c) (off + n_var_gates c * i + length (hinit c) * ord c) t1 (length (hfinal c)) v1 with
    | Err e => Err e | Ok v2 =>
    match hnav c with
    | None => Ok v2
    | Some qn =>
        match getp th (stride c * i + 2) with Err e => Err e | Ok t2 =>
        upd_qu_op c qn (off + n_var_gates c * i + (length (hinit c) + length (hfinal c)) * ord c) t2 (length qn) v2
        end
    end end end end end.
  Fixpoint vsqs_loop (c : vsqs_cfg) (off : nat) (th : list T) (is : list nat) (v : list V) : res (list V) :=
    match is with
    | [] => Ok v
    | i :: r => match vsqs_interval c off th i v with Err e => Err e | Ok v' => vsqs_loop c off th r v' end
    end.
  (* update_var_params as first written: no size test, offsets counted from gate 0 *)
  Definition vsqs_update (c : vsqs_cfg) (v : list V) (th : list T) : res (list V) :=
    vsqs_loop c 0 th (seq 0 (n_steps c)) v.

  (* update_var_params as repaired: set_var_params (size test), then
       n_ref = len(circuit._variational_gates) - n_var_gates*(intervals-1)      (a Python int: may be negative)
     and every block starts at n_ref + n_var_gates*i + ...; list indexing follows Python (negative = from the end) *)
  Definition upd_qu_op_z (c : vsqs_cfg) (q : list C) (start : Z) (t : T) (num : nat) (v : list V) : res (list V) :=
    match wblockz start (map (gu t) q) v with
    | Err e => Err e
    | Ok v1 => if order2 c then wblockz (start + Z.of_nat num) (map (gu t) (rev q)) v1 else Ok v1
    end.
  Definition vsqs_interval_z (c : vsqs_cfg) (nref : Z) (th : list T) (i : nat) (v : list V) : res (list V) :=
    let n_start := (nref + Z.of_nat (n_var_gates c * i))%Z in
    match getp th (stride c * i) with Err e => Err e | Ok t0 =>
    match upd_qu_op_z c (hinit c) n_start t0 (length (hinit c)) v with Err e => Err e | Ok v1 =>
    match getp th (stride c * i + 1) with Err e => Err e | Ok t1 =>
    match upd_qu_op_z c (hfinal c) (n_start + Z.of_nat (length (hinit c) * ord c)) t1 (length (hfinal c)) v1 with
    | Err e => Err e | Ok v2 =>
    match hnav c with
    | None => Ok v2
    | Some qn =>
        match getp th (stride c * i + 2) with Err e => Err e | Ok t2 =>
        upd_qu_op_z c qn (n_start + Z.of_nat ((length (hinit c) + length (hfinal c)) * ord c)) t2 (length qn) v2
        end
    end end end end end.
  Fixpoint vsqs_loop_z (c : vsqs_cfg) (nref : Z) (th : list T) (is : list nat) (v : list V) : res (list V) :=
    match is with
    | [] => Ok v
    | i :: r => match vsqs_interval_z c nref th i v with Err e => Err e | Ok v' => vsqs_loop_z c nref th r v' end
    end.
  Definition vsqs_update_fixed (c : vsqs_cfg) (v : list V) (th : list T) : res (list V) :=
    if length th =? vsqs_n_var_params c
    then vsqs_loop_z c (Z.of_nat (length v) - Z.of_nat (n_var_gates c * n_steps c))%Z th (seq 0 (n_steps c)) v
    else Err ValueError.

  (* the parameters that belong on the variational gates, interval by interval *)
  Definition vsqs_interval_layout {X} (c : vsqs_cfg) (g : T -> C -> X) (th : list T) (i : nat) (d : T) : list X :=
    block c (g (nth (stride c * i) th d)) (hinit c)
    ++ block c (g (nth (stride c * i + 1) th d)) (hfinal c)
    ++ match hnav c with None => [] | Some qn => block c (g (nth (stride c * i + 2) th d)) qn end.
  Definition vsqs_layout {X} (c : vsqs_cfg) (g : T -> C -> X) (th : list T) (d : T) : list X :=
    flat_map (fun i => vsqs_interval_layout c g th i d) (seq 0 (n_steps c)).
  (* build_circuit: the variational gates actually emitted (dropped ones missing) *)
  Fixpoint somes {X} (l : list (option X)) : list X :=
    match l with [] => [] | Some x :: r => x :: somes r | None :: r => somes r end.
  Definition vsqs_build (c : vsqs_cfg) (th : list T) (d : T) : list V := somes (vsqs_layout c gb th d).

  (* ---- the variants selected by the facts regenerated from vsqs.py (translator/ansatz_tables.py) ---- *)
  Variable gbv : T -> C -> V.     (* exp_pauliword_to_gates(word, coeff*time, variational=True): always a gate *)
  (* build_circuit: drops = the variational pieces go through get_exponentiated_qubit_operator_circuit (negligible
     terms omitted); otherwise through _variational_evolution (one gate for every term) *)
  Definition vsqs_build_src (drops : bool) (c : vsqs_cfg) (th : list T) (d : T) : list V :=
    if drops then vsqs_build c th d else vsqs_layout c gbv th d.
  (* update_var_params: size_test = starts with set_var_params; offsets_ref = offsets counted from n_ref *)
  Definition vsqs_update_src (size_test offsets_ref : bool) (c : vsqs_cfg) (v : list V) (th : list T) : res (list V) :=
    if size_test && negb (length th =? vsqs_n_var_params c) then Err ValueError
    else if offsets_ref
         then vsqs_loop_z c (Z.of_nat (length v) - Z.of_nat (n_var_gates c * n_steps c))%Z th (seq 0 (n_steps c)) v
         else vsqs_loop c 0 th (seq 0 (n_steps c)) v.
End VSQS.

(* ================================================================================================ *)
(* 6. Counting: the index-generation loops behind n_var_params                                        *)
(* ================================================================================================ *)
(* itertools.combinations(l, 2) *)
Fixpoint combs2 {X} (l : list X) : list (X * X) :=
  match l with [] => [] | x :: r => map (pair x) r ++ combs2 r end.
(* itertools.combinations_with_replacement(l, k) *)
Fixpoint cwr {X} (k : nat) : list X -> list (list X) :=
  match k with
  | O => fun _ => [[]]
  | S k' => fix go (l : list X) : list (list X) :=
              match l with
              | [] => []
              | x :: r => map (cons x) (cwr k' (x :: r)) ++ go r
              end
  end.

(* UCCSD, closed shell (openfermion.uccsd_singlet_generator consumes): t1[i] and t2_1[i] for i over
   product(range(n_virt), range(n_occ)), t2_2[i] for i over combinations(<that product>, 2) *)
Definition uccsd_singles (nocc nvirt : nat) := list_prod (seq 0 nvirt) (seq 0 nocc).
Definition uccsd_singlet_params (nocc nvirt : nat) : nat :=
  length (uccsd_singles nocc nvirt) + length (uccsd_singles nocc nvirt)
  + length (combs2 (uccsd_singles nocc nvirt)).
(* Tangelo: n_singles = n_occ*n_virt ; n_doubles = n_singles*(n_singles+1)//2 *)
Definition uccsd_singlet_closed (nocc nvirt : nat) : nat :=
  nocc * nvirt + (nocc * nvirt) * (nocc * nvirt + 1) / 2.

(* open shell (_unitary_cc_openshell.uccsd_openshell_generator) *)
Definition uccsd_open_params (na nb oa ob : nat) : nat :=
  let va := oa - na in let vb := ob - nb in
  length (list_prod (seq 0 va) (seq 0 na)) + length (list_prod (seq 0 vb) (seq 0 nb))
  + length (list_prod (combs2 (seq 0 na)) (combs2 (seq 0 va)))
  + length (list_prod (combs2 (seq 0 nb)) (combs2 (seq 0 vb)))
  + length (list_prod (list_prod (seq 0 va) (seq 0 na)) (list_prod (seq 0 vb) (seq 0 nb))).
(* uccsd_openshell_paramsize *)
Definition uccsd_open_closed (na nb oa ob : nat) : nat :=
  let va := oa - na in let vb := ob - nb in
  na * va + nb * vb + na * (na - 1) * va * (va - 1) / 4 + nb * (nb - 1) * vb * (vb - 1) / 4
  + na * nb * va * vb.

(* UpCCGSD (_unitary_cc_paired): per layer 2 generalized singles and 1 paired double per pair i<j *)
Definition upccgsd_layer_terms (n : nat) : nat :=
  length (flat_map (fun ij : nat * nat => [ij; ij]) (combs2 (seq 0 n))) + length (combs2 (seq 0 n)).
Definition upccgsd_closed (n k : nat) : nat := k * (2 * (n * (n - 1) / 2) + n * (n - 1) / 2).

(* UCCGD._get_qubit_operator: p += 1 for each combinations_with_replacement(range(n),4) with
   len(set(indices)) >= 2 *)
Definition all_equal (l : list nat) : bool :=
  match l with [] => true | x :: r => forallb (Nat.eqb x) r end.
Definition uccgd_params (n : nat) : nat := length (filter (fun t => negb (all_equal t)) (cwr 4 (seq 0 n))).
(* Tangelo: len(list(combinations_with_replacement(range(n), 4))) - n *)
Definition uccgd_closed (n : nat) : nat := length (cwr 4 (seq 0 n)) - n.

(* HEA (_hea_circuit.construct_hea_circuit): rotation layer, then n_layers x (entangler, rotation layer);
   euler: RZ RX RZ per qubit (3 variational gates), real: RY (1) *)
Definition hea_rot_layer (nq per : nat) : list bool := concat (repeat (repeat true nq) per).
(* entangler_circuit: n//2 + (n//2 - 1) CNOTs, none variational *)
Definition hea_ent_layer (nq : nat) : list bool := repeat false (nq / 2 + (nq / 2 - 1)).
Fixpoint hea_gates (nq per layers : nat) : list bool :=   (* true = variational gate *)
  match layers with
  | O => hea_rot_layer nq per
  | S l => hea_gates nq per l ++ hea_ent_layer nq ++ hea_rot_layer nq per
  end.
Definition hea_params (nq per layers : nat) : nat := length (filter (fun b => b) (hea_gates nq per layers)).
