(* Qft.v — model of tangelo/toolboxes/ansatz_generator/ansatz_utils.py:
     append_qft_rotations_gates, swap_registers, get_qft_circuit        (definitions only).

   Angles.  Every parameter the code produces is  prefac * pi / 2**(n-i)  with prefac = +1 / -1, so the
   model's angle type is the set of dyadic angles  +-pi/2^k  ([qang]).  In IEEE doubles division by a
   power of two and negation are exact, so the correspondence harness maps the implementation's float
   parameter to this type exactly (p == +-math.pi/2**k) — no tolerance is involved.

   Python-level model ([pgate qang] of Linq/GateModel.v, names as strings):
     qft_rotations neg qs   the list append_qft_rotations_gates(gate_list=[], qs, prefac) appends
     swap_registers qs      the list swap_registers([], qs) returns
     qft_gates qs inv swap  the gate list of get_qft_circuit(qs, inverse=inv, swap=swap)
     qft_circuit            the same with Python's failure behaviour (ValueError raised by Gate for a
                            negative or repeated index), input an int or a list
   The recursion of append_qft_rotations_gates peels the LAST element of the list; the model recurses
   over the reversed list (head = last qubit), which is the same list of gates (tied by the structural
   correspondence on every run).

   Semantic model (QSem circuits over any number structure S with a family hp k = pi/2^k of angles):
     s_qft a qs inv swap   with a : nat -> A S the angle family (hp, or fun k => aopp (hp k)).      *)
From Coq Require Import String ZArith NArith List Bool.
From Tangelo Require Import Num.KStruct Num.Show QSem.State Linq.GateModel Linq.Interp.
Import ListNotations.
Open Scope string_scope.

(* ---- dyadic angles  (-1)^neg * pi / 2^k ---- *)
Inductive qang : Type := QA (neg : bool) (k : nat).
Definition qang_opp (a : qang) : qang := match a with QA s k => QA (negb s) k end.

(* ---- Python-level gates ---- *)
Definition qgate := pgate qang.
Definition gH (t : Z) : qgate := PGate "H" [t] None PNone false.
Definition gCPHASE (neg : bool) (c t : Z) (k : nat) : qgate :=
  PGate "CPHASE" [t] (Some [c]) (PNum (QA neg k)) false.
Definition gSWAP (a b : Z) : qgate := PGate "SWAP" [a; b] None PNone false.

(* controlled phases onto target t; [rest] lists the controls from the one next to t downwards
   (rest = reversed qubit_list[:n]); the control at position j of rest gets pi/2^(k+j).
   Python emits them for i = 0..n-1, i.e. farthest control first: hence the snoc. *)
Fixpoint cphases (neg : bool) (t : Z) (rest : list Z) (k : nat) : list qgate :=
  match rest with
  | [] => []
  | c :: r => cphases neg t r (S k) ++ [gCPHASE neg c t k]
  end.

(* l = reversed qubit list: head = last listed qubit *)
Fixpoint rot_rev (neg : bool) (l : list Z) : list qgate :=
  match l with
  | [] => []
  | t :: rest => gH t :: cphases neg t rest 1 ++ rot_rev neg rest
  end.

Definition qft_rotations (neg : bool) (qs : list Z) : list qgate := rot_rev neg (rev qs).

(* for qubit_index in range(n//2): SWAP(qs[i], qs[n-1-i]) *)
Definition swap_pairs {X : Type} (qs : list X) : list (X * X) :=
  firstn (Nat.div (length qs) 2) (combine qs (rev qs)).
Definition swap_registers (qs : list Z) : list qgate :=
  map (fun p => gSWAP (fst p) (snd p)) (swap_pairs qs).

Definition qft_gates (qs : list Z) (inverse swap : bool) : list qgate :=
  let sw := if swap then swap_registers qs else [] in
  if inverse then sw ++ rev (qft_rotations true qs)
  else qft_rotations false qs ++ sw.

(* get_qft_circuit: qubits is an int (-> range(qubits)) or a list; Gate raises ValueError on a negative
   index and on control = target / equal swap targets, which happens exactly when an index repeats *)
Inductive qubits_arg : Type := QInt (n : Z) | QList (l : list Z).
Definition qubit_list (a : qubits_arg) : list Z :=
  match a with
  | QInt n => map Z.of_nat (seq 0 (Z.to_nat n))
  | QList l => l
  end.
Definition qubits_ok (qs : list Z) : bool := forallb (Z.leb 0) qs && znodup qs.
Definition qft_circuit (a : qubits_arg) (inverse swap : bool) : res (list qgate) :=
  let qs := qubit_list a in
  if qubits_ok qs then Ok (qft_gates qs inverse swap) else Err ValueError.

(* ---- printing (correspondence) ---- *)
Definition show_nat_dec (n : nat) : string := show_nat n.
Definition show_Zd (z : Z) : string := show_Z z.
Definition show_qang (a : qang) : string :=
  match a with QA s k => (if s then "-" else "+") ++ "pi/2^" ++ show_nat_dec k end.
Definition joins := join.
Definition show_qgate (g : qgate) : string :=
  pname g ++ "(" ++ joins "." (map show_Zd (ptarget g)) ++ ";"
        ++ (match pcontrol g with None => "N" | Some c => joins "." (map show_Zd c) end) ++ ";"
        ++ (match pparam g with PNone => "_" | PNum a => show_qang a | PStr s => "'" ++ s end) ++ ")".
Definition show_qft (r : res (list qgate)) : string :=
  match r with
  | Ok gs => "Ok " ++ joins " " (map show_qgate gs)
  | Err ValueError => "Err:ValueError"
  | Err _ => "Err:other"
  end.

(* ---- semantic model ---- *)
Close Scope string_scope.
Open Scope list_scope.
Section QftSem.
  Variable S : KS.
  Variable a : nat -> A S.          (* angle family: a k is the parameter written pi/2^k (or its opposite) *)

  Definition sH (t : N) : gate S := Gate (B1 GH t) [].
  Definition sCP (c t : N) (k : nat) : gate S := Gate (B1 (GPHASE (a k)) t) [c].
  Definition sSWAP (p q : N) : gate S := Gate (BSWAP p q) [].

  Fixpoint s_cphases (t : N) (rest : list N) (k : nat) : circuit S :=
    match rest with
    | [] => []
    | c :: r => s_cphases t r (Datatypes.S k) ++ [sCP c t k]
    end.
  Fixpoint s_rot_rev (l : list N) : circuit S :=
    match l with
    | [] => []
    | t :: rest => sH t :: s_cphases t rest 1 ++ s_rot_rev rest
    end.
  Definition s_rot (qs : list N) : circuit S := s_rot_rev (rev qs).
  Definition s_swaps (qs : list N) : circuit S := map (fun p => sSWAP (fst p) (snd p)) (swap_pairs qs).
  Definition s_qft (qs : list N) (inverse swap : bool) : circuit S :=
    let sw := if swap then s_swaps qs else [] in
    if inverse then sw ++ rev (s_rot qs) else s_rot qs ++ sw.
End QftSem.

(* interpretation of the dyadic angles in a number structure with a family hp k = pi/2^k *)
Definition ang_of (S : KS) (hp : nat -> A S) (x : qang) : A S :=
  match x with QA false k => hp k | QA true k => aopp (hp k) end.
Definition fam (S : KS) (hp : nat -> A S) (neg : bool) : nat -> A S :=
  fun k => if neg then aopp (hp k) else hp k.

(* basis-index arithmetic used by the specification: value of the register qs in index z,
   FIRST LISTED QUBIT LEAST SIGNIFICANT *)
Fixpoint val (qs : list N) (z : N) : nat :=
  match qs with
  | [] => 0
  | q :: r => Nat.b2n (bit z q) + 2 * val r z
  end.
(* z with bit t set to b; z with the bits on qs replaced by those of x *)
Definition setb (z t : N) (b : bool) : N := if Bool.eqb (bit z t) b then z else flip z t.
Definition put (qs : list N) (x z : N) : N := fold_right (fun q acc => setb acc q (bit x q)) z qs.
Definition agree (qs : list N) (y x : N) : bool := forallb (fun q => Bool.eqb (bit y q) (bit x q)) qs.

(* ---- roots of unity of the specification ----
   In a number structure with angles hp k = pi/2^k (cis t = e^{i t/2}, so the PHASE(pi/2^k) entry is
   cis (hp k) * cis (hp k) = e^{i pi/2^k}):   w k = e^{2 pi i / 2^k}  (w 0 = 1, w 1 = -1, w (k+1)^2 = w k). *)
Section Roots.
  Variable S : KS.
  Variable hp : nat -> A S.
  Definition w (k : nat) : K S :=
    match k with O => k1 | Datatypes.S j => kmul (cis (hp j)) (cis (hp j)) end.
  Fixpoint kpow (x : K S) (n : nat) : K S :=
    match n with O => k1 | Datatypes.S m => kmul x (kpow x m) end.
  (* support of a state: psi vanishes on every index that differs from x on some qubit of qs
     (psi = |x restricted to qs> (x) anything on the other qubits) *)
  Definition supp (qs : list N) (x : N) (psi : state S) : Prop :=
    forall y, (exists q, In q qs /\ bit y q <> bit x q) -> psi y = k0.
End Roots.
