(* PenaltyProofs.v — the penalty mu (O - target)^2 built by penalty_terms.py, for O = N and O = Sz:
   diagonal on determinants with value mu (lambda - target)^2 (every KS; every n, ordering, determinant,
   target, weight); over the rationals (exact instance) this value is >= 0 for mu > 0 and zero exactly
   on the targeted sector. *)
From Coq Require Import NArith ZArith QArith Qcanon List Bool Lia Ring.
From Tangelo Require Import Num.KStruct Num.Cyc Num.CycRat Fermion.Fock Fermion.Symmetry
     Fermion.SymmetryProofs Fermion.Conserve Fermion.ConserveProofs Fermion.Penalty.
Import ListNotations.

Section Generic.
  Variable S : KS.
  Add Ring kring3 : (k_ring S).
  Open Scope K_scope.

  Lemma diag_nil : diag_term [] (fun _ => true).
  Proof. intro d. reflexivity. Qed.

  Lemma diag_shifted (o : fop S) t : diag_op S o -> diag_op S (shifted S o t).
  Proof. intro H. constructor; [exists (fun _ => true); apply diag_nil | exact H]. Qed.

  (* any operator made of diagonal terms whose matrix is diag(lam) *)
  Theorem penalty_diag (o : fop S) (lam : N -> K S) (mu t : K S) :
    diag_op S o ->
    (forall d' d, fop_elem S o d' d = if N.eqb d' d then lam d else 0) ->
    forall d' d, fop_elem S (penalty S o mu t) d' d
                 = if N.eqb d' d then mu * ((lam d - t) * (lam d - t)) else 0.
  Proof.
    intros Hd He d' d. unfold penalty.
    rewrite fop_elem_scale, (fop_mul_diag_left S _ _ d' d (diag_shifted o t Hd)).
    assert (Hs : forall x y, fop_elem S (shifted S o t) x y = if N.eqb x y then lam y - t else 0).
    { intros x y. change (shifted S o t) with ([([], - t)] ++ o).
      rewrite fop_elem_app, He, fop_elem_sum. cbn [sumK fold_right fst snd].
      rewrite (telem_diag S [] _ _ x y diag_nil). cbn [andb].
      rewrite (N.eqb_sym y x). destruct (N.eqb x y); ring. }
    rewrite !Hs, N.eqb_refl. destruct (N.eqb_spec d' d) as [E|E]; [subst d'; ring | ring].
  Qed.

  Theorem number_penalty_diag n ud mu t d' d :
    fop_elem S (number_penalty S n ud mu t) d' d
    = if N.eqb d' d then mu * ((number_val S ud n d - t) * (number_val S ud n d - t)) else 0.
  Proof.
    apply (penalty_diag _ (number_val S ud n)); [apply diag_number | intros; apply number_eigen].
  Qed.

  Theorem spinz_penalty_diag n ud mu t d' d :
    fop_elem S (spinz_penalty S n ud mu t) d' d
    = if N.eqb d' d then mu * ((spinz_val S ud n d - t) * (spinz_val S ud n d - t)) else 0.
  Proof.
    apply (penalty_diag _ (spinz_val S ud n)); [apply diag_spinz | intros; apply spinz_eigen].
  Qed.
End Generic.

(* ---------- rational arithmetic ---------- *)
Lemma Qc_sq_nonneg (x : Qc) : (0 <= x * x)%Qc.
Proof.
  destruct (Qclt_le_dec x 0) as [H|H].
  - replace (x * x)%Qc with ((- x) * (- x))%Qc by ring.
    assert (H0 : (0 <= - x)%Qc).
    { apply Qclt_le_weak in H. apply Qcopp_le_compat in H. replace (- 0)%Qc with 0%Qc in H by ring. exact H. }
    replace 0%Qc with (0 * - x)%Qc by ring. apply Qcmult_le_compat_r; assumption.
  - replace 0%Qc with (0 * x)%Qc by ring. apply Qcmult_le_compat_r; assumption.
Qed.

Theorem penalty_q_nonneg_zero_iff (mu lam t : Qc) :
  (0 < mu)%Qc -> (0 <= penalty_q mu lam t)%Qc /\ (penalty_q mu lam t = 0%Qc <-> lam = t).
Proof.
  intro Hmu. unfold penalty_q. split.
  - replace 0%Qc with (mu * 0)%Qc by ring. rewrite !(Qcmult_comm mu).
    apply Qcmult_le_compat_r; [apply Qc_sq_nonneg | apply Qclt_le_weak; exact Hmu].
  - split.
    + intro H. apply Qcmult_integral in H. destruct H as [H|H].
      * exfalso. apply (Qclt_not_eq _ _ Hmu). symmetry. exact H.
      * assert (H0 : (lam - t)%Qc = 0%Qc) by (apply Qcmult_integral in H; destruct H; assumption).
        replace lam with ((lam - t) + t)%Qc by ring. rewrite H0. ring.
    + intros ->. ring.
Qed.

(* ---------- the exact instance: values are the images of rationals ---------- *)
Lemma qnat_succ k : (1 + qnat k)%Qc = qnat (S k).
Proof.
  unfold qnat. apply Qc_is_canon. unfold Qcplus, Q2Qc. cbn [this].
  rewrite !Qred_correct. rewrite Nat2Z.inj_succ. unfold Z.succ. rewrite inject_Z_plus. ring.
Qed.

Lemma knat_cyc k : knat CycS k = cy_of_Qc (qnat k).
Proof.
  induction k as [|k IH].
  - reflexivity.
  - cbn [knat]. rewrite IH, cy_of_Qc_1, cy_of_Qc_add, qnat_succ. reflexivity.
Qed.

Lemma number_val_cyc ud n d : number_val CycS ud n d = cy_of_Qc (number_q ud n d).
Proof. unfold number_val, number_q. apply knat_cyc. Qed.

Lemma spinz_val_cyc ud n d : spinz_val CycS ud n d = cy_of_Qc (spinz_q ud n d).
Proof.
  unfold spinz_val, spinz_q. rewrite !knat_cyc, cy_of_Qc_sub, cy_of_Qc_half, cy_of_Qc_mul. reflexivity.
Qed.

Lemma penalty_val_cyc mu lam t :
  @kmul CycS (cy_of_Qc mu) (@kmul CycS (@ksub CycS (cy_of_Qc lam) (cy_of_Qc t)) (@ksub CycS (cy_of_Qc lam) (cy_of_Qc t)))
  = cy_of_Qc (penalty_q mu lam t).
Proof. unfold penalty_q. rewrite !cy_of_Qc_sub, !cy_of_Qc_mul. reflexivity. Qed.

(* the statement of the property: for every n, ordering, determinant, rational target and weight mu > 0,
   the penalty matrix is diagonal, its diagonal entry is the rational mu (lambda - target)^2 >= 0, and the
   entry vanishes exactly when the determinant lies in the targeted sector *)
Theorem number_penalty_nonneg_zero_iff n ud (mu t : Qc) d :
  (0 < mu)%Qc ->
  (forall d', fop_elem CycS (number_penalty CycS n ud (cy_of_Qc mu) (cy_of_Qc t)) d' d
              = if N.eqb d' d then cy_of_Qc (penalty_q mu (number_q ud n d) t) else cy_of_Qc 0%Qc)
  /\ (0 <= penalty_q mu (number_q ud n d) t)%Qc
  /\ (fop_elem CycS (number_penalty CycS n ud (cy_of_Qc mu) (cy_of_Qc t)) d d = @k0 CycS
      <-> number_q ud n d = t).
Proof.
  intro Hmu. destruct (penalty_q_nonneg_zero_iff mu (number_q ud n d) t Hmu) as [Hpos Hz].
  assert (He : forall d', fop_elem CycS (number_penalty CycS n ud (cy_of_Qc mu) (cy_of_Qc t)) d' d
              = if N.eqb d' d then cy_of_Qc (penalty_q mu (number_q ud n d) t) else cy_of_Qc 0%Qc).
  { intro d'. rewrite number_penalty_diag, number_val_cyc, penalty_val_cyc. reflexivity. }
  split; [exact He|]. split; [exact Hpos|].
  rewrite He, N.eqb_refl, cy_of_Qc_0. rewrite <- Hz. split; [apply cy_of_Qc_inj | intros ->; reflexivity].
Qed.

Theorem spinz_penalty_nonneg_zero_iff n ud (mu t : Qc) d :
  (0 < mu)%Qc ->
  (forall d', fop_elem CycS (spinz_penalty CycS n ud (cy_of_Qc mu) (cy_of_Qc t)) d' d
              = if N.eqb d' d then cy_of_Qc (penalty_q mu (spinz_q ud n d) t) else cy_of_Qc 0%Qc)
  /\ (0 <= penalty_q mu (spinz_q ud n d) t)%Qc
  /\ (fop_elem CycS (spinz_penalty CycS n ud (cy_of_Qc mu) (cy_of_Qc t)) d d = @k0 CycS
      <-> spinz_q ud n d = t).
Proof.
  intro Hmu. destruct (penalty_q_nonneg_zero_iff mu (spinz_q ud n d) t Hmu) as [Hpos Hz].
  assert (He : forall d', fop_elem CycS (spinz_penalty CycS n ud (cy_of_Qc mu) (cy_of_Qc t)) d' d
              = if N.eqb d' d then cy_of_Qc (penalty_q mu (spinz_q ud n d) t) else cy_of_Qc 0%Qc).
  { intro d'. rewrite spinz_penalty_diag, spinz_val_cyc, penalty_val_cyc. reflexivity. }
  split; [exact He|]. split; [exact Hpos|].
  rewrite He, N.eqb_refl, cy_of_Qc_0. rewrite <- Hz. split; [apply cy_of_Qc_inj | intros ->; reflexivity].
Qed.
