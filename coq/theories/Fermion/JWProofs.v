(* JWProofs.v — Jordan-Wigner, for every register size:
   jw_strings_anticommute, jw_car (via CARProofs.majoranas_give_car), jw_matrix_elements
   (<D'| JW(a) |D> = <D'| a |D> with Fock.apply_ladder on the left and the closed-form word action on
   the right). *)
From Coq Require Import NArith ZArith List Bool Lia Ring.
From Tangelo Require Import Num.KStruct QSem.State Pauli.Word Pauli.Action Fermion.Fock Fermion.CAR
     Fermion.CARProofs Fermion.JW.
Import ListNotations.

(* ---------- Z-strings ---------- *)
Definition zs (s len : nat) : word := map (fun q => (N.of_nat q, PZ)) (seq s len).

Lemma zstring_zs : forall p, zstring p = zs 0 (N.to_nat p).
Proof. reflexivity. Qed.

Lemma zs_app : forall s a b, zs s (a + b) = zs s a ++ zs (s + a) b.
Proof. intros. unfold zs. rewrite seq_app, map_app. reflexivity. Qed.

Lemma anti_count_zs_prefix : forall len s u v k,
    anti_count (zs s len ++ u) (zs s len ++ v) k = anti_count u v (k - len).
Proof.
  induction len as [|len IH]; intros s u v k.
  - simpl. rewrite Nat.sub_0_r. reflexivity.
  - destruct k as [|k].
    + simpl. reflexivity.
    + change (zs s (S len)) with ((N.of_nat s, PZ) :: zs (S s) len).
      simpl. rewrite N.ltb_irrefl. apply IH.
Qed.

Lemma jw_anti_lt : forall p q x y, (p < q)%N -> x <> PZ -> wcommute (jw_word p x) (jw_word q y) = false.
Proof.
  intros p q x y Hpq Hx. unfold wcommute, jw_word. rewrite !zstring_zs.
  set (P := N.to_nat p). set (Q := N.to_nat q).
  assert (HQ : Q = (P + S (Q - P - 1))%nat) by (unfold P, Q; lia).
  rewrite HQ at 1 2. rewrite zs_app, <- app_assoc.
  rewrite anti_count_zs_prefix.
  change (0 + P)%nat with P.
  change (zs P (S (Q - P - 1))) with ((N.of_nat P, PZ) :: zs (S P) (Q - P - 1)).
  assert (HP : N.of_nat P = p) by (unfold P; apply N2Nat.id). rewrite HP.
  rewrite !app_length. simpl length.
  match goal with |- context [anti_count _ _ ?k] =>
                  destruct k as [|k'] eqn:Ek; [unfold zs in Ek; rewrite ?map_length, ?seq_length in Ek; lia|] end.
  simpl. rewrite N.ltb_irrefl.
  assert (Hxz : pauli_eqb x PZ = false) by (destruct x; try reflexivity; congruence).
  rewrite Hxz. destruct k'; reflexivity.
Qed.

Lemma jw_anti_same : forall p x y, pauli_eqb x y = false -> wcommute (jw_word p x) (jw_word p y) = false.
Proof.
  intros p x y Hxy. unfold wcommute, jw_word. rewrite !zstring_zs.
  rewrite anti_count_zs_prefix.
  rewrite !app_length. simpl length.
  match goal with |- context [anti_count _ _ ?k] =>
                  destruct k as [|k'] eqn:Ek; [unfold zs in Ek; rewrite ?map_length, ?seq_length in Ek; lia|] end.
  simpl. rewrite N.ltb_irrefl, Hxy. destruct k'; reflexivity.
Qed.

(* every two distinct Jordan-Wigner Majorana strings anticommute — any modes, any register size *)
Theorem jw_strings_anticommute : forall p q x y,
    x <> PZ -> y <> PZ -> (p <> q \/ x <> y) -> wcommute (jw_word p x) (jw_word q y) = false.
Proof.
  intros p q x y Hx Hy H.
  destruct (N.lt_trichotomy p q) as [Hlt | [Heq | Hgt]].
  - apply jw_anti_lt; assumption.
  - subst q. apply jw_anti_same. destruct H as [H | H]; [congruence|].
    destruct x, y; try reflexivity; congruence.
  - rewrite wcommute_sym. apply jw_anti_lt; assumption.
Qed.

(* ---------- bit facts ---------- *)
Lemma flip_bit_other : forall x p q, q <> p -> N.testbit (flip x p) q = N.testbit x q.
Proof.
  intros x p q H. unfold flip. rewrite N.lxor_spec, N.shiftl_1_l, N.pow2_bits_false by congruence.
  apply xorb_false_r.
Qed.

Lemma flip_bit_same : forall x p, N.testbit (flip x p) p = negb (N.testbit x p).
Proof.
  intros x p. unfold flip. rewrite N.lxor_spec, N.shiftl_1_l, N.pow2_bits_true.
  apply xorb_true_r.
Qed.

Lemma flip_flip : forall x p, flip (flip x p) p = x.
Proof. intros. unfold flip. rewrite N.lxor_assoc, N.lxor_nilpotent, N.lxor_0_r. reflexivity. Qed.

Lemma count_below_flip : forall x p, count_below (flip x p) p = count_below x p.
Proof.
  intros x p. unfold count_below. f_equal. apply filter_ext_in.
  intros q Hq. apply in_seq in Hq. apply flip_bit_other. lia.
Qed.

Lemma word_flip_app : forall u v x, word_flip (u ++ v) x = word_flip v (word_flip u x).
Proof. intros. unfold word_flip. apply fold_left_app. Qed.

Lemma word_flip_zs : forall len s x, word_flip (zs s len) x = x.
Proof.
  induction len as [|len IH]; intros s x; [reflexivity|].
  change (zs s (S len)) with ((N.of_nat s, PZ) :: zs (S s) len).
  unfold word_flip in *. simpl. apply IH.
Qed.

Section JWProofs.
  Variable S : KS.
  Add Ring kring2 : (k_ring S).
  Open Scope K_scope.
  Notation K := (K S).

  Definition sgnb (b : bool) (c : K) : K := if b then - c else c.

  Lemma sgnb_neg : forall b c, sgnb b (- c) = sgnb (negb b) c.
  Proof. intros [|] c; simpl; ring. Qed.

  Lemma word_phase_app : forall u v x,
      word_phase S (u ++ v) x =
      fold_left (fun c qp => match snd qp with
                             | PX => c
                             | PZ => if bit x (fst qp) then - c else c
                             | PY => if bit x (fst qp) then ki * c else - ki * c
                             end) v (word_phase S u x).
  Proof. intros. unfold word_phase. apply fold_left_app. Qed.

  Lemma phase_zs : forall len s x c,
      fold_left (fun c qp => match snd qp with
                             | PX => c
                             | PZ => if bit x (fst qp) then - c else c
                             | PY => if bit x (fst qp) then ki * c else - ki * c
                             end) (zs s len) c
      = sgnb (Nat.odd (length (filter (fun q => N.testbit x (N.of_nat q)) (seq s len)))) c.
  Proof.
    induction len as [|len IH]; intros s x c; [reflexivity|].
    change (zs s (Datatypes.S len)) with ((N.of_nat s, PZ) :: zs (Datatypes.S s) len).
    simpl. rewrite IH. unfold bit.
    destruct (N.testbit x (N.of_nat s)).
    - simpl length. rewrite Nat.odd_succ, <- Nat.negb_odd. apply sgnb_neg.
    - reflexivity.
  Qed.

  Lemma word_phase_zstring : forall p x, word_phase S (zstring p) x = sgnb (parity_below x p) 1.
  Proof. intros. rewrite zstring_zs. unfold word_phase. rewrite phase_zs. reflexivity. Qed.

  (* closed form of the matrix elements of the two JW Majorana strings *)
  Lemma jw_flip : forall p x d, x <> PZ -> word_flip (jw_word p x) d = flip d p.
  Proof.
    intros p x d Hx. unfold jw_word. rewrite word_flip_app, zstring_zs, word_flip_zs.
    destruct x; try reflexivity. congruence.
  Qed.

  Lemma jw_phase_X : forall p d, word_phase S (jw_word p PX) d = sgnb (parity_below d p) 1.
  Proof. intros. unfold jw_word. rewrite word_phase_app, word_phase_zstring. reflexivity. Qed.

  Lemma jw_phase_Y : forall p d,
      word_phase S (jw_word p PY) d =
      if N.testbit d p then ki * sgnb (parity_below d p) 1 else - ki * sgnb (parity_below d p) 1.
  Proof. intros. unfold jw_word. rewrite word_phase_app, word_phase_zstring. reflexivity. Qed.

  Lemma half_cancel : forall x : K, khalf * x + ((ki * khalf) * (ki * x) + 0) = 0.
  Proof.
    intro x. transitivity (khalf * x * (1 + ki * ki) : K); [ring|]. rewrite k_ii. ring.
  Qed.
  Lemma half_double : forall x : K, khalf * x + ((ki * khalf) * (- ki * x) + 0) = x.
  Proof.
    intro x. transitivity ((khalf * x) * (1 - ki * ki) : K); [ring|]. rewrite k_ii.
    transitivity ((khalf + khalf) * x : K); [ring|]. rewrite k_half. ring.
  Qed.
  Lemma half_cancel' : forall x : K, khalf * x + (- (ki * khalf) * (- ki * x) + 0) = 0.
  Proof.
    intro x. transitivity (khalf * x * (1 + ki * ki) : K); [ring|]. rewrite k_ii. ring.
  Qed.
  Lemma half_double' : forall x : K, khalf * x + (- (ki * khalf) * (ki * x) + 0) = x.
  Proof.
    intro x. transitivity ((khalf * x) * (1 - ki * ki) : K); [ring|]. rewrite k_ii.
    transitivity ((khalf + khalf) * x : K); [ring|]. rewrite k_half. ring.
  Qed.

  (* <D'| JW(a) |D> = <D'| a |D> for every ladder operator and all determinants, any register size *)
  Local Opaque N.shiftl.
  Theorem jw_matrix_elements : forall (l : ladder) (d' d : N),
      op_elem S (jw_ladder S l) d' d = fop_elem S [([l], 1)] d' d.
  Proof.
    intros [p cr] d' d.
    unfold op_elem, jw_ladder, ladder_of_maj, fop_elem, apply_term. simpl.
    rewrite !jw_flip by discriminate.
    rewrite jw_phase_X, jw_phase_Y.
    unfold occ.
    destruct (N.eqb (flip d' p) d) eqn:E.
    - apply N.eqb_eq in E. subst d.
      change (N.lxor (flip d' p) (N.shiftl 1 p)) with (flip (flip d' p) p).
      rewrite flip_bit_same, flip_flip.
      unfold parity_below. rewrite count_below_flip.
      set (sg := sgnb (Nat.odd (count_below d' p)) 1).
      destruct (N.testbit d' p) eqn:B; destruct cr; simpl; rewrite ?N.eqb_refl.
      + rewrite half_double'. unfold sg. destruct (Nat.odd (count_below d' p)); simpl; ring.
      + apply half_cancel.
      + apply half_cancel'.
      + rewrite half_double. unfold sg. destruct (Nat.odd (count_below d' p)); simpl; ring.
    - destruct (Bool.eqb (N.testbit d p) cr); [reflexivity|].
      simpl. change (N.lxor d (N.shiftl 1 p)) with (flip d p).
      destruct (N.eqb (flip d p) d') eqn:E2; [|reflexivity].
      apply N.eqb_eq in E2. subst d'. rewrite flip_flip, N.eqb_refl in E. discriminate.
  Qed.

  (* the CAR for the Jordan-Wigner images on any number of modes *)
  Theorem jw_car : forall n, car_holds S (jw_ladder S) n.
  Proof.
    intro n.
    apply (majoranas_give_car S n (fun p => (false, jw_word p PX)) (fun p => (false, jw_word p PY))).
    - intros p q _ _ Hpq. unfold anti. simpl.
      repeat split; apply jw_strings_anticommute; try discriminate; left; exact Hpq.
    - intros p _. unfold anti. simpl. apply jw_strings_anticommute; try discriminate. right. discriminate.
  Qed.
End JWProofs.
