(* Comb.v — tangelo/toolboxes/qubit_mappings/combinatorial.py.  Definitions only.
   The base case of recursive_mapping and the bit pairs of int_to_tuple are regenerated from the
   source (Gen.EncodingTables: comb_base_gen, comb_pairs_gen) and compared with the standard tables
   below in props/C03.v. *)
From Coq Require Import NArith ZArith List Bool.
From Tangelo Require Import Num.KStruct Pauli.Word Fermion.Fock Fermion.CAR.
Import ListNotations.
Open Scope N_scope.

(* (key, coefficient is 0.5j instead of 0.5?, first entry M[i,j], minus?, second entry) *)
Definition comb_base_entry : Type := (N * bool * (N * N) * bool * (N * N))%type.
Definition comb_base_std : list comb_base_entry :=
  [(0, false, (0, 0), false, (1, 1)); (1, false, (0, 1), false, (1, 0));
   (2, false, (0, 0), true, (1, 1)); (3, true, (0, 1), true, (1, 0))].
(* Pauli for the bit pair (x, z) = (1,0), (0,1), (1,1) *)
Definition comb_pairs_std : pauli * pauli * pauli := (PX, PZ, PY).

Section Comb.
  Variable S : KS.
  Open Scope K_scope.

  Definition mat_entry (m00 m01 m10 m11 : K S) (ij : N * N) : K S :=
    match ij with
    | (0%N, 0%N) => m00 | (0%N, _) => m01 | (_, 0%N) => m10 | _ => m11
    end.

  (* the base-case dictionary of recursive_mapping as (key, value) pairs *)
  Definition comb_base_coeffs (tab : list comb_base_entry) (m00 m01 m10 m11 : K S) : list (N * K S) :=
    map (fun e : comb_base_entry =>
           let '(k, im, a, minus, b) := e in
           let ea := mat_entry m00 m01 m10 m11 a in
           let eb := mat_entry m00 m01 m10 m11 b in
           (k, (if im then ki * khalf else khalf) * (if minus then ea - eb else ea + eb))) tab.

  (* <r| P_key |c> for the one-qubit integer encoding of int_to_tuple: key bit 0 = x, bit 1 = z;
     0 = I, 1 = X, 2 = Z, 3 = Y (comb_pairs_std) *)
  Definition key_entry (key : N) (r c : bool) : K S :=
    match key with
    | 0%N => if Bool.eqb r c then 1 else 0
    | 1%N => if Bool.eqb r c then 0 else 1
    | 2%N => if Bool.eqb r c then (if r then - (1) else 1) else 0
    | _ => if Bool.eqb r c then 0 else (if r then ki else - ki)
    end.
  Definition pauli_sum_entry (cs : list (N * K S)) (r c : bool) : K S :=
    fold_right (fun kv acc => snd kv * key_entry (fst kv) r c + acc) 0 cs.
End Comb.
