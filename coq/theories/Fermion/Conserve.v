(* Conserve.v — the executable checker behind the conservation clauses of C12 (definitions only).
   A fermionic term changes the number of occupied orbitals inside a set A of spin-orbitals by
   (#creators in A) - (#annihilators in A), whatever the determinant.  [conserves_sectors] checks that
   this balance is zero for the spin-up and for the spin-down orbitals of every term of a generator;
   ConserveProofs.v shows that such terms map every (N_alpha, N_beta) sector into itself, so that N and
   Sz commute with every operator assembled from them. *)
From Coq Require Import NArith ZArith List Bool.
From Tangelo Require Import Num.KStruct Fermion.Fock Fermion.Symmetry.
Import ListNotations.

Definition count_in (A : list N) (d : N) : nat := length (filter (occ d) A).
Definition mem_orb (p : N) (A : list N) : bool := existsb (N.eqb p) A.

Definition ladder_delta (A : list N) (l : ladder) : Z :=
  if mem_orb (fst l) A then (if snd l then 1 else -1)%Z else 0%Z.
Definition term_delta (A : list N) (t : fterm) : Z :=
  fold_right (fun l acc => (ladder_delta A l + acc)%Z) 0%Z t.

Definition alpha_orbs (ud : bool) (n : nat) : list N := map (upo ud n) (seq 0 n).
Definition beta_orbs (ud : bool) (n : nat) : list N := map (dno ud n) (seq 0 n).

Definition term_conserves (ud : bool) (n : nat) (t : fterm) : bool :=
  Z.eqb (term_delta (alpha_orbs ud n) t) 0 && Z.eqb (term_delta (beta_orbs ud n) t) 0.

(* a generator given by its terms (coefficients are irrelevant for the sectors) *)
Definition conserves_sectors (ud : bool) (n : nat) (g : list fterm) : bool :=
  forallb (term_conserves ud n) g.

(* weaker: conserves the particle number only (used to classify, e.g., spin-flip terms of S^2) *)
Definition term_conserves_number (ud : bool) (n : nat) (t : fterm) : bool :=
  Z.eqb (term_delta (alpha_orbs ud n ++ beta_orbs ud n) t) 0.
