(* MappingProofs.v — spin re-ordering is a permutation (all even n); scBK parity factors (all integers,
   Python floor division); Majorana strings of BK, BK-tree and JKMN pairwise anticommute for every
   register size up to a bound stated in the lemma (by computation: partial), hence the CAR there. *)
From Coq Require Import NArith ZArith List Bool Lia.
From Tangelo Require Import Num.KStruct Pauli.Word Fermion.Fock Fermion.CAR Fermion.CARProofs Fermion.JW
     Fermion.BK Fermion.SCBK Fermion.JKMN Fermion.Mapping Linq.GateModel.
Import ListNotations.

(* ---------- up_then_down ---------- *)
(* for even n the index map of make_up_then_down / openfermion's up_then_down sends orbital k with
   spin s (index 2k+s) to k + s*n/2 ... *)
Lemma div2_even : forall k, (2 * k / 2 = k)%N.
Proof. intro k. rewrite N.mul_comm. apply N.div_mul. lia. Qed.
Lemma div2_odd : forall k, ((2 * k + 1) / 2 = k)%N.
Proof. intro k. symmetry. apply (N.div_unique (2 * k + 1) 2 k 1); lia. Qed.
Lemma odd_2k : forall k, N.odd (2 * k) = false.
Proof. intro k. rewrite N.odd_mul. reflexivity. Qed.
Lemma odd_2k1 : forall k, N.odd (2 * k + 1) = true.
Proof. intro k. rewrite N.odd_add, odd_2k. reflexivity. Qed.

Lemma utd_index_spec : forall n k s, N.even n = true -> (s < 2)%N -> (2 * k + s < n)%N ->
    utd_index n (2 * k + s) = (k + s * (n / 2))%N.
Proof.
  intros n k s Hn Hs Hk. unfold utd_index.
  apply N.even_spec in Hn. destruct Hn as [m Hm]. subst n.
  assert (Hs' : s = 0%N \/ s = 1%N) by lia. destruct Hs' as [-> | ->].
  - rewrite N.add_0_r, odd_2k, !div2_even. lia.
  - rewrite odd_2k1, div2_odd, div2_odd, div2_even. lia.
Qed.

(* ... stays inside the register and is injective there: a permutation of 0..n-1 *)
Theorem up_then_down_is_permutation : forall n, N.even n = true ->
    (forall p, (p < n)%N -> (utd_index n p < n)%N) /\
    (forall p q, (p < n)%N -> (q < n)%N -> utd_index n p = utd_index n q -> p = q).
Proof.
  intros n Hn.
  assert (Hdec : forall p, (p < n)%N -> exists k s, (s < 2)%N /\ p = (2 * k + s)%N).
  { intros p _. exists (p / 2)%N, (p mod 2)%N. split; [apply N.mod_lt; lia | apply N.div_mod; lia]. }
  pose proof Hn as Hn'. apply N.even_spec in Hn'. destruct Hn' as [m Hm].
  assert (Hhalf : (n / 2 = m)%N) by (subst n; rewrite N.mul_comm, N.div_mul; lia).
  split.
  - intros p Hp. destruct (Hdec p Hp) as [k [s [Hs E]]]. subst p.
    rewrite utd_index_spec by assumption. rewrite Hhalf.
    assert (Hs2 : s = 0%N \/ s = 1%N) by lia. destruct Hs2; subst s; lia.
  - intros p q Hp Hq H.
    destruct (Hdec p Hp) as [k [s [Hs E]]]. destruct (Hdec q Hq) as [k' [s' [Hs' E']]]. subst p q.
    rewrite !utd_index_spec in H by assumption. rewrite Hhalf in H.
    assert (Hs2 : s = 0%N \/ s = 1%N) by lia. assert (Hs2' : s' = 0%N \/ s' = 1%N) by lia.
    destruct Hs2; destruct Hs2'; subst s s'; lia.
Qed.

Example utd_example : map (utd_index 6) [0; 1; 2; 3; 4; 5]%N = [0; 3; 1; 4; 2; 5]%N.
Proof. reflexivity. Qed.

(* ---------- scBK parity factors ---------- *)
(* n_alpha = n_e//2 + spin//2 + n_e%2 equals (n_e + spin)/2 for ALL integers of equal parity,
   negative and odd values included (Z.div and Z.modulo by 2 are Python's // and %) *)
Theorem scbk_parity_factors : forall ne spin : Z,
    Z.even (ne + spin) = true -> scbk_n_alpha ne spin = ((ne + spin) / 2)%Z.
Proof.
  intros ne spin H. unfold scbk_n_alpha.
  apply Z.even_spec in H. destruct H as [m Hm].
  pose proof (Z.div_mod ne 2 ltac:(lia)) as H1. pose proof (Z.mod_pos_bound ne 2 ltac:(lia)) as H2.
  pose proof (Z.div_mod spin 2 ltac:(lia)) as H3. pose proof (Z.mod_pos_bound spin 2 ltac:(lia)) as H4.
  rewrite Hm. rewrite Z.mul_comm, Z.div_mul by lia. lia.
Qed.

(* the two parity factors are the number parity and the alpha-number parity of the sector *)
Theorem scbk_parity_signs : forall na nb : Z,
    parity_neg (na + nb) = xorb (Z.odd na) (Z.odd nb) /\
    parity_neg (scbk_n_alpha (na + nb) (na - nb)) = Z.odd na.
Proof.
  intros na nb. split.
  - unfold parity_neg. apply Z.odd_add.
  - rewrite scbk_parity_factors.
    + replace (na + nb + (na - nb))%Z with (na * 2)%Z by lia. rewrite Z.div_mul by lia. reflexivity.
    + replace (na + nb + (na - nb))%Z with (2 * na)%Z by lia. apply Z.even_mul.
Qed.

Example scbk_parity_example :
  scbk_n_alpha 3 (-1) = 1%Z /\ scbk_n_alpha 5 (-3) = 1%Z /\ scbk_n_alpha 4 (-2) = 1%Z /\ Z.even (3 + -1) = true.
Proof. repeat split. Qed.

(* ---------- bounded anticommutation by computation ---------- *)
Definition upto (f : nat -> bool) (b : nat) : bool := forallb f (seq 0 (Datatypes.S b)).
Lemma upto_spec : forall f b, upto f b = true -> forall n, (n <= b)%nat -> f n = true.
Proof.
  intros f b H n Hn. unfold upto in H. rewrite forallb_forall in H. apply H. apply in_seq. lia.
Qed.

Definition bk_check (n : nat) : bool := all_anticommute (bk_gammas (N.of_nat n)).
Definition bkt_check (n : nat) : bool := all_anticommute (bkt_gammas (N.of_nat n)).
Definition jkmn_words (n : N) : option (list word) :=
  match jkmn_majs jkmn_std n with Ok l => Some (map snd l) | Err _ => None end.
Definition jkmn_check (n : nat) : bool :=
  match jkmn_words (N.of_nat n) with
  | Some l => Nat.eqb (length l) (2 * n) && all_anticommute l
  | None => false
  end.

Lemma bk_check_64 : upto bk_check 64 = true.
Proof. vm_compute. reflexivity. Qed.
Lemma bkt_check_64 : upto bkt_check 64 = true.
Proof. vm_compute. reflexivity. Qed.
Lemma jkmn_check_64 : upto jkmn_check 64 = true.
Proof. vm_compute. reflexivity. Qed.

(* partial: register sizes up to 64 only (the general statement over the Fenwick-tree set
   identities / ternary-tree paths is not proved) *)
Theorem bk_strings_anticommute_partial : forall n, (n <= 64)%nat ->
    all_anticommute (bk_gammas (N.of_nat n)) = true.
Proof. intros n Hn. exact (upto_spec _ _ bk_check_64 n Hn). Qed.

Theorem bkt_strings_anticommute_partial : forall n, (n <= 64)%nat ->
    all_anticommute (bkt_gammas (N.of_nat n)) = true.
Proof. intros n Hn. exact (upto_spec _ _ bkt_check_64 n Hn). Qed.

(* for n <= 64 the JKMN dictionary assigns every key 0..2n-1 (no KeyError) and the strings pairwise
   anticommute — after the Hadamard re-labelling and the signed re-assignment *)
Theorem jkmn_strings_anticommute_partial : forall n, (n <= 64)%nat ->
    exists l, jkmn_majs jkmn_std (N.of_nat n) = Ok l /\ length l = (2 * n)%nat /\ all_anticommute (map snd l) = true.
Proof.
  intros n Hn. pose proof (upto_spec _ _ jkmn_check_64 n Hn) as H.
  unfold jkmn_check, jkmn_words in H.
  destruct (jkmn_majs jkmn_std (N.of_nat n)) as [l|e]; [|discriminate].
  apply andb_true_iff in H. destruct H as [H1 H2]. apply Nat.eqb_eq in H1. rewrite map_length in H1.
  exists l. repeat split; assumption.
Qed.

(* ---------- from a list of anticommuting strings to the CAR ---------- *)
Section ListCAR.
  Variable S : KS.

  (* ladder images read from a list g_0, g_1, ..., g_{2n-1} of signed strings: a_p = (g_2p + i g_2p+1)/2 *)
  Definition ladder_of_list (g : list maj) (l : ladder) : op S :=
    ladder_of_maj S (nth (2 * N.to_nat (fst l)) g (false, [])) (nth (2 * N.to_nat (fst l) + 1) g (false, [])) (snd l).

  Theorem list_majoranas_give_car : forall (g : list maj) (n : nat),
      length g = (2 * n)%nat -> all_anticommute (map snd g) = true ->
      car_holds S (ladder_of_list g) (N.of_nat n).
  Proof.
    intros g n Hlen Hall. unfold maj in *.
    assert (Hnth : forall i j, (i < 2 * n)%nat -> (j < 2 * n)%nat -> i <> j ->
                               wcommute (snd (nth i g (false, []))) (snd (nth j g (false, []))) = false).
    { intros i j Hi Hj Hij.
      assert (Hi' : (i < length (map snd g))%nat) by (rewrite map_length; lia).
      assert (Hj' : (j < length (map snd g))%nat) by (rewrite map_length; lia).
      pose proof (all_anticommute_nth (map snd g) Hall i j Hi' Hj' Hij) as H.
      change (@nil (N * pauli)) with (snd (false, @nil (N * pauli))) in H.
      rewrite !map_nth in H. exact H. }
    apply (majoranas_give_car S (N.of_nat n)
             (fun p => nth (2 * N.to_nat p) g (false, [])) (fun p => nth (2 * N.to_nat p + 1) g (false, []))).
    - intros p q Hp Hq Hpq. unfold anti.
      assert (N.to_nat p <> N.to_nat q) by lia.
      repeat split; apply Hnth; lia.
    - intros p Hp. unfold anti. apply Hnth; lia.
  Qed.
End ListCAR.

(* ---------- CAR for BK, BK-tree, JKMN up to the bound ---------- *)
Lemma nth_pairs : forall (c d : nat -> word) n s p, (p < n)%nat ->
    nth (2 * p) (flat_map (fun q => [c q; d q]) (seq s n)) [] = c (s + p)%nat /\
    nth (2 * p + 1) (flat_map (fun q => [c q; d q]) (seq s n)) [] = d (s + p)%nat.
Proof.
  intros c d n. induction n as [|n IH]; intros s p Hp; [lia|].
  destruct p as [|p].
  - simpl. rewrite Nat.add_0_r. split; reflexivity.
  - replace (2 * Datatypes.S p)%nat with (Datatypes.S (Datatypes.S (2 * p))) by lia.
    simpl seq. simpl flat_map. simpl nth.
    destruct (IH (Datatypes.S s) p ltac:(lia)) as [H1 H2].
    replace (s + Datatypes.S p)%nat with (Datatypes.S s + p)%nat by lia.
    split; [exact H1|]. replace (2 * p + 1)%nat with (2 * p + 1)%nat in H2 by lia.
    replace (Datatypes.S (Datatypes.S (2 * p)) + 1)%nat with (Datatypes.S (Datatypes.S (2 * p + 1))) by lia.
    exact H2.
Qed.

Lemma length_pairs : forall (c d : nat -> word) n s,
    length (flat_map (fun q => [c q; d q]) (seq s n)) = (2 * n)%nat.
Proof.
  intros c d n. induction n as [|n IH]; intro s; [reflexivity|].
  simpl. rewrite IH. lia.
Qed.

Section BoundedCAR.
  Variable S : KS.

  Lemma car_holds_ext : forall (enc enc' : ladder -> op S) n,
      (forall l, (fst l < n)%N -> enc l = enc' l) -> car_holds S enc n -> car_holds S enc' n.
  Proof.
    intros enc enc' n H Hc p q Hp Hq.
    rewrite <- !H by assumption. apply Hc; assumption.
  Qed.

  Lemma pairs_ladder : forall (c d : nat -> word) n (l : ladder), (fst l < N.of_nat n)%N ->
      ladder_of_list S (map (fun w => (false, w)) (flat_map (fun q => [c q; d q]) (seq 0 n))) l
      = ladder_of_maj S (false, c (N.to_nat (fst l))) (false, d (N.to_nat (fst l))) (snd l).
  Proof.
    intros c d n [p cr] Hp. simpl in Hp. unfold ladder_of_list. simpl fst. simpl snd.
    change (false, @nil (N * pauli)) with ((fun w : word => (false, w)) []).
    rewrite !map_nth.
    destruct (nth_pairs c d n 0 (N.to_nat p) ltac:(lia)) as [H1 H2].
    rewrite H1, H2. reflexivity.
  Qed.

  Theorem bk_car_partial : forall n, (n <= 64)%nat -> car_holds S (bk_ladder S (N.of_nat n)) (N.of_nat n).
  Proof.
    intros n Hn.
    set (c := fun q => bk_c (N.of_nat n) (N.of_nat q)). set (d := fun q => bk_d (N.of_nat n) (N.of_nat q)).
    apply (car_holds_ext (ladder_of_list S (map (fun w => (false, w)) (flat_map (fun q => [c q; d q]) (seq 0 n))))).
    - intros l Hl. rewrite pairs_ladder by exact Hl. unfold bk_ladder, c, d. rewrite N2Nat.id. reflexivity.
    - apply list_majoranas_give_car.
      + rewrite map_length. apply length_pairs.
      + rewrite map_map. simpl. rewrite map_id.
        pose proof (bk_strings_anticommute_partial n Hn) as H. unfold bk_gammas in H.
        rewrite Nat2N.id in H. exact H.
  Qed.

  Theorem bkt_car_partial : forall n, (n <= 64)%nat ->
      car_holds S (bkt_ladder S (fen_tree (N.of_nat n))) (N.of_nat n).
  Proof.
    intros n Hn.
    set (t := fen_tree (N.of_nat n)).
    set (c := fun q => bkt_c t (N.of_nat q)). set (d := fun q => bkt_d t (N.of_nat q)).
    apply (car_holds_ext (ladder_of_list S (map (fun w => (false, w)) (flat_map (fun q => [c q; d q]) (seq 0 n))))).
    - intros l Hl. rewrite pairs_ladder by exact Hl. unfold bkt_ladder, c, d. rewrite N2Nat.id. reflexivity.
    - apply list_majoranas_give_car.
      + rewrite map_length. apply length_pairs.
      + rewrite map_map. simpl. rewrite map_id.
        pose proof (bkt_strings_anticommute_partial n Hn) as H. unfold bkt_gammas in H.
        rewrite Nat2N.id in H. exact H.
  Qed.

  Theorem jkmn_car_partial : forall n, (n <= 64)%nat ->
      exists majs, jkmn_majs jkmn_std (N.of_nat n) = Ok majs /\ car_holds S (jkmn_ladder S majs) (N.of_nat n).
  Proof.
    intros n Hn. destruct (jkmn_strings_anticommute_partial n Hn) as [l [H1 [H2 H3]]].
    exists l. split; [exact H1|]. exact (list_majoranas_give_car S l n H2 H3).
  Qed.
End BoundedCAR.

(* the hypotheses of the implications above are met by non-trivial objects *)
Example anticommuting_family_exists :
  all_anticommute (jw_gammas 3) = true /\ all_anticommute (bk_gammas 5) = true /\
  all_anticommute (bkt_gammas 6) = true /\ jkmn_check 7 = true /\ length (bk_gammas 5) = 10%nat.
Proof. vm_compute. repeat split. Qed.
