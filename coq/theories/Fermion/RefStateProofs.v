(* RefStateProofs.v — lemmas about the reference-state models of RefState.v (property C05).
     1. filling: the slice assignments of get_vector set exactly the lowest n_alpha even and n_beta odd
        positions, for ALL integers n_electrons, spin (Python // and %, negative and odd values), all m = n/2
     2. ordering: position utd_index n i of utd_vec v holds entry i of v (all n)
     3. X gates: den (x_circuit (targets of v)) |0..0> = |v>  (generic number structure, no axiom)
     4. number operators: for a pair of Majorana strings c, d whose product is i^(odd) times a Z-only word w,
        <x| a^dagger a |x> = 0 or 1 according to the parity of x over w (generic algebra over KS);
        reflection: a boolean checker over the strings and a GF(2) "toggle matrix" M, whose success implies
        <x| a_p^dagger a_p |x> = u_p for EVERY occupation vector u and the state x whose bit q is the
        GF(2) sum over occupied k of M q k
     5. instances: Jordan-Wigner for all n (induction over the Z prefix); Bravyi-Kitaev encoder, BK-tree
        (scBK before pruning) and JKMN preparation vectors for all n up to a bound (checker by vm_compute). *)
From Coq Require Import String NArith ZArith List Bool Lia.
From Tangelo Require Import Num.KStruct Num.Cyc QSem.State QSem.BitLemmas Pauli.Word Pauli.WordProofs Pauli.Action
     Pauli.ActionProofs Fermion.Fock Fermion.CAR Fermion.JW Fermion.JWProofs Fermion.BK Fermion.SCBK
     Fermion.JKMN Fermion.Mapping Fermion.MappingProofs Fermion.ShowEnc Fermion.RefState Linq.GateModel Linq.Interp.
Import ListNotations.
Close Scope string_scope.
Open Scope list_scope.

(* ================================================================ 1. filling *)
Lemma nth_map_seq {X} (f : nat -> X) (len k : nat) (d : X) :
  (k < len)%nat -> nth k (map f (seq 0 len)) d = f k.
Proof.
  intro H. rewrite (nth_indep _ d (f 0%nat)) by (rewrite map_length, seq_length; exact H).
  rewrite map_nth, seq_nth by exact H. reflexivity.
Qed.

Lemma nth_repeat_false (n k : nat) : nth k (repeat false n) false = false.
Proof. revert k. induction n as [|n IH]; intros [|k]; simpl; auto. Qed.

Lemma set_slice_length v a b s : length (set_slice v a b s) = length v.
Proof. unfold set_slice. rewrite map_length, seq_length. reflexivity. Qed.

Lemma set_slice_nth v a b s k : (k < length v)%nat ->
  nth k (set_slice v a b s) false = in_slice (Z.of_nat (length v)) a b s (Z.of_nat k) || nth k v false.
Proof.
  intro H. unfold set_slice.
  apply (nth_map_seq (fun j => in_slice (Z.of_nat (length v)) a b s (Z.of_nat j) || nth j v false)). exact H.
Qed.

(* spin as `if spin:` sees it: None and 0 mean "fill the lowest n_electrons spin-orbitals", which is the
   determinant with n_alpha - n_beta = n_electrons mod 2 *)
Definition hf_eff_spin (spin : option Z) (ne : Z) : Z :=
  match spin with
  | Some s => if (s =? 0)%Z then (ne mod 2)%Z else s
  | None => (ne mod 2)%Z
  end.

Lemma in_slice_even (L na : Z) (k : Z) : (0 <= k)%Z -> (0 <= 2 * na <= L)%Z ->
  in_slice L 0 (2 * na) 2 (2 * k) = (k <? na)%Z /\ in_slice L 0 (2 * na) 2 (2 * k + 1) = false.
Proof.
  intros Hk Hna. unfold in_slice, py_clip.
  replace (0 <? 0)%Z with false by reflexivity.
  destruct (Z.ltb_spec (2 * na) 0); [lia|].
  rewrite (Z.min_l 0 L) by lia. rewrite (Z.min_l (2 * na) L) by lia.
  rewrite !Z.sub_0_r.
  assert (M0 : ((2 * k) mod 2 = 0)%Z) by (Z.div_mod_to_equations; lia).
  assert (M1 : ((2 * k + 1) mod 2 = 1)%Z) by (Z.div_mod_to_equations; lia).
  rewrite M0, M1. change (0 =? 0)%Z with true. change (1 =? 0)%Z with false.
  split.
  - destruct (Z.leb_spec 0 (2 * k)); [|lia].
    destruct (Z.ltb_spec (2 * k) (2 * na)); destruct (Z.ltb_spec k na); cbn [andb]; auto; lia.
  - rewrite andb_false_r. reflexivity.
Qed.

Lemma in_slice_odd (L nb : Z) (k : Z) : (0 <= k)%Z -> (2 * k + 1 < L)%Z -> (0 <= 2 * nb <= L)%Z ->
  in_slice L 1 (2 * nb + 1) 2 (2 * k + 1) = (k <? nb)%Z /\ in_slice L 1 (2 * nb + 1) 2 (2 * k) = false.
Proof.
  intros Hk HL Hnb. unfold in_slice, py_clip.
  replace (1 <? 0)%Z with false by reflexivity.
  destruct (Z.ltb_spec (2 * nb + 1) 0); [lia|].
  rewrite (Z.min_l 1 L) by lia.
  assert (M0 : ((2 * k + 1 - 1) mod 2 = 0)%Z) by (Z.div_mod_to_equations; lia).
  assert (M1 : ((2 * k - 1) mod 2 = 1)%Z) by (Z.div_mod_to_equations; lia).
  rewrite M0, M1. change (0 =? 0)%Z with true. change (1 =? 0)%Z with false.
  split.
  - destruct (Z.leb_spec 1 (2 * k + 1)); [|lia].
    destruct (Z.ltb_spec (2 * k + 1) (Z.min (2 * nb + 1) L)); destruct (Z.ltb_spec k nb); cbn [andb]; auto; lia.
  - rewrite andb_false_r. reflexivity.
Qed.

Lemma in_slice_prefix (L ne j : Z) : (0 <= j)%Z -> (0 <= ne <= L)%Z ->
  in_slice L 0 ne 1 j = (j <? ne)%Z.
Proof.
  intros Hj Hne. unfold in_slice, py_clip.
  replace (0 <? 0)%Z with false by reflexivity.
  destruct (Z.ltb_spec ne 0); [lia|].
  rewrite (Z.min_l 0 L) by lia. rewrite (Z.min_l ne L) by lia.
  rewrite Z.mod_1_r. change (0 =? 0)%Z with true. destruct (Z.leb_spec 0 j); [|lia]. cbn [andb]. rewrite andb_true_r. reflexivity.
Qed.

Lemma half_sum_diff (ne s : Z) : Z.even (ne + s) = true ->
  (2 * ((ne + s) / 2) = ne + s /\ 2 * ((ne - s) / 2) = ne - s)%Z.
Proof.
  intro H. apply Z.even_spec in H. destruct H as [m Hm].
  assert (H2 : (ne - s = 2 * (m - s))%Z) by lia.
  rewrite Hm, H2. rewrite !(Z.mul_comm 2), !Z.div_mul by lia. lia.
Qed.

Lemma hf_n_beta_spec (ne s : Z) : Z.even (ne + s) = true -> hf_n_beta ne s = ((ne - s) / 2)%Z.
Proof.
  intro H. unfold hf_n_beta. pose proof (half_sum_diff ne s H) as [_ H2].
  pose proof (Z.div_mod ne 2 ltac:(lia)) as H1. pose proof (Z.mod_pos_bound ne 2 ltac:(lia)) as B1.
  pose proof (Z.div_mod s 2 ltac:(lia)) as H3. pose proof (Z.mod_pos_bound s 2 ltac:(lia)) as B3.
  apply Z.even_spec in H. destruct H as [m Hm]. lia.
Qed.

Theorem filling_counts : forall (m : nat) (ne : Z) (spin : option Z),
    let s := hf_eff_spin spin ne in
    let na := ((ne + s) / 2)%Z in
    let nb := ((ne - s) / 2)%Z in
    Z.even (ne + s) = true -> (0 <= na <= Z.of_nat m)%Z -> (0 <= nb <= Z.of_nat m)%Z ->
    exists v, hf_filling (Z.of_nat (2 * m)) ne spin = ROk v /\ length v = (2 * m)%nat /\
              forall k, (k < m)%nat ->
                        nth (2 * k) v false = (Z.of_nat k <? na)%Z /\
                        nth (2 * k + 1) v false = (Z.of_nat k <? nb)%Z.
Proof.
  intros m ne spin s na nb Hpar Hna Hnb.
  pose proof (half_sum_diff ne s Hpar) as [Ea Eb]. fold na in Ea. fold nb in Eb.
  unfold hf_filling.
  destruct (Z.ltb_spec (Z.of_nat (2 * m)) 0) as [Hneg|_]; [lia|].
  rewrite Nat2Z.id.
  set (z := repeat false (2 * m)).
  assert (Lz : length z = (2 * m)%nat) by (unfold z; apply repeat_length).
  assert (Zz : forall j, nth j z false = false) by (intro j; apply nth_repeat_false).
  (* the two shapes *)
  assert (Hprefix : s = (ne mod 2)%Z ->
          exists v, ROk (set_slice z 0 ne 1) = ROk v /\ length v = (2 * m)%nat /\
                    forall k, (k < m)%nat -> nth (2 * k) v false = (Z.of_nat k <? na)%Z /\
                                             nth (2 * k + 1) v false = (Z.of_nat k <? nb)%Z).
  { intro Hs. exists (set_slice z 0 ne 1). split; [reflexivity|]. split; [rewrite set_slice_length; exact Lz|].
    pose proof (Z.mod_pos_bound ne 2 ltac:(lia)) as B.
    intros k Hk. rewrite !set_slice_nth by lia. rewrite !Zz, !orb_false_r, Lz.
    rewrite !in_slice_prefix by lia.
    split.
    - destruct (Z.ltb_spec (Z.of_nat (2 * k)) ne); destruct (Z.ltb_spec (Z.of_nat k) na); auto; lia.
    - destruct (Z.ltb_spec (Z.of_nat (2 * k + 1)) ne); destruct (Z.ltb_spec (Z.of_nat k) nb); auto; lia. }
  assert (Hspin : forall s0, s = s0 -> (s0 =? 0)%Z = false ->
          exists v, ROk (set_slice (set_slice z 0 (2 * hf_n_alpha ne s0) 2) 1 (2 * hf_n_beta ne s0 + 1) 2) = ROk v /\
                    length v = (2 * m)%nat /\
                    forall k, (k < m)%nat -> nth (2 * k) v false = (Z.of_nat k <? na)%Z /\
                                             nth (2 * k + 1) v false = (Z.of_nat k <? nb)%Z).
  { intros s0 Hs0 _. subst s0.
    assert (Ha : hf_n_alpha ne s = na) by (apply scbk_parity_factors; exact Hpar).
    assert (Hb : hf_n_beta ne s = nb) by (apply hf_n_beta_spec; exact Hpar).
    rewrite Ha, Hb.
    eexists. split; [reflexivity|]. split; [rewrite !set_slice_length; exact Lz|].
    intros k Hk.
    rewrite !set_slice_nth by (rewrite ?set_slice_length; lia).
    rewrite !set_slice_length, !Zz, !orb_false_r, Lz.
    replace (Z.of_nat (2 * k)) with (2 * Z.of_nat k)%Z by lia.
    replace (Z.of_nat (2 * k + 1)) with (2 * Z.of_nat k + 1)%Z by lia.
    destruct (in_slice_even (Z.of_nat (2 * m)) na (Z.of_nat k) ltac:(lia) ltac:(lia)) as [E1 E2].
    destruct (in_slice_odd (Z.of_nat (2 * m)) nb (Z.of_nat k) ltac:(lia) ltac:(lia) ltac:(lia)) as [O1 O2].
    rewrite E1, E2, O1, O2. split; [reflexivity | apply orb_false_r]. }
  unfold s, hf_eff_spin in *.
  destruct spin as [s0|].
  - destruct (s0 =? 0)%Z eqn:E0.
    + apply Hprefix. reflexivity.
    + apply (Hspin s0); [reflexivity | exact E0].
  - apply Hprefix. reflexivity.
Qed.

(* ================================================================ 2. ordering *)
Lemma nth_nil' {X} (d : X) k : nth k (@nil X) d = d.
Proof. destruct k; reflexivity. Qed.

Lemma evens_nth {X} (d : X) : forall (l : list X) k, nth k (evens l) d = nth (2 * k) l d.
Proof.
  fix IH 1. intros [|a [|b r]] k.
  - cbn [evens]. rewrite !nth_nil'. reflexivity.
  - destruct k as [|k]; [reflexivity|]. cbn [evens].
    replace (2 * Datatypes.S k)%nat with (Datatypes.S (Datatypes.S (2 * k))) by lia. cbn [nth].
    destruct k; reflexivity.
  - destruct k as [|k]; [reflexivity|]. cbn [evens nth].
    replace (2 * Datatypes.S k)%nat with (Datatypes.S (Datatypes.S (2 * k))) by lia. cbn [nth]. apply IH.
Qed.

Lemma evens_length {X} : forall (l : list X), length (evens l) = Nat.div2 (Datatypes.S (length l)).
Proof.
  fix IH 1. intros [|a [|b r]]; [reflexivity|reflexivity|].
  cbn [evens length]. rewrite IH. reflexivity.
Qed.

Lemma odds_nth {X} (d : X) (l : list X) k : nth k (odds l) d = nth (2 * k + 1) l d.
Proof.
  destruct l as [|a r]; [destruct k; reflexivity|]. unfold odds. rewrite evens_nth.
  replace (2 * k + 1)%nat with (Datatypes.S (2 * k)) by lia. reflexivity.
Qed.

Lemma utd_vec_length (v : vec) : length (utd_vec v) = length v.
Proof.
  unfold utd_vec. rewrite app_length. destruct v as [|a r]; [reflexivity|].
  unfold odds. rewrite !evens_length. cbn [length].
  generalize (length r). intro n.
  assert (H : forall n, (Nat.div2 (Datatypes.S (Datatypes.S n)) + Nat.div2 (Datatypes.S n) = Datatypes.S n)%nat).
  { fix IH 1. intros [|[|k]]; [reflexivity|reflexivity|].
    change (Nat.div2 (Datatypes.S (Datatypes.S (Datatypes.S (Datatypes.S k))))) with (Datatypes.S (Nat.div2 (Datatypes.S (Datatypes.S k)))).
    change (Nat.div2 (Datatypes.S (Datatypes.S (Datatypes.S k)))) with (Datatypes.S (Nat.div2 (Datatypes.S k))).
    specialize (IH k). lia. }
  apply H.
Qed.

Lemma div2_S_half (n : nat) : Nat.div2 (Datatypes.S n) = N.to_nat ((N.of_nat n + 1) / 2).
Proof.
  rewrite Nat.div2_div. apply Nat2N.inj. rewrite N2Nat.id, Nat2N.inj_div. f_equal. lia.
Qed.

(* entry i of the alternating vector sits at position utd_index n i of the re-ordered vector: any n *)
Theorem utd_vec_nth : forall (v : vec) (i : nat), (i < length v)%nat ->
    nth (N.to_nat (utd_index (N.of_nat (length v)) (N.of_nat i))) (utd_vec v) false = nth i v false.
Proof.
  intros v i Hi. unfold utd_index, utd_vec.
  set (n := length v) in *.
  pose proof (evens_length v) as Le. fold n in Le. rewrite div2_S_half in Le.
  pose proof (N.div_mod (N.of_nat i) 2 ltac:(lia)) as Hd.
  pose proof (N.mod_lt (N.of_nat i) 2 ltac:(lia)) as Hr.
  pose proof (N.div_mod (N.of_nat n + 1) 2 ltac:(lia)) as Hd2.
  pose proof (N.mod_lt (N.of_nat n + 1) 2 ltac:(lia)) as Hr2.
  assert (Hm : (N.of_nat i mod 2 = if N.odd (N.of_nat i) then 1 else 0)%N).
  { rewrite <- N.bit0_mod, N.bit0_odd. destruct (N.odd (N.of_nat i)); reflexivity. }
  set (a := (N.of_nat i / 2)%N) in *. set (h := ((N.of_nat n + 1) / 2)%N) in *.
  set (r := (N.of_nat i mod 2)%N) in *. set (r2 := ((N.of_nat n + 1) mod 2)%N) in *.
  destruct (N.odd (N.of_nat i)) eqn:Eo.
  - (* odd: beta block *)
    rewrite app_nth2 by (rewrite Le; lia).
    rewrite Le.
    replace (N.to_nat (a + h) - N.to_nat h)%nat with (N.to_nat a) by lia.
    rewrite odds_nth. f_equal. lia.
  - rewrite N.add_0_r.
    rewrite app_nth1 by (rewrite Le; lia).
    rewrite evens_nth. f_equal. lia.
Qed.

(* the re-ordered Hartree-Fock vector consists of two blocks: n_alpha ones then zeros, n_beta ones then zeros *)
Lemma utd_blocks (v : vec) (m : nat) (fa fb : nat -> bool) :
  length v = (2 * m)%nat ->
  (forall k, (k < m)%nat -> nth (2 * k) v false = fa k /\ nth (2 * k + 1) v false = fb k) ->
  utd_vec v = map fa (seq 0 m) ++ map fb (seq 0 m).
Proof.
  intros Lv H. unfold utd_vec.
  assert (Le : length (evens v) = m).
  { rewrite evens_length, Lv, Nat.div2_div. replace (Datatypes.S (2 * m)) with (1 + m * 2)%nat by lia.
    rewrite Nat.div_add by lia. reflexivity. }
  assert (Lo : length (odds v) = m).
  { pose proof (utd_vec_length v) as L. unfold utd_vec in L. rewrite app_length, Le, Lv in L. lia. }
  f_equal.
  - apply (nth_ext _ _ false false); [rewrite map_length, seq_length; exact Le|].
    intros k Hk. rewrite Le in Hk. rewrite evens_nth, nth_map_seq by exact Hk. apply H. exact Hk.
  - apply (nth_ext _ _ false false); [rewrite map_length, seq_length; exact Lo|].
    intros k Hk. rewrite Lo in Hk. rewrite odds_nth, nth_map_seq by exact Hk. apply H. exact Hk.
Qed.

(* ================================================================ 3. bits and X gates *)
Lemma bits_to_N_testbit : forall (v : vec) (q : N), N.testbit (bits_to_N v) q = nth (N.to_nat q) v false.
Proof.
  induction v as [|b r IH]; intro q.
  - cbn [bits_to_N]. rewrite N.bits_0, nth_nil'. reflexivity.
  - cbn [bits_to_N]. destruct (N.eq_dec q 0) as [->|Hq].
    + rewrite N.testbit_0_r. reflexivity.
    + rewrite <- (N.succ_pred q Hq). rewrite N.testbit_succ_r, IH.
      rewrite N2Nat.inj_succ. reflexivity.
Qed.

Lemma flips_app x a b : flips x (a ++ b) = flips (flips x a) b.
Proof. unfold flips. apply fold_left_app. Qed.

Lemma bit_flips_targets : forall (v : vec) (k x q : N),
    bit (flips x (x_targets_from k v)) q =
    xorb (bit x q) (if (q <? k)%N then false else nth (N.to_nat (q - k)) v false).
Proof.
  induction v as [|b r IH]; intros k x q.
  - simpl. destruct (q <? k)%N; [|destruct (N.to_nat (q - k))]; rewrite xorb_false_r; reflexivity.
  - cbn [x_targets_from]. rewrite flips_app, IH.
    assert (Hb : bit (flips x (if b then [k] else [])) q = xorb (bit x q) (b && (k =? q)%N)).
    { destruct b; simpl; [apply bit_flip | rewrite xorb_false_r; reflexivity]. }
    rewrite Hb.
    destruct (N.ltb_spec q k) as [H1|H1].
    + destruct (N.ltb_spec q (k + 1)) as [_|H2]; [|lia].
      replace (k =? q)%N with false by (symmetry; apply N.eqb_neq; lia).
      rewrite andb_false_r, !xorb_false_r. reflexivity.
    + destruct (N.eq_dec q k) as [->|Hne].
      * destruct (N.ltb_spec k (k + 1)) as [_|H2]; [|lia].
        rewrite N.eqb_refl, andb_true_r, N.sub_diag, xorb_false_r. reflexivity.
      * destruct (N.ltb_spec q (k + 1)) as [H2|_]; [lia|].
        replace (k =? q)%N with false by (symmetry; apply N.eqb_neq; lia).
        rewrite andb_false_r, xorb_false_r.
        replace (N.to_nat (q - k)) with (Datatypes.S (N.to_nat (q - (k + 1)))) by lia. reflexivity.
Qed.

(* the X targets of a vector, flipped from |0..0>, give the basis index of the vector *)
Theorem flips_targets_bits (v : vec) : flips 0 (x_targets_from 0 v) = bits_to_N v.
Proof.
  apply bit_ext. intro q. rewrite bit_flips_targets. unfold bit at 1. rewrite N.bits_0.
  unfold bit. rewrite bits_to_N_testbit, N.sub_0_r.
  destruct (N.ltb_spec q 0); [lia|]. rewrite xorb_false_l. reflexivity.
Qed.

Section XGates.
  Variable S : KS.
  Add Ring kring_x : (k_ring S).
  Open Scope K_scope.

  Lemma x_on_ket (b q x : N) : app1 S (mX S) q (ket S b) x = ket S (flip b q) x.
  Proof.
    unfold app1, ket. cbn [mX m00 m01 m10 m11].
    assert (E : N.eqb (flip x q) b = N.eqb x (flip b q)).
    { destruct (N.eqb_spec (flip x q) b) as [H|H]; destruct (N.eqb_spec x (flip b q)) as [H'|H']; auto.
      - exfalso. apply H'. rewrite <- H. symmetry. apply flip_flip.
      - exfalso. apply H. rewrite H'. apply flip_flip. }
    rewrite E. destruct (bit x q); destruct (N.eqb x (flip b q)); destruct (N.eqb x b); ring.
  Qed.

  Lemma den_x_ext : forall (ts : list N) (psi phi : state S),
      (forall x, psi x = phi x) -> forall x, den S (x_circuit S ts) psi x = den S (x_circuit S ts) phi x.
  Proof.
    induction ts as [|q ts IH]; intros psi phi H x; [apply H|].
    cbn [x_circuit map]. unfold den. cbn [fold_left]. apply IH.
    intro y. unfold den_gate, ctrl, den_base. cbn [gctrl gbase allset forallb]. unfold app1.
    rewrite !H. reflexivity.
  Qed.

  (* X gates map basis states to basis states *)
  Lemma den_x_ket : forall (ts : list N) (b x : N),
      den S (x_circuit S ts) (ket S b) x = ket S (flips b ts) x.
  Proof.
    induction ts as [|q ts IH]; intros b x; [reflexivity|].
    cbn [x_circuit map]. unfold den. cbn [fold_left].
    change (fold_left (fun s g => den_gate S g s) (map (fun q0 => Gate (B1 GX q0) []) ts))
      with (den S (x_circuit S ts)).
    rewrite (den_x_ext ts _ (ket S (flip b q))).
    - rewrite IH. reflexivity.
    - intro y. unfold den_gate, ctrl, den_base. cbn [gctrl gbase allset forallb mat_of]. apply x_on_ket.
  Qed.

  (* C05: the circuit of vector_to_circuit prepares |v> from |0..0> *)
  Theorem x_gates_prepare_bits : forall (v : vec) (x : N),
      den S (x_circuit S (snd (vector_to_circuit v))) (ket S 0) x = ket S (bits_to_N v) x.
  Proof. intros v x. cbn [vector_to_circuit snd]. rewrite den_x_ket, flips_targets_bits. reflexivity. Qed.
End XGates.

(* the Python-level gates of vector_to_circuit are interpreted as exactly these X gates *)
Lemma interp_x_pgates (S : KS) (ang : unit -> A S) (ts : list N) :
  Linq.Interp.interp_all S unit ang (x_pgates ts) = Some (x_circuit S ts).
Proof.
  induction ts as [|q ts IH]; [reflexivity|].
  cbn [x_pgates map Linq.Interp.interp_all]. fold (x_pgates ts). rewrite IH.
  unfold Linq.Interp.interp. cbn. unfold Linq.Interp.zn. rewrite N2Z.id. reflexivity.
Qed.

(* ================================================================ 4. number operators *)
Definition zonly (w : word) : bool := forallb (fun f => pauli_eqb (snd f) PZ) w.
Definition zpar (x : N) (w : word) : bool := fold_right (fun f acc => xorb (bit x (fst f)) acc) false w.

(* ---- GF(2) sums ---- *)
Lemma xsum_S f n : xsum f (Datatypes.S n) = xorb (xsum f n) (f n).
Proof. unfold xsum. rewrite seq_S, fold_left_app. reflexivity. Qed.

Lemma xsum_xorb f g n : xsum (fun k => xorb (f k) (g k)) n = xorb (xsum f n) (xsum g n).
Proof.
  induction n as [|n IH]; [reflexivity|]. rewrite !xsum_S, IH.
  destruct (xsum f n), (xsum g n), (f n), (g n); reflexivity.
Qed.

Lemma xsum_ext f g n : (forall k, (k < n)%nat -> f k = g k) -> xsum f n = xsum g n.
Proof.
  induction n as [|n IH]; intro H; [reflexivity|]. rewrite !xsum_S, IH, H by (intros; try apply H; lia). reflexivity.
Qed.

Lemma xsum_false n : xsum (fun _ => false) n = false.
Proof. induction n as [|n IH]; [reflexivity|]. rewrite xsum_S, IH. reflexivity. Qed.

Lemma xsum_delta (u : nat -> bool) p n : (p < n)%nat -> xsum (fun k => Nat.eqb k p && u k) n = u p.
Proof.
  induction n as [|n IH]; intro H; [lia|]. rewrite xsum_S.
  destruct (Nat.eq_dec p n) as [->|Hne].
  - rewrite Nat.eqb_refl. cbn [andb].
    rewrite (xsum_ext _ (fun _ => false)), xsum_false; [apply xorb_false_l|].
    intros k Hk. replace (Nat.eqb k n) with false by (symmetry; apply Nat.eqb_neq; lia). reflexivity.
  - rewrite IH by lia. replace (Nat.eqb n p) with false by (symmetry; apply Nat.eqb_neq; lia).
    rewrite xorb_false_r. reflexivity.
Qed.

(* column sum of the toggle matrix M over the qubits of a word *)
Definition colsum (M : N -> nat -> bool) (w : word) (k : nat) : bool :=
  fold_right (fun f acc => xorb (M (fst f) k) acc) false w.

Lemma zpar_linear (M : N -> nat -> bool) (u : nat -> bool) (n : nat) (x : N) : forall w,
    (forall f, In f w -> bit x (fst f) = xsum (fun k => M (fst f) k && u k) n) ->
    zpar x w = xsum (fun k => colsum M w k && u k) n.
Proof.
  induction w as [|f w IH]; intro H.
  - cbn [zpar colsum fold_right]. rewrite xsum_false. reflexivity.
  - cbn [zpar colsum fold_right]. fold (zpar x w). rewrite (H f (or_introl eq_refl)), IH by (intros; apply H; right; assumption).
    rewrite <- xsum_xorb. apply xsum_ext. intros k _. fold (colsum M w k).
    destruct (M (fst f) k), (colsum M w k), (u k); reflexivity.
Qed.

(* ---- X/Y support of products ---- *)
Definition xpar (q : N) (w : word) : bool :=
  fold_right (fun f acc => xorb (N.eqb (fst f) q && nonZ (snd f)) acc) false w.

Lemma pmul1_nonZ pa pb :
  match fst (pmul1 pa pb) with None => false | Some p => nonZ p end = xorb (nonZ pa) (nonZ pb).
Proof. destruct pa, pb; reflexivity. Qed.

Lemma xpar_wmul q : forall a b, xpar q (fst (wmul a b)) = xorb (xpar q a) (xpar q b).
Proof.
  apply (wmul_ind (fun a b => xpar q (fst (wmul a b)) = xorb (xpar q a) (xpar q b))).
  - intro b. rewrite wmul_nil_l. cbn [fst]. unfold xpar at 2. cbn [fold_right]. rewrite xorb_false_l. reflexivity.
  - intro a. rewrite wmul_nil_r. cbn [fst]. unfold xpar at 3. cbn [fold_right]. rewrite xorb_false_r. reflexivity.
  - intros qa pa a' qb pb b' IH1 IH2 IH3. rewrite wmul_cons.
    destruct (ltb_cases qa qb) as [[E1 Hlt]|[[E1 [E2 Hlt]]|[E1 [E2 Heq]]]]; rewrite E1; try rewrite E2.
    + specialize (IH1 Hlt). destruct (wmul a' ((qb, pb) :: b')) as [w e]. cbn [fst] in *.
      cbn [xpar fold_right fst snd] in *. fold (xpar q w). fold (xpar q a'). fold (xpar q b') in *.
      rewrite IH1. destruct (N.eqb qa q && nonZ pa), (xpar q a'), (N.eqb qb q && nonZ pb), (xpar q b'); reflexivity.
    + specialize (IH2 Hlt). destruct (wmul ((qa, pa) :: a') b') as [w e]. cbn [fst] in *.
      cbn [xpar fold_right fst snd] in *. fold (xpar q w). fold (xpar q a') in *. fold (xpar q b').
      rewrite IH2. destruct (N.eqb qa q && nonZ pa), (xpar q a'), (N.eqb qb q && nonZ pb), (xpar q b'); reflexivity.
    + subst qb. specialize (IH3 eq_refl). destruct (wmul a' b') as [w e]. cbn [fst] in IH3.
      pose proof (pmul1_nonZ pa pb) as Hp.
      destruct (pmul1 pa pb) as [[p|] e1]; cbn [fst] in *;
        cbn [xpar fold_right fst snd]; fold (xpar q w); fold (xpar q a'); fold (xpar q b'); rewrite IH3.
      * rewrite Hp. destruct (N.eqb qa q), (nonZ pa), (nonZ pb), (xpar q a'), (xpar q b'); reflexivity.
      * destruct (N.eqb qa q), (nonZ pa), (nonZ pb), (xpar q a'), (xpar q b'); try reflexivity; discriminate.
Qed.

Lemma hasxy_notin q w : ~ In q (qubits w) -> hasxy q w = false.
Proof.
  induction w as [|[q' p] w IH]; intro H; [reflexivity|].
  cbn [hasxy existsb fst snd]. fold (hasxy q w).
  rewrite IH by (intro E; apply H; right; exact E).
  replace (N.eqb q' q) with false by (symmetry; apply N.eqb_neq; intro E; apply H; left; exact E). reflexivity.
Qed.

Lemma xpar_notin q w : ~ In q (qubits w) -> xpar q w = false.
Proof.
  induction w as [|[q' p] w IH]; intro H; [reflexivity|].
  cbn [xpar fold_right fst snd]. fold (xpar q w).
  rewrite IH by (intro E; apply H; right; exact E).
  replace (N.eqb q' q) with false by (symmetry; apply N.eqb_neq; intro E; apply H; left; exact E). reflexivity.
Qed.

Lemma hasxy_xpar q : forall w, word_wf w = true -> hasxy q w = xpar q w.
Proof.
  induction w as [|[q' p] w IH]; intro Hwf; [reflexivity|].
  cbn [hasxy existsb xpar fold_right fst snd]. fold (hasxy q w). fold (xpar q w).
  pose proof (word_wf_head_notin _ _ _ Hwf) as Hn.
  destruct (N.eqb_spec q' q) as [->|Hne].
  - rewrite hasxy_notin, xpar_notin by exact Hn. rewrite orb_false_r, xorb_false_r. reflexivity.
  - cbn [andb orb]. rewrite IH by (apply (word_wf_tail _ _ _ Hwf)). rewrite xorb_false_l. reflexivity.
Qed.

Lemma wprod_spec (ws : nat -> word) (u : nat -> bool) (q : N) : forall (l : list nat) (w0 : word),
    word_wf w0 = true -> (forall k, In k l -> word_wf (ws k) = true) ->
    let w := fold_left (fun w k => if u k then fst (wmul w (ws k)) else w) l w0 in
    word_wf w = true /\
    xpar q w = fold_left (fun acc k => xorb acc (xpar q (ws k) && u k)) l (xpar q w0).
Proof.
  induction l as [|k l IH]; intros w0 H0 Hl; [split; [exact H0 | reflexivity]|].
  cbn [fold_left].
  assert (Hk : word_wf (ws k) = true) by (apply Hl; left; reflexivity).
  destruct (u k) eqn:Eu.
  - specialize (IH (fst (wmul w0 (ws k))) (wmul_wf _ _ H0 Hk) (fun j Hj => Hl j (or_intror Hj))).
    cbn zeta in IH. rewrite xpar_wmul in IH. rewrite andb_true_r. exact IH.
  - specialize (IH w0 H0 (fun j Hj => Hl j (or_intror Hj))). cbn zeta in IH.
    rewrite andb_false_r, xorb_false_r. exact IH.
Qed.

(* bit q of the preparation vector of a product of well-formed words: GF(2) sum of the X/Y supports *)
Lemma hasxy_wprod (ws : nat -> word) (v : vec) (q : N) :
  (forall k, (k < length v)%nat -> word_wf (ws k) = true) ->
  hasxy q (wprod ws v) = xsum (fun k => xpar q (ws k) && nth k v false) (length v).
Proof.
  intro H. unfold wprod, xsum.
  destruct (wprod_spec ws (fun k => nth k v false) q (seq 0 (length v)) [] eq_refl) as [Hwf Hx].
  { intros k Hk. apply H. apply in_seq in Hk. lia. }
  rewrite hasxy_xpar by exact Hwf. exact Hx.
Qed.

Lemma prep_vector_bit (nq : nat) (w : word) (q : N) : (q < N.of_nat nq)%N ->
  bit (bits_to_N (prep_vector nq w)) q = hasxy q w.
Proof.
  intro H. unfold bit, prep_vector. rewrite bits_to_N_testbit.
  rewrite (nth_map_seq (fun j => hasxy (N.of_nat j) w)) by lia. rewrite N2Nat.id. reflexivity.
Qed.

(* ---- the number operator of a Majorana pair ---- *)
Definition mode_check (c d : maj) : option word :=
  let '(w, e) := wmul (snd c) (snd d) in
  let '(w', e') := wmul (snd d) (snd c) in
  if word_eqb w w' && zonly w
     && ((((e mod 4 =? 1) && (e' mod 4 =? 3)) || ((e mod 4 =? 3) && (e' mod 4 =? 1)))%Z)
     && xorb (xorb (fst c) (fst d)) (e mod 4 =? 1)%Z          (* the vacuum has occupation 0 *)
  then Some w else None.

(* checker for a whole encoding on n modes and nq qubits: Majorana pairs [majs p], toggle matrix M *)
Definition enc_check (n nq : nat) (majs : nat -> maj * maj) (M : N -> nat -> bool) : bool :=
  forallb (fun p =>
             match mode_check (fst (majs p)) (snd (majs p)) with
             | Some w => forallb (fun f => N.ltb (fst f) (N.of_nat nq)) w
                         && forallb (fun k => Bool.eqb (colsum M w k) (Nat.eqb k p)) (seq 0 n)
             | None => false
             end) (seq 0 n).

Section NumOp.
  Variable S : KS.
  Add Ring kring_n : (k_ring S).
  Open Scope K_scope.
  Notation K := (K S).

  (* a_p^dagger a_p for the pair (c, d):  op_one * a^dagger * a  as enc_term builds it *)
  Definition numop_of (c d : maj) : op S :=
    op_mul S (op_mul S (op_one S) (ladder_of_maj S c d true)) (ladder_of_maj S c d false).

  Lemma enc_term_numop (enc : ladder -> op S) (p : N) (c d : maj) :
    enc (p, true) = ladder_of_maj S c d true -> enc (p, false) = ladder_of_maj S c d false ->
    enc_term S enc (numop_term p) = numop_of c d.
  Proof. intros H1 H0. unfold enc_term, numop_term, numop_of. cbn [fold_left]. rewrite H1, H0. reflexivity. Qed.

  Lemma zonly_flip : forall w x, zonly w = true -> word_flip w x = x.
  Proof.
    induction w as [|[q p] w IH]; intros x H; [reflexivity|].
    cbn [zonly forallb snd] in H. apply andb_true_iff in H. destruct H as [Hp Hw].
    apply pauli_eqb_eq in Hp. subst p. rewrite word_flip_cons. apply IH. exact Hw.
  Qed.

  Lemma zonly_phase : forall w x, zonly w = true -> word_phase S w x = if zpar x w then - (1) else 1.
  Proof.
    induction w as [|[q p] w IH]; intros x H; [reflexivity|].
    cbn [zonly forallb snd] in H. apply andb_true_iff in H. destruct H as [Hp Hw].
    apply pauli_eqb_eq in Hp. subst p. rewrite word_phase_cons, (IH x Hw).
    cbn [zpar fold_right fst]. fold (zpar x w). cbn [ph1].
    destruct (bit x q), (zpar x w); cbn [xorb]; ring.
  Qed.

  Lemma half_half' : khalf * khalf + khalf * khalf = (khalf : K).
  Proof. transitivity ((khalf + khalf) * khalf : K); [ring|]. rewrite k_half. ring. Qed.

  Lemma coef_id (sc sd : bool) :
    ksign S sc khalf * ksign S sc khalf + ksign S (xorb sd true) (ki * khalf) * ksign S (xorb sd false) (ki * khalf)
    = (khalf : K).
  Proof.
    transitivity ((khalf * khalf) * (1 - ki * ki) : K); [destruct sc, sd; cbn [ksign xorb]; ring|].
    rewrite k_ii. transitivity (khalf * khalf + khalf * khalf : K); [ring | apply half_half'].
  Qed.

  (* e = 1, e' = 3 *)
  Lemma coef_w1 (sc sd : bool) :
    ki * (ksign S sc khalf * ksign S (xorb sd false) (ki * khalf))
    + (- ki) * (ksign S (xorb sd true) (ki * khalf) * ksign S sc khalf)
    = ksign S (negb (xorb sc sd)) khalf.
  Proof.
    transitivity (ksign S (xorb sc sd) ((ki * ki) * (khalf * khalf + khalf * khalf)) : K);
      [destruct sc, sd; cbn [ksign xorb]; ring|].
    rewrite k_ii, half_half'. destruct (xorb sc sd); cbn [ksign negb]; ring.
  Qed.

  (* e = 3, e' = 1 *)
  Lemma coef_w3 (sc sd : bool) :
    (- ki) * (ksign S sc khalf * ksign S (xorb sd false) (ki * khalf))
    + ki * (ksign S (xorb sd true) (ki * khalf) * ksign S sc khalf)
    = ksign S (xorb sc sd) khalf.
  Proof.
    transitivity (ksign S (negb (xorb sc sd)) ((ki * ki) * (khalf * khalf + khalf * khalf)) : K);
      [destruct sc, sd; cbn [ksign xorb negb]; ring|].
    rewrite k_ii, half_half'. destruct (xorb sc sd); cbn [ksign negb]; ring.
  Qed.

  Lemma ipow_mod1 e : (e mod 4 = 1)%Z -> ipow S e = ki.
  Proof. intro H. unfold ipow. rewrite H. reflexivity. Qed.
  Lemma ipow_mod3 e : (e mod 4 = 3)%Z -> ipow S e = - ki.
  Proof. intro H. unfold ipow. rewrite H. reflexivity. Qed.

  Theorem numop_elem (c d : maj) (w : word) (e e' : Z) (x : N) :
    wmul (snd c) (snd d) = (w, e) -> wmul (snd d) (snd c) = (w, e') -> zonly w = true ->
    ((e mod 4 = 1 /\ e' mod 4 = 3) \/ (e mod 4 = 3 /\ e' mod 4 = 1))%Z ->
    op_elem S (numop_of c d) x x =
    if xorb (xorb (xorb (fst c) (fst d)) (e mod 4 =? 1)%Z) (zpar x w) then 0 else 1.
  Proof.
    destruct c as [sc wc], d as [sd wd]. cbn [fst snd]. intros Hcd Hdc Hz He.
    unfold numop_of, op_one, ladder_of_maj, op_mul. cbn [fst snd flat_map map app].
    unfold term_mul. cbn [fst snd]. rewrite !wmul_nil_l. cbv beta iota. cbn [fst snd].
    rewrite Hcd, Hdc, !WordProofs.wmul_self. cbv beta iota.
    unfold op_elem. cbn [fold_right fst snd].
    rewrite !(zonly_flip w x Hz). change (word_flip [] x) with x. rewrite !N.eqb_refl.
    rewrite word_phase_nil, (zonly_phase w x Hz), !WordProofs.ipow_0.
    set (a1 := ksign S sc khalf). set (b2 := ksign S (xorb sd false) (ki * khalf)).
    set (a2 := ksign S (xorb sd true) (ki * khalf)).
    set (sg := if zpar x w then - (1) else 1 : K).
    transitivity ((a1 * a1 + a2 * b2) + (ipow S e * (a1 * b2) + ipow S e' * (a2 * a1)) * sg); [ring|].
    unfold a1, a2, b2. rewrite coef_id.
    destruct He as [[H1 H3]|[H3 H1]].
    - rewrite (ipow_mod1 e H1), (ipow_mod3 e' H3), coef_w1, H1. change (1 =? 1)%Z with true.
      unfold sg. destruct (xorb sc sd), (zpar x w); cbn [ksign negb xorb];
        first [ring | (transitivity (khalf + khalf : K); [ring | apply k_half])].
    - rewrite (ipow_mod3 e H3), (ipow_mod1 e' H1), coef_w3, H3. change (3 =? 1)%Z with false.
      unfold sg. destruct (xorb sc sd), (zpar x w); cbn [ksign negb xorb];
        first [ring | (transitivity (khalf + khalf : K); [ring | apply k_half])].
  Qed.

  Lemma mode_check_sound (c d : maj) (w : word) : mode_check c d = Some w ->
    zonly w = true /\ forall x, op_elem S (numop_of c d) x x = if zpar x w then 1 else 0.
  Proof.
    unfold mode_check. destruct (wmul (snd c) (snd d)) as [w1 e] eqn:Hcd.
    destruct (wmul (snd d) (snd c)) as [w2 e'] eqn:Hdc.
    destruct (word_eqb w1 w2 && zonly w1
              && ((e mod 4 =? 1)%Z && (e' mod 4 =? 3)%Z || (e mod 4 =? 3)%Z && (e' mod 4 =? 1)%Z)
              && xorb (xorb (fst c) (fst d)) (e mod 4 =? 1)%Z) eqn:Hc; [|discriminate].
    intro H. injection H as <-.
    apply andb_true_iff in Hc. destruct Hc as [Hc Hs].
    apply andb_true_iff in Hc. destruct Hc as [Hc He].
    apply andb_true_iff in Hc. destruct Hc as [Hw Hz].
    apply word_eqb_eq in Hw. subst w2.
    split; [exact Hz|]. intro x.
    rewrite (numop_elem c d w1 e e' x Hcd Hdc Hz).
    - rewrite Hs. destruct (zpar x w1); reflexivity.
    - apply orb_true_iff in He. destruct He as [He|He]; apply andb_true_iff in He; destruct He as [E1 E2];
        apply Z.eqb_eq in E1; apply Z.eqb_eq in E2; [left|right]; split; assumption.
  Qed.

  (* soundness of the checker: for EVERY occupation vector u and the basis state x whose bit q is the
     GF(2) sum of M q k over the occupied modes k, the number operator of mode p has diagonal element u_p *)
  Theorem enc_check_sound (n nq : nat) (majs : nat -> maj * maj) (M : N -> nat -> bool) :
    enc_check n nq majs M = true ->
    forall p, (p < n)%nat -> forall (u : nat -> bool) (x : N),
        (forall q, (q < N.of_nat nq)%N -> bit x q = xsum (fun k => M q k && u k) n) ->
        op_elem S (numop_of (fst (majs p)) (snd (majs p))) x x = if u p then 1 else 0.
  Proof.
    intros Hc p Hp u x Hx. unfold enc_check in Hc. rewrite forallb_forall in Hc.
    specialize (Hc p ltac:(apply in_seq; lia)).
    destruct (mode_check (fst (majs p)) (snd (majs p))) as [w|] eqn:Hm; [|discriminate].
    apply andb_true_iff in Hc. destruct Hc as [Hq Hcol].
    rewrite forallb_forall in Hq, Hcol.
    destruct (mode_check_sound _ _ _ Hm) as [_ Hel]. rewrite Hel.
    rewrite (zpar_linear M u n x w).
    - rewrite (xsum_ext _ (fun k => Nat.eqb k p && u k)).
      + rewrite xsum_delta by exact Hp. reflexivity.
      + intros k Hk. specialize (Hcol k ltac:(apply in_seq; lia)). apply eqb_prop in Hcol. rewrite Hcol. reflexivity.
    - intros f Hf. apply Hx. apply N.ltb_lt. apply Hq. exact Hf.
  Qed.
End NumOp.

(* ================================================================ 5a. Jordan-Wigner, every register size *)
Lemma wmul_zs_prefix : forall len s u v, wmul (zs s len ++ u) (zs s len ++ v) = wmul u v.
Proof.
  induction len as [|len IH]; intros s u v; [reflexivity|].
  unfold zs. cbn [seq map app]. fold (zs (Datatypes.S s) len).
  rewrite wmul_cons, N.ltb_irrefl, IH. destruct (wmul u v) as [w e]. cbn [pmul1]. rewrite Z.add_0_r. reflexivity.
Qed.

Lemma wmul_jw_xy p : wmul (jw_word p PX) (jw_word p PY) = ([(p, PZ)], 1%Z).
Proof.
  unfold jw_word. rewrite zstring_zs, wmul_zs_prefix, wmul_cons, N.ltb_irrefl, wmul_nil_l. reflexivity.
Qed.

Lemma wmul_jw_yx p : wmul (jw_word p PY) (jw_word p PX) = ([(p, PZ)], 3%Z).
Proof.
  unfold jw_word. rewrite zstring_zs, wmul_zs_prefix, wmul_cons, N.ltb_irrefl, wmul_nil_l. reflexivity.
Qed.

Section Instances.
  Variable S : KS.
  Add Ring kring_i : (k_ring S).
  Open Scope K_scope.

  Lemma op_elem_scale (c : K S) (a : op S) d' d : op_elem S (op_scale S c a) d' d = c * op_elem S a d' d.
  Proof.
    induction a as [|t a IH]; [unfold op_elem; simpl; ring|].
    unfold op_elem in *. cbn [op_scale map fold_right fst snd]. fold (op_scale S c a). rewrite IH.
    destruct (N.eqb (word_flip (fst t) d') d); ring.
  Qed.

  (* a single term with coefficient c through enc_fop *)
  Lemma enc_fop_single (enc : ladder -> op S) (t : fterm) (c : K S) d' d :
    op_elem S (enc_fop S enc [(t, c)]) d' d = c * op_elem S (enc_term S enc t) d' d.
  Proof. unfold enc_fop. cbn [flat_map fst snd]. rewrite app_nil_r. apply op_elem_scale. Qed.

  Theorem jw_numop_elem : forall (p x : N),
      op_elem S (enc_term S (jw_ladder S) (numop_term p)) x x = if bit x p then 1 else 0.
  Proof.
    intros p x.
    rewrite (enc_term_numop S (jw_ladder S) p (false, jw_word p PX) (false, jw_word p PY) eq_refl eq_refl).
    rewrite (numop_elem S (false, jw_word p PX) (false, jw_word p PY) [(p, PZ)] 1 3 x
                        (wmul_jw_xy p) (wmul_jw_yx p) eq_refl (or_introl (conj eq_refl eq_refl))).
    cbn [fst zpar fold_right xorb]. change (1 mod 4 =? 1)%Z with true. cbn [xorb].
    rewrite xorb_false_r. destruct (bit x p); reflexivity.
  Qed.

  (* C05 for Jordan-Wigner: <x| JW(a_p^dagger a_p) |x> = bit p of x, all p, all basis states *)
  Theorem jw_occupations : forall (p x : N),
      op_elem S (jw_fop S [(numop_term p, 1)]) x x = if bit x p then 1 else 0.
  Proof.
    intros p x. unfold jw_fop. rewrite enc_fop_single, jw_numop_elem. destruct (bit x p); ring.
  Qed.

  Lemma fop_modes_numop (p : N) : fop_modes S [(numop_term p, (1 : K S))] = (p + 1)%N.
  Proof. unfold fop_modes, term_modes, numop_term. cbn [fold_left fst snd]. lia. Qed.

  (* the whole path for JW: get_mapped_vector and fermion_to_qubit_mapping (model of C03), both
     orderings, every vector of every (for up_then_down: even) length *)
  Theorem jw_reference_occupations :
    forall (T : jkmn_tab) (kzero : K S -> bool) (ne spin : Z) (v : vec) (utd : bool) (i : nat),
      (i < length v)%nat -> (utd = true -> N.odd (N.of_nat (length v)) = false) ->
      exists y q,
        get_mapped_vector T MJW utd v = ROk y /\
        f2q S T kzero MJW (N.of_nat (length v)) ne spin utd [(numop_term (N.of_nat i), 1)] = Ok q /\
        op_elem S q (bits_to_N y) (bits_to_N y) = if nth i v false then 1 else 0.
  Proof.
    intros T kzero ne spin v utd i Hi Hodd. destruct utd.
    - exists (utd_vec v), (jw_fop S [(numop_term (utd_index (N.of_nat (length v)) (N.of_nat i)), 1)]).
      split; [reflexivity|]. split.
      + unfold f2q, make_up_then_down. rewrite (Hodd eq_refl). cbn [forallb fst numop_term].
        rewrite fop_modes_numop.
        destruct (N.ltb_spec (N.of_nat (length v)) (N.of_nat i + 1)) as [H|_]; [lia|]. reflexivity.
      + rewrite jw_occupations. unfold bit. rewrite bits_to_N_testbit, utd_vec_nth by exact Hi. reflexivity.
    - exists v, (jw_fop S [(numop_term (N.of_nat i), 1)]).
      split; [reflexivity|]. split; [reflexivity|].
      rewrite jw_occupations. unfold bit. rewrite bits_to_N_testbit, Nat2N.id. reflexivity.
  Qed.
End Instances.

(* ================================================================ 5b. BK, BK-tree, JKMN: bounded by computation *)
Lemma wmul_qubits : forall a b f, In f (fst (wmul a b)) -> In (fst f) (qubits a) \/ In (fst f) (qubits b).
Proof.
  apply (wmul_ind (fun a b => forall f, In f (fst (wmul a b)) -> In (fst f) (qubits a) \/ In (fst f) (qubits b))).
  - intros b f H. rewrite wmul_nil_l in H. right. apply in_map. exact H.
  - intros a f H. rewrite wmul_nil_r in H. left. apply in_map. exact H.
  - intros qa pa a' qb pb b' IH1 IH2 IH3 f H. rewrite wmul_cons in H.
    destruct (ltb_cases qa qb) as [[E1 Hlt]|[[E1 [E2 Hlt]]|[E1 [E2 Heq]]]]; rewrite E1 in H; try rewrite E2 in H.
    + specialize (IH1 Hlt f). destruct (wmul a' ((qb, pb) :: b')) as [w e]. cbn [fst] in *.
      destruct H as [<-|H]; [left; left; reflexivity|].
      destruct (IH1 H) as [H1|H1]; [left; right; exact H1 | right; exact H1].
    + specialize (IH2 Hlt f). destruct (wmul ((qa, pa) :: a') b') as [w e]. cbn [fst] in *.
      destruct H as [<-|H]; [right; left; reflexivity|].
      destruct (IH2 H) as [H1|H1]; [left; exact H1 | right; right; exact H1].
    + specialize (IH3 Heq f). destruct (wmul a' b') as [w e]. cbn [fst] in IH3.
      destruct (pmul1 pa pb) as [[p|] e1]; cbn [fst] in H.
      * destruct H as [<-|H]; [left; left; reflexivity|].
        destruct (IH3 H) as [H1|H1]; [left; right; exact H1 | right; right; exact H1].
      * destruct (IH3 H) as [H1|H1]; [left; right; exact H1 | right; right; exact H1].
Qed.

Lemma wprod_qubits (ws : nat -> word) (v : vec) (P : N -> Prop) :
  (forall k, (k < length v)%nat -> forall f, In f (ws k) -> P (fst f)) ->
  forall f, In f (wprod ws v) -> P (fst f).
Proof.
  intro H. unfold wprod.
  assert (G : forall (l : list nat) (w0 : word),
             (forall k, In k l -> (k < length v)%nat) -> (forall f, In f w0 -> P (fst f)) ->
             forall f, In f (fold_left (fun w k => if nth k v false then fst (wmul w (ws k)) else w) l w0) -> P (fst f)).
  { induction l as [|k l IH]; intros w0 Hl H0 f Hf; [apply H0; exact Hf|].
    cbn [fold_left] in Hf. apply (IH _ (fun j Hj => Hl j (or_intror Hj))) in Hf; [exact Hf|].
    intros g Hg. destruct (nth k v false); [|apply H0; exact Hg].
    destruct (wmul_qubits _ _ _ Hg) as [H1|H1].
    - apply in_map_iff in H1. destruct H1 as [g' [E Hg']]. rewrite <- E. apply H0. exact Hg'.
    - apply in_map_iff in H1. destruct H1 as [g' [E Hg']]. rewrite <- E.
      apply (H k (Hl k (or_introl eq_refl))). exact Hg'. }
  apply G; [intros k Hk; apply in_seq in Hk; lia | intros f [] ].
Qed.

(* ---- checkers ---- *)
Definition bk_majs (n p : nat) : maj * maj :=
  ((false, bk_c (N.of_nat n) (N.of_nat p)), (false, bk_d (N.of_nat n) (N.of_nat p))).
Definition bk_M (n : nat) (q : N) (k : nat) : bool := bk_entry (bk_reps n) q (N.of_nat k).
Definition bk_ok (n : nat) : bool := enc_check n n (bk_majs n) (bk_M n).

Definition maj0 : maj * maj := ((false, []), (false, [])).
Definition bkt_words (n : nat) : list word :=
  let t := fen_tree (N.of_nat n) in map (fun k => bkt_d t (N.of_nat k)) (seq 0 n).
Definition bkt_pairs (n : nat) : list (maj * maj) :=
  let t := fen_tree (N.of_nat n) in
  map (fun p => ((false, bkt_c t (N.of_nat p)), (false, bkt_d t (N.of_nat p)))) (seq 0 n).
Definition bkt_ok (n : nat) : bool :=
  let ws := bkt_words n in
  let ms := bkt_pairs n in
  forallb word_wf ws && enc_check n n (fun p => nth p ms maj0) (fun q k => xpar q (nth k ws [])).

Definition jkmn_pair (majs : list maj) (p : nat) : maj * maj :=
  (nth (2 * p) majs (false, []), nth (2 * p + 1) majs (false, [])).
Definition jkmn_ok (n : nat) : bool :=
  match jkmn_majs jkmn_std (N.of_nat n) with
  | Ok majs => forallb (fun k => word_wf (jkmn_word majs k)) (seq 0 n)
               && forallb (fun k => forallb (fun f => N.ltb (fst f) (N.of_nat n)) (jkmn_word majs k)) (seq 0 n)
               && enc_check n n (jkmn_pair majs) (fun q k => xpar q (jkmn_word majs k))
  | Err _ => false
  end.

Lemma bk_ok_64 : upto bk_ok 64 = true.
Proof. vm_compute. reflexivity. Qed.
Lemma bkt_ok_64 : upto bkt_ok 64 = true.
Proof. vm_compute. reflexivity. Qed.
Lemma jkmn_ok_64 : upto jkmn_ok 64 = true.
Proof. vm_compute. reflexivity. Qed.

Section Bounded.
  Variable S : KS.
  Add Ring kring_b : (k_ring S).
  Open Scope K_scope.

  Lemma one_mul_if (b : bool) : (1 : K S) * (if b then 1 else 0) = if b then 1 else 0.
  Proof. destruct b; ring. Qed.

  (* Bravyi-Kitaev: encoder matrix times vector, number operator of openfermion's bravyi_kitaev *)
  Theorem bk_occupations_partial : forall n, (n <= 64)%nat -> forall (v : vec), length v = n ->
      forall p, (p < n)%nat ->
      exists y, bk_encode v = ROk y /\
                op_elem S (bk_fop S (N.of_nat n) [(numop_term (N.of_nat p), 1)]) (bits_to_N y) (bits_to_N y)
                = if nth p v false then 1 else 0.
  Proof.
    intros n Hn v Lv p Hp.
    pose proof (upto_spec _ _ bk_ok_64 n Hn) as Hok.
    exists (map (bk_row n v) (seq 0 n)). split.
    - unfold bk_encode. rewrite Lv. destruct n; [lia|]. reflexivity.
    - unfold bk_fop. rewrite enc_fop_single.
      rewrite (enc_term_numop S (bk_ladder S (N.of_nat n)) (N.of_nat p) (fst (bk_majs n p)) (snd (bk_majs n p))
                              eq_refl eq_refl).
      rewrite (enc_check_sound S n n (bk_majs n) (bk_M n) Hok p Hp (fun k => nth k v false)); [apply one_mul_if|].
      intros q Hq. unfold bit. rewrite bits_to_N_testbit.
      rewrite (nth_map_seq (bk_row n v)) by lia. unfold bk_row, bk_M. rewrite N2Nat.id. reflexivity.
  Qed.

  (* BK-tree (the encoding scBK starts from): X/Y support of prod (a_i^dagger - a_i), before the two
     parity qubits are deleted; number operator of openfermion's bravyi_kitaev_tree *)
  Theorem bkt_occupations_partial : forall n, (n <= 64)%nat -> forall (v : vec), length v = n ->
      forall p, (p < n)%nat ->
      let x := bits_to_N (scbk_tree_vector v) in
      op_elem S (bkt_fop S (N.of_nat n) [(numop_term (N.of_nat p), 1)]) x x = if nth p v false then 1 else 0.
  Proof.
    intros n Hn v Lv p Hp x.
    pose proof (upto_spec _ _ bkt_ok_64 n Hn) as Hok. unfold bkt_ok in Hok. cbv zeta in Hok.
    apply andb_true_iff in Hok. destruct Hok as [Hwf Hok]. rewrite forallb_forall in Hwf.
    set (t := fen_tree (N.of_nat n)) in *.
    assert (Hw : forall k, (k < n)%nat -> nth k (bkt_words n) [] = bkt_d t (N.of_nat k)).
    { intros k Hk. unfold bkt_words. apply (nth_map_seq (fun j => bkt_d t (N.of_nat j))). exact Hk. }
    assert (Hm : nth p (bkt_pairs n) maj0 = ((false, bkt_c t (N.of_nat p)), (false, bkt_d t (N.of_nat p)))).
    { unfold bkt_pairs. apply (nth_map_seq (fun j => ((false, bkt_c t (N.of_nat j)), (false, bkt_d t (N.of_nat j))))). exact Hp. }
    unfold bkt_fop. cbv zeta. fold t. rewrite enc_fop_single.
    rewrite (enc_term_numop S (bkt_ladder S t) (N.of_nat p) (false, bkt_c t (N.of_nat p)) (false, bkt_d t (N.of_nat p))
                            eq_refl eq_refl).
    pose proof (enc_check_sound S n n _ _ Hok p Hp (fun k => nth k v false) x) as Hs.
    cbv beta in Hs. rewrite Hm in Hs. cbn [fst snd] in Hs. rewrite Hs; [apply one_mul_if|].
    intros q Hq. unfold x, scbk_tree_vector, scbk_tree_word. rewrite Lv. fold t.
    rewrite prep_vector_bit by exact Hq.
    rewrite hasxy_wprod.
    - rewrite Lv. apply xsum_ext. intros k Hk. rewrite Hw by exact Hk. reflexivity.
    - intros k Hk. rewrite Lv in Hk. rewrite <- Hw by exact Hk. apply Hwf. apply nth_In.
      unfold bkt_words. rewrite map_length, seq_length. exact Hk.
  Qed.

  (* JKMN: jkmn_prep_vector, number operator of jkmn() *)
  Theorem jkmn_occupations_partial : forall n, (n <= 64)%nat -> forall (v : vec), length v = n ->
      forall p, (p < n)%nat ->
      exists majs y, jkmn_majs jkmn_std (N.of_nat n) = Ok majs /\ jkmn_prep jkmn_std v = ROk y /\
                     op_elem S (enc_fop S (jkmn_ladder S majs) [(numop_term (N.of_nat p), 1)]) (bits_to_N y) (bits_to_N y)
                     = if nth p v false then 1 else 0.
  Proof.
    intros n Hn v Lv p Hp.
    pose proof (upto_spec _ _ jkmn_ok_64 n Hn) as Hok. unfold jkmn_ok in Hok.
    destruct (jkmn_majs jkmn_std (N.of_nat n)) as [majs|e] eqn:Hmajs; [|discriminate].
    apply andb_true_iff in Hok. destruct Hok as [Hok Hc].
    apply andb_true_iff in Hok. destruct Hok as [Hwf Hq].
    rewrite forallb_forall in Hwf, Hq.
    exists majs, (prep_vector n (wprod (jkmn_word majs) v)). split; [reflexivity|]. split.
    - unfold jkmn_prep, jkmn_prep_with. rewrite Lv, Hmajs.
      replace (forallb (fun f => N.ltb (fst f) (N.of_nat n)) (wprod (jkmn_word majs) v)) with true; [reflexivity|].
      symmetry. apply forallb_forall. intros f Hf.
      apply (wprod_qubits (jkmn_word majs) v (fun q => N.ltb q (N.of_nat n) = true)); [|exact Hf].
      intros k Hk g Hg. rewrite Lv in Hk. specialize (Hq k ltac:(apply in_seq; lia)).
      rewrite forallb_forall in Hq. apply Hq. exact Hg.
    - rewrite enc_fop_single.
      rewrite (enc_term_numop S (jkmn_ladder S majs) (N.of_nat p) (fst (jkmn_pair majs p)) (snd (jkmn_pair majs p))).
      + rewrite (enc_check_sound S n n _ _ Hc p Hp (fun k => nth k v false)); [apply one_mul_if|].
        intros q Hq'. rewrite prep_vector_bit by exact Hq'. rewrite hasxy_wprod.
        * rewrite Lv. reflexivity.
        * intros k Hk. rewrite Lv in Hk. apply Hwf. apply in_seq. lia.
      + unfold jkmn_ladder, jkmn_pair. cbn [fst snd]. rewrite Nat2N.id. reflexivity.
      + unfold jkmn_ladder, jkmn_pair. cbn [fst snd]. rewrite Nat2N.id. reflexivity.
  Qed.
End Bounded.

(* ================================================================ 5c. scBK: the two deleted qubits, the pruned vector *)
(* checker: in the BK-tree preparation vector, qubit n-1 is toggled by every mode and qubit n/2-1 by exactly
   the modes of the first (alpha) half *)
Definition bkt_sector_ok (n : nat) : bool :=
  let ws := bkt_words n in
  forallb word_wf ws
  && forallb (fun w => forallb (fun f => N.ltb (fst f) (N.of_nat n)) w) ws
  && forallb (fun k => xpar (N.of_nat (n - 1)) (nth k ws []) && Bool.eqb (xpar (N.of_nat (n / 2 - 1)) (nth k ws [])) (Nat.ltb k (n / 2)))
             (seq 0 n).
Definition even_from2 (f : nat -> bool) (n : nat) : bool := Nat.odd n || Nat.ltb n 2 || f n.
Lemma bkt_sector_ok_64 : upto (even_from2 bkt_sector_ok) 64 = true.
Proof. vm_compute. reflexivity. Qed.

(* the BK-tree vector carries the parities that symmetry_conserving_bravyi_kitaev substitutes for the two
   qubits it removes: qubit n-1 the electron-number parity, qubit n/2-1 the alpha-number parity (vector in
   all-alpha-then-all-beta order); and scbk_vector returns that vector with the two qubits deleted *)
Theorem scbk_sector_bits_partial : forall n, (n <= 64)%nat -> Nat.even n = true -> (2 <= n)%nat ->
    forall (v : vec), length v = n ->
      let x := bits_to_N (scbk_tree_vector v) in
      bit x (N.of_nat (n - 1)) = xsum (fun k => nth k v false) n /\
      bit x (N.of_nat (n / 2 - 1)) = xsum (fun k => Nat.ltb k (n / 2) && nth k v false) n /\
      scbk_vector v = ROk (delete_at (n / 2 - 1) (delete_at (n - 1) (scbk_tree_vector v))).
Proof.
  intros n Hn He H2 v Lv x.
  pose proof (upto_spec _ _ bkt_sector_ok_64 n Hn) as Hok. unfold even_from2 in Hok.
  rewrite <- Nat.negb_even, He in Hok. destruct (Nat.ltb_spec n 2) as [?|_]; [lia|]. cbn [negb orb] in Hok.
  unfold bkt_sector_ok in Hok. cbv zeta in Hok.
  apply andb_true_iff in Hok. destruct Hok as [Hok Hcols].
  apply andb_true_iff in Hok. destruct Hok as [Hwf Hq].
  rewrite forallb_forall in Hwf, Hq, Hcols.
  set (t := fen_tree (N.of_nat n)) in *.
  assert (Hw : forall k, (k < n)%nat -> nth k (bkt_words n) [] = bkt_d t (N.of_nat k)).
  { intros k Hk. unfold bkt_words. apply (nth_map_seq (fun j => bkt_d t (N.of_nat j))). exact Hk. }
  assert (Hin : forall k, (k < n)%nat -> In (bkt_d t (N.of_nat k)) (bkt_words n)).
  { intros k Hk. rewrite <- Hw by exact Hk. apply nth_In. unfold bkt_words. rewrite map_length, seq_length. exact Hk. }
  assert (Hbit : forall q, (q < N.of_nat n)%N ->
                           bit x q = xsum (fun k => xpar q (nth k (bkt_words n) []) && nth k v false) n).
  { intros q Hq'. unfold x, scbk_tree_vector, scbk_tree_word. rewrite Lv. fold t.
    rewrite prep_vector_bit by exact Hq'. rewrite hasxy_wprod.
    - rewrite Lv. apply xsum_ext. intros k Hk. rewrite Hw by exact Hk. reflexivity.
    - intros k Hk. rewrite Lv in Hk. apply Hwf. apply Hin. exact Hk. }
  split; [|split].
  - rewrite Hbit by lia. apply xsum_ext. intros k Hk.
    specialize (Hcols k ltac:(apply in_seq; lia)). apply andb_true_iff in Hcols. destruct Hcols as [H1 _].
    rewrite H1. reflexivity.
  - rewrite Hbit by (assert (n / 2 <= n)%nat by (apply Nat.div_le_upper_bound; lia); lia).
    apply xsum_ext. intros k Hk.
    specialize (Hcols k ltac:(apply in_seq; lia)). apply andb_true_iff in Hcols. destruct Hcols as [_ H1].
    apply eqb_prop in H1. rewrite H1. reflexivity.
  - unfold scbk_vector. rewrite Lv. destruct (Nat.ltb_spec n 2) as [?|_]; [lia|].
    replace (forallb _ (scbk_tree_word v)) with true; [reflexivity|].
    symmetry. apply forallb_forall. intros f Hf.
    assert (Hlt : N.ltb (fst f) (N.of_nat n) = true).
    { apply (wprod_qubits (fun k => bkt_d (fen_tree (N.of_nat (length v))) (N.of_nat k)) v
                          (fun q => N.ltb q (N.of_nat n) = true)); [|exact Hf].
      intros k Hk g Hg. rewrite Lv in Hk, Hg. fold t in Hg.
      specialize (Hq _ (Hin k Hk)). rewrite forallb_forall in Hq. apply Hq. exact Hg. }
    rewrite Hlt. apply orb_true_r.
Qed.

(* ---- scBK end to end in the exact instance, exhaustively for small registers ---- *)
Fixpoint all_bvecs (n : nat) : list vec :=
  match n with
  | O => [[]]
  | Datatypes.S k => flat_map (fun r => [false :: r; true :: r]) (all_bvecs k)
  end.
Lemma all_bvecs_complete : forall (v : vec), In v (all_bvecs (length v)).
Proof.
  induction v as [|b r IH]; [left; reflexivity|].
  cbn [length all_bvecs]. apply in_flat_map. exists r. split; [exact IH|]. destruct b; [right; left|left]; reflexivity.
Qed.

Definition count_true (v : vec) : Z := Z.of_nat (length (filter (fun b => b) v)).
(* (n_electrons, spin = n_alpha - n_beta) of a vector in alternating order *)
Definition sector_of (v : vec) : Z * Z := (count_true v, (2 * count_true (evens v) - count_true v)%Z).
Definition zz_eqb (a b : Z * Z) : bool := ((fst a =? fst b) && (snd a =? snd b))%Z.
Lemma zz_eqb_eq a b : zz_eqb a b = true -> a = b.
Proof.
  destruct a, b. unfold zz_eqb. cbn [fst snd]. intro H. apply andb_true_iff in H. destruct H as [H1 H2].
  apply Z.eqb_eq in H1. apply Z.eqb_eq in H2. subst. reflexivity.
Qed.
Definition dedupe (l : list (Z * Z)) : list (Z * Z) :=
  fold_right (fun x acc => if existsb (zz_eqb x) acc then acc else x :: acc) [] l.
Lemma dedupe_in x : forall l, In x l -> In x (dedupe l).
Proof.
  induction l as [|y l IH]; intro H; [destruct H|]. cbn [dedupe fold_right]. fold (dedupe l).
  destruct H as [->|H].
  - destruct (existsb (zz_eqb x) (dedupe l)) eqn:E; [|left; reflexivity].
    apply existsb_exists in E. destruct E as [z [Hz Ez]]. apply zz_eqb_eq in Ez. subst z. exact Hz.
  - destruct (existsb (zz_eqb y) (dedupe l)); [apply IH; exact H | right; apply IH; exact H].
Qed.

Definition b2cy (b : bool) : K CycS := if b then @k1 CycS else @k0 CycS.
Definition scbk_numop (n : nat) (sec : Z * Z) (utd : bool) (p : nat) : res (op CycS) :=
  f2q CycS jkmn_std cy_zero MSCBK (N.of_nat n) (fst sec) (snd sec) utd [(numop_term (N.of_nat p), @k1 CycS)].
Definition scbk_small_ok (n : nat) : bool :=
  let vs := all_bvecs n in
  let secs := dedupe (map sector_of vs) in
  forallb (fun utd =>
    forallb (fun sec =>
      let ops := map (scbk_numop n sec utd) (seq 0 n) in
      forallb (fun v =>
        if zz_eqb (sector_of v) sec then
          match scbk_vector (utd_vec v) with
          | ROk y => let x := bits_to_N y in
                     forallb (fun p => match nth p ops (Err KeyError) with
                                       | Ok q => ceqb L4 (op_elem CycS q x x) (b2cy (nth p v false))
                                       | Err _ => false
                                       end) (seq 0 n)
          | RErr _ => false
          end
        else true) vs) secs) [false; true].
Lemma scbk_small_ok_8 : forallb scbk_small_ok [2; 4; 6; 8]%nat = true.
Proof. vm_compute. reflexivity. Qed.

(* the whole path for scBK (vector: re-ordering, BK-tree product, X/Y support, deletion of two qubits;
   operator: re-ordering, bravyi_kitaev_tree, compress, two Z-substitutions with the parities of the
   vector's own sector, pruning) on EVERY occupation vector of even length 2..8, both orderings, exact
   (the bound is kept at 8 so that the independent re-check by coqchk, which has no vm, stays within minutes) *)
Theorem scbk_reference_occupations_small : forall n, In n [2; 4; 6; 8]%nat ->
    forall (v : vec), length v = n -> forall (utd : bool) (p : nat), (p < n)%nat ->
    exists y q,
      get_mapped_vector jkmn_std MSCBK utd v = ROk y /\
      f2q CycS jkmn_std cy_zero MSCBK (N.of_nat n) (fst (sector_of v)) (snd (sector_of v)) utd
          [(numop_term (N.of_nat p), @k1 CycS)] = Ok q /\
      op_elem CycS q (bits_to_N y) (bits_to_N y) = b2cy (nth p v false).
Proof.
  intros n Hn v Lv utd p Hp.
  pose proof scbk_small_ok_8 as Hall. rewrite forallb_forall in Hall. specialize (Hall n Hn).
  unfold scbk_small_ok in Hall. cbv zeta in Hall. rewrite forallb_forall in Hall.
  specialize (Hall utd ltac:(destruct utd; [right; left | left]; reflexivity)).
  rewrite forallb_forall in Hall.
  specialize (Hall (sector_of v)).
  assert (Hv : In v (all_bvecs n)) by (rewrite <- Lv; apply all_bvecs_complete).
  specialize (Hall ltac:(apply dedupe_in, in_map, Hv)).
  rewrite forallb_forall in Hall. specialize (Hall v Hv).
  assert (Hrefl : zz_eqb (sector_of v) (sector_of v) = true).
  { unfold zz_eqb. rewrite !Z.eqb_refl. reflexivity. }
  rewrite Hrefl in Hall.
  assert (Hg : get_mapped_vector jkmn_std MSCBK utd v = scbk_vector (utd_vec v)) by (destruct utd; reflexivity).
  rewrite Hg.
  destruct (scbk_vector (utd_vec v)) as [y|e]; [|discriminate].
  cbv zeta in Hall. rewrite forallb_forall in Hall. specialize (Hall p ltac:(apply in_seq; lia)).
  rewrite (nth_map_seq (scbk_numop n (sector_of v) utd)) in Hall by exact Hp.
  unfold scbk_numop in Hall.
  destruct (f2q CycS jkmn_std cy_zero MSCBK (N.of_nat n) (fst (sector_of v)) (snd (sector_of v)) utd
                [(numop_term (N.of_nat p), @k1 CycS)]) as [q|e]; [|discriminate].
  exists y, q. split; [reflexivity|]. split; [reflexivity|].
  apply (ceqb_eq L4). exact Hall.
Qed.

(* ================================================================ 6. counts and blocks of the filling *)
Lemma app_eq_len {X} : forall (a a' b b' : list X), length a = length a' -> a ++ b = a' ++ b' -> a = a' /\ b = b'.
Proof.
  induction a as [|x a IH]; intros [|x' a'] b b' L H; try discriminate.
  - split; [reflexivity | exact H].
  - cbn [app] in H. injection H as -> H. cbn [length] in L. injection L as L.
    destruct (IH a' b b' L H) as [-> ->]. split; reflexivity.
Qed.

Lemma count_prefix (a : Z) : (0 <= a)%Z -> forall m : nat,
    count_true (map (fun k => (Z.of_nat k <? a)%Z) (seq 0 m)) = Z.min a (Z.of_nat m).
Proof.
  intros Ha m. unfold count_true. induction m as [|m IH]; [cbn; lia|].
  rewrite seq_S, map_app, filter_app, app_length, Nat2Z.inj_add, IH. cbn [map filter Nat.add].
  destruct (Z.ltb_spec (Z.of_nat m) a); cbn [length]; lia.
Qed.

(* exactly n_alpha alpha and n_beta beta spin-orbitals are occupied, the lowest ones; in up_then_down order
   the vector is the block 1^n_alpha 0^(m-n_alpha) followed by 1^n_beta 0^(m-n_beta) *)
Theorem filling_blocks_counts : forall (m : nat) (ne : Z) (spin : option Z),
    let s := hf_eff_spin spin ne in
    let na := ((ne + s) / 2)%Z in
    let nb := ((ne - s) / 2)%Z in
    Z.even (ne + s) = true -> (0 <= na <= Z.of_nat m)%Z -> (0 <= nb <= Z.of_nat m)%Z ->
    exists v, hf_filling (Z.of_nat (2 * m)) ne spin = ROk v /\
              utd_vec v = map (fun k => (Z.of_nat k <? na)%Z) (seq 0 m) ++ map (fun k => (Z.of_nat k <? nb)%Z) (seq 0 m) /\
              count_true (evens v) = na /\ count_true (odds v) = nb /\ count_true v = ne.
Proof.
  intros m ne spin s na nb Hpar Hna Hnb.
  destruct (filling_counts m ne spin Hpar Hna Hnb) as [v [Hv [Lv Hk]]]. fold s na nb in Hk.
  exists v. split; [exact Hv|].
  pose proof (utd_blocks v m _ _ Lv Hk) as Hb.
  assert (He : evens v = map (fun k => (Z.of_nat k <? na)%Z) (seq 0 m) /\
               odds v = map (fun k => (Z.of_nat k <? nb)%Z) (seq 0 m)).
  { unfold utd_vec in Hb. apply app_eq_len in Hb; [exact Hb|].
    rewrite map_length, seq_length, evens_length, Lv, Nat.div2_div.
    replace (Datatypes.S (2 * m)) with (1 + m * 2)%nat by lia. rewrite Nat.div_add by lia. reflexivity. }
  destruct He as [E O]. split; [exact Hb|].
  assert (Ca : count_true (evens v) = na) by (rewrite E, count_prefix by lia; lia).
  assert (Cb : count_true (odds v) = nb) by (rewrite O, count_prefix by lia; lia).
  split; [exact Ca|]. split; [exact Cb|].
  (* total: a permutation argument through the blocks *)
  assert (Ct : count_true (utd_vec v) = (na + nb)%Z).
  { unfold utd_vec, count_true in *. rewrite filter_app, app_length, Nat2Z.inj_add. lia. }
  assert (Cv : forall l : vec, count_true (utd_vec l) = count_true l).
  { fix IH 1. intros [|a [|b r]]; [reflexivity|reflexivity|].
    specialize (IH r). unfold utd_vec, count_true in *. cbn [evens odds].
    change (match r with [] => [] | _ :: r' => evens r' end) with (odds r).
    rewrite !filter_app, !app_length in *. cbn [filter app].
    destruct a, b; cbn [length filter]; rewrite ?filter_app, ?app_length in *; cbn [length]; lia. }
  rewrite <- Cv, Ct. pose proof (half_sum_diff ne s Hpar). fold na nb in H. lia.
Qed.
