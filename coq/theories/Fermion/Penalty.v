(* Penalty.v — model of tangelo/toolboxes/ansatz_generator/penalty_terms.py (C12), definitions only.
     all_terms = [[(), -target]] + <operator>_list(n_orbs, up_then_down)
     return mu * squared_normal_ordered(all_terms)          # fe_op *= fe_op ; normal_ordered
   i.e. mu * (O - target)^2 as the formal square of the shifted term list.  openfermion's normal ordering
   changes the term list, not the operator; it is tied by comparing Fock matrices in the harness. *)
From Coq Require Import NArith ZArith QArith Qcanon List Bool.
From Tangelo Require Import Num.KStruct Fermion.Fock Fermion.Symmetry.
Import ListNotations.

Section Pen.
  Variable S : KS.
  Open Scope K_scope.

  Definition shifted (o : fop S) (target : K S) : fop S := ([], - target) :: o.
  Definition penalty (o : fop S) (mu target : K S) : fop S :=
    fop_scale S mu (fop_mul S (shifted o target) (shifted o target)).

  Definition number_penalty (n : nat) (ud : bool) (mu target : K S) : fop S := penalty (number_op S n ud) mu target.
  Definition spinz_penalty (n : nat) (ud : bool) (mu target : K S) : fop S := penalty (spinz_op S n ud) mu target.
  Definition spin2_penalty (n : nat) (ud : bool) (mu target : K S) : fop S := penalty (spin2_op S n ud) mu target.

  (* the same over an interpreted table *)
  Definition tab_number_penalty (T : symtab) n ud mu target := penalty (tab_number S T n ud) mu target.
  Definition tab_spinz_penalty (T : symtab) n ud mu target := penalty (tab_spinz S T n ud) mu target.
  Definition tab_spin2_penalty (T : symtab) n ud mu target := penalty (tab_spin2 S T n ud) mu target.

  (* combined_penalty: a term enters only when its prefactor is > 0 (rational prefactors and targets,
     embedded in K by inj) *)
  Variable inj : Qc -> K S.
  Definition qpos (q : Qc) : bool := negb (Qle_bool (this q) 0).
  Definition combined_penalty (T : symtab) (n : nat) (ud : bool) (pN pSz pS2 : Qc * Qc) : fop S :=
    (if qpos (fst pN) then tab_number_penalty T n ud (inj (fst pN)) (inj (snd pN)) else [])
    ++ (if qpos (fst pSz) then tab_spinz_penalty T n ud (inj (fst pSz)) (inj (snd pSz)) else [])
    ++ (if qpos (fst pS2) then tab_spin2_penalty T n ud (inj (fst pS2)) (inj (snd pS2)) else []).
End Pen.

(* rational eigenvalues *)
Definition qnat (k : nat) : Qc := Q2Qc (inject_Z (Z.of_nat k)).
Definition number_q (ud : bool) (n : nat) (d : N) : Qc := qnat (n_alpha ud n d + n_beta ud n d).
Definition spinz_q (ud : bool) (n : nat) (d : N) : Qc :=
  (Q2Qc (1 # 2) * (qnat (n_alpha ud n d) - qnat (n_beta ud n d)))%Qc.
Definition penalty_q (mu lam target : Qc) : Qc := (mu * ((lam - target) * (lam - target)))%Qc.
