(* PopcountProofs.v — the eigenvalue of the number operator is the number of electrons of the
   determinant: n_alpha + n_beta = number of set bits among the 2n spin-orbitals (C12). *)
From Coq Require Import NArith ZArith List Bool Lia.
From Tangelo Require Import Num.KStruct Fermion.Fock Fermion.Symmetry.
Import ListNotations.

Lemma seq_add (k len : nat) : seq k len = map (Nat.add k) (seq 0 len).
Proof.
  revert k. induction len as [|len IH]; intro k; simpl; [reflexivity|].
  f_equal; [lia|]. rewrite (IH (S k)), (IH 1), map_map. apply map_ext. intro a. lia.
Qed.

Lemma filter_map_len {X Y} (f : Y -> bool) (g : X -> Y) (l : list X) :
  length (filter f (map g l)) = length (filter (fun x => f (g x)) l).
Proof. induction l as [|x l IH]; simpl; [reflexivity|]. destruct (f (g x)); simpl; rewrite IH; reflexivity. Qed.

Lemma filter_len_ext {X} (f g : X -> bool) (l : list X) :
  (forall x, f x = g x) -> length (filter f l) = length (filter g l).
Proof. intro H. rewrite (filter_ext f g H). reflexivity. Qed.

Definition bitn (d : N) (q : nat) : bool := N.testbit d (N.of_nat q).

Lemma count_below_2n d n : count_below d (N.of_nat (2 * n)) = length (filter (bitn d) (seq 0 (2 * n))).
Proof. unfold count_below. rewrite Nat2N.id. reflexivity. Qed.

Theorem electrons_is_popcount (ud : bool) (n : nat) (d : N) :
  n_alpha ud n d + n_beta ud n d = count_below d (N.of_nat (2 * n)).
Proof.
  rewrite count_below_2n. unfold n_alpha, n_beta, upo, dno, up_of, dn_of, occ. destruct ud.
  - (* all up, then all down *)
    replace (2 * n) with (n + n) by lia. rewrite seq_app, filter_app, app_length. cbn [Nat.add].
    apply (f_equal2 Nat.add).
    + apply filter_len_ext. intro i. reflexivity.
    + rewrite (seq_add n n), filter_map_len. apply filter_len_ext. intro i. unfold bitn.
      f_equal. lia.
  - (* interleaved *)
    induction n as [|n IH]; [reflexivity|].
    replace (2 * S n) with (2 * n + 2) by lia.
    rewrite (seq_app (2 * n) 2 0), filter_app, app_length, <- IH.
    rewrite !seq_S, !filter_app, !app_length. cbn [Nat.add seq filter].
    unfold bitn.
    replace (N.of_nat (2 * n + 0)) with (2 * N.of_nat n)%N by lia.
    replace (N.of_nat (2 * n + 1)) with (2 * N.of_nat n + 1)%N by lia.
    destruct (N.testbit d (2 * N.of_nat n)), (N.testbit d (2 * N.of_nat n + 1)); cbn [length]; lia.
Qed.
