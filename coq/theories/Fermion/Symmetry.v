(* Symmetry.v — model of tangelo/toolboxes/ansatz_generator/fermionic_operators.py (C12): the term
   lists of the particle-number, spin-projection and total-spin operators, for both spin-orbital
   orderings.  Definitions only; proofs are in SymmetryProofs.v / Spin2Proofs.v.

   Two layers:
   * the TABLE layer.  [symtab] holds what translator/symmetry_tables.py regenerates from the Python
     source on every run (gen/SymmetryTables.v): the spin-orbital index expressions of
     get_spin_ordered and, per operator, the list literal handed to all_terms.extend(...) as a list of
     patterns (slots (orbital variable, spin, creation?) and a coefficient +-(1/2)^k).
     [tab_number], [tab_spinz], [tab_spin2] interpret a table with the loop structure of the Python
     functions (for i in range(n): ... for j in range(n): if i != j: ...).
   * the DIRECT layer.  [number_op], [spinz_op], [spin2_op] are the same lists written out by hand;
     the theorems are proved about these and carried to the interpreted generated table by
     [tab_*_std] (SymmetryProofs.v) and the equation [symtab_gen = std_symtab] (props/C12.v). *)
From Coq Require Import NArith ZArith List Bool.
From Tangelo Require Import Num.KStruct Fermion.Fock.
Import ListNotations.

(* ---------- spin-orbital indices (get_spin_ordered, two-index form) ---------- *)
(* ud = up_then_down: all spin-up orbitals first (qiskit), otherwise interleaved (openfermion) *)
Definition up_of (ud : bool) (n p : N) : N := if ud then p else (2 * p)%N.
Definition dn_of (ud : bool) (n p : N) : N := if ud then (n + p)%N else (2 * p + 1)%N.

(* ---------- pattern tables ---------- *)
(* slot = (second orbital variable? (false: i, true: j), spin down?, creation?) *)
Definition slot : Type := (bool * bool * bool)%type.
(* coefficient +-(1/2)^k as (negative?, k) *)
Definition pcoef : Type := (bool * nat)%type.
Definition pat : Type := (list slot * pcoef)%type.

Record symtab : Type := mkSymtab {
  sx_up : bool -> N -> N -> N;          (* ordering -> n_orbs -> orbital -> spin-up index *)
  sx_dn : bool -> N -> N -> N;
  pat_number : list pat;
  pat_spinz : list pat;
  pat_spin2_same : list pat;            (* extend(...) of the outer loop body   *)
  pat_spin2_cross : list pat            (* extend(...) under `if (i != j)`      *)
}.

Definition std_symtab : symtab := {|
  sx_up := up_of;
  sx_dn := dn_of;
  pat_number := [ ([(false, false, true); (false, false, false)], (false, 0));
                  ([(false, true, true); (false, true, false)], (false, 0)) ];
  pat_spinz := [ ([(false, false, true); (false, false, false)], (false, 1));
                 ([(false, true, true); (false, true, false)], (true, 1)) ];
  pat_spin2_same :=
    [ ([(false, false, true); (false, false, false); (false, false, true); (false, false, false)], (false, 2));
      ([(false, true, true); (false, true, false); (false, true, true); (false, true, false)], (false, 2));
      ([(false, false, true); (false, false, false); (false, true, true); (false, true, false)], (true, 2));
      ([(false, true, true); (false, true, false); (false, false, true); (false, false, false)], (true, 2));
      ([(false, false, true); (false, true, false); (false, true, true); (false, false, false)], (false, 1));
      ([(false, true, true); (false, false, false); (false, false, true); (false, true, false)], (false, 1)) ];
  pat_spin2_cross :=
    [ ([(false, false, true); (false, false, false); (true, false, true); (true, false, false)], (false, 2));
      ([(false, true, true); (false, true, false); (true, true, true); (true, true, false)], (false, 2));
      ([(false, false, true); (false, false, false); (true, true, true); (true, true, false)], (true, 2));
      ([(false, true, true); (false, true, false); (true, false, true); (true, false, false)], (true, 2));
      ([(false, false, true); (false, true, false); (true, true, true); (true, false, false)], (false, 1));
      ([(false, true, true); (false, false, false); (true, false, true); (true, true, false)], (false, 1)) ]
|}.

Section Sym.
  Variable S : KS.
  Open Scope K_scope.

  (* natural numbers and powers of 1/2 in K *)
  Fixpoint knat (k : nat) : K S := match k with O => 0 | Datatypes.S k' => 1 + knat k' end.
  Fixpoint khalfpow (k : nat) : K S := match k with O => 1 | Datatypes.S k' => khalf * khalfpow k' end.
  Definition kpc (c : pcoef) : K S := if fst c then - khalfpow (snd c) else khalfpow (snd c).

  (* ---------- table interpreter ---------- *)
  Definition slot_ladder (T : symtab) (ud : bool) (n i j : N) (s : slot) : ladder :=
    let '(second, down, cr) := s in
    let p := if second then j else i in
    ((if down then sx_dn T ud n p else sx_up T ud n p), cr).
  Definition pat_term (T : symtab) (ud : bool) (n i j : N) (p : pat) : fterm * K S :=
    (map (slot_ladder T ud n i j) (fst p), kpc (snd p)).
  Definition pats_terms (T : symtab) (ud : bool) (n i j : N) (ps : list pat) : fop S :=
    map (pat_term T ud n i j) ps.

  (* for i in range(n_orbs): all_terms.extend(<pattern list>) *)
  Definition tab_single (T : symtab) (ps : list pat) (n : nat) (ud : bool) : fop S :=
    flat_map (fun i => pats_terms T ud (N.of_nat n) (N.of_nat i) (N.of_nat i) ps) (seq 0 n).
  Definition tab_number (T : symtab) := tab_single T (pat_number T).
  Definition tab_spinz (T : symtab) := tab_single T (pat_spinz T).
  (* for i: extend(same); for j: if i != j: extend(cross) *)
  Definition tab_spin2 (T : symtab) (n : nat) (ud : bool) : fop S :=
    flat_map (fun i =>
                pats_terms T ud (N.of_nat n) (N.of_nat i) (N.of_nat i) (pat_spin2_same T)
                ++ flat_map (fun j => if Nat.eqb i j then []
                                      else pats_terms T ud (N.of_nat n) (N.of_nat i) (N.of_nat j) (pat_spin2_cross T))
                            (seq 0 n))
             (seq 0 n).

  (* ---------- the same lists written out directly ---------- *)
  Definition upo (ud : bool) (n i : nat) : N := up_of ud (N.of_nat n) (N.of_nat i).
  Definition dno (ud : bool) (n i : nat) : N := dn_of ud (N.of_nat n) (N.of_nat i).
  Definition nterm (p : N) : fterm := [(p, true); (p, false)].                     (* a+_p a_p *)
  Definition hop (p q : N) : fterm := [(p, true); (q, false)].                      (* a+_p a_q *)

  Definition number_block (ud : bool) (n i : nat) : fop S :=
    [ (nterm (upo ud n i), 1); (nterm (dno ud n i), 1) ].
  Definition spinz_block (ud : bool) (n i : nat) : fop S :=
    [ (nterm (upo ud n i), khalf); (nterm (dno ud n i), - khalf) ].
  Definition number_op (n : nat) (ud : bool) : fop S := flat_map (number_block ud n) (seq 0 n).
  Definition spinz_op (n : nat) (ud : bool) : fop S := flat_map (spinz_block ud n) (seq 0 n).

  Definition quarter : K S := khalf * khalf.
  (* the six terms of one (i, j) block; i = j gives the "same" block *)
  Definition spin2_block (ud : bool) (n i j : nat) : fop S :=
    let ui := upo ud n i in let di := dno ud n i in
    let uj := upo ud n j in let dj := dno ud n j in
    [ (nterm ui ++ nterm uj, quarter);
      (nterm di ++ nterm dj, quarter);
      (nterm ui ++ nterm dj, - quarter);
      (nterm di ++ nterm uj, - quarter);
      (hop ui di ++ hop dj uj, khalf);           (* S+_i S-_j *)
      (hop di ui ++ hop uj dj, khalf) ].         (* S-_i S+_j *)
  Definition spin2_op (n : nat) (ud : bool) : fop S :=
    flat_map (fun i => spin2_block ud n i i
                       ++ flat_map (fun j => if Nat.eqb i j then [] else spin2_block ud n i j) (seq 0 n))
             (seq 0 n).

  (* ---------- reference operators for the S^2 identity ---------- *)
  Definition splus_op (n : nat) (ud : bool) : fop S :=            (* S+ = sum_i a+_{i up} a_{i dn} *)
    map (fun i => (hop (upo ud n i) (dno ud n i), 1)) (seq 0 n).
  Definition sminus_op (n : nat) (ud : bool) : fop S :=           (* S- = sum_i a+_{i dn} a_{i up} *)
    map (fun i => (hop (dno ud n i) (upo ud n i), 1)) (seq 0 n).
  (* S- S+ + Sz Sz + Sz *)
  Definition spin2_ref (n : nat) (ud : bool) : fop S :=
    fop_add S (fop_mul S (sminus_op n ud) (splus_op n ud))
            (fop_add S (fop_mul S (spinz_op n ud) (spinz_op n ud)) (spinz_op n ud)).

  (* ---------- occupation counts of a determinant ---------- *)
  Definition n_alpha (ud : bool) (n : nat) (d : N) : nat :=
    length (filter (fun i => occ d (upo ud n i)) (seq 0 n)).
  Definition n_beta (ud : bool) (n : nat) (d : N) : nat :=
    length (filter (fun i => occ d (dno ud n i)) (seq 0 n)).
  Definition number_val (ud : bool) (n : nat) (d : N) : K S := knat (n_alpha ud n d + n_beta ud n d).
  Definition spinz_val (ud : bool) (n : nat) (d : N) : K S :=
    khalf * (knat (n_alpha ud n d) - knat (n_beta ud n d)).

  (* no orbital with spin-down occupied and spin-up empty: S+ annihilates the determinant *)
  Definition highest_weight_det (ud : bool) (n : nat) (d : N) : bool :=
    forallb (fun j => negb (occ d (dno ud n j) && negb (occ d (upo ud n j)))) (seq 0 n).

  (* ---------- executable sparse row of an operator (used by the correspondence) ---------- *)
  (* column d of the matrix: association list  d' |-> <d'|A|d>  (entries may be zero) *)
  Fixpoint row_add (e : N) (c : K S) (r : list (N * K S)) : list (N * K S) :=
    match r with
    | [] => [(e, c)]
    | (e', c') :: r' => if N.eqb e e' then (e', c' + c) :: r'
                        else if N.ltb e e' then (e, c) :: r else (e', c') :: row_add e c r'
    end.
  Definition fop_col (a : fop S) (d : N) : list (N * K S) :=
    fold_left (fun acc tc => match apply_term (fst tc) d with
                             | Some (s, e) => row_add e (if s then - snd tc else snd tc) acc
                             | None => acc
                             end) a [].
End Sym.
