(* ConserveProofs.v — soundness of Conserve.conserves_sectors with respect to Fock.apply_term, for every
   number of orbitals, both orderings, every determinant; N and Sz commute (as matrices on
   determinants) with every operator whose terms pass the checker. *)
From Coq Require Import NArith ZArith List Bool Lia Ring FinFun.
From Tangelo Require Import Num.KStruct Fermion.Fock Fermion.Symmetry Fermion.SymmetryProofs Fermion.Conserve.
Import ListNotations.
Arguments N.shiftl : simpl never.
Arguments N.lxor : simpl never.

Lemma count_in_cons a A d : count_in (a :: A) d = ((if occ d a then 1 else 0) + count_in A d)%nat.
Proof. unfold count_in. simpl. destruct (occ d a); reflexivity. Qed.

Lemma count_in_flip_notin A d p :
  mem_orb p A = false -> count_in A (N.lxor d (N.shiftl 1 p)) = count_in A d.
Proof.
  intro H. unfold count_in. f_equal. apply filter_ext_in. intros q Hq.
  apply occ_flip_other. intro E. subst q.
  unfold mem_orb in H. rewrite <- not_true_iff_false in H. apply H.
  apply existsb_exists. exists p. split; [exact Hq | apply N.eqb_refl].
Qed.

Lemma count_in_flip A d p :
  NoDup A ->
  Z.of_nat (count_in A (N.lxor d (N.shiftl 1 p)))
  = (Z.of_nat (count_in A d) + (if mem_orb p A then (if occ d p then -1 else 1) else 0))%Z.
Proof.
  induction A as [|a A IH]; intro Hnd.
  - reflexivity.
  - inversion Hnd as [|? ? Ha Hnd']; subst. rewrite !count_in_cons.
    unfold mem_orb. cbn [existsb]. fold (mem_orb p A).
    destruct (N.eqb_spec p a) as [E|E].
    + subst a. cbn [orb]. rewrite occ_flip_same.
      assert (Hm : mem_orb p A = false).
      { apply not_true_iff_false. intro Hm. apply Ha. unfold mem_orb in Hm.
        apply existsb_exists in Hm. destruct Hm as [q [Hq Hpq]]. apply N.eqb_eq in Hpq. subst q. exact Hq. }
      rewrite count_in_flip_notin by exact Hm. destruct (occ d p); cbn [negb]; lia.
    + cbn [orb]. rewrite occ_flip_other by exact E.
      rewrite !Nat2Z.inj_add, (IH Hnd'). lia.
Qed.

Lemma apply_ladder_count A l d s d' :
  NoDup A -> apply_ladder l d = Some (s, d') ->
  Z.of_nat (count_in A d') = (Z.of_nat (count_in A d) + ladder_delta A l)%Z.
Proof.
  intros Hnd H. destruct l as [p cr]. unfold apply_ladder in H. unfold ladder_delta. cbn [fst snd].
  destruct (occ d p) eqn:Eo, cr; cbn [eqb] in H; try discriminate;
    injection H as _ Hd; subst d'; rewrite (count_in_flip A d p Hnd), Eo; reflexivity.
Qed.

(* the balance of creators and annihilators inside A is the change of the occupation of A *)
Theorem apply_term_count A t : NoDup A -> forall d s d',
  apply_term t d = Some (s, d') ->
  Z.of_nat (count_in A d') = (Z.of_nat (count_in A d) + term_delta A t)%Z.
Proof.
  intro Hnd. induction t as [|l t IH]; intros d s d' H.
  - rewrite apply_term_nil in H. injection H as _ Hd. subst d'. simpl. lia.
  - rewrite apply_term_cons in H. unfold bind_term in H.
    destruct (apply_term t d) as [[sg e]|] eqn:Et; [|discriminate].
    destruct (apply_ladder l e) as [[sg' e']|] eqn:El; [|discriminate].
    injection H as _ Hd. subst e'.
    rewrite (apply_ladder_count A l e sg' d' Hnd El), (IH d sg e Et). simpl. lia.
Qed.

(* ---------- the alpha / beta orbital sets ---------- *)
Lemma upo_inj ud n : Injective (upo ud n).
Proof. intros i j H. unfold upo, up_of in H. destruct ud; lia. Qed.
Lemma dno_inj ud n : Injective (dno ud n).
Proof. intros i j H. unfold dno, dn_of in H. destruct ud; lia. Qed.

Lemma alpha_nodup ud n : NoDup (alpha_orbs ud n).
Proof. apply Injective_map_NoDup; [apply upo_inj | apply seq_NoDup]. Qed.
Lemma beta_nodup ud n : NoDup (beta_orbs ud n).
Proof. apply Injective_map_NoDup; [apply dno_inj | apply seq_NoDup]. Qed.

Lemma filter_map_length {X Y} (f : Y -> bool) (g : X -> Y) (l : list X) :
  length (filter f (map g l)) = length (filter (fun x => f (g x)) l).
Proof. induction l as [|x l IH]; simpl; [reflexivity|]. destruct (f (g x)); simpl; rewrite IH; reflexivity. Qed.

Lemma n_alpha_count ud n d : n_alpha ud n d = count_in (alpha_orbs ud n) d.
Proof. unfold n_alpha, count_in, alpha_orbs. rewrite filter_map_length. reflexivity. Qed.
Lemma n_beta_count ud n d : n_beta ud n d = count_in (beta_orbs ud n) d.
Proof. unfold n_beta, count_in, beta_orbs. rewrite filter_map_length. reflexivity. Qed.

(* a term with as many creators as annihilators of each spin keeps n_alpha and n_beta *)
Theorem conserving_term_sectors ud n t d s d' :
  term_conserves ud n t = true -> apply_term t d = Some (s, d') ->
  n_alpha ud n d' = n_alpha ud n d /\ n_beta ud n d' = n_beta ud n d.
Proof.
  intros Hc H. unfold term_conserves in Hc. apply andb_true_iff in Hc. destruct Hc as [Ha Hb].
  apply Z.eqb_eq in Ha. apply Z.eqb_eq in Hb.
  pose proof (apply_term_count _ t (alpha_nodup ud n) d s d' H) as Ca.
  pose proof (apply_term_count _ t (beta_nodup ud n) d s d' H) as Cb.
  rewrite !n_alpha_count, !n_beta_count. lia.
Qed.

Theorem conserves_sectors_sound ud n g :
  conserves_sectors ud n g = true ->
  forall t, In t g -> forall d s d', apply_term t d = Some (s, d') ->
    n_alpha ud n d' = n_alpha ud n d /\ n_beta ud n d' = n_beta ud n d.
Proof.
  intros Hg t Ht d s d' H. unfold conserves_sectors in Hg. rewrite forallb_forall in Hg.
  exact (conserving_term_sectors ud n t d s d' (Hg t Ht) H).
Qed.

Section OpLevel.
  Variable S : KS.
  Add Ring kring2 : (k_ring S).
  Open Scope K_scope.

  (* block structure: no matrix element between different (n_alpha, n_beta) sectors *)
  Theorem conserving_op_block ud n (a : fop S) d' d :
    conserves_sectors ud n (map fst a) = true ->
    (n_alpha ud n d' <> n_alpha ud n d \/ n_beta ud n d' <> n_beta ud n d) ->
    fop_elem S a d' d = 0.
  Proof.
    intros Hc Hne. rewrite fop_elem_sum. rewrite <- (sumK_zero S a). apply sumK_ext.
    intros [t c] Hin. cbn [fst snd]. unfold telem.
    destruct (apply_term t d) as [[s e]|] eqn:Et; [|reflexivity].
    destruct (N.eqb_spec e d') as [E|E]; [|reflexivity]. subst e.
    exfalso.
    destruct (conserves_sectors_sound ud n _ Hc t (in_map fst a (t, c) Hin) d s d' Et) as [Ha Hb].
    destruct Hne as [Hne|Hne]; contradiction.
  Qed.

  (* ---------- products with an operator made of diagonal terms ---------- *)
  Definition diag_op (D : fop S) : Prop := Forall (fun tc => exists g, diag_term (fst tc) g) D.

  Lemma telem_diag_left s g cs t ct d' d :
    diag_term s g -> telem S (s ++ t) (cs * ct) d' d = telem S s cs d' d' * telem S t ct d' d.
  Proof.
    intro Hs. rewrite (telem_diag S s g cs d' d' Hs), N.eqb_refl, andb_true_r.
    unfold telem. rewrite apply_term_app. unfold bind_term.
    destruct (apply_term t d) as [[sg e]|]; [|ring].
    rewrite Hs. destruct (N.eqb_spec e d') as [E|E].
    - subst e. destruct (g d'); [|ring]. rewrite N.eqb_refl, xorb_false_r. destruct sg; ring.
    - destruct (g e); [|ring]. destruct (N.eqb_spec e d') as [E'|_]; [contradiction|]. ring.
  Qed.

  Lemma telem_diag_right s g cs t ct d' d :
    diag_term s g -> telem S (t ++ s) (ct * cs) d' d = telem S t ct d' d * telem S s cs d d.
  Proof.
    intro Hs. rewrite (telem_diag S s g cs d d Hs), N.eqb_refl, andb_true_r.
    unfold telem. rewrite apply_term_app. unfold bind_term. rewrite Hs.
    destruct (g d); [|destruct (apply_term t d) as [[? ?]|]; [destruct (N.eqb _ _); [destruct b|]|]; ring].
    destruct (apply_term t d) as [[sg e]|]; [|ring].
    rewrite xorb_false_l. destruct (N.eqb e d'); [|ring]. destruct sg; ring.
  Qed.

  Lemma fop_mul_diag_left (D a : fop S) d' d :
    diag_op D -> fop_elem S (fop_mul S D a) d' d = fop_elem S D d' d' * fop_elem S a d' d.
  Proof.
    intro HD. unfold fop_mul. rewrite fop_elem_flat_map, (fop_elem_sum S D).
    induction HD as [|[s cs] D [g Hg] HD IH]; simpl; [ring|].
    rewrite IH. rewrite fop_elem_sum, sumK_map. cbn [fst snd].
    rewrite (sumK_ext S a _ (fun tc => telem S s cs d' d' * telem S (fst tc) (snd tc) d' d)).
    - rewrite sumK_scale, <- fop_elem_sum. ring.
    - intros [t ct] _. cbn [fst snd]. apply (telem_diag_left s g). exact Hg.
  Qed.

  Lemma sumK_scale_r {X} (l : list X) c (f : X -> K S) : sumK S l (fun x => f x * c) = sumK S l f * c.
  Proof. induction l as [|x l IH]; simpl; [ring | rewrite IH; ring]. Qed.

  Lemma fop_mul_diag_right (D a : fop S) d' d :
    diag_op D -> fop_elem S (fop_mul S a D) d' d = fop_elem S a d' d * fop_elem S D d d.
  Proof.
    intro HD. unfold fop_mul. rewrite fop_elem_flat_map, (fop_elem_sum S a), (fop_elem_sum S D).
    rewrite <- sumK_scale_r. apply sumK_ext. intros [t ct] _. cbn [fst snd].
    rewrite fop_elem_sum, sumK_map, <- sumK_scale. apply sumK_ext. intros [s cs] Hin. cbn [fst snd].
    unfold diag_op in HD. rewrite Forall_forall in HD. destruct (HD _ Hin) as [g Hg].
    apply (telem_diag_right s g). exact Hg.
  Qed.

  (* ---------- N and Sz are diagonal operators ---------- *)
  Lemma diag_op_pairs ud n (c1 c2 : K S) l :
    diag_op (flat_map (fun i => [ (nterm (upo ud n i), c1); (nterm (dno ud n i), c2) ]) l).
  Proof.
    unfold diag_op. induction l as [|i l IH]; simpl; [constructor|].
    constructor; [eexists; apply diag_nterm|]. constructor; [eexists; apply diag_nterm|]. exact IH.
  Qed.
  Lemma diag_number n ud : diag_op (number_op S n ud).
  Proof. apply diag_op_pairs. Qed.
  Lemma diag_spinz n ud : diag_op (spinz_op S n ud).
  Proof. apply diag_op_pairs. Qed.

  (* [N, A] = 0 and [Sz, A] = 0 as matrices on determinants, for every operator A whose terms pass the
     checker *)
  Theorem number_commutes ud n (a : fop S) d' d :
    conserves_sectors ud n (map fst a) = true ->
    fop_elem S (fop_mul S (number_op S n ud) a) d' d = fop_elem S (fop_mul S a (number_op S n ud)) d' d.
  Proof.
    intro Hc. rewrite (fop_mul_diag_left _ _ _ _ (diag_number n ud)), (fop_mul_diag_right _ _ _ _ (diag_number n ud)).
    rewrite !number_eigen, !N.eqb_refl.
    destruct (Nat.eq_dec (n_alpha ud n d') (n_alpha ud n d)) as [Ea|Ea];
      [destruct (Nat.eq_dec (n_beta ud n d') (n_beta ud n d)) as [Eb|Eb]|].
    - unfold number_val. rewrite Ea, Eb. ring.
    - rewrite (conserving_op_block ud n a d' d Hc (or_intror Eb)). ring.
    - rewrite (conserving_op_block ud n a d' d Hc (or_introl Ea)). ring.
  Qed.

  Theorem spinz_commutes ud n (a : fop S) d' d :
    conserves_sectors ud n (map fst a) = true ->
    fop_elem S (fop_mul S (spinz_op S n ud) a) d' d = fop_elem S (fop_mul S a (spinz_op S n ud)) d' d.
  Proof.
    intro Hc. rewrite (fop_mul_diag_left _ _ _ _ (diag_spinz n ud)), (fop_mul_diag_right _ _ _ _ (diag_spinz n ud)).
    rewrite !spinz_eigen, !N.eqb_refl.
    destruct (Nat.eq_dec (n_alpha ud n d') (n_alpha ud n d)) as [Ea|Ea];
      [destruct (Nat.eq_dec (n_beta ud n d') (n_beta ud n d)) as [Eb|Eb]|].
    - unfold spinz_val. rewrite Ea, Eb. ring.
    - rewrite (conserving_op_block ud n a d' d Hc (or_intror Eb)). ring.
    - rewrite (conserving_op_block ud n a d' d Hc (or_introl Ea)). ring.
  Qed.
End OpLevel.
