(* CAR.v — generic machinery of the fermion-to-qubit encodings (definitions only; C03, used by C04/C05).
   * Majorana strings: a signed Pauli word  (negated?, word).
   * ladder operators from a pair of Majoranas:  a = (c + i d)/2,  a^dagger = (c - i d)/2
     (the convention of openfermion's jordan_wigner / bravyi_kitaev / get_majorana_operator).
   * an encoding is a function  ladder -> op S;  products of ladder operators map through op_mul
     left to right (openfermion's  transformed_term *= ...), operators through op_scale / concatenation.
   * coefficient of a word in an operator (op_coeff), equality of operators as linear combinations
     (op_eqv), anticommutator, the statement of the canonical anticommutation relations (car_holds).
   * matrix elements of a qubit operator between basis states by the closed-form word action of
     Pauli/Action.v (word_flip, word_phase).
   * exact numerals of K: integers and dyadic Gaussian rationals (harness inputs). *)
From Coq Require Import NArith ZArith List Bool.
From Tangelo Require Import Num.KStruct QSem.State Pauli.Word Pauli.Action Fermion.Fock.
Import ListNotations.

Definition maj : Type := (bool * word)%type.            (* (negated?, word) *)

(* insertion of a factor into a word sorted by qubit (an already present qubit is overwritten;
   the encodings below never produce that case: see the *_wf examples) *)
Fixpoint ins_factor (q : N) (p : pauli) (w : word) : word :=
  match w with
  | [] => [(q, p)]
  | (q', p') :: r =>
    if N.ltb q q' then (q, p) :: w
    else if N.eqb q q' then (q, p) :: r
    else (q', p') :: ins_factor q p r
  end.
Definition mk_word (l : list (N * pauli)) : word :=
  fold_left (fun w qp => ins_factor (fst qp) (snd qp) w) l [].

Definition mem_N (x : N) (l : list N) : bool := existsb (N.eqb x) l.
Definition nodup_N (l : list N) : list N :=
  fold_right (fun x acc => if mem_N x acc then acc else x :: acc) [] l.
Definition symdiff_N (a b : list N) : list N :=
  filter (fun x => negb (mem_N x b)) a ++ filter (fun x => negb (mem_N x a)) b.

(* all unordered pairs of a list of words anticommute *)
Fixpoint all_anticommute (l : list word) : bool :=
  match l with
  | [] => true
  | w :: r => forallb (fun v => negb (wcommute w v)) r && all_anticommute r
  end.

Section Enc.
  Variable S : KS.
  Open Scope K_scope.
  Notation K := (K S).

  Definition op_one : op S := [([], 1)].
  Definition ksign (s : bool) (c : K) : K := if s then - c else c.

  (* a = (c + i d)/2 (cr = false),  a^dagger = (c - i d)/2 (cr = true) *)
  Definition ladder_of_maj (c d : maj) (cr : bool) : op S :=
    [(snd c, ksign (fst c) khalf); (snd d, ksign (xorb (fst d) cr) (ki * khalf))].

  Definition enc_term (enc : ladder -> op S) (t : fterm) : op S :=
    fold_left (fun acc l => op_mul S acc (enc l)) t op_one.
  Definition enc_fop (enc : ladder -> op S) (a : fop S) : op S :=
    flat_map (fun tc => op_scale S (snd tc) (enc_term enc (fst tc))) a.

  (* coefficient of word w in the linear combination a *)
  Definition op_coeff (a : op S) (w : word) : K :=
    fold_right (fun t acc => if word_eqb (fst t) w then snd t + acc else acc) 0 a.
  Definition op_eqv (a b : op S) : Prop := forall w, op_coeff a w = op_coeff b w.

  Definition anticomm (a b : op S) : op S := op_add S (op_mul S a b) (op_mul S b a).

  (* canonical anticommutation relations of a family of ladder images on modes 0..n-1 *)
  Definition car_holds (enc : ladder -> op S) (n : N) : Prop :=
    forall p q, (p < n)%N -> (q < n)%N ->
      op_eqv (anticomm (enc (p, false)) (enc (q, true))) (if N.eqb p q then op_one else [])
      /\ op_eqv (anticomm (enc (p, false)) (enc (q, false))) []
      /\ op_eqv (anticomm (enc (p, true)) (enc (q, true))) [].

  (* <d'| a |d> by the closed form of the word action: <x| w |y> = word_phase w x if y = word_flip w x *)
  Definition op_elem (a : op S) (d' d : N) : K :=
    fold_right (fun t acc =>
                  if N.eqb (word_flip (fst t) d') d then snd t * word_phase S (fst t) d' + acc else acc) 0 a.

  (* exact numerals *)
  Fixpoint k_of_pos (p : positive) : K :=
    match p with
    | xH => 1
    | xO q => let h := k_of_pos q in h + h
    | xI q => let h := k_of_pos q in h + h + 1
    end.
  Definition k_of_Z (z : Z) : K :=
    match z with Z0 => 0 | Zpos p => k_of_pos p | Zneg p => - k_of_pos p end.
  Fixpoint khalf_pow (m : nat) : K := match m with O => 1 | Datatypes.S k => khalf * khalf_pow k end.
  (* (re + i im) / 2^m *)
  Definition k_dyadic (re im : Z) (m : nat) : K := (k_of_Z re + ki * k_of_Z im) * khalf_pow m.
End Enc.

(* spin re-ordering: alternating (up, down, up, ...) -> all up then all down.  One formula for
   Tangelo's make_up_then_down (linspace//2, odd entries += ceil(n/2)) and openfermion's up_then_down. *)
Definition utd_index (n p : N) : N := (p / 2 + (if N.odd p then (n + 1) / 2 else 0))%N.
Definition reorder_term (f : N -> N) (t : fterm) : fterm := map (fun l => (f (fst l), snd l)) t.
Definition term_modes (t : fterm) : N := fold_left (fun m l => N.max m (fst l + 1)) t 0%N.

Section Reorder.
  Variable S : KS.
  Definition reorder_fop (f : N -> N) (a : fop S) : fop S := map (fun tc => (reorder_term f (fst tc), snd tc)) a.
  Definition fop_modes (a : fop S) : N := fold_left (fun m tc => N.max m (term_modes (fst tc))) a 0%N.
End Reorder.
