(* JW.v — Jordan-Wigner images as openfermion's _jordan_wigner_fermion_operator produces them
   (called unchanged by tangelo/toolboxes/qubit_mappings/jordan_wigner.py):
     a_p^dagger -> Z_0..Z_{p-1} (X_p - i Y_p)/2,   a_p -> Z_0..Z_{p-1} (X_p + i Y_p)/2.
   Definitions only. *)
From Coq Require Import NArith ZArith List Bool.
From Tangelo Require Import Num.KStruct Pauli.Word Fermion.Fock Fermion.CAR.
Import ListNotations.

Definition zstring (p : N) : word := map (fun q => (N.of_nat q, PZ)) (seq 0 (N.to_nat p)).
Definition jw_word (p : N) (x : pauli) : word := zstring p ++ [(p, x)].

(* Majorana gamma_k: k = 2p -> Z..Z X_p, k = 2p+1 -> Z..Z Y_p *)
Definition jw_gamma (k : N) : word := jw_word (k / 2) (if N.odd k then PY else PX).
Definition jw_gammas (n : N) : list word := map (fun k => jw_gamma (N.of_nat k)) (seq 0 (2 * N.to_nat n)).

Section JW.
  Variable S : KS.
  Definition jw_ladder (l : ladder) : op S :=
    ladder_of_maj S (false, jw_word (fst l) PX) (false, jw_word (fst l) PY) (snd l).
  Definition jw_term (t : fterm) : op S := enc_term S jw_ladder t.
  Definition jw_fop (a : fop S) : op S := enc_fop S jw_ladder a.
End JW.
