(* RefState.v — tangelo/toolboxes/qubit_mappings/statevector_mapping.py and jkmn.jkmn_prep_vector
   (reference-state vectors and circuits; property C05).  Definitions only; proofs in RefStateProofs.v.

   An occupation vector (numpy array of 0/1) is a [list bool]; position k = spin-orbital / qubit k.
     hf_filling          get_vector's own logic: np.zeros(n), the `if spin:` branch with the slice
                         assignments  vector[0:2*n_alpha:2] = 1, vector[1:2*n_beta+1:2] = 1  (Python
                         floor division / modulo on possibly negative integers, Python slice clipping incl.
                         negative stops) and  vector[:n_electrons] = 1  otherwise (spin None or 0)
     utd_vec             np.concatenate((vector[::2], vector[1::2]))
     bk_encode           do_bk_transform: openfermion's _encoder_bk matrix (kron recursion, external: tied by
                         correspondence) times the vector modulo 2
     scbk_vector         do_scbk_transform: product over the occupied modes of (a_i^dagger - a_i) = -i d_i in the
                         BK-tree encoding (a single Pauli word), qubits carrying X or Y, then np.delete of
                         qubit n-1 and of qubit n//2-1
     jkmn_prep           jkmn_prep_vector: product of gamma_{2i} over the occupied modes, X/Y support
     get_mapped_vector, get_vector, vector_to_circuit, get_reference_circuit
   Exceptions: np.zeros(negative) and an unknown mapping are ValueErrors, bravyi_kitaev_code(0) is an
   OverflowError (log2 0), np.delete on a too short array an IndexError, an unassigned JKMN key a KeyError.
   Nothing else raises: electron numbers / spins that fit no determinant are silently accepted by the
   source, and the model follows it (the theorems carry the admissibility hypotheses). *)
From Coq Require Import String NArith ZArith List Bool.
From Tangelo Require Import Num.KStruct QSem.State Pauli.Word Fermion.Fock Fermion.CAR Fermion.BK
     Fermion.SCBK Fermion.JKMN Fermion.Mapping Linq.GateModel.
Import ListNotations.
Close Scope string_scope.
Open Scope list_scope.

Definition vec : Type := list bool.

Inductive rerr : Type := RValueError | RIndexError | RKeyError | ROverflowError | ROtherError.
Inductive rres (X : Type) : Type := ROk (x : X) | RErr (e : rerr).
Arguments ROk {_}. Arguments RErr {_}.
Definition rbind {X Y} (r : rres X) (f : X -> rres Y) : rres Y :=
  match r with ROk x => f x | RErr e => RErr e end.
Definition rmap {X Y} (f : X -> Y) (r : rres X) : rres Y :=
  match r with ROk x => ROk (f x) | RErr e => RErr e end.
Definition rerr_of (e : err) : rerr :=
  match e with ValueError => RValueError | IndexError => RIndexError | KeyError => RKeyError | _ => ROtherError end.

(* ---------------------------------------------------------------- Python slices (positive step) *)
(* a slice bound i on a sequence of length n: negative counts from the end, then clipped to [0, n] *)
Definition py_clip (n i : Z) : Z := if (i <? 0)%Z then Z.max 0 (i + n) else Z.min i n.
Definition in_slice (n start stop step k : Z) : bool :=
  let a := py_clip n start in
  let b := py_clip n stop in
  ((a <=? k) && (k <? b) && ((k - a) mod step =? 0))%Z.
(* v[start:stop:step] = 1 *)
Definition set_slice (v : vec) (start stop step : Z) : vec :=
  map (fun k => in_slice (Z.of_nat (length v)) start stop step (Z.of_nat k) || nth k v false)
      (seq 0 (length v)).

(* ---------------------------------------------------------------- get_vector: the filling *)
(* spin = None, or an integer; `if spin:` is false for None and for 0 *)
Definition hf_n_alpha (ne spin : Z) : Z := scbk_n_alpha ne spin.          (* n_e//2 + spin//2 + n_e%2 *)
Definition hf_n_beta (ne spin : Z) : Z := (ne / 2 - spin / 2)%Z.
Definition hf_filling (n ne : Z) (spin : option Z) : rres vec :=
  if (n <? 0)%Z then RErr RValueError
  else
    let z := repeat false (Z.to_nat n) in
    match spin with
    | Some s =>
      if (s =? 0)%Z then ROk (set_slice z 0 ne 1)
      else ROk (set_slice (set_slice z 0 (2 * hf_n_alpha ne s) 2) 1 (2 * hf_n_beta ne s + 1) 2)
    | None => ROk (set_slice z 0 ne 1)
    end.

(* ---------------------------------------------------------------- ordering *)
Fixpoint evens {X} (l : list X) : list X :=
  match l with
  | [] => []
  | a :: r => a :: match r with [] => [] | _ :: r' => evens r' end
  end.
Definition odds {X} (l : list X) : list X := match l with [] => [] | _ :: r => evens r end.
Definition utd_vec (v : vec) : vec := evens v ++ odds v.

(* ---------------------------------------------------------------- Bravyi-Kitaev encoder *)
(* entry (j, k) of the matrix built by _encoder_bk after r repetitions (size 2^(r+1)):
   mtx_0 = [[1,0],[1,1]];  mtx_r = kron(I_2, mtx_{r-1}) with mtx_r[2^(r+1)-1, 0 .. 2^r - 1] = 1 *)
Fixpoint bk_entry (r : nat) (j k : N) : bool :=
  match r with
  | O => ((k <=? j) && (j <? 2))%N
  | Datatypes.S r' =>
    let h := (2 ^ N.of_nat r)%N in
    if ((j =? 2 * h - 1) && (k <? h))%N then true
    else if (j / h =? k / h)%N then bk_entry r' (j mod h)%N (k mod h)%N else false
  end.
Definition xsum (f : nat -> bool) (n : nat) : bool :=
  fold_left (fun acc k => xorb acc (f k)) (seq 0 n) false.
Definition bk_reps (n : nat) : nat := N.to_nat (N.log2_up (N.of_nat n)).      (* int(ceil(log2 n)) *)
(* mod(dot(mat, vector), 2) *)
Definition bk_row (n : nat) (v : vec) (j : nat) : bool :=
  xsum (fun k => bk_entry (bk_reps n) (N.of_nat j) (N.of_nat k) && nth k v false) n.
Definition bk_encode (v : vec) : rres vec :=
  let n := length v in
  if Nat.eqb n 0 then RErr ROverflowError else ROk (map (bk_row n v) (seq 0 n)).

(* ---------------------------------------------------------------- products of Majorana words *)
Definition nonZ (p : pauli) : bool := negb (pauli_eqb p PZ).
Definition hasxy (q : N) (w : word) : bool := existsb (fun f => N.eqb (fst f) q && nonZ (snd f)) w.
(* the word of  prod_{k : v_k = 1} ws k  (left to right; the scalar factor plays no role) *)
Definition wprod (ws : nat -> word) (v : vec) : word :=
  fold_left (fun w k => if nth k v false then fst (wmul w (ws k)) else w) (seq 0 (length v)) [].
(* qubits of a register of nq qubits on which the word acts with X or Y *)
Definition prep_vector (nq : nat) (w : word) : vec := map (fun q => hasxy (N.of_nat q) w) (seq 0 nq).

Fixpoint delete_at {X} (k : nat) (l : list X) : list X :=
  match l, k with
  | [], _ => []
  | _ :: r, O => r
  | a :: r, Datatypes.S k' => a :: delete_at k' r
  end.

(* ---------------------------------------------------------------- scBK *)
(* the BK-tree vector before the two parity qubits are deleted *)
Definition scbk_tree_word (v : vec) : word :=
  let t := fen_tree (N.of_nat (length v)) in wprod (fun k => bkt_d t (N.of_nat k)) v.
Definition scbk_tree_vector (v : vec) : vec := prep_vector (length v) (scbk_tree_word v).
Definition scbk_vector (v : vec) : rres vec :=
  let n := length v in
  if Nat.ltb n 2 then RErr RIndexError
  else if negb (forallb (fun f => negb (nonZ (snd f)) || N.ltb (fst f) (N.of_nat n)) (scbk_tree_word v))
       then RErr RIndexError
  else ROk (delete_at (n / 2 - 1) (delete_at (n - 1) (scbk_tree_vector v))).

(* ---------------------------------------------------------------- JKMN *)
Definition jkmn_word (majs : list maj) (k : nat) : word := snd (nth (2 * k) majs (false, [])).
Definition jkmn_prep_with (rmajs : res (list maj)) (v : vec) : rres vec :=
  match rmajs with
  | Err e => RErr (rerr_of e)
  | Ok majs =>
    let n := length v in
    let w := wprod (jkmn_word majs) v in
    if forallb (fun f => N.ltb (fst f) (N.of_nat n)) w then ROk (prep_vector n w) else RErr RIndexError
  end.
Definition jkmn_prep (T : jkmn_tab) (v : vec) : rres vec :=
  jkmn_prep_with (jkmn_majs T (N.of_nat (length v))) v.

(* ---------------------------------------------------------------- dispatch *)
(* [rmajs] is _jkmn_dict(len(vector)) (shared between the cases of a batch by the harness) *)
Definition gmv_with (rmajs : res (list maj)) (m : mapping) (utd : bool) (v : vec) : rres vec :=
  let v1 := if utd then utd_vec v else v in
  match m with
  | MJW => ROk v1
  | MBK => bk_encode v1
  | MSCBK => scbk_vector (if utd then v1 else utd_vec v1)
  | MJKMN => jkmn_prep_with rmajs v1
  end.
Definition get_mapped_vector (T : jkmn_tab) (m : mapping) (utd : bool) (v : vec) : rres vec :=
  gmv_with (jkmn_majs T (N.of_nat (length v))) m utd v.

(* mapping = None: a string outside available_mappings *)
Definition get_vector (T : jkmn_tab) (n ne : Z) (m : option mapping) (utd : bool) (spin : option Z) : rres vec :=
  match m with
  | None => RErr RValueError
  | Some m' => rbind (hf_filling n ne spin) (get_mapped_vector T m' utd)
  end.

(* ---------------------------------------------------------------- circuits *)
(* enumerate(vector): an X gate on every index with a truthy entry *)
Fixpoint x_targets_from (k : N) (v : vec) : list N :=
  match v with
  | [] => []
  | b :: r => (if b then [k] else []) ++ x_targets_from (k + 1)%N r
  end.
(* Circuit(n_qubits = len(vector)) and its gates, all of them X without controls *)
Definition vector_to_circuit (v : vec) : nat * list N := (length v, x_targets_from 0%N v).
Definition get_reference_circuit (T : jkmn_tab) (n ne : Z) (m : option mapping) (utd : bool) (spin : option Z)
  : rres (nat * list N) := rmap vector_to_circuit (get_vector T n ne m utd spin).

(* the gate list in the Python-level gate model and in the reference semantics *)
Definition x_pgates (ts : list N) : list (pgate unit) :=
  map (fun q => @PGate unit "X"%string [Z.of_N q] None PNone false) ts.
Section Sem.
  Variable S : KS.
  Definition x_circuit (ts : list N) : circuit S := map (fun q => Gate (B1 GX q) []) ts.
End Sem.

(* the computational-basis index of a bit vector: bit q of the index = entry q *)
Fixpoint bits_to_N (v : vec) : N :=
  match v with
  | [] => 0%N
  | b :: r => (2 * bits_to_N r + N.b2n b)%N
  end.

(* ---------------------------------------------------------------- number operators *)
Definition numop_term (p : N) : fterm := [(p, true); (p, false)].

