(* EncProofs.v — every encoding built from Majorana pairs is linear and sends the adjoint of a ladder
   operator to the adjoint of its image (lists of terms are equal, not merely equivalent). *)
From Coq Require Import NArith ZArith List Bool Ring.
From Tangelo Require Import Num.KStruct Pauli.Word Fermion.Fock Fermion.CAR Fermion.JW Fermion.BK Fermion.JKMN Fermion.HCB.
Import ListNotations.

Section EncProofs.
  Variable S : KS.
  Add Ring kring4 : (k_ring S).
  Open Scope K_scope.

  Theorem enc_fop_add : forall enc (a b : fop S),
      enc_fop S enc (fop_add S a b) = op_add S (enc_fop S enc a) (enc_fop S enc b).
  Proof. intros. unfold enc_fop, fop_add, op_add. apply flat_map_app. Qed.

  Lemma op_scale_scale : forall (c d : K S) (x : op S), op_scale S c (op_scale S d x) = op_scale S (c * d) x.
  Proof.
    intros. unfold op_scale. rewrite map_map. apply map_ext. intros [w e]. simpl. f_equal. ring.
  Qed.

  Lemma op_scale_app : forall (c : K S) (x y : op S), op_scale S c (x ++ y) = op_scale S c x ++ op_scale S c y.
  Proof. intros. unfold op_scale. apply map_app. Qed.

  Theorem enc_fop_scale : forall enc (c : K S) (a : fop S),
      enc_fop S enc (fop_scale S c a) = op_scale S c (enc_fop S enc a).
  Proof.
    intros enc c a. unfold enc_fop, fop_scale. induction a as [|[t e] a IH]; [reflexivity|].
    simpl. rewrite IH, op_scale_app, op_scale_scale. reflexivity.
  Qed.

  Lemma kconj_ksign : forall s (x : K S), kconj (ksign S s x) = ksign S s (kconj x).
  Proof. intros [|] x; simpl; [apply kconj_opp | reflexivity]. Qed.

  (* image of a^dagger = adjoint of the image of a, for ladder operators built from any Majorana pair *)
  Theorem ladder_adjoint : forall (c d : maj) (cr : bool),
      op_adj S (ladder_of_maj S c d cr) = ladder_of_maj S c d (negb cr).
  Proof.
    intros [sc wc] [sd wd] cr. unfold op_adj, ladder_of_maj. simpl.
    rewrite !kconj_ksign, kconj_half, kconj_mul, kconj_i, kconj_half.
    f_equal. f_equal. f_equal.
    destruct sd, cr; simpl; ring.
  Qed.

  Corollary jw_adjoint : forall p cr, op_adj S (jw_ladder S (p, cr)) = jw_ladder S (p, negb cr).
  Proof. intros. apply ladder_adjoint. Qed.
  Corollary bk_adjoint : forall n p cr, op_adj S (bk_ladder S n (p, cr)) = bk_ladder S n (p, negb cr).
  Proof. intros. apply ladder_adjoint. Qed.
  Corollary bkt_adjoint : forall t p cr, op_adj S (bkt_ladder S t (p, cr)) = bkt_ladder S t (p, negb cr).
  Proof. intros. apply ladder_adjoint. Qed.
  Corollary jkmn_adjoint : forall majs p cr, op_adj S (jkmn_ladder S majs (p, cr)) = jkmn_ladder S majs (p, negb cr).
  Proof. intros. apply ladder_adjoint. Qed.
  Corollary hcb_adjoint : forall p cr, op_adj S (hcb_ladder S (p, cr)) = hcb_ladder S (p, negb cr).
  Proof. intros. apply ladder_adjoint. Qed.
End EncProofs.
