(* CARProofs.v — phases of products of Pauli words under exchange, and the generic lemma
   "pairwise anticommuting Majorana strings give ladder operators obeying the CAR".
   (Own copies of the word-level facts needed here: wmul_self, wmul_swap, anti_count_sym; the shared
   Pauli proof library was being written concurrently.) *)
From Coq Require Import NArith ZArith List Bool Lia Ring.
From Tangelo Require Import Num.KStruct Pauli.Word Fermion.Fock Fermion.CAR.
Import ListNotations.

(* ---------- word level (no ring involved) ---------- *)
Lemma wmul_fuel_self : forall w k, (length w <= k)%nat -> wmul_fuel k w w = ([], 0%Z).
Proof.
  induction w as [|[q p] w IH]; intros k Hk.
  - destruct k; reflexivity.
  - destruct k as [|k]; [simpl in Hk; lia|]. simpl.
    rewrite N.ltb_irrefl. rewrite IH by (simpl in Hk; lia).
    destruct p; reflexivity.
Qed.

Lemma wmul_self : forall w, wmul w w = ([], 0%Z).
Proof. intro w. apply wmul_fuel_self. lia. Qed.

Lemma pmul1_swap : forall a b,
    fst (pmul1 a b) = fst (pmul1 b a) /\
    exists m, (snd (pmul1 a b) - snd (pmul1 b a) = 2 * (if pauli_eqb a b then 0 else 1) + 4 * m)%Z.
Proof.
  intros a b; destruct a, b; simpl; split; try reflexivity;
    first [exists 0%Z; reflexivity | exists (-1)%Z; reflexivity | exists 1%Z; reflexivity].
Qed.

Local Opaque Z.mul Z.of_nat.
Lemma wmul_fuel_swap : forall k a b,
    fst (wmul_fuel k a b) = fst (wmul_fuel k b a) /\
    exists m, (snd (wmul_fuel k a b) - snd (wmul_fuel k b a) = 2 * Z.of_nat (anti_count a b k) + 4 * m)%Z.
Proof.
  induction k as [|k IH]; intros a b.
  - simpl. split; [reflexivity | exists 0%Z; reflexivity].
  - destruct a as [|[qa pa] a'].
    + destruct b as [|[qb pb] b']; simpl; (split; [reflexivity | exists 0%Z; reflexivity]).
    + destruct b as [|[qb pb] b'].
      * simpl. split; [reflexivity | exists 0%Z; reflexivity].
      * simpl.
        destruct (N.ltb qa qb) eqn:Hab.
        { assert (Hba : N.ltb qb qa = false) by (apply N.ltb_ge; apply N.ltb_lt in Hab; lia).
          rewrite Hba.
          destruct (IH a' ((qb, pb) :: b')) as [Hw [m Hm]].
          destruct (wmul_fuel k a' ((qb, pb) :: b')) as [w1 e1].
          destruct (wmul_fuel k ((qb, pb) :: b') a') as [w2 e2].
          simpl in *. split; [congruence | exists m; exact Hm]. }
        destruct (N.ltb qb qa) eqn:Hba.
        { destruct (IH ((qa, pa) :: a') b') as [Hw [m Hm]].
          destruct (wmul_fuel k ((qa, pa) :: a') b') as [w1 e1].
          destruct (wmul_fuel k b' ((qa, pa) :: a')) as [w2 e2].
          simpl in *. split; [congruence | exists m; exact Hm]. }
        assert (Heq : qa = qb) by (apply N.ltb_ge in Hab; apply N.ltb_ge in Hba; lia).
        subst qb.
        destruct (IH a' b') as [Hw [m Hm]].
        destruct (wmul_fuel k a' b') as [w1 e1].
        destruct (wmul_fuel k b' a') as [w2 e2].
        destruct (pmul1_swap pa pb) as [Hp [m' Hm']].
        destruct (pmul1 pa pb) as [r1 f1]. destruct (pmul1 pb pa) as [r2 f2].
        simpl in *. subst r2 w2.
        destruct r1 as [r|]; simpl; (split; [reflexivity|]);
          exists (m + m')%Z; destruct (pauli_eqb pa pb); lia.
Qed.

Local Transparent Z.mul Z.of_nat.

(* anticommuting words: same product word, exponents of i differing by 2 modulo 4 *)
Lemma wmul_anticommute : forall a b, wcommute a b = false ->
    fst (wmul a b) = fst (wmul b a) /\ ((snd (wmul a b) - snd (wmul b a)) mod 4 = 2)%Z.
Proof.
  intros a b H. unfold wmul, wcommute in *.
  replace (length b + length a)%nat with (length a + length b)%nat by lia.
  destruct (wmul_fuel_swap (length a + length b) a b) as [Hw [m Hm]].
  split; [exact Hw|]. rewrite Hm.
  set (c := anti_count a b (length a + length b)) in *.
  assert (Hodd : Nat.odd c = true) by (rewrite <- Nat.negb_even, H; reflexivity).
  apply Nat.odd_spec in Hodd. destruct Hodd as [j Hj]. rewrite Hj.
  replace (2 * Z.of_nat (2 * j + 1) + 4 * m)%Z with (2 + (Z.of_nat j + m) * 4)%Z by lia.
  rewrite Z.mod_add by lia. reflexivity.
Qed.

Lemma anti_count_sym : forall k a b, anti_count a b k = anti_count b a k.
Proof.
  induction k as [|k IH]; intros a b; [reflexivity|].
  destruct a as [|[qa pa] a']; destruct b as [|[qb pb] b']; try reflexivity.
  simpl.
  destruct (N.ltb qa qb) eqn:Hab.
  - assert (Hba : N.ltb qb qa = false) by (apply N.ltb_ge; apply N.ltb_lt in Hab; lia).
    rewrite Hba. apply IH.
  - destruct (N.ltb qb qa) eqn:Hba; [apply IH|].
    rewrite IH. f_equal. destruct pa, pb; reflexivity.
Qed.

Lemma wcommute_sym : forall a b, wcommute a b = wcommute b a.
Proof.
  intros. unfold wcommute. rewrite anti_count_sym. f_equal. f_equal. lia.
Qed.

(* elements at distinct positions of a list accepted by all_anticommute anticommute *)
Lemma all_anticommute_nth : forall l, all_anticommute l = true ->
    forall i j, (i < length l)%nat -> (j < length l)%nat -> i <> j ->
                wcommute (nth i l []) (nth j l []) = false.
Proof.
  induction l as [|w l IH]; intros H i j Hi Hj Hij; [simpl in Hi; lia|].
  simpl in H. apply andb_true_iff in H. destruct H as [H1 H2].
  rewrite forallb_forall in H1.
  destruct i as [|i], j as [|j]; simpl in *.
  - lia.
  - apply negb_true_iff. apply H1. apply nth_In. lia.
  - rewrite wcommute_sym. apply negb_true_iff. apply H1. apply nth_In. lia.
  - apply IH; try assumption; lia.
Qed.

(* ---------- operator level ---------- *)
Section CARProofs.
  Variable S : KS.
  Add Ring kring : (k_ring S).
  Open Scope K_scope.
  Notation K := (K S).

  Lemma ipow_anti : forall e e', ((e - e') mod 4 = 2)%Z -> ipow S e = - ipow S e'.
  Proof.
    intros e e' H. unfold ipow.
    assert (Ha := Z.mod_pos_bound e 4 ltac:(lia)). assert (Hb := Z.mod_pos_bound e' 4 ltac:(lia)).
    rewrite Zminus_mod in H.
    set (a := (e mod 4)%Z) in *. set (b := (e' mod 4)%Z) in *.
    assert (Hc : (a = 0 \/ a = 1 \/ a = 2 \/ a = 3)%Z) by lia.
    assert (Hd : (b = 0 \/ b = 1 \/ b = 2 \/ b = 3)%Z) by lia.
    destruct Hc as [Hc|[Hc|[Hc|Hc]]]; destruct Hd as [Hd|[Hd|[Hd|Hd]]]; rewrite Hc, Hd in *;
      vm_compute in H; try discriminate H; ring.
  Qed.

  Lemma ipow_0 : ipow S 0 = 1.
  Proof. reflexivity. Qed.

  Lemma term_mul_same : forall w a b, term_mul S (w, a) (w, b) = ([], a * b).
  Proof.
    intros. unfold term_mul. simpl. rewrite wmul_self. rewrite ipow_0. f_equal. ring.
  Qed.

  Lemma term_mul_anti : forall u v a b, wcommute u v = false ->
      exists w x, term_mul S (u, a) (v, b) = (w, x) /\ term_mul S (v, b) (u, a) = (w, - x).
  Proof.
    intros u v a b H. destruct (wmul_anticommute u v H) as [Hw He].
    unfold term_mul. simpl.
    destruct (wmul u v) as [w1 e1]. destruct (wmul v u) as [w2 e2]. simpl in *. subst w2.
    exists w1, (ipow S e1 * (a * b)). split; [reflexivity|].
    f_equal. rewrite (ipow_anti e1 e2 He). ring.
  Qed.

  Lemma four_quarters : khalf * khalf + khalf * khalf + (khalf * khalf + khalf * khalf) = (1 : K).
  Proof.
    transitivity ((khalf + khalf) * (khalf + khalf) : K); [ring|]. rewrite k_half. ring.
  Qed.

  Lemma ksign_sq : forall s (x y : K), ksign S s x * ksign S s y = x * y.
  Proof. intros [|] x y; simpl; ring. Qed.

  Local Opaque word_eqb.
  Definition anti (u v : maj) : Prop := wcommute (snd u) (snd v) = false.

  (* anticommutator of two ladder images built from four mutually anticommuting strings: zero *)
  Lemma anticomm_distinct : forall c1 d1 c2 d2 cr1 cr2,
      anti c1 c2 -> anti c1 d2 -> anti d1 c2 -> anti d1 d2 ->
      op_eqv S (anticomm S (ladder_of_maj S c1 d1 cr1) (ladder_of_maj S c2 d2 cr2)) [].
  Proof.
    intros c1 d1 c2 d2 cr1 cr2 H1 H2 H3 H4 w.
    unfold anticomm, ladder_of_maj, op_add, op_mul. simpl.
    destruct (term_mul_anti (snd c1) (snd c2) (ksign S (fst c1) khalf) (ksign S (fst c2) khalf) H1) as [w1 [x1 [E1 F1]]].
    destruct (term_mul_anti (snd c1) (snd d2) (ksign S (fst c1) khalf) (ksign S (xorb (fst d2) cr2) (ki * khalf)) H2) as [w2 [x2 [E2 F2]]].
    destruct (term_mul_anti (snd d1) (snd c2) (ksign S (xorb (fst d1) cr1) (ki * khalf)) (ksign S (fst c2) khalf) H3) as [w3 [x3 [E3 F3]]].
    destruct (term_mul_anti (snd d1) (snd d2) (ksign S (xorb (fst d1) cr1) (ki * khalf)) (ksign S (xorb (fst d2) cr2) (ki * khalf)) H4) as [w4 [x4 [E4 F4]]].
    rewrite E1, E2, E3, E4, F1, F2, F3, F4. simpl.
    destruct (word_eqb w1 w); destruct (word_eqb w2 w); destruct (word_eqb w3 w); destruct (word_eqb w4 w); ring.
  Qed.

  (* same mode: {a, a^dagger} = 1, {a, a} = {a^dagger, a^dagger} = 0 *)
  Lemma anticomm_same : forall c d cr1 cr2, anti c d ->
      op_eqv S (anticomm S (ladder_of_maj S c d cr1) (ladder_of_maj S c d cr2))
             (if xorb cr1 cr2 then op_one S else []).
  Proof.
    intros c d cr1 cr2 H w.
    unfold anticomm, ladder_of_maj, op_add, op_mul. simpl.
    rewrite !term_mul_same.
    destruct (term_mul_anti (snd c) (snd d) (ksign S (fst c) khalf) (ksign S (xorb (fst d) cr2) (ki * khalf)) H) as [w2 [x2 [E2 F2]]].
    destruct (term_mul_anti (snd c) (snd d) (ksign S (fst c) khalf) (ksign S (xorb (fst d) cr1) (ki * khalf)) H) as [w3 [x3 [E3 F3]]].
    rewrite E2, F2, E3, F3. simpl.
    assert (Hw : w3 = w2).
    { unfold term_mul in E2, E3. simpl in E2, E3. destruct (wmul (snd c) (snd d)); congruence. }
    subst w3.
    rewrite !ksign_sq.
    assert (Hdd : ksign S (xorb (fst d) cr1) (ki * khalf) * ksign S (xorb (fst d) cr2) (ki * khalf)
                  = if xorb cr1 cr2 then khalf * khalf else - (khalf * khalf)).
    { pose proof (@k_ii S) as Hii.
      destruct (fst d), cr1, cr2; simpl;
        match goal with
        | |- _ = khalf * khalf => transitivity (- (ki * ki) * (khalf * khalf) : K); [ring | rewrite Hii; ring]
        | |- _ = - (khalf * khalf) => transitivity ((ki * ki) * (khalf * khalf) : K); [ring | rewrite Hii; ring]
        end. }
    assert (Hdd' : ksign S (xorb (fst d) cr2) (ki * khalf) * ksign S (xorb (fst d) cr1) (ki * khalf)
                   = if xorb cr1 cr2 then khalf * khalf else - (khalf * khalf)).
    { rewrite <- Hdd. ring. }
    rewrite Hdd, Hdd'.
    pose proof four_quarters as Hq.
    destruct (xorb cr1 cr2); unfold op_one; simpl;
      destruct (word_eqb [] w); destruct (word_eqb w2 w); try rewrite <- Hq; ring.
  Qed.

  (* The generic lemma.  A Majorana string is a signed Pauli word: it is Hermitian and squares to the
     identity by construction (wmul_self; the sign squares to 1).  If the 2n strings c_0, d_0, ...,
     c_{n-1}, d_{n-1} pairwise anticommute, then a_p = (c_p + i d_p)/2 and its adjoint satisfy the CAR. *)
  Theorem majoranas_give_car : forall (n : N) (c d : N -> maj),
      (forall p q, (p < n)%N -> (q < n)%N -> p <> q ->
                   anti (c p) (c q) /\ anti (c p) (d q) /\ anti (d p) (c q) /\ anti (d p) (d q)) ->
      (forall p, (p < n)%N -> anti (c p) (d p)) ->
      car_holds S (fun l => ladder_of_maj S (c (fst l)) (d (fst l)) (snd l)) n.
  Proof.
    intros n c d Hpq Hpp p q Hp Hq. simpl.
    destruct (N.eqb p q) eqn:E.
    - apply N.eqb_eq in E. subst q.
      repeat split.
      + exact (anticomm_same (c p) (d p) false true (Hpp p Hp)).
      + exact (anticomm_same (c p) (d p) false false (Hpp p Hp)).
      + exact (anticomm_same (c p) (d p) true true (Hpp p Hp)).
    - apply N.eqb_neq in E. destruct (Hpq p q Hp Hq E) as [H1 [H2 [H3 H4]]].
      repeat split; apply anticomm_distinct; assumption.
  Qed.
End CARProofs.
