(* Spin2Proofs.v — the S^2 term list of fermionic_operators.py acts as S- S+ + Sz Sz + Sz, for every
   number of orbitals, both orderings, every pair of determinants (C12 spin2_identity).
   Ingredients: anticommutation of ladder operators on different orbitals (sign = parity of the
   occupied orbitals below), hence S+_i S-_j = S-_j S+_i for i <> j; the explicit diagonal action of
   S+_i S-_i and S-_i S+_i; rearrangement of the double sums. *)
From Coq Require Import NArith ZArith List Bool Lia Ring FinFun.
From Tangelo Require Import Num.KStruct Fermion.Fock Fermion.Symmetry Fermion.SymmetryProofs
     Fermion.Conserve Fermion.ConserveProofs.
Import ListNotations.
Arguments N.shiftl : simpl never.
Arguments N.lxor : simpl never.

(* ---------- parity under a flip ---------- *)
Lemma odd_filter_flip (l : list nat) (x : nat) (f g : nat -> bool) :
  NoDup l -> In x l -> g x = negb (f x) -> (forall y, y <> x -> g y = f y) ->
  Nat.odd (length (filter g l)) = negb (Nat.odd (length (filter f l))).
Proof.
  intros Hnd Hin Hx Hy. induction l as [|a l IH]; [destruct Hin|].
  inversion Hnd as [|? ? Ha Hnd']; subst.
  destruct (Nat.eq_dec a x) as [E|E].
  - subst a. simpl. rewrite Hx.
    assert (Hf : filter g l = filter f l).
    { apply filter_ext_in. intros y Hyl. apply Hy. intro E. subst y. contradiction. }
    rewrite Hf. destruct (f x); simpl; rewrite Nat.odd_succ, <- Nat.negb_odd;
      [rewrite negb_involutive|]; reflexivity.
  - destruct Hin as [Hin|Hin]; [contradiction|]. simpl. rewrite (Hy a E).
    destruct (f a); simpl; [rewrite !Nat.odd_succ, <- !Nat.negb_odd; f_equal|]; apply IH; assumption.
Qed.

Lemma parity_below_flip (d p q : N) :
  parity_below (N.lxor d (N.shiftl 1 q)) p = xorb (parity_below d p) (N.ltb q p).
Proof.
  destruct (N.ltb_spec q p) as [H|H].
  - rewrite xorb_true_r. unfold parity_below, count_below.
    apply (odd_filter_flip _ (N.to_nat q)).
    + apply seq_NoDup.
    + apply in_seq. lia.
    + rewrite N2Nat.id. apply occ_flip_same.
    + intros y Hy. apply occ_flip_other. lia.
  - rewrite xorb_false_r. apply parity_below_flip_ge. exact H.
Qed.

(* ---------- anticommutation of two ladder operators on different orbitals ---------- *)
Definition neg_res (r : option (bool * N)) : option (bool * N) :=
  match r with Some (s, e) => Some (negb s, e) | None => None end.

Lemma neg_res_invol r : neg_res (neg_res r) = r.
Proof. destruct r as [[s e]|]; [simpl; rewrite negb_involutive|]; reflexivity. Qed.

Lemma bind_neg_l r f : bind_term (neg_res r) f = neg_res (bind_term r f).
Proof.
  destruct r as [[s e]|]; [|reflexivity]. simpl. destruct (f e) as [[s' e']|]; [|reflexivity].
  simpl. destruct s, s'; reflexivity.
Qed.

Lemma bind_neg_r r f : bind_term r (fun e => neg_res (f e)) = neg_res (bind_term r f).
Proof.
  destruct r as [[s e]|]; [|reflexivity]. simpl. destruct (f e) as [[s' e']|]; [|reflexivity].
  simpl. destruct s, s'; reflexivity.
Qed.

Lemma bind_ext r f g : (forall e, f e = g e) -> bind_term r f = bind_term r g.
Proof. intro H. destruct r as [[s e]|]; [|reflexivity]. simpl. rewrite H. reflexivity. Qed.

Lemma apply_ladder_gen (p : N) (cr : bool) d :
  apply_ladder (p, cr) d
  = if Bool.eqb (occ d p) cr then None else Some (parity_below d p, N.lxor d (N.shiftl 1 p)).
Proof. reflexivity. Qed.

Lemma ladder_anticommute (l1 l2 : ladder) d :
  fst l1 <> fst l2 -> apply_term [l1; l2] d = neg_res (apply_term [l2; l1] d).
Proof.
  destruct l1 as [p a], l2 as [q b]. cbn [fst]. intro Hpq.
  rewrite (apply_term_cons (p, a) [(q, b)]), (apply_term_cons (q, b) [(p, a)]), !apply_term_single, !apply_ladder_gen.
  unfold bind_term.
  destruct (Bool.eqb (occ d q) b) eqn:Eq, (Bool.eqb (occ d p) a) eqn:Ep;
    rewrite ?apply_ladder_gen, ?(occ_flip_other d q p), ?(occ_flip_other d p q), ?Eq, ?Ep by congruence;
    try reflexivity.
  cbn [neg_res]. rewrite (flip_comm d q p). f_equal. f_equal.
  rewrite !parity_below_flip.
  destruct (N.ltb_spec q p), (N.ltb_spec p q); try lia;
    destruct (parity_below d p), (parity_below d q); reflexivity.
Qed.

Lemma swap_in_context (pre post : fterm) (l1 l2 : ladder) d :
  fst l1 <> fst l2 ->
  apply_term (pre ++ l1 :: l2 :: post) d = neg_res (apply_term (pre ++ l2 :: l1 :: post) d).
Proof.
  intro H.
  change (l1 :: l2 :: post) with ([l1; l2] ++ post). change (l2 :: l1 :: post) with ([l2; l1] ++ post).
  rewrite !apply_term_app.
  rewrite (bind_ext (apply_term post d) (apply_term [l1; l2]) (fun e => neg_res (apply_term [l2; l1] e))).
  - rewrite bind_neg_r, bind_neg_l. reflexivity.
  - intro e. apply ladder_anticommute. exact H.
Qed.

(* two pairs on disjoint orbitals commute *)
Lemma swap_pairs (a b c e : ladder) d :
  fst a <> fst c -> fst a <> fst e -> fst b <> fst c -> fst b <> fst e ->
  apply_term [a; b; c; e] d = apply_term [c; e; a; b] d.
Proof.
  intros Hac Hae Hbc Hbe.
  change (apply_term [a; b; c; e] d) with (apply_term ([a] ++ b :: c :: [e]) d).
  rewrite (swap_in_context [a] [e] b c d Hbc).
  change ([a] ++ c :: b :: [e]) with ([] ++ a :: c :: [b; e]).
  rewrite (swap_in_context [] [b; e] a c d Hac). rewrite neg_res_invol.
  change ([] ++ c :: a :: [b; e]) with ([c; a] ++ b :: e :: []).
  rewrite (swap_in_context [c; a] [] b e d Hbe).
  change ([c; a] ++ e :: b :: []) with ([c] ++ a :: e :: [b]).
  rewrite (swap_in_context [c] [b] a e d Hae). rewrite neg_res_invol. reflexivity.
Qed.

(* a+_p a_q a+_q a_p = n_p (1 - n_q) *)
Lemma diag_raise_lower p q :
  p <> q -> diag_term (hop p q ++ hop q p) (fun d => occ d p && negb (occ d q)).
Proof.
  intros Hpq d.
  change (hop p q ++ hop q p) with ((p, true) :: ([(q, false); (q, true)] ++ [(p, false)])).
  rewrite apply_term_cons, apply_term_app, apply_term_single, apply_ladder_ann. unfold bind_term.
  destruct (occ d p) eqn:Ep; [|reflexivity]. cbn [andb].
  rewrite apply_hterm, (occ_flip_other d p q Hpq).
  destruct (occ d q) eqn:Eq; [reflexivity|]. cbn [negb].
  rewrite apply_ladder_cr, occ_flip_same, Ep. cbn [negb].
  rewrite parity_below_flip_ge by lia. rewrite flip_flip, xorb_false_r, xorb_nilpotent. reflexivity.
Qed.

(* ---------- orbital indices ---------- *)
Lemma upo_dno_neq ud n i j : i < n -> upo ud n i <> dno ud n j.
Proof. unfold upo, dno, up_of, dn_of. destruct ud; lia. Qed.

Section Spin2.
  Variable S : KS.
  Add Ring kring4 : (k_ring S).
  Open Scope K_scope.

  (* unit matrix element of a term *)
  Definition U (d' d : N) (t : fterm) : K S := telem S t 1 d' d.

  Lemma telem_lin t c d' d : telem S t c d' d = c * U d' d t.
  Proof.
    unfold U, telem. destruct (apply_term t d) as [[s e]|]; [|ring].
    destruct (N.eqb e d'); [|ring]. destruct s; ring.
  Qed.

  Lemma fop_mul_elem (a b : fop S) d' d :
    fop_elem S (fop_mul S a b) d' d
    = sumK S a (fun s => sumK S b (fun t => (snd s * snd t) * U d' d (fst s ++ fst t))).
  Proof.
    unfold fop_mul. rewrite fop_elem_flat_map. apply sumK_ext. intros s _.
    rewrite fop_elem_sum, sumK_map. apply sumK_ext. intros t _. cbn [fst snd]. apply telem_lin.
  Qed.

  Lemma U_diag t g d' d : diag_term t g -> U d' d t = if g d && N.eqb d d' then 1 else 0.
  Proof. intro H. unfold U. apply telem_diag. exact H. Qed.

  (* the kernel: S+_i S-_j versus S-_j S+_i *)
  Lemma raise_lower_swap ud n i j d' d :
    i < n -> j < n ->
    U d' d (hop (upo ud n i) (dno ud n i) ++ hop (dno ud n j) (upo ud n j))
    = U d' d (hop (dno ud n j) (upo ud n j) ++ hop (upo ud n i) (dno ud n i))
      + (if Nat.eqb i j then U d' d (nterm (upo ud n i)) - U d' d (nterm (dno ud n i)) else 0).
  Proof.
    intros Hi Hj. destruct (Nat.eqb_spec i j) as [E|E].
    - subst j.
      pose proof (upo_dno_neq ud n i i Hi) as Hne.
      rewrite (U_diag _ _ d' d (diag_raise_lower _ _ Hne)).
      rewrite (U_diag _ _ d' d (diag_raise_lower _ _ (not_eq_sym Hne))).
      rewrite !(U_diag _ _ d' d (diag_nterm _)).
      destruct (occ d (upo ud n i)), (occ d (dno ud n i)), (N.eqb d d'); cbn [andb negb]; ring.
    - unfold U, telem, hop. cbn [app]. rewrite swap_pairs; cbn [fst].
      + destruct (apply_term _ d) as [[s e]|]; [destruct (N.eqb e d'); [destruct s|]|]; ring.
      + apply upo_dno_neq. exact Hi.
      + intro H. apply upo_inj in H. contradiction.
      + intro H. apply dno_inj in H. contradiction.
      + apply not_eq_sym, upo_dno_neq. exact Hj.
  Qed.

  Lemma kadd_0_r (x : K S) : x + 0 = x.
  Proof. ring. Qed.

  Lemma sumK_delta (l : list nat) (i : nat) (c : K S) :
    NoDup l -> In i l -> sumK S l (fun j => if Nat.eqb i j then c else 0) = c.
  Proof.
    intros Hnd Hin.
    rewrite <- (sumK_pick S l i (fun j => if Nat.eqb i j then c else 0) Hnd Hin).
    rewrite Nat.eqb_refl.
    rewrite (sumK_ext S l _ (fun _ => 0)); [rewrite sumK_zero; ring|].
    intros j _. destruct (Nat.eqb i j); reflexivity.
  Qed.

  Theorem spin2_identity (n : nat) (ud : bool) (d' d : N) :
    fop_elem S (spin2_op S n ud) d' d = fop_elem S (spin2_ref S n ud) d' d.
  Proof.
    set (L := seq 0 n).
    assert (HL : forall i, In i L -> i < n) by (intros i Hi; apply in_seq in Hi; lia).
    assert (Hnd : NoDup L) by apply seq_NoDup.
    set (ui := upo ud n). set (di := dno ud n).
    (* the three kinds of unit elements *)
    set (Zf := fun i j : nat =>
                 quarter S * U d' d (nterm (ui i) ++ nterm (ui j))
                 + quarter S * U d' d (nterm (di i) ++ nterm (di j))
                 + - quarter S * U d' d (nterm (ui i) ++ nterm (di j))
                 + - quarter S * U d' d (nterm (di i) ++ nterm (ui j))).
    set (Pf := fun i j : nat => U d' d (hop (ui i) (di i) ++ hop (di j) (ui j))).
    set (Mf := fun i j : nat => U d' d (hop (di i) (ui i) ++ hop (ui j) (di j))).
    set (Df := fun i : nat => U d' d (nterm (ui i)) - U d' d (nterm (di i))).
    (* left-hand side *)
    assert (Hblock : forall i j, fop_elem S (spin2_block S ud n i j) d' d
                                 = Zf i j + (khalf * Pf i j + khalf * Mf i j)).
    { intros i j. rewrite fop_elem_sum. unfold spin2_block. cbn [sumK fold_right fst snd].
      rewrite !telem_lin. unfold Zf, Pf, Mf, ui, di. ring. }
    assert (HLHS : fop_elem S (spin2_op S n ud) d' d
                   = sumK S L (fun i => sumK S L (fun j => Zf i j + (khalf * Pf i j + khalf * Mf i j)))).
    { unfold spin2_op. fold L. rewrite fop_elem_flat_map. apply sumK_ext. intros i Hi.
      rewrite fop_elem_app, fop_elem_flat_map.
      rewrite <- (sumK_pick S L i (fun j => Zf i j + (khalf * Pf i j + khalf * Mf i j)) Hnd Hi).
      rewrite Hblock. rewrite (Radd_comm (k_ring S)). f_equal.
      apply sumK_ext. intros j _. destruct (Nat.eqb i j).
      - rewrite fop_elem_sum. reflexivity.
      - apply Hblock. }
    (* right-hand side *)
    assert (HSz : fop_elem S (spinz_op S n ud) d' d = khalf * sumK S L Df).
    { unfold spinz_op. fold L. rewrite fop_elem_flat_map, <- sumK_scale. apply sumK_ext. intros i _.
      rewrite fop_elem_sum. unfold spinz_block. cbn [sumK fold_right fst snd].
      rewrite !telem_lin. unfold Df, ui, di. ring. }
    assert (HSzSz : fop_elem S (fop_mul S (spinz_op S n ud) (spinz_op S n ud)) d' d
                    = sumK S L (fun i => sumK S L (fun j => Zf i j))).
    { rewrite fop_mul_elem. unfold spinz_op. fold L. rewrite sumK_flat_map. apply sumK_ext. intros i _.
      unfold spinz_block at 1. cbn [sumK fold_right fst snd].
      rewrite !sumK_flat_map.
      rewrite kadd_0_r, <- sumK_add. apply sumK_ext. intros j _.
      unfold spinz_block. cbn [sumK fold_right fst snd]. unfold Zf, ui, di, quarter. ring. }
    assert (HMP : fop_elem S (fop_mul S (sminus_op S n ud) (splus_op S n ud)) d' d
                  = sumK S L (fun i => sumK S L (fun j => Mf i j))).
    { rewrite fop_mul_elem. unfold sminus_op, splus_op. fold L. rewrite sumK_map. apply sumK_ext. intros i _.
      rewrite sumK_map. apply sumK_ext. intros j _. cbn [fst snd]. unfold Mf, ui, di. ring. }
    (* the commutator [S+, S-] = 2 Sz, summed *)
    assert (HPM : sumK S L (fun i => sumK S L (fun j => Pf i j))
                  = sumK S L (fun i => sumK S L (fun j => Mf i j)) + sumK S L Df).
    { rewrite (sumK_swap S L L Mf). rewrite <- sumK_add. apply sumK_ext. intros i Hi.
      rewrite <- (sumK_delta L i (Df i) Hnd Hi). rewrite <- sumK_add. apply sumK_ext. intros j Hj.
      unfold Pf, Mf, Df, ui, di. apply raise_lower_swap; [apply HL, Hi | apply HL, Hj]. }
    rewrite HLHS. unfold spin2_ref, fop_add. rewrite !fop_elem_app, HMP, HSzSz, HSz.
    (* split the sums on the left *)
    rewrite (sumK_ext S L _ (fun i => sumK S L (fun j => Zf i j)
                                      + (khalf * sumK S L (fun j => Pf i j) + khalf * sumK S L (fun j => Mf i j)))).
    2:{ intros i _. rewrite sumK_add, sumK_add, !sumK_scale. reflexivity. }
    rewrite sumK_add, sumK_add, !sumK_scale, HPM.
    set (ZZ := sumK S L (fun i => sumK S L (fun j => Zf i j))).
    set (MM := sumK S L (fun i => sumK S L (fun j => Mf i j))).
    set (DD := sumK S L Df).
    transitivity (ZZ + ((khalf + khalf) * MM + khalf * DD)); [ring|].
    rewrite k_half. ring.
  Qed.

  (* ---------- determinants annihilated by S+ are S^2 eigenvectors with eigenvalue m (m + 1) ---------- *)
  Lemma apply_hop_none p q d :
    p <> q -> occ d q && negb (occ d p) = false -> apply_term (hop p q) d = None.
  Proof.
    intros Hpq H. unfold hop. rewrite apply_term_cons, apply_term_single, apply_ladder_ann. unfold bind_term.
    destruct (occ d q) eqn:Eq; [|reflexivity]. cbn [andb] in H.
    rewrite apply_ladder_cr, (occ_flip_other d q p (not_eq_sym Hpq)).
    destruct (occ d p); [reflexivity | discriminate].
  Qed.

  Theorem spin2_on_highest_weight_det (n : nat) (ud : bool) (d' d : N) :
    highest_weight_det ud n d = true ->
    fop_elem S (spin2_op S n ud) d' d
    = if N.eqb d' d then spinz_val S ud n d * spinz_val S ud n d + spinz_val S ud n d else 0.
  Proof.
    intro Hw. rewrite spin2_identity. unfold spin2_ref, fop_add. rewrite !fop_elem_app.
    rewrite (fop_mul_diag_left S _ _ d' d (diag_spinz S n ud)), !spinz_eigen, N.eqb_refl.
    assert (H0 : fop_elem S (fop_mul S (sminus_op S n ud) (splus_op S n ud)) d' d = 0).
    { rewrite fop_mul_elem. rewrite <- (sumK_zero S (sminus_op S n ud)). apply sumK_ext. intros s _.
      unfold splus_op. rewrite sumK_map. rewrite <- (sumK_zero S (seq 0 n)). apply sumK_ext. intros j Hj.
      cbn [fst snd]. unfold U, telem. rewrite apply_term_app.
      rewrite apply_hop_none; [cbn [bind_term]; ring | |].
      - apply in_seq in Hj. apply upo_dno_neq. lia.
      - unfold highest_weight_det in Hw. rewrite forallb_forall in Hw. specialize (Hw j Hj).
        apply negb_true_iff in Hw. exact Hw. }
    rewrite H0. destruct (N.eqb_spec d' d) as [E|E]; [subst d'|]; ring.
  Qed.
End Spin2.
