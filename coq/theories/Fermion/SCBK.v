(* SCBK.v — tangelo/toolboxes/qubit_mappings/symmetry_conserving_bravyi_kitaev.py.  Definitions only.
   check_operator, the parity factors (Python floor division and modulo on possibly negative
   integers: Coq's Z.div / Z.modulo with a positive divisor are exactly Python's // and %),
   edit_operator_for_spin, prune_unused_indices and the whole pipeline on top of the BK-tree model. *)
From Coq Require Import NArith ZArith List Bool.
From Tangelo Require Import Num.KStruct Pauli.Word Fermion.Fock Fermion.CAR Fermion.BK Linq.GateModel.
Import ListNotations.

(* n_alpha = n_electrons//2 + spin//2 + (n_electrons % 2) *)
Definition scbk_n_alpha (ne spin : Z) : Z := (ne / 2 + spin / 2 + ne mod 2)%Z.
(* (-1)**k as "negate?" *)
Definition parity_neg (k : Z) : bool := Z.odd k.

(* check_operator on one term: number_change = sum (2a-1) must be even and
   spin_change = sum (2a-1) * (-2*s + 1) * 0.5  must be an even integer, i.e. twice it = 0 mod 4;
   s = index // num_orbitals (up_then_down) or index % 2 (alternating). *)
Definition act_sign (cr : bool) : Z := if cr then 1%Z else (-1)%Z.
Definition spin_bit (utd : bool) (num_orbitals : N) (index : N) : Z :=
  if utd then Z.of_N (index / num_orbitals) else Z.of_N (index mod 2).
Definition check_term (utd : bool) (num_orbitals : N) (t : fterm) : bool :=
  let number_change := fold_left (fun acc l => (acc + act_sign (snd l))%Z) t 0%Z in
  let spin_change2 := fold_left (fun acc l => (acc + act_sign (snd l) * (-2 * spin_bit utd num_orbitals (fst l) + 1))%Z) t 0%Z in
  Z.even number_change && Z.eqb (spin_change2 mod 4) 0.

(* qubits removed: N/2 - 1 and N - 1 *)
Definition scbk_pruned (n : N) : list N := [(n / 2 - 1)%N; (n - 1)%N].

Section SCBK.
  Variable S : KS.
  Open Scope K_scope.

  (* edit_operator_for_spin(op, spin_orbital = q+1, parity): a Z on qubit q is replaced by its eigenvalue *)
  Definition has_Z (q : N) (w : word) : bool := existsb (fun f => N.eqb (fst f) q && pauli_eqb (snd f) PZ) w.
  Definition edit_term (q : N) (neg : bool) (t : word * K S) : word * K S :=
    if has_Z q (fst t)
    then (filter (fun f => negb (N.eqb (fst f) q && pauli_eqb (snd f) PZ)) (fst t), ksign S neg (snd t))
    else t.
  Definition edit_for_spin (q : N) (neg : bool) (a : op S) : op S := map (edit_term q neg) a.

  (* prune_unused_indices: old index -> position among the kept indices; a pruned index in a term is a KeyError *)
  Definition prune_index (pr : list N) (q : N) : res N :=
    if mem_N q pr then Err KeyError
    else Ok (q - N.of_nat (length (filter (fun x => N.ltb x q) (nodup_N pr))))%N.
  Definition prune_word (pr : list N) (w : word) : res word :=
    mapM (fun f => bind (prune_index pr (fst f)) (fun q => Ok (q, snd f))) w.
  Definition prune_op (pr : list N) (a : op S) : res (op S) :=
    mapM (fun t => bind (prune_word pr (fst t)) (fun w => Ok (w, snd t))) a.

  (* symmetry_conserving_bravyi_kitaev(fermion_operator, n, n_electrons, up_then_down, spin), n even, n >= 2.
     [kzero] is the zero test used by compress() before the Z-substitution (a term whose coefficient
     cancelled is dropped there; it could otherwise carry X/Y on a pruned qubit). *)
  Definition scbk (kzero : K S -> bool) (n : N) (ne spin : Z) (utd : bool) (a : fop S) : res (op S) :=
    if N.ltb n (fop_modes S a) then Err ValueError
    else if negb (forallb (fun tc => check_term utd (n / 2) (fst tc)) a) then Err ValueError
    else
      let a' := if utd then a else reorder_fop S (utd_index n) a in
      let q0 := collapse S kzero (bkt_fop S n a') in
      let q1 := edit_for_spin (n - 1) (parity_neg ne) q0 in
      let q2 := edit_for_spin (n / 2 - 1) (parity_neg (scbk_n_alpha ne spin)) q1 in
      prune_op (scbk_pruned n) (collapse S kzero q2).
End SCBK.
