(* RefStateShow.v — printers and batch evaluators of the reference-state models for the correspondence
   harness of C05 (harness/props/C05.py).  One string per batch; cases separated by "|".
     vector  = 0/1 characters, position k = qubit k;   circuit = <n_qubits>:<X targets, comma separated>
     result  = "Ok <vector>;<circuit>"  or  "Err:<exception class>" *)
From Coq Require Import String NArith ZArith List Bool.
From Tangelo Require Import Num.Show Pauli.Word Fermion.CAR Fermion.JKMN Fermion.Mapping Fermion.RefState
     Linq.GateModel.
Import ListNotations.
Open Scope string_scope.

Definition show_vec (v : vec) : string :=
  fold_right (fun (b : bool) s => (if b then "1" else "0") ++ s) "" v.
Definition show_rerr (e : rerr) : string :=
  match e with RValueError => "ValueError" | RIndexError => "IndexError" | RKeyError => "KeyError"
          | ROverflowError => "OverflowError" | ROtherError => "OtherError" end.
Definition show_circ (c : nat * list N) : string := show_nat (fst c) ++ ":" ++ join "," (map show_N (snd c)).
Definition show_rvec (r : rres vec) : string :=
  match r with
  | ROk v => "Ok " ++ show_vec v ++ ";" ++ show_circ (vector_to_circuit v)
  | RErr e => "Err:" ++ show_rerr e
  end.

(* all 0/1 vectors of length n; the i-th one has entry k = bit k of i *)
Fixpoint all_vecs (n : nat) : list vec :=
  match n with
  | O => [[]]
  | Datatypes.S k => flat_map (fun r => [false :: r; true :: r]) (all_vecs k)
  end.

(* get_mapped_vector on every vector of length n (the JKMN dictionary is computed once) *)
Definition mapped_batch (T : jkmn_tab) (m : mapping) (utd : bool) (n : nat) : string :=
  let rm := jkmn_majs T (N.of_nat n) in
  join "|" (map (fun v => show_rvec (gmv_with rm m utd v)) (all_vecs n)).
(* get_mapped_vector on listed vectors of any lengths *)
Definition mapped_list (T : jkmn_tab) (m : mapping) (utd : bool) (vs : list vec) : string :=
  join "|" (map (fun v => show_rvec (get_mapped_vector T m utd v)) vs).
(* get_vector / get_reference_circuit for one (n, mapping, ordering) and listed (n_electrons, spin) *)
Definition gv_batch (T : jkmn_tab) (m : option mapping) (utd : bool) (n : Z) (cases : list (Z * option Z)) : string :=
  let rm := jkmn_majs T (Z.to_N n) in
  join "|" (map (fun c => show_rvec (match m with
                                     | None => RErr RValueError
                                     | Some m' => rbind (hf_filling n (fst c) (snd c)) (gmv_with rm m' utd)
                                     end)) cases).
(* the same through get_vector itself (used on a sub-sample: the two must agree) *)
Definition gv_direct (T : jkmn_tab) (m : option mapping) (utd : bool) (n : Z) (cases : list (Z * option Z)) : string :=
  join "|" (map (fun c => show_rvec (get_vector T n (fst c) m utd (snd c))) cases).
