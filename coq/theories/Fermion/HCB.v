(* HCB.v — tangelo/toolboxes/qubit_mappings/hcb.py: boson_to_qubit_mapping (b = (X + iY)/2, no Z string)
   and the paired-electron coefficients of hard_core_boson_operator.  Definitions only. *)
From Coq Require Import NArith ZArith List Bool.
From Tangelo Require Import Num.KStruct Pauli.Word Fermion.Fock Fermion.CAR.
Import ListNotations.

Section HCB.
  Variable S : KS.
  Open Scope K_scope.
  (* b(p, dagger): X_p/2 + (-1 if dagger else 1) * 0.5j * Y_p *)
  Definition hcb_ladder (l : ladder) : op S :=
    ladder_of_maj S (false, [(fst l, PX)]) (false, [(fst l, PY)]) (snd l).
  (* boson_to_qubit_mapping on a list of (term, coefficient); the empty term is the constant *)
  Definition boson_to_qubit (a : fop S) : op S := enc_fop S hcb_ladder a.

  (* coefficient of a term in a fermionic operator (FermionOperator.terms[t], duplicates merged) *)
  Definition ladder_eqb (a b : ladder) : bool := N.eqb (fst a) (fst b) && Bool.eqb (snd a) (snd b).
  Fixpoint fterm_eqb (a b : fterm) : bool :=
    match a, b with
    | [], [] => true
    | x :: a', y :: b' => ladder_eqb x y && fterm_eqb a' b'
    | _, _ => false
    end.
  Definition fcoef (a : fop S) (t : fterm) : K S :=
    fold_right (fun tc acc => if fterm_eqb (fst tc) t then snd tc + acc else acc) 0 a.

  (* hard_core_boson_operator: get_coeffs(spatial=True) reads  h[i,j] = coeff of (2i)^ (2j)  and
     g[p,q,r,s] = coeff of (2p)^ (2q+1)^ (2r+1) (2s), doubled (e_tei *= 2); n_mos = count_qubits // 2 *)
  Definition hcb_boson (a : fop S) : fop S :=
    let nm := N.to_nat (fop_modes S a / 2) in
    let two := (1 + 1 : K S) in
    let sei := fun i j : N => fcoef a [(2 * i, true); (2 * j, false)]%N in
    let tei := fun p q r s : N => two * fcoef a [(2 * p, true); (2 * q + 1, true); (2 * r + 1, false); (2 * s, false)]%N in
    let idx := map N.of_nat (seq 0 nm) in
    ([], fcoef a []) ::
    flat_map (fun i => flat_map (fun j =>
        if N.eqb i j
        then [([(i, true); (i, false)], two * sei i i + tei i i i i)]
        else [([(i, true); (j, false)], tei i i j j);
              ([(i, true); (i, false); (j, true); (j, false)], two * tei i j j i - tei i j i j)]) idx) idx.

  (* fermion_to_qubit_mapping(op, "HCB") *)
  Definition hcb_fop (a : fop S) : op S := boson_to_qubit (hcb_boson a).
End HCB.
