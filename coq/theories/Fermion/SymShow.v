(* SymShow.v — canonical strings of C12 model values for the correspondence harness (definitions only).
     term list      "0^ 0 2^ 2:<1/4>|..."     (p^ = creation on p, p = annihilation; coefficient via show_Cy)
     matrix columns "d>e=<c>,e=<c>;d>..."     (column d of the Fock matrix: <e|A|d> = c, e ascending)      *)
From Coq Require Import String NArith ZArith QArith Qcanon List Bool.
From Tangelo Require Import Num.KStruct Num.Cyc Num.Show Fermion.Fock Fermion.Symmetry Fermion.Conserve Fermion.Penalty.
Import ListNotations.
Open Scope string_scope.

Definition show_ladder (l : ladder) : string := show_N (fst l) ++ (if snd l then "^" else "").
Definition show_fterm (t : fterm) : string := join " " (map show_ladder t).
Definition show_fop (a : fop CycS) : string :=
  join "|" (map (fun tc => show_fterm (fst tc) ++ ":" ++ show_Cy (snd tc)) a).

Definition show_col (d : N) (c : list (N * Cy)) : string :=
  show_N d ++ ">" ++ join "," (map (fun ec => show_N (fst ec) ++ "=" ++ show_Cy (snd ec)) c).
Definition show_cols (a : fop CycS) (dets : list N) : string :=
  join ";" (map (fun d => show_col d (fop_col CycS a d)) dets).
Definition dets_range (lo len : nat) : list N := map N.of_nat (seq lo len).

Definition cq (num : Z) (den : positive) : Cy := cy_of_Qc (Q2Qc (num # den)).
Definition qq (num : Z) (den : positive) : Qc := Q2Qc (num # den).

Definition show_checker (ud : bool) (n : nat) (g : list fterm) : string :=
  show_bool (conserves_sectors ud n g) ++ show_bool (forallb (term_conserves_number ud n) g).
