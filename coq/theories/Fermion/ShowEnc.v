(* ShowEnc.v — the encoding models evaluated in the exact instance CycS (coefficients in Q(i), the
   level L1 of the tower) and printed as canonical strings for the correspondence harness of C03:
     word  = X0.Z3.Y7 (identity: I);  coefficient = re,im (canonical rationals);
     operator = terms sorted by word_ltb, merged, zero terms dropped:  w:re,im;w:re,im;...  *)
From Coq Require Import String NArith ZArith QArith Qcanon List Bool.
From Tangelo Require Import Num.KStruct Num.Cyc Num.Show Pauli.Word Fermion.Fock Fermion.CAR Fermion.JW
     Fermion.BK Fermion.SCBK Fermion.JKMN Fermion.Mapping Fermion.HCB Linq.GateModel.
Import ListNotations.
Open Scope string_scope.

Definition cy_zero (c : Cy) : bool := ceqb L4 c (c0 L4).
(* a + b i  lives at positions 0 and 8 of the flat zeta_32 coordinates *)
Definition show_gauss (c : Cy) : string :=
  let f := cy_flat c in
  let re := nth 0 f 0%Qc in
  let im := nth 8 f 0%Qc in
  let rest := (firstn 7 (skipn 1 f) ++ skipn 9 f)%list in
  if forallb (fun q => Qc_eqb q 0%Qc) rest then show_Qc re ++ "," ++ show_Qc im else "NOT-GAUSSIAN".

Definition show_pauli (p : pauli) : string := match p with PX => "X" | PY => "Y" | PZ => "Z" end.
Definition show_word (w : word) : string :=
  match w with [] => "I" | _ => join "." (map (fun f => show_pauli (snd f) ++ show_N (fst f)) w) end.
Definition show_op (a : op CycS) : string :=
  join ";" (map (fun t => show_word (fst t) ++ ":" ++ show_gauss (snd t)) (collapse CycS cy_zero a)).
Definition show_err (e : err) : string :=
  match e with ValueError => "ValueError" | TypeError => "TypeError" | AttributeError => "AttributeError"
          | IndexError => "IndexError" | KeyError => "KeyError" end.
Definition show_res_op (r : res (op CycS)) : string :=
  match r with Ok a => "Ok " ++ show_op a | Err e => "Err:" ++ show_err e end.
Definition show_maj (m : maj) : string := (if fst m then "-" else "+") ++ show_word (snd m).

(* harness input: a fermionic operator as list of (term, (re, im, m)) meaning (re + i im)/2^m *)
Definition mk_fop (l : list (list (N * bool) * (Z * Z * nat))) : fop CycS :=
  map (fun tc => (fst tc, let '(re, im, m) := snd tc in k_dyadic CycS re im m)) l.

Definition run_f2q (T : jkmn_tab) (m : mapping) (n : N) (ne spin : Z) (utd : bool)
           (l : list (list (N * bool) * (Z * Z * nat))) : string :=
  show_res_op (f2q CycS T cy_zero m n ne spin utd (mk_fop l)).
(* many operators with the same configuration in one evaluation *)
Definition run_f2q_batch T m n ne spin utd (ls : list (list (list (N * bool) * (Z * Z * nat)))) : string :=
  join "|" (map (run_f2q T m n ne spin utd) ls).

(* fermion_to_qubit_mapping(op, "HCB") *)
Definition run_hcb (T : hcb_tab) (l : list (list (N * bool) * (Z * Z * nat))) : string := show_op (hcb_fop CycS T (mk_fop l)).
