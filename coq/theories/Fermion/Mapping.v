(* Mapping.v — tangelo/toolboxes/qubit_mappings/mapping_transform.py: fermion_to_qubit_mapping
   (dispatch, make_up_then_down) on top of the encoding models.  Definitions only. *)
From Coq Require Import NArith ZArith List Bool.
From Tangelo Require Import Num.KStruct Pauli.Word Fermion.Fock Fermion.CAR Fermion.JW Fermion.BK
     Fermion.SCBK Fermion.JKMN Linq.GateModel.
Import ListNotations.

Inductive mapping : Type := MJW | MBK | MSCBK | MJKMN.

Section Mapping.
  Variable S : KS.
  Variable T : jkmn_tab.
  Variable kzero : K S -> bool.

  (* make_up_then_down(fermion_operator, n_spinorbitals): odd n and too many modes are ValueErrors.
     (An operator without any ladder factor used to hit max() of an empty list — recorded finding
     C03/make_up_then_down/constant-operator, repaired in /repo with max(..., default=-1); the model follows
     the repaired code: term_modes = 0 for such an operator.) *)
  Definition make_up_then_down (n : N) (a : fop S) : res (fop S) :=
    if N.odd n then Err ValueError
    else if N.ltb n (fop_modes S a) then Err ValueError
    else Ok (reorder_fop S (utd_index n) a).

  Definition f2q (m : mapping) (n : N) (ne spin : Z) (utd : bool) (a : fop S) : res (op S) :=
    bind (if utd then make_up_then_down n a else Ok a) (fun a' =>
      match m with
      | MJW => Ok (jw_fop S a')
      | MBK => if N.ltb n (fop_modes S a') then Err ValueError else Ok (bk_fop S n a')
      | MSCBK => scbk S kzero n ne spin utd a'
      | MJKMN => jkmn_fop S T n a'
      end).
End Mapping.
