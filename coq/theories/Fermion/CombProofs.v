(* CombProofs.v — the base case of combinatorial.recursive_mapping denotes its 2x2 input matrix. *)
From Coq Require Import NArith ZArith List Bool Ring.
From Tangelo Require Import Num.KStruct Pauli.Word Fermion.Fock Fermion.CAR Fermion.Comb.
Import ListNotations.

Section CombProofs.
  Variable S : KS.
  Add Ring kring3 : (k_ring S).
  Open Scope K_scope.

  Lemma half_sum : forall x y : K S, khalf * (x + y) + khalf * (x - y) = x.
  Proof. intros. transitivity ((khalf + khalf) * x : K S); [ring|]. rewrite k_half. ring. Qed.
  Lemma half_diff : forall x y : K S, khalf * (x + y) - khalf * (x - y) = y.
  Proof. intros. transitivity ((khalf + khalf) * y : K S); [ring|]. rewrite k_half. ring. Qed.

  Theorem comb_base_case_denotes : forall (m00 m01 m10 m11 : K S),
      let c := comb_base_coeffs S comb_base_std m00 m01 m10 m11 in
      pauli_sum_entry S c false false = m00 /\ pauli_sum_entry S c false true = m01 /\
      pauli_sum_entry S c true false = m10 /\ pauli_sum_entry S c true true = m11.
  Proof.
    intros. unfold c, comb_base_coeffs, comb_base_std, pauli_sum_entry. simpl.
    pose proof (@k_ii S) as Hii.
    repeat split.
    - rewrite <- (half_sum m00 m11) at 3. ring.
    - transitivity (khalf * (m01 + m10) + - (ki * ki) * (khalf * (m01 - m10))); [ring|].
      rewrite Hii. rewrite <- (half_sum m01 m10) at 3. ring.
    - transitivity (khalf * (m01 + m10) - - (ki * ki) * (khalf * (m01 - m10))); [ring|].
      rewrite Hii. rewrite <- (half_diff m01 m10) at 3. ring.
    - rewrite <- (half_diff m00 m11) at 3. ring.
  Qed.
End CombProofs.
