(* Fock.v — fermionic ladder operators on occupation-number determinants (definitions only; shared
   by C03, C04, C05, C12, C13).  A determinant is an N whose bit p is the occupation of spin-orbital p.
   a_p |D> = (-1)^{#occupied below p} |D - p>  if p occupied, 0 otherwise;  a_p^dagger dually
   (the convention of openfermion's Jordan-Wigner transform and of its sparse operators).
   A fermionic term is a product of ladder operators written left to right as in openfermion's keys
   ((p, 1) = creation, (p, 0) = annihilation); it acts on a determinant by applying the RIGHTMOST
   factor first.  A fermionic operator is a list of (term, coefficient). *)
From Coq Require Import NArith ZArith List Bool.
From Tangelo Require Import Num.KStruct.
Import ListNotations.

Definition ladder : Type := (N * bool)%type.          (* (orbital, true = creation) *)
Definition fterm : Type := list ladder.

Definition occ (d p : N) : bool := N.testbit d p.
(* number of occupied orbitals with index < p *)
Definition count_below (d p : N) : nat :=
  length (filter (fun q => N.testbit d (N.of_nat q)) (seq 0 (N.to_nat p))).
Definition parity_below (d p : N) : bool := Nat.odd (count_below d p).

(* one ladder operator: None = annihilates the determinant; Some (sign_is_minus, new determinant) *)
Definition apply_ladder (l : ladder) (d : N) : option (bool * N) :=
  let '(p, cr) := l in
  if Bool.eqb (occ d p) cr then None                   (* create on occupied / annihilate on empty *)
  else Some (parity_below d p, N.lxor d (N.shiftl 1 p)).

(* a term, rightmost factor first *)
Fixpoint apply_term_rev (t : list ladder) (s : bool) (d : N) : option (bool * N) :=
  match t with
  | [] => Some (s, d)
  | l :: r => match apply_ladder l d with
              | None => None
              | Some (s1, d1) => apply_term_rev r (xorb s s1) d1
              end
  end.
Definition apply_term (t : fterm) (d : N) : option (bool * N) := apply_term_rev (rev t) false d.

Definition term_adjoint (t : fterm) : fterm := map (fun l => (fst l, negb (snd l))) (rev t).

Section FOp.
  Variable S : KS.
  Open Scope K_scope.
  Definition fop : Type := list (fterm * K S).

  (* matrix element <d'| A |d> *)
  Definition fop_elem (a : fop) (d' d : N) : K S :=
    fold_left (fun acc tc =>
                 match apply_term (fst tc) d with
                 | Some (s, e) => if N.eqb e d' then (if s then acc - snd tc else acc + snd tc) else acc
                 | None => acc
                 end) a 0.

  Definition fop_scale (c : K S) (a : fop) : fop := map (fun t => (fst t, c * snd t)) a.
  Definition fop_add (a b : fop) : fop := a ++ b.
  Definition fop_mul (a b : fop) : fop :=
    flat_map (fun s => map (fun t => (fst s ++ fst t, snd s * snd t)) b) a.
  Definition fop_adj (a : fop) : fop := map (fun t => (term_adjoint (fst t), kconj (snd t))) a.
End FOp.
