(* SymmetryProofs.v — lemmas about Fock.apply_term / fop_elem and the eigenvalue theorems of the
   particle-number and spin-projection term lists (C12), for every number of orbitals, both
   orderings, every determinant. *)
From Coq Require Import NArith ZArith List Bool Lia Ring.
From Tangelo Require Import Num.KStruct Fermion.Fock Fermion.Symmetry.
Import ListNotations.

Arguments N.shiftl : simpl never.
Arguments N.lxor : simpl never.

(* ---------- bits ---------- *)
Lemma testbit_pow2' (p q : N) : N.testbit (N.shiftl 1 p) q = N.eqb p q.
Proof. rewrite N.shiftl_1_l. apply N.pow2_bits_eqb. Qed.

Lemma occ_flip (d p q : N) : occ (N.lxor d (N.shiftl 1 p)) q = xorb (occ d q) (N.eqb p q).
Proof. unfold occ. rewrite N.lxor_spec, testbit_pow2'. reflexivity. Qed.

Lemma occ_flip_same (d p : N) : occ (N.lxor d (N.shiftl 1 p)) p = negb (occ d p).
Proof. rewrite occ_flip, N.eqb_refl. destruct (occ d p); reflexivity. Qed.

Lemma occ_flip_other (d p q : N) : p <> q -> occ (N.lxor d (N.shiftl 1 p)) q = occ d q.
Proof.
  intro H. rewrite occ_flip. destruct (N.eqb_spec p q) as [E|E]; [contradiction|].
  apply xorb_false_r.
Qed.

Lemma flip_flip (d p : N) : N.lxor (N.lxor d (N.shiftl 1 p)) (N.shiftl 1 p) = d.
Proof. rewrite N.lxor_assoc, N.lxor_nilpotent, N.lxor_0_r. reflexivity. Qed.

Lemma flip_comm (d p q : N) :
  N.lxor (N.lxor d (N.shiftl 1 p)) (N.shiftl 1 q) = N.lxor (N.lxor d (N.shiftl 1 q)) (N.shiftl 1 p).
Proof. rewrite !N.lxor_assoc. f_equal. apply N.lxor_comm. Qed.

(* the number of occupied orbitals below p does not see a flip at or above p *)
Lemma count_below_flip_ge (d p q : N) :
  (p <= q)%N -> count_below (N.lxor d (N.shiftl 1 q)) p = count_below d p.
Proof.
  intro H. unfold count_below. f_equal. apply filter_ext_in. intros k Hk.
  apply in_seq in Hk. change (occ (N.lxor d (N.shiftl 1 q)) (N.of_nat k) = occ d (N.of_nat k)).
  apply occ_flip_other. lia.
Qed.

Lemma parity_below_flip_ge (d p q : N) :
  (p <= q)%N -> parity_below (N.lxor d (N.shiftl 1 q)) p = parity_below d p.
Proof. intro H. unfold parity_below. rewrite count_below_flip_ge by exact H. reflexivity. Qed.

(* ---------- composition of terms ---------- *)
Lemma apply_term_rev_app (a b : list ladder) s d :
  apply_term_rev (a ++ b) s d =
  match apply_term_rev a s d with None => None | Some (s1, d1) => apply_term_rev b s1 d1 end.
Proof.
  revert s d. induction a as [|l a IH]; intros s d; simpl.
  - reflexivity.
  - destruct (apply_ladder l d) as [[s1 d1]|]; [apply IH | reflexivity].
Qed.

Lemma apply_term_rev_sign (l : list ladder) s d :
  apply_term_rev l s d =
  match apply_term_rev l false d with None => None | Some (s', e) => Some (xorb s s', e) end.
Proof.
  revert s d; induction l as [|x l IH]; intros s d; cbn [apply_term_rev].
  - rewrite xorb_false_r. reflexivity.
  - destruct (apply_ladder x d) as [[s1 d1]|]; [|reflexivity].
    rewrite xorb_false_l. rewrite (IH (xorb s s1)), (IH s1).
    destruct (apply_term_rev l false d1) as [[s' e]|]; [|reflexivity].
    rewrite xorb_assoc. reflexivity.
Qed.

(* (s ++ t)|d> = s (t|d>) : the right factor acts first; signs multiply *)
Definition bind_term (r : option (bool * N)) (f : N -> option (bool * N)) : option (bool * N) :=
  match r with
  | None => None
  | Some (sg, e) => match f e with None => None | Some (sg', e') => Some (xorb sg sg', e') end
  end.

Lemma apply_term_app (s t : fterm) d :
  apply_term (s ++ t) d = bind_term (apply_term t d) (apply_term s).
Proof.
  unfold apply_term, bind_term. rewrite rev_app_distr, apply_term_rev_app.
  destruct (apply_term_rev (rev t) false d) as [[sg e]|]; [|reflexivity].
  apply apply_term_rev_sign.
Qed.

Lemma apply_term_nil d : apply_term [] d = Some (false, d).
Proof. reflexivity. Qed.

Lemma apply_term_single (l : ladder) d : apply_term [l] d = apply_ladder l d.
Proof.
  unfold apply_term. cbn [rev app apply_term_rev].
  destruct (apply_ladder l d) as [[s1 d1]|]; [rewrite xorb_false_l|]; reflexivity.
Qed.

Lemma apply_term_cons (l : ladder) (t : fterm) d :
  apply_term (l :: t) d = bind_term (apply_term t d) (apply_ladder l).
Proof.
  change (l :: t) with ([l] ++ t). rewrite apply_term_app.
  unfold bind_term. destruct (apply_term t d) as [[sg e]|]; [|reflexivity].
  rewrite apply_term_single. reflexivity.
Qed.

(* a+_p a_p and a_p a+_p are diagonal *)
Lemma apply_ladder_ann p d :
  apply_ladder (p, false) d
  = if occ d p then Some (parity_below d p, N.lxor d (N.shiftl 1 p)) else None.
Proof. unfold apply_ladder. destruct (occ d p); reflexivity. Qed.

Lemma apply_ladder_cr p d :
  apply_ladder (p, true) d
  = if occ d p then None else Some (parity_below d p, N.lxor d (N.shiftl 1 p)).
Proof. unfold apply_ladder. destruct (occ d p); reflexivity. Qed.

(* a+_p a_p and a_p a+_p are diagonal *)
Lemma apply_nterm p d : apply_term (nterm p) d = if occ d p then Some (false, d) else None.
Proof.
  unfold nterm. rewrite apply_term_cons, apply_term_single, apply_ladder_ann. unfold bind_term.
  destruct (occ d p) eqn:E; [|reflexivity].
  rewrite apply_ladder_cr, occ_flip_same, E. cbn [negb].
  rewrite parity_below_flip_ge by lia. rewrite xorb_nilpotent, flip_flip. reflexivity.
Qed.

Lemma apply_hterm p d :
  apply_term [(p, false); (p, true)] d = if occ d p then None else Some (false, d).
Proof.
  rewrite apply_term_cons, apply_term_single, apply_ladder_cr. unfold bind_term.
  destruct (occ d p) eqn:E; [reflexivity|].
  rewrite apply_ladder_ann, occ_flip_same, E. cbn [negb].
  rewrite parity_below_flip_ge by lia. rewrite xorb_nilpotent, flip_flip. reflexivity.
Qed.

Section Proofs.
  Variable S : KS.
  Add Ring kring : (k_ring S).
  Open Scope K_scope.
  Notation K := (K S).

  (* ---------- finite sums ---------- *)
  Definition sumK {X} (l : list X) (f : X -> K) : K := fold_right (fun x acc => f x + acc) 0 l.

  Lemma sumK_app {X} (a b : list X) f : sumK (a ++ b) f = sumK a f + sumK b f.
  Proof. induction a as [|x a IH]; simpl; [ring | rewrite IH; ring]. Qed.

  Lemma sumK_ext {X} (l : list X) f g : (forall x, In x l -> f x = g x) -> sumK l f = sumK l g.
  Proof.
    induction l as [|x l IH]; intro H; simpl; [reflexivity|].
    rewrite (H x (or_introl eq_refl)), IH; [reflexivity|]. intros y Hy. apply H. right. exact Hy.
  Qed.

  Lemma sumK_zero {X} (l : list X) : sumK l (fun _ => 0) = 0.
  Proof. induction l as [|x l IH]; simpl; [reflexivity | rewrite IH; ring]. Qed.

  Lemma sumK_add {X} (l : list X) f g : sumK l (fun x => f x + g x) = sumK l f + sumK l g.
  Proof. induction l as [|x l IH]; simpl; [ring | rewrite IH; ring]. Qed.

  Lemma sumK_scale {X} (l : list X) c f : sumK l (fun x => c * f x) = c * sumK l f.
  Proof. induction l as [|x l IH]; simpl; [ring | rewrite IH; ring]. Qed.

  Lemma sumK_map {X Y} (h : X -> Y) (l : list X) f : sumK (map h l) f = sumK l (fun x => f (h x)).
  Proof. induction l as [|x l IH]; simpl; [reflexivity | rewrite IH; reflexivity]. Qed.

  Lemma sumK_flat_map {X Y} (h : X -> list Y) (l : list X) f :
    sumK (flat_map h l) f = sumK l (fun x => sumK (h x) f).
  Proof. induction l as [|x l IH]; simpl; [reflexivity | rewrite sumK_app, IH; reflexivity]. Qed.

  Lemma sumK_swap {X Y} (a : list X) (b : list Y) (f : X -> Y -> K) :
    sumK a (fun x => sumK b (fun y => f x y)) = sumK b (fun y => sumK a (fun x => f x y)).
  Proof.
    induction a as [|x a IH]; simpl.
    - rewrite sumK_zero. reflexivity.
    - rewrite IH, <- sumK_add. reflexivity.
  Qed.

  (* picking one index out of a sum *)
  Lemma sumK_pick (l : list nat) (i : nat) (g : nat -> K) :
    NoDup l -> In i l ->
    sumK l (fun j => if Nat.eqb i j then 0 else g j) + g i = sumK l g.
  Proof.
    induction l as [|x l IH]; intros Hnd Hin; [destruct Hin|].
    inversion Hnd as [|? ? Hx Hnd']; subst. simpl.
    destruct (Nat.eqb_spec i x) as [E|E].
    - subst x. rewrite (sumK_ext l (fun j => if Nat.eqb i j then 0 else g j) g).
      + ring.
      + intros y Hy. destruct (Nat.eqb_spec i y) as [E'|E']; [subst; contradiction | reflexivity].
    - destruct Hin as [Hin|Hin]; [congruence|].
      rewrite <- (IH Hnd' Hin). ring.
  Qed.

  (* ---------- matrix elements as sums over terms ---------- *)
  Definition telem (t : fterm) (c : K) (d' d : N) : K :=
    match apply_term t d with
    | Some (s, e) => if N.eqb e d' then (if s then - c else c) else 0
    | None => 0
    end.

  Lemma fop_elem_fold (a : fop S) d' d acc :
    fold_left (fun acc tc =>
                 match apply_term (fst tc) d with
                 | Some (s, e) => if N.eqb e d' then (if s then acc - snd tc else acc + snd tc) else acc
                 | None => acc
                 end) a acc
    = acc + sumK a (fun tc => telem (fst tc) (snd tc) d' d).
  Proof.
    revert acc. induction a as [|[t c] a IH]; intro acc; simpl.
    - ring.
    - rewrite IH. unfold telem. simpl.
      destruct (apply_term t d) as [[s e]|]; [|ring].
      destruct (N.eqb e d'); [|ring]. destruct s; ring.
  Qed.

  Lemma fop_elem_sum (a : fop S) d' d :
    fop_elem S a d' d = sumK a (fun tc => telem (fst tc) (snd tc) d' d).
  Proof. unfold fop_elem. rewrite fop_elem_fold. ring. Qed.

  Lemma fop_elem_app (a b : fop S) d' d :
    fop_elem S (a ++ b) d' d = fop_elem S a d' d + fop_elem S b d' d.
  Proof. rewrite !fop_elem_sum. apply sumK_app. Qed.

  Lemma fop_elem_flat_map {X} (h : X -> fop S) (l : list X) d' d :
    fop_elem S (flat_map h l) d' d = sumK l (fun x => fop_elem S (h x) d' d).
  Proof.
    rewrite fop_elem_sum, sumK_flat_map. apply sumK_ext. intros x _. rewrite fop_elem_sum. reflexivity.
  Qed.

  Lemma telem_scale t c c' d' d : telem t (c * c') d' d = c * telem t c' d' d.
  Proof.
    unfold telem. destruct (apply_term t d) as [[s e]|]; [|ring].
    destruct (N.eqb e d'); [|ring]. destruct s; ring.
  Qed.

  Lemma fop_elem_scale c (a : fop S) d' d : fop_elem S (fop_scale S c a) d' d = c * fop_elem S a d' d.
  Proof.
    rewrite !fop_elem_sum. unfold fop_scale. rewrite sumK_map, <- sumK_scale.
    apply sumK_ext. intros [t c'] _. simpl. apply telem_scale.
  Qed.

  (* a diagonal term contributes its coefficient on the diagonal when its guard holds *)
  Definition diag_term (t : fterm) (guard : N -> bool) : Prop :=
    forall d, apply_term t d = if guard d then Some (false, d) else None.

  Lemma telem_diag t guard c d' d :
    diag_term t guard -> telem t c d' d = if guard d && N.eqb d d' then c else 0.
  Proof.
    intro H. unfold telem. rewrite H. destruct (guard d); simpl; reflexivity.
  Qed.

  Lemma diag_nterm p : diag_term (nterm p) (fun d => occ d p).
  Proof. intro d. apply apply_nterm. Qed.

  Lemma diag_app s t gs gt :
    diag_term s gs -> diag_term t gt -> diag_term (s ++ t) (fun d => gt d && gs d).
  Proof.
    intros Hs Ht d. rewrite apply_term_app, Ht. unfold bind_term.
    destruct (gt d); simpl; [|reflexivity]. rewrite Hs. destruct (gs d); reflexivity.
  Qed.

  (* ---------- counting ---------- *)
  Lemma knat_add a b : knat S (a + b) = knat S a + knat S b.
  Proof. induction a as [|a IH]; simpl; [ring | rewrite IH; ring]. Qed.

  Definition cnt (d : N) (f : nat -> N) (l : list nat) : nat := length (filter (fun i => occ d (f i)) l).

  Lemma sum_indicator (d : N) (f g : nat -> N) (c1 c2 : K) (l : list nat) :
    sumK l (fun i => (if occ d (f i) then c1 else 0) + ((if occ d (g i) then c2 else 0) + 0))
    = c1 * knat S (cnt d f l) + c2 * knat S (cnt d g l).
  Proof.
    unfold cnt. induction l as [|x l IH]; simpl; [ring|].
    rewrite IH. destruct (occ d (f x)), (occ d (g x)); simpl; ring.
  Qed.

  (* ---------- N and Sz: diagonal with the physical eigenvalues ---------- *)
  Lemma pair_block_elem (ud : bool) (n : nat) (c1 c2 : K) (l : list nat) d' d :
    fop_elem S (flat_map (fun i => [ (nterm (upo ud n i), c1); (nterm (dno ud n i), c2) ]) l) d' d
    = if N.eqb d' d then c1 * knat S (cnt d (upo ud n) l) + c2 * knat S (cnt d (dno ud n) l) else 0.
  Proof.
    rewrite fop_elem_flat_map.
    destruct (N.eqb_spec d' d) as [E|E].
    - subst d'. rewrite <- sum_indicator. apply sumK_ext. intros i _.
      rewrite fop_elem_sum. simpl.
      rewrite !(telem_diag _ _ _ _ _ (diag_nterm _)), N.eqb_refl, !andb_true_r. reflexivity.
    - rewrite <- (sumK_zero l). apply sumK_ext. intros i _.
      rewrite fop_elem_sum. simpl.
      rewrite !(telem_diag _ _ _ _ _ (diag_nterm _)).
      destruct (N.eqb_spec d d') as [E'|E']; [congruence|]. rewrite !andb_false_r. ring.
  Qed.

  Theorem number_eigen (n : nat) (ud : bool) (d' d : N) :
    fop_elem S (number_op S n ud) d' d = if N.eqb d' d then number_val S ud n d else 0.
  Proof.
    unfold number_op, number_block. rewrite pair_block_elem.
    destruct (N.eqb d' d); [|reflexivity].
    unfold number_val, n_alpha, n_beta, cnt. rewrite knat_add. ring.
  Qed.

  Theorem spinz_eigen (n : nat) (ud : bool) (d' d : N) :
    fop_elem S (spinz_op S n ud) d' d = if N.eqb d' d then spinz_val S ud n d else 0.
  Proof.
    unfold spinz_op, spinz_block. rewrite pair_block_elem.
    destruct (N.eqb d' d); [|reflexivity].
    unfold spinz_val, n_alpha, n_beta, cnt. ring.
  Qed.

  (* ---------- the interpreted standard table is the direct list ---------- *)
  Lemma tab_number_std n ud : tab_number S std_symtab n ud = number_op S n ud.
  Proof.
    unfold tab_number, tab_single, number_op. apply flat_map_ext. intro i.
    unfold number_block, pats_terms, pat_term, nterm, upo, dno, kpc. simpl. reflexivity.
  Qed.

  Lemma tab_spinz_std n ud : tab_spinz S std_symtab n ud = spinz_op S n ud.
  Proof.
    unfold tab_spinz, tab_single, spinz_op. apply flat_map_ext. intro i.
    unfold spinz_block, pats_terms, pat_term, nterm, upo, dno, kpc. simpl.
    repeat f_equal; ring.
  Qed.

  Lemma spin2_block_std n ud i j :
    pats_terms S std_symtab ud (N.of_nat n) (N.of_nat i) (N.of_nat j) (pat_spin2_cross std_symtab)
    = spin2_block S ud n i j.
  Proof.
    unfold spin2_block, pats_terms, pat_term, nterm, hop, upo, dno, kpc, quarter. simpl.
    repeat f_equal; ring.
  Qed.

  Lemma spin2_same_std n ud i :
    pats_terms S std_symtab ud (N.of_nat n) (N.of_nat i) (N.of_nat i) (pat_spin2_same std_symtab)
    = spin2_block S ud n i i.
  Proof.
    unfold spin2_block, pats_terms, pat_term, nterm, hop, upo, dno, kpc, quarter. simpl.
    repeat f_equal; ring.
  Qed.

  Lemma tab_spin2_std n ud : tab_spin2 S std_symtab n ud = spin2_op S n ud.
  Proof.
    unfold tab_spin2, spin2_op. apply flat_map_ext. intro i.
    rewrite spin2_same_std. f_equal. apply flat_map_ext. intro j.
    destruct (Nat.eqb i j); [reflexivity | apply spin2_block_std].
  Qed.
End Proofs.
