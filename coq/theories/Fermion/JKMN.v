(* JKMN.v — tangelo/toolboxes/qubit_mappings/jkmn.py (ternary-tree encoding, arXiv:1910.10746).
   Definitions only.  Model of _node_value, _jkmn_list, _jkmn_dict (leaf branching, Hadamard
   re-labelling from _jkmn_vaccuum_indices, signed re-assignment of the Majorana pairs) and jkmn.
   The table-like pieces (sigma_map, the node-value formula constants) are a record [jkmn_tab];
   translator/encoding_tables.py regenerates it from the source and props/C03.v checks that the
   regenerated record equals [jkmn_std], over which the theorems are stated.
   jkmn() goes through openfermion's MajoranaOperator (external); here a_p = (g_2p + i g_2p+1)/2 is
   substituted directly — equal as operators exactly when the strings obey the Majorana algebra. *)
From Coq Require Import NArith ZArith List Bool.
From Tangelo Require Import Num.KStruct Pauli.Word Fermion.Fock Fermion.CAR Linq.GateModel.
Import ListNotations.
Open Scope N_scope.

Record jkmn_tab : Type := mkJT { jt_sigma : list pauli; jt_base : N; jt_sub : N; jt_div : N }.
Definition jkmn_std : jkmn_tab := mkJT [PX; PY; PZ] 3 1 2.

Section Tab.
  Variable T : jkmn_tab.
  Definition jk_sigma (d : N) : pauli := nth (N.to_nat d) (jt_sigma T) PZ.
  (* (3**l - 1)//2 *)
  Definition nv_off (l : nat) : N := (jt_base T ^ N.of_nat l - jt_sub T) / jt_div T.

  Fixpoint digits_lsb (h : nat) (i : N) : list N :=
    match h with O => [] | Datatypes.S k => (i mod jt_base T) :: digits_lsb k (i / jt_base T) end.
  (* np.base_repr(i, base=3).rjust(h, '0') as a digit list, most significant first *)
  Definition digits (h : nat) (i : N) : list N := rev (digits_lsb h i).

  (* _node_value(p, l) = (3**l - 1)//2 + sum_j 3**(l-1-j) * p[j] *)
  Definition node_value (p : list N) (l : nat) : N :=
    nv_off l + fold_left (fun v d => v * jt_base T + d) (firstn l p) 0.

  Definition path (h : nat) (i : N) : list (N * pauli) :=
    let p := digits h i in
    map (fun ch => (node_value p ch, jk_sigma (nth ch p 0))) (seq 0 h).

  Definition jkmn_list (h : nat) : list (list (N * pauli)) :=
    map (fun i => path h (N.of_nat i)) (seq 0 (N.to_nat (jt_base T ^ N.of_nat h))).

  (* h = int(log10(2n+1)/log10(3)): the largest h with 3^h <= 2n+1 *)
  Fixpoint height_fuel (fuel : nat) (m : N) (h : nat) : nat :=
    match fuel with
    | O => h
    | Datatypes.S k => if jt_base T ^ N.of_nat (Datatypes.S h) <=? m then height_fuel k m (Datatypes.S h) else h
    end.
  Definition jkmn_height (n : N) : nat := height_fuel (N.to_nat (N.size (2 * n + 1))) (2 * n + 1) 0.

  (* all leaf paths after branching the first n - (3^h-1)/2 leaves; the last one is dropped *)
  Definition jkmn_paths (n : N) : list (list (N * pauli)) :=
    let h := jkmn_height n in
    let all := jkmn_list h in
    let nl := N.to_nat (n - nv_off h) in
    let prepend :=
        flat_map (fun j => map (fun i => nth j all [] ++ [(nv_off h + N.of_nat j, jk_sigma (N.of_nat i))]) (seq 0 3))
                 (seq 0 nl) in
    removelast (prepend ++ skipn nl all).

  Definition jkmn_raw (n : N) : list word := map mk_word (jkmn_paths n).

  (* _jkmn_vaccuum_indices: first Pauli seen on each qubit in the products g_2i g_2i+1, i = 0..n-1 *)
  Definition rot_update (rot : list (N * pauli)) (w : word) : list (N * pauli) :=
    fold_left (fun r f => if existsb (fun g => fst g =? fst f) r then r else r ++ [f]) w rot.
  Definition jkmn_hinds (n : N) (raw : list word) : list N :=
    let rot := fold_left (fun r i => rot_update r (fst (wmul (nth (2 * i) raw []) (nth (2 * i + 1) raw []))))
                         (seq 0 (N.to_nat n)) [] in
    map fst (filter (fun f => pauli_eqb (snd f) PX) rot).

  (* HXH = Z, HZH = X, HYH = -Y with the sign NOT recorded (as in the source) *)
  Definition relabel (hinds : list N) (w : word) : word :=
    map (fun f => if mem_N (fst f) hinds
                  then (fst f, match snd f with PX => PZ | PZ => PX | PY => PY end) else f) w.

  Definition has_factor (q : N) (p : pauli) (w : word) : bool :=
    existsb (fun f => (fst f =? q) && pauli_eqb (snd f) p) w.

  (* the final dictionary as an association list in assignment order (later entries win) *)
  Definition jkmn_assign (n : N) (t : list word) : list (N * maj) :=
    flat_map (fun i =>
                let q1 := nth (2 * i) t [] in
                let q2 := nth (2 * i + 1) t [] in
                flat_map (fun f =>
                            match snd f with
                            | PX => if has_factor (fst f) PY q2
                                    then [(2 * fst f, (false, q1)); (2 * fst f + 1, (false, q2))] else []
                            | PY => if has_factor (fst f) PX q2
                                    then [(2 * fst f, (true, q1)); (2 * fst f + 1, (false, q2))] else []
                            | PZ => []
                            end) q1)
             (seq 0 (N.to_nat n)).

  Definition jkmn_dict (n : N) : list (N * maj) :=
    let raw := jkmn_raw n in
    let hinds := jkmn_hinds n raw in
    rev (jkmn_assign n (map (relabel hinds) raw)).

  Definition dict_get (d : list (N * maj)) (k : N) : res maj :=
    match find (fun e => fst e =? k) d with Some e => Ok (snd e) | None => Err KeyError end.

  (* gamma_0 .. gamma_{2n-1}; KeyError when a key was never assigned *)
  Definition jkmn_majs (n : N) : res (list maj) :=
    let d := jkmn_dict n in mapM (fun k => dict_get d (N.of_nat k)) (seq 0 (2 * N.to_nat n)).
End Tab.

Section JKMN.
  Variable S : KS.
  Variable T : jkmn_tab.
  Definition jkmn_ladder (majs : list maj) (l : ladder) : op S :=
    ladder_of_maj S (nth (2 * N.to_nat (fst l)) majs (false, [])) (nth (2 * N.to_nat (fst l) + 1) majs (false, [])) (snd l).
  (* jkmn(fermion_operator, n_qubits): KeyError for a mode outside the register *)
  Definition jkmn_fop (n : N) (a : fop S) : res (op S) :=
    if n <? fop_modes S a then Err KeyError
    else bind (jkmn_majs T n) (fun majs => Ok (enc_fop S (jkmn_ladder majs) a)).
End JKMN.
