(* BK.v — Bravyi-Kitaev images.  Definitions only.
   (1) the Fenwick-tree bit formulas of openfermion.transforms.opconversions.bravyi_kitaev
       (_update_set, _occupation_set, _parity_set, _transform_ladder_operator), reached through
       tangelo/toolboxes/qubit_mappings/bravyi_kitaev.py with n_qubits = n_spinorbitals;
   (2) the recursive Fenwick tree of openfermion's fenwick_tree.py / bravyi_kitaev_tree.py, which
       symmetry_conserving_bravyi_kitaev.py uses.
   openfermion is external: these models are tied to it by the correspondence run of C03. *)
From Coq Require Import NArith ZArith List Bool.
From Tangelo Require Import Num.KStruct Pauli.Word Fermion.Fock Fermion.CAR.
Import ListNotations.
Open Scope N_scope.

(* index & (index - 1): clear the lowest set bit;  index & -index: the lowest set bit *)
Definition clear_low (x : N) : N := N.land x (x - 1).
Definition lowbit (x : N) : N := x - clear_low x.

Definition bit_fuel (x : N) : nat := Datatypes.S (Datatypes.S (N.to_nat (N.size x))).

Fixpoint update_loop (fuel : nat) (idx n : N) : list N :=
  match fuel with
  | O => []
  | Datatypes.S k => if idx <=? n then (idx - 1) :: update_loop k (idx + lowbit idx) n else []
  end.
(* _update_set(index, n_qubits): 1-based, the index itself is skipped first *)
Definition update_set (index n : N) : list N :=
  let i := index + 1 in update_loop (bit_fuel (n + i)) (i + lowbit i) n.

Fixpoint parity_loop (fuel : nat) (idx : N) : list N :=
  match fuel with
  | O => []
  | Datatypes.S k => if 0 <? idx then (idx - 1) :: parity_loop k (clear_low idx) else []
  end.
Definition parity_set (index : N) : list N := parity_loop (bit_fuel index) index.

Fixpoint occ_loop (fuel : nat) (idx parent : N) : list N :=
  match fuel with
  | O => []
  | Datatypes.S k => if idx =? parent then [] else (idx - 1) :: occ_loop k (clear_low idx) parent
  end.
Definition occupation_set (index : N) : list N :=
  let i := index + 1 in (i - 1) :: occ_loop (bit_fuel i) (i - 1) (clear_low i).

Definition factors (p : pauli) (l : list N) : list (N * pauli) := map (fun q => (q, p)) l.

(* the two Majorana strings of mode p on n qubits: c = X(U + p) Z(P),  d = Y_p X(U) Z((P xor O) - p) *)
Definition bk_c (n p : N) : word :=
  mk_word (factors PX (p :: update_set p n) ++ factors PZ (parity_set p)).
Definition bk_d (n p : N) : word :=
  mk_word ((p, PY) :: factors PX (filter (fun q => negb (q =? p)) (update_set p n))
           ++ factors PZ (filter (fun q => negb (q =? p)) (symdiff_N (parity_set p) (occupation_set p)))).
Definition bk_gammas (n : N) : list word :=
  flat_map (fun p => [bk_c n (N.of_nat p); bk_d n (N.of_nat p)]) (seq 0 (N.to_nat n)).

(* ---- recursive Fenwick tree (bravyi_kitaev_tree) ---- *)
(* edges (child, parent) in creation order of FenwickTree.__init__'s inner function fenwick *)
Fixpoint fen_edges (fuel : nat) (left right parent : N) : list (N * N) :=
  match fuel with
  | O => []
  | Datatypes.S k =>
    if right <=? left then []
    else let pivot := (left + right) / 2 in
         (pivot, parent) :: fen_edges k left pivot pivot ++ fen_edges k (pivot + 1) right parent
  end.
Definition fen_tree (n : N) : list (N * N) :=
  if n =? 0 then [] else fen_edges (Datatypes.S (N.to_nat n)) 0 (n - 1) (n - 1).

Definition fen_parent (t : list (N * N)) (j : N) : option N :=
  match find (fun e => fst e =? j) t with Some e => Some (snd e) | None => None end.
Fixpoint fen_ancestors_fuel (fuel : nat) (t : list (N * N)) (j : N) : list N :=
  match fuel with
  | O => []
  | Datatypes.S k => match fen_parent t j with
                     | Some a => a :: fen_ancestors_fuel k t a
                     | None => []
                     end
  end.
Definition fen_ancestors (t : list (N * N)) (j : N) : list N := fen_ancestors_fuel (Datatypes.S (length t)) t j.
Definition fen_children (t : list (N * N)) (a : N) : list N :=
  map fst (filter (fun e => snd e =? a) t).
Definition fen_remainder (t : list (N * N)) (j : N) : list N :=
  flat_map (fun a => filter (fun c => c <? j) (fen_children t a)) (fen_ancestors t j).
Definition fen_parity (t : list (N * N)) (j : N) : list N := fen_remainder t j ++ fen_children t j.

Definition bkt_c (t : list (N * N)) (p : N) : word :=
  mk_word ((p, PX) :: factors PZ (fen_parity t p) ++ factors PX (fen_ancestors t p)).
Definition bkt_d (t : list (N * N)) (p : N) : word :=
  mk_word ((p, PY) :: factors PZ (fen_remainder t p) ++ factors PX (fen_ancestors t p)).
Definition bkt_gammas (n : N) : list word :=
  let t := fen_tree n in flat_map (fun p => [bkt_c t (N.of_nat p); bkt_d t (N.of_nat p)]) (seq 0 (N.to_nat n)).

Section BK.
  Variable S : KS.
  Definition bk_ladder (n : N) (l : ladder) : op S :=
    ladder_of_maj S (false, bk_c n (fst l)) (false, bk_d n (fst l)) (snd l).
  Definition bk_fop (n : N) (a : fop S) : op S := enc_fop S (bk_ladder n) a.

  Definition bkt_ladder (t : list (N * N)) (l : ladder) : op S :=
    ladder_of_maj S (false, bkt_c t (fst l)) (false, bkt_d t (fst l)) (snd l).
  Definition bkt_fop (n : N) (a : fop S) : op S := let t := fen_tree n in enc_fop S (bkt_ladder t) a.
End BK.
