(* C16Exec.v — executable instance (exact cyclotomic numbers, CycS) of the C16 models, the operation
   alphabet of the correspondence harness, and printers.  Used by harness/props/C16.py through
   ck.coq_eval and by the witnesses in props/C16.v.  Definitions and two small facts only. *)
From Coq Require Import NArith ZArith QArith Qcanon List Bool String.
From Tangelo Require Import Num.KStruct Num.Cyc Num.Show Fermion.Fock Pauli.Word Pauli.Store Pauli.Multiform.
Import ListNotations.
Open Scope string_scope.

Definition KC : Type := K CycS.
Definition small_cy (c : KC) : bool := ceqb L4 c (c0 L4).
Lemma small_cy_sound (c : KC) : small_cy c = true -> c = @k0 CycS.
Proof. unfold small_cy. intro H. apply (ceqb_eq L4) in H. exact H. Qed.

(* (a/b) + (c/d) i *)
Definition cyq (a : Z) (b : positive) (c : Z) (d : positive) : KC :=
  @kadd CycS (cy_of_Qc (Q2Qc (a # b))) (@kmul CycS (@ki CycS) (cy_of_Qc (Q2Qc (c # d)))).
Definition cyz (a : Z) : KC := cyq a 1 0 1.

(* a number of Q(i) is printed "re,im"; anything else with all 16 coordinates *)
Definition show_K (c : KC) : string :=
  let l := cy_flat c in
  let re := nth 0 l 0%Qc in
  let im := nth 8 l 0%Qc in
  if ceqb L4 c (@kadd CycS (cy_of_Qc re) (@kmul CycS (@ki CycS) (cy_of_Qc im)))
  then show_Qc re ++ "," ++ show_Qc im
  else show_Cy c.

(* ---- fermionic store ---- *)
Definition show_ladder (l : ladder) : string := show_N (fst l) ++ (if snd l then "^" else "").
Definition show_fterm (t : fterm) : string := "(" ++ join " " (map show_ladder t) ++ ")".
Definition show_fdict (d : fdict CycS) : string :=
  "{" ++ join "; " (map (fun tc => show_fterm (fst tc) ++ ":" ++ show_K (snd tc)) d) ++ "}".
Definition show_oz (o : option Z) : string := match o with None => "N" | Some z => show_Z z end.
Definition show_obj (o : fobj CycS) : string :=
  (match o_cls o with CTg => "Tg" | COf => "Of" end)
  ++ "[" ++ show_oz (a_nso (o_attrs o)) ++ "," ++ show_oz (a_nel (o_attrs o)) ++ "," ++ show_oz (a_spin (o_attrs o)) ++ "]"
  ++ show_fdict (o_terms o).
Definition show_heap (h : heap CycS) : string := join " | " (map show_obj h).
Definition show_perr (e : perr) : string :=
  match e with RuntimeError => "RuntimeError" | TypeError => "TypeError" | AttributeError => "AttributeError" end.
Definition show_out (r : res nat) : string :=
  match r with Ok k => "Ok " ++ show_nat k | Err e => "Err:" ++ show_perr e end.

Inductive cop : Type :=
| ONew (c : cls) (a : attrs) (d : fdict CycS)
| OBin (op : bop) (x y : value CycS)
| OIop (op : bop) (i : nat) (y : value CycS)
| ONeg (i : nat)
| OHalf (i : nat).

Definition cstep (asis : bool) (h : heap CycS) (o : cop) : heap CycS * res nat :=
  match o with
  | ONew c a d => ((h ++ [mkObj c a d])%list, Ok (List.length h))
  | OBin op x y => binop CycS small_cy asis op h x y
  | OIop op i y => iop CycS small_cy asis op h i y
  | ONeg i => uneg CycS asis h i
  | OHalf i => uhalf CycS asis h i
  end.

Fixpoint crun_from (asis : bool) (h : heap CycS) (ops : list cop) : list string :=
  match ops with
  | [] => []
  | o :: r => let '(h1, out) := cstep asis h o in
              (show_out out ++ " # " ++ show_heap h1) :: crun_from asis h1 r
  end.
Definition crun (asis : bool) (ops : list cop) : string := join " ## " (crun_from asis [] ops).

(* ---- Pauli side ---- *)
Definition show_pauli (p : pauli) : string := match p with PX => "X" | PY => "Y" | PZ => "Z" end.
Definition show_word (w : word) : string :=
  "(" ++ join " " (map (fun qp => show_pauli (snd qp) ++ show_N (fst qp)) w) ++ ")".
Definition show_op (a : op CycS) : string :=
  "{" ++ join "; " (map (fun t => show_word (fst t) ++ ":" ++ show_K (snd t)) a) ++ "}".
Definition show_iword (w : iword) : string := join "" (map show_N w).
Definition show_mfop (a : mfop CycS) : string :=
  "{" ++ join "; " (map (fun t => show_iword (fst t) ++ ":" ++ show_K (snd t)) a) ++ "}".
Definition canon (a : op CycS) : op CycS := collapse CycS small_cy a.
Definition show_bools (l : list bool) : string := join "" (map show_bool l).
Definition show_res_unit (r : res unit) : string := match r with Ok _ => "Ok" | Err e => "Err:" ++ show_perr e end.
Definition show_res_bool (r : res bool) : string :=
  match r with Ok b => "Ok " ++ show_bool b | Err e => "Err:" ++ show_perr e end.

(* str.upper on the ASCII letters used for mapping names *)
Definition upper_ascii (c : Ascii.ascii) : Ascii.ascii :=
  let n := Ascii.nat_of_ascii c in
  if andb (Nat.leb 97 n) (Nat.leb n 122) then Ascii.ascii_of_nat (n - 32) else c.
Fixpoint upper (s : string) : string :=
  match s with EmptyString => EmptyString | String c r => String (upper_ascii c) (upper r) end.
