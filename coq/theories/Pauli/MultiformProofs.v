(* MultiformProofs.v — the array form of multiformoperator.py agrees with the symbolic Pauli algebra.
   Unbounded: all rows of equal length with codes in 0..3, all operators, every number structure.

     dec_sorted, dec_wf            decoded rows are well-formed words
     dec_wmul                      wmul (dec a) (dec b) = (dec (a xor b), iphase a b)
     cprod_ipow                    prod c_calc[a_q, b_q] = i^(iphase a b)       (given the table obligation)
     mf_term_mul_agrees, mf_mul_raw_agrees    the double loop of __mul__ = op_mul on the decoded operators
     mf_collapse_den, mf_collapse_nonzero   collapse preserves the denotation and leaves no zero factor
                                   (that equal rows end up merged into one is checked by correspondence only)
     mf_mul_den                    den (A * B) = den A o den B for the array product incl. collapse
     symp_acount, symplectic_iff_commute     symp a b = negb (wcommute (dec a) (dec b))
     do_commute_repaired_iff, do_commute_terms_spec, do_commute_asis_refuted
     c_calc_check_sound            the 16-entry check on the regenerated table gives the table obligation *)
From Coq Require Import NArith ZArith List Bool Lia.
From Tangelo Require Import Num.KStruct QSem.State Pauli.Word Pauli.Action Pauli.WordProofs
     Pauli.ActionProofs Pauli.Multiform.
Import ListNotations.

(* ------------------------------------------------------------------ decoding *)
Lemma dec_from_ge : forall w k q, In q (qubits (dec_from k w)) -> (k <= q)%N.
Proof.
  induction w as [|c r IH]; intros k q Hin; [destruct Hin|].
  simpl in Hin. destruct (pdecode c).
  - simpl in Hin. destruct Hin as [<-|Hin]; [lia|]. specialize (IH _ _ Hin). lia.
  - specialize (IH _ _ Hin). lia.
Qed.

Lemma dec_from_above k w : above k (dec_from (N.succ k) w).
Proof. intros q Hin. pose proof (dec_from_ge _ _ _ Hin). lia. Qed.

Lemma dec_sorted : forall w lo k, lo_ok lo k -> sorted_from lo (dec_from k w) = true.
Proof.
  induction w as [|c r IH]; intros lo k Hlo; [reflexivity|].
  simpl. destruct (pdecode c).
  - apply sorted_from_cons. split; [exact Hlo|]. apply IH. simpl. lia.
  - apply IH. destruct lo; simpl in *; [lia|exact I].
Qed.

Lemma dec_wf w : word_wf (dec w) = true.
Proof. apply dec_sorted. exact I. Qed.

Lemma code_cases (c : N) : (c < 4)%N -> c = 0%N \/ c = 1%N \/ c = 2%N \/ c = 3%N.
Proof. lia. Qed.

Lemma pdecode_pcode p : pdecode (pcode p) = p.
Proof. destruct p as [p|]; [destruct p|]; reflexivity. Qed.

Lemma pcode_pdecode c : (c < 4)%N -> pcode (pdecode c) = c.
Proof. intro H. destruct (code_cases c H) as [-> | [-> | [-> | ->]]]; reflexivity. Qed.

(* ------------------------------------------------------------------ products with a head below the rest *)
Lemma wmul_cons_l_above k p a b :
  above k b -> wmul ((k, p) :: a) b = let '(w, e) := wmul a b in ((k, p) :: w, e).
Proof.
  intro Hb. destruct b as [|[qb pb] b'].
  - rewrite !wmul_nil_r. reflexivity.
  - rewrite wmul_cons. assert (Hlt : (k < qb)%N) by (apply Hb; left; reflexivity).
    apply N.ltb_lt in Hlt. rewrite Hlt. reflexivity.
Qed.

Lemma wmul_cons_r_above k p a b :
  above k a -> wmul a ((k, p) :: b) = let '(w, e) := wmul a b in ((k, p) :: w, e).
Proof.
  intro Ha. destruct a as [|[qa pa] a'].
  - rewrite !wmul_nil_l. reflexivity.
  - rewrite wmul_cons. assert (Hlt : (k < qa)%N) by (apply Ha; left; reflexivity).
    assert (E1 : N.ltb qa k = false) by (apply N.ltb_ge; lia).
    apply N.ltb_lt in Hlt. rewrite E1, Hlt. reflexivity.
Qed.

Lemma acount_cons_l_above k p a b : above k b -> acount ((k, p) :: a) b = acount a b.
Proof.
  intro Hb. destruct b as [|[qb pb] b'].
  - rewrite !acount_nil_r. reflexivity.
  - rewrite acount_cons. assert (Hlt : (k < qb)%N) by (apply Hb; left; reflexivity).
    apply N.ltb_lt in Hlt. rewrite Hlt. reflexivity.
Qed.

Lemma acount_cons_r_above k p a b : above k a -> acount a ((k, p) :: b) = acount a b.
Proof.
  intro Ha. destruct a as [|[qa pa] a'].
  - rewrite !acount_nil_l. reflexivity.
  - rewrite acount_cons. assert (Hlt : (k < qa)%N) by (apply Ha; left; reflexivity).
    assert (E1 : N.ltb qa k = false) by (apply N.ltb_ge; lia).
    apply N.ltb_lt in Hlt. rewrite E1, Hlt. reflexivity.
Qed.

(* ------------------------------------------------------------------ xor of rows = product of words *)
Theorem dec_wmul : forall a b k,
  length a = length b -> iword_ok a -> iword_ok b ->
  wmul (dec_from k a) (dec_from k b) = (dec_from k (zipxor a b), iphase a b).
Proof.
  induction a as [|x a' IH]; intros [|y b'] k Hlen Ha Hb; try discriminate Hlen.
  - reflexivity.
  - inversion Ha as [|? ? Hx Ha']; subst. inversion Hb as [|? ? Hy Hb']; subst.
    injection Hlen as Hlen. specialize (IH b' (N.succ k) Hlen Ha' Hb').
    pose proof (dec_from_above k a') as Aa. pose proof (dec_from_above k b') as Ab.
    destruct (code_cases x Hx) as [-> | [-> | [-> | ->]]]; destruct (code_cases y Hy) as [-> | [-> | [-> | ->]]];
      cbn [dec_from pdecode zipxor iphase pmul_opt pmul1 N.lxor Pos.lxor Pos.succ fst snd];
      rewrite ?(wmul_cons_l_above k _ _ _ Ab), ?(wmul_cons_r_above k _ _ _ Aa),
              ?wmul_cons, ?N.ltb_irrefl, ?IH;
      cbn [pmul1]; rewrite ?Z.add_0_r; reflexivity.
Qed.

Lemma zipxor_length a : forall b, length a = length b -> length (zipxor a b) = length a.
Proof.
  induction a as [|x a IH]; intros [|y b] H; try discriminate H; [reflexivity|].
  simpl. f_equal. apply IH. injection H as H. exact H.
Qed.

Lemma zipxor_ok a : forall b, iword_ok a -> iword_ok b -> iword_ok (zipxor a b).
Proof.
  induction a as [|x a IH]; intros [|y b] Ha Hb; try constructor.
  - inversion Ha; inversion Hb; subst.
    destruct (code_cases x) as [-> | [-> | [-> | ->]]]; [assumption|..];
      destruct (code_cases y) as [-> | [-> | [-> | ->]]]; try assumption; simpl; lia.
  - inversion Ha; inversion Hb; subst. apply IH; assumption.
Qed.

(* ------------------------------------------------------------------ symplectic product = parity of anti_count *)
Theorem symp_acount : forall a b k,
  length a = length b -> iword_ok a -> iword_ok b ->
  Nat.odd (acount (dec_from k a) (dec_from k b)) = symp a b.
Proof.
  induction a as [|x a' IH]; intros [|y b'] k Hlen Ha Hb; try discriminate Hlen.
  - reflexivity.
  - inversion Ha as [|? ? Hx Ha']; subst. inversion Hb as [|? ? Hy Hb']; subst.
    injection Hlen as Hlen. specialize (IH b' (N.succ k) Hlen Ha' Hb').
    pose proof (dec_from_above k a') as Aa. pose proof (dec_from_above k b') as Ab.
    destruct (code_cases x Hx) as [-> | [-> | [-> | ->]]]; destruct (code_cases y Hy) as [-> | [-> | [-> | ->]]];
      cbn [dec_from pdecode symp zbit xbit N.testbit Pos.testbit andb xorb];
      rewrite ?(acount_cons_l_above k _ _ _ Ab), ?(acount_cons_r_above k _ _ _ Aa),
              ?acount_cons, ?N.ltb_irrefl;
      cbn [pauli_eqb Nat.add]; rewrite ?Nat.odd_succ, <- ?Nat.negb_odd, ?IH;
      destruct (symp a' b'); reflexivity.
Qed.

Theorem symplectic_iff_commute a b :
  length a = length b -> iword_ok a -> iword_ok b ->
  symp a b = negb (wcommute (dec a) (dec b)).
Proof.
  intros Hl Ha Hb. rewrite wcommute_acount, <- (symp_acount a b 0%N Hl Ha Hb).
  rewrite <- Nat.negb_odd, negb_involutive. reflexivity.
Qed.

Lemma existsb_false_iff {X} (f : X -> bool) l : existsb f l = false <-> forall x, In x l -> f x = false.
Proof.
  induction l as [|y l IH]; simpl.
  - split; [intros _ x []|reflexivity].
  - rewrite orb_false_iff, IH. split.
    + intros [H1 H2] x [<-|Hin]; auto.
    + intro H. split; [apply H; left; reflexivity|intros x Hin; apply H; right; exact Hin].
Qed.

Definition rows_ok (n : nat) (A : list iword) : Prop := Forall (fun a => length a = n /\ iword_ok a) A.

Theorem do_commute_repaired_iff n A B : rows_ok n A -> rows_ok n B ->
  (do_commute_repaired A B = true <->
   forall a b, In a A -> In b B -> wcommute (dec a) (dec b) = true).
Proof.
  intros HA HB. unfold do_commute_repaired, term_bool. rewrite negb_true_iff, existsb_false_iff.
  unfold rows_ok in *. rewrite Forall_forall in HA, HB. split.
  - intros H a b Ha Hb. specialize (H a Ha). rewrite existsb_false_iff in H. specialize (H b Hb).
    destruct (HA a Ha) as [La Oa]. destruct (HB b Hb) as [Lb Ob].
    rewrite (symplectic_iff_commute a b) in H by (try assumption; congruence).
    apply negb_false_iff in H. exact H.
  - intros H a Ha. apply existsb_false_iff. intros b Hb.
    destruct (HA a Ha) as [La Oa]. destruct (HB b Hb) as [Lb Ob].
    rewrite (symplectic_iff_commute a b) by (try assumption; congruence).
    rewrite (H a b Ha Hb). reflexivity.
Qed.

Theorem do_commute_terms_spec n A B : rows_ok n A -> rows_ok n B ->
  Forall2 (fun a r => r = true <-> forall b, In b B -> wcommute (dec a) (dec b) = true)
          A (do_commute_terms A B).
Proof.
  intros HA HB. unfold do_commute_terms. induction HA as [|a A [La Oa] HA IH]; simpl; constructor; [|exact IH].
  unfold term_bool. rewrite negb_true_iff, existsb_false_iff.
  unfold rows_ok in HB. rewrite Forall_forall in HB. split.
  - intros H b Hb. specialize (H b Hb). destruct (HB b Hb) as [Lb Ob].
    rewrite (symplectic_iff_commute a b) in H by (try assumption; congruence).
    apply negb_false_iff in H. exact H.
  - intros H b Hb. destruct (HB b Hb) as [Lb Ob].
    rewrite (symplectic_iff_commute a b) by (try assumption; congruence).
    rewrite (H b Hb). reflexivity.
Qed.

(* the reduction as written: X0 + Z1 against Z0 is reported as commuting although X0, Z0 anticommute *)
Theorem do_commute_asis_refuted :
  exists A B, rows_ok 2 A /\ rows_ok 2 B /\ do_commute_asis A B = true /\
              exists a b, In a A /\ In b B /\ wcommute (dec a) (dec b) = false.
Proof.
  exists [[2; 0]; [0; 1]]%N, [[1; 0]]%N.
  repeat split; try (repeat constructor; simpl; lia).
  exists [2; 0]%N, [1; 0]%N. repeat split; simpl; auto.
Qed.

(* ------------------------------------------------------------------ Gaussian table *)
Section GaussProofs.
  Variable S : KS.
  Add Ring kring : (k_ring S).
  Open Scope K_scope.

  Lemma gz_ipow_g e : gz S (ipow_g e) = ipow S e.
  Proof.
    unfold ipow_g, ipow. pose proof (Z.mod_pos_bound e 4 ltac:(lia)) as Hb.
    assert (H : (e mod 4 = 0 \/ e mod 4 = 1 \/ e mod 4 = 2 \/ e mod 4 = 3)%Z) by lia.
    destruct H as [E|[E|[E|E]]]; rewrite E; unfold gz; simpl; ring.
  Qed.

  Lemma gauss_eqb_eq a b : gauss_eqb a b = true -> a = b.
  Proof.
    unfold gauss_eqb. intro H. apply andb_true_iff in H. destruct H as [H1 H2].
    apply Z.eqb_eq in H1, H2. destruct a, b; simpl in *; subst; reflexivity.
  Qed.

  Theorem c_calc_check_sound tab : c_calc_check tab = true ->
    forall x y, (x < 4)%N -> (y < 4)%N ->
      cc_of_table S tab x y = ipow S (snd (pmul_opt (pdecode x) (pdecode y)))
      /\ N.lxor x y = pcode (fst (pmul_opt (pdecode x) (pdecode y))).
  Proof.
    unfold c_calc_check. intros H x y Hx Hy.
    apply andb_true_iff in H. destruct H as [_ H]. rewrite forallb_forall in H.
    assert (Inx : In x codes4) by (destruct (code_cases x Hx) as [-> | [-> | [-> | ->]]]; simpl; auto).
    assert (Iny : In y codes4) by (destruct (code_cases y Hy) as [-> | [-> | [-> | ->]]]; simpl; auto).
    specialize (H x Inx). rewrite forallb_forall in H. specialize (H y Iny).
    apply andb_true_iff in H. destruct H as [H1 H2]. split.
    - unfold cc_of_table. rewrite (gauss_eqb_eq _ _ H1). apply gz_ipow_g.
    - apply N.eqb_eq. exact H2.
  Qed.
End GaussProofs.

(* ------------------------------------------------------------------ products and collapse over K *)
Section MultiformProofs.
  Variable S : KS.
  Add Ring kring2 : (k_ring S).
  Open Scope K_scope.
  Notation K := (K S).

  Variable cc : N -> N -> K.
  Hypothesis cc_ok : forall x y, (x < 4)%N -> (y < 4)%N ->
    cc x y = ipow S (snd (pmul_opt (pdecode x) (pdecode y))).

  Lemma cprod_ipow : forall a b, length a = length b -> iword_ok a -> iword_ok b ->
    cprod S cc a b = ipow S (iphase a b).
  Proof.
    induction a as [|x a IH]; intros [|y b] Hl Ha Hb; try discriminate Hl; [reflexivity|].
    inversion Ha; inversion Hb; subst. injection Hl as Hl. simpl.
    rewrite (IH b Hl) by assumption. rewrite cc_ok by assumption. rewrite ipow_add. ring.
  Qed.

  Definition mf_ok (n : nat) (A : mfop S) : Prop :=
    Forall (fun t => length (fst t) = n /\ iword_ok (fst t)) A.

  Lemma mf_term_mul_agrees (s t : iword * K) : length (fst s) = length (fst t) -> iword_ok (fst s) -> iword_ok (fst t) ->
    (dec (fst (mf_term_mul S cc s t)), snd (mf_term_mul S cc s t))
    = term_mul S (dec (fst s), snd s) (dec (fst t), snd t).
  Proof.
    intros Hl Hs Ht. unfold mf_term_mul, term_mul, dec. cbn [fst snd].
    rewrite (dec_wmul _ _ 0%N Hl Hs Ht), (cprod_ipow _ _ Hl Hs Ht). f_equal. ring.
  Qed.

  Theorem mf_mul_raw_agrees n A B : mf_ok n A -> mf_ok n B ->
    mf_dec S (mf_mul_raw S cc A B) = op_mul S (mf_dec S A) (mf_dec S B).
  Proof.
    intros HA HB. unfold mf_mul_raw, op_mul, mf_dec.
    induction HA as [|s A [Ls Os] HA IH]; [reflexivity|].
    simpl flat_map. rewrite map_app, IH. f_equal.
    clear IH. induction HB as [|t B [Lt Ot] HB IHB]; [reflexivity|].
    simpl map. rewrite IHB. f_equal.
    apply (mf_term_mul_agrees s t); [transitivity n; [exact Ls|symmetry; exact Lt]|assumption|assumption].
  Qed.

  Lemma mf_term_mul_ok n (s t : iword * K) : length (fst s) = n /\ iword_ok (fst s) -> length (fst t) = n /\ iword_ok (fst t) ->
    length (fst (mf_term_mul S cc s t)) = n /\ iword_ok (fst (mf_term_mul S cc s t)).
  Proof.
    intros [Ls Os] [Lt Ot]. unfold mf_term_mul. cbn [fst]. split.
    - rewrite zipxor_length; [exact Ls|transitivity n; [exact Ls|symmetry; exact Lt]].
    - apply zipxor_ok; assumption.
  Qed.

  Lemma mf_mul_raw_ok n A B : mf_ok n A -> mf_ok n B -> mf_ok n (mf_mul_raw S cc A B).
  Proof.
    intros HA HB. unfold mf_mul_raw. induction HA as [|s A Hs HA IH]; [constructor|].
    simpl flat_map. apply Forall_app. split; [|exact IH].
    clear IH. induction HB as [|t B Ht HB IHB]; simpl; constructor; [|exact IHB].
    apply (mf_term_mul_ok n); assumption.
  Qed.

  Lemma mf_dec_wf A : op_wf S (mf_dec S A).
  Proof. unfold mf_dec. induction A as [|t A IH]; simpl; constructor; [apply dec_wf|exact IH]. Qed.

  (* ---- collapse ---- *)
  Lemma iword_eqb_eq a : forall b, iword_eqb a b = true -> a = b.
  Proof.
    induction a as [|x a IH]; intros [|y b] H; try discriminate H; [reflexivity|].
    simpl in H. apply andb_true_iff in H. destruct H as [H1 H2].
    apply N.eqb_eq in H1. rewrite H1, (IH b H2). reflexivity.
  Qed.

  Lemma mf_insert_den t (a : mfop S) (psi : state S) x :
    op_den S (mf_dec S (mf_insert S t a)) psi x =
    snd t * word_den S (dec (fst t)) psi x + op_den S (mf_dec S a) psi x.
  Proof.
    induction a as [|u a IH]; simpl mf_insert.
    - unfold mf_dec. simpl map. rewrite op_den_cons. reflexivity.
    - destruct (iword_eqb (fst t) (fst u)) eqn:E.
      + apply iword_eqb_eq in E. unfold mf_dec. simpl map. rewrite !op_den_cons. cbn [fst snd].
        rewrite E. ring.
      + destruct (iword_ltb (fst t) (fst u)).
        * unfold mf_dec. simpl map. rewrite !op_den_cons. reflexivity.
        * unfold mf_dec in *. simpl map. rewrite !op_den_cons, IH. ring.
  Qed.

  Lemma mf_merge_den_acc (a : mfop S) (psi : state S) x : forall acc,
    op_den S (mf_dec S (fold_left (fun acc t => mf_insert S t acc) a acc)) psi x =
    op_den S (mf_dec S acc) psi x + op_den S (mf_dec S a) psi x.
  Proof.
    induction a as [|t a IH]; intro acc; simpl fold_left.
    - unfold mf_dec at 3. simpl map. rewrite op_den_nil. ring.
    - rewrite IH, mf_insert_den. unfold mf_dec at 4. simpl map. rewrite op_den_cons. cbn [fst snd].
      fold (mf_dec S a). ring.
  Qed.

  Theorem mf_collapse_den kzero (a : mfop S) (psi : state S) x :
    (forall c, kzero c = true -> c = 0) ->
    op_den S (mf_dec S (mf_collapse S kzero a)) psi x = op_den S (mf_dec S a) psi x.
  Proof.
    intro Hz. unfold mf_collapse.
    transitivity (op_den S (mf_dec S (mf_merge S a)) psi x).
    - generalize (mf_merge S a). intro m. induction m as [|t m IH]; [reflexivity|].
      simpl filter. destruct (kzero (snd t)) eqn:E; simpl negb; cbv iota; unfold mf_dec in *; simpl map.
      + rewrite op_den_cons, IH. cbn [snd]. rewrite (Hz _ E). ring.
      + rewrite !op_den_cons, IH. reflexivity.
    - unfold mf_merge. rewrite mf_merge_den_acc. unfold mf_dec at 1. simpl map. rewrite op_den_nil. ring.
  Qed.

  Lemma mf_collapse_nonzero kzero (a : mfop S) :
    Forall (fun t => kzero (snd t) = false) (mf_collapse S kzero a).
  Proof.
    unfold mf_collapse. apply Forall_forall. intros t Hin. apply filter_In in Hin.
    destruct Hin as [_ H]. destruct (kzero (snd t)); [discriminate|reflexivity].
  Qed.

  (* the array product, collapse included, denotes the composition *)
  Theorem mf_mul_den kzero n A B : (forall c, kzero c = true -> c = 0) -> mf_ok n A -> mf_ok n B ->
    forall (psi : state S) x,
      op_den S (mf_dec S (mf_mul S cc kzero A B)) psi x
      = op_den S (mf_dec S A) (op_den S (mf_dec S B) psi) x.
  Proof.
    intros Hz HA HB psi x. unfold mf_mul.
    rewrite (mf_collapse_den kzero _ psi x Hz), (mf_mul_raw_agrees n A B HA HB).
    apply op_den_mul; apply mf_dec_wf.
  Qed.
End MultiformProofs.

From Coq Require Import String.

(* ------------------------------------------------------------------ remove_terms keeps the forms consistent *)
Lemma remove_idx_map {X Y : Type} (f : X -> Y) idx : forall l k,
  remove_idx idx k (map f l) = map f (remove_idx idx k l).
Proof.
  induction l as [|x l IH]; intro k; simpl; [reflexivity|].
  destruct (existsb (Nat.eqb k) idx); simpl; rewrite IH; reflexivity.
Qed.

Theorem remove_forms_ok updated idx F :
  forms_updated_all updated = true -> forms_ok F -> forms_ok (mf_remove_forms updated idx F).
Proof.
  unfold forms_updated_all. intro H.
  repeat (apply andb_true_iff in H; destruct H as [H ?]).
  intros [Hb Hs]. unfold mf_remove_forms, forms_ok. simpl.
  repeat match goal with Hn : has_name _ updated = true |- _ => rewrite Hn; clear Hn end.
  rewrite Hb, Hs, !remove_idx_map. split; reflexivity.
Qed.

(* a method that shortens integer and binary_swap but not binary leaves the object inconsistent *)
Theorem remove_forms_stale_binary_refuted :
  exists F idx, forms_ok F /\
    ~ forms_ok (mf_remove_forms ["factors"; "integer"; "binary_swap"; "terms"]%string idx F).
Proof.
  exists (mkForms [[2%N]; [1%N]] [bin_of [2%N]; bin_of [1%N]] [swap_of [2%N]; swap_of [1%N]]), [0].
  split; [split; reflexivity|]. intros [Hb _]. vm_compute in Hb. discriminate Hb.
Qed.
