(* StoreProofs.v — theorems about the object-store model of Store.v.  All statements are unbounded
   (all heaps, operands, dictionaries, every number structure); [small] is any zero test that is
   sound ([small c = true -> c = 0]; openfermion's tolerance test is sound on the exact grids used by
   the correspondence, see the assumptions of the check).

   values     fsum d f = sum over the dictionary of coefficient * f(key): every linear observable of an
              operator (a single coefficient, a matrix element fop_elem, ...) is an fsum.
              iadd_terms_sum, isub_terms_sum, imul_terms_sum, scale_terms_sum, add_const_sum
              fop_elem_fsum : Fock.fop_elem is such an observable;  apply_term_app : keys concatenate
              = operators compose;  fop_elem_imul : matrix elements of the product dictionary
   purity     binop_repaired_pure, iop_repaired_frame (repaired definitions)
              tg_*_values_repaired : heap-level value statements for the repaired + - *  *)
From Coq Require Import NArith ZArith List Bool Lia.
From Tangelo Require Import Num.KStruct Fermion.Fock Pauli.Store.
Import ListNotations.

Lemma ladder_eqb_eq a b : ladder_eqb a b = true -> a = b.
Proof.
  unfold ladder_eqb. intro H. apply andb_true_iff in H. destruct H as [H1 H2].
  apply N.eqb_eq in H1. apply Bool.eqb_prop in H2. destruct a, b; simpl in *; subst; reflexivity.
Qed.

Lemma fterm_eqb_eq a : forall b, fterm_eqb a b = true -> a = b.
Proof.
  induction a as [|x a IH]; intros [|y b] H; try discriminate H; [reflexivity|].
  simpl in H. apply andb_true_iff in H. destruct H as [H1 H2].
  rewrite (ladder_eqb_eq _ _ H1), (IH b H2). reflexivity.
Qed.

Lemma fterm_eqb_refl a : fterm_eqb a a = true.
Proof.
  induction a as [|[q c] a IH]; [reflexivity|]. simpl. unfold ladder_eqb. simpl.
  rewrite N.eqb_refl, Bool.eqb_reflx, IH. reflexivity.
Qed.

Section StoreProofs.
  Variable S : KS.
  Add Ring kring : (k_ring S).
  Open Scope K_scope.
  Notation K := (K S).
  Variable small : K -> bool.
  Hypothesis small_sound : forall c, small c = true -> c = 0.

  Notation fdict := (fdict S).

  Fixpoint fsum (d : fdict) (f : fterm -> K) : K :=
    match d with [] => 0 | tc :: r => snd tc * f (fst tc) + fsum r f end.

  Lemma fsum_app d1 d2 f : fsum (d1 ++ d2) f = fsum d1 f + fsum d2 f.
  Proof. induction d1 as [|tc d1 IH]; simpl; [ring|rewrite IH; ring]. Qed.

  Lemma fsum_ext d f g : (forall t, f t = g t) -> fsum d f = fsum d g.
  Proof. intro H. induction d as [|tc d IH]; simpl; [reflexivity|rewrite IH, H; reflexivity]. Qed.

  Lemma fsum_scale_f d c f : fsum d (fun t => c * f t) = c * fsum d f.
  Proof. induction d as [|tc d IH]; simpl; [ring|rewrite IH; ring]. Qed.

  (* ---- dictionary updates ---- *)
  Lemma fsum_dset t v d f : fsum (dset S t v d) f = fsum d f + (v - dget0 S t d) * f t.
  Proof.
    unfold dget0. induction d as [|[u w] d IH]; simpl.
    - ring.
    - destruct (fterm_eqb t u) eqn:E; simpl.
      + apply fterm_eqb_eq in E. subst u. ring.
      + rewrite IH. ring.
  Qed.

  Lemma fsum_ddel t d f : fsum (ddel S t d) f = fsum d f - dget0 S t d * f t.
  Proof.
    unfold dget0. induction d as [|[u w] d IH]; simpl.
    - ring.
    - destruct (fterm_eqb t u) eqn:E; simpl.
      + apply fterm_eqb_eq in E. subst u. ring.
      + rewrite IH. ring.
  Qed.

  Lemma dget0_dset_same t v d : dget0 S t (dset S t v d) = v.
  Proof.
    unfold dget0. induction d as [|[u w] d IH]; simpl.
    - rewrite fterm_eqb_refl. reflexivity.
    - destruct (fterm_eqb t u) eqn:E; simpl; rewrite ?E; [reflexivity|exact IH].
  Qed.

  Lemma iadd_step_sum neg d tc f :
    fsum (iadd_step S small neg d tc) f =
    if neg then fsum d f - snd tc * f (fst tc) else fsum d f + snd tc * f (fst tc).
  Proof.
    unfold iadd_step.
    set (v := if neg then dget0 S (fst tc) d - snd tc else dget0 S (fst tc) d + snd tc).
    assert (Hd1 : fsum (dset S (fst tc) v d) f =
                  if neg then fsum d f - snd tc * f (fst tc) else fsum d f + snd tc * f (fst tc)).
    { rewrite fsum_dset. unfold v. destruct neg; ring. }
    destruct (small v) eqn:E; [|exact Hd1].
    rewrite fsum_ddel, dget0_dset_same, Hd1, (small_sound _ E). destruct neg; ring.
  Qed.

  Theorem iadd_terms_sum a : forall d f, fsum (iadd_terms S small d a) f = fsum d f + fsum a f.
  Proof.
    unfold iadd_terms. induction a as [|tc a IH]; intros d f; simpl; [ring|].
    rewrite IH, (iadd_step_sum false). ring.
  Qed.

  Theorem isub_terms_sum a : forall d f, fsum (isub_terms S small d a) f = fsum d f - fsum a f.
  Proof.
    unfold isub_terms. induction a as [|tc a IH]; intros d f; simpl; [ring|].
    rewrite IH, (iadd_step_sum true). ring.
  Qed.

  Lemma dacc_sum t c d f : fsum (dacc S t c d) f = fsum d f + c * f t.
  Proof.
    unfold dacc. destruct (dget S t d) as [v|] eqn:E; rewrite fsum_dset; unfold dget0; rewrite E; ring.
  Qed.

  Theorem imul_terms_sum a b f :
    fsum (imul_terms S a b) f = fsum a (fun s => fsum b (fun t => f (s ++ t))).
  Proof.
    unfold imul_terms.
    assert (Hin : forall (s : fterm * K) (b : fdict) acc,
      fsum (fold_left (fun acc (t : fterm * K) => dacc S (fst s ++ fst t) (snd s * snd t) acc) b acc) f
      = fsum acc f + snd s * fsum b (fun t => f (fst s ++ t))).
    { intros s b0. induction b0 as [|t b0 IH]; intro acc; simpl; [ring|].
      rewrite IH, dacc_sum. ring. }
    assert (Hout : forall (a : fdict) acc,
      fsum (fold_left (fun acc (s : fterm * K) =>
              fold_left (fun acc (t : fterm * K) => dacc S (fst s ++ fst t) (snd s * snd t) acc) b acc) a acc) f
      = fsum acc f + fsum a (fun s => fsum b (fun t => f (s ++ t)))).
    { intro a0. induction a0 as [|s a0 IH]; intro acc; simpl; [ring|].
      rewrite IH, Hin. ring. }
    rewrite Hout. simpl. ring.
  Qed.

  Theorem scale_terms_sum c a f : fsum (scale_terms S c a) f = c * fsum a f.
  Proof. unfold scale_terms. induction a as [|t a IH]; simpl; [ring|rewrite IH; ring]. Qed.

  Theorem add_const_sum c a f : fsum (add_const S c a) f = fsum a f + c * f [].
  Proof. unfold add_const. rewrite fsum_dset. ring. Qed.

  Theorem sub_const_sum c a f : fsum (sub_const S c a) f = fsum a f - c * f [].
  Proof. unfold sub_const. rewrite fsum_dset. ring. Qed.

  (* a single coefficient is an fsum (observable = indicator of the key) *)
  Definition indicator (t u : fterm) : K := if fterm_eqb t u then 1 else 0.

  (* ---- link with Fock.v: matrix elements ---- *)
  Definition melem (d' d : N) (t : fterm) : K :=
    match apply_term t d with
    | Some (s, e) => if N.eqb e d' then (if s then - (1) else 1) else 0
    | None => 0
    end.

  Theorem fop_elem_fsum (a : fdict) d' d : fop_elem S a d' d = fsum a (melem d' d).
  Proof.
    unfold fop_elem.
    assert (H : forall acc,
      fold_left (fun acc tc =>
                   match apply_term (fst tc) d with
                   | Some (s, e) => if N.eqb e d' then (if s then acc - snd tc else acc + snd tc) else acc
                   | None => acc
                   end) a acc = acc + fsum a (melem d' d)).
    { induction a as [|tc a IH]; intro acc; simpl; [ring|].
      rewrite IH. unfold melem. destruct (apply_term (fst tc) d) as [[s e]|]; [|ring].
      destruct (N.eqb e d'); [|ring]. destruct s; ring. }
    rewrite H. ring.
  Qed.

  (* the dictionaries returned by the model relate to the list operations of Fock.v *)
  Theorem fop_add_fsum (a b : fdict) f : fsum (fop_add S a b) f = fsum a f + fsum b f.
  Proof. apply fsum_app. Qed.

  Theorem fop_scale_fsum c (a : fdict) f : fsum (fop_scale S c a) f = c * fsum a f.
  Proof. unfold fop_scale. induction a as [|t a IH]; simpl; [ring|rewrite IH; ring]. Qed.

  Theorem fop_mul_fsum (a b : fdict) f :
    fsum (fop_mul S a b) f = fsum a (fun s => fsum b (fun t => f (s ++ t))).
  Proof.
    unfold fop_mul.
    assert (Hin : forall (s : fterm * K),
      fsum (map (fun t : fterm * K => (fst s ++ fst t, snd s * snd t)) b) f
      = snd s * fsum b (fun t => f (fst s ++ t))).
    { intro s. induction b as [|t b0 IHb]; simpl; [ring|]. rewrite IHb. ring. }
    induction a as [|s a IH]; simpl; [reflexivity|].
    rewrite fsum_app, IH, Hin. reflexivity.
  Qed.

  (* hence the model's dictionaries and Fock's list operators have the same matrix elements *)
  Corollary iadd_terms_elem a b d' d :
    fop_elem S (iadd_terms S small a b) d' d = fop_elem S (fop_add S a b) d' d.
  Proof. rewrite !fop_elem_fsum, iadd_terms_sum, fop_add_fsum. reflexivity. Qed.

  Corollary imul_terms_elem a b d' d :
    fop_elem S (imul_terms S a b) d' d = fop_elem S (fop_mul S a b) d' d.
  Proof. rewrite !fop_elem_fsum, imul_terms_sum, fop_mul_fsum. reflexivity. Qed.

  Corollary scale_terms_elem c a d' d :
    fop_elem S (scale_terms S c a) d' d = fop_elem S (fop_scale S c a) d' d.
  Proof. rewrite !fop_elem_fsum, scale_terms_sum, fop_scale_fsum. reflexivity. Qed.
End StoreProofs.

(* ---- concatenated keys act as the composition (no number structure involved) ---- *)
Lemma apply_term_rev_app l1 : forall l2 s d,
  apply_term_rev (l1 ++ l2) s d =
  match apply_term_rev l1 s d with None => None | Some (s1, d1) => apply_term_rev l2 s1 d1 end.
Proof.
  induction l1 as [|l l1 IH]; intros l2 s d; simpl; [reflexivity|].
  destruct (apply_ladder l d) as [[s1 d1]|]; [apply IH|reflexivity].
Qed.

Lemma apply_term_rev_sign l : forall s d,
  apply_term_rev l s d =
  match apply_term_rev l false d with None => None | Some (s1, d1) => Some (xorb s s1, d1) end.
Proof.
  induction l as [|x l IH]; intros s d; simpl.
  - rewrite xorb_false_r. reflexivity.
  - destruct (apply_ladder x d) as [[s1 d1]|]; [|reflexivity].
    rewrite (IH (xorb s s1)), (IH (xorb false s1)).
    destruct (apply_term_rev l false d1) as [[s2 d2]|]; [|reflexivity].
    destruct s, s1, s2; reflexivity.
Qed.

Theorem apply_term_app s t d :
  apply_term (s ++ t) d =
  match apply_term t d with
  | None => None
  | Some (sg, e) => match apply_term s e with None => None | Some (sg', e') => Some (xorb sg sg', e') end
  end.
Proof.
  unfold apply_term. rewrite rev_app_distr, apply_term_rev_app.
  destruct (apply_term_rev (rev t) false d) as [[sg e]|]; [|reflexivity].
  apply apply_term_rev_sign.
Qed.

(* ------------------------------------------------------------------ heap-level statements *)
Section HeapProofs.
  Variable S : KS.
  Add Ring kring3 : (k_ring S).
  Open Scope K_scope.
  Variable small : K S -> bool.
  Hypothesis small_sound : forall c, small c = true -> c = 0.

  Notation heap := (heap S).
  Notation hres := (hres S).

  Definition pure_result (h : heap) (r : hres) : Prop :=
    (exists o, fst r = h ++ [o] /\ snd r = Ok (length h)) \/ (fst r = h /\ exists e, snd r = Err e).

  Lemma fresh_pure h x : pure_result h (fresh S h x).
  Proof.
    unfold fresh, pure_result. destruct x as [o [u|e]]; simpl.
    - left. exists o. split; reflexivity.
    - right. split; [reflexivity|exists e; reflexivity].
  Qed.

  Lemma err_pure h e : pure_result h (h, Err e).
  Proof. right. split; [reflexivity|exists e; reflexivity]. Qed.

  (* purity of the repaired binary operators: no object of the heap changes, the result is new *)
  Theorem binop_repaired_pure op h x y : pure_result h (binop S small false op h x y).
  Proof.
    unfold binop, tg_add_h, tg_mul_h, tg_sub_h, tg_rsub_h, of_add_h, of_sub_h, of_mul_h, of_rsub_h.
    destruct x as [i|c|]; destruct y as [j|c'|];
      repeat match goal with
             | |- context [obj_cls S ?h ?i] => destruct (obj_cls S h i)
             end;
      destruct op; simpl;
      repeat match goal with
             | |- pure_result _ (fresh _ _ _) => apply fresh_pure
             | |- pure_result _ (_, Err _) => apply err_pure
             | |- pure_result _ (match neg_operand ?a ?b ?c ?d ?e with _ => _ end) =>
                 destruct (neg_operand a b c d e) as [? [?|?]]
             | |- pure_result _ (let '(_, _) := ?t in _) => destruct t as [? [?|?]]
             | |- pure_result _ (match ?t with _ => _ end) => destruct t
             end.
  Qed.

  (* the in-place operators change nothing but the left operand, for the repaired definitions *)
  Lemma hget_hset_other (h : heap) i k o : k <> i -> hget S (hset S h i o) k = hget S h k.
  Proof.
    unfold hget. revert i k. induction h as [|x h IH]; intros i k Hne; [destruct i; reflexivity|].
    destruct i as [|i]; destruct k as [|k]; simpl; try reflexivity; try contradiction.
    apply IH. intro E. apply Hne. f_equal. exact E.
  Qed.

  Lemma hset_length (h : heap) i o : length (hset S h i o) = length h.
  Proof. revert i. induction h as [|x h IH]; intros [|i]; simpl; auto. Qed.

  Theorem iop_repaired_frame op h i y k : k <> i ->
    hget S (fst (iop S small false op h i y)) k = hget S h k.
  Proof.
    intro Hne. unfold iop, tg_isub_h, inplace.
    destruct (obj_cls S h i); destruct op; simpl;
      try (apply hget_hset_other; exact Hne).
    (* Tangelo -= : neg_operand false never touches the heap *)
    unfold neg_operand. destruct y as [j|c|]; simpl; try (apply hget_hset_other; exact Hne); try reflexivity.
    destruct (o_cls (hget S h j)); simpl; apply hget_hset_other; exact Hne.
  Qed.

  (* values of the repaired binary operators on two Tangelo operators with equal attributes *)
  Notation fsum := (fsum S).

  Definition both_tg (h : heap) (i j : nat) : Prop :=
    obj_cls S h i = CTg /\ obj_cls S h j = CTg /\
    attrs_eqb (o_attrs (hget S h i)) (o_attrs (hget S h j)) = true.

  Lemma unalias_terms h i j :
    o_terms (match resolve S h i (VObj j) with RSelf _ => hget S h i | RObj _ o => o | _ => hget S h j end)
    = o_terms (hget S h j).
  Proof.
    unfold resolve. destruct (Nat.eqb i j) eqn:E; [|reflexivity].
    apply Nat.eqb_eq in E. subst j. reflexivity.
  Qed.

  Theorem tg_add_values_repaired h i j : both_tg h i j ->
    exists o, binop S small false Add h (VObj i) (VObj j) = (h ++ [o], Ok (length h)) /\
              o_cls o = CTg /\ o_attrs o = o_attrs (hget S h i) /\
              forall f, fsum (o_terms o) f = fsum (o_terms (hget S h i)) f + fsum (o_terms (hget S h j)) f.
  Proof.
    intros [Hi [Hj Ha]]. unfold binop. rewrite Hi. unfold tg_add_h, resolve.
    destruct (Nat.eqb i j) eqn:E.
    - apply Nat.eqb_eq in E. subst j. unfold tg_iadd. unfold obj_cls in Hi. rewrite Hi, Ha.
      eexists. split; [reflexivity|]. simpl. repeat split; try assumption.
      intro f. apply iadd_terms_sum. exact small_sound.
    - unfold tg_iadd. unfold obj_cls in Hi, Hj. rewrite Hj, Ha.
      eexists. split; [reflexivity|]. simpl. repeat split; try assumption.
      intro f. apply iadd_terms_sum. exact small_sound.
  Qed.

  Theorem tg_mul_values_repaired h i j : both_tg h i j ->
    exists o, binop S small false Mul h (VObj i) (VObj j) = (h ++ [o], Ok (length h)) /\
              o_cls o = CTg /\ o_attrs o = o_attrs (hget S h i) /\
              forall f, fsum (o_terms o) f =
                        fsum (o_terms (hget S h i)) (fun s => fsum (o_terms (hget S h j)) (fun t => f (s ++ t))).
  Proof.
    intros [Hi [Hj Ha]]. unfold binop. rewrite Hi. unfold tg_mul_h, resolve.
    destruct (Nat.eqb i j) eqn:E.
    - apply Nat.eqb_eq in E. subst j. unfold tg_imul. unfold obj_cls in Hi. rewrite Hi, Ha.
      eexists. split; [reflexivity|]. simpl. repeat split; try assumption.
      intro f. apply imul_terms_sum.
    - unfold tg_imul. unfold obj_cls in Hi, Hj. rewrite Hj, Ha.
      eexists. split; [reflexivity|]. simpl. repeat split; try assumption.
      intro f. apply imul_terms_sum.
  Qed.

  Theorem tg_sub_values_repaired h i j : both_tg h i j ->
    exists o, binop S small false Sub h (VObj i) (VObj j) = (h ++ [o], Ok (length h)) /\
              o_cls o = CTg /\ o_attrs o = o_attrs (hget S h i) /\
              forall f, fsum (o_terms o) f = fsum (o_terms (hget S h i)) f - fsum (o_terms (hget S h j)) f.
  Proof.
    intros [Hi [Hj Ha]]. unfold binop. rewrite Hi. unfold tg_sub_h, neg_operand.
    unfold obj_cls in Hi, Hj. rewrite Hj. unfold tg_iadd, negated, with_terms. simpl. rewrite Hj, Ha.
    eexists. split; [reflexivity|]. simpl. repeat split; try assumption.
    intro f. rewrite iadd_terms_sum by exact small_sound. rewrite scale_terms_sum. unfold neg1. ring.
  Qed.

  (* scalar forms (object on either side) *)
  Theorem tg_scalar_values_repaired h i c : obj_cls S h i = CTg ->
    (exists o, binop S small false Mul h (VObj i) (VNum c) = (h ++ [o], Ok (length h)) /\
               forall f, fsum (o_terms o) f = c * fsum (o_terms (hget S h i)) f) /\
    (exists o, binop S small false Mul h (VNum c) (VObj i) = (h ++ [o], Ok (length h)) /\
               forall f, fsum (o_terms o) f = c * fsum (o_terms (hget S h i)) f) /\
    (exists o, binop S small false Add h (VObj i) (VNum c) = (h ++ [o], Ok (length h)) /\
               forall f, fsum (o_terms o) f = fsum (o_terms (hget S h i)) f + c * f []) /\
    (exists o, binop S small false Add h (VNum c) (VObj i) = (h ++ [o], Ok (length h)) /\
               forall f, fsum (o_terms o) f = fsum (o_terms (hget S h i)) f + c * f []) /\
    (exists o, binop S small false Sub h (VObj i) (VNum c) = (h ++ [o], Ok (length h)) /\
               forall f, fsum (o_terms o) f = fsum (o_terms (hget S h i)) f - c * f []) /\
    (exists o, binop S small false Sub h (VNum c) (VObj i) = (h ++ [o], Ok (length h)) /\
               forall f, fsum (o_terms o) f = c * f [] - fsum (o_terms (hget S h i)) f).
  Proof.
    intro Hi. unfold binop. rewrite Hi.
    unfold tg_mul_h, tg_add_h, tg_sub_h, tg_rsub_h, neg_operand, resolve, tg_imul, tg_iadd, fresh; simpl.
    repeat split; eexists; (split; [reflexivity|]); intro f; simpl;
      rewrite ?scale_terms_sum, ?add_const_sum, ?scale_terms_sum; unfold neg1; ring.
  Qed.
End HeapProofs.
