(* Word.v — Pauli words and qubit operators (definitions only; shared by C02, C03, C06, C12, C14, C16).
   A word is the sparse list of its non-identity factors, sorted by strictly increasing qubit index
   (the canonical form of openfermion's term keys ((q, 'X'), ...)); the empty list is the identity.
   Phases are powers of i, kept as an integer exponent modulo 4.
   An operator is a list of (word, coefficient) terms over the ring K of a KS structure; duplicates
   are allowed in the list form, [collapse] merges them (needs a zero test on K to drop zero terms).
   Denotation on QSem states is in Action.v. *)
From Coq Require Import NArith ZArith List Bool.
From Tangelo Require Import Num.KStruct.
Import ListNotations.

Inductive pauli : Type := PX | PY | PZ.

Definition pauli_eqb (a b : pauli) : bool :=
  match a, b with PX, PX | PY, PY | PZ, PZ => true | _, _ => false end.

Definition word : Type := list (N * pauli).

(* product of two single-qubit Paulis: (result, exponent of i); None = identity *)
Definition pmul1 (a b : pauli) : option pauli * Z :=
  match a, b with
  | PX, PX | PY, PY | PZ, PZ => (None, 0%Z)
  | PX, PY => (Some PZ, 1%Z) | PY, PX => (Some PZ, 3%Z)
  | PY, PZ => (Some PX, 1%Z) | PZ, PY => (Some PX, 3%Z)
  | PZ, PX => (Some PY, 1%Z) | PX, PZ => (Some PY, 3%Z)
  end.

(* merge of two sorted words; fuel = length a + length b suffices *)
Fixpoint wmul_fuel (fuel : nat) (a b : word) : word * Z :=
  match fuel with
  | O => ([], 0%Z)
  | S k =>
    match a, b with
    | [], _ => (b, 0%Z)
    | _, [] => (a, 0%Z)
    | (qa, pa) :: a', (qb, pb) :: b' =>
      if N.ltb qa qb then let '(w, e) := wmul_fuel k a' b in ((qa, pa) :: w, e)
      else if N.ltb qb qa then let '(w, e) := wmul_fuel k a b' in ((qb, pb) :: w, e)
      else let '(w, e) := wmul_fuel k a' b' in
           match pmul1 pa pb with
           | (None, e1) => (w, (e + e1)%Z)
           | (Some p, e1) => ((qa, p) :: w, (e + e1)%Z)
           end
    end
  end.
Definition wmul (a b : word) : word * Z := wmul_fuel (length a + length b) a b.

Fixpoint word_eqb (a b : word) : bool :=
  match a, b with
  | [], [] => true
  | (qa, pa) :: a', (qb, pb) :: b' => N.eqb qa qb && pauli_eqb pa pb && word_eqb a' b'
  | _, _ => false
  end.

(* lexicographic order on words (by qubit, then X<Y<Z), used for canonical operator forms *)
Definition pauli_ord (p : pauli) : N := match p with PX => 0%N | PY => 1%N | PZ => 2%N end.
Fixpoint word_ltb (a b : word) : bool :=
  match a, b with
  | [], [] => false
  | [], _ => true
  | _, [] => false
  | (qa, pa) :: a', (qb, pb) :: b' =>
    if N.ltb qa qb then true else if N.ltb qb qa then false
    else if N.ltb (pauli_ord pa) (pauli_ord pb) then true
    else if N.ltb (pauli_ord pb) (pauli_ord pa) then false
    else word_ltb a' b'
  end.

(* number of positions where both words act with different Paulis; they commute iff it is even *)
Fixpoint anti_count (a b : word) (fuel : nat) : nat :=
  match fuel with
  | O => O
  | S k =>
    match a, b with
    | [], _ | _, [] => O
    | (qa, pa) :: a', (qb, pb) :: b' =>
      if N.ltb qa qb then anti_count a' b k
      else if N.ltb qb qa then anti_count a b' k
      else (if pauli_eqb pa pb then 0 else 1) + anti_count a' b' k
    end
  end.
Definition wcommute (a b : word) : bool := Nat.even (anti_count a b (length a + length b)).

Fixpoint sorted_from (lo : option N) (w : word) : bool :=
  match w with
  | [] => true
  | (q, _) :: r => (match lo with None => true | Some l => N.ltb l q end) && sorted_from (Some q) r
  end.
Definition word_wf (w : word) : bool := sorted_from None w.

(* insert a factor in a sorted word (used to canonicalise unsorted input) — fails on a repeated qubit *)
Fixpoint winsert (q : N) (p : pauli) (w : word) : option word :=
  match w with
  | [] => Some [(q, p)]
  | (q', p') :: r =>
    if N.ltb q q' then Some ((q, p) :: w)
    else if N.eqb q q' then None
    else match winsert q p r with Some r' => Some ((q', p') :: r') | None => None end
  end.

Section Op.
  Variable S : KS.
  Open Scope K_scope.
  Notation K := (K S).

  Definition op : Type := list (word * K).

  Definition ipow (e : Z) : K :=
    match (e mod 4)%Z with
    | 0%Z => 1 | 1%Z => ki | 2%Z => - (1) | _ => - ki
    end.

  Definition op_scale (c : K) (a : op) : op := map (fun t => (fst t, c * snd t)) a.
  Definition op_add (a b : op) : op := a ++ b.
  Definition op_opp (a : op) : op := op_scale (- (1)) a.
  Definition op_sub (a b : op) : op := op_add a (op_opp b).
  Definition term_mul (s t : word * K) : word * K :=
    let '(w, e) := wmul (fst s) (fst t) in (w, ipow e * (snd s * snd t)).
  Definition op_mul (a b : op) : op := flat_map (fun s => map (term_mul s) b) a.
  Definition op_adj (a : op) : op := map (fun t => (fst t, kconj (snd t))) a.    (* words are Hermitian *)

  (* merge duplicate words (sorted insertion), then drop terms whose coefficient tests zero *)
  Fixpoint op_insert (t : word * K) (a : op) : op :=
    match a with
    | [] => [t]
    | u :: r =>
      if word_eqb (fst t) (fst u) then (fst u, snd u + snd t) :: r
      else if word_ltb (fst t) (fst u) then t :: a
      else u :: op_insert t r
    end.
  Definition op_merge (a : op) : op := fold_left (fun acc t => op_insert t acc) a [].
  Definition collapse (kzero : K -> bool) (a : op) : op :=
    filter (fun t => negb (kzero (snd t))) (op_merge a).
End Op.
