(* WordProofs.v — the combinatorial half of the shared Pauli algebra (no quantum semantics here;
   the denotational half is ActionProofs.v).  Everything is unbounded: all words, all operators.

   Contents
     sortedness            above, sorted_from_*, word_wf_tail, ...
     fuel-free equations   wmul_nil_l, wmul_nil_r, wmul_cons, wmul_ind (induction principle for merges),
                           acount_* (same for anti_count)
     closure               wmul_sorted, wmul_wf
     involution            wmul_self
     commutation           wmul_swap_word, wmul_swap_phase, wcommute_sym
     powers of i           ipow_spec, ipow_add, ipow_mod_eq, ipow_two_n, wmul_phase_swap_ipow
     equality test         pauli_eqb_eq, word_eqb_eq, word_eqb_refl *)
From Coq Require Import NArith ZArith List Bool Lia.
From Tangelo Require Import Num.KStruct Pauli.Word.
Import ListNotations.

(* ------------------------------------------------------------------ equality tests *)
Lemma pauli_eqb_eq (a b : pauli) : pauli_eqb a b = true <-> a = b.
Proof. destruct a, b; simpl; split; intro H; try reflexivity; discriminate. Qed.

Lemma pauli_eqb_refl (a : pauli) : pauli_eqb a a = true.
Proof. destruct a; reflexivity. Qed.

Lemma word_eqb_eq (a b : word) : word_eqb a b = true <-> a = b.
Proof.
  revert b. induction a as [|[qa pa] a IH]; intros [|[qb pb] b]; simpl; split; intro H;
    try reflexivity; try discriminate.
  - apply andb_true_iff in H. destruct H as [H1 H3]. apply andb_true_iff in H1. destruct H1 as [H1 H2].
    apply N.eqb_eq in H1. apply pauli_eqb_eq in H2. apply IH in H3. subst. reflexivity.
  - inversion H; subst. rewrite N.eqb_refl, pauli_eqb_refl. simpl. apply IH. reflexivity.
Qed.

Lemma word_eqb_refl (a : word) : word_eqb a a = true.
Proof. apply word_eqb_eq. reflexivity. Qed.

Lemma word_eqb_neq (a b : word) : word_eqb a b = false <-> a <> b.
Proof.
  split.
  - intros H E. apply word_eqb_eq in E. rewrite E in H. discriminate.
  - intro H. destruct (word_eqb a b) eqn:E; [|reflexivity]. apply word_eqb_eq in E. contradiction.
Qed.

(* ------------------------------------------------------------------ sortedness *)
Definition qubits (w : word) : list N := map fst w.

(* every qubit of w is above l *)
Definition above (l : N) (w : word) : Prop := forall q, In q (qubits w) -> (l < q)%N.

Definition lo_ok (lo : option N) (q : N) : Prop :=
  match lo with None => True | Some l => (l < q)%N end.

Lemma sorted_from_cons lo q p r :
  sorted_from lo ((q, p) :: r) = true <-> lo_ok lo q /\ sorted_from (Some q) r = true.
Proof.
  simpl. rewrite andb_true_iff. destruct lo as [l|]; simpl.
  - rewrite N.ltb_lt. tauto.
  - tauto.
Qed.

Lemma sorted_from_lower lo q w :
  sorted_from (Some q) w = true -> lo_ok lo q -> sorted_from lo w = true.
Proof.
  destruct w as [|[h p] r]; [reflexivity|]. intros H Hlo.
  apply sorted_from_cons in H. destruct H as [Hq Hr]. apply sorted_from_cons. split; [|exact Hr].
  destruct lo as [l|]; simpl in *; [lia|exact I].
Qed.

Lemma sorted_from_None lo w : sorted_from lo w = true -> sorted_from None w = true.
Proof.
  destruct w as [|[h p] r]; [reflexivity|]. intro H. apply sorted_from_cons in H.
  apply sorted_from_cons. split; [exact I|apply H].
Qed.

Lemma sorted_above l w : sorted_from (Some l) w = true -> above l w.
Proof.
  revert l. induction w as [|[h p] r IH]; intros l H q Hin; [destruct Hin|].
  apply sorted_from_cons in H. destruct H as [Hl Hr]. simpl in Hl, Hin. destruct Hin as [<-|Hin].
  - exact Hl.
  - specialize (IH h Hr q Hin). lia.
Qed.

Lemma above_notin l w : above l w -> ~ In l (qubits w).
Proof. intros H Hin. specialize (H l Hin). lia. Qed.

Lemma above_lt l l' w : (l' <= l)%N -> above l w -> above l' w.
Proof. intros Hle H q Hin. specialize (H q Hin). lia. Qed.

Lemma word_wf_cons q p r : word_wf ((q, p) :: r) = true <-> sorted_from (Some q) r = true.
Proof. unfold word_wf. rewrite sorted_from_cons. simpl. tauto. Qed.

Lemma word_wf_tail q p r : word_wf ((q, p) :: r) = true -> word_wf r = true.
Proof. intro H. apply word_wf_cons in H. exact (sorted_from_None _ _ H). Qed.

Lemma word_wf_head_notin q p r : word_wf ((q, p) :: r) = true -> ~ In q (qubits r).
Proof. intro H. apply word_wf_cons in H. apply above_notin, sorted_above, H. Qed.

Lemma sorted_NoDup lo w : sorted_from lo w = true -> NoDup (qubits w).
Proof.
  revert lo. induction w as [|[h p] r IH]; intros lo H; [constructor|].
  apply sorted_from_cons in H. destruct H as [_ Hr]. simpl. constructor.
  - apply above_notin, sorted_above, Hr.
  - exact (IH _ Hr).
Qed.

(* ------------------------------------------------------------------ wmul without fuel *)
Lemma wmul_fuel_irrel f1 : forall f2 a b,
  length a + length b <= f1 -> length a + length b <= f2 -> wmul_fuel f1 a b = wmul_fuel f2 a b.
Proof.
  induction f1 as [|f1 IH]; intros f2 a b H1 H2.
  - destruct a, b; simpl in H1; try lia. destruct f2; reflexivity.
  - destruct f2 as [|f2].
    + destruct a, b; simpl in H2; try lia. reflexivity.
    + destruct a as [|[qa pa] a']; [reflexivity|]. destruct b as [|[qb pb] b']; [reflexivity|].
      simpl in H1, H2. cbn [wmul_fuel].
      destruct (N.ltb qa qb).
      * rewrite (IH f2 a' ((qb, pb) :: b')) by (simpl; lia). reflexivity.
      * destruct (N.ltb qb qa).
        -- rewrite (IH f2 ((qa, pa) :: a') b') by (simpl; lia). reflexivity.
        -- rewrite (IH f2 a' b') by lia. reflexivity.
Qed.

Lemma wmul_nil_l b : wmul [] b = (b, 0%Z).
Proof. unfold wmul. destruct b; reflexivity. Qed.

Lemma wmul_nil_r a : wmul a [] = (a, 0%Z).
Proof. unfold wmul. destruct a as [|x a]; [reflexivity|]. simpl. destruct x. reflexivity. Qed.

Lemma wmul_cons qa pa a' qb pb b' :
  wmul ((qa, pa) :: a') ((qb, pb) :: b') =
  if N.ltb qa qb then let '(w, e) := wmul a' ((qb, pb) :: b') in ((qa, pa) :: w, e)
  else if N.ltb qb qa then let '(w, e) := wmul ((qa, pa) :: a') b' in ((qb, pb) :: w, e)
  else let '(w, e) := wmul a' b' in
       match pmul1 pa pb with
       | (None, e1) => (w, (e + e1)%Z)
       | (Some p, e1) => ((qa, p) :: w, (e + e1)%Z)
       end.
Proof.
  unfold wmul. cbn [length Nat.add wmul_fuel].
  destruct (N.ltb qa qb).
  - rewrite (wmul_fuel_irrel _ (length a' + length ((qb, pb) :: b')) a' ((qb, pb) :: b'))
      by (simpl; lia). reflexivity.
  - destruct (N.ltb qb qa).
    + rewrite (wmul_fuel_irrel _ (length ((qa, pa) :: a') + length b') ((qa, pa) :: a') b')
        by (simpl; lia). reflexivity.
    + rewrite (wmul_fuel_irrel _ (length a' + length b') a' b') by (simpl; lia). reflexivity.
Qed.

(* induction principle following the merge *)
Lemma wmul_ind (P : word -> word -> Prop) :
  (forall b, P [] b) -> (forall a, P a []) ->
  (forall qa pa a' qb pb b',
      ((qa < qb)%N -> P a' ((qb, pb) :: b')) ->
      ((qb < qa)%N -> P ((qa, pa) :: a') b') ->
      (qa = qb -> P a' b') ->
      P ((qa, pa) :: a') ((qb, pb) :: b')) ->
  forall a b, P a b.
Proof.
  intros Hl Hr Hc. induction a as [|[qa pa] a' IHa]; [exact Hl|].
  induction b as [|[qb pb] b' IHb]; [apply Hr|].
  apply Hc; intros; [apply IHa | apply IHb | apply IHa].
Qed.

(* the three-way comparison used by every merge proof *)
Lemma ltb_cases (qa qb : N) :
  (N.ltb qa qb = true /\ (qa < qb)%N) \/
  (N.ltb qa qb = false /\ N.ltb qb qa = true /\ (qb < qa)%N) \/
  (N.ltb qa qb = false /\ N.ltb qb qa = false /\ qa = qb).
Proof.
  destruct (N.ltb_spec qa qb) as [H1|H1]; [left; auto|].
  destruct (N.ltb_spec qb qa) as [H2|H2]; [right; left; auto|].
  right; right. repeat split. lia.
Qed.

(* ------------------------------------------------------------------ closure under product *)
Lemma wmul_sorted : forall a b lo,
  sorted_from lo a = true -> sorted_from lo b = true -> sorted_from lo (fst (wmul a b)) = true.
Proof.
  apply (wmul_ind (fun a b => forall lo, sorted_from lo a = true -> sorted_from lo b = true ->
                                         sorted_from lo (fst (wmul a b)) = true)).
  - intros b lo _ Hb. rewrite wmul_nil_l. exact Hb.
  - intros a lo Ha _. rewrite wmul_nil_r. exact Ha.
  - intros qa pa a' qb pb b' IH1 IH2 IH3 lo Ha Hb.
    apply sorted_from_cons in Ha. destruct Ha as [Hla Ha].
    apply sorted_from_cons in Hb. destruct Hb as [Hlb Hb].
    rewrite wmul_cons.
    destruct (ltb_cases qa qb) as [[E1 Hlt]|[[E1 [E2 Hlt]]|[E1 [E2 Heq]]]]; rewrite E1; try rewrite E2.
    + specialize (IH1 Hlt (Some qa) Ha).
      destruct (wmul a' ((qb, pb) :: b')) as [w e]. cbn [fst snd] in *.
      apply sorted_from_cons. split; [exact Hla|]. apply IH1.
      apply sorted_from_cons. split; [exact Hlt|exact Hb].
    + specialize (IH2 Hlt (Some qb)).
      destruct (wmul ((qa, pa) :: a') b') as [w e]. cbn [fst snd] in *.
      apply sorted_from_cons. split; [exact Hlb|]. apply IH2; [|exact Hb].
      apply sorted_from_cons. split; [exact Hlt|exact Ha].
    + subst qb. specialize (IH3 eq_refl (Some qa) Ha Hb).
      destruct (wmul a' b') as [w e]. cbn [fst snd] in IH3.
      destruct (pmul1 pa pb) as [[p|] e1]; cbn [fst snd].
      * apply sorted_from_cons. split; [exact Hla|exact IH3].
      * exact (sorted_from_lower lo qa w IH3 Hla).
Qed.

Lemma wmul_wf a b : word_wf a = true -> word_wf b = true -> word_wf (fst (wmul a b)) = true.
Proof. apply wmul_sorted. Qed.

(* ------------------------------------------------------------------ involution *)
Lemma pmul1_self p : pmul1 p p = (None, 0%Z).
Proof. destruct p; reflexivity. Qed.

Lemma wmul_self w : wmul w w = ([], 0%Z).
Proof.
  induction w as [|[q p] w IH]; [reflexivity|].
  rewrite wmul_cons, N.ltb_irrefl, IH, pmul1_self. reflexivity.
Qed.

(* ------------------------------------------------------------------ anti_count without fuel *)
Definition acount (a b : word) : nat := anti_count a b (length a + length b).

Lemma anti_count_irrel f1 : forall f2 a b,
  length a + length b <= f1 -> length a + length b <= f2 -> anti_count a b f1 = anti_count a b f2.
Proof.
  induction f1 as [|f1 IH]; intros f2 a b H1 H2.
  - destruct a, b; simpl in H1; try lia. destruct f2; reflexivity.
  - destruct f2 as [|f2].
    + destruct a, b; simpl in H2; try lia. reflexivity.
    + destruct a as [|[qa pa] a']; [reflexivity|]. destruct b as [|[qb pb] b']; [reflexivity|].
      simpl in H1, H2. cbn [anti_count].
      destruct (N.ltb qa qb).
      * apply IH; simpl; lia.
      * destruct (N.ltb qb qa).
        -- apply IH; simpl; lia.
        -- f_equal. apply IH; lia.
Qed.

Lemma acount_nil_l b : acount [] b = 0.
Proof. unfold acount. destruct b; reflexivity. Qed.

Lemma acount_nil_r a : acount a [] = 0.
Proof. unfold acount. destruct a as [|[q p] a]; reflexivity. Qed.

Lemma acount_cons qa pa a' qb pb b' :
  acount ((qa, pa) :: a') ((qb, pb) :: b') =
  if N.ltb qa qb then acount a' ((qb, pb) :: b')
  else if N.ltb qb qa then acount ((qa, pa) :: a') b'
  else (if pauli_eqb pa pb then 0 else 1) + acount a' b'.
Proof.
  unfold acount at 1. cbn [length Nat.add anti_count].
  destruct (N.ltb qa qb).
  - unfold acount. apply anti_count_irrel; simpl; lia.
  - destruct (N.ltb qb qa).
    + unfold acount. apply anti_count_irrel; simpl; lia.
    + f_equal. unfold acount. apply anti_count_irrel; simpl; lia.
Qed.

Lemma wcommute_acount a b : wcommute a b = Nat.even (acount a b).
Proof. reflexivity. Qed.

(* ------------------------------------------------------------------ commutation: word and phase *)
Lemma pmul1_swap pa pb :
  fst (pmul1 pb pa) = fst (pmul1 pa pb) /\
  (snd (pmul1 pb pa) = (if pauli_eqb pa pb then 0 else 4) - snd (pmul1 pa pb))%Z /\
  (if pauli_eqb pa pb then snd (pmul1 pa pb) = 0%Z
   else snd (pmul1 pa pb) = 1%Z \/ snd (pmul1 pa pb) = 3%Z).
Proof. destruct pa, pb; simpl; repeat split; auto. Qed.

Lemma wmul_swap : forall a b,
  fst (wmul b a) = fst (wmul a b) /\
  (snd (wmul b a) mod 4 = (snd (wmul a b) + 2 * Z.of_nat (acount a b)) mod 4)%Z.
Proof.
  apply (wmul_ind (fun a b => fst (wmul b a) = fst (wmul a b) /\
    (snd (wmul b a) mod 4 = (snd (wmul a b) + 2 * Z.of_nat (acount a b)) mod 4)%Z)).
  - intro b. rewrite wmul_nil_l, wmul_nil_r, acount_nil_l. split; reflexivity.
  - intro a. rewrite wmul_nil_l, wmul_nil_r, acount_nil_r. split; reflexivity.
  - intros qa pa a' qb pb b' IH1 IH2 IH3.
    rewrite (wmul_cons qa pa a' qb pb b'), (wmul_cons qb pb b' qa pa a'), acount_cons.
    destruct (ltb_cases qa qb) as [[E1 Hlt]|[[E1 [E2 Hlt]]|[E1 [E2 Heq]]]]; rewrite E1; try rewrite E2.
    + assert (E2 : N.ltb qb qa = false) by (apply N.ltb_ge; lia). rewrite E2.
      specialize (IH1 Hlt). destruct IH1 as [IHw IHe].
      destruct (wmul a' ((qb, pb) :: b')) as [w e]. destruct (wmul ((qb, pb) :: b') a') as [w' e'].
      cbn [fst snd] in *. subst w'. split; [reflexivity|exact IHe].
    + specialize (IH2 Hlt). destruct IH2 as [IHw IHe].
      destruct (wmul ((qa, pa) :: a') b') as [w e]. destruct (wmul b' ((qa, pa) :: a')) as [w' e'].
      cbn [fst snd] in *. subst w'. split; [reflexivity|exact IHe].
    + subst qb. specialize (IH3 eq_refl). destruct IH3 as [IHw IHe].
      destruct (wmul a' b') as [w e]. destruct (wmul b' a') as [w' e'].
      cbn [fst snd] in IHw, IHe. subst w'.
      destruct (pmul1_swap pa pb) as [Hp [He Hv]].
      destruct (pmul1 pa pb) as [o e1]. destruct (pmul1 pb pa) as [o' e1']. cbn [fst snd] in Hp, He, Hv. subst o'.
      assert (Hgoal : ((e' + e1') mod 4 =
                       (e + e1 + 2 * Z.of_nat ((if pauli_eqb pa pb then 0 else 1) + acount a' b')) mod 4)%Z).
      { rewrite Nat2Z.inj_add. destruct (pauli_eqb pa pb); subst e1'; simpl Z.of_nat;
          [subst e1 | destruct Hv as [Hv|Hv]; subst e1];
          revert IHe; Z.to_euclidean_division_equations; lia. }
      destruct o as [p|]; cbn [fst snd]; split; try reflexivity; exact Hgoal.
Qed.

Lemma wmul_swap_word a b : fst (wmul b a) = fst (wmul a b).
Proof. apply wmul_swap. Qed.

Lemma wmul_swap_phase a b :
  (snd (wmul b a) mod 4 = (snd (wmul a b) + (if wcommute a b then 0 else 2)) mod 4)%Z.
Proof.
  destruct (wmul_swap a b) as [_ H]. rewrite H, wcommute_acount.
  destruct (Nat.even (acount a b)) eqn:E.
  - apply Nat.even_spec in E. destruct E as [k Hk]. rewrite Hk, Nat2Z.inj_mul. simpl Z.of_nat.
    Z.to_euclidean_division_equations. lia.
  - assert (Ho : Nat.odd (acount a b) = true) by (rewrite <- Nat.negb_even, E; reflexivity).
    apply Nat.odd_spec in Ho. destruct Ho as [k Hk]. rewrite Hk, Nat2Z.inj_add, Nat2Z.inj_mul.
    simpl Z.of_nat. Z.to_euclidean_division_equations. lia.
Qed.

Lemma acount_sym : forall a b, acount b a = acount a b.
Proof.
  apply (wmul_ind (fun a b => acount b a = acount a b)).
  - intro b. rewrite acount_nil_l, acount_nil_r. reflexivity.
  - intro a. rewrite acount_nil_l, acount_nil_r. reflexivity.
  - intros qa pa a' qb pb b' IH1 IH2 IH3.
    rewrite (acount_cons qa pa a' qb pb b'), (acount_cons qb pb b' qa pa a').
    destruct (ltb_cases qa qb) as [[E1 Hlt]|[[E1 [E2 Hlt]]|[E1 [E2 Heq]]]]; rewrite E1; try rewrite E2.
    + assert (E2 : N.ltb qb qa = false) by (apply N.ltb_ge; lia). rewrite E2. apply IH1, Hlt.
    + apply IH2, Hlt.
    + rewrite (IH3 Heq). f_equal. destruct pa, pb; reflexivity.
Qed.

Lemma wcommute_sym a b : wcommute b a = wcommute a b.
Proof. rewrite !wcommute_acount, acount_sym. reflexivity. Qed.

Lemma wcommute_self a : wcommute a a = true.
Proof.
  rewrite wcommute_acount. induction a as [|[q p] a IH]; [reflexivity|].
  rewrite acount_cons, N.ltb_irrefl, pauli_eqb_refl. exact IH.
Qed.

Lemma wcommute_nil_l b : wcommute [] b = true.
Proof. rewrite wcommute_acount, acount_nil_l. reflexivity. Qed.

(* ------------------------------------------------------------------ powers of i *)
Section IPow.
  Variable S : KS.
  Add Ring kring : (k_ring S).
  Open Scope K_scope.

  Lemma ipow_spec (e : Z) :
    ((e mod 4 = 0)%Z /\ ipow S e = 1) \/ ((e mod 4 = 1)%Z /\ ipow S e = ki) \/
    ((e mod 4 = 2)%Z /\ ipow S e = - (1)) \/ ((e mod 4 = 3)%Z /\ ipow S e = - ki).
  Proof.
    unfold ipow. pose proof (Z.mod_pos_bound e 4 ltac:(lia)) as Hb.
    assert (H : (e mod 4 = 0 \/ e mod 4 = 1 \/ e mod 4 = 2 \/ e mod 4 = 3)%Z) by lia.
    destruct H as [E|[E|[E|E]]]; rewrite E; auto 10.
  Qed.

  Lemma ipow_mod_eq (a b : Z) : (a mod 4 = b mod 4)%Z -> ipow S a = ipow S b.
  Proof. unfold ipow. intros ->. reflexivity. Qed.

  Lemma ipow_0 : ipow S 0 = 1.
  Proof. reflexivity. Qed.

  Lemma ki_sq_l (x : K S) : ki * (ki * x) = - x.
  Proof. ring [(@k_ii S)]. Qed.

  Lemma ipow_add (a b : Z) : ipow S (a + b) = ipow S a * ipow S b.
  Proof.
    destruct (ipow_spec a) as [[Ea Ha]|[[Ea Ha]|[[Ea Ha]|[Ea Ha]]]];
    destruct (ipow_spec b) as [[Eb Hb]|[[Eb Hb]|[[Eb Hb]|[Eb Hb]]]];
    destruct (ipow_spec (a + b)) as [[Es Hs]|[[Es Hs]|[[Es Hs]|[Es Hs]]]];
    rewrite Z.add_mod in Es by lia; rewrite Ea, Eb in Es; try discriminate Es;
    rewrite Ha, Hb, Hs; ring [(@k_ii S)].
  Qed.

  Lemma ipow_two_n (n : nat) : ipow S (2 * Z.of_nat n) = if Nat.even n then 1 else - (1).
  Proof.
    destruct (Nat.even n) eqn:E.
    - apply Nat.even_spec in E. destruct E as [k Hk]. rewrite <- ipow_0. apply ipow_mod_eq.
      rewrite Hk, Nat2Z.inj_mul. simpl Z.of_nat. Z.to_euclidean_division_equations. lia.
    - assert (Ho : Nat.odd n = true) by (rewrite <- Nat.negb_even, E; reflexivity).
      apply Nat.odd_spec in Ho. destruct Ho as [k Hk].
      transitivity (ipow S 2); [|reflexivity]. apply ipow_mod_eq.
      rewrite Hk, Nat2Z.inj_add, Nat2Z.inj_mul. simpl Z.of_nat. Z.to_euclidean_division_equations. lia.
  Qed.

  Lemma ipow_2 : ipow S 2 = - (1).
  Proof. reflexivity. Qed.

  (* fourth roots of unity: a unit with explicit inverse *)
  Lemma ipow_inv (e : Z) : ipow S e * ipow S (- e) = 1.
  Proof. rewrite <- ipow_add. replace (e + - e)%Z with 0%Z by lia. reflexivity. Qed.

  Lemma ipow_conj (e : Z) : kconj (ipow S e) = ipow S (- e).
  Proof.
    destruct (ipow_spec e) as [[Ea Ha]|[[Ea Ha]|[[Ea Ha]|[Ea Ha]]]];
    destruct (ipow_spec (- e)) as [[Es Hs]|[[Es Hs]|[[Es Hs]|[Es Hs]]]];
    try (exfalso; Z.to_euclidean_division_equations; lia);
    rewrite Ha, Hs; rewrite ?kconj_opp, ?kconj_1, ?kconj_i; try reflexivity; ring.
  Qed.

  (* exchanging the factors of a word product: same word, phase equal or opposite *)
  Lemma wmul_phase_swap_ipow (a b : word) :
    ipow S (snd (wmul b a)) =
    if wcommute a b then ipow S (snd (wmul a b)) else - ipow S (snd (wmul a b)).
  Proof.
    rewrite (ipow_mod_eq _ _ (wmul_swap_phase a b)), ipow_add.
    destruct (wcommute a b).
    - rewrite ipow_0. ring.
    - rewrite ipow_2. ring.
  Qed.
End IPow.

(* wcommute a b = true  iff  the two products carry the same phase (mod 4); otherwise they differ by 2 *)
Lemma wcommute_iff_phase a b :
  wcommute a b = true <-> (snd (wmul a b) mod 4 = snd (wmul b a) mod 4)%Z.
Proof.
  pose proof (wmul_swap_phase a b) as H. destruct (wcommute a b); split; intro H1.
  - rewrite H. f_equal. lia.
  - reflexivity.
  - discriminate.
  - exfalso. rewrite H in H1. revert H1. Z.to_euclidean_division_equations. lia.
Qed.

Lemma wanticommute_phase a b :
  wcommute a b = false -> (snd (wmul b a) mod 4 = (snd (wmul a b) + 2) mod 4)%Z.
Proof. intro H. pose proof (wmul_swap_phase a b) as H1. rewrite H in H1. exact H1. Qed.
