(* Store.v — object-store model of the arithmetic dunder methods of Tangelo's operator classes
   (tangelo/toolboxes/operators/operators.py), definitions only; proofs in StoreProofs.v.

   Objects have identities (index in the heap) because the property is about mutation and aliasing.
   Two variants of every Tangelo method exist (DESIGN §5.2): [asis = true] follows the source as
   written (FermionOperator.__add__/__radd__/__sub__/__mul__ delegate to the in-place methods on
   self), [asis = false] is the minimal repair (operate on copy.deepcopy(self)).
   openfermion's SymbolicOperator methods that the Tangelo methods delegate to (__iadd__, __imul__,
   __rmul__, __neg__, __truediv__, deepcopy-based __add__/__sub__/__mul__ of the parent class) are
   modelled as they are written in openfermion 1.8; they are external code, tied by correspondence.

   Python binary-operator dispatch is modelled for the operand kinds of the property: Tangelo
   FermionOperator (CTg), openfermion FermionOperator (COf), scalars, and None (a non-operator).
   A term dictionary is an association list in insertion order (Python dict semantics).

   The second part models the attribute tests of QubitHamiltonian.__iadd__ / __eq__. *)
From Coq Require Import NArith ZArith List Bool String.
From Tangelo Require Import Num.KStruct Fermion.Fock.
Import ListNotations.
Open Scope list_scope.

Inductive perr : Type := RuntimeError | TypeError | AttributeError.
Inductive res (X : Type) : Type := Ok (x : X) | Err (e : perr).
Arguments Ok {X}. Arguments Err {X}.

Definition ladder_eqb (a b : ladder) : bool := N.eqb (fst a) (fst b) && Bool.eqb (snd a) (snd b).
Fixpoint fterm_eqb (a b : fterm) : bool :=
  match a, b with
  | [], [] => true
  | x :: a', y :: b' => ladder_eqb x y && fterm_eqb a' b'
  | _, _ => false
  end.

Inductive cls : Type := CTg | COf.
Definition cls_eqb (a b : cls) : bool := match a, b with CTg, CTg | COf, COf => true | _, _ => false end.

(* n_spinorbitals, n_electrons, spin *)
Record attrs : Type := mkAttrs { a_nso : option Z; a_nel : option Z; a_spin : option Z }.
Definition oz_eqb (a b : option Z) : bool :=
  match a, b with None, None => true | Some x, Some y => Z.eqb x y | _, _ => false end.
Definition attrs_eqb (a b : attrs) : bool :=
  oz_eqb (a_nso a) (a_nso b) && oz_eqb (a_nel a) (a_nel b) && oz_eqb (a_spin a) (a_spin b).
Definition no_attrs : attrs := mkAttrs None None None.

Inductive bop : Type := Add | Sub | Mul.

Section Store.
  Variable S : KS.
  Open Scope K_scope.
  Notation K := (K S).
  Variable small : K -> bool.             (* SymbolicOperator._issmall: abs(val) < EQ_TOLERANCE *)

  Definition fdict : Type := list (fterm * K).

  (* ---- Python dict operations ---- *)
  Fixpoint dget (t : fterm) (d : fdict) : option K :=
    match d with
    | [] => None
    | (u, v) :: r => if fterm_eqb t u then Some v else dget t r
    end.
  (* d[t] = v : in place if the key exists, appended otherwise *)
  Fixpoint dset (t : fterm) (v : K) (d : fdict) : fdict :=
    match d with
    | [] => [(t, v)]
    | (u, w) :: r => if fterm_eqb t u then (u, v) :: r else (u, w) :: dset t v r
    end.
  Fixpoint ddel (t : fterm) (d : fdict) : fdict :=
    match d with
    | [] => []
    | (u, w) :: r => if fterm_eqb t u then r else (u, w) :: ddel t r
    end.
  Definition dget0 (t : fterm) (d : fdict) : K := match dget t d with Some v => v | None => 0 end.

  (* SymbolicOperator.__iadd__ / __isub__, operator addend that is not the object itself:
       for term in addend.terms:
           self.terms[term] = self.terms.get(term, 0) +/- addend.terms[term]
           if self._issmall(self.terms[term]): del self.terms[term]                          *)
  Definition iadd_step (neg : bool) (d : fdict) (tc : fterm * K) : fdict :=
    let v := if neg then dget0 (fst tc) d - snd tc else dget0 (fst tc) d + snd tc in
    let d1 := dset (fst tc) v d in
    if small v then ddel (fst tc) d1 else d1.
  Definition iadd_terms (d addend : fdict) : fdict := fold_left (iadd_step false) addend d.
  Definition isub_terms (d addend : fdict) : fdict := fold_left (iadd_step true) addend d.

  (* the same loop when addend IS self (a += a): every value is doubled in place; the first deletion
     changes the size of the dict being iterated and the next step of the iteration raises
     RuntimeError, leaving the prefix doubled, that key deleted and the rest untouched *)
  Fixpoint iadd_alias (d : fdict) : fdict * bool :=       (* (new dict, raised) *)
    match d with
    | [] => ([], false)
    | (t, v) :: r =>
      if small (v + v) then (r, true)
      else let '(r', e) := iadd_alias r in ((t, v + v) :: r', e)
    end.

  (* SymbolicOperator.__imul__ with an operator: result_terms built from scratch, then assigned *)
  Definition dacc (t : fterm) (c : K) (d : fdict) : fdict :=
    match dget t d with Some v => dset t (v + c) d | None => dset t c d end.
  Definition imul_terms (a b : fdict) : fdict :=
    fold_left (fun acc s =>
                 fold_left (fun acc t => dacc (fst s ++ fst t) (snd s * snd t) acc) b acc) a [].
  (* with a scalar: self.terms[term] *= multiplier *)
  Definition scale_terms (c : K) (a : fdict) : fdict := map (fun t => (fst t, snd t * c)) a.
  (* self.constant += c : terms[()] = terms.get((), 0.0) + c, never deleted *)
  Definition add_const (c : K) (a : fdict) : fdict := dset [] (dget0 [] a + c) a.
  Definition sub_const (c : K) (a : fdict) : fdict := dset [] (dget0 [] a - c) a.

  (* ---- objects and heap ---- *)
  Record fobj : Type := mkObj { o_cls : cls; o_attrs : attrs; o_terms : fdict }.
  Definition heap : Type := list fobj.
  Definition dummy : fobj := mkObj COf no_attrs [].
  Definition hget (h : heap) (i : nat) : fobj := nth i h dummy.
  Fixpoint hset (h : heap) (i : nat) (o : fobj) : heap :=
    match h, i with
    | [], _ => []
    | _ :: r, O => o :: r
    | x :: r, Datatypes.S k => x :: hset r k o
    end.
  Definition with_terms (o : fobj) (d : fdict) : fobj := mkObj (o_cls o) (o_attrs o) d.

  (* operands as the harness passes them *)
  Inductive value : Type := VObj (i : nat) | VNum (c : K) | VNone.
  (* an operand seen from inside a method of object i: resolved against the heap *)
  Inductive rval : Type :=
  | RSelf                      (* the very same object *)
  | RObj (o : fobj)            (* another object (or an unnamed temporary) *)
  | RNum (c : K)
  | RNone.
  Definition resolve (h : heap) (i : nat) (v : value) : rval :=
    match v with
    | VObj j => if Nat.eqb i j then RSelf else RObj (hget h j)
    | VNum c => RNum c
    | VNone => RNone
    end.

  (* ---- methods acting on one object (self), given the resolved operand ----
     result: (new contents of self, outcome).  A raised exception may leave self modified. *)

  (* FermionOperator.__imul__ (Tangelo, operators.py:42-59) *)
  Definition tg_imul (self : fobj) (other : rval) : fobj * res unit :=
    match other with
    | RSelf => (with_terms self (imul_terms (o_terms self) (o_terms self)), Ok tt)
    | RObj o =>
      match o_cls o with
      | CTg => if attrs_eqb (o_attrs self) (o_attrs o)
               then (with_terms self (imul_terms (o_terms self) (o_terms o)), Ok tt)
               else (self, Err RuntimeError)
      | COf => if attrs_eqb (o_attrs self) no_attrs
               then (with_terms self (imul_terms (o_terms self) (o_terms o)), Ok tt)
               else (self, Err RuntimeError)
      end
    | RNum c => (with_terms self (scale_terms c (o_terms self)), Ok tt)
    | RNone => (self, Err TypeError)
    end.

  (* FermionOperator.__iadd__ (Tangelo, operators.py:64-85) *)
  Definition tg_iadd (self : fobj) (other : rval) : fobj * res unit :=
    match other with
    | RSelf => let '(d, raised) := iadd_alias (o_terms self) in
               (with_terms self d, if raised then Err RuntimeError else Ok tt)
    | RObj o =>
      match o_cls o with
      | CTg => if attrs_eqb (o_attrs self) (o_attrs o)
               then (with_terms self (iadd_terms (o_terms self) (o_terms o)), Ok tt)
               else (self, Err RuntimeError)
      | COf => if attrs_eqb (o_attrs self) no_attrs
               then (with_terms self (iadd_terms (o_terms self) (o_terms o)), Ok tt)
               else (self, Err RuntimeError)
      end
    | RNum c => (with_terms self (add_const c (o_terms self)), Ok tt)
    | RNone => (self, Err RuntimeError)
    end.

  (* openfermion SymbolicOperator.__imul__ / __iadd__ / __isub__ on an openfermion object *)
  Definition of_imul (self : fobj) (other : rval) : fobj * res unit :=
    match other with
    | RSelf => (with_terms self (imul_terms (o_terms self) (o_terms self)), Ok tt)
    | RObj o => (with_terms self (imul_terms (o_terms self) (o_terms o)), Ok tt)
    | RNum c => (with_terms self (scale_terms c (o_terms self)), Ok tt)
    | RNone => (self, Err TypeError)
    end.
  Definition of_iadd (self : fobj) (other : rval) : fobj * res unit :=
    match other with
    | RSelf => let '(d, raised) := iadd_alias (o_terms self) in
               (with_terms self d, if raised then Err RuntimeError else Ok tt)
    | RObj o => (with_terms self (iadd_terms (o_terms self) (o_terms o)), Ok tt)
    | RNum c => (with_terms self (add_const c (o_terms self)), Ok tt)
    | RNone => (self, Err TypeError)
    end.
  (* a -= a on an openfermion object: every value becomes v - v, small, deleted at once -> raises *)
  Definition of_isub (self : fobj) (other : rval) : fobj * res unit :=
    match other with
    | RSelf => match o_terms self with
               | [] => (self, Ok tt)
               | (t, v) :: r => if small (v - v) then (with_terms self r, Err RuntimeError)
                                else (self, Ok tt)      (* unreachable for a sound [small] *)
               end
    | RObj o => (with_terms self (isub_terms (o_terms self) (o_terms o)), Ok tt)
    | RNum c => (with_terms self (sub_const c (o_terms self)), Ok tt)
    | RNone => (self, Err TypeError)
    end.

  Definition neg1 : K := - (1).
  Definition negated (o : fobj) : fobj := with_terms o (scale_terms neg1 (o_terms o)).

  (* ---- heap-level operations: (new heap, result object id or exception) ---- *)
  Definition hres : Type := (heap * res nat)%type.

  Definition inplace (h : heap) (i : nat) (r : fobj * res unit) : hres :=
    (hset h i (fst r), match snd r with Ok _ => Ok i | Err e => Err e end).
  (* result computed on a deep copy of object i: a new object is allocated when no exception occurs *)
  Definition fresh (h : heap) (r : fobj * res unit) : hres :=
    match snd r with Ok _ => ((h ++ [fst r])%list, Ok (List.length h)) | Err e => (h, Err e) end.

  (* `-1. * other` as evaluated inside FermionOperator.__isub__: for a Tangelo operand this is
     other.__rmul__(-1.) = other * -1. = other.__mul__(-1.), which as written multiplies OTHER in place *)
  Definition neg_operand (asis : bool) (h : heap) (i : nat) (other : value) : heap * res rval :=
    match other with
    | VNum c => (h, Ok (RNum (neg1 * c)))
    | VNone => (h, Err TypeError)
    | VObj j =>
      let o := hget h j in
      match o_cls o with
      | COf => (h, Ok (RObj (negated o)))                       (* openfermion: a new object *)
      | CTg => if asis
               then let h1 := hset h j (negated o) in
                    (h1, Ok (if Nat.eqb i j then RSelf else RObj (negated o)))
               else (h, Ok (RObj (negated o)))
      end
    end.

  (* FermionOperator.__isub__ : return self.__iadd__(-1. * other) *)
  Definition tg_isub_h (asis : bool) (h : heap) (i : nat) (other : value) : hres :=
    match neg_operand asis h i other with
    | (h1, Err e) => (h1, Err e)
    | (h1, Ok r) => inplace h1 i (tg_iadd (hget h1 i) r)
    end.

  (* FermionOperator.__add__ / __radd__ : return self.__iadd__(other)          [repaired: on a copy] *)
  Definition tg_add_h (asis : bool) (h : heap) (i : nat) (other : value) : hres :=
    if asis then inplace h i (tg_iadd (hget h i) (resolve h i other))
    else fresh h (tg_iadd (hget h i) (match resolve h i other with RSelf => RObj (hget h i) | r => r end)).
  (* FermionOperator.__mul__ : return self.__imul__(other)                      [repaired: on a copy] *)
  Definition tg_mul_h (asis : bool) (h : heap) (i : nat) (other : value) : hres :=
    if asis then inplace h i (tg_imul (hget h i) (resolve h i other))
    else fresh h (tg_imul (hget h i) (match resolve h i other with RSelf => RObj (hget h i) | r => r end)).
  (* FermionOperator.__sub__ : return self.__isub__(other)                      [repaired: on a copy] *)
  Definition tg_sub_h (asis : bool) (h : heap) (i : nat) (other : value) : hres :=
    if asis then tg_isub_h true h i other
    else match neg_operand false h i other with
         | (_, Err e) => (h, Err e)
         | (_, Ok r) => fresh h (tg_iadd (hget h i) r)
         end.
  (* FermionOperator.__rsub__ : return -1 * self.__isub__(other); -1 * x = x.__rmul__(-1) = x * -1 *)
  Definition tg_rsub_h (asis : bool) (h : heap) (i : nat) (other : value) : hres :=
    if asis then
      match tg_isub_h true h i other with
      | (h1, Ok k) => inplace h1 k (tg_imul (hget h1 k) (RNum neg1))
      | r => r
      end
    else match neg_operand false h i other with
         | (_, Err e) => (h, Err e)
         | (_, Ok r) => let '(o1, out) := tg_iadd (hget h i) r in
                        match out with
                        | Ok _ => fresh h (tg_imul o1 (RNum neg1))
                        | Err e => (h, Err e)
                        end
         end.

  (* openfermion parent-class operators on an openfermion object: deepcopy, then the in-place method *)
  Definition unalias (h : heap) (i : nat) (other : value) : rval :=
    match resolve h i other with RSelf => RObj (hget h i) | r => r end.
  Definition of_add_h (h : heap) (i : nat) (other : value) : hres := fresh h (of_iadd (hget h i) (unalias h i other)).
  Definition of_sub_h (h : heap) (i : nat) (other : value) : hres := fresh h (of_isub (hget h i) (unalias h i other)).
  Definition of_mul_h (h : heap) (i : nat) (other : value) : hres := fresh h (of_imul (hget h i) (unalias h i other)).
  (* SymbolicOperator.__rsub__ : return -1 * self + subtrahend *)
  Definition of_rsub_h (h : heap) (i : nat) (other : value) : hres :=
    fresh h (of_iadd (negated (hget h i)) (unalias h i other)).

  Definition obj_cls (h : heap) (i : nat) : cls := o_cls (hget h i).

  (* x <op> y *)
  Definition binop (asis : bool) (op : bop) (h : heap) (x y : value) : hres :=
    match x, y with
    | VObj i, VObj j =>
      match obj_cls h i, obj_cls h j with
      | CTg, _ => match op with Add => tg_add_h asis h i y | Sub => tg_sub_h asis h i y | Mul => tg_mul_h asis h i y end
      | COf, CTg =>
        (* the right operand's class is a subclass overriding __radd__ / __rsub__ : tried first *)
        match op with Add => tg_add_h asis h j x | Sub => tg_rsub_h asis h j x | Mul => of_mul_h h i y end
      | COf, COf => match op with Add => of_add_h h i y | Sub => of_sub_h h i y | Mul => of_mul_h h i y end
      end
    | VObj i, _ =>
      match obj_cls h i with
      | CTg => match op with Add => tg_add_h asis h i y | Sub => tg_sub_h asis h i y | Mul => tg_mul_h asis h i y end
      | COf => match op with Add => of_add_h h i y | Sub => of_sub_h h i y | Mul => of_mul_h h i y end
      end
    | _, VObj j =>
      (* scalar / None on the left: the reflected method of the object.
         __rmul__ (inherited) rejects non-scalars with TypeError, else returns self * multiplier *)
      match obj_cls h j with
      | CTg => match op with
               | Add => tg_add_h asis h j x
               | Sub => tg_rsub_h asis h j x
               | Mul => match x with VNone => (h, Err TypeError) | _ => tg_mul_h asis h j x end
               end
      | COf => match op with
               | Add => of_add_h h j x
               | Sub => of_rsub_h h j x
               | Mul => match x with VNone => (h, Err TypeError) | _ => of_mul_h h j x end
               end
      end
    | _, _ => (h, Err TypeError)
    end.

  (* x <op>= y  (x an object): the in-place methods *)
  Definition iop (asis : bool) (op : bop) (h : heap) (i : nat) (y : value) : hres :=
    match obj_cls h i with
    | CTg => match op with
             | Add => inplace h i (tg_iadd (hget h i) (resolve h i y))
             | Sub => tg_isub_h asis h i y
             | Mul => inplace h i (tg_imul (hget h i) (resolve h i y))
             end
    | COf => match op with
             | Add => inplace h i (of_iadd (hget h i) (resolve h i y))
             | Sub => inplace h i (of_isub (hget h i) (resolve h i y))
             | Mul => inplace h i (of_imul (hget h i) (resolve h i y))
             end
    end.

  (* -x  = -1 * x = x.__rmul__(-1) = x * -1 ;   x / 2 = x * (1.0 / 2) *)
  Definition uneg (asis : bool) (h : heap) (i : nat) : hres :=
    match obj_cls h i with CTg => tg_mul_h asis h i (VNum neg1) | COf => of_mul_h h i (VNum neg1) end.
  Definition uhalf (asis : bool) (h : heap) (i : nat) : hres :=
    match obj_cls h i with CTg => tg_mul_h asis h i (VNum khalf) | COf => of_mul_h h i (VNum khalf) end.

  (* ---- QubitHamiltonian.__iadd__ / __eq__ attribute tests (operators.py:288-314) ---- *)
  Record qattrs : Type := mkQ { q_mapping : option string; q_utd : option bool }.
  (* the other operand: Some attributes for a QubitHamiltonian, None for a plain QubitOperator
     (which has neither attribute) *)
  Definition ob_eqb (a b : bool) : bool := Bool.eqb a b.

  Variable upper : string -> string.        (* str.upper *)

  (* Ok None: check passes or is skipped; Ok (Some e): the method raises e / reports a mismatch *)
  Inductive qverdict : Type := QPass | QMappingDiffers | QOrderDiffers.
  Definition qh_check (asis : bool) (self : qattrs) (other : option qattrs) : res qverdict :=
    match q_mapping self, q_utd self with
    | Some ms, Some us =>
      match other with
      | None => if asis then Err AttributeError else Ok QPass     (* other_hamiltonian.mapping *)
      | Some oa =>
        match q_mapping oa, q_utd oa with
        | Some mo, Some uo =>
          if negb (String.eqb (upper ms) (upper mo)) then Ok QMappingDiffers
          else if negb (ob_eqb us uo) then Ok QOrderDiffers else Ok QPass
        | _, _ => Ok QPass
        end
      end
    | _, _ => Ok QPass
    end.
  (* outcome of h += other before the dictionaries are touched: the check, then
     super().__iadd__(other) which needs isinstance(other, type(self)) *)
  Definition qh_iadd_outcome (asis : bool) (self : qattrs) (other : option qattrs) : res unit :=
    match qh_check asis self other with
    | Err e => Err e
    | Ok QPass => match other with
                  | None => if asis then Err TypeError else Ok tt       (* plain operand not converted *)
                  | Some _ => Ok tt
                  end
    | Ok _ => Err RuntimeError
    end.
  (* outcome of h == other: Ok false on mismatch, Ok true = "compare the dictionaries" *)
  Definition qh_eq_outcome (asis : bool) (self : qattrs) (other : option qattrs) : res bool :=
    match qh_check asis self other with
    | Err e => Err e
    | Ok QPass => Ok true
    | Ok _ => Ok false
    end.
End Store.

Arguments mkObj {_}. Arguments o_cls {_}. Arguments o_attrs {_}. Arguments o_terms {_}.
Arguments VObj {_}. Arguments VNum {_}. Arguments VNone {_}.
