(* ActionProofs.v — the denotational half of the shared Pauli algebra: Pauli words and qubit operators
   acting on QSem states.  Generic over the number structure S : KS; unbounded (all well-formed words,
   all operators, all states, all basis indices).  No axiom: equality of states is stated pointwise.

   Contents (main statements)
     app1_ext, app1_comm, app1_scale, app1_add          one-qubit matrices on states
     app1_pauli_mul                                     P_q (P'_q psi) = i^e (PP')_q psi, against pmul1
     word_den_ext, word_den_app1_comm, word_den_scale, word_den_add
     word_den_closed_form   word_den w psi x = word_phase w x * psi (word_flip w x)         (w well-formed)
     word_den_wmul          i^e * word_den (a.b) psi x = word_den a (word_den b psi) x       (a, b well-formed)
     word_den_involution    word_den w (word_den w psi) x = psi x
     word_den_commute       word_den a (word_den b psi) x = (+/-) word_den b (word_den a psi) x by wcommute
     wcommute_iff_den       wcommute a b = true <-> the denotations commute                  (needs 1 <> 0 in K)
     op_den_nil/cons/app, op_den_add, op_den_scale, op_den_opp, op_den_sub, op_den_ext, op_den_lin_*
     op_den_mul             op_den (op_mul a b) psi x = op_den a (op_den b psi) x            (words well-formed)
     op_den_insert, op_den_merge, op_den_collapse (sound zero test)
     op_wf_mul, op_wf_add, op_wf_scale, op_wf_merge      closure of "all words well-formed" *)
From Coq Require Import NArith ZArith List Bool Lia.
From Tangelo Require Import Num.KStruct QSem.State QSem.BitLemmas Pauli.Word Pauli.Action Pauli.WordProofs.
Import ListNotations.

Section ActionProofs.
  Variable S : KS.
  Add Ring kring : (k_ring S).
  Open Scope K_scope.
  Notation K := (K S).
  Notation state := (state S).

  (* ---------------------------------------------------------------- one-qubit matrices *)
  Lemma app1_ext (u : mat2 S) q (psi phi : state) :
    (forall y, psi y = phi y) -> forall x, app1 S u q psi x = app1 S u q phi x.
  Proof. intros H x. unfold app1. rewrite !H. reflexivity. Qed.

  Lemma app1_comm (u v : mat2 S) q1 q2 (psi : state) x :
    q1 <> q2 -> app1 S u q1 (app1 S v q2 psi) x = app1 S v q2 (app1 S u q1 psi) x.
  Proof.
    intro Hne. unfold app1.
    rewrite (bit_flip_diff x q1 q2) by exact Hne.
    rewrite (bit_flip_diff x q2 q1) by (intro E; apply Hne; symmetry; exact E).
    rewrite (flip_comm x q2 q1).
    destruct (bit x q1), (bit x q2); ring.
  Qed.

  Lemma app1_scale (u : mat2 S) q c (psi : state) x :
    app1 S u q (fun y => c * psi y) x = c * app1 S u q psi x.
  Proof. unfold app1. destruct (bit x q); ring. Qed.

  Lemma app1_add (u : mat2 S) q (psi phi : state) x :
    app1 S u q (fun y => psi y + phi y) x = app1 S u q psi x + app1 S u q phi x.
  Proof. unfold app1. destruct (bit x q); ring. Qed.

  (* two Paulis on the same qubit compose as pmul1 says *)
  Lemma app1_pauli_mul pa pb q (psi : state) x :
    app1 S (pauli_mat S pa) q (app1 S (pauli_mat S pb) q psi) x =
    match pmul1 pa pb with
    | (None, e) => ipow S e * psi x
    | (Some p, e) => ipow S e * app1 S (pauli_mat S p) q psi x
    end.
  Proof.
    unfold app1. rewrite bit_flip_same, flip_flip.
    destruct pa, pb; cbn [pmul1 pauli_mat mX mY mZ m00 m01 m10 m11];
      change (ipow S 0) with (1 : K); change (ipow S 1) with (ki : K); change (ipow S 3) with (- ki : K);
      destruct (bit x q); cbn [negb]; ring [(@k_ii S)].
  Qed.

  (* ---------------------------------------------------------------- words *)
  Lemma word_den_cons q p w (psi : state) :
    word_den S ((q, p) :: w) psi = word_den S w (app1 S (pauli_mat S p) q psi).
  Proof. reflexivity. Qed.

  Lemma word_den_ext w : forall (psi phi : state),
    (forall y, psi y = phi y) -> forall x, word_den S w psi x = word_den S w phi x.
  Proof.
    induction w as [|[q p] w IH]; intros psi phi H x; [apply H|].
    rewrite !word_den_cons. apply IH. apply app1_ext, H.
  Qed.

  Lemma word_den_app1_comm (u : mat2 S) q w : forall (psi : state) x,
    ~ In q (qubits w) ->
    word_den S w (app1 S u q psi) x = app1 S u q (word_den S w psi) x.
  Proof.
    induction w as [|[q' p] w IH]; intros psi x Hn; [reflexivity|].
    rewrite !word_den_cons.
    assert (Hq : q' <> q) by (intro E; apply Hn; left; exact E).
    assert (Hw : ~ In q (qubits w)) by (intro E; apply Hn; right; exact E).
    rewrite <- (IH _ x Hw). apply word_den_ext. intro y. apply app1_comm. exact Hq.
  Qed.

  Lemma word_den_scale w : forall c (psi : state) x,
    word_den S w (fun y => c * psi y) x = c * word_den S w psi x.
  Proof.
    induction w as [|[q p] w IH]; intros c psi x; [reflexivity|].
    rewrite !word_den_cons, <- IH. apply word_den_ext. intro y. apply app1_scale.
  Qed.

  Lemma word_den_add w : forall (psi phi : state) x,
    word_den S w (fun y => psi y + phi y) x = word_den S w psi x + word_den S w phi x.
  Proof.
    induction w as [|[q p] w IH]; intros psi phi x; [reflexivity|].
    rewrite !word_den_cons, <- IH. apply word_den_ext. intro y. apply app1_add.
  Qed.

  (* ---------------------------------------------------------------- closed form *)
  Definition ph1 (p : pauli) (b : bool) (c : K) : K :=
    match p with
    | PX => c
    | PZ => if b then - c else c
    | PY => if b then ki * c else - ki * c
    end.

  Lemma word_phase_fold w x :
    word_phase S w x = fold_left (fun c qp => ph1 (snd qp) (bit x (fst qp)) c) w 1.
  Proof. reflexivity. Qed.

  Lemma phase_fold_acc w x : forall c,
    fold_left (fun c qp => ph1 (snd qp) (bit x (fst qp)) c) w c =
    c * fold_left (fun c qp => ph1 (snd qp) (bit x (fst qp)) c) w 1.
  Proof.
    induction w as [|[q p] w IH]; intro c; simpl; [ring|].
    rewrite (IH (ph1 p (bit x q) c)), (IH (ph1 p (bit x q) 1)).
    destruct p; simpl; destruct (bit x q); ring.
  Qed.

  Lemma word_phase_cons q p w x :
    word_phase S ((q, p) :: w) x = ph1 p (bit x q) 1 * word_phase S w x.
  Proof. rewrite !word_phase_fold. simpl. apply phase_fold_acc. Qed.

  Lemma word_phase_nil x : word_phase S [] x = 1.
  Proof. reflexivity. Qed.

  Lemma word_flip_cons q p w x :
    word_flip ((q, p) :: w) x = word_flip w (match p with PZ => x | _ => flip x q end).
  Proof. reflexivity. Qed.

  Lemma word_flip_flip_comm w : forall x q, word_flip w (flip x q) = flip (word_flip w x) q.
  Proof.
    induction w as [|[q' p] w IH]; intros x q; [reflexivity|].
    rewrite !word_flip_cons. destruct p; rewrite ?(flip_comm x q q'); apply IH.
  Qed.

  Lemma bit_word_flip_notin w : forall x q, ~ In q (qubits w) -> bit (word_flip w x) q = bit x q.
  Proof.
    induction w as [|[q' p] w IH]; intros x q Hn; [reflexivity|].
    assert (Hq : q' <> q) by (intro E; apply Hn; left; exact E).
    assert (Hw : ~ In q (qubits w)) by (intro E; apply Hn; right; exact E).
    rewrite word_flip_cons, IH by exact Hw. destruct p; try reflexivity; apply bit_flip_diff, Hq.
  Qed.

  (* the phase of a word does not see flips of qubits outside the word *)
  Lemma word_phase_flip_notin w : forall x q,
    ~ In q (qubits w) -> word_phase S w (flip x q) = word_phase S w x.
  Proof.
    induction w as [|[q' p] w IH]; intros x q Hn; [reflexivity|].
    assert (Hq : q <> q') by (intro E; apply Hn; left; symmetry; exact E).
    assert (Hw : ~ In q (qubits w)) by (intro E; apply Hn; right; exact E).
    rewrite !word_phase_cons, IH by exact Hw. rewrite bit_flip_diff by exact Hq. reflexivity.
  Qed.

  Theorem word_den_closed_form w : word_wf w = true -> forall (psi : state) x,
    word_den S w psi x = word_phase S w x * psi (word_flip w x).
  Proof.
    induction w as [|[q p] w IH]; intros Hwf psi x.
    - rewrite word_phase_nil. simpl. ring.
    - pose proof (word_wf_head_notin _ _ _ Hwf) as Hn.
      rewrite word_den_cons, (IH (word_wf_tail _ _ _ Hwf)), word_phase_cons, word_flip_cons.
      unfold app1. rewrite (bit_word_flip_notin w x q Hn).
      destruct p; cbn [pauli_mat mX mY mZ m00 m01 m10 m11 ph1];
        rewrite ?word_flip_flip_comm; destruct (bit x q); ring.
  Qed.

  (* every phase is a fourth root of unity, in particular a unit *)
  Lemma word_phase_unit w x : exists u, u * word_phase S w x = 1.
  Proof.
    induction w as [|[q p] w IH].
    - exists 1. rewrite word_phase_nil. ring.
    - destruct IH as [u Hu]. rewrite word_phase_cons.
      destruct p; cbn [ph1]; destruct (bit x q).
      + exists u. transitivity (u * word_phase S w x); [ring|exact Hu].
      + exists u. transitivity (u * word_phase S w x); [ring|exact Hu].
      + exists (- ki * u). transitivity (- (ki * ki) * (u * word_phase S w x)); [ring|].
        rewrite Hu, k_ii. ring.
      + exists (ki * u). transitivity (- (ki * ki) * (u * word_phase S w x)); [ring|].
        rewrite Hu, k_ii. ring.
      + exists (- u). transitivity (u * word_phase S w x); [ring|exact Hu].
      + exists u. transitivity (u * word_phase S w x); [ring|exact Hu].
  Qed.

  (* ---------------------------------------------------------------- product of words *)
  Theorem word_den_wmul : forall a b,
    word_wf a = true -> word_wf b = true -> forall (psi : state) x,
    ipow S (snd (wmul a b)) * word_den S (fst (wmul a b)) psi x = word_den S a (word_den S b psi) x.
  Proof.
    apply (wmul_ind (fun a b => word_wf a = true -> word_wf b = true -> forall (psi : state) x,
      ipow S (snd (wmul a b)) * word_den S (fst (wmul a b)) psi x = word_den S a (word_den S b psi) x)).
    - intros b _ _ psi x. rewrite wmul_nil_l. cbn [fst snd]. rewrite ipow_0. simpl. ring.
    - intros a _ _ psi x. rewrite wmul_nil_r. cbn [fst snd]. rewrite ipow_0. simpl. ring.
    - intros qa pa a' qb pb b' IH1 IH2 IH3 Ha Hb psi x.
      pose proof (word_wf_tail _ _ _ Ha) as Ha'. pose proof (word_wf_tail _ _ _ Hb) as Hb'.
      pose proof (sorted_above _ _ (proj1 (word_wf_cons _ _ _) Hb)) as Habove_b.
      rewrite wmul_cons.
      destruct (ltb_cases qa qb) as [[E1 Hlt]|[[E1 [E2 Hlt]]|[E1 [E2 Heq]]]]; rewrite E1; try rewrite E2.
      + specialize (IH1 Hlt Ha' Hb (app1 S (pauli_mat S pa) qa psi) x).
        destruct (wmul a' ((qb, pb) :: b')) as [w e]. cbn [fst snd] in *.
        rewrite word_den_cons, IH1, (word_den_cons qa pa a').
        apply word_den_ext. intro y. apply word_den_app1_comm.
        intros [Hin|Hin]; [simpl in Hin; lia|]. specialize (Habove_b qa Hin). lia.
      + specialize (IH2 Hlt Ha Hb' (app1 S (pauli_mat S pb) qb psi) x).
        destruct (wmul ((qa, pa) :: a') b') as [w e]. cbn [fst snd] in *.
        rewrite word_den_cons, IH2. reflexivity.
      + subst qb. specialize (IH3 eq_refl Ha' Hb').
        assert (Hn : ~ In qa (qubits b')) by (apply above_notin; exact Habove_b).
        transitivity (word_den S a' (word_den S b'
                        (app1 S (pauli_mat S pa) qa (app1 S (pauli_mat S pb) qa psi))) x).
        * destruct (wmul a' b') as [w e]. cbn [fst snd] in IH3.
          pose proof (app1_pauli_mul pa pb qa psi) as Hmul.
          destruct (pmul1 pa pb) as [[p|] e1]; cbn [fst snd].
          -- rewrite (word_den_ext a' _
                        (fun y => ipow S e1 * word_den S b' (app1 S (pauli_mat S p) qa psi) y)).
             2: { intro y. rewrite <- word_den_scale. apply word_den_ext. exact Hmul. }
             rewrite word_den_scale, <- IH3, word_den_cons, ipow_add. ring.
          -- rewrite (word_den_ext a' _ (fun y => ipow S e1 * word_den S b' psi y)).
             2: { intro y. rewrite <- word_den_scale. apply word_den_ext. exact Hmul. }
             rewrite word_den_scale, <- IH3, ipow_add. ring.
        * rewrite (word_den_cons qa pa a'), (word_den_cons qa pb b').
          apply word_den_ext. intro y. apply word_den_app1_comm. exact Hn.
  Qed.

  Theorem word_den_involution w : word_wf w = true -> forall (psi : state) x,
    word_den S w (word_den S w psi) x = psi x.
  Proof.
    intros Hwf psi x. rewrite <- (word_den_wmul w w Hwf Hwf), wmul_self. cbn [fst snd].
    rewrite ipow_0. simpl. ring.
  Qed.

  (* two words commute or anticommute, as decided by wcommute *)
  Theorem word_den_commute a b : word_wf a = true -> word_wf b = true -> forall (psi : state) x,
    word_den S a (word_den S b psi) x =
    (if wcommute a b then 1 else - (1)) * word_den S b (word_den S a psi) x.
  Proof.
    intros Ha Hb psi x.
    rewrite <- (word_den_wmul a b Ha Hb), <- (word_den_wmul b a Hb Ha).
    rewrite (wmul_swap_word a b), (wmul_phase_swap_ipow S a b).
    destruct (wcommute a b); cbv iota; ring.
  Qed.

  (* converse: if the denotations commute the words commute — needs a non-trivial ring *)
  Theorem wcommute_iff_den a b :
    (1 : K) <> 0 -> word_wf a = true -> word_wf b = true ->
    (wcommute a b = true <->
     forall (psi : state) x, word_den S a (word_den S b psi) x = word_den S b (word_den S a psi) x).
  Proof.
    intros H10 Ha Hb. split.
    - intros Hc psi x. rewrite (word_den_commute a b Ha Hb), Hc. ring.
    - intro Hcomm. destruct (wcommute a b) eqn:Hc; [reflexivity|]. exfalso. apply H10.
      (* evaluate at a basis state chosen so that the amplitude is a unit *)
      set (x := 0%N).
      set (y := word_flip a (word_flip b x)).
      pose proof (Hcomm (ket S y) x) as H1.
      rewrite (word_den_commute a b Ha Hb), Hc in H1.
      rewrite (word_den_closed_form b Hb), (word_den_closed_form a Ha) in H1.
      unfold ket in H1. fold y in H1. rewrite N.eqb_refl in H1.
      destruct (word_phase_unit b x) as [ub Hub].
      destruct (word_phase_unit a (word_flip b x)) as [ua Hua].
      set (pb := word_phase S b x) in *. set (pa := word_phase S a (word_flip b x)) in *.
      (* H1 : -1 * v = v with v = pb * (pa * 1); hence 2 v = 0, v = 0, and v is a unit *)
      assert (Hv : pb * (pa * 1) + pb * (pa * 1) = 0).
      { transitivity (pb * (pa * 1) - (- (1) * (pb * (pa * 1)))); [ring|]. rewrite H1. ring. }
      assert (Hz : pb * pa = 0).
      { transitivity (khalf * (pb * (pa * 1) + pb * (pa * 1))).
        - transitivity ((khalf + khalf) * (pb * pa)); [rewrite k_half; ring|ring].
        - rewrite Hv. ring. }
      transitivity ((ub * pb) * (ua * pa)); [rewrite Hub, Hua; ring|].
      transitivity (ub * ua * (pb * pa)); [ring|]. rewrite Hz. ring.
  Qed.

  (* ---------------------------------------------------------------- operators: linearity *)
  Lemma fold_acc {X} (f : X -> K) (l : list X) : forall c,
    fold_left (fun acc t => acc + f t) l c = c + fold_left (fun acc t => acc + f t) l 0.
  Proof.
    induction l as [|t l IH]; intro c; simpl; [ring|].
    rewrite (IH (c + f t)), (IH (0 + f t)). ring.
  Qed.

  Lemma op_den_nil (psi : state) x : op_den S [] psi x = 0.
  Proof. reflexivity. Qed.

  Lemma op_den_cons t (a : op S) (psi : state) x :
    op_den S (t :: a) psi x = snd t * word_den S (fst t) psi x + op_den S a psi x.
  Proof.
    unfold op_den. simpl.
    rewrite (fold_acc (fun t => snd t * word_den S (fst t) psi x) a). ring.
  Qed.

  Lemma op_den_app (a b : op S) (psi : state) x :
    op_den S (a ++ b) psi x = op_den S a psi x + op_den S b psi x.
  Proof.
    induction a as [|t a IH]; simpl app.
    - rewrite op_den_nil. ring.
    - rewrite !op_den_cons, IH. ring.
  Qed.

  Theorem op_den_add (a b : op S) (psi : state) x :
    op_den S (op_add S a b) psi x = op_den S a psi x + op_den S b psi x.
  Proof. apply op_den_app. Qed.

  Theorem op_den_scale c (a : op S) (psi : state) x :
    op_den S (op_scale S c a) psi x = c * op_den S a psi x.
  Proof.
    induction a as [|t a IH]; unfold op_scale; simpl map.
    - rewrite op_den_nil. ring.
    - rewrite !op_den_cons. fold (op_scale S c a). rewrite IH. simpl. ring.
  Qed.

  Theorem op_den_opp (a : op S) (psi : state) x : op_den S (op_opp S a) psi x = - op_den S a psi x.
  Proof. unfold op_opp. rewrite op_den_scale. ring. Qed.

  Theorem op_den_sub (a b : op S) (psi : state) x :
    op_den S (op_sub S a b) psi x = op_den S a psi x - op_den S b psi x.
  Proof. unfold op_sub. rewrite op_den_add, op_den_opp. ring. Qed.

  Lemma op_den_ext (a : op S) (psi phi : state) :
    (forall y, psi y = phi y) -> forall x, op_den S a psi x = op_den S a phi x.
  Proof.
    intros H x. induction a as [|t a IH]; [reflexivity|].
    rewrite !op_den_cons, IH, (word_den_ext (fst t) psi phi H). reflexivity.
  Qed.

  Lemma op_den_lin_scale (a : op S) c (psi : state) x :
    op_den S a (fun y => c * psi y) x = c * op_den S a psi x.
  Proof.
    induction a as [|t a IH]; [rewrite !op_den_nil; ring|].
    rewrite !op_den_cons, IH, word_den_scale. ring.
  Qed.

  Lemma op_den_lin_add (a : op S) (psi phi : state) x :
    op_den S a (fun y => psi y + phi y) x = op_den S a psi x + op_den S a phi x.
  Proof.
    induction a as [|t a IH]; [rewrite !op_den_nil; ring|].
    rewrite !op_den_cons, IH, word_den_add. ring.
  Qed.

  (* ---------------------------------------------------------------- operators: product *)
  Definition op_wf (a : op S) : Prop := Forall (fun t => word_wf (fst t) = true) a.

  (* a word applied to the image of an operator: distribute over the terms *)
  Lemma word_den_op_den w (b : op S) (psi : state) x :
    word_wf w = true ->
    word_den S w (op_den S b psi) x =
    fold_left (fun acc t => acc + snd t * word_den S w (word_den S (fst t) psi) x) b 0.
  Proof.
    intro Hwf. rewrite (word_den_closed_form w Hwf).
    induction b as [|t b IH].
    - rewrite op_den_nil. simpl. ring.
    - rewrite op_den_cons. simpl fold_left.
      rewrite (fold_acc (fun t => snd t * word_den S w (word_den S (fst t) psi) x) b), <- IH.
      rewrite (word_den_closed_form w Hwf). ring.
  Qed.

  Lemma term_mul_den (s t : word * K) (psi : state) x :
    word_wf (fst s) = true -> word_wf (fst t) = true ->
    snd (term_mul S s t) * word_den S (fst (term_mul S s t)) psi x =
    snd s * (snd t * word_den S (fst s) (word_den S (fst t) psi) x).
  Proof.
    intros Hs Ht. unfold term_mul.
    pose proof (word_den_wmul (fst s) (fst t) Hs Ht psi x) as H.
    destruct (wmul (fst s) (fst t)) as [w e]. cbn [fst snd] in *. rewrite <- H. ring.
  Qed.

  Lemma op_den_map_term_mul s (b : op S) (psi : state) x :
    word_wf (fst s) = true -> op_wf b ->
    op_den S (map (term_mul S s) b) psi x = snd s * word_den S (fst s) (op_den S b psi) x.
  Proof.
    intros Hs Hb. rewrite (word_den_op_den (fst s) b psi x Hs).
    transitivity (snd s * fold_left
      (fun acc t => acc + snd t * word_den S (fst s) (word_den S (fst t) psi) x) b 0); [|ring].
    induction Hb as [|t b Ht Hb IH]; simpl map; simpl fold_left.
    - rewrite op_den_nil. ring.
    - rewrite op_den_cons, (term_mul_den s t psi x Hs Ht).
      rewrite (fold_acc (fun t => snd t * word_den S (fst s) (word_den S (fst t) psi) x) b
                        (0 + snd t * word_den S (fst s) (word_den S (fst t) psi) x)).
      rewrite IH. ring.
  Qed.

  Theorem op_den_mul (a b : op S) : op_wf a -> op_wf b -> forall (psi : state) x,
    op_den S (op_mul S a b) psi x = op_den S a (op_den S b psi) x.
  Proof.
    intros Ha Hb psi x. unfold op_mul. induction Ha as [|s a Hs Ha IH]; simpl flat_map.
    - rewrite !op_den_nil. reflexivity.
    - rewrite op_den_app, IH, op_den_cons, (op_den_map_term_mul s b psi x Hs Hb). reflexivity.
  Qed.

  (* closure of well-formedness *)
  Lemma op_wf_add (a b : op S) : op_wf a -> op_wf b -> op_wf (op_add S a b).
  Proof. intros Ha Hb. apply Forall_app. split; assumption. Qed.

  Lemma op_wf_scale c (a : op S) : op_wf a -> op_wf (op_scale S c a).
  Proof.
    intro Ha. unfold op_scale. induction Ha as [|t a Ht Ha IH]; simpl; constructor; assumption.
  Qed.

  Lemma op_wf_adj (a : op S) : op_wf a -> op_wf (op_adj S a).
  Proof.
    intro Ha. unfold op_adj. induction Ha as [|t a Ht Ha IH]; simpl; constructor; assumption.
  Qed.

  Lemma term_mul_wf (s t : word * K) :
    word_wf (fst s) = true -> word_wf (fst t) = true -> word_wf (fst (term_mul S s t)) = true.
  Proof.
    intros Hs Ht. unfold term_mul. pose proof (wmul_wf _ _ Hs Ht) as H.
    destruct (wmul (fst s) (fst t)) as [w e]. exact H.
  Qed.

  Lemma op_wf_mul (a b : op S) : op_wf a -> op_wf b -> op_wf (op_mul S a b).
  Proof.
    intros Ha Hb. unfold op_mul. induction Ha as [|s a Hs Ha IH]; simpl flat_map; [constructor|].
    apply Forall_app. split; [|exact IH].
    clear IH. induction Hb as [|t b Ht Hb IHb]; simpl; constructor; [apply term_mul_wf; assumption|exact IHb].
  Qed.

  (* ---------------------------------------------------------------- merging duplicates *)
  Lemma op_den_insert t (a : op S) (psi : state) x :
    op_den S (op_insert S t a) psi x = snd t * word_den S (fst t) psi x + op_den S a psi x.
  Proof.
    induction a as [|u a IH]; simpl op_insert.
    - rewrite op_den_cons. reflexivity.
    - destruct (word_eqb (fst t) (fst u)) eqn:E.
      + apply word_eqb_eq in E. rewrite !op_den_cons. cbn [fst snd]. rewrite E. ring.
      + destruct (word_ltb (fst t) (fst u)).
        * rewrite op_den_cons. reflexivity.
        * rewrite !op_den_cons, IH. ring.
  Qed.

  Lemma op_den_merge_acc (a : op S) (psi : state) x : forall acc,
    op_den S (fold_left (fun acc t => op_insert S t acc) a acc) psi x =
    op_den S acc psi x + op_den S a psi x.
  Proof.
    induction a as [|t a IH]; intro acc; simpl fold_left.
    - rewrite op_den_nil. ring.
    - rewrite IH, op_den_insert, op_den_cons. ring.
  Qed.

  Theorem op_den_merge (a : op S) (psi : state) x : op_den S (op_merge S a) psi x = op_den S a psi x.
  Proof. unfold op_merge. rewrite op_den_merge_acc, op_den_nil. ring. Qed.

  Lemma op_den_filter_zero (kzero : K -> bool) (a : op S) (psi : state) x :
    (forall c, kzero c = true -> c = 0) ->
    op_den S (filter (fun t => negb (kzero (snd t))) a) psi x = op_den S a psi x.
  Proof.
    intro Hz. induction a as [|t a IH]; [reflexivity|]. simpl filter.
    destruct (kzero (snd t)) eqn:E; simpl negb; cbv iota.
    - rewrite op_den_cons, IH, (Hz _ E). ring.
    - rewrite !op_den_cons, IH. reflexivity.
  Qed.

  Theorem op_den_collapse (kzero : K -> bool) (a : op S) (psi : state) x :
    (forall c, kzero c = true -> c = 0) ->
    op_den S (collapse S kzero a) psi x = op_den S a psi x.
  Proof. intro Hz. unfold collapse. rewrite (op_den_filter_zero kzero _ psi x Hz). apply op_den_merge. Qed.

  Lemma op_insert_wf t (a : op S) : word_wf (fst t) = true -> op_wf a -> op_wf (op_insert S t a).
  Proof.
    intros Ht Ha. induction Ha as [|u a Hu Ha IH]; simpl op_insert.
    - constructor; [exact Ht|constructor].
    - destruct (word_eqb (fst t) (fst u)); [constructor; assumption|].
      destruct (word_ltb (fst t) (fst u)); constructor; try assumption. constructor; assumption.
  Qed.

  Lemma op_wf_merge (a : op S) : op_wf a -> op_wf (op_merge S a).
  Proof.
    intro Ha. unfold op_merge.
    assert (Hacc : forall acc, op_wf acc -> op_wf (fold_left (fun acc t => op_insert S t acc) a acc)).
    { induction Ha as [|t a Ht Ha IH]; intros acc Hacc; simpl; [exact Hacc|].
      apply IH. apply op_insert_wf; assumption. }
    apply Hacc. constructor.
  Qed.

  Lemma op_wf_collapse kzero (a : op S) : op_wf a -> op_wf (collapse S kzero a).
  Proof.
    intro Ha. unfold collapse. pose proof (op_wf_merge a Ha) as Hm.
    induction Hm as [|t m Ht Hm IH]; simpl; [constructor|].
    destruct (negb (kzero (snd t))); [constructor; assumption|exact IH].
  Qed.

  (* the collapsed form has no coefficient that tests zero *)
  Lemma collapse_nonzero kzero (a : op S) :
    Forall (fun t => kzero (snd t) = false) (collapse S kzero a).
  Proof.
    unfold collapse. apply Forall_forall. intros t Hin. apply filter_In in Hin.
    destruct Hin as [_ H]. destruct (kzero (snd t)); [discriminate|reflexivity].
  Qed.
End ActionProofs.
