(* Action.v — denotation of Pauli words and operators on QSem states (definitions only). *)
From Coq Require Import NArith ZArith List Bool.
From Tangelo Require Import Num.KStruct QSem.State Pauli.Word.
Import ListNotations.

Section Action.
  Variable S : KS.
  Open Scope K_scope.

  Definition pauli_mat (p : pauli) : mat2 S :=
    match p with PX => mX S | PY => mY S | PZ => mZ S end.

  (* a word acts factor by factor (factors act on distinct qubits, so the order is immaterial) *)
  Definition word_den (w : word) (psi : state S) : state S :=
    fold_left (fun s qp => app1 S (pauli_mat (snd qp)) (fst qp) s) w psi.

  (* an operator acts as the linear combination of its words *)
  Definition op_den (a : op S) (psi : state S) : state S := fun x =>
    fold_left (fun acc t => acc + snd t * word_den (fst t) psi x) a 0.

  (* closed form of the action of a word on a basis index: amplitude factor and the flipped index *)
  Definition word_flip (w : word) (x : N) : N :=
    fold_left (fun y qp => match snd qp with PZ => y | _ => flip y (fst qp) end) w x.
  Definition word_phase (w : word) (x : N) : K S :=
    fold_left (fun c qp =>
                 match snd qp with
                 | PX => c
                 | PZ => if bit x (fst qp) then - c else c
                 | PY => if bit x (fst qp) then ki * c else - ki * c      (* <x|Y|x xor q> *)
                 end) w 1.
End Action.
