(* Multiform.v — model of the array form of qubit operators in
   tangelo/toolboxes/operators/multiformoperator.py (definitions only; proofs in MultiformProofs.v).

   A row of MultiformOperator.integer is an [iword]: one code per qubit, position = qubit index,
   I=0 Z=1 X=2 Y=3 (the ConvertPauli table, regenerated into Gen.MultiformTables and checked against
   [pcode]/[pdecode] in props/C16.v).  An operator is the list of its rows with .factors.
   The phase table c_calc of __mul__ is a parameter [cc : N -> N -> K] (instantiated with the
   regenerated table; the obligation "cc a b = i^(phase of the Pauli product)" is discharged there).

     mf_mul_raw   the double loop of __mul__ : integer ^ other.integer, factors f_i * f_j * prod(c_calc[..])
     mf_collapse  MultiformOperator.collapse : sort rows, sum factors of equal rows, drop exact zeros
     mf_mul       __mul__ = collapse after the loop
     symp         one entry of do_commute: xor-reduce(binary_swap_row & binary_row)
     do_commute_asis / do_commute_repaired / do_commute_terms   the three reductions of do_commute
     dec / enc    conversion to and from the symbolic (sparse, sorted) words of Pauli/Word.v *)
From Coq Require Import NArith ZArith List Bool.
From Tangelo Require Import Num.KStruct Pauli.Word.
Import ListNotations.

Definition iword : Type := list N.

(* ConvertPauli: letter <-> integer *)
Definition pcode (p : option pauli) : N :=
  match p with None => 0%N | Some PZ => 1%N | Some PX => 2%N | Some PY => 3%N end.
Definition pdecode (c : N) : option pauli :=
  match c with 1%N => Some PZ | 2%N => Some PX | 3%N => Some PY | _ => None end.

(* integer_to_binary: x = integer >> 1, z = integer mod 2 *)
Definition xbit (c : N) : bool := N.testbit c 1.
Definition zbit (c : N) : bool := N.testbit c 0.

(* product of two optional Paulis: result and exponent of i *)
Definition pmul_opt (a b : option pauli) : option pauli * Z :=
  match a, b with
  | None, _ => (b, 0%Z)
  | _, None => (a, 0%Z)
  | Some x, Some y => pmul1 x y
  end.

Definition iword_ok (w : iword) : Prop := Forall (fun c => (c < 4)%N) w.
Definition iword_okb (w : iword) : bool := forallb (fun c => N.ltb c 4) w.

(* elementwise xor of two rows (numpy: integer ^ other.integer, rows of equal length) *)
Fixpoint zipxor (a b : iword) : iword :=
  match a, b with
  | x :: a', y :: b' => N.lxor x y :: zipxor a' b'
  | _, _ => []
  end.

(* exponent of i accumulated over the qubits, in the order wmul accumulates it *)
Fixpoint iphase (a b : iword) : Z :=
  match a, b with
  | x :: a', y :: b' => (iphase a' b' + snd (pmul_opt (pdecode x) (pdecode y)))%Z
  | _, _ => 0%Z
  end.

(* sparse sorted word of a row, qubit indices starting at k *)
Fixpoint dec_from (k : N) (w : iword) : word :=
  match w with
  | [] => []
  | c :: r => match pdecode c with
              | None => dec_from (N.succ k) r
              | Some p => (k, p) :: dec_from (N.succ k) r
              end
  end.
Definition dec (w : iword) : word := dec_from 0 w.

(* qubit_to_integer for one term: row of length n *)
Fixpoint wlookup (q : N) (w : word) : option pauli :=
  match w with
  | [] => None
  | (q', p) :: r => if N.eqb q q' then Some p else wlookup q r
  end.
Definition enc (n : nat) (w : word) : iword :=
  map (fun k => pcode (wlookup (N.of_nat k) w)) (seq 0 n).

(* lexicographic order on rows: sorted(all_terms, key = the row itself) and np.unique(axis=0) *)
Fixpoint iword_eqb (a b : iword) : bool :=
  match a, b with
  | [], [] => true
  | x :: a', y :: b' => N.eqb x y && iword_eqb a' b'
  | _, _ => false
  end.
Fixpoint iword_ltb (a b : iword) : bool :=
  match a, b with
  | [], [] => false
  | [], _ => true
  | _, [] => false
  | x :: a', y :: b' => if N.ltb x y then true else if N.ltb y x then false else iword_ltb a' b'
  end.

(* symplectic product of two rows: xor-reduce((az|ax) & (bx|bz)) *)
Fixpoint symp (a b : iword) : bool :=
  match a, b with
  | x :: a', y :: b' => xorb (xorb (zbit x && xbit y) (xbit x && zbit y)) (symp a' b')
  | _, _ => false
  end.

Section Multiform.
  Variable S : KS.
  Open Scope K_scope.
  Notation K := (K S).

  Definition mfop : Type := list (iword * K).

  Variable cc : N -> N -> K.                  (* the table c_calc[a, b] *)

  (* np.prod(c_calc[self.integer[i], other.integer[j]]) *)
  Fixpoint cprod (a b : iword) : K :=
    match a, b with
    | x :: a', y :: b' => cc x y * cprod a' b'
    | _, _ => 1
    end.

  Definition mf_term_mul (s t : iword * K) : iword * K :=
    (zipxor (fst s) (fst t), snd s * snd t * cprod (fst s) (fst t)).
  Definition mf_mul_raw (A B : mfop) : mfop := flat_map (fun s => map (mf_term_mul s) B) A.

  Fixpoint mf_insert (t : iword * K) (a : mfop) : mfop :=
    match a with
    | [] => [t]
    | u :: r =>
      if iword_eqb (fst t) (fst u) then (fst u, snd u + snd t) :: r
      else if iword_ltb (fst t) (fst u) then t :: a
      else u :: mf_insert t r
    end.
  Definition mf_merge (a : mfop) : mfop := fold_left (fun acc t => mf_insert t acc) a [].
  Definition mf_collapse (kzero : K -> bool) (a : mfop) : mfop :=
    filter (fun t => negb (kzero (snd t))) (mf_merge a).
  Definition mf_mul (kzero : K -> bool) (A B : mfop) : mfop := mf_collapse kzero (mf_mul_raw A B).

  (* the symbolic operator of an array-form operator (integer_to_qubit_terms, before dictionary merge) *)
  Definition mf_dec (A : mfop) : op S := map (fun t => (dec (fst t), snd t)) A.
  (* from_qubitop on a list of terms *)
  Definition mf_enc (n : nat) (a : op S) : mfop := map (fun t => (enc n (fst t), snd t)) a.
End Multiform.

(* do_commute: term_bool[i] = OR_j symp(a_i, b_j) *)
Definition term_bool (B : list iword) (a : iword) : bool := existsb (symp a) B.
(* as written: return not np.all(term_bool) *)
Definition do_commute_asis (A B : list iword) : bool := negb (forallb (term_bool B) A).
(* repaired: return not np.any(term_bool) *)
Definition do_commute_repaired (A B : list iword) : bool := negb (existsb (term_bool B) A).
(* term_resolved=True: np.logical_not(term_bool) *)
Definition do_commute_terms (A B : list iword) : list bool := map (fun a => negb (term_bool B a)) A.

(* ---- the regenerated c_calc table: Gaussian integers (re, im), turned into K ---- *)
Definition gauss : Type := (Z * Z)%type.
Definition ipow_g (e : Z) : gauss :=
  match (e mod 4)%Z with 0%Z => (1, 0)%Z | 1%Z => (0, 1)%Z | 2%Z => (-1, 0)%Z | _ => (0, -1)%Z end.
Definition gauss_eqb (a b : gauss) : bool := Z.eqb (fst a) (fst b) && Z.eqb (snd a) (snd b).
Definition tab_get (tab : list (list gauss)) (a b : N) : gauss :=
  nth (N.to_nat b) (nth (N.to_nat a) tab []) (0, 0)%Z.
Definition codes4 : list N := [0; 1; 2; 3]%N.
(* the finite obligation on the table: 16 entries against pmul1, and its shape *)
Definition c_calc_check (tab : list (list gauss)) : bool :=
  Nat.eqb (length tab) 4 && forallb (fun row => Nat.eqb (length row) 4) tab &&
  forallb (fun a => forallb (fun b =>
     gauss_eqb (tab_get tab a b) (ipow_g (snd (pmul_opt (pdecode a) (pdecode b))))
     && N.eqb (N.lxor a b) (pcode (fst (pmul_opt (pdecode a) (pdecode b))))) codes4) codes4.

(* the regenerated ConvertPauli table: (letter, integer, (x, z)) *)
Definition pauli_of_letter (s : nat) : option (option pauli) :=    (* 0=I 1=Z 2=X 3=Y as emitted *)
  match s with 0 => Some None | 1 => Some (Some PZ) | 2 => Some (Some PX) | 3 => Some (Some PY) | _ => None end.

Section Gauss.
  Variable S : KS.
  Open Scope K_scope.
  Fixpoint kofpos (p : positive) : K S :=
    match p with
    | xH => 1
    | xO p => kofpos p + kofpos p
    | xI p => kofpos p + kofpos p + 1
    end.
  Definition kofZ (z : Z) : K S :=
    match z with Z0 => 0 | Zpos p => kofpos p | Zneg p => - kofpos p end.
  Definition gz (g : gauss) : K S := kofZ (fst g) + ki * kofZ (snd g).
  Definition cc_of_table (tab : list (list gauss)) (a b : N) : K S := gz (tab_get tab a b).
End Gauss.

(* MultiformOperator.collapse numbers the rows (an extra column appended before sorting) and picks the factors
   through that column.  In the model the rows are the elements of a list and are merged directly: a row is
   identified by its position, an unbounded natural number.  The implementation matches this only if the dtype
   of its index column can hold every row number; [bound] is the largest value that dtype holds (regenerated
   from the source), None when there is none. *)
Definition index_column_unbounded (bound : option N) : Prop :=
  forall n_rows : N, match bound with None => True | Some m => (n_rows <= m)%N end.

From Coq Require Import String.      (* here, not at the top: String.length would shadow List.length above *)

(* ---- the redundant array forms kept by a MultiformOperator object, and remove_terms ----
   integer (rows), binary = (x bits | z bits), binary_swap = (z bits | x bits).  remove_terms deletes the rows
   with the given positions from every form it updates; WHICH attributes it updates is regenerated from the
   source ([updated], names of the self.<attr> the method assigns a shortened array to). *)
Record mforms : Type := mkForms { f_integer : list iword; f_binary : list (list bool); f_swap : list (list bool) }.
Definition bin_of (w : iword) : list bool := map xbit w ++ map zbit w.
Definition swap_of (w : iword) : list bool := map zbit w ++ map xbit w.
Definition forms_ok (F : mforms) : Prop :=
  f_binary F = map bin_of (f_integer F) /\ f_swap F = map swap_of (f_integer F).
Fixpoint remove_idx {X : Type} (idx : list nat) (k : nat) (l : list X) : list X :=
  match l with
  | [] => []
  | x :: r => if existsb (Nat.eqb k) idx then remove_idx idx (S k) r else x :: remove_idx idx (S k) r
  end.
Definition has_name (n : string) (l : list string) : bool := existsb (String.eqb n) l.
Definition mf_remove_forms (updated : list string) (idx : list nat) (F : mforms) : mforms :=
  mkForms (if has_name "integer"%string updated then remove_idx idx 0 (f_integer F) else f_integer F)
          (if has_name "binary"%string updated then remove_idx idx 0 (f_binary F) else f_binary F)
          (if has_name "binary_swap"%string updated then remove_idx idx 0 (f_swap F) else f_swap F).
Definition forms_updated_all (updated : list string) : bool :=
  has_name "factors"%string updated && has_name "integer"%string updated && has_name "binary"%string updated
  && has_name "binary_swap"%string updated && has_name "terms"%string updated.
