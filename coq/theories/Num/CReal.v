(* CReal.v — the instance in which "for every real angle" is literal:
   K = R * R (complex numbers), A = R, cis t = (cos (t/2), sin (t/2)) = e^{i t/2}.
   Uses only the standard library's Reals (its axioms are named in the trusted base). *)
From Coq Require Import Reals Lra Ring.
From Tangelo Require Import Num.KStruct.
Local Open Scope R_scope.

Definition C : Type := (R * R)%type.
Definition Cadd (x y : C) : C := (fst x + fst y, snd x + snd y).
Definition Cmul (x y : C) : C := (fst x * fst y - snd x * snd y, fst x * snd y + snd x * fst y).
Definition Copp (x : C) : C := (- fst x, - snd x).
Definition Csub (x y : C) : C := Cadd x (Copp y).
Definition Cconj (x : C) : C := (fst x, - snd x).
Definition C0 : C := (0, 0).
Definition C1 : C := (1, 0).
Definition Ci : C := (0, 1).
Definition Chalf : C := (/2, 0).
Definition Crs2 : C := (/ sqrt 2, 0).
Definition Ccis (t : R) : C := (cos (t / 2), sin (t / 2)).

Lemma C_eq (x y : C) : fst x = fst y -> snd x = snd y -> x = y.
Proof. destruct x, y; simpl; intros; subst; reflexivity. Qed.

Lemma C_ring : ring_theory C0 C1 Cadd Cmul Csub Copp (@eq C).
Proof.
  constructor; intros; apply C_eq; unfold Csub, Cadd, Cmul, Copp, C0, C1; simpl; ring.
Qed.

Lemma sqrt2_sq : / sqrt 2 * / sqrt 2 = / 2.
Proof. rewrite <- Rinv_mult. rewrite sqrt_sqrt by lra. reflexivity. Qed.

Definition CRealS : KS.
Proof.
  refine (@mkKS C C0 C1 Cadd Cmul Csub Copp Cconj Ci Chalf Crs2 C_ring _ _ _ _ _ _ _ _ _ _ _ _
            R 0 Rplus Ropp _ _ _ _ Ccis _ _ _ PI _ (PI/2) (PI/4) _ _ _);
    try (intros; apply C_eq; unfold Cadd, Cmul, Copp, Cconj, C0, C1, Ci, Chalf, Crs2, Ccis; simpl; try ring; try lra; fail).
  - apply C_eq; simpl; [ rewrite sqrt2_sq; ring | ring ].
  - intros; ring.
  - intros; ring.
  - intros; ring.
  - intros; ring.
  - apply C_eq; unfold Ccis, C1; simpl; replace (0 / 2) with 0 by lra; [apply cos_0 | apply sin_0].
  - intros a b. apply C_eq; unfold Ccis, Cmul; simpl;
      replace ((a + b) / 2) with (a / 2 + b / 2) by lra; [apply cos_plus | rewrite sin_plus; ring].
  - intros a. apply C_eq; unfold Ccis, Cconj; simpl;
      replace (- a / 2) with (- (a / 2)) by lra; [rewrite cos_neg; reflexivity | rewrite sin_neg; reflexivity].
  - apply C_eq; unfold Ccis, Ci; simpl; [apply cos_PI2 | apply sin_PI2].
  - lra.
  - lra.
  - apply C_eq; unfold Ccis, Cmul, Cadd, Crs2, C1, Ci; simpl;
      replace (PI / 2 / 2) with (PI / 4) by lra; [rewrite cos_PI4 | rewrite sin_PI4]; field;
      apply Rgt_not_eq, sqrt_lt_R0; lra.
Defined.

Print Assumptions CRealS.
