(* Cyc.v — exact, executable instance: the cyclotomic field Q(zeta_32) built as a tower of four
   quadratic extensions  Qc -> Q(i) -> Q(zeta_8) -> Q(zeta_16) -> Q(zeta_32);  angles are integers in
   units of pi/8, cis k = zeta_32^k = e^{i (k pi/8)/2}.  Every level is a commutative ring with
   conjugation (ring_theory by the functor lemma quad_ring), so all generic theorems hold of what
   this instance computes. *)
From Coq Require Import QArith Qcanon ZArith Ring List Bool Lia.
From Tangelo Require Import Num.KStruct.
Import ListNotations.

(* ---------- commutative ring with conjugation and boolean equality ---------- *)
Record CR : Type := mkCR {
  T : Type;
  c0 : T; c1 : T; cadd : T -> T -> T; cmul : T -> T -> T; csub : T -> T -> T; copp : T -> T;
  cconj : T -> T; ceqb : T -> T -> bool;
  c_ring : ring_theory c0 c1 cadd cmul csub copp (@eq T);
  cconj_add : forall a b, cconj (cadd a b) = cadd (cconj a) (cconj b);
  cconj_mul : forall a b, cconj (cmul a b) = cmul (cconj a) (cconj b);
  cconj_opp : forall a, cconj (copp a) = copp (cconj a);
  cconj_inv : forall a, cconj (cconj a) = a;
  cconj_0 : cconj c0 = c0;
  cconj_1 : cconj c1 = c1;
  ceqb_eq : forall a b, ceqb a b = true <-> a = b
}.

(* ---------- base: canonical rationals ---------- *)
Definition Qc_eqb (a b : Qc) : bool := Qeq_bool (this a) (this b).
Lemma Qc_eqb_eq a b : Qc_eqb a b = true <-> a = b.
Proof.
  unfold Qc_eqb. rewrite Qeq_bool_iff. split; [apply Qc_is_canon | intros ->; reflexivity].
Qed.

Definition QcR : CR.
Proof.
  refine (@mkCR Qc 0%Qc 1%Qc Qcplus Qcmult Qcminus Qcopp (fun x => x) Qc_eqb Qcrt _ _ _ _ _ _ Qc_eqb_eq);
    reflexivity.
Defined.

(* ---------- quadratic extension B[x]/(x^2 - w), with |w| = 1 so that conj x = x * conj w ---------- *)
Section Quad.
  Variable B : CR.
  Variable w : T B.
  Hypothesis Hw : cmul B w (cconj B w) = c1 B.
  Add Ring bring : (c_ring B).
  Notation "a + b" := (cadd B a b). Notation "a * b" := (cmul B a b).
  Notation "a - b" := (csub B a b). Notation "- a" := (copp B a).

  Definition QT : Type := (T B * T B)%type.
  Definition q0 : QT := (c0 B, c0 B).
  Definition q1 : QT := (c1 B, c0 B).
  Definition qx : QT := (c0 B, c1 B).                      (* the adjoined root *)
  Definition qadd (p q : QT) : QT := (fst p + fst q, snd p + snd q).
  Definition qmul (p q : QT) : QT :=
    (fst p * fst q + w * (snd p * snd q), fst p * snd q + snd p * fst q).
  Definition qopp (p : QT) : QT := (- fst p, - snd p).
  Definition qsub (p q : QT) : QT := (fst p - fst q, snd p - snd q).
  Definition qconj (p : QT) : QT := (cconj B (fst p), cconj B (snd p) * cconj B w).
  Definition qeqb (p q : QT) : bool := ceqb B (fst p) (fst q) && ceqb B (snd p) (snd q).
  Definition qinj (a : T B) : QT := (a, c0 B).

  Lemma QT_eq (p q : QT) : fst p = fst q -> snd p = snd q -> p = q.
  Proof. destruct p, q; simpl; intros; subst; reflexivity. Qed.

  Lemma quad_ring : ring_theory q0 q1 qadd qmul qsub qopp (@eq QT).
  Proof.
    constructor; intros; apply QT_eq; unfold q0, q1, qadd, qmul, qsub, qopp; simpl; ring.
  Qed.

  Lemma qconj_mul p q : qconj (qmul p q) = qmul (qconj p) (qconj q).
  Proof.
    apply QT_eq; unfold qconj, qmul; simpl; rewrite ?cconj_add, ?cconj_mul.
    - transitivity (cconj B (fst p) * cconj B (fst q)
                    + (w * cconj B w) * (cconj B w * (cconj B (snd p) * cconj B (snd q)))); [|ring].
      rewrite Hw. ring.
    - ring.
  Qed.

  Lemma qconj_inv p : qconj (qconj p) = p.
  Proof.
    apply QT_eq; unfold qconj; simpl; rewrite ?cconj_mul, ?cconj_inv; [reflexivity|].
    transitivity (snd p * (w * cconj B w)); [ring|]. rewrite Hw. ring.
  Qed.

  Lemma qeqb_eq p q : qeqb p q = true <-> p = q.
  Proof.
    unfold qeqb. rewrite andb_true_iff, !ceqb_eq. split.
    - intros [H1 H2]. apply QT_eq; assumption.
    - intros ->. split; reflexivity.
  Qed.

  Lemma qx_unit : qmul qx (qconj qx) = q1.
  Proof.
    apply QT_eq; unfold qmul, qconj, qx, q1; simpl; rewrite ?cconj_0, ?cconj_1.
    - transitivity (w * cconj B w); [ring|]. exact Hw.
    - ring.
  Qed.

  Definition quad : CR.
  Proof.
    refine (@mkCR QT q0 q1 qadd qmul qsub qopp qconj qeqb quad_ring _ qconj_mul _ qconj_inv _ _ qeqb_eq).
    - intros; apply QT_eq; unfold qconj, qadd; simpl; rewrite ?cconj_add; ring.
    - intros; apply QT_eq; unfold qconj, qopp; simpl; rewrite ?cconj_opp; ring.
    - apply QT_eq; unfold qconj, q0; simpl; rewrite ?cconj_0; ring.
    - apply QT_eq; unfold qconj, q1; simpl; rewrite ?cconj_0, ?cconj_1; ring.
  Defined.
End Quad.

(* ---------- the tower ---------- *)
Lemma m1_unit : cmul QcR (- (1))%Qc (cconj QcR (- (1))%Qc) = c1 QcR.
Proof. apply Qc_is_canon. reflexivity. Qed.

Definition L1 : CR := quad QcR (- (1))%Qc m1_unit.                     (* Q(i),       x = i        *)
Definition L2 : CR := quad L1 (qx QcR) (qx_unit QcR _ m1_unit).        (* Q(zeta_8),  x = zeta_8   *)
Definition L3 : CR := quad L2 (qx L1) (qx_unit L1 _ (qx_unit QcR _ m1_unit)).
Definition L4 : CR := quad L3 (qx L2) (qx_unit L2 _ (qx_unit L1 _ (qx_unit QcR _ m1_unit))).

Definition Cy : Type := T L4.
Definition zeta : Cy := qx L3.                                          (* zeta_32 = e^{i pi/16} *)
Definition cy_of_Qc (q : Qc) : Cy := qinj L3 (qinj L2 (qinj L1 (qinj QcR q))).
Definition cy_of_Z (z : Z) : Cy := cy_of_Qc (Q2Qc (inject_Z z)).

Fixpoint cpow (R : CR) (a : T R) (n : nat) : T R :=
  match n with O => c1 R | S k => cmul R a (cpow R a k) end.

(* powers of zeta, tabulated once *)
Definition zeta_table : list Cy := map (cpow L4 zeta) (seq 0 32).
Definition cy_cis (k : Z) : Cy := nth (Z.to_nat (k mod 32)) zeta_table (c1 L4).

Definition cy_i : Cy := cy_cis 8.
Definition cy_half : Cy := cy_of_Qc (Q2Qc (1 # 2)).
Definition cy_rs2 : Cy := cmul L4 cy_half (cadd L4 (cy_cis 4) (cy_cis (-4))).   (* cos(pi/4) *)

(* flatten to the 16 rational coefficients of 1, zeta, zeta^2, ..., zeta^15 *)
Fixpoint interleave {X} (a b : list X) : list X :=
  match a, b with
  | x :: a', y :: b' => x :: y :: interleave a' b'
  | _, _ => a ++ b
  end.
Definition flat1 (p : T L1) : list Qc := interleave [fst p] [snd p].
Definition flat2 (p : T L2) : list Qc := interleave (flat1 (fst p)) (flat1 (snd p)).
Definition flat3 (p : T L3) : list Qc := interleave (flat2 (fst p)) (flat2 (snd p)).
Definition cy_flat (p : Cy) : list Qc := interleave (flat3 (fst p)) (flat3 (snd p)).

(* ---------- the KS instance ---------- *)
Lemma table_mul_ok :
  forallb (fun a => forallb (fun b =>
      ceqb L4 (nth ((a + b) mod 32) zeta_table (c1 L4))
              (cmul L4 (nth a zeta_table (c1 L4)) (nth b zeta_table (c1 L4)))) (seq 0 32)) (seq 0 32) = true.
Proof. vm_compute. reflexivity. Qed.

Lemma table_conj_ok :
  forallb (fun a => ceqb L4 (cconj L4 (nth a zeta_table (c1 L4)))
                            (nth ((32 - a) mod 32) zeta_table (c1 L4))) (seq 0 32) = true.
Proof. vm_compute. reflexivity. Qed.

Lemma mod32_nat (k : Z) : (Z.to_nat (k mod 32) < 32)%nat.
Proof. pose proof (Z.mod_pos_bound k 32 ltac:(lia)). lia. Qed.

Lemma cy_cis_add a b : cy_cis (a + b) = cmul L4 (cy_cis a) (cy_cis b).
Proof.
  unfold cy_cis.
  pose proof (mod32_nat a) as Ha. pose proof (mod32_nat b) as Hb.
  pose proof table_mul_ok as Ht. rewrite forallb_forall in Ht.
  specialize (Ht (Z.to_nat (a mod 32))). rewrite in_seq in Ht. specialize (Ht ltac:(lia)).
  rewrite forallb_forall in Ht.
  specialize (Ht (Z.to_nat (b mod 32))). rewrite in_seq in Ht. specialize (Ht ltac:(lia)).
  apply ceqb_eq in Ht. rewrite <- Ht. f_equal.
  pose proof (Z.mod_pos_bound a 32 ltac:(lia)). pose proof (Z.mod_pos_bound b 32 ltac:(lia)).
  rewrite Zplus_mod.
  apply Nat2Z.inj. rewrite Z2Nat.id by (apply Z.mod_pos_bound; lia).
  rewrite Nat2Z.inj_mod, Nat2Z.inj_add, !Z2Nat.id by lia. reflexivity.
Qed.

Lemma cy_cis_conj a : cconj L4 (cy_cis a) = cy_cis (- a).
Proof.
  unfold cy_cis. pose proof (mod32_nat a) as Ha.
  pose proof table_conj_ok as Ht. rewrite forallb_forall in Ht.
  specialize (Ht (Z.to_nat (a mod 32))). rewrite in_seq in Ht. specialize (Ht ltac:(lia)).
  apply ceqb_eq in Ht. rewrite Ht. f_equal.
  pose proof (Z.mod_pos_bound a 32 ltac:(lia)).
  apply Nat2Z.inj. rewrite Z2Nat.id by (apply Z.mod_pos_bound; lia).
  rewrite Nat2Z.inj_mod, Nat2Z.inj_sub, Z2Nat.id by lia.
  change (Z.of_nat 32) with 32%Z.
  Z.to_euclidean_division_equations. lia.
Qed.

Definition CycS : KS.
Proof.
  refine (@mkKS Cy (c0 L4) (c1 L4) (cadd L4) (cmul L4) (csub L4) (copp L4) (cconj L4)
            cy_i cy_half cy_rs2 (c_ring L4) _ _ _ (cconj_add L4) (cconj_mul L4) (cconj_opp L4)
            (cconj_inv L4) (cconj_0 L4) (cconj_1 L4) _ _ _
            Z 0%Z Z.add Z.opp _ _ _ _ cy_cis _ cy_cis_add cy_cis_conj 8%Z _ 4%Z 2%Z _ _ _);
    try (apply ceqb_eq; vm_compute; reflexivity); intros; try lia.
Defined.

(* sanity: the instance computes *)
Example cyc_runs : ceqb L4 (@kmul CycS (@cis CycS 3%Z) (@cis CycS 5%Z)) (@ki CycS) = true.
Proof. vm_compute. reflexivity. Qed.
Print Assumptions CycS.
