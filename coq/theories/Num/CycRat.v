(* CycRat.v — the rationals inside the exact instance CycS (additive lemma file, used by C12):
   cy_of_Qc : Qc -> Cy is an injective ring homomorphism, so an identity between rational expressions
   that holds in CycS's K holds in Q and vice versa. *)
From Coq Require Import QArith Qcanon ZArith Ring List Bool Lia.
From Tangelo Require Import Num.KStruct Num.Cyc.

Section QInj.
  Variable B : CR.
  Variable w : T B.
  Hypothesis Hw : cmul B w (cconj B w) = c1 B.
  Add Ring bring2 : (c_ring B).

  Lemma qinj_add a b : cadd (quad B w Hw) (qinj B a) (qinj B b) = qinj B (cadd B a b).
  Proof. apply QT_eq; unfold qinj; simpl; ring. Qed.
  Lemma qinj_mul a b : cmul (quad B w Hw) (qinj B a) (qinj B b) = qinj B (cmul B a b).
  Proof. apply QT_eq; unfold qinj; simpl; ring. Qed.
  Lemma qinj_opp a : copp (quad B w Hw) (qinj B a) = qinj B (copp B a).
  Proof. apply QT_eq; unfold qinj; simpl; ring. Qed.
  Lemma qinj_sub a b : csub (quad B w Hw) (qinj B a) (qinj B b) = qinj B (csub B a b).
  Proof. apply QT_eq; unfold qinj; simpl; ring. Qed.
  Lemma qinj_0 : c0 (quad B w Hw) = qinj B (c0 B).
  Proof. reflexivity. Qed.
  Lemma qinj_1 : c1 (quad B w Hw) = qinj B (c1 B).
  Proof. reflexivity. Qed.
  Lemma qinj_inj a b : qinj B a = qinj B b -> a = b.
  Proof. unfold qinj. intro H. injection H as H. exact H. Qed.
End QInj.

Lemma cy_of_Qc_add a b : @kadd CycS (cy_of_Qc a) (cy_of_Qc b) = cy_of_Qc (a + b)%Qc.
Proof.
  unfold cy_of_Qc. change (@kadd CycS) with (cadd L4). unfold L4, L3, L2, L1.
  rewrite !qinj_add. reflexivity.
Qed.
Lemma cy_of_Qc_mul a b : @kmul CycS (cy_of_Qc a) (cy_of_Qc b) = cy_of_Qc (a * b)%Qc.
Proof.
  unfold cy_of_Qc. change (@kmul CycS) with (cmul L4). unfold L4, L3, L2, L1.
  rewrite !qinj_mul. reflexivity.
Qed.
Lemma cy_of_Qc_opp a : @kopp CycS (cy_of_Qc a) = cy_of_Qc (- a)%Qc.
Proof.
  unfold cy_of_Qc. change (@kopp CycS) with (copp L4). unfold L4, L3, L2, L1.
  rewrite !qinj_opp. reflexivity.
Qed.
Lemma cy_of_Qc_sub a b : @ksub CycS (cy_of_Qc a) (cy_of_Qc b) = cy_of_Qc (a - b)%Qc.
Proof.
  unfold cy_of_Qc. change (@ksub CycS) with (csub L4). unfold L4, L3, L2, L1.
  rewrite !qinj_sub. reflexivity.
Qed.
Lemma cy_of_Qc_0 : @k0 CycS = cy_of_Qc 0%Qc.
Proof. reflexivity. Qed.
Lemma cy_of_Qc_1 : @k1 CycS = cy_of_Qc 1%Qc.
Proof. reflexivity. Qed.
Lemma cy_of_Qc_half : @khalf CycS = cy_of_Qc (Q2Qc (1 # 2)).
Proof. reflexivity. Qed.
Lemma cy_of_Qc_inj a b : cy_of_Qc a = cy_of_Qc b -> a = b.
Proof.
  unfold cy_of_Qc. intro H.
  apply qinj_inj in H. apply qinj_inj in H. apply qinj_inj in H. apply qinj_inj in H. exact H.
Qed.
