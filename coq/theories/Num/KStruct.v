(* KStruct.v — the abstract number structure all models and generic theorems are written over:
   a commutative ring K with conjugation, i, 1/2, 1/sqrt2, and an abelian group of angles A with
   cis : A -> K  standing for  a |-> e^{i a/2}  (gate entries are half-angle expressions).
   Instances: CReal (K = R*R, A = R), Cyc (K = Q(zeta_32), A = Z in units of pi/8). *)
From Coq Require Import Ring Setoid.

Record KS : Type := mkKS {
  K : Type;
  k0 : K; k1 : K;
  kadd : K -> K -> K; kmul : K -> K -> K; ksub : K -> K -> K; kopp : K -> K;
  kconj : K -> K; ki : K; khalf : K; krs2 : K;
  k_ring : ring_theory k0 k1 kadd kmul ksub kopp (@eq K);
  k_ii : kmul ki ki = kopp k1;
  k_half : kadd khalf khalf = k1;
  k_rs2 : kmul krs2 krs2 = khalf;
  kconj_add : forall a b, kconj (kadd a b) = kadd (kconj a) (kconj b);
  kconj_mul : forall a b, kconj (kmul a b) = kmul (kconj a) (kconj b);
  kconj_opp : forall a, kconj (kopp a) = kopp (kconj a);
  kconj_inv : forall a, kconj (kconj a) = a;
  kconj_0 : kconj k0 = k0;
  kconj_1 : kconj k1 = k1;
  kconj_i : kconj ki = kopp ki;
  kconj_half : kconj khalf = khalf;
  kconj_rs2 : kconj krs2 = krs2;
  A : Type;
  a0 : A; aadd : A -> A -> A; aopp : A -> A;
  a_assoc : forall a b c, aadd a (aadd b c) = aadd (aadd a b) c;
  a_comm : forall a b, aadd a b = aadd b a;
  a_0_l : forall a, aadd a0 a = a;
  a_opp_r : forall a, aadd a (aopp a) = a0;
  cis : A -> K;
  cis_0 : cis a0 = k1;
  cis_add : forall a b, cis (aadd a b) = kmul (cis a) (cis b);
  cis_conj : forall a, kconj (cis a) = cis (aopp a);
  api : A;                       (* the angle pi: cis api = e^{i pi/2} = i *)
  cis_pi : cis api = ki;
  api2 : A;                      (* pi/2 *)
  api4 : A;                      (* pi/4 *)
  a_pi2 : aadd api2 api2 = api;
  a_pi4 : aadd api4 api4 = api2;
  cis_pi2 : cis api2 = kmul krs2 (kadd k1 ki)      (* e^{i pi/4} = (1+i)/sqrt2 *)
}.

Arguments k0 {_}. Arguments k1 {_}. Arguments kadd {_}. Arguments kmul {_}. Arguments ksub {_}.
Arguments kopp {_}. Arguments kconj {_}. Arguments ki {_}. Arguments khalf {_}. Arguments krs2 {_}.
Arguments a0 {_}. Arguments aadd {_}. Arguments aopp {_}. Arguments cis {_}. Arguments api {_}. Arguments api2 {_}. Arguments api4 {_}.

Arguments k_ii {_}.
Arguments k_half {_}.
Arguments k_rs2 {_}.
Arguments kconj_add {_}.
Arguments kconj_mul {_}.
Arguments kconj_opp {_}.
Arguments kconj_inv {_}.
Arguments kconj_0 {_}.
Arguments kconj_1 {_}.
Arguments kconj_i {_}.
Arguments kconj_half {_}.
Arguments kconj_rs2 {_}.
Arguments a_assoc {_}.
Arguments a_comm {_}.
Arguments a_0_l {_}.
Arguments a_opp_r {_}.
Arguments cis_0 {_}.
Arguments cis_add {_}.
Arguments cis_conj {_}.
Arguments cis_pi {_}.
Arguments a_pi2 {_}.
Arguments a_pi4 {_}.
Arguments cis_pi2 {_}.

Declare Scope K_scope.
Delimit Scope K_scope with K.
Notation "0" := k0 : K_scope.
Notation "1" := k1 : K_scope.
Infix "+" := kadd : K_scope.
Infix "*" := kmul : K_scope.
Infix "-" := ksub : K_scope.
Notation "- x" := (kopp x) : K_scope.

Section Derived.
  Variable S : KS.
  Add Ring kring : (k_ring S).
  Open Scope K_scope.
  Implicit Types a b : A S.

  Lemma cis_unit a : cis a * kconj (cis a) = (1 : K S).
  Proof. rewrite cis_conj, <- cis_add, a_opp_r. apply cis_0. Qed.

  Lemma cis_opp_inv a : cis a * cis (aopp a) = (1 : K S).
  Proof. rewrite <- cis_add, a_opp_r. apply cis_0. Qed.

  Lemma a_0_r a : aadd a a0 = a.
  Proof. rewrite a_comm. apply a_0_l. Qed.

  Lemma a_opp_l a : aadd (aopp a) a = a0.
  Proof. rewrite a_comm. apply a_opp_r. Qed.

  Lemma aopp_0 : aopp (a0 : A S) = a0.
  Proof. rewrite <- (a_0_l (aopp a0)). apply a_opp_r. Qed.

  Lemma a_cancel_l a b c : aadd a b = aadd a c -> b = c.
  Proof.
    intro H. rewrite <- (a_0_l b), <- (a_0_l c), <- (a_opp_l a), <- !a_assoc, H. reflexivity.
  Qed.

  Lemma aopp_add a b : aopp (aadd a b) = aadd (aopp a) (aopp b).
  Proof.
    apply (a_cancel_l (aadd a b)). rewrite a_opp_r.
    rewrite (a_comm (aopp a)), a_assoc, <- (a_assoc a), a_opp_r, a_0_r, a_opp_r. reflexivity.
  Qed.

  Lemma aopp_inv a : aopp (aopp a) = a.
  Proof. apply (a_cancel_l (aopp a)). rewrite a_opp_r, a_opp_l. reflexivity. Qed.

  (* the four quarter turns *)
  Definition a2pi : A S := aadd api api.
  Definition a4pi : A S := aadd a2pi a2pi.
  Lemma cis_2pi : cis a2pi = - (1 : K S).
  Proof. unfold a2pi. rewrite cis_add, cis_pi. apply k_ii. Qed.
  Lemma cis_4pi : cis a4pi = (1 : K S).
  Proof. unfold a4pi. rewrite cis_add, cis_2pi. ring. Qed.
  Lemma cis_period a : cis (aadd a a4pi) = cis a.
  Proof. rewrite cis_add, cis_4pi. ring. Qed.

  (* half-angle cosine and sine: for cis a = e^{i a/2}, cosh a = cos(a/2), sinh a = sin(a/2) *)
  Definition cosh_ a : K S := khalf * (cis a + cis (aopp a)).
  Definition misinh a : K S := khalf * (cis (aopp a) - cis a).        (* = -i sin(a/2) *)
  Definition sinh_ a : K S := ki * misinh a.                           (* = sin(a/2) *)

  Lemma two_half (x : K S) : khalf * x + khalf * x = x.
  Proof. transitivity ((khalf + khalf) * x); [ring|]. rewrite k_half. ring. Qed.

  Lemma cosh_misinh a : cosh_ a + misinh a = cis (aopp a).
  Proof. unfold cosh_, misinh. rewrite <- (two_half (cis (aopp a))) at 3. ring. Qed.

  Lemma cosh_sub_misinh a : cosh_ a - misinh a = cis a.
  Proof. unfold cosh_, misinh. rewrite <- (two_half (cis a)) at 3. ring. Qed.

  Lemma a_comm_mul (x y : K S) : x * y = y * x.
  Proof. ring. Qed.

  Lemma pythagoras a : cosh_ a * cosh_ a - misinh a * misinh a = 1.
  Proof.
    transitivity ((cosh_ a + misinh a) * (cosh_ a - misinh a)); [ring|].
    rewrite cosh_misinh, cosh_sub_misinh, a_comm_mul. apply cis_opp_inv.
  Qed.
End Derived.
