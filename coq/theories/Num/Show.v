(* Show.v — printing of model values as strings, used only by the correspondence harness
   (one line per case; the harness parses these lines). *)
From Coq Require Import String ZArith NArith QArith Qcanon List Ascii DecimalString Decimal.
From Tangelo Require Import Num.KStruct Num.Cyc.
Import ListNotations.
Open Scope string_scope.

Definition show_Z (z : Z) : string := NilZero.string_of_int (Z.to_int z).
Definition show_N (n : N) : string := show_Z (Z.of_N n).
Definition show_nat (n : nat) : string := show_Z (Z.of_nat n).
Definition show_bool (b : bool) : string := if b then "T" else "F".
Definition show_Qc (q : Qc) : string :=
  match Qden (this q) with
  | xH => show_Z (Qnum (this q))
  | d => show_Z (Qnum (this q)) ++ "/" ++ show_Z (Zpos d)
  end.

Fixpoint join (sep : string) (l : list string) : string :=
  match l with
  | [] => ""
  | [x] => x
  | x :: r => x ++ sep ++ join sep r
  end.
Definition show_list {X} (f : X -> string) (l : list X) : string := "[" ++ join "," (map f l) ++ "]".
Definition show_option {X} (f : X -> string) (o : option X) : string :=
  match o with None => "None" | Some x => "Some(" ++ f x ++ ")" end.

(* a cyclotomic number as its 16 rational coefficients of zeta^0..zeta^15; trailing zeros trimmed *)
Fixpoint trim_zeros (l : list Qc) : list Qc :=
  match l with
  | [] => []
  | x :: r => match trim_zeros r with
              | [] => if Qc_eqb x 0%Qc then [] else [x]
              | r' => x :: r'
              end
  end.
Definition show_Cy (c : Cy) : string := "<" ++ join " " (map show_Qc (trim_zeros (cy_flat c))) ++ ">".
