(* Density.v — mixed-state reference semantics (definitions only; proofs are in DensityProofs.v).
   A density matrix is a function N -> N -> K (row index, column index; qubit q = bit q of an index,
   exactly as in State.v).  Conjugation rho |-> U rho U^dagger by a state transformer f (the
   denotation of a gate) is "apply f to every column, then the complex-conjugated f to every row".
   Channels are mixtures of Pauli conjugations:
     pauli_chan    cirq.asymmetric_depolarize(px,py,pz) on one qubit
     depol_cirq    cirq.depolarize(p', k): identity string weight 1-p', every other of the 4^k-1 Pauli
                   strings the same weight
     depol_tangelo what Tangelo asks cirq for: p' = p*(4^k-1)/4^k
     depol_twirl   rho |-> (1-p) rho + p * (uniform Pauli twirl of rho) = (1-p) rho + p (I/2^k (x) tr_k rho)
   Noisy programs are lists of [nop] (gate | Pauli channel | k-qubit depolarising channel); [den_nops]
   is their denotation, [run_nops] the tabulated execution (used with the exact instance CycS and
   rational rates). *)
From Coq Require Import NArith List Bool.
From Tangelo Require Import Num.KStruct QSem.State.
Import ListNotations.

Section Density.
  Variable S : KS.
  Open Scope K_scope.
  Notation K := (K S).
  Notation state := (state S).

  Definition dens : Type := N -> N -> K.
  Definition deq (rho sigma : dens) : Prop := forall r c, rho r c = sigma r c.

  Definition pure (psi : state) : dens := fun r c => psi r * kconj (psi c).

  (* U rho, rho U^dagger, U rho U^dagger for the operator U denoted by f *)
  Definition lmul (f : state -> state) (rho : dens) : dens := fun r c => f (fun r' => rho r' c) r.
  Definition rmul (f : state -> state) (rho : dens) : dens :=
    fun r c => kconj (f (fun c' => kconj (rho r c')) c).
  Definition dconj (f : state -> state) (rho : dens) : dens := rmul f (lmul f rho).

  (* the two facts about a state transformer that conjugation relies on *)
  Definition op_ext (f : state -> state) : Prop :=
    forall psi phi, (forall y, psi y = phi y) -> forall x, f psi x = f phi x.
  Definition op_homog (f : state -> state) : Prop :=
    forall k psi x, f (fun y => k * psi y) x = k * f psi x.

  Definition dscale (k : K) (rho : dens) : dens := fun r c => k * rho r c.
  Definition dadd (rho sigma : dens) : dens := fun r c => rho r c + sigma r c.
  Definition dzero : dens := fun _ _ => 0.
  Fixpoint dsum (l : list dens) : dens :=
    match l with [] => dzero | d :: r => dadd d (dsum r) end.
  Fixpoint ksuml (l : list K) : K := match l with [] => 0 | x :: r => x + ksuml r end.

  (* ---- Pauli letters and strings ---- *)
  Inductive letter : Type := LI | LX | LY | LZ.
  Definition letter_mat (l : letter) : mat2 S :=
    match l with LI => mid S | LX => mX S | LY => mY S | LZ => mZ S end.
  Definition pconj (l : letter) (q : N) (rho : dens) : dens := dconj (app1 S (letter_mat l) q) rho.

  (* a mixture of unitary conjugations: rho |-> sum_i w_i U_i rho U_i^dagger *)
  Definition mix (l : list (K * (state -> state))) (rho : dens) : dens :=
    dsum (map (fun wf => dscale (fst wf) (dconj (snd wf) rho)) l).

  (* cirq.asymmetric_depolarize(px, py, pz) on qubit q *)
  Definition pauli_chan (px py pz : K) (q : N) (rho : dens) : dens :=
    mix [ (1 - px - py - pz, app1 S (letter_mat LI) q); (px, app1 S (letter_mat LX) q);
          (py, app1 S (letter_mat LY) q); (pz, app1 S (letter_mat LZ) q) ] rho.

  (* the string ls applied letter by letter to the qubits qs (first letter on the first qubit) *)
  Fixpoint apply_str (ls : list letter) (qs : list N) (rho : dens) : dens :=
    match ls, qs with
    | l :: ls', q :: qs' => pconj l q (apply_str ls' qs' rho)
    | _, _ => rho
    end.
  Fixpoint strings (k : nat) : list (list letter) :=
    match k with
    | O => [[]]
    | Datatypes.S k' => flat_map (fun l => map (cons l) (strings k')) [LI; LX; LY; LZ]
    end.
  Definition is_I (l : letter) : bool := match l with LI => true | _ => false end.
  Definition all_I (ls : list letter) : bool := forallb is_I ls.

  Definition pauli_mixture (w : list letter -> K) (qs : list N) (rho : dens) : dens :=
    dsum (map (fun ls => dscale (w ls) (apply_str ls qs rho)) (strings (length qs))).

  (* cirq.depolarize(p', k) on qubits qs: weight w0 = 1 - p' on the identity string, the same weight e
     on each of the 4^k - 1 others (e = p'/(4^k-1)) *)
  Definition cirq_weights (w0 e : K) (ls : list letter) : K := if all_I ls then w0 else e.
  Definition depol_cirq (w0 e : K) (qs : list N) (rho : dens) : dens :=
    pauli_mixture (cirq_weights w0 e) qs rho.

  Fixpoint kpow (a : K) (n : nat) : K := match n with O => 1 | Datatypes.S m => a * kpow a m end.
  Definition four : K := (1 + 1) * (1 + 1).
  Definition quarter : K := khalf * khalf.
  (* Tangelo's argument to cirq.depolarize:  np*(4**k-1)/4**k  *)
  Definition tangelo_rate (p : K) (k : nat) : K := p * (kpow four k - 1) * kpow quarter k.
  (* ... so that each non-identity string gets p'/(4^k-1) = p/4^k *)
  Definition each_weight (p : K) (k : nat) : K := p * kpow quarter k.
  Definition depol_tangelo (p : K) (qs : list N) (rho : dens) : dens :=
    depol_cirq (1 - tangelo_rate p (length qs)) (each_weight p (length qs)) qs rho.

  (* uniform Pauli twirl, qubit by qubit *)
  Definition sum4 (q : N) (rho : dens) : dens :=
    dadd (pconj LI q rho) (dadd (pconj LX q rho) (dadd (pconj LY q rho) (pconj LZ q rho))).
  Fixpoint sumall (qs : list N) (rho : dens) : dens :=
    match qs with [] => rho | q :: r => sum4 q (sumall r rho) end.
  Definition tw1 (q : N) (rho : dens) : dens := dscale quarter (sum4 q rho).
  Fixpoint twirl (qs : list N) (rho : dens) : dens :=
    match qs with [] => rho | q :: r => tw1 q (twirl r rho) end.
  Definition depol_twirl (p : K) (qs : list N) (rho : dens) : dens :=
    dadd (dscale (1 - p) rho) (dscale p (twirl qs rho)).

  (* closed forms (proved equal in DensityProofs.v), used for execution *)
  Definition sg (r c q : N) : K := if Bool.eqb (bit r q) (bit c q) then 1 else - (1).
  Definition pconj_closed (l : letter) (q : N) (rho : dens) : dens := fun r c =>
    match l with
    | LI => rho r c
    | LX => rho (flip r q) (flip c q)
    | LY => sg r c q * rho (flip r q) (flip c q)
    | LZ => sg r c q * rho r c
    end.
  Definition pauli_chan_closed (px py pz : K) (q : N) (rho : dens) : dens := fun r c =>
    (1 - px - py - pz) * rho r c + px * rho (flip r q) (flip c q)
    + py * (sg r c q * rho (flip r q) (flip c q)) + pz * (sg r c q * rho r c).
  (* I/2 (x) tr_q rho *)
  Definition ptrace_mix (q : N) (rho : dens) : dens := fun r c =>
    if Bool.eqb (bit r q) (bit c q) then khalf * (rho r c + rho (flip r q) (flip c q)) else 0.
  Fixpoint ptrace_mix_all (qs : list N) (rho : dens) : dens :=
    match qs with [] => rho | q :: r => ptrace_mix q (ptrace_mix_all r rho) end.

  (* ---- noisy programs ---- *)
  Inductive nop : Type :=
  | NGate (g : gate S)
  | NPauli (px py pz : K) (q : N)
  | NDepol (p : K) (qs : list N).

  Definition den_nop (o : nop) (rho : dens) : dens :=
    match o with
    | NGate g => dconj (den_gate S g) rho
    | NPauli px py pz q => pauli_chan px py pz q rho
    | NDepol p qs => depol_tangelo p qs rho
    end.
  Definition den_nops (ops : list nop) (rho : dens) : dens := fold_left (fun r o => den_nop o r) ops rho.

  Definition gates_of (ops : list nop) : circuit S :=
    flat_map (fun o => match o with NGate g => [g] | _ => [] end) ops.
  Definition nop_zero (o : nop) : Prop :=
    match o with
    | NGate _ => True
    | NPauli px py pz _ => px = 0 /\ py = 0 /\ pz = 0
    | NDepol p _ => p = 0
    end.
  Definition nop_qubits (o : nop) : list N :=
    match o with NGate g => gate_qubits S g | NPauli _ _ _ q => [q] | NDepol _ qs => qs end.

  (* the same denotation through the closed forms (cheap to evaluate) *)
  Definition den_nop_fast (o : nop) (rho : dens) : dens :=
    match o with
    | NGate g => dconj (den_gate S g) rho
    | NPauli px py pz q => pauli_chan_closed px py pz q rho
    | NDepol p qs => dadd (dscale (1 - p) rho) (dscale p (ptrace_mix_all qs rho))
    end.

  (* ---- traces over an n-qubit register ---- *)
  Definition indices (n : nat) : list N := map N.of_nat (seq 0 (Nat.pow 2 n)).
  Definition dtrace (n : nat) (rho : dens) : K := ksuml (map (fun x => rho x x) (indices n)).

  (* ---- tabulated execution ---- *)
  Definition dtab (n : nat) (rho : dens) : list (list K) :=
    map (fun r => map (fun c => rho r c) (indices n)) (indices n).
  Definition duntab (t : list (list K)) : dens :=
    fun r c => nth (N.to_nat c) (nth (N.to_nat r) t []) 0.
  Definition run_nop (n : nat) (o : nop) (t : list (list K)) : list (list K) :=
    dtab n (den_nop_fast o (duntab t)).
  Definition run_nops (n : nat) (ops : list nop) (t : list (list K)) : list (list K) :=
    fold_left (fun t o => run_nop n o t) ops t.
  Definition rho0 (n : nat) : list (list K) := dtab n (pure (ket S 0)).
End Density.


Arguments NGate {_}. Arguments NPauli {_}. Arguments NDepol {_}.
