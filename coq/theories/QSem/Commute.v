(* Commute.v — gates acting on disjoint sets of qubits commute (any base gates, any controls). *)
From Coq Require Import NArith List Bool Lia.
From Tangelo Require Import Num.KStruct QSem.State QSem.StateLemmas QSem.GateLemmas QSem.CircuitLemmas.
Import ListNotations.

Section Commute.
  Variable S : KS.
  Add Ring kring : (k_ring S).
  Open Scope K_scope.
  Notation state := (state S).

  (* ---- controlled operations on disjoint supports commute when their bodies do ---- *)
  Lemma ctrl_comm cs1 cs2 (f1 f2 : state -> state) psi :
    local_off S cs2 f1 -> local_off S cs1 f2 ->
    (forall s, f1 (f2 s) = f2 (f1 s)) ->
    ctrl S cs1 f1 (ctrl S cs2 f2 psi) = ctrl S cs2 f2 (ctrl S cs1 f1 psi).
  Proof.
    intros L1 L2 Hc. apply state_ext. intro x. unfold ctrl.
    assert (E1 : allset x cs1 = true -> f1 (fun y => if allset y cs2 then f2 psi y else psi y) x
                 = if allset x cs2 then f1 (f2 psi) x else f1 psi x).
    { intros _. destruct (allset x cs2) eqn:A2; apply L1; intros y Hy;
        assert (allset y cs2 = allset x cs2) as ->
          by (apply allset_agree; exact Hy);
        rewrite A2; reflexivity. }
    assert (E2 : allset x cs2 = true -> f2 (fun y => if allset y cs1 then f1 psi y else psi y) x
                 = if allset x cs1 then f2 (f1 psi) x else f2 psi x).
    { intros _. destruct (allset x cs1) eqn:A1; apply L2; intros y Hy;
        assert (allset y cs1 = allset x cs1) as ->
          by (apply allset_agree; exact Hy);
        rewrite A1; reflexivity. }
    destruct (allset x cs1) eqn:A1, (allset x cs2) eqn:A2;
      rewrite ?(E1 eq_refl), ?(E2 eq_refl), ?A1, ?A2; try reflexivity.
    rewrite Hc. reflexivity.
  Qed.

  (* ---- index maps on distinct qubits commute ---- *)
  (* flips are xors with one-bit masks: equalities between chains of flips are decided bitwise *)
  Ltac xor_solve :=
    unfold flip2, flip; apply N.bits_inj; let k := fresh "k" in intro k; rewrite !N.lxor_spec;
    repeat match goal with |- context [N.testbit ?a k] => destruct (N.testbit a k) end; reflexivity.

  Lemma flip2_flip_comm x a b q : flip2 (flip x q) a b = flip (flip2 x a b) q.
  Proof. xor_solve. Qed.

  Lemma flip2_flip2_comm x a b c d : flip2 (flip2 x a b) c d = flip2 (flip2 x c d) a b.
  Proof. xor_solve. Qed.

  Lemma swapq_flip_comm a b q x : q <> a -> q <> b -> swapq a b (flip x q) = flip (swapq a b x) q.
  Proof.
    intros Ha Hb. unfold swapq.
    rewrite (bit_flip_other x q a), (bit_flip_other x q b) by assumption.
    destruct (Bool.eqb (bit x a) (bit x b)); [reflexivity | apply flip2_flip_comm].
  Qed.

  Lemma swapq_flip2_comm a b c d x :
    c <> a -> c <> b -> d <> a -> d <> b -> swapq a b (flip2 x c d) = flip2 (swapq a b x) c d.
  Proof.
    intros. unfold flip2. rewrite !swapq_flip_comm by assumption. reflexivity.
  Qed.

  Lemma swapq_swapq_comm a b c d x :
    c <> a -> c <> b -> d <> a -> d <> b -> swapq a b (swapq c d x) = swapq c d (swapq a b x).
  Proof.
    intros Hca Hcb Hda Hdb. unfold swapq at 2 4.
    destruct (Bool.eqb (bit x c) (bit x d)) eqn:E1; destruct (Bool.eqb (bit x a) (bit x b)) eqn:E2.
    - unfold swapq. rewrite E1, E2. reflexivity.
    - unfold swapq. rewrite E2.
      rewrite (flip2_other x a b c), (flip2_other x a b d), E1 by assumption. reflexivity.
    - unfold swapq.
      rewrite (flip2_other x c d a), (flip2_other x c d b), E2, E1
        by (intro E; subst; congruence). reflexivity.
    - unfold swapq.
      rewrite (flip2_other x c d a), (flip2_other x c d b), E2 by (intro E; subst; congruence).
      rewrite (flip2_other x a b c), (flip2_other x a b d), E1 by assumption.
      apply flip2_flip2_comm.
  Qed.

  (* ---- base gates on disjoint qubits commute ---- *)
  Definition disjoint (l1 l2 : list N) : Prop := forall q, In q l1 -> ~ In q l2.

  Lemma den_base_comm (b1 b2 : base S) psi :
    disjoint (base_qubits S b1) (base_qubits S b2) ->
    den_base S b1 (den_base S b2 psi) = den_base S b2 (den_base S b1 psi).
  Proof.
    intro D.
    assert (ne : forall p q, In p (base_qubits S b1) -> In q (base_qubits S b2) -> p <> q).
    { intros p q Hp Hq E. subst. exact (D q Hp Hq). }
    destruct b1 as [g q|a b|t a b]; destruct b2 as [g' q'|a' b'|t' a' b']; simpl in *.
    - apply app1_comm. apply ne; auto.
    - (* app1 / swap *)
      apply state_ext. intro x. unfold app1, app_swap.
      rewrite (swapq_other a' b' x q) by (apply ne; auto).
      rewrite swapq_flip_comm by (apply ne; auto). reflexivity.
    - (* app1 / xx *)
      apply state_ext. intro x. unfold app1, app_xx.
      rewrite (flip2_other x a' b' q) by (apply ne; auto).
      rewrite flip2_flip_comm. destruct (bit x q); ring.
    - (* swap / app1 *)
      apply state_ext. intro x. unfold app1, app_swap.
      rewrite (swapq_other a b x q') by (intro E; symmetry in E; revert E; apply ne; auto).
      rewrite swapq_flip_comm by (intro E; symmetry in E; revert E; apply ne; auto). reflexivity.
    - (* swap / swap *)
      apply state_ext. intro x. unfold app_swap. f_equal.
      symmetry. apply swapq_swapq_comm; intro E; symmetry in E; revert E; apply ne; auto.
    - (* swap / xx *)
      apply state_ext. intro x. unfold app_swap, app_xx.
      rewrite swapq_flip2_comm by (intro E; symmetry in E; revert E; apply ne; auto). reflexivity.
    - (* xx / app1 *)
      apply state_ext. intro x. unfold app1, app_xx.
      rewrite (flip2_other x a b q') by (intro E; symmetry in E; revert E; apply ne; auto).
      rewrite flip2_flip_comm. destruct (bit x q'); ring.
    - (* xx / swap *)
      apply state_ext. intro x. unfold app_swap, app_xx.
      rewrite swapq_flip2_comm by (apply ne; auto). reflexivity.
    - (* xx / xx *)
      apply state_ext. intro x. unfold app_xx.
      rewrite (flip2_flip2_comm x a' b' a b). ring.
  Qed.

  (* ---- full gates (with any controls) on disjoint qubit sets commute ---- *)
  Theorem den_gate_comm (g1 g2 : gate S) psi :
    disjoint (gate_qubits S g1) (gate_qubits S g2) ->
    den_gate S g1 (den_gate S g2 psi) = den_gate S g2 (den_gate S g1 psi).
  Proof.
    intro D. unfold den_gate. unfold gate_qubits in D.
    apply ctrl_comm.
    - apply den_base_local. intros q Hq Hc. apply (D q); apply in_or_app; auto.
    - apply den_base_local. intros q Hq Hc. apply (D q); apply in_or_app; auto.
    - intro s. apply den_base_comm. intros q H1 H2. apply (D q); apply in_or_app; auto.
  Qed.

  (* a gate commutes with a whole circuit acting on other qubits *)
  Theorem den_gate_comm_circuit (g : gate S) (c : circuit S) psi :
    Forall (fun h => disjoint (gate_qubits S g) (gate_qubits S h)) c ->
    den S c (den_gate S g psi) = den_gate S g (den S c psi).
  Proof.
    revert psi. induction c as [|h r IH]; intros psi H; [reflexivity|].
    inversion H as [|h' r' Hd Hr]; subst. rewrite !den_cons.
    rewrite (den_gate_comm h g) by (intros q H1 H2; exact (Hd q H2 H1)).
    apply IH. exact Hr.
  Qed.
End Commute.
