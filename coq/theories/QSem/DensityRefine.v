(* DensityRefine.v — the tabulated execution of noisy programs (Density.run_nops: 2^n x 2^n tables of
   entries, re-tabulated after every operation) computes the functional denotation den_nops on all
   row/column indices below 2^n, for programs that touch qubits below n only.  This is what ties the
   exact values printed by the harness to the theorems about den_nops. *)
From Coq Require Import Arith NArith List Bool Lia.
From Tangelo Require Import Num.KStruct QSem.State QSem.StateLemmas QSem.Density QSem.DensityProofs.
Import ListNotations.

Definition lt2n (n : nat) (x : N) : Prop := (x < 2 ^ N.of_nat n)%N.

Lemma flip_lt2n n x q : lt2n n x -> (q < N.of_nat n)%N -> lt2n n (flip x q).
Proof. unfold lt2n. apply flip_lt_pow2. Qed.

Lemma flip2_lt2n n x q1 q2 : lt2n n x -> (q1 < N.of_nat n)%N -> (q2 < N.of_nat n)%N -> lt2n n (flip2 x q1 q2).
Proof. intros Hx H1 H2. unfold flip2. apply flip_lt2n; [apply flip_lt2n|]; assumption. Qed.

Lemma swapq_lt2n n x q1 q2 : lt2n n x -> (q1 < N.of_nat n)%N -> (q2 < N.of_nat n)%N -> lt2n n (swapq q1 q2 x).
Proof.
  intros Hx H1 H2. unfold swapq. destruct (Bool.eqb (bit x q1) (bit x q2)); [exact Hx|].
  apply flip2_lt2n; assumption.
Qed.

Lemma nth_indices n i : (i < 2 ^ n)%nat -> nth i (indices n) 0%N = N.of_nat i.
Proof.
  intro H. unfold indices. rewrite (nth_indep _ 0%N (N.of_nat 0)) by (rewrite map_length, seq_length; exact H).
  rewrite map_nth, seq_nth by exact H. reflexivity.
Qed.

Lemma lt2n_nat n x : lt2n n x -> (N.to_nat x < 2 ^ n)%nat.
Proof.
  unfold lt2n. intro H. assert (E : N.of_nat (2 ^ n)%nat = (2 ^ N.of_nat n)%N) by apply Nat2N.inj_pow. lia.
Qed.

Section Refine.
  Variable S : KS.
  Add Ring kring : (k_ring S).
  Open Scope K_scope.
  Notation K := (K S).
  Notation state := (state S).
  Notation dens := (dens S).

  Definition op_local (n : nat) (f : state -> state) : Prop :=
    forall psi phi, (forall y, lt2n n y -> psi y = phi y) -> forall x, lt2n n x -> f psi x = f phi x.
  Definition deq_n (n : nat) (rho sigma : dens) : Prop :=
    forall r c, lt2n n r -> lt2n n c -> rho r c = sigma r c.

  Lemma deq_deq_n n rho sigma : deq S rho sigma -> deq_n n rho sigma.
  Proof. intros H r c _ _. apply H. Qed.

  Lemma deq_n_trans n a b c : deq_n n a b -> deq_n n b c -> deq_n n a c.
  Proof. intros H1 H2 r c0 Hr Hc. rewrite (H1 r c0 Hr Hc). apply H2; assumption. Qed.

  Lemma app1_local_n n u q : (q < N.of_nat n)%N -> op_local n (app1 S u q).
  Proof.
    intros Hq psi phi H x Hx. unfold app1.
    rewrite (H x Hx), (H (flip x q) (flip_lt2n n x q Hx Hq)). reflexivity.
  Qed.

  Lemma den_base_local_n n b :
    Forall (fun q => (q < N.of_nat n)%N) (base_qubits S b) -> op_local n (den_base S b).
  Proof.
    intros Hq psi phi H x Hx. destruct b as [g q|q1 q2|a q1 q2]; simpl in *.
    - inversion Hq as [|? ? Hq1 _]; subst. exact (app1_local_n n _ q Hq1 psi phi H x Hx).
    - unfold app_swap. apply H. inversion Hq as [|? ? H1 Hq']; subst. inversion Hq'; subst.
      apply swapq_lt2n; assumption.
    - unfold app_xx. inversion Hq as [|? ? H1 Hq']; subst. inversion Hq' as [|? ? H2 ?]; subst.
      rewrite (H x Hx), (H (flip2 x q1 q2) (flip2_lt2n n x q1 q2 Hx H1 H2)). reflexivity.
  Qed.

  Lemma den_gate_local_n n g :
    Forall (fun q => (q < N.of_nat n)%N) (gate_qubits S g) -> op_local n (den_gate S g).
  Proof.
    intros Hq psi phi H x Hx. unfold den_gate, ctrl.
    destruct (allset x (gctrl g)); [|apply H; exact Hx].
    unfold gate_qubits in Hq. apply Forall_app in Hq.
    exact (den_base_local_n n (gbase g) (proj1 Hq) psi phi H x Hx).
  Qed.

  Lemma dconj_local_n n f rho sigma :
    op_local n f -> deq_n n rho sigma -> deq_n n (dconj S f rho) (dconj S f sigma).
  Proof.
    intros Hf H r c Hr Hc. unfold dconj, rmul, lmul. f_equal.
    apply Hf; [|exact Hc]. intros c' Hc'. f_equal.
    apply Hf; [|exact Hr]. intros r' Hr'. apply H; assumption.
  Qed.

  Lemma ptrace_mix_local_n n q rho sigma :
    (q < N.of_nat n)%N -> deq_n n rho sigma -> deq_n n (ptrace_mix S q rho) (ptrace_mix S q sigma).
  Proof.
    intros Hq H r c Hr Hc. unfold ptrace_mix.
    rewrite (H r c Hr Hc), (H (flip r q) (flip c q) (flip_lt2n n r q Hr Hq) (flip_lt2n n c q Hc Hq)). reflexivity.
  Qed.

  Lemma ptrace_mix_all_local_n n qs rho sigma :
    Forall (fun q => (q < N.of_nat n)%N) qs -> deq_n n rho sigma ->
    deq_n n (ptrace_mix_all S qs rho) (ptrace_mix_all S qs sigma).
  Proof.
    intros Hq H. induction Hq as [|q qs Hq1 _ IH]; [exact H|].
    simpl. apply ptrace_mix_local_n; assumption.
  Qed.

  Lemma den_nop_fast_local_n n o rho sigma :
    Forall (fun q => (q < N.of_nat n)%N) (nop_qubits S o) -> deq_n n rho sigma ->
    deq_n n (den_nop_fast S o rho) (den_nop_fast S o sigma).
  Proof.
    intros Hq H. destruct o as [g|px py pz q|p qs]; simpl in *.
    - apply dconj_local_n; [apply den_gate_local_n; exact Hq | exact H].
    - intros r c Hr Hc. inversion Hq as [|? ? Hq1 _]; subst. unfold pauli_chan_closed.
      rewrite (H r c Hr Hc), (H (flip r q) (flip c q) (flip_lt2n n r q Hr Hq1) (flip_lt2n n c q Hc Hq1)). reflexivity.
    - intros r c Hr Hc. unfold dadd, dscale.
      rewrite (H r c Hr Hc), (ptrace_mix_all_local_n n qs rho sigma Hq H r c Hr Hc). reflexivity.
  Qed.

  (* tabulating and reading back is the identity below 2^n *)
  Lemma duntab_dtab n rho : deq_n n (duntab S (dtab S n rho)) rho.
  Proof.
    intros r c Hr Hc. unfold duntab, dtab.
    pose proof (lt2n_nat n r Hr) as Hr'. pose proof (lt2n_nat n c Hc) as Hc'.
    rewrite (nth_indep _ [] (map (fun c0 => rho 0%N c0) (indices n)))
      by (rewrite map_length; unfold indices; rewrite map_length, seq_length; exact Hr').
    rewrite (map_nth (fun r0 => map (fun c0 => rho r0 c0) (indices n)) (indices n) 0%N).
    rewrite (nth_indep _ 0 (rho (nth (N.to_nat r) (indices n) 0%N) 0%N))
      by (rewrite map_length; unfold indices; rewrite map_length, seq_length; exact Hc').
    rewrite (map_nth (fun c0 => rho (nth (N.to_nat r) (indices n) 0%N) c0) (indices n) 0%N).
    rewrite !nth_indices by assumption. rewrite !N2Nat.id. reflexivity.
  Qed.

  (* MAIN: the tabulated execution computes the denotation *)
  Theorem run_nops_correct n ops : forall t rho,
    Forall (fun o => Forall (fun q => (q < N.of_nat n)%N) (nop_qubits S o)) ops ->
    deq_n n (duntab S t) rho ->
    deq_n n (duntab S (run_nops S n ops t)) (den_nops S ops rho).
  Proof.
    induction ops as [|o ops IH]; intros t rho Hq H; [exact H|].
    inversion Hq as [|o' ops' Ho Hops]; subst. simpl.
    apply IH; [exact Hops|]. unfold run_nop.
    apply (deq_n_trans n _ (den_nop_fast S o (duntab S t))); [apply duntab_dtab|].
    apply (deq_n_trans n _ (den_nop_fast S o rho)); [apply den_nop_fast_local_n; assumption|].
    apply deq_deq_n. apply den_nop_fast_ok.
  Qed.

  Corollary run_nops_from_zero n ops :
    Forall (fun o => Forall (fun q => (q < N.of_nat n)%N) (nop_qubits S o)) ops ->
    deq_n n (duntab S (run_nops S n ops (rho0 S n))) (den_nops S ops (pure S (ket S 0))).
  Proof. intro Hq. apply run_nops_correct; [exact Hq | apply duntab_dtab]. Qed.
End Refine.
