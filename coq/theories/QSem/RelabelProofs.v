(* RelabelProofs.v — renaming the qubits of a circuit does not change what it does to them; a circuit
   whose gates fall into parts acting on disjoint qubits denotes the composition of the parts.

   1. abstract form: for f and pull with  bit (pull y) q = bit y (f q)  and f injective against the
      qubits of the gates,  den (rename f c) (psi o pull) = (den c psi) o pull          (den_rename)
   2. construction: for a finite association list m with distinct keys and distinct values,
      relabel_f m is injective, relabel_inv m is its partial inverse, relabel_pull m satisfies the
      bit specification (relabel_pull_spec), hence 1. applies                          (relabel_pullback)
   3. frame form, for EVERY state phi (not only pulled-back ones): the renamed circuit acts on the
      qubits f q as the original does on q and leaves every other bit alone:
        den (rename f c) phi y = den c (fun x => phi (emb x y)) (pull y)                (relabel_frame)
   4. interleavings: if the gates of c1 and c2 act on disjoint qubits then every interleaving of c1
      and c2 denotes den (c1 ++ c2) (interleave_den); k parts (kinterleave_den).
   All for a generic number structure S, any base gates, any number of controls. *)
From Coq Require Import ZArith NArith List Bool Lia.
From Tangelo Require Import Num.KStruct Num.Cyc QSem.State QSem.StateLemmas QSem.GateLemmas QSem.CircuitLemmas
     QSem.Commute QSem.Relabel.
Import ListNotations.
Local Open Scope N_scope.

(* ------------------------------------------------------------------------------------------------ *)
(* bit facts for an abstract pair (f, pull)                                                          *)
(* ------------------------------------------------------------------------------------------------ *)
Lemma pull_flip (f pull : N -> N) (y q : N) :
  (forall y q, N.testbit (pull y) q = N.testbit y (f q)) ->
  (forall r, f r = f q -> r = q) ->
  pull (flip y (f q)) = flip (pull y) q.
Proof.
  intros Hp Hi. apply N.bits_inj. intro r. unfold flip.
  rewrite Hp, !N.lxor_spec, Hp, !testbit_pow2. f_equal.
  destruct (N.eqb_spec (f q) (f r)) as [E|E]; destruct (N.eqb_spec q r) as [E'|E']; try reflexivity.
  - exfalso. apply E'. symmetry. apply Hi. symmetry. exact E.
  - exfalso. apply E. rewrite E'. reflexivity.
Qed.

Lemma allset_map (f pull : N -> N) (y : N) (cs : list N) :
  (forall y q, N.testbit (pull y) q = N.testbit y (f q)) ->
  allset y (map f cs) = allset (pull y) cs.
Proof.
  intro Hp. unfold allset. induction cs as [|c r IH]; simpl; [reflexivity|].
  unfold bit at 1 3. rewrite Hp, IH. reflexivity.
Qed.

Lemma pull_swapq (f pull : N -> N) (a b y : N) :
  (forall y q, N.testbit (pull y) q = N.testbit y (f q)) ->
  (forall r, f r = f a -> r = a) -> (forall r, f r = f b -> r = b) ->
  pull (swapq (f a) (f b) y) = swapq a b (pull y).
Proof.
  intros Hp Ha Hb. unfold swapq, bit. rewrite <- (Hp y a), <- (Hp y b).
  destruct (Bool.eqb (N.testbit (pull y) a) (N.testbit (pull y) b)); [reflexivity|].
  unfold flip2. rewrite (pull_flip f pull _ b Hp Hb), (pull_flip f pull _ a Hp Ha). reflexivity.
Qed.

(* ------------------------------------------------------------------------------------------------ *)
(* 1. renaming against a pull-back, abstract form                                                    *)
(* ------------------------------------------------------------------------------------------------ *)
Section RenameProofs.
  Variable S : KS.
  Add Ring kring : (k_ring S).
  Open Scope K_scope.
  Notation state := (state S).

  Variables f pull : N -> N.
  Hypothesis Hpull : forall y q, N.testbit (pull y) q = N.testbit y (f q).

  Lemma rename_gate_qubits (g : gate S) :
    gate_qubits S (rename_gate S f g) = map f (gate_qubits S g).
  Proof.
    unfold gate_qubits, rename_gate; simpl. rewrite map_app. f_equal.
    destruct (gbase g); reflexivity.
  Qed.

  Lemma den_base_rename (b : base S) (psi : state) :
    (forall r q, In q (base_qubits S b) -> f r = f q -> r = q) ->
    den_base S (rename_base S f b) (pullback S pull psi) = pullback S pull (den_base S b psi).
  Proof.
    intro Hi. apply state_ext. intro y. destruct b as [u q|a b|t a b]; simpl; unfold pullback.
    - unfold app1. unfold bit. rewrite <- (Hpull y q).
      rewrite (pull_flip f pull y q Hpull) by (intros r Hr; apply (Hi r q); [left; reflexivity | exact Hr]).
      reflexivity.
    - unfold app_swap.
      rewrite (pull_swapq f pull a b y Hpull (fun r Hr => Hi r a (or_introl eq_refl) Hr)
                          (fun r Hr => Hi r b (or_intror (or_introl eq_refl)) Hr)).
      reflexivity.
    - unfold app_xx, flip2.
      rewrite (pull_flip f pull _ b Hpull) by (intros r Hr; apply (Hi r b); simpl; auto).
      rewrite (pull_flip f pull _ a Hpull) by (intros r Hr; apply (Hi r a); simpl; auto).
      reflexivity.
  Qed.

  (* one gate, any controls *)
  Theorem den_gate_rename (g : gate S) (psi : state) :
    (forall r q, In q (gate_qubits S g) -> f r = f q -> r = q) ->
    den_gate S (rename_gate S f g) (pullback S pull psi) = pullback S pull (den_gate S g psi).
  Proof.
    intro Hi. apply state_ext. intro y. unfold den_gate, rename_gate; simpl.
    unfold ctrl. rewrite (allset_map f pull y (gctrl g) Hpull).
    unfold pullback at 2 3.
    destruct (allset (pull y) (gctrl g)); [|reflexivity].
    rewrite den_base_rename; [reflexivity|].
    intros r q Hq. apply Hi. unfold gate_qubits. apply in_or_app. left. exact Hq.
  Qed.

  (* circuits *)
  Theorem den_rename (c : circuit S) (psi : state) :
    Forall (fun g => forall r q, In q (gate_qubits S g) -> f r = f q -> r = q) c ->
    den S (rename S f c) (pullback S pull psi) = pullback S pull (den S c psi).
  Proof.
    revert psi. induction c as [|g c IH]; intros psi Hi; [reflexivity|].
    inversion Hi as [|g' c' Hg Hc]; subst. unfold rename in *. simpl map.
    rewrite !den_cons. rewrite den_gate_rename by exact Hg. apply IH. exact Hc.
  Qed.
End RenameProofs.

(* ------------------------------------------------------------------------------------------------ *)
(* 2. association lists: relabel_f is injective, relabel_inv is its partial inverse                  *)
(* ------------------------------------------------------------------------------------------------ *)
Lemma nlookup_in q m v : nlookup q m = Some v -> In (q, v) m.
Proof.
  induction m as [|[k w] r IH]; simpl; [discriminate|].
  destruct (N.eqb_spec q k) as [->|Hne].
  - intro H. inversion H. left. reflexivity.
  - intro H. right. apply IH. exact H.
Qed.

Lemma nrlookup_in y m k : nrlookup y m = Some k -> In (k, y) m.
Proof.
  induction m as [|[k' w] r IH]; simpl; [discriminate|].
  destruct (N.eqb_spec y w) as [->|Hne].
  - intro H. inversion H. left. reflexivity.
  - intro H. right. apply IH. exact H.
Qed.

Lemma nlookup_of_in q v m : NoDup (map fst m) -> In (q, v) m -> nlookup q m = Some v.
Proof.
  induction m as [|[k w] r IH]; simpl; intros Hn Hin; [contradiction|].
  inversion Hn as [|k' l' Hk Hr]; subst. destruct Hin as [E|Hin].
  - inversion E; subst. rewrite N.eqb_refl. reflexivity.
  - destruct (N.eqb_spec q k) as [->|Hne].
    + exfalso. apply Hk. apply in_map_iff. exists (k, v). split; [reflexivity | exact Hin].
    + apply IH; assumption.
Qed.

Lemma nrlookup_of_in k y m : NoDup (map snd m) -> In (k, y) m -> nrlookup y m = Some k.
Proof.
  induction m as [|[k' w] r IH]; simpl; intros Hn Hin; [contradiction|].
  inversion Hn as [|w' l' Hw Hr]; subst. destruct Hin as [E|Hin].
  - inversion E; subst. rewrite N.eqb_refl. reflexivity.
  - destruct (N.eqb_spec y w) as [->|Hne].
    + exfalso. apply Hw. apply in_map_iff. exists (k, w). split; [reflexivity | exact Hin].
    + apply IH; assumption.
Qed.

Lemma nbound_gt m k v : In (k, v) m -> v < nbound m.
Proof.
  induction m as [|[k' w] r IH]; simpl; [contradiction|].
  intros [E|Hin].
  - inversion E; subst. lia.
  - specialize (IH Hin). lia.
Qed.

Lemma relabel_inv_spec m : relabel_ok m -> forall y q, relabel_inv m y = Some q <-> relabel_f m q = y.
Proof.
  intros [Hk Hv] y q. unfold relabel_inv, relabel_f. split.
  - destruct (N.ltb_spec y (nbound m)) as [Hlt|Hge].
    + intro H. apply nrlookup_in in H. rewrite (nlookup_of_in q y m Hk H). reflexivity.
    + destruct (nlookup (y - nbound m) m) as [w|] eqn:E; [discriminate|].
      intro H. inversion H; subst. rewrite E. lia.
  - destruct (nlookup q m) as [v|] eqn:E.
    + intros <-. apply nlookup_in in E. pose proof (nbound_gt m q v E) as Hlt.
      destruct (N.ltb_spec v (nbound m)) as [_|Hge]; [|lia].
      apply nrlookup_of_in; assumption.
    + intros <-. destruct (N.ltb_spec (nbound m + q) (nbound m)) as [Hlt|_]; [lia|].
      replace (nbound m + q - nbound m) with q by lia. rewrite E. reflexivity.
Qed.

Lemma relabel_f_inj m : relabel_ok m -> forall r q, relabel_f m r = relabel_f m q -> r = q.
Proof.
  intros Hok r q E.
  assert (H1 : relabel_inv m (relabel_f m q) = Some q) by (apply relabel_inv_spec; [exact Hok | reflexivity]).
  assert (H2 : relabel_inv m (relabel_f m q) = Some r) by (apply relabel_inv_spec; [exact Hok | exact E]).
  rewrite H1 in H2. inversion H2. reflexivity.
Qed.

Lemma relabel_f_key m q v : nlookup q m = Some v -> relabel_f m q = v.
Proof. unfold relabel_f. intros ->. reflexivity. Qed.

Lemma nmem_In x l : nmem x l = true <-> In x l.
Proof.
  induction l as [|y r IH]; simpl; [split; [discriminate | contradiction]|].
  rewrite orb_true_iff, IH, N.eqb_eq. split; intros [H|H]; auto.
Qed.

Lemma nnodup_NoDup l : nnodup l = true -> NoDup l.
Proof.
  induction l as [|y r IH]; simpl; intro H; [constructor|].
  apply andb_true_iff in H. destruct H as [H1 H2]. constructor; [|apply IH; exact H2].
  intro Hin. apply nmem_In in Hin. rewrite Hin in H1. discriminate.
Qed.

Lemma relabel_okb_ok m : relabel_okb m = true -> relabel_ok m.
Proof.
  unfold relabel_okb, relabel_ok. intro H. apply andb_true_iff in H. destruct H as [H1 H2].
  split; apply nnodup_NoDup; assumption.
Qed.

(* ------------------------------------------------------------------------------------------------ *)
(* moving bits: specification of mapbits                                                             *)
(* ------------------------------------------------------------------------------------------------ *)
Lemma testbit_bit_at o q : N.testbit (bit_at o) q = match o with Some q' => N.eqb q' q | None => false end.
Proof. destruct o as [q'|]; unfold bit_at; [apply testbit_pow2 | apply N.bits_0]. Qed.

Lemma tb_xI_succ p k : N.testbit (Npos p~1) (N.succ k) = N.testbit (Npos p) k.
Proof. destruct k as [|k]; simpl; [reflexivity | rewrite Pos.pred_N_succ; reflexivity]. Qed.

Lemma tb_xO_succ p k : N.testbit (Npos p~0) (N.succ k) = N.testbit (Npos p) k.
Proof. destruct k as [|k]; simpl; [reflexivity | rewrite Pos.pred_N_succ; reflexivity]. Qed.

Lemma tb_one k : N.testbit 1 k = N.eqb k 0.
Proof. destruct k; reflexivity. Qed.

Lemma bit_at_hit (h hinv : N -> option N) :
  (forall r q, h r = Some q <-> hinv q = Some r) ->
  forall i q, N.testbit (bit_at (h i)) q = match hinv q with Some r => N.eqb r i | None => false end.
Proof.
  intros Hh i q. rewrite testbit_bit_at. destruct (h i) as [q'|] eqn:Hi.
  - destruct (N.eqb_spec q' q) as [->|Hne].
    + apply Hh in Hi. rewrite Hi, N.eqb_refl. reflexivity.
    + destruct (hinv q) as [r|] eqn:Hq; [|reflexivity].
      destruct (N.eqb_spec r i) as [->|Hne']; [|reflexivity].
      apply Hh in Hq. rewrite Hi in Hq. inversion Hq. contradiction.
  - destruct (hinv q) as [r|] eqn:Hq; [|reflexivity].
    destruct (N.eqb_spec r i) as [->|Hne']; [|reflexivity].
    apply Hh in Hq. rewrite Hi in Hq. discriminate.
Qed.

Lemma mapbits_pos_spec (h hinv : N -> option N) :
  (forall r q, h r = Some q <-> hinv q = Some r) ->
  forall p i q, N.testbit (mapbits_pos h p i) q
                = match hinv q with Some r => N.leb i r && N.testbit (Npos p) (r - i) | None => false end.
Proof.
  intro Hh. induction p as [p IH|p IH|]; intros i q; simpl mapbits_pos.
  - rewrite N.lor_spec, (bit_at_hit h hinv Hh), IH. destruct (hinv q) as [r|]; [|reflexivity].
    destruct (N.eqb_spec r i) as [->|Hne].
    + rewrite N.sub_diag, N.leb_refl. reflexivity.
    + destruct (N.leb_spec i r) as [Hle|Hgt].
      * replace (r - i) with (N.succ (r - N.succ i)) by lia. rewrite tb_xI_succ.
        assert (E : N.leb (N.succ i) r = true) by (apply N.leb_le; lia). rewrite E. reflexivity.
      * assert (E : N.leb (N.succ i) r = false) by (apply N.leb_gt; lia). rewrite E. reflexivity.
  - rewrite IH. destruct (hinv q) as [r|]; [|reflexivity].
    destruct (N.eqb_spec r i) as [->|Hne].
    + rewrite N.sub_diag, N.leb_refl.
      assert (E : N.leb (N.succ i) i = false) by (apply N.leb_gt; lia). rewrite E. reflexivity.
    + destruct (N.leb_spec i r) as [Hle|Hgt].
      * replace (r - i) with (N.succ (r - N.succ i)) by lia. rewrite tb_xO_succ.
        assert (E : N.leb (N.succ i) r = true) by (apply N.leb_le; lia). rewrite E. reflexivity.
      * assert (E : N.leb (N.succ i) r = false) by (apply N.leb_gt; lia). rewrite E. reflexivity.
  - rewrite (bit_at_hit h hinv Hh). destruct (hinv q) as [r|]; [|reflexivity].
    rewrite tb_one. destruct (N.eqb_spec r i) as [->|Hne].
    + rewrite N.sub_diag, N.leb_refl. reflexivity.
    + destruct (N.leb_spec i r) as [Hle|Hgt]; [|reflexivity].
      destruct (N.eqb_spec (r - i) 0) as [E|_]; [lia | reflexivity].
Qed.

Lemma mapbits_spec (h hinv : N -> option N) :
  (forall r q, h r = Some q <-> hinv q = Some r) ->
  forall y q, N.testbit (mapbits h y) q = match hinv q with Some r => N.testbit y r | None => false end.
Proof.
  intros Hh y q. destruct y as [|p]; simpl mapbits.
  - rewrite N.bits_0. destruct (hinv q); [rewrite N.bits_0|]; reflexivity.
  - rewrite (mapbits_pos_spec h hinv Hh). destruct (hinv q) as [r|]; [|reflexivity].
    rewrite N.sub_0_r. assert (E : N.leb 0 r = true) by (apply N.leb_le; lia). rewrite E. reflexivity.
Qed.

(* ------------------------------------------------------------------------------------------------ *)
(* pull and emb for an injective f with a partial inverse finv                                       *)
(* ------------------------------------------------------------------------------------------------ *)
Section PullEmb.
  Variable f : N -> N.
  Variable finv : N -> option N.
  Hypothesis Hinv : forall y q, finv y = Some q <-> f q = y.

  Lemma finv_f q : finv (f q) = Some q.
  Proof. apply Hinv. reflexivity. Qed.

  Lemma finv_inj r q : f r = f q -> r = q.
  Proof. intro E. pose proof (finv_f r) as H. rewrite E, finv_f in H. inversion H. reflexivity. Qed.

  Lemma pull_of_spec y q : N.testbit (pull_of finv y) q = N.testbit y (f q).
  Proof.
    unfold pull_of. rewrite (mapbits_spec finv (fun q => Some (f q))); [reflexivity|].
    intros r q'. rewrite Hinv. split; intro H; [rewrite H; reflexivity | inversion H; reflexivity].
  Qed.

  Lemma outside_sym r q : outside finv r = Some q <-> outside finv q = Some r.
  Proof.
    unfold outside. split; intro H.
    - destruct (finv r) eqn:E; [discriminate|]. inversion H; subst. rewrite E. reflexivity.
    - destruct (finv q) eqn:E; [discriminate|]. inversion H; subst. rewrite E. reflexivity.
  Qed.

  Lemma emb_of_spec x y0 r :
    N.testbit (emb_of f finv x y0) r = match finv r with Some q => N.testbit x q | None => N.testbit y0 r end.
  Proof.
    unfold emb_of. rewrite N.lor_spec.
    rewrite (mapbits_spec (fun q => Some (f q)) finv).
    - rewrite (mapbits_spec (outside finv) (outside finv) outside_sym).
      unfold outside. destruct (finv r) as [q|]; [apply orb_false_r | reflexivity].
    - intros q y. rewrite Hinv. split; intro H; [inversion H; reflexivity | rewrite H; reflexivity].
  Qed.

  Notation pull := (pull_of finv).
  Notation emb := (emb_of f finv).

  Lemma emb_pull y : emb (pull y) y = y.
  Proof.
    apply N.bits_inj. intro r. rewrite emb_of_spec. destruct (finv r) as [q|] eqn:E; [|reflexivity].
    rewrite pull_of_spec. apply Hinv in E. rewrite E. reflexivity.
  Qed.

  Lemma pull_emb x y0 : pull (emb x y0) = x.
  Proof. apply N.bits_inj. intro q. rewrite pull_of_spec, emb_of_spec, finv_f. reflexivity. Qed.

  Lemma emb_emb x x' y0 : emb x (emb x' y0) = emb x y0.
  Proof.
    apply N.bits_inj. intro r. rewrite !emb_of_spec. destruct (finv r) as [q|]; reflexivity.
  Qed.

  Lemma emb_flip x q y0 : emb (flip x q) y0 = flip (emb x y0) (f q).
  Proof.
    apply N.bits_inj. intro r. unfold flip at 2. rewrite N.lxor_spec, testbit_pow2, !emb_of_spec.
    destruct (finv r) as [q'|] eqn:E.
    - unfold flip. rewrite N.lxor_spec, testbit_pow2. f_equal. apply Hinv in E. subst r.
      destruct (N.eqb_spec q q') as [->|Hne]; [rewrite N.eqb_refl; reflexivity|].
      destruct (N.eqb_spec (f q) (f q')) as [E'|_]; [|reflexivity].
      exfalso. apply Hne. apply finv_inj. exact E'.
    - destruct (N.eqb_spec (f q) r) as [E'|_]; [|rewrite xorb_false_r; reflexivity].
      rewrite <- E', finv_f in E. discriminate.
  Qed.

  Lemma bit_emb x y0 q : bit (emb x y0) (f q) = bit x q.
  Proof. unfold bit. rewrite emb_of_spec, finv_f. reflexivity. Qed.

  Lemma emb_swapq a b x y0 : emb (swapq a b x) y0 = swapq (f a) (f b) (emb x y0).
  Proof.
    unfold swapq. rewrite !bit_emb. destruct (Bool.eqb (bit x a) (bit x b)); [reflexivity|].
    unfold flip2. rewrite !emb_flip. reflexivity.
  Qed.
End PullEmb.

(* ------------------------------------------------------------------------------------------------ *)
(* 3. frame form: the renamed circuit on EVERY state                                                 *)
(* ------------------------------------------------------------------------------------------------ *)
Section Frame.
  Variable S : KS.
  Add Ring kring2 : (k_ring S).
  Open Scope K_scope.
  Notation state := (state S).

  Variable f : N -> N.
  Variable finv : N -> option N.
  Hypothesis Hinv : forall y q, finv y = Some q <-> f q = y.

  Notation pull := (pull_of finv).
  Notation emb := (emb_of f finv).

  Lemma den_base_frame (b : base S) (phi : state) y :
    den_base S (rename_base S f b) phi y = den_base S b (fun x => phi (emb x y)) (pull y).
  Proof.
    destruct b as [u q|a b|t a b]; simpl.
    - unfold app1. unfold bit at 2. rewrite (pull_of_spec f finv Hinv y q). fold (bit y (f q)).
      rewrite (emb_flip f finv Hinv), (emb_pull f finv Hinv). reflexivity.
    - unfold app_swap. rewrite (emb_swapq f finv Hinv), (emb_pull f finv Hinv). reflexivity.
    - unfold app_xx, flip2. rewrite !(emb_flip f finv Hinv), (emb_pull f finv Hinv). reflexivity.
  Qed.

  Theorem den_gate_frame (g : gate S) (phi : state) y :
    den_gate S (rename_gate S f g) phi y = den_gate S g (fun x => phi (emb x y)) (pull y).
  Proof.
    unfold den_gate, rename_gate; simpl. unfold ctrl.
    rewrite (allset_map f pull y (gctrl g) (pull_of_spec f finv Hinv)).
    destruct (allset (pull y) (gctrl g)).
    - apply den_base_frame.
    - rewrite (emb_pull f finv Hinv). reflexivity.
  Qed.

  Theorem den_frame (c : circuit S) : forall (phi : state) y,
    den S (rename S f c) phi y = den S c (fun x => phi (emb x y)) (pull y).
  Proof.
    induction c as [|g c IH]; intros phi y.
    - simpl. rewrite (emb_pull f finv Hinv). reflexivity.
    - unfold rename in *. simpl map. rewrite !den_cons. rewrite IH. f_equal.
      apply state_ext. intro x. rewrite den_gate_frame, (pull_emb f finv Hinv). f_equal.
      apply state_ext. intro x'. rewrite (emb_emb f finv Hinv). reflexivity.
  Qed.

  (* the pulled-back states are a special case *)
  Corollary den_frame_pullback (c : circuit S) (psi : state) :
    den S (rename S f c) (pullback S pull psi) = pullback S pull (den S c psi).
  Proof.
    apply state_ext. intro y. rewrite den_frame. unfold pullback. f_equal.
    apply state_ext. intro x. rewrite (pull_emb f finv Hinv). reflexivity.
  Qed.
End Frame.

(* ------------------------------------------------------------------------------------------------ *)
(* instantiation with association lists                                                              *)
(* ------------------------------------------------------------------------------------------------ *)
Lemma relabel_pull_spec m : relabel_ok m ->
  forall y q, N.testbit (relabel_pull m y) q = N.testbit y (relabel_f m q).
Proof. intros Hok y q. apply pull_of_spec. apply relabel_inv_spec. exact Hok. Qed.

Lemma relabel_emb_spec m : relabel_ok m ->
  forall x y0 r, N.testbit (relabel_emb m x y0) r
                 = match relabel_inv m r with Some q => N.testbit x q | None => N.testbit y0 r end.
Proof. intros Hok x y0 r. apply emb_of_spec. apply relabel_inv_spec. exact Hok. Qed.

Section RelabelSound.
  Variable S : KS.
  Notation state := (state S).

  (* the renamed circuit, on a state read through the renaming, is the original read through it *)
  Theorem relabel_pullback m (c : circuit S) (psi : state) :
    relabel_ok m ->
    den S (rename S (relabel_f m) c) (pullback S (relabel_pull m) psi)
    = pullback S (relabel_pull m) (den S c psi).
  Proof.
    intro Hok. apply (den_rename S (relabel_f m) (relabel_pull m) (relabel_pull_spec m Hok)).
    apply Forall_forall. intros g _ r q _. apply relabel_f_inj. exact Hok.
  Qed.

  (* on every state: qubit (relabel_f m q) of the result plays the role of qubit q of the original,
     all other bits of the index are untouched *)
  Theorem relabel_frame m (c : circuit S) (phi : state) y :
    relabel_ok m ->
    den S (rename S (relabel_f m) c) phi y
    = den S c (fun x => phi (relabel_emb m x y)) (relabel_pull m y).
  Proof.
    intro Hok. apply (den_frame S (relabel_f m) (relabel_inv m) (relabel_inv_spec m Hok)).
  Qed.
End RelabelSound.

(* ------------------------------------------------------------------------------------------------ *)
(* 4. interleavings                                                                                  *)
(* ------------------------------------------------------------------------------------------------ *)
Lemma interleave_filter {X} (p : X -> bool) (l : list X) :
  interleave l (filter p l) (filter (fun x => negb (p x)) l).
Proof.
  induction l as [|x l IH]; simpl; [constructor|].
  destruct (p x); simpl; constructor; exact IH.
Qed.

Lemma interleave_in {X} (c a b : list X) :
  interleave c a b -> forall x, In x c <-> In x a \/ In x b.
Proof.
  induction 1 as [|x0 c c1 c2 H IH|x0 c c1 c2 H IH]; intro x; simpl.
  - tauto.
  - rewrite IH. tauto.
  - rewrite IH. tauto.
Qed.

Lemma interleave_nil_l {X} (c : list X) : interleave c [] c.
Proof. induction c; constructor; assumption. Qed.

Lemma interleave_nil_r {X} (c : list X) : interleave c c [].
Proof. induction c; constructor; assumption. Qed.

Lemma interleave_app {X} (a b : list X) : interleave (a ++ b) a b.
Proof. induction a as [|x a IH]; simpl; [apply interleave_nil_l | constructor; exact IH]. Qed.

Lemma kinterleave_in {X} (c : list X) parts :
  kinterleave c parts -> forall x, In x c <-> In x (concat parts).
Proof.
  induction 1 as [|c c1 rest parts Hi Hk IH]; intro x; simpl; [tauto|].
  rewrite (interleave_in c c1 rest Hi), in_app_iff, IH. tauto.
Qed.

Lemma kinterleave_concat {X} (parts : list (list X)) : kinterleave (concat parts) parts.
Proof.
  induction parts as [|p r IH]; simpl; [constructor|].
  apply (kil_cons _ p (concat r) r); [apply interleave_app | exact IH].
Qed.

Section Interleave.
  Variable S : KS.
  Notation state := (state S).

  Lemma cross_cons_l g (c1 c2 : circuit S) : cross S (g :: c1) c2 -> cross S c1 c2.
  Proof. intros H a b Ha Hb. apply H; [right; exact Ha | exact Hb]. Qed.

  Lemma cross_cons_r g (c1 c2 : circuit S) : cross S c1 (g :: c2) -> cross S c1 c2.
  Proof. intros H a b Ha Hb. apply H; [exact Ha | right; exact Hb]. Qed.

  (* two parts: every interleaving denotes the composition  c1 then c2 *)
  Theorem interleave_den (c c1 c2 : circuit S) :
    interleave c c1 c2 -> cross S c1 c2 -> forall psi : state, den S c psi = den S (c1 ++ c2) psi.
  Proof.
    induction 1 as [|x c c1 c2 H IH|x c c1 c2 H IH]; intros Hc psi.
    - reflexivity.
    - simpl app. rewrite !den_cons. apply IH. eapply cross_cons_l. exact Hc.
    - rewrite den_cons, IH by (eapply cross_cons_r; exact Hc).
      rewrite !den_app, den_cons. f_equal.
      apply (den_gate_comm_circuit S x c1 psi).
      apply Forall_forall. intros h Hh q Hq1 Hq2.
      exact (Hc h x Hh (or_introl eq_refl) q Hq2 Hq1).
  Qed.

  (* ... and, the relation being symmetric in the parts, also  c2 then c1 *)
  Corollary interleave_den_sym (c c1 c2 : circuit S) :
    interleave c c1 c2 -> cross S c1 c2 -> forall psi : state, den S (c1 ++ c2) psi = den S (c2 ++ c1) psi.
  Proof.
    intros _ Hc psi. rewrite <- (interleave_den (c2 ++ c1) c1 c2); [reflexivity| |exact Hc].
    clear. induction c2 as [|x c2 IH]; simpl; [apply interleave_nil_r | constructor; exact IH].
  Qed.

  (* k parts *)
  Theorem kinterleave_den (c : circuit S) (parts : list (circuit S)) :
    kinterleave c parts -> pdisj S parts -> forall psi : state, den S c psi = den S (concat parts) psi.
  Proof.
    induction 1 as [|c c1 rest parts Hi Hk IH]; intros Hd psi; [reflexivity|].
    simpl in Hd. destruct Hd as [Hc Hd]. simpl concat.
    rewrite (interleave_den c c1 rest Hi).
    - rewrite !den_app. apply IH. exact Hd.
    - intros g h Hg Hh. apply (kinterleave_in rest parts Hk) in Hh.
      apply in_concat in Hh. destruct Hh as (p & Hp & Hhp).
      rewrite Forall_forall in Hc. exact (Hc p Hp g h Hg Hhp).
  Qed.
End Interleave.

(* ------------------------------------------------------------------------------------------------ *)
(* a concrete instance, exact arithmetic (Q(zeta_32)): qubits 1, 4, 9 relabelled to 0, 1, 2          *)
(* ------------------------------------------------------------------------------------------------ *)
Definition ex_relabel_m : list (N * N) := [(1, 0); (4, 1); (9, 2)].
Definition ex_relabel_c : circuit CycS :=
  [Gate (B1 GH 1) []; Gate (B1 GX 4) [1]; Gate (B1 (@GRY CycS 3%Z) 9) []; Gate (B1 (@GRZ CycS 5%Z) 9) [4; 1];
   Gate (@BXX CycS 7%Z 4 9) []; Gate (BSWAP 1 9) [4]; Gate (B1 GT 4) []].

Definition cyc_list_eqb (u v : list (K CycS)) : bool :=
  Nat.eqb (length u) (length v) && forallb (fun p => ceqb L4 (fst p) (snd p)) (combine u v).

Example relabel_example :
  relabel_okb ex_relabel_m = true
  /\ map (relabel_f ex_relabel_m) [1; 4; 9; 0; 2] = [0; 1; 2; 3; 5]
  /\ map (relabel_pull ex_relabel_m) [0; 1; 2; 4; 7; 8; 13; 21] = [0; 2; 16; 512; 530; 1; 515; 514]
  (* the renamed circuit on the 3-qubit register, started in |000>, has at index y the amplitude
     the original has at the index with bits 1, 4, 9 set as bits 0, 1, 2 of y *)
  /\ cyc_list_eqb (tab CycS 3 (den CycS (rename CycS (relabel_f ex_relabel_m) ex_relabel_c)
                                   (pullback CycS (relabel_pull ex_relabel_m) (ket CycS 0))))
                  (map (fun y => den CycS ex_relabel_c (ket CycS 0) (relabel_pull ex_relabel_m (N.of_nat y)))
                       (seq 0 8)) = true
  (* the same through the tabulated executor *)
  /\ cyc_list_eqb (run0 CycS 3 (rename CycS (relabel_f ex_relabel_m) ex_relabel_c))
                  (map (fun y => den CycS ex_relabel_c (ket CycS 0) (relabel_pull ex_relabel_m (N.of_nat y)))
                       (seq 0 8)) = true
  (* and it is not trivial: the result is not the start state *)
  /\ cyc_list_eqb (run0 CycS 3 (rename CycS (relabel_f ex_relabel_m) ex_relabel_c)) (tab CycS 3 (ket CycS 0)) = false.
Proof. vm_compute. repeat split. Qed.
