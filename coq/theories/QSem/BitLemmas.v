(* BitLemmas.v — facts about the basis-index operations of QSem/State.v:
   bit x q = N.testbit x q,  flip x q = N.lxor x (N.shiftl 1 q).   No number structure is involved
   (bit and flip do not depend on the KS), so these lemmas are usable from every area. *)
From Coq Require Import NArith List Bool Lia.
From Tangelo Require Import Num.KStruct QSem.State.

Lemma testbit_pow2 (q r : N) : N.testbit (N.shiftl 1 q) r = N.eqb q r.
Proof.
  destruct (N.eqb_spec q r) as [->|Hne].
  - rewrite N.shiftl_spec_high' by lia. rewrite N.sub_diag. reflexivity.
  - destruct (N.lt_ge_cases r q) as [Hlt|Hge].
    + apply N.shiftl_spec_low. exact Hlt.
    + rewrite N.shiftl_spec_high' by exact Hge.
      assert (Hpos : (r - q <> 0)%N) by lia.
      destruct (r - q)%N as [|p] eqn:E; [contradiction|].
      destruct p; reflexivity.
Qed.

Lemma bit_flip (x q r : N) : bit (flip x q) r = xorb (bit x r) (N.eqb q r).
Proof. unfold bit, flip. rewrite N.lxor_spec, testbit_pow2. reflexivity. Qed.

Lemma bit_flip_same (x q : N) : bit (flip x q) q = negb (bit x q).
Proof. rewrite bit_flip, N.eqb_refl. destruct (bit x q); reflexivity. Qed.

Lemma bit_flip_diff (x q r : N) : q <> r -> bit (flip x q) r = bit x r.
Proof.
  intro Hne. rewrite bit_flip. apply N.eqb_neq in Hne. rewrite Hne. apply xorb_false_r.
Qed.

Lemma flip_flip (x q : N) : flip (flip x q) q = x.
Proof. unfold flip. rewrite N.lxor_assoc, N.lxor_nilpotent. apply N.lxor_0_r. Qed.

Lemma flip_comm (x p q : N) : flip (flip x p) q = flip (flip x q) p.
Proof.
  unfold flip. rewrite !N.lxor_assoc. f_equal. apply N.lxor_comm.
Qed.

Lemma flip_neq (x q : N) : flip x q <> x.
Proof.
  intro H. pose proof (bit_flip_same x q) as Hb. rewrite H in Hb.
  destruct (bit x q); discriminate.
Qed.

Lemma flip_inj (x y q : N) : flip x q = flip y q -> x = y.
Proof. intro H. rewrite <- (flip_flip x q), H. apply flip_flip. Qed.

Lemma flip2_comm (x p q : N) : flip2 x p q = flip2 x q p.
Proof. apply flip_comm. Qed.

(* two indices are equal iff all their bits agree *)
Lemma bit_ext (x y : N) : (forall q, bit x q = bit y q) -> x = y.
Proof. intro H. apply N.bits_inj. exact H. Qed.

(* flipping a list of qubits *)
Definition flips (x : N) (qs : list N) : N := fold_left flip qs x.

Lemma flips_flip_comm (qs : list N) (x q : N) : flips (flip x q) qs = flip (flips x qs) q.
Proof.
  revert x. induction qs as [|r qs IH]; intro x; simpl; [reflexivity|].
  rewrite (flip_comm x q r). apply IH.
Qed.

Lemma bit_flips_notin (qs : list N) (x q : N) : ~ In q qs -> bit (flips x qs) q = bit x q.
Proof.
  revert x. induction qs as [|r qs IH]; intros x Hn; simpl; [reflexivity|].
  rewrite IH by (intro Hc; apply Hn; right; exact Hc).
  apply bit_flip_diff. intro Hc. apply Hn. left. exact Hc.
Qed.
