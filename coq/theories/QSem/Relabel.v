(* Relabel.v — renaming of qubit indices and separation of a circuit into parts acting on disjoint
   qubits, in the reference semantics (definitions only; proofs are in QSem/RelabelProofs.v).

   rename_gate f g        every qubit index of g (targets and controls) mapped through f
   pullback pull psi      the state y |-> psi (pull y); with  bit (pull y) q = bit y (f q)  this is psi
                          "read on the renamed qubits"
   relabel_f m            the total injective map N -> N defined by a finite association list m
                          (q |-> value of q in m; every other q is moved above all values: bound + q)
   relabel_inv m          its partial inverse (None outside the image)
   mapbits h y            the index whose set bits are { q | h r = Some q, bit r of y set }:
                          pull = mapbits of the inverse, push = mapbits of f, mask = bits outside the image
   relabel_pull m y       x with  bit x q = bit y (relabel_f m q)
   relabel_emb m x y0     y with  bit y (relabel_f m q) = bit x q  and the bits of y0 outside the image
   interleave c c1 c2     c is an interleaving of c1 and c2 (relative orders kept)
   kinterleave c parts    c is an interleaving of the k lists in parts
   cross / pdisj          gates of different parts act on disjoint qubits *)
From Coq Require Import NArith List Bool.
From Tangelo Require Import Num.KStruct QSem.State QSem.Commute.
Import ListNotations.
Local Open Scope N_scope.

Section Rename.
  Variable S : KS.

  Definition rename_base (f : N -> N) (b : base S) : base S :=
    match b with
    | B1 g q => B1 g (f q)
    | BSWAP q1 q2 => BSWAP (f q1) (f q2)
    | BXX a q1 q2 => BXX a (f q1) (f q2)
    end.
  Definition rename_gate (f : N -> N) (g : gate S) : gate S :=
    Gate (rename_base f (gbase g)) (map f (gctrl g)).
  Definition rename (f : N -> N) (c : circuit S) : circuit S := map (rename_gate f) c.

  Definition pullback (pull : N -> N) (psi : state S) : state S := fun y => psi (pull y).

  (* gates of two lists act on disjoint qubits (disjoint: QSem/Commute.v) *)
  Definition cross (c1 c2 : circuit S) : Prop :=
    forall g h, In g c1 -> In h c2 -> disjoint (gate_qubits S g) (gate_qubits S h).
  Fixpoint pdisj (parts : list (circuit S)) : Prop :=
    match parts with
    | [] => True
    | p :: r => Forall (cross p) r /\ pdisj r
    end.
End Rename.

(* ---- interleavings (any element type) ---- *)
Inductive interleave {X : Type} : list X -> list X -> list X -> Prop :=
| il_nil : interleave [] [] []
| il_l x c c1 c2 : interleave c c1 c2 -> interleave (x :: c) (x :: c1) c2
| il_r x c c1 c2 : interleave c c1 c2 -> interleave (x :: c) c1 (x :: c2).

Inductive kinterleave {X : Type} : list X -> list (list X) -> Prop :=
| kil_nil : kinterleave [] []
| kil_cons c c1 rest parts : interleave c c1 rest -> kinterleave rest parts -> kinterleave c (c1 :: parts).

(* ---- finite relabelling maps ---- *)
Fixpoint nlookup (q : N) (m : list (N * N)) : option N :=
  match m with [] => None | (k, v) :: r => if N.eqb q k then Some v else nlookup q r end.
Fixpoint nrlookup (y : N) (m : list (N * N)) : option N :=
  match m with [] => None | (k, v) :: r => if N.eqb y v then Some k else nrlookup y r end.
Fixpoint nbound (m : list (N * N)) : N :=
  match m with [] => 0 | (_, v) :: r => N.max (N.succ v) (nbound r) end.

Definition relabel_f (m : list (N * N)) (q : N) : N :=
  match nlookup q m with Some v => v | None => nbound m + q end.
Definition relabel_inv (m : list (N * N)) (y : N) : option N :=
  if N.ltb y (nbound m) then nrlookup y m
  else match nlookup (y - nbound m) m with Some _ => None | None => Some (y - nbound m) end.

Definition relabel_ok (m : list (N * N)) : Prop := NoDup (map fst m) /\ NoDup (map snd m).

Fixpoint nmem (x : N) (l : list N) : bool := match l with [] => false | y :: r => N.eqb x y || nmem x r end.
Fixpoint nnodup (l : list N) : bool := match l with [] => true | y :: r => negb (nmem y r) && nnodup r end.
Definition relabel_okb (m : list (N * N)) : bool := nnodup (map fst m) && nnodup (map snd m).

(* ---- moving the bits of an index ---- *)
Definition bit_at (o : option N) : N := match o with Some q => N.shiftl 1 q | None => 0 end.
Fixpoint mapbits_pos (h : N -> option N) (p : positive) (i : N) : N :=
  match p with
  | xH => bit_at (h i)
  | xO p' => mapbits_pos h p' (N.succ i)
  | xI p' => N.lor (bit_at (h i)) (mapbits_pos h p' (N.succ i))
  end.
Definition mapbits (h : N -> option N) (y : N) : N :=
  match y with N0 => 0 | Npos p => mapbits_pos h p 0 end.

Definition outside (finv : N -> option N) (y : N) : option N :=
  match finv y with None => Some y | Some _ => None end.

Definition pull_of (finv : N -> option N) (y : N) : N := mapbits finv y.
Definition emb_of (f : N -> N) (finv : N -> option N) (x y0 : N) : N :=
  N.lor (mapbits (fun q => Some (f q)) x) (mapbits (outside finv) y0).

Definition relabel_pull (m : list (N * N)) : N -> N := pull_of (relabel_inv m).
Definition relabel_emb (m : list (N * N)) : N -> N -> N := emb_of (relabel_f m) (relabel_inv m).
