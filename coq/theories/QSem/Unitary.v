(* Unitary.v — every gate denotation of the reference semantics preserves the squared norm over an
   n-qubit register that contains the qubits it acts on (for all angles, any controls):
       norm2 n (den_gate g psi) = norm2 n psi          (gate_wf g, base qubits < n)
   hence so does every circuit.  This discharges, for concrete Tangelo gates, the unitarity hypothesis
   of the sum rules of MeasureProofs.v.
   Method: a register sum is invariant under an involution of the index range (Permutation of the index
   list); one-qubit gates and XX pair the indices x and flip x, SWAP permutes them. *)
From Coq Require Import NArith List Bool Lia Permutation FunctionalExtensionality.
From Tangelo Require Import Num.KStruct QSem.State QSem.StateLemmas QSem.GateLemmas QSem.CircuitLemmas
     QSem.Measure QSem.MeasureProofs.
Import ListNotations.

(* ---------------- index range ---------------- *)
Lemma lt_pow2_bits (x : N) (n : N) : (x < 2 ^ n)%N <-> (forall k, (n <= k)%N -> N.testbit x k = false).
Proof.
  split.
  - intros H k Hk. destruct (N.eq_dec x 0) as [->|Hx]; [apply N.bits_0|].
    apply N.bits_above_log2. apply N.log2_lt_pow2 in H; lia.
  - intro H. destruct (N.eq_dec x 0) as [->|Hx]; [apply N.neq_0_lt_0, N.pow_nonzero; lia|].
    apply N.log2_lt_pow2; [lia|].
    destruct (N.lt_ge_cases (N.log2 x) n) as [Hl|Hl]; [exact Hl|].
    specialize (H (N.log2 x) Hl). rewrite N.bit_log2 in H by exact Hx. discriminate.
Qed.

Lemma flip_lt (x q n : N) : (q < n)%N -> (x < 2 ^ n)%N -> (flip x q < 2 ^ n)%N.
Proof.
  intros Hq Hx. apply lt_pow2_bits. intros k Hk.
  change (bit (flip x q) k = false). rewrite bit_flip_other by lia.
  apply (proj1 (lt_pow2_bits x n) Hx k Hk).
Qed.

Lemma pow2_nat (n : nat) : N.of_nat (Nat.pow 2 n) = (2 ^ N.of_nat n)%N.
Proof.
  induction n as [|k IH]; [reflexivity|].
  change (Nat.pow 2 (Datatypes.S k)) with (2 * Nat.pow 2 k)%nat.
  rewrite Nat2N.inj_mul, IH, (Nat2N.inj_succ k), N.pow_succ_r'. reflexivity.
Qed.

Section Unitary.
  Variable S : KS.
  Add Ring kringu : (k_ring S).
  Open Scope K_scope.
  Notation K := (K S).
  Notation state := (state S).
  Notation ksum := (ksum S).
  Notation norm2 := (norm2 S).

  (* ---------------- sums over lists, invariance under permutation ---------------- *)
  Lemma lsum_perm {X} (f : X -> K) (l l' : list X) : Permutation l l' -> lsum S f l = lsum S f l'.
  Proof. induction 1; simpl; try ring; [rewrite IHPermutation; reflexivity|congruence]. Qed.

  Definition idx (m : nat) : list N := map N.of_nat (seq 0 m).

  Lemma ksum_lsum_idx (f : N -> K) m : ksum (fun i => f (N.of_nat i)) m = lsum S f (idx m).
  Proof.
    unfold idx. induction m as [|k IH]; [reflexivity|].
    simpl ksum. rewrite IH, seq_S, map_app, lsum_app. simpl. ring.
  Qed.

  Lemma in_idx x m : In x (idx m) <-> (x < N.of_nat m)%N.
  Proof.
    unfold idx. rewrite in_map_iff. split.
    - intros [i [<- Hi]]. apply in_seq in Hi. lia.
    - intro H. exists (N.to_nat x). split; [apply N2Nat.id|]. apply in_seq. lia.
  Qed.

  Lemma idx_nodup m : NoDup (idx m).
  Proof.
    unfold idx. apply FinFun.Injective_map_NoDup; [intros a b; apply Nat2N.inj|apply seq_NoDup].
  Qed.

  (* a register sum is invariant under an involution of the index range *)
  Lemma ksum_reindex (sigma : N -> N) (f : N -> K) (n : nat) :
    (forall x, sigma (sigma x) = x) ->
    (forall x, (x < 2 ^ N.of_nat n)%N -> (sigma x < 2 ^ N.of_nat n)%N) ->
    ksum (fun i => f (sigma (N.of_nat i))) (Nat.pow 2 n) = ksum (fun i => f (N.of_nat i)) (Nat.pow 2 n).
  Proof.
    intros Hinv Hb.
    rewrite (ksum_lsum_idx (fun x => f (sigma x))), (ksum_lsum_idx f).
    rewrite <- (lsum_map S f sigma).
    apply lsum_perm. symmetry. apply NoDup_Permutation_bis.
    - apply idx_nodup.
    - rewrite map_length. lia.
    - intros x Hx. apply in_idx in Hx. rewrite pow2_nat in Hx.
      apply in_map_iff. exists (sigma x). split; [apply Hinv|].
      apply in_idx. rewrite pow2_nat. apply Hb. exact Hx.
  Qed.

  Lemma half_double (x : K) : khalf * (x + x) = x.
  Proof. transitivity ((khalf + khalf) * x); [ring|]. rewrite k_half. ring. Qed.

  (* pairing principle: if T x + T (sigma x) = N x + N (sigma x) pointwise then the sums agree *)
  Lemma ksum_pairing (sigma : N -> N) (T M : N -> K) (n : nat) :
    (forall x, sigma (sigma x) = x) ->
    (forall x, (x < 2 ^ N.of_nat n)%N -> (sigma x < 2 ^ N.of_nat n)%N) ->
    (forall x, T x + T (sigma x) = M x + M (sigma x)) ->
    ksum (fun i => T (N.of_nat i)) (Nat.pow 2 n) = ksum (fun i => M (N.of_nat i)) (Nat.pow 2 n).
  Proof.
    intros Hinv Hb Hp.
    rewrite <- (half_double (ksum (fun i => T (N.of_nat i)) (Nat.pow 2 n))).
    rewrite <- (half_double (ksum (fun i => M (N.of_nat i)) (Nat.pow 2 n))).
    f_equal.
    rewrite <- (ksum_reindex sigma T n Hinv Hb) at 2.
    rewrite <- (ksum_reindex sigma M n Hinv Hb) at 2.
    rewrite <- !ksum_add. apply ksum_ext. intros i _. apply Hp.
  Qed.

  (* ---------------- one-qubit gates ---------------- *)
  Definition unitary2 (u : mat2 S) : Prop := mmul S (madj S u) u = mid S.

  Lemma unitary2_eqs u : unitary2 u ->
    kconj (m00 u) * m00 u + kconj (m10 u) * m10 u = 1
    /\ kconj (m00 u) * m01 u + kconj (m10 u) * m11 u = 0
    /\ kconj (m01 u) * m00 u + kconj (m11 u) * m10 u = 0
    /\ kconj (m01 u) * m01 u + kconj (m11 u) * m11 u = 1.
  Proof.
    unfold unitary2, mmul, madj, mid. destruct u as [a b c d]; simpl. intro H.
    injection H as H1 H2 H3 H4. repeat split; assumption.
  Qed.

  Lemma app1_ctrl_unit (u : mat2 S) q cs n psi :
    unitary2 u -> ~ In q cs -> (q < N.of_nat n)%N ->
    norm2 n (ctrl S cs (app1 S u q) psi) = norm2 n psi.
  Proof.
    intros Hu Hq Hn. destruct (unitary2_eqs u Hu) as [E1 [E2 [E3 E4]]].
    unfold Measure.norm2, inner.
    apply (ksum_pairing (fun x => flip x q)
                        (fun x => kconj (ctrl S cs (app1 S u q) psi x) * ctrl S cs (app1 S u q) psi x)
                        (fun x => kconj (psi x) * psi x) n).
    - intro x. apply flip_flip.
    - intros x Hx. apply flip_lt; assumption.
    - intro x. unfold ctrl, app1. rewrite (allset_flip x q cs Hq).
      destruct (allset x cs); [|reflexivity].
      rewrite bit_flip_same, flip_flip.
      set (a := psi x). set (b := psi (flip x q)).
      destruct (bit x q); simpl negb; cbv iota; rewrite !kconj_add, !kconj_mul.
      + transitivity ((kconj (m00 u) * m00 u + kconj (m10 u) * m10 u) * (kconj b * b)
                      + (kconj (m00 u) * m01 u + kconj (m10 u) * m11 u) * (kconj b * a)
                      + (kconj (m01 u) * m00 u + kconj (m11 u) * m10 u) * (kconj a * b)
                      + (kconj (m01 u) * m01 u + kconj (m11 u) * m11 u) * (kconj a * a)); [ring|].
        rewrite E1, E2, E3, E4. ring.
      + transitivity ((kconj (m00 u) * m00 u + kconj (m10 u) * m10 u) * (kconj a * a)
                      + (kconj (m00 u) * m01 u + kconj (m10 u) * m11 u) * (kconj a * b)
                      + (kconj (m01 u) * m00 u + kconj (m11 u) * m10 u) * (kconj b * a)
                      + (kconj (m01 u) * m01 u + kconj (m11 u) * m11 u) * (kconj b * b)); [ring|].
        rewrite E1, E2, E3, E4. ring.
  Qed.

  (* the adjoint of every gate matrix is the matrix of the inverse gate, hence all are unitary *)
  Lemma conj_cosh a : kconj (cosh_ S a) = cosh_ S a.
  Proof. unfold cosh_. rewrite kconj_mul, kconj_half, kconj_add, !cis_conj, aopp_inv. ring. Qed.
  Lemma conj_misinh a : kconj (misinh S a) = - misinh S a.
  Proof.
    unfold misinh. rewrite kconj_mul, kconj_half.
    replace (cis (aopp a) - cis a) with (cis (aopp a) + - cis a) by ring.
    rewrite kconj_add, kconj_opp, !cis_conj, aopp_inv. ring.
  Qed.
  Lemma conj_sinh a : kconj (sinh_ S a) = sinh_ S a.
  Proof. unfold sinh_. rewrite kconj_mul, kconj_i, conj_misinh. ring. Qed.

  Lemma mat_inv_is_adj (g : g1 S) : mat_of S (g1_inv S g) = madj S (mat_of S g).
  Proof.
    destruct g; simpl; unfold madj, mH, mX, mY, mZ, mS, mT, mRX, mRY, mRZ, mPHASE; simpl;
      apply mat2_eq; simpl;
      rewrite ?kconj_opp, ?kconj_mul, ?kconj_add, ?kconj_rs2, ?kconj_0, ?kconj_1, ?kconj_i,
              ?conj_cosh, ?conj_misinh, ?conj_sinh, ?cosh_opp, ?misinh_opp, ?sinh_opp, ?cis_conj, ?aopp_inv;
      try reflexivity; try ring.
    - apply cis_m_pi2_sq.
    - rewrite cis_m_pi4_sq. ring.
  Qed.

  Lemma mat_of_unitary (g : g1 S) : unitary2 (mat_of S g).
  Proof. unfold unitary2. rewrite <- mat_inv_is_adj. apply g1_inv_l. Qed.

  (* ---------------- SWAP (a permutation of the indices) ---------------- *)
  Lemma flip2_lt x q1 q2 n : (q1 < n)%N -> (q2 < n)%N -> (x < 2 ^ n)%N -> (flip2 x q1 q2 < 2 ^ n)%N.
  Proof. intros H1 H2 Hx. unfold flip2. apply flip_lt; [exact H2|]. apply flip_lt; assumption. Qed.

  Lemma swapq_lt q1 q2 x n : (q1 < n)%N -> (q2 < n)%N -> (x < 2 ^ n)%N -> (swapq q1 q2 x < 2 ^ n)%N.
  Proof.
    intros H1 H2 Hx. unfold swapq. destruct (Bool.eqb (bit x q1) (bit x q2)); [exact Hx|].
    apply flip2_lt; assumption.
  Qed.

  Lemma allset_swapq q1 q2 cs x : ~ In q1 cs -> ~ In q2 cs -> allset (swapq q1 q2 x) cs = allset x cs.
  Proof.
    intros H1 H2. apply allset_agree. intros c Hc.
    apply swapq_other; intro E; subst; contradiction.
  Qed.

  Lemma swap_ctrl_unit q1 q2 cs n psi :
    ~ In q1 cs -> ~ In q2 cs -> (q1 < N.of_nat n)%N -> (q2 < N.of_nat n)%N ->
    norm2 n (ctrl S cs (app_swap S q1 q2) psi) = norm2 n psi.
  Proof.
    intros H1 H2 Hn1 Hn2. unfold Measure.norm2, inner.
    set (sg := fun x => if allset x cs then swapq q1 q2 x else x).
    rewrite <- (ksum_reindex sg (fun x => kconj (psi x) * psi x) n).
    - apply ksum_ext. intros i _. unfold ctrl, app_swap, sg. destruct (allset (N.of_nat i) cs); reflexivity.
    - intro x. unfold sg. destruct (allset x cs) eqn:E.
      + rewrite allset_swapq, E by assumption. apply swapq_invol.
      + rewrite E. reflexivity.
    - intros x Hx. unfold sg. destruct (allset x cs); [apply swapq_lt; assumption|exact Hx].
  Qed.

  (* ---------------- XX ---------------- *)
  Lemma allset_flip2 x q1 q2 cs : ~ In q1 cs -> ~ In q2 cs -> allset (flip2 x q1 q2) cs = allset x cs.
  Proof. intros H1 H2. unfold flip2. rewrite allset_flip by exact H2. apply allset_flip. exact H1. Qed.

  Lemma xx_ctrl_unit a q1 q2 cs n psi :
    ~ In q1 cs -> ~ In q2 cs -> (q1 < N.of_nat n)%N -> (q2 < N.of_nat n)%N ->
    norm2 n (ctrl S cs (app_xx S a q1 q2) psi) = norm2 n psi.
  Proof.
    intros H1 H2 Hn1 Hn2. unfold Measure.norm2, inner.
    apply (ksum_pairing (fun x => flip2 x q1 q2)
                        (fun x => kconj (ctrl S cs (app_xx S a q1 q2) psi x) * ctrl S cs (app_xx S a q1 q2) psi x)
                        (fun x => kconj (psi x) * psi x) n).
    - intro x. apply flip2_invol.
    - intros x Hx. apply flip2_lt; assumption.
    - intro x. unfold ctrl, app_xx. rewrite allset_flip2 by assumption.
      destruct (allset x cs); [|reflexivity].
      rewrite flip2_invol.
      set (u := psi x). set (v := psi (flip2 x q1 q2)).
      rewrite !kconj_add, !kconj_mul, conj_cosh, conj_misinh.
      transitivity ((cosh_ S a * cosh_ S a - misinh S a * misinh S a) * (kconj u * u + kconj v * v)); [ring|].
      rewrite pythagoras. ring.
  Qed.

  (* ---------------- gates and circuits ---------------- *)
  Definition gate_in (n : nat) (g : gate S) : Prop :=
    gate_wf S g /\ forall q, In q (base_qubits S (gbase g)) -> (q < N.of_nat n)%N.

  Theorem den_gate_unit n g psi : gate_in n g -> norm2 n (den_gate S g psi) = norm2 n psi.
  Proof.
    intros [Hwf Hin]. unfold den_gate. destruct g as [b cs]. simpl in *. unfold gate_wf in Hwf; simpl in Hwf.
    destruct b as [g q|q1 q2|a q1 q2]; simpl in *.
    - apply app1_ctrl_unit; [apply mat_of_unitary|apply Hwf; left; reflexivity|apply Hin; left; reflexivity].
    - apply swap_ctrl_unit; [apply Hwf|apply Hwf|apply Hin|apply Hin]; simpl; auto.
    - apply xx_ctrl_unit; [apply Hwf|apply Hwf|apply Hin|apply Hin]; simpl; auto.
  Qed.

  Theorem den_unit n (c : circuit S) psi : Forall (gate_in n) c -> norm2 n (den S c psi) = norm2 n psi.
  Proof.
    revert psi. induction c as [|g r IH]; intros psi H; [reflexivity|].
    inversion H; subst. rewrite den_cons, IH by assumption. apply den_gate_unit. assumption.
  Qed.

  Corollary den_preserves_norm n (c : circuit S) : Forall (gate_in n) c -> preserves_norm S n (den S c).
  Proof. intros H phi. apply den_unit. exact H. Qed.
End Unitary.
