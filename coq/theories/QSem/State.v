(* State.v — reference quantum semantics (definitions only; proofs are in StateLemmas.v).
   A basis state is an N whose bit q is the value of qubit q; a state is a function N -> K.
   Register widths never appear in the semantics.  For execution a state on n qubits is tabulated
   as a list of 2^n amplitudes (tab, untab, run), see refinement lemmas in StateLemmas.v. *)
From Coq Require Import NArith List Bool.
From Tangelo Require Import Num.KStruct.
Import ListNotations.

Section QSem.
  Variable S : KS.
  Open Scope K_scope.
  Notation K := (K S).
  Notation A := (A S).

  Definition state : Type := N -> K.

  Definition bit (x q : N) : bool := N.testbit x q.
  Definition flip (x q : N) : N := N.lxor x (N.shiftl 1 q).
  Definition flip2 (x q1 q2 : N) : N := flip (flip x q1) q2.
  Definition ket (b : N) : state := fun x => if N.eqb x b then 1 else 0.

  (* ---- one-qubit matrices ---- *)
  Record mat2 : Type := Mat2 { m00 : K; m01 : K; m10 : K; m11 : K }.

  Definition mmul (u v : mat2) : mat2 :=
    Mat2 (m00 u * m00 v + m01 u * m10 v) (m00 u * m01 v + m01 u * m11 v)
         (m10 u * m00 v + m11 u * m10 v) (m10 u * m01 v + m11 u * m11 v).
  Definition madj (u : mat2) : mat2 :=
    Mat2 (kconj (m00 u)) (kconj (m10 u)) (kconj (m01 u)) (kconj (m11 u)).
  Definition mscale (c : K) (u : mat2) : mat2 := Mat2 (c * m00 u) (c * m01 u) (c * m10 u) (c * m11 u).
  Definition mid : mat2 := Mat2 1 0 0 1.

  Definition mH : mat2 := Mat2 krs2 krs2 krs2 (- krs2).
  Definition mX : mat2 := Mat2 0 1 1 0.
  Definition mY : mat2 := Mat2 0 (- ki) ki 0.
  Definition mZ : mat2 := Mat2 1 0 0 (- (1)).
  Definition mS : mat2 := Mat2 1 0 0 ki.
  Definition mT : mat2 := Mat2 1 0 0 (krs2 * (1 + ki)).                 (* e^{i pi/4} *)
  Definition mRX (a : A) : mat2 := Mat2 (cosh_ S a) (misinh S a) (misinh S a) (cosh_ S a).
  Definition mRY (a : A) : mat2 := Mat2 (cosh_ S a) (- sinh_ S a) (sinh_ S a) (cosh_ S a).
  Definition mRZ (a : A) : mat2 := Mat2 (cis (aopp a)) 0 0 (cis a).
  Definition mPHASE (a : A) : mat2 := Mat2 1 0 0 (cis a * cis a).

  (* ---- action on states ---- *)
  Definition app1 (u : mat2) (q : N) (psi : state) : state := fun x =>
    if bit x q then m10 u * psi (flip x q) + m11 u * psi x
    else m00 u * psi x + m01 u * psi (flip x q).

  Definition allset (x : N) (cs : list N) : bool := forallb (bit x) cs.

  Definition ctrl (cs : list N) (f : state -> state) (psi : state) : state := fun x =>
    if allset x cs then f psi x else psi x.

  Definition swapq (q1 q2 x : N) : N :=
    if Bool.eqb (bit x q1) (bit x q2) then x else flip2 x q1 q2.
  Definition app_swap (q1 q2 : N) (psi : state) : state := fun x => psi (swapq q1 q2 x).

  (* XX(a) = cos(a/2) I - i sin(a/2) X(x)X *)
  Definition app_xx (a : A) (q1 q2 : N) (psi : state) : state := fun x =>
    cosh_ S a * psi x + misinh S a * psi (flip2 x q1 q2).

  (* pointwise operations *)
  Definition sscale (c : K) (psi : state) : state := fun x => c * psi x.
  Definition sadd (psi phi : state) : state := fun x => psi x + phi x.

  (* ---- gates ---- *)
  Inductive g1 : Type :=
  | GH | GX | GY | GZ | GS | GT | GRX (a : A) | GRY (a : A) | GRZ (a : A) | GPHASE (a : A).

  Definition mat_of (g : g1) : mat2 :=
    match g with
    | GH => mH | GX => mX | GY => mY | GZ => mZ | GS => mS | GT => mT
    | GRX a => mRX a | GRY a => mRY a | GRZ a => mRZ a | GPHASE a => mPHASE a
    end.

  Inductive base : Type :=
  | B1 (g : g1) (q : N)
  | BSWAP (q1 q2 : N)
  | BXX (a : A) (q1 q2 : N).

  Record gate : Type := Gate { gbase : base; gctrl : list N }.

  Definition den_base (b : base) : state -> state :=
    match b with
    | B1 g q => app1 (mat_of g) q
    | BSWAP q1 q2 => app_swap q1 q2
    | BXX a q1 q2 => app_xx a q1 q2
    end.

  Definition den_gate (g : gate) : state -> state := ctrl (gctrl g) (den_base (gbase g)).

  Definition circuit : Type := list gate.
  Definition den (c : circuit) (psi : state) : state := fold_left (fun s g => den_gate g s) c psi.

  (* qubits a gate touches *)
  Definition base_qubits (b : base) : list N :=
    match b with B1 _ q => [q] | BSWAP q1 q2 => [q1; q2] | BXX _ q1 q2 => [q1; q2] end.
  Definition gate_qubits (g : gate) : list N := base_qubits (gbase g) ++ gctrl g.

  (* adjoint gate *)
  Definition g1_inv (g : g1) : g1 :=
    match g with
    | GH => GH | GX => GX | GY => GY | GZ => GZ
    | GS => GPHASE (aopp api2) | GT => GPHASE (aopp api4)
    | GRX a => GRX (aopp a) | GRY a => GRY (aopp a) | GRZ a => GRZ (aopp a) | GPHASE a => GPHASE (aopp a)
    end.

  (* ---- inner products over an n-qubit register ---- *)
  Fixpoint ksum (f : nat -> K) (n : nat) : K :=
    match n with O => 0 | Datatypes.S k => ksum f k + f k end.
  Definition inner (n : nat) (psi phi : state) : K :=
    ksum (fun i => kconj (psi (N.of_nat i)) * phi (N.of_nat i)) (Nat.pow 2 n).

  (* ---- tabulated execution ---- *)
  Definition tab (n : nat) (f : state) : list K := map (fun i => f (N.of_nat i)) (seq 0 (Nat.pow 2 n)).
  Definition untab (l : list K) : state := fun x => nth (N.to_nat x) l 0.
  Definition run_gate (n : nat) (g : gate) (l : list K) : list K := tab n (den_gate g (untab l)).
  Definition run (n : nat) (c : circuit) (l : list K) : list K := fold_left (fun l g => run_gate n g l) c l.
  Definition run0 (n : nat) (c : circuit) : list K := run n c (tab n (ket 0)).
End QSem.

Arguments Mat2 {_}. Arguments m00 {_}. Arguments m01 {_}. Arguments m10 {_}. Arguments m11 {_}.
Arguments GH {_}. Arguments GX {_}. Arguments GY {_}. Arguments GZ {_}. Arguments GS {_}. Arguments GT {_}.
Arguments GRX {_}. Arguments GRY {_}. Arguments GRZ {_}. Arguments GPHASE {_}.
Arguments B1 {_}. Arguments BSWAP {_}. Arguments BXX {_}.
Arguments Gate {_}. Arguments gbase {_}. Arguments gctrl {_}.
