(* Expect.v — expectation values in the reference semantics (definitions only; proofs in
   ExpectProofs.v).  Shared by C02 (evaluation paths of Backend.get_expectation_value) and C08
   (energies of the variational solvers).

   Over an n-qubit register (basis index x : N, bit q of x = value of qubit q; sums over x < 2^n):
     expect_word n w psi = <psi| P_w |psi>            (P_w the Pauli word w, Pauli/Action.v)
     expect_op   n H psi = <psi| H |psi>              (H a list of (word, coefficient))
     expect_lin  n H psi = sum_k c_k <psi|P_k|psi>    (term by term)
     parity_mean n qs f  = sum_x f x (-1)^{parity of the bits of x at the qubits qs}
                           (get_expectation_value_from_frequencies_oneterm on a distribution f over
                            basis indices; qs = the qubits of the term = the '1's of its mask)
     parity_var  n qs f  = sum_x f x (mu - (-1)^{...})^2, mu = parity_mean n qs f
                           (get_variance_from_frequencies_oneterm)
     parity_expect n qs psi = parity_mean on the Born distribution |psi_x|^2
   Nothing is normalised (no division, no square root): statements that need a normalised state carry
   norm2 n psi = 1 as a hypothesis.  re / im are the real and imaginary part of a number of K
   (z = re z + i im z, both fixed by conjugation). *)
From Coq Require Import NArith ZArith List Bool.
From Tangelo Require Import Num.KStruct QSem.State QSem.Measure Pauli.Word Pauli.Action.
Import ListNotations.

(* ---- index level (no number structure) ---- *)
(* parity of the bits of x at the listed qubits *)
Definition parity (x : N) (qs : list N) : bool := fold_right (fun q acc => xorb (bit x q) acc) false qs.
(* the Z-type word on the listed qubits, and the qubits of a word *)
Definition zword (qs : list N) : word := map (fun q => (q, PZ)) qs.
Definition supp (w : word) : list N := map fst w.
(* the mask of a qubit list as a number, and the code's formulation: count of '1' in (mask & x), mod 2,
   over the n low bits *)
Definition mask_of (qs : list N) : N := fold_right (fun q m => N.lor (N.shiftl 1 q) m) 0%N qs.
Fixpoint bits_parity (n : nat) (y : N) : bool :=
  match n with O => false | Datatypes.S k => xorb (N.testbit y (N.of_nat k)) (bits_parity k y) end.
Definition parity_mask (n : nat) (x m : N) : bool := bits_parity n (N.land m x).
(* all qubits of a word lie in an n-qubit register *)
Definition word_in (n : nat) (w : word) : Prop := Forall (fun q => (q < N.of_nat n)%N) (supp w).

Section Expect.
  Variable S : KS.
  Open Scope K_scope.
  Notation K := (K S).
  Notation state := (state S).

  Definition sgn (b : bool) : K := if b then - (1) else 1.

  Definition expect_word (n : nat) (w : word) (psi : state) : K := inner S n psi (word_den S w psi).
  Definition expect_op (n : nat) (H : op S) (psi : state) : K := inner S n psi (op_den S H psi).
  Definition expect_lin (n : nat) (H : op S) (psi : state) : K :=
    fold_right (fun t acc => snd t * expect_word n (fst t) psi + acc) 0 H.

  (* a distribution over basis indices is any f : N -> K (exact: born psi; sampled: empirical frequencies) *)
  Definition total (n : nat) (f : N -> K) : K := ksum S (fun i => f (N.of_nat i)) (Nat.pow 2 n).
  Definition parity_mean (n : nat) (qs : list N) (f : N -> K) : K :=
    ksum S (fun i => f (N.of_nat i) * sgn (parity (N.of_nat i) qs)) (Nat.pow 2 n).
  Definition parity_var (n : nat) (qs : list N) (f : N -> K) : K :=
    let mu := parity_mean n qs f in
    ksum S (fun i => f (N.of_nat i) * ((mu - sgn (parity (N.of_nat i) qs)) * (mu - sgn (parity (N.of_nat i) qs))))
         (Nat.pow 2 n).
  Definition parity_expect (n : nat) (qs : list N) (psi : state) : K := parity_mean n qs (born S psi).

  (* real and imaginary parts *)
  Definition re (z : K) : K := khalf * (z + kconj z).
  Definition im (z : K) : K := - (ki * (khalf * (z - kconj z))).
  Definition op_re (H : op S) : op S := map (fun t => (fst t, re (snd t))) H.
  Definition op_im (H : op S) : op S := map (fun t => (fst t, im (snd t))) H.

  (* an operator all of whose words lie in the register *)
  Definition op_in (n : nat) (H : op S) : Prop := Forall (fun t => word_in n (fst t)) H.

  (* ensembles (mixed states as lists of unnormalised branch vectors, Measure.v) *)
  Definition expect_word_ens (n : nat) (w : word) (e : ensemble S) : K := lsum S (expect_word n w) e.
End Expect.
