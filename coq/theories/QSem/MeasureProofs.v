(* MeasureProofs.v — facts about projective measurement in the reference semantics, generic over the
   number structure (so they hold for complex amplitudes and for what the exact instance computes):
   projectors partition the state; branch probabilities of one measurement add up to the squared norm;
   by induction over the measurement list / over adaptive measurement trees the probabilities of all
   outcome strings add up to the squared norm of the initial state, GIVEN that every unitary piece
   preserves the squared norm (hypothesis, see [steps_unit] / [tree_unit]); measuring without recording
   is dephasing; linearity of gate denotations; the bit-reversal lemma for the big-endian index. *)
From Coq Require Import NArith List Bool Lia FunctionalExtensionality.
From Tangelo Require Import Num.KStruct QSem.State QSem.StateLemmas QSem.Measure.
Import ListNotations.

(* ---------------- bit reversal ---------------- *)
Lemma brev_high (n : nat) (i j : N) : (N.of_nat n <= j)%N -> N.testbit (brev n i) j = false.
Proof.
  revert i j. induction n as [|k IH]; intros i j Hj; simpl brev.
  - apply N.bits_0.
  - rewrite N.lor_spec, IH by lia.
    rewrite orb_false_r.
    destruct (N.testbit i 0); simpl N.b2n.
    + rewrite N.shiftl_1_l. apply N.pow2_bits_false. lia.
    + rewrite N.shiftl_0_l. apply N.bits_0.
Qed.

Lemma testbit_div2 (i j : N) : N.testbit (N.div2 i) j = N.testbit i (N.succ j).
Proof. symmetry. apply N.testbit_succ_r_div2. lia. Qed.

(* bit q of the reversed index is bit n-1-q of the index *)
Lemma brev_testbit (n : nat) (i q : N) :
  (q < N.of_nat n)%N -> N.testbit (brev n i) q = N.testbit i (N.of_nat n - 1 - q).
Proof.
  revert i q. induction n as [|k IH]; intros i q Hq; [lia|]. simpl brev.
  rewrite N.lor_spec.
  destruct (N.eq_dec q (N.of_nat k)) as [->|Hne].
  - rewrite brev_high by lia. rewrite orb_false_r.
    replace (N.of_nat (Datatypes.S k) - 1 - N.of_nat k)%N with 0%N by lia.
    destruct (N.testbit i 0); simpl N.b2n.
    + rewrite N.shiftl_1_l. apply N.pow2_bits_true.
    + rewrite N.shiftl_0_l. apply N.bits_0.
  - assert (Hlt : (q < N.of_nat k)%N) by lia.
    rewrite IH by exact Hlt. rewrite testbit_div2.
    replace (N.succ (N.of_nat k - 1 - q)) with (N.of_nat (Datatypes.S k) - 1 - q)%N by lia.
    assert (Hz : N.testbit (N.shiftl (N.b2n (N.testbit i 0)) (N.of_nat k)) q = false).
    { apply N.shiftl_spec_low. exact Hlt. }
    rewrite Hz. reflexivity.
Qed.

Lemma strings_length (k : nat) : length (strings k) = Nat.pow 2 k.
Proof.
  induction k as [|k IH]; [reflexivity|]. simpl strings.
  rewrite app_length, !map_length, IH. simpl. lia.
Qed.

Lemma strings_spec (k : nat) (bs : list bool) : In bs (strings k) <-> length bs = k.
Proof.
  revert bs. induction k as [|k IH]; intro bs; simpl strings.
  - split.
    + intros [<-|[]]. reflexivity.
    + destruct bs; [left; reflexivity|discriminate].
  - rewrite in_app_iff, !in_map_iff. split.
    + intros [[r [<- Hr]]|[r [<- Hr]]]; simpl; f_equal; apply IH; exact Hr.
    + destruct bs as [|b r]; [discriminate|]. simpl. intro H. injection H as H.
      destruct b; [right|left]; exists r; (split; [reflexivity|apply IH; exact H]).
Qed.

Section MeasureProofs.
  Variable S : KS.
  Add Ring kring : (k_ring S).
  Open Scope K_scope.
  Notation K := (K S).
  Notation state := (state S).
  Notation proj := (proj S).
  Notation norm2 := (norm2 S).
  Notation ksum := (ksum S).
  Notation lsum := (lsum S).

  (* ---------------- finite sums ---------------- *)
  Lemma ksum_ext (f g : nat -> K) n : (forall i, (i < n)%nat -> f i = g i) -> ksum f n = ksum g n.
  Proof.
    induction n as [|k IH]; intro H; simpl; [reflexivity|].
    rewrite IH by (intros; apply H; lia). rewrite (H k) by lia. reflexivity.
  Qed.

  Lemma ksum_add (f g : nat -> K) n : ksum (fun i => f i + g i) n = ksum f n + ksum g n.
  Proof. induction n as [|k IH]; simpl; [ring|]. rewrite IH. ring. Qed.

  Lemma ksum_scale (c : K) (f : nat -> K) n : ksum (fun i => c * f i) n = c * ksum f n.
  Proof. induction n as [|k IH]; simpl; [ring|]. rewrite IH. ring. Qed.

  Lemma ksum_zero n : ksum (fun _ => 0) n = 0.
  Proof. induction n as [|k IH]; simpl; [reflexivity|]. rewrite IH. ring. Qed.

  Lemma lsum_app {X} (f : X -> K) (a b : list X) : lsum f (a ++ b) = lsum f a + lsum f b.
  Proof. induction a as [|x r IH]; simpl; [ring|]. rewrite IH. ring. Qed.

  Lemma lsum_map {X Y} (f : Y -> K) (g : X -> Y) (l : list X) : lsum f (map g l) = lsum (fun x => f (g x)) l.
  Proof. induction l as [|x r IH]; simpl; [reflexivity|]. rewrite IH. reflexivity. Qed.

  Lemma lsum_ext {X} (f g : X -> K) (l : list X) : (forall x, In x l -> f x = g x) -> lsum f l = lsum g l.
  Proof.
    induction l as [|x r IH]; intro H; simpl; [reflexivity|].
    rewrite (H x) by (left; reflexivity). rewrite IH by (intros; apply H; right; assumption). reflexivity.
  Qed.

  Lemma lsum_add {X} (f g : X -> K) (l : list X) : lsum (fun x => f x + g x) l = lsum f l + lsum g l.
  Proof. induction l as [|x r IH]; simpl; [ring|]. rewrite IH. ring. Qed.

  (* exchange of a register sum and a list sum *)
  Lemma ksum_lsum {X} (f : X -> nat -> K) (l : list X) n :
    ksum (fun i => lsum (fun x => f x i) l) n = lsum (fun x => ksum (f x) n) l.
  Proof.
    induction l as [|x r IH]; simpl.
    - apply ksum_zero.
    - rewrite ksum_add, IH. reflexivity.
  Qed.

  (* ---------------- projectors ---------------- *)
  Lemma proj_partition q psi x : proj q false psi x + proj q true psi x = psi x.
  Proof. unfold Measure.proj. destruct (bit x q); simpl; ring. Qed.

  Lemma proj_idem q b psi : proj q b (proj q b psi) = proj q b psi.
  Proof. apply state_ext. intro x. unfold Measure.proj. destruct (Bool.eqb (bit x q) b); reflexivity. Qed.

  Lemma proj_orth q b psi : proj q b (proj q (negb b) psi) = szero S.
  Proof.
    apply state_ext. intro x. unfold Measure.proj, szero.
    destruct (bit x q), b; reflexivity.
  Qed.

  Lemma proj_comm q r b c psi : proj q b (proj r c psi) = proj r c (proj q b psi).
  Proof.
    apply state_ext. intro x. unfold Measure.proj.
    destruct (Bool.eqb (bit x q) b), (Bool.eqb (bit x r) c); reflexivity.
  Qed.

  Lemma proj_spec q b psi x : proj q b psi x = if Bool.eqb (bit x q) b then psi x else 0.
  Proof. reflexivity. Qed.

  Lemma proj_scale q b c psi : proj q b (sscale S c psi) = sscale S c (proj q b psi).
  Proof.
    apply state_ext. intro x. unfold Measure.proj, sscale.
    destruct (Bool.eqb (bit x q) b); ring.
  Qed.

  (* ---------------- one measurement: p(0) + p(1) = ||psi||^2 ---------------- *)
  Lemma branch_probs_sum n q psi : prob S n q false psi + prob S n q true psi = norm2 n psi.
  Proof.
    unfold prob, Measure.norm2, inner. rewrite <- ksum_add. apply ksum_ext. intros i _.
    unfold Measure.proj. destruct (bit (N.of_nat i) q); simpl; rewrite ?kconj_0; ring.
  Qed.

  Lemma norm2_scale n c psi : norm2 n (sscale S c psi) = (kconj c * c) * norm2 n psi.
  Proof.
    unfold Measure.norm2, inner, sscale. rewrite <- ksum_scale. apply ksum_ext. intros i _.
    rewrite kconj_mul. ring.
  Qed.

  Lemma norm2_born n psi : norm2 n psi = ksum (fun i => born S psi (N.of_nat i)) (Nat.pow 2 n).
  Proof. reflexivity. Qed.

  (* ---------------- k measurements ---------------- *)
  (* HYPOTHESIS of the sum rules: every piece preserves the squared norm over the register
     (true of unitary circuits; not proved here for the gate denotations of State.v) *)
  Definition preserves_norm (n : nat) (U : state -> state) : Prop := forall phi, norm2 n (U phi) = norm2 n phi.
  Definition steps_unit (n : nat) (steps : list (mstep S)) : Prop := Forall (fun st => preserves_norm n (fst st)) steps.

  Theorem branch_probs_sum_to_one n (steps : list (mstep S)) :
    steps_unit n steps ->
    forall psi, lsum (fun bs => norm2 n (branch S steps bs psi)) (strings (length steps)) = norm2 n psi.
  Proof.
    induction steps as [|st r IH]; intros Hu psi.
    - simpl. ring.
    - inversion Hu as [|? ? Hst Hr]; subst. simpl length. simpl strings.
      rewrite lsum_app, !lsum_map. simpl branch.
      rewrite (IH Hr (branch1 S st false psi)), (IH Hr (branch1 S st true psi)).
      unfold branch1. rewrite <- (Hst psi). apply branch_probs_sum.
  Qed.

  (* ---------------- adaptive programs (classical control) ---------------- *)
  Fixpoint tree_unit (n : nat) (t : mtree S) : Prop :=
    match t with
    | MLeaf U => preserves_norm n U
    | MNode U q t0 t1 => preserves_norm n U /\ tree_unit n t0 /\ tree_unit n t1
    end.

  Theorem tree_probs_sum_to_one n (t : mtree S) :
    tree_unit n t -> forall psi, tree_sum S n t psi = norm2 n psi.
  Proof.
    induction t as [U|U q t0 IH0 t1 IH1]; simpl; intros Hu psi.
    - apply Hu.
    - destruct Hu as [HU [H0 H1]]. rewrite IH0, IH1 by assumption.
      rewrite <- (HU psi). apply branch_probs_sum.
  Qed.

  (* total probability: the diagonal of the final mixed state (sum over all leaves of the Born weights
     of the unnormalised branch vectors = sum_b p(b) P(x|b)) sums over the register to tree_sum *)
  Theorem tree_diag_total n (t : mtree S) psi :
    ksum (fun i => tree_diag S t psi (N.of_nat i)) (Nat.pow 2 n) = tree_sum S n t psi.
  Proof.
    revert psi. induction t as [U|U q t0 IH0 t1 IH1]; intro psi; simpl.
    - reflexivity.
    - rewrite ksum_add, IH0, IH1. reflexivity.
  Qed.

  (* every leaf's vector is what tree_branch returns, and tree_diag is the sum over leaves *)
  Fixpoint leaves (t : mtree S) : list (list bool) :=
    match t with
    | MLeaf _ => [[]]
    | MNode _ _ t0 t1 => map (cons false) (leaves t0) ++ map (cons true) (leaves t1)
    end.

  Theorem tree_diag_is_leaf_sum (t : mtree S) psi x :
    tree_diag S t psi x
    = lsum (fun bs => match tree_branch S t bs psi with Some v => born S v x | None => 0 end) (leaves t).
  Proof.
    revert psi. induction t as [U|U q t0 IH0 t1 IH1]; intro psi; simpl.
    - ring.
    - rewrite lsum_app, !lsum_map. simpl. rewrite <- IH0, <- IH1. reflexivity.
  Qed.

  Theorem tree_sum_is_leaf_sum n (t : mtree S) psi :
    tree_sum S n t psi
    = lsum (fun bs => match tree_branch S t bs psi with Some v => norm2 n v | None => 0 end) (leaves t).
  Proof.
    revert psi. induction t as [U|U q t0 IH0 t1 IH1]; intro psi; simpl.
    - ring.
    - rewrite lsum_app, !lsum_map. simpl. rewrite <- IH0, <- IH1. reflexivity.
  Qed.

  (* ---------------- measuring without recording = dephasing ---------------- *)
  Theorem measure_is_dephasing q psi x y :
    proj q false psi x * kconj (proj q false psi y) + proj q true psi x * kconj (proj q true psi y)
    = if Bool.eqb (bit x q) (bit y q) then psi x * kconj (psi y) else 0.
  Proof.
    unfold Measure.proj. destruct (bit x q), (bit y q); simpl; rewrite ?kconj_0; ring.
  Qed.

  Lemma ens_measure_rho q (e : ensemble S) x y :
    ens_rho S (ens_measure S q e) x y = if Bool.eqb (bit x q) (bit y q) then ens_rho S e x y else 0.
  Proof.
    unfold ens_rho, ens_measure. induction e as [|psi r IH]; simpl.
    - destruct (Bool.eqb (bit x q) (bit y q)); reflexivity.
    - fold (Measure.lsum S (fun psi0 => psi0 x * kconj (psi0 y))) in *. rewrite IH.
      pose proof (measure_is_dephasing q psi x y) as H.
      destruct (Bool.eqb (bit x q) (bit y q)).
      + rewrite <- H. ring.
      + transitivity ((proj q false psi x * kconj (proj q false psi y) + proj q true psi x * kconj (proj q true psi y)) + 0); [ring|].
        rewrite H. ring.
  Qed.

  Lemma ens_measure_diag q (e : ensemble S) x : ens_diag S (ens_measure S q e) x = ens_diag S e x.
  Proof.
    unfold ens_diag, ens_measure. induction e as [|psi r IH]; simpl; [reflexivity|].
    fold (Measure.lsum S (fun psi0 => born S psi0 x)) in *. rewrite IH.
    unfold born, Measure.proj. destruct (bit x q); simpl; rewrite ?kconj_0; ring.
  Qed.

  (* ---------------- linearity of the gate denotations ---------------- *)
  Definition linear (U : state -> state) : Prop := forall c psi, U (sscale S c psi) = sscale S c (U psi).

  Lemma den_base_linear b : linear (den_base S b).
  Proof.
    intros c psi. apply state_ext. intro x. destruct b as [g q|q1 q2|a q1 q2]; simpl.
    - unfold app1, sscale. destruct (bit x q); ring.
    - reflexivity.
    - unfold app_xx, sscale. ring.
  Qed.

  Lemma den_gate_linear g : linear (den_gate S g).
  Proof.
    intros c psi. apply state_ext. intro x. unfold den_gate, ctrl, sscale.
    destruct (allset x (gctrl g)).
    - pose proof (den_base_linear (gbase g) c psi) as H. unfold sscale in H.
      apply (f_equal (fun f => f x)) in H. exact H.
    - reflexivity.
  Qed.

  Lemma den_linear (c : circuit S) : linear (den S c).
  Proof.
    induction c as [|g r IH]; intros k psi.
    - reflexivity.
    - rewrite !den_cons, den_gate_linear. apply IH.
  Qed.

  Lemma sscale_sscale c d psi : sscale S c (sscale S d psi) = sscale S (c * d) psi.
  Proof. apply state_ext. intro x. unfold sscale. ring. Qed.

  Lemma sscale_one psi : sscale S 1 psi = psi.
  Proof. apply state_ext. intro x. unfold sscale. ring. Qed.

  (* ---------------- tabulated norm = register sum ---------------- *)
  Lemma fold_left_ksum (f : nat -> K) n a :
    fold_left (fun acc i => acc + f i) (seq 0 n) a = a + ksum f n.
  Proof.
    revert a. induction n as [|k IH]; intro a; simpl ksum.
    - simpl. ring.
    - rewrite seq_S, fold_left_app, IH. simpl. ring.
  Qed.

  Lemma norm2_tab_ok n psi : norm2_tab S (tab S n psi) = norm2 n psi.
  Proof.
    unfold norm2_tab, tab, Measure.norm2, inner.
    assert (H : forall l a, fold_left (fun acc x => acc + kconj x * x) (map (fun i => psi (N.of_nat i)) l) a
                            = fold_left (fun acc i => acc + kconj (psi (N.of_nat i)) * psi (N.of_nat i)) l a).
    { induction l as [|i r IH]; intro a; simpl; [reflexivity|apply IH]. }
    rewrite H, fold_left_ksum. ring.
  Qed.
End MeasureProofs.
