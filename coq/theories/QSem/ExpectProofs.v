(* ExpectProofs.v — facts about expectation values (QSem/Expect.v).  Generic over the number structure,
   unbounded (all register sizes, all words, all states); pointwise reasoning only, no axiom.

     inner_ext, inner_add_r, inner_scale_r, inner_conj        sesquilinearity of the register inner product
     app1_adjoint        <u_q a | b> = <a | u_q^dagger b>                 any 2x2 matrix u, q < n
     app1_inner_unit     <u_q a | u_q b> = <a | b>                       u unitary
     word_den_selfadj    <P a | b> = <a | P b>                           P a well-formed Pauli word in the register
     expect_word_real    conj <psi|P|psi> = <psi|P|psi>
     zword_den           Z_qs psi (x) = (-1)^{parity x qs} psi x
     parity_is_Z_expectation   sum_x |psi_x|^2 (-1)^{parity x qs} = <psi| Z_qs |psi>
     parity_mask_eq      the mask/popcount formulation of the code = parity over the qubit list
     expect_op_lin       <psi|H|psi> = sum_k c_k <psi|P_k|psi>
     expect_word_nil     <psi|I|psi> = norm2 psi
     expect_split        E(H) = E(Re H) + i E(Im H);  re_im, re_real, im_real
     variance_pm1_list / variance_pm1    sum p (mu - s)^2 = 1 - mu^2  for s = +-1, sum p = 1
     expect_word_scale   <c psi|P|c psi> = |c|^2 <psi|P|psi>             (post-selected, unnormalised branch)
     expect_word_ens_app                                                   ensembles                      *)
From Coq Require Import NArith ZArith List Bool Lia.
From Tangelo Require Import Num.KStruct QSem.State QSem.BitLemmas QSem.Measure QSem.MeasureProofs QSem.Unitary
     Pauli.Word Pauli.Action Pauli.WordProofs Pauli.ActionProofs QSem.Expect.
Import ListNotations.

(* ---------------------------------------------------------------- index level *)
Lemma supp_qubits w : supp w = qubits w.
Proof. reflexivity. Qed.

Lemma supp_zword qs : supp (zword qs) = qs.
Proof. unfold supp, zword. rewrite map_map. simpl. apply map_id. Qed.

Lemma testbit_mask_of qs k : N.testbit (mask_of qs) k = existsb (N.eqb k) qs.
Proof.
  induction qs as [|q qs IH]; [reflexivity|].
  unfold mask_of. cbn [fold_right existsb]. fold (mask_of qs).
  rewrite N.lor_spec, IH, testbit_pow2, (N.eqb_sym q k). reflexivity.
Qed.

(* contribution of one qubit to the bit-count parity over the n low bits *)
Lemma bits_parity_single n q x :
  bits_parity n (N.land (N.shiftl 1 q) x) = (N.ltb q (N.of_nat n)) && bit x q.
Proof.
  induction n as [|k IH]; cbn [bits_parity].
  - destruct (N.ltb_spec q (N.of_nat 0)); [simpl in *; lia|reflexivity].
  - rewrite IH, N.land_spec, testbit_pow2.
    destruct (N.eqb_spec q (N.of_nat k)) as [->|Hne].
    + replace (N.ltb (N.of_nat k) (N.of_nat (Datatypes.S k))) with true by (symmetry; apply N.ltb_lt; lia).
      rewrite N.ltb_irrefl. simpl. unfold bit. destruct (N.testbit x (N.of_nat k)); reflexivity.
    + destruct (N.ltb_spec q (N.of_nat k)) as [Hlt|Hge].
      * replace (N.ltb q (N.of_nat (Datatypes.S k))) with true by (symmetry; apply N.ltb_lt; lia).
        cbn [andb xorb]. destruct (bit x q); reflexivity.
      * replace (N.ltb q (N.of_nat (Datatypes.S k))) with false by (symmetry; apply N.ltb_ge; lia).
        reflexivity.
Qed.

Lemma bits_parity_xor n a b :
  (forall k, N.testbit a k && N.testbit b k = false) ->
  bits_parity n (N.lor a b) = xorb (bits_parity n a) (bits_parity n b).
Proof.
  intro Hd. induction n as [|k IH]; cbn [bits_parity]; [reflexivity|].
  rewrite IH, N.lor_spec. specialize (Hd (N.of_nat k)).
  destruct (N.testbit a (N.of_nat k)), (N.testbit b (N.of_nat k)), (bits_parity k a), (bits_parity k b);
    simpl in *; congruence.
Qed.

(* the code's ((mask & key).count("1") % 2) is the parity of x over the qubit list, for a list
   without repetition inside the register *)
Theorem parity_mask_eq n qs x :
  NoDup qs -> Forall (fun q => (q < N.of_nat n)%N) qs -> parity_mask n x (mask_of qs) = parity x qs.
Proof.
  unfold parity_mask. induction qs as [|q qs IH]; intros Hnd Hin.
  - cbn [mask_of fold_right parity]. rewrite N.land_0_l. clear Hnd Hin.
    induction n as [|k IHk]; cbn [bits_parity]; [reflexivity|]. rewrite IHk, N.bits_0. reflexivity.
  - inversion Hnd as [|? ? Hq Hnd']; subst. inversion Hin as [|? ? Hlt Hin']; subst.
    unfold mask_of, parity. cbn [fold_right]. fold (mask_of qs). fold (parity x qs). rewrite N.land_lor_distr_l.
    rewrite bits_parity_xor.
    + rewrite (IH Hnd' Hin'), bits_parity_single.
      replace (N.ltb q (N.of_nat n)) with true by (symmetry; apply N.ltb_lt; exact Hlt). reflexivity.
    + intro k. rewrite !N.land_spec, testbit_pow2, testbit_mask_of.
      destruct (N.eqb_spec q k) as [->|]; [|reflexivity].
      replace (existsb (N.eqb k) qs) with false; [simpl; destruct (N.testbit x k); reflexivity|].
      symmetry. apply not_true_is_false. intro E. apply existsb_exists in E. destruct E as [y [Hy E]].
      apply N.eqb_eq in E. subst y. exact (Hq Hy).
Qed.

Section ExpectProofs.
  Variable S : KS.
  Add Ring kring : (k_ring S).
  Open Scope K_scope.
  Notation K := (K S).
  Notation state := (state S).
  Notation ksum := (ksum S).
  Notation inner := (inner S).
  Notation norm2 := (norm2 S).

  (* ---------------------------------------------------------------- the register inner product *)
  Lemma inner_ext n (a a' b b' : state) :
    (forall x, a x = a' x) -> (forall x, b x = b' x) -> inner n a b = inner n a' b'.
  Proof. intros Ha Hb. unfold State.inner. apply ksum_ext. intros i _. rewrite Ha, Hb. reflexivity. Qed.

  Lemma inner_add_r n (a b c : state) : inner n a (fun x => b x + c x) = inner n a b + inner n a c.
  Proof.
    unfold State.inner. rewrite <- ksum_add. apply ksum_ext. intros i _. ring.
  Qed.

  Lemma inner_scale_r n k (a b : state) : inner n a (fun x => k * b x) = k * inner n a b.
  Proof.
    unfold State.inner. rewrite <- ksum_scale. apply ksum_ext. intros i _. ring.
  Qed.

  Lemma inner_zero_r n (a : state) : inner n a (fun _ => 0) = 0.
  Proof.
    unfold State.inner. transitivity (ksum (fun _ => 0) (Nat.pow 2 n)); [|apply ksum_zero].
    apply ksum_ext. intros i _. ring.
  Qed.

  Lemma kconj_ksum (f : nat -> K) m : kconj (ksum f m) = ksum (fun i => kconj (f i)) m.
  Proof. induction m as [|k IH]; simpl; [apply kconj_0|]. rewrite kconj_add, IH. reflexivity. Qed.

  Lemma inner_conj n (a b : state) : kconj (inner n a b) = inner n b a.
  Proof.
    unfold State.inner. rewrite kconj_ksum. apply ksum_ext. intros i _.
    rewrite kconj_mul, kconj_inv. ring.
  Qed.

  Lemma inner_scale_both n c (a b : state) :
    inner n (fun x => c * a x) (fun x => c * b x) = (kconj c * c) * inner n a b.
  Proof.
    unfold State.inner. rewrite <- ksum_scale. apply ksum_ext. intros i _. rewrite kconj_mul. ring.
  Qed.

  (* ---------------------------------------------------------------- one-qubit matrices *)
  Lemma app1_compose_pt (u v : mat2 S) q (psi : state) x :
    app1 S u q (app1 S v q psi) x = app1 S (mmul S u v) q psi x.
  Proof.
    unfold app1. rewrite !bit_flip_same, !flip_flip. destruct (bit x q); simpl; ring.
  Qed.

  Lemma app1_id_pt q (psi : state) x : app1 S (mid S) q psi x = psi x.
  Proof. unfold app1. destruct (bit x q); simpl; ring. Qed.

  Theorem app1_adjoint (u : mat2 S) q n (a b : state) :
    (q < N.of_nat n)%N -> inner n (app1 S u q a) b = inner n a (app1 S (madj S u) q b).
  Proof.
    intro Hq. unfold State.inner.
    apply (ksum_pairing S (fun x => flip x q)
                        (fun x => kconj (app1 S u q a x) * b x)
                        (fun x => kconj (a x) * app1 S (madj S u) q b x) n).
    - intro x. apply flip_flip.
    - intros x Hx. apply flip_lt; assumption.
    - intro x. unfold app1. rewrite bit_flip_same, flip_flip.
      destruct (bit x q); simpl negb; cbv iota; cbn [madj m00 m01 m10 m11];
        rewrite !kconj_add, !kconj_mul; ring.
  Qed.

  Theorem app1_inner_unit (u : mat2 S) q n (a b : state) :
    unitary2 S u -> (q < N.of_nat n)%N -> inner n (app1 S u q a) (app1 S u q b) = inner n a b.
  Proof.
    intros Hu Hq. rewrite app1_adjoint by exact Hq.
    apply inner_ext; [reflexivity|]. intro x.
    rewrite app1_compose_pt. unfold unitary2 in Hu. rewrite Hu. apply app1_id_pt.
  Qed.

  Lemma pauli_mat_herm p : madj S (pauli_mat S p) = pauli_mat S p.
  Proof.
    destruct p; unfold madj, pauli_mat, mX, mY, mZ; cbn [m00 m01 m10 m11];
      rewrite ?kconj_opp, ?kconj_0, ?kconj_1, ?kconj_i; f_equal; ring.
  Qed.

  (* ---------------------------------------------------------------- Pauli words are self-adjoint *)
  Theorem word_den_selfadj n w : word_wf w = true -> word_in n w ->
    forall (a b : state), inner n (word_den S w a) b = inner n a (word_den S w b).
  Proof.
    induction w as [|[q p] w IH]; intros Hwf Hin a b; [reflexivity|].
    pose proof (word_wf_head_notin _ _ _ Hwf) as Hn.
    pose proof (word_wf_tail _ _ _ Hwf) as Hwf'.
    unfold word_in in Hin. simpl in Hin. inversion Hin as [|? ? Hq Hin']; subst.
    rewrite !word_den_cons.
    rewrite (IH Hwf' Hin'), app1_adjoint by exact Hq.
    rewrite pauli_mat_herm.
    apply inner_ext; [reflexivity|]. intro x. symmetry. apply word_den_app1_comm. exact Hn.
  Qed.

  Theorem expect_word_real n w (psi : state) : word_wf w = true -> word_in n w ->
    kconj (expect_word S n w psi) = expect_word S n w psi.
  Proof.
    intros Hwf Hin. unfold expect_word. rewrite inner_conj. apply word_den_selfadj; assumption.
  Qed.

  (* ---------------------------------------------------------------- Z-type words and parity *)
  Lemma sgn_sq b : sgn S b * sgn S b = 1.
  Proof. destruct b; unfold sgn; ring. Qed.

  Lemma sgn_xor a b : sgn S (xorb a b) = sgn S a * sgn S b.
  Proof. destruct a, b; unfold sgn; simpl; ring. Qed.

  Lemma zword_den qs : forall (psi : state) x,
    word_den S (zword qs) psi x = sgn S (parity x qs) * psi x.
  Proof.
    induction qs as [|q qs IH]; intros psi x.
    - simpl. unfold sgn. ring.
    - cbn [zword map]. fold (zword qs). rewrite word_den_cons, IH.
      cbn [parity fold_right]. fold (parity x qs). rewrite sgn_xor.
      unfold app1, pauli_mat, mZ, sgn. cbn [m00 m01 m10 m11]. destruct (bit x q); ring.
  Qed.

  (* the Born-weighted parity sum is the expectation of the Z-type word — for every register size,
     every qubit list (no side condition: repeated or out-of-register qubits included), every state *)
  Theorem parity_is_Z_expectation n qs (psi : state) :
    parity_expect S n qs psi = expect_word S n (zword qs) psi.
  Proof.
    unfold parity_expect, parity_mean, expect_word, State.inner, born.
    apply ksum_ext. intros i _. rewrite zword_den. ring.
  Qed.

  Lemma parity_expect_nil n (psi : state) : parity_expect S n [] psi = norm2 n psi.
  Proof.
    unfold parity_expect, parity_mean, Measure.norm2, State.inner, born. apply ksum_ext. intros i _.
    simpl. unfold sgn. ring.
  Qed.

  Lemma total_born n (psi : state) : total S n (born S psi) = norm2 n psi.
  Proof. unfold total. symmetry. apply norm2_born. Qed.

  (* ---------------------------------------------------------------- operators *)
  Lemma expect_word_nil n (psi : state) : expect_word S n [] psi = norm2 n psi.
  Proof. reflexivity. Qed.

  Theorem expect_op_lin n (H : op S) (psi : state) : expect_op S n H psi = expect_lin S n H psi.
  Proof.
    unfold expect_op. induction H as [|t H IH].
    - simpl. rewrite <- (inner_zero_r n psi). apply inner_ext; [reflexivity|]. intro x. apply op_den_nil.
    - cbn [expect_lin fold_right]. fold (expect_lin S n H psi). rewrite <- IH.
      unfold expect_word. rewrite <- inner_scale_r, <- inner_add_r.
      apply inner_ext; [reflexivity|]. intro x. apply op_den_cons.
  Qed.

  Lemma expect_lin_app n (A B : op S) (psi : state) :
    expect_lin S n (A ++ B) psi = expect_lin S n A psi + expect_lin S n B psi.
  Proof.
    induction A as [|t A IH]; simpl; [ring|]. fold (expect_lin S n (A ++ B) psi). fold (expect_lin S n A psi).
    rewrite IH. ring.
  Qed.

  (* ---------------------------------------------------------------- real / imaginary split *)
  Lemma re_im (z : K) : re S z + ki * im S z = z.
  Proof.
    unfold re, im.
    transitivity ((- (ki * ki)) * (khalf * (z - kconj z)) + khalf * (z + kconj z)); [ring|].
    rewrite k_ii. transitivity ((khalf + khalf) * z); [ring|]. rewrite k_half. ring.
  Qed.

  Lemma re_real (z : K) : kconj (re S z) = re S z.
  Proof. unfold re. rewrite kconj_mul, kconj_add, kconj_inv, kconj_half. ring. Qed.

  Lemma im_real (z : K) : kconj (im S z) = im S z.
  Proof.
    unfold im. replace (z - kconj z) with (z + - kconj z) by ring.
    rewrite kconj_opp, !kconj_mul, kconj_i, kconj_half, kconj_add, kconj_opp, kconj_inv. ring.
  Qed.

  Lemma re_of_real (z : K) : kconj z = z -> re S z = z.
  Proof. intro H. unfold re. rewrite H. apply half_double. Qed.

  Theorem expect_split n (H : op S) (psi : state) :
    expect_lin S n H psi = expect_lin S n (op_re S H) psi + ki * expect_lin S n (op_im S H) psi.
  Proof.
    induction H as [|t H IH]; simpl; [ring|].
    fold (expect_lin S n H psi). fold (op_re S H). fold (op_im S H).
    fold (expect_lin S n (op_re S H) psi). fold (expect_lin S n (op_im S H) psi).
    rewrite IH. rewrite <- (re_im (snd t)) at 1. ring.
  Qed.

  (* the two parts are real-valued: each is the expectation of a Hermitian operator *)
  Lemma expect_lin_real n (H : op S) (psi : state) :
    op_wf S H -> op_in S n H -> (forall t, In t H -> kconj (snd t) = snd t) ->
    kconj (expect_lin S n H psi) = expect_lin S n H psi.
  Proof.
    intros Hwf Hin Hc. induction H as [|t H IH]; simpl; [apply kconj_0|].
    fold (expect_lin S n H psi).
    inversion Hwf as [|? ? Hw Hwf']; subst. inversion Hin as [|? ? Hi Hin']; subst.
    rewrite kconj_add, kconj_mul, IH, (Hc t (or_introl eq_refl)), expect_word_real by (auto; intros; apply Hc; right; assumption).
    reflexivity.
  Qed.

  (* ---------------------------------------------------------------- variance of a +-1 valued outcome *)
  Lemma ksum_var (f s : nat -> K) (m : K) k :
    (forall i, s i * s i = 1) ->
    ksum (fun i => f i * ((m - s i) * (m - s i))) k
    = m * m * ksum f k - (m + m) * ksum (fun i => f i * s i) k + ksum f k.
  Proof.
    intro Hs. induction k as [|j IH]; simpl; [ring|]. rewrite IH.
    transitivity (m * m * ksum f j - (m + m) * ksum (fun i => f i * s i) j + ksum f j
                  + (m * m * f j - (m + m) * (f j * s j) + f j * (s j * s j))); [ring|].
    rewrite Hs. ring.
  Qed.

  (* for EVERY distribution f over the basis states of the register with total weight 1 and every
     qubit list: sum_x f x (mu - s_x)^2 = 1 - mu^2, s_x = (-1)^{parity}, mu = sum_x f x s_x *)
  Theorem variance_pm1 n qs (f : N -> K) :
    total S n f = 1 ->
    parity_var S n qs f = 1 - parity_mean S n qs f * parity_mean S n qs f.
  Proof.
    intro Ht. unfold parity_var.
    rewrite (ksum_var (fun i => f (N.of_nat i)) (fun i => sgn S (parity (N.of_nat i) qs))
                      (parity_mean S n qs f) (Nat.pow 2 n)) by (intro i; apply sgn_sq).
    fold (total S n f). fold (parity_mean S n qs f). rewrite Ht. ring.
  Qed.

  (* the same over an explicit finite list of (probability, outcome) pairs *)
  Theorem variance_pm1_list (l : list (K * K)) :
    (forall ps, In ps l -> snd ps * snd ps = 1) -> lsum S fst l = 1 ->
    let mu := lsum S (fun ps => fst ps * snd ps) l in
    lsum S (fun ps => fst ps * ((mu - snd ps) * (mu - snd ps))) l = 1 - mu * mu.
  Proof.
    intros Hs Ht mu.
    assert (G : forall m, lsum S (fun ps => fst ps * ((m - snd ps) * (m - snd ps))) l
                          = m * m * lsum S fst l - (m + m) * lsum S (fun ps => fst ps * snd ps) l + lsum S fst l).
    { intro m. clear Ht mu. induction l as [|ps l IH]; simpl; [ring|].
      rewrite IH by (intros; apply Hs; right; assumption).
      transitivity (m * m * lsum S fst l - (m + m) * lsum S (fun ps0 => fst ps0 * snd ps0) l + lsum S fst l
                    + (m * m * fst ps - (m + m) * (fst ps * snd ps) + fst ps * (snd ps * snd ps))); [ring|].
      rewrite (Hs ps (or_introl eq_refl)). ring. }
    rewrite G, Ht. unfold mu. ring.
  Qed.

  (* ---------------------------------------------------------------- unnormalised (post-selected) states *)
  Theorem expect_word_scale n w c (psi : state) :
    expect_word S n w (sscale S c psi) = (kconj c * c) * expect_word S n w psi.
  Proof.
    unfold expect_word, sscale. rewrite <- inner_scale_both.
    apply inner_ext; [reflexivity|]. intro x. apply word_den_scale.
  Qed.

  Theorem expect_lin_scale n (H : op S) c (psi : state) :
    expect_lin S n H (sscale S c psi) = (kconj c * c) * expect_lin S n H psi.
  Proof.
    induction H as [|t H IH]; simpl; [ring|].
    fold (expect_lin S n H (sscale S c psi)). fold (expect_lin S n H psi).
    rewrite IH, expect_word_scale. ring.
  Qed.

  Lemma expect_word_ens_app n w (e1 e2 : ensemble S) :
    expect_word_ens S n w (e1 ++ e2) = expect_word_ens S n w e1 + expect_word_ens S n w e2.
  Proof. apply lsum_app. Qed.
End ExpectProofs.
