(* StateLemmas.v — basic facts of the reference semantics: bit/flip algebra, composition of
   one-qubit gates, commutation of gates on distinct qubits, controls, extensionality.
   Functional extensionality (an axiom of the standard library) is used to state equalities of
   states as Leibniz equalities. *)
From Coq Require Import NArith List Bool FunctionalExtensionality Lia.
From Tangelo Require Import Num.KStruct QSem.State.
Import ListNotations.

(* ---------------- bits ---------------- *)
Lemma testbit_pow2 q r : N.testbit (N.shiftl 1 q) r = N.eqb q r.
Proof.
  rewrite N.shiftl_1_l. destruct (N.eqb_spec q r) as [->|Hne].
  - apply N.pow2_bits_true.
  - apply N.pow2_bits_false. assumption.
Qed.

Lemma bit_flip_same x q : bit (flip x q) q = negb (bit x q).
Proof. unfold bit, flip. rewrite N.lxor_spec, testbit_pow2, N.eqb_refl. apply xorb_true_r. Qed.

Lemma bit_flip_other x q r : q <> r -> bit (flip x q) r = bit x r.
Proof.
  intro H. unfold bit, flip. rewrite N.lxor_spec, testbit_pow2.
  destruct (N.eqb_spec q r); [contradiction|]. apply xorb_false_r.
Qed.

Lemma flip_flip x q : flip (flip x q) q = x.
Proof. unfold flip. rewrite N.lxor_assoc, N.lxor_nilpotent, N.lxor_0_r. reflexivity. Qed.

Lemma flip_comm x q r : flip (flip x q) r = flip (flip x r) q.
Proof. unfold flip. rewrite !N.lxor_assoc. f_equal. apply N.lxor_comm. Qed.

Lemma allset_flip x q cs : ~ In q cs -> allset (flip x q) cs = allset x cs.
Proof.
  intro H. unfold allset. induction cs as [|c r IH]; simpl; [reflexivity|].
  rewrite bit_flip_other by (intro E; apply H; left; symmetry; exact E).
  rewrite IH; [reflexivity|]. intro G. apply H. right. exact G.
Qed.

Lemma allset_agree x y cs : (forall c, In c cs -> bit y c = bit x c) -> allset y cs = allset x cs.
Proof.
  unfold allset. induction cs as [|c r IH]; simpl; intro H; [reflexivity|].
  rewrite (H c (or_introl eq_refl)), IH; [reflexivity|]. intros c' Hc'. apply H. right. exact Hc'.
Qed.

Section Lemmas.
  Variable S : KS.
  Add Ring kring : (k_ring S).
  Open Scope K_scope.
  Notation state := (state S).
  Notation mat2 := (mat2 S).
  Notation app1 := (app1 S).
  Notation ctrl := (ctrl S).

  Lemma state_ext (psi phi : state) : (forall x, psi x = phi x) -> psi = phi.
  Proof. intro H. apply functional_extensionality. exact H. Qed.

  (* ---------------- one-qubit gates on the same qubit compose by matrix product ---------------- *)
  Lemma app1_compose (u v : mat2) q psi : app1 u q (app1 v q psi) = app1 (mmul S u v) q psi.
  Proof.
    apply state_ext. intro x. unfold State.app1. rewrite !bit_flip_same, !flip_flip.
    destruct (bit x q); simpl; ring.
  Qed.

  Lemma app1_id q psi : app1 (mid S) q psi = psi.
  Proof. apply state_ext. intro x. unfold State.app1. destruct (bit x q); simpl; ring. Qed.

  Lemma mat2_eq (u v : mat2) :
    m00 u = m00 v -> m01 u = m01 v -> m10 u = m10 v -> m11 u = m11 v -> u = v.
  Proof. destruct u, v; simpl; intros; subst; reflexivity. Qed.

  (* ---------------- gates on distinct qubits commute ---------------- *)
  Lemma app1_comm (u v : mat2) q r psi :
    q <> r -> app1 u q (app1 v r psi) = app1 v r (app1 u q psi).
  Proof.
    intro H. apply state_ext. intro x. unfold State.app1.
    rewrite !(bit_flip_other _ q r) by assumption.
    rewrite !(bit_flip_other _ r q) by (intro E; apply H; symmetry; exact E).
    rewrite (flip_comm x r q).
    destruct (bit x q), (bit x r); ring.
  Qed.

  (* ---------------- controls ---------------- *)
  Lemma ctrl_nil f psi : ctrl [] f psi = f psi.
  Proof. apply state_ext. intro x. reflexivity. Qed.

  (* f is local w.r.t. cs: (f phi) x only looks at phi on indices that agree with x on cs *)
  Definition local_off (cs : list N) (f : state -> state) : Prop :=
    forall phi phi' x, (forall y, (forall c, In c cs -> bit y c = bit x c) -> phi y = phi' y) ->
                       f phi x = f phi' x.

  Lemma ctrl_compose cs f g psi :
    local_off cs f -> ctrl cs f (ctrl cs g psi) = ctrl cs (fun s => f (g s)) psi.
  Proof.
    intro Hf. apply state_ext. intro x. unfold State.ctrl.
    destruct (allset x cs) eqn:Hx; [|reflexivity].
    apply Hf. intros y Hy.
    assert (Hy' : allset y cs = true).
    { unfold allset in *. rewrite forallb_forall in *. intros c Hc. rewrite (Hy c Hc). apply Hx. exact Hc. }
    rewrite Hy'. reflexivity.
  Qed.

  Lemma ctrl_id cs psi : ctrl cs (fun s => s) psi = psi.
  Proof. apply state_ext. intro x. unfold State.ctrl. destruct (allset x cs); reflexivity. Qed.

  Lemma ctrl_ext cs f g psi : (forall s, f s = g s) -> ctrl cs f psi = ctrl cs g psi.
  Proof. intro H. apply state_ext. intro x. unfold State.ctrl. rewrite H. reflexivity. Qed.

  Lemma app1_local cs u q : ~ In q cs -> local_off cs (app1 u q).
  Proof.
    intros Hq phi phi' x H. unfold State.app1.
    rewrite (H x) by (intros; reflexivity).
    rewrite (H (flip x q)).
    - reflexivity.
    - intros c Hc. apply bit_flip_other. intro E. subst. contradiction.
  Qed.

  Lemma flip2_other x q1 q2 c : c <> q1 -> c <> q2 -> bit (flip2 x q1 q2) c = bit x c.
  Proof.
    intros H1 H2. unfold flip2. rewrite bit_flip_other by (intro E; apply H2; symmetry; exact E).
    apply bit_flip_other. intro E; apply H1; symmetry; exact E.
  Qed.

  Lemma app_xx_local cs a q1 q2 : ~ In q1 cs -> ~ In q2 cs -> local_off cs (app_xx S a q1 q2).
  Proof.
    intros H1 H2 phi phi' x H. unfold app_xx.
    rewrite (H x) by (intros; reflexivity).
    rewrite (H (flip2 x q1 q2)); [reflexivity|].
    intros c Hc. apply flip2_other; intro E; subst; contradiction.
  Qed.

  Lemma swapq_other q1 q2 x c : c <> q1 -> c <> q2 -> bit (swapq q1 q2 x) c = bit x c.
  Proof.
    intros H1 H2. unfold swapq. destruct (Bool.eqb (bit x q1) (bit x q2)); [reflexivity|].
    apply flip2_other; assumption.
  Qed.

  Lemma app_swap_local cs q1 q2 : ~ In q1 cs -> ~ In q2 cs -> local_off cs (app_swap S q1 q2).
  Proof.
    intros H1 H2 phi phi' x H. unfold app_swap. apply H.
    intros c Hc. apply swapq_other; intro E; subst; contradiction.
  Qed.

  (* ---------------- circuits ---------------- *)
  Lemma den_app (c1 c2 : circuit S) psi : den S (c1 ++ c2) psi = den S c2 (den S c1 psi).
  Proof. unfold den. apply fold_left_app. Qed.

  Lemma den_nil psi : den S [] psi = psi.
  Proof. reflexivity. Qed.

  Lemma den_cons g (c : circuit S) psi : den S (g :: c) psi = den S c (den_gate S g psi).
  Proof. reflexivity. Qed.
End Lemmas.
