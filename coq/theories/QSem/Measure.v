(* Measure.v — measurement in the reference semantics (definitions only; proofs in MeasureProofs.v).
   A computational-basis measurement of qubit q with outcome b is the projector
       proj q b psi = fun x => if bit x q = b then psi x else 0        (state -> state, unnormalised).
   Probabilities are squared norms over an n-qubit register, written as the finite sums of State.v
   (ksum / inner): nothing is normalised here, so no division or square root is needed and every
   definition runs in the exact instance Cyc.
   Also: branch states of a sequence "unitary piece, measurement, unitary piece, ..." for an outcome
   string, the adaptive version (measurement trees: what is applied next may depend on the outcomes
   so far), outcome strings of length k, the Born distribution of a state, ensembles (mixed states as
   finite lists of unnormalised branch vectors), the bit reversal relating QSem's little-endian index
   to cirq's big-endian one. *)
From Coq Require Import NArith List Bool.
From Tangelo Require Import Num.KStruct QSem.State.
Import ListNotations.

(* ---- index conventions (no number structure involved) ---- *)
(* reversal of the n low bits: index of the same basis state in the other bit order *)
Fixpoint brev (n : nat) (i : N) : N :=
  match n with
  | O => 0%N
  | Datatypes.S k => N.lor (N.shiftl (N.b2n (N.testbit i 0)) (N.of_nat k)) (brev k (N.div2 i))
  end.

(* all outcome strings of length k, "0..0" first, first measurement = first element *)
Fixpoint strings (k : nat) : list (list bool) :=
  match k with
  | O => [[]]
  | Datatypes.S k' => map (cons false) (strings k') ++ map (cons true) (strings k')
  end.

Section Measure.
  Variable S : KS.
  Open Scope K_scope.
  Notation K := (K S).
  Notation state := (state S).

  (* ---- projector onto "qubit q has value b" ---- *)
  Definition proj (q : N) (b : bool) (psi : state) : state :=
    fun x => if Bool.eqb (bit x q) b then psi x else 0.

  Definition szero : state := fun _ => 0.

  (* ---- squared norm over an n-qubit register, probability of an outcome ---- *)
  Definition norm2 (n : nat) (psi : state) : K := inner S n psi psi.
  Definition prob (n : nat) (q : N) (b : bool) (psi : state) : K := norm2 n (proj q b psi).

  (* Born distribution: weight of basis state x *)
  Definition born (psi : state) (x : N) : K := kconj (psi x) * psi x.

  (* sum of f over a list *)
  Definition lsum {X : Type} (f : X -> K) (l : list X) : K := fold_right (fun x acc => f x + acc) 0 l.

  (* ---- a fixed sequence of (piece, measured qubit) ---- *)
  Definition mstep : Type := ((state -> state) * N)%type.
  Definition branch1 (st : mstep) (b : bool) (psi : state) : state := proj (snd st) b (fst st psi).
  (* P_{b_k} U_k ... P_{b_1} U_1 psi ; stops at the shorter of the two lists *)
  Fixpoint branch (steps : list mstep) (bs : list bool) (psi : state) : state :=
    match steps, bs with
    | st :: r, b :: bs' => branch r bs' (branch1 st b psi)
    | _, _ => psi
    end.

  (* ---- adaptive programs: what follows a measurement depends on its outcome ---- *)
  Inductive mtree : Type :=
  | MLeaf (U : state -> state)
  | MNode (U : state -> state) (q : N) (t0 t1 : mtree).

  (* sum over all leaves (complete outcome strings) of the squared norm of the branch vector *)
  Fixpoint tree_sum (n : nat) (t : mtree) (psi : state) : K :=
    match t with
    | MLeaf U => norm2 n (U psi)
    | MNode U q t0 t1 => tree_sum n t0 (proj q false (U psi)) + tree_sum n t1 (proj q true (U psi))
    end.

  (* the branch vector of an outcome string in a tree (None: the string does not name a leaf) *)
  Fixpoint tree_branch (t : mtree) (bs : list bool) (psi : state) : option state :=
    match t, bs with
    | MLeaf U, [] => Some (U psi)
    | MNode U q t0 t1, b :: r => tree_branch (if b then t1 else t0) r (proj q b (U psi))
    | _, _ => None
    end.

  (* diagonal of the final mixed state: sum over leaves of |branch vector (x)|^2 *)
  Fixpoint tree_diag (t : mtree) (psi : state) (x : N) : K :=
    match t with
    | MLeaf U => born (U psi) x
    | MNode U q t0 t1 => tree_diag t0 (proj q false (U psi)) x + tree_diag t1 (proj q true (U psi)) x
    end.

  (* ---- mixed states as ensembles of unnormalised vectors; unrecorded measurement ---- *)
  Definition ensemble : Type := list state.
  Definition ens_apply (U : state -> state) (e : ensemble) : ensemble := map U e.
  Definition ens_measure (q : N) (e : ensemble) : ensemble :=
    flat_map (fun psi => [proj q false psi; proj q true psi]) e.
  Definition ens_diag (e : ensemble) (x : N) : K := lsum (fun psi => born psi x) e.
  Definition ens_rho (e : ensemble) (x y : N) : K := lsum (fun psi => psi x * kconj (psi y)) e.

  (* ---- tabulated forms, for execution ---- *)
  Definition proj_tab (n : nat) (q : N) (b : bool) (l : list K) : list K := tab S n (proj q b (untab S l)).
  Definition norm2_tab (l : list K) : K := fold_left (fun acc a => acc + kconj a * a) l 0.
End Measure.

Arguments MLeaf {_}. Arguments MNode {_}.
