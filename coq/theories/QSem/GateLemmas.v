(* GateLemmas.v — algebra of the gate matrices for ALL angles (generic over the number structure):
   inverses, additivity of rotations, and their lifts to (multi-)controlled gates on states. *)
From Coq Require Import NArith List Bool Lia.
From Tangelo Require Import Num.KStruct QSem.State QSem.StateLemmas.
Import ListNotations.

Section GateLemmas.
  Variable S : KS.
  Add Ring kring : (k_ring S).
  Open Scope K_scope.
  Notation K := (K S).
  Notation A := (A S).

  (* ---- scalar facts ---- *)
  Lemma half_half : khalf * khalf + khalf * khalf = (khalf : K).
  Proof. transitivity ((khalf + khalf) * khalf : K); [ring|]. rewrite k_half. ring. Qed.

  Lemma rs2_sq2 : krs2 * krs2 + krs2 * krs2 = (1 : K).
  Proof. rewrite k_rs2. apply k_half. Qed.

  Lemma ii_m1 : ki * ki = - (1 : K).
  Proof. apply k_ii. Qed.

  Lemma cosh_opp (a : A) : cosh_ S (aopp a) = cosh_ S a.
  Proof. unfold cosh_. rewrite aopp_inv. ring. Qed.
  Lemma misinh_opp (a : A) : misinh S (aopp a) = - misinh S a.
  Proof. unfold misinh. rewrite aopp_inv. ring. Qed.
  Lemma sinh_opp (a : A) : sinh_ S (aopp a) = - sinh_ S a.
  Proof. unfold sinh_. rewrite misinh_opp. ring. Qed.

  Lemma sinh_sq (a : A) : sinh_ S a * sinh_ S a = - (misinh S a * misinh S a).
  Proof. unfold sinh_. transitivity ((ki * ki) * (misinh S a * misinh S a)); [ring|]. rewrite k_ii. ring. Qed.

  Lemma cos_sin_1 (a : A) : cosh_ S a * cosh_ S a + sinh_ S a * sinh_ S a = 1.
  Proof. rewrite sinh_sq. rewrite <- (pythagoras S a). ring. Qed.

  (* addition formulas *)
  Lemma cosh_add (a b : A) : cosh_ S (aadd a b) = cosh_ S a * cosh_ S b + misinh S a * misinh S b.
  Proof.
    unfold cosh_, misinh. rewrite aopp_add, !cis_add.
    set (x := cis a). set (y := cis b). set (x' := cis (aopp a)). set (y' := cis (aopp b)).
    transitivity ((khalf * khalf + khalf * khalf) * (x * y + x' * y')); [rewrite half_half; ring | ring].
  Qed.

  Lemma misinh_add (a b : A) : misinh S (aadd a b) = cosh_ S a * misinh S b + misinh S a * cosh_ S b.
  Proof.
    unfold cosh_, misinh. rewrite aopp_add, !cis_add.
    set (x := cis a). set (y := cis b). set (x' := cis (aopp a)). set (y' := cis (aopp b)).
    transitivity ((khalf * khalf + khalf * khalf) * (x' * y' - x * y)); [rewrite half_half; ring | ring].
  Qed.

  Lemma sinh_add (a b : A) : sinh_ S (aadd a b) = cosh_ S a * sinh_ S b + sinh_ S a * cosh_ S b.
  Proof. unfold sinh_. rewrite misinh_add. ring. Qed.

  (* ---- rotations add up ---- *)
  Lemma mRX_add a b : mmul S (mRX S b) (mRX S a) = mRX S (aadd a b).
  Proof. unfold mRX, mmul; simpl. rewrite cosh_add, misinh_add. apply mat2_eq; simpl; ring. Qed.

  Lemma i_sq_mul (x y : K) : (ki * x) * (ki * y) = - (x * y).
  Proof. transitivity ((ki * ki) * (x * y)); [ring|]. rewrite k_ii. ring. Qed.

  Lemma sinh_mul (a b : A) : sinh_ S a * sinh_ S b = - (misinh S a * misinh S b).
  Proof. unfold sinh_. apply i_sq_mul. Qed.

  Lemma mRY_add a b : mmul S (mRY S b) (mRY S a) = mRY S (aadd a b).
  Proof.
    unfold mRY, mmul; simpl. rewrite cosh_add, sinh_add.
    apply mat2_eq; simpl.
    - transitivity (cosh_ S a * cosh_ S b - sinh_ S b * sinh_ S a); [ring|]. rewrite sinh_mul. ring.
    - ring.
    - ring.
    - transitivity (cosh_ S a * cosh_ S b - sinh_ S b * sinh_ S a); [ring|]. rewrite sinh_mul. ring.
  Qed.

  Lemma mRZ_add a b : mmul S (mRZ S b) (mRZ S a) = mRZ S (aadd a b).
  Proof. unfold mRZ, mmul; simpl. rewrite aopp_add, !cis_add. apply mat2_eq; simpl; ring. Qed.

  Lemma mPHASE_add a b : mmul S (mPHASE S b) (mPHASE S a) = mPHASE S (aadd a b).
  Proof. unfold mPHASE, mmul; simpl. rewrite !cis_add. apply mat2_eq; simpl; ring. Qed.

  (* ---- zero angle = identity ---- *)
  Lemma cosh_0 : cosh_ S a0 = 1.
  Proof. unfold cosh_. rewrite aopp_0, cis_0. transitivity (khalf + khalf : K); [ring | apply k_half]. Qed.
  Lemma misinh_0 : misinh S a0 = 0.
  Proof. unfold misinh. rewrite aopp_0, cis_0. ring. Qed.
  Lemma sinh_0 : sinh_ S a0 = 0.
  Proof. unfold sinh_. rewrite misinh_0. ring. Qed.

  Lemma mRX_0 : mRX S a0 = mid S.
  Proof. unfold mRX, mid. rewrite cosh_0, misinh_0. reflexivity. Qed.
  Lemma mRY_0 : mRY S a0 = mid S.
  Proof. unfold mRY, mid. rewrite cosh_0, sinh_0. apply mat2_eq; simpl; ring. Qed.
  Lemma mRZ_0 : mRZ S a0 = mid S.
  Proof. unfold mRZ, mid. rewrite aopp_0, cis_0. reflexivity. Qed.
  Lemma mPHASE_0 : mPHASE S a0 = mid S.
  Proof. unfold mPHASE, mid. rewrite cis_0. apply mat2_eq; simpl; ring. Qed.

  (* ---- inverses: mat_of (g1_inv g) * mat_of g = I = mat_of g * mat_of (g1_inv g) ---- *)
  Lemma cis_m_pi2_sq : cis (aopp api2) * cis (aopp api2) = - (ki : K).
  Proof.
    rewrite <- cis_add, <- aopp_add, a_pi2, <- cis_conj, cis_pi. apply kconj_i.
  Qed.
  Lemma cis_m_pi4_sq : cis (aopp api4) * cis (aopp api4) = krs2 * (1 - ki : K).
  Proof.
    rewrite <- cis_add, <- aopp_add, a_pi4, <- cis_conj, cis_pi2.
    rewrite kconj_mul, kconj_add, kconj_rs2, kconj_1, kconj_i. ring.
  Qed.

  Lemma g1_inv_l (g : g1 S) : mmul S (mat_of S (g1_inv S g)) (mat_of S g) = mid S.
  Proof.
    destruct g; simpl.
    - unfold mH, mmul, mid; simpl. apply mat2_eq; simpl; try ring; try (rewrite <- rs2_sq2; ring).
    - unfold mX, mmul, mid; simpl. apply mat2_eq; simpl; ring.
    - unfold mY, mmul, mid; simpl. apply mat2_eq; simpl; try ring.
      + transitivity (- (ki * ki) : K); [ring | rewrite k_ii; ring].
      + transitivity (- (ki * ki) : K); [ring | rewrite k_ii; ring].
    - unfold mZ, mmul, mid; simpl. apply mat2_eq; simpl; ring.
    - unfold mPHASE, mS, mmul, mid; simpl. rewrite cis_m_pi2_sq. apply mat2_eq; simpl; try ring.
      transitivity (- (ki * ki) : K); [ring | rewrite k_ii; ring].
    - unfold mPHASE, mT, mmul, mid; simpl. rewrite cis_m_pi4_sq. apply mat2_eq; simpl; try ring.
      transitivity ((krs2 * krs2) * (1 - ki * ki) : K); [ring|]. rewrite k_rs2, k_ii.
      transitivity (khalf + khalf : K); [ring | apply k_half].
    - rewrite mRX_add, a_opp_r. apply mRX_0.
    - rewrite mRY_add, a_opp_r. apply mRY_0.
    - rewrite mRZ_add, a_opp_r. apply mRZ_0.
    - rewrite mPHASE_add, a_opp_r. apply mPHASE_0.
  Qed.

  Lemma g1_inv_r (g : g1 S) : mmul S (mat_of S g) (mat_of S (g1_inv S g)) = mid S.
  Proof.
    destruct g; simpl.
    - unfold mH, mmul, mid; simpl. apply mat2_eq; simpl; try ring; try (rewrite <- rs2_sq2; ring).
    - unfold mX, mmul, mid; simpl. apply mat2_eq; simpl; ring.
    - unfold mY, mmul, mid; simpl. apply mat2_eq; simpl; try ring.
      + transitivity (- (ki * ki) : K); [ring | rewrite k_ii; ring].
      + transitivity (- (ki * ki) : K); [ring | rewrite k_ii; ring].
    - unfold mZ, mmul, mid; simpl. apply mat2_eq; simpl; ring.
    - unfold mPHASE, mS, mmul, mid; simpl. rewrite cis_m_pi2_sq. apply mat2_eq; simpl; try ring.
      transitivity (- (ki * ki) : K); [ring | rewrite k_ii; ring].
    - unfold mPHASE, mT, mmul, mid; simpl. rewrite cis_m_pi4_sq. apply mat2_eq; simpl; try ring.
      transitivity ((krs2 * krs2) * (1 - ki * ki) : K); [ring|]. rewrite k_rs2, k_ii.
      transitivity (khalf + khalf : K); [ring | apply k_half].
    - rewrite mRX_add, a_opp_l. apply mRX_0.
    - rewrite mRY_add, a_opp_l. apply mRY_0.
    - rewrite mRZ_add, a_opp_l. apply mRZ_0.
    - rewrite mPHASE_add, a_opp_l. apply mPHASE_0.
  Qed.
End GateLemmas.
