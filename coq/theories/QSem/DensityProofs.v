(* DensityProofs.v — facts about the mixed-state semantics of Density.v, for every number structure:
   conjugation of a pure state, closed forms of the Pauli conjugations, the asymmetric depolarising
   channel (identity at zero rates, trace preserving), cirq's k-qubit depolarising channel with
   Tangelo's rate p(4^k-1)/4^k = (1-p) rho + p * twirl (every k), zero noise = noiseless.
   No axiom is used: equalities of density matrices are stated entrywise. *)
From Coq Require Import Arith NArith List Bool Lia Permutation.
From Tangelo Require Import Num.KStruct QSem.State QSem.StateLemmas QSem.Density.
Import ListNotations.

(* ---------- index facts (before the section: no section variable dragged in) ---------- *)
Lemma N_lt_pow2_bits (x : N) (n : N) : (x < 2 ^ n)%N <-> (forall m, (n <= m)%N -> N.testbit x m = false).
Proof.
  split.
  - intros H m Hm. destruct (N.eq_dec x 0) as [->|Hx]; [apply N.bits_0|].
    apply N.bits_above_log2. apply N.log2_lt_pow2 in H; [lia|lia].
  - intro H. destruct (N.eq_dec x 0) as [->|Hx].
    + apply N.neq_0_lt_0. apply N.pow_nonzero. lia.
    + apply N.log2_lt_pow2; [lia|].
      destruct (N.lt_ge_cases (N.log2 x) n) as [Hl|Hl]; [exact Hl|].
      specialize (H _ Hl). rewrite N.bit_log2 in H by exact Hx. discriminate.
Qed.

Lemma flip_lt_pow2 (x q n : N) : (x < 2 ^ n)%N -> (q < n)%N -> (flip x q < 2 ^ n)%N.
Proof.
  intros Hx Hq. apply N_lt_pow2_bits. intros m Hm.
  unfold flip. rewrite N.lxor_spec, testbit_pow2.
  rewrite (proj1 (N_lt_pow2_bits x n) Hx m Hm).
  destruct (N.eqb_spec q m); [lia|reflexivity].
Qed.

Lemma flip_inj' (x y q : N) : flip x q = flip y q -> x = y.
Proof. intro H. rewrite <- (flip_flip x q), H. apply flip_flip. Qed.

Lemma indices_spec (n : nat) (x : N) : In x (indices n) <-> (x < 2 ^ N.of_nat n)%N.
Proof.
  unfold indices. rewrite in_map_iff. split.
  - intros [i [<- Hi]]. apply in_seq in Hi.
    assert (H : N.of_nat (2 ^ n)%nat = (2 ^ N.of_nat n)%N) by apply Nat2N.inj_pow.
    rewrite <- H. lia.
  - intro H. exists (N.to_nat x). split; [apply N2Nat.id|]. apply in_seq.
    assert (H' : N.of_nat (2 ^ n)%nat = (2 ^ N.of_nat n)%N) by apply Nat2N.inj_pow.
    lia.
Qed.

Lemma indices_nodup (n : nat) : NoDup (indices n).
Proof.
  unfold indices. apply FinFun.Injective_map_NoDup; [|apply seq_NoDup].
  intros a b. apply Nat2N.inj.
Qed.

Lemma indices_flip_perm (n : nat) (q : N) :
  (q < N.of_nat n)%N -> Permutation (map (fun x => flip x q) (indices n)) (indices n).
Proof.
  intro Hq. apply NoDup_Permutation.
  - apply FinFun.Injective_map_NoDup; [|apply indices_nodup]. intros a b. apply flip_inj'.
  - apply indices_nodup.
  - intro x. rewrite in_map_iff. split.
    + intros [y [<- Hy]]. apply indices_spec. apply flip_lt_pow2; [|exact Hq]. apply indices_spec. exact Hy.
    + intro Hx. exists (flip x q). split; [apply flip_flip|].
      apply indices_spec. apply flip_lt_pow2; [|exact Hq]. apply indices_spec. exact Hx.
Qed.

Section DensityProofs.
  Variable S : KS.
  Add Ring kring : (k_ring S).
  Open Scope K_scope.
  Notation K := (K S).
  Notation state := (state S).
  Notation dens := (dens S).
  Notation deq := (deq S).
  Notation pure := (pure S).
  Notation dconj := (dconj S).
  Notation pconj := (pconj S).

  (* ---------------- extensionality / homogeneity of the gate denotations ---------------- *)
  Lemma app1_ext u q : op_ext S (app1 S u q).
  Proof. intros psi phi H x. unfold app1. rewrite !H. reflexivity. Qed.

  Lemma app1_homog u q : op_homog S (app1 S u q).
  Proof. intros k psi x. unfold app1. destruct (bit x q); ring. Qed.

  Lemma den_base_ext b : op_ext S (den_base S b).
  Proof.
    intros psi phi H x. destruct b as [g q|q1 q2|a q1 q2]; simpl.
    - apply app1_ext. exact H.
    - unfold app_swap. apply H.
    - unfold app_xx. rewrite !H. reflexivity.
  Qed.

  Lemma den_base_homog b : op_homog S (den_base S b).
  Proof.
    intros k psi x. destruct b as [g q|q1 q2|a q1 q2]; simpl.
    - apply app1_homog.
    - reflexivity.
    - unfold app_xx. ring.
  Qed.

  Lemma den_gate_ext g : op_ext S (den_gate S g).
  Proof.
    intros psi phi H x. unfold den_gate, ctrl. destruct (allset x (gctrl g)); [|apply H].
    apply den_base_ext. exact H.
  Qed.

  Lemma den_gate_homog g : op_homog S (den_gate S g).
  Proof.
    intros k psi x. unfold den_gate, ctrl. destruct (allset x (gctrl g)); [|reflexivity].
    apply den_base_homog.
  Qed.

  Lemma den_ext (c : circuit S) : op_ext S (den S c).
  Proof.
    induction c as [|g r IH]; intros psi phi H x; [apply H|].
    simpl. apply IH. intro y. apply den_gate_ext. exact H.
  Qed.

  (* ---------------- conjugation ---------------- *)
  Lemma dconj_ext f rho sigma : op_ext S f -> deq rho sigma -> deq (dconj f rho) (dconj f sigma).
  Proof.
    intros Hf H r c. unfold Density.dconj, rmul, lmul. f_equal. apply Hf. intro y.
    f_equal. apply Hf. intro z. apply H.
  Qed.

  (* U |psi><psi| U^dagger = |U psi><U psi| *)
  Lemma dconj_pure f psi : op_ext S f -> op_homog S f -> deq (dconj f (pure psi)) (pure (f psi)).
  Proof.
    intros He Hh r c. unfold Density.dconj, rmul, lmul, Density.pure.
    transitivity (kconj (f (fun c' => kconj (f psi r) * psi c') c)).
    - f_equal. apply He. intro y.
      transitivity (kconj (kconj (psi y) * f psi r)).
      + f_equal. rewrite <- Hh. apply He. intro z. ring.
      + rewrite kconj_mul, kconj_inv. ring.
    - rewrite Hh, kconj_mul, kconj_inv. reflexivity.
  Qed.

  (* ---------------- closed forms of the Pauli conjugations ---------------- *)
  Lemma pconj_closed_ok l q rho : deq (pconj l q rho) (pconj_closed S l q rho).
  Proof.
    intros r c. pose proof (@k_ii S) as Hii.
    unfold Density.pconj, Density.dconj, rmul, lmul, app1, pconj_closed, sg.
    destruct l; simpl; destruct (bit r q), (bit c q); simpl;
      rewrite ?kconj_add, ?kconj_mul, ?kconj_opp, ?kconj_inv, ?kconj_0, ?kconj_1, ?kconj_i,
              ?kconj_add, ?kconj_mul, ?kconj_opp, ?kconj_inv, ?kconj_0, ?kconj_1, ?kconj_i;
      ring [Hii].
  Qed.

  Lemma sg_diag x q : sg S x x q = 1.
  Proof. unfold sg. rewrite eqb_reflx. reflexivity. Qed.

  Lemma sg_flip r c q : sg S (flip r q) (flip c q) q = sg S r c q.
  Proof. unfold sg. rewrite !bit_flip_same. destruct (bit r q), (bit c q); reflexivity. Qed.

  Lemma sg_sq r c q : sg S r c q * sg S r c q = 1.
  Proof. unfold sg. destruct (Bool.eqb _ _); ring. Qed.

  Lemma pconj_ext l q rho sigma : deq rho sigma -> deq (pconj l q rho) (pconj l q sigma).
  Proof. intro H. apply dconj_ext; [apply app1_ext | exact H]. Qed.

  Lemma pconj_add l q rho sigma r c :
    pconj l q (dadd S rho sigma) r c = pconj l q rho r c + pconj l q sigma r c.
  Proof. rewrite !pconj_closed_ok. unfold pconj_closed, dadd. destruct l; ring. Qed.

  Lemma pconj_scale l q k rho r c : pconj l q (dscale S k rho) r c = k * pconj l q rho r c.
  Proof. rewrite !pconj_closed_ok. unfold pconj_closed, dscale. destruct l; ring. Qed.

  Lemma pconj_zero l q r c : pconj l q (dzero S) r c = 0.
  Proof. rewrite pconj_closed_ok. unfold pconj_closed, dzero. destruct l; ring. Qed.

  (* every Pauli conjugation is an involution (the Kraus operators are unitary and Hermitian) *)
  Lemma pconj_invol l q rho : deq (pconj l q (pconj l q rho)) rho.
  Proof.
    intros r c. rewrite pconj_closed_ok. unfold pconj_closed at 1.
    destruct l; rewrite ?pconj_closed_ok; unfold pconj_closed; rewrite ?flip_flip, ?sg_flip.
    - reflexivity.
    - reflexivity.
    - transitivity ((sg S r c q * sg S r c q) * rho r c); [ring|]. rewrite sg_sq. ring.
    - transitivity ((sg S r c q * sg S r c q) * rho r c); [ring|]. rewrite sg_sq. ring.
  Qed.

  (* ---------------- sums ---------------- *)
  Lemma dsum_app l1 l2 r c : dsum S (l1 ++ l2) r c = dsum S l1 r c + dsum S l2 r c.
  Proof. induction l1 as [|d l IH]; simpl; unfold dadd, dzero; [ring|]. rewrite IH. ring. Qed.

  Lemma ksuml_app l1 l2 : ksuml S (l1 ++ l2) = ksuml S l1 + ksuml S l2.
  Proof. induction l1 as [|d l IH]; simpl; [ring|]. rewrite IH. ring. Qed.

  Lemma ksuml_scale {X} (b : K) (t : X -> K) l : ksuml S (map (fun x => b * t x) l) = b * ksuml S (map t l).
  Proof. induction l as [|x l IH]; simpl; [ring|]. rewrite IH. ring. Qed.

  Lemma ksuml_ext {X} (f g : X -> K) l : (forall x, f x = g x) -> ksuml S (map f l) = ksuml S (map g l).
  Proof. intro H. induction l as [|x l IH]; simpl; [reflexivity|]. rewrite H, IH. reflexivity. Qed.

  Lemma ksuml_add {X} (f g : X -> K) l :
    ksuml S (map (fun x => f x + g x) l) = ksuml S (map f l) + ksuml S (map g l).
  Proof. induction l as [|x l IH]; simpl; [ring|]. rewrite IH. ring. Qed.

  Lemma ksuml_perm l1 l2 : Permutation l1 l2 -> ksuml S l1 = ksuml S l2.
  Proof.
    induction 1 as [|x l l' _ IH|x y l|l l' l'' _ IH1 _ IH2]; simpl.
    - reflexivity.
    - rewrite IH. reflexivity.
    - ring.
    - rewrite IH1. exact IH2.
  Qed.

  Lemma dsum_ksuml {X} (w : X -> K) (D : X -> dens) l r c :
    dsum S (map (fun x => dscale S (w x) (D x)) l) r c = ksuml S (map (fun x => w x * D x r c) l).
  Proof. induction l as [|x l IH]; simpl; [reflexivity|]. unfold dadd at 1. rewrite IH. reflexivity. Qed.

  Lemma dsum_ksuml1 {X} (D : X -> dens) l r c :
    dsum S (map D l) r c = ksuml S (map (fun x => D x r c) l).
  Proof. induction l as [|x l IH]; simpl; [reflexivity|]. unfold dadd at 1. rewrite IH. reflexivity. Qed.

  Lemma pconj_dsum {X} l_ q (F : X -> dens) L r c :
    pconj l_ q (dsum S (map F L)) r c = dsum S (map (fun x => pconj l_ q (F x)) L) r c.
  Proof.
    revert r c. induction L as [|x L IH]; intros r c; simpl.
    - apply pconj_zero.
    - rewrite pconj_add. unfold dadd. rewrite IH. reflexivity.
  Qed.

  (* ---------------- the asymmetric depolarising channel ---------------- *)
  Lemma pauli_chan_closed_ok px py pz q rho :
    deq (pauli_chan S px py pz q rho) (pauli_chan_closed S px py pz q rho).
  Proof.
    intros r c. unfold pauli_chan, mix. cbn [map fst snd dsum]. unfold dadd, dscale, dzero.
    fold (pconj LI q rho). fold (pconj LX q rho). fold (pconj LY q rho). fold (pconj LZ q rho).
    rewrite !pconj_closed_ok. unfold pconj_closed, pauli_chan_closed. ring.
  Qed.

  (* the weights of the four Kraus terms add up to one *)
  Lemma pauli_chan_weights (px py pz : K) : (1 - px - py - pz) + px + py + pz = 1.
  Proof. ring. Qed.

  (* all rates zero: the channel is the identity *)
  Lemma pauli_chan_zero q rho : deq (pauli_chan S 0 0 0 q rho) rho.
  Proof. intros r c. rewrite pauli_chan_closed_ok. unfold pauli_chan_closed. ring. Qed.

  (* trace preservation, entrywise: the two diagonal entries of a pair {x, x xor 2^q} keep their sum *)
  Lemma pauli_chan_trace_pair px py pz q rho x :
    pauli_chan S px py pz q rho x x + pauli_chan S px py pz q rho (flip x q) (flip x q)
    = rho x x + rho (flip x q) (flip x q).
  Proof.
    rewrite !pauli_chan_closed_ok. unfold pauli_chan_closed. rewrite !sg_diag, !flip_flip. ring.
  Qed.

  Lemma trace_flip n q (rho : dens) :
    (q < N.of_nat n)%N ->
    ksuml S (map (fun x => rho (flip x q) (flip x q)) (indices n)) = dtrace S n rho.
  Proof.
    intro Hq. unfold dtrace.
    rewrite <- (map_map (fun x => flip x q) (fun y => rho y y)).
    apply ksuml_perm. apply Permutation_map. apply indices_flip_perm. exact Hq.
  Qed.

  (* trace preservation on an n-qubit register *)
  Lemma pauli_chan_trace n px py pz q rho :
    (q < N.of_nat n)%N -> dtrace S n (pauli_chan S px py pz q rho) = dtrace S n rho.
  Proof.
    intro Hq. unfold dtrace at 1.
    rewrite (ksuml_ext _ (fun x => (1 - px - py) * rho x x + (px + py) * rho (flip x q) (flip x q))).
    - rewrite ksuml_add, !ksuml_scale, (trace_flip n q rho Hq). fold (dtrace S n rho).
      unfold dtrace. ring.
    - intro x. rewrite pauli_chan_closed_ok. unfold pauli_chan_closed. rewrite sg_diag. ring.
  Qed.

  (* ---------------- Pauli strings ---------------- *)
  Lemma apply_str_ext ls qs rho sigma : deq rho sigma -> deq (apply_str S ls qs rho) (apply_str S ls qs sigma).
  Proof.
    revert qs. induction ls as [|l ls IH]; intros qs H; [exact H|].
    destruct qs as [|q qs]; [exact H|]. simpl. apply pconj_ext. apply IH. exact H.
  Qed.

  Lemma apply_str_id qs rho : deq (apply_str S (repeat LI (length qs)) qs rho) rho.
  Proof.
    induction qs as [|q qs IH]; intros r c; [reflexivity|].
    simpl. rewrite pconj_closed_ok. unfold pconj_closed. apply IH.
  Qed.

  Lemma all_I_repeat k : all_I (repeat LI k) = true.
  Proof. induction k; simpl; auto. Qed.

  Lemma sum4_ext q rho sigma : deq rho sigma -> deq (sum4 S q rho) (sum4 S q sigma).
  Proof.
    intros H r c. unfold sum4, dadd.
    rewrite (pconj_ext LI q _ _ H), (pconj_ext LX q _ _ H), (pconj_ext LY q _ _ H), (pconj_ext LZ q _ _ H).
    reflexivity.
  Qed.

  Lemma sum4_scale q k rho r c : sum4 S q (dscale S k rho) r c = k * sum4 S q rho r c.
  Proof. unfold sum4, dadd. rewrite !pconj_scale. ring. Qed.

  (* the sum over ALL 4^k strings is the qubit-by-qubit sum *)
  Lemma sum_strings qs rho :
    deq (dsum S (map (fun ls => apply_str S ls qs rho) (strings (length qs)))) (sumall S qs rho).
  Proof.
    induction qs as [|q qs IH]; intros r c.
    - simpl. unfold dadd, dzero. ring.
    - simpl length. simpl strings. rewrite !app_nil_r, !map_app, !dsum_app, !map_map. simpl.
      rewrite <- !(pconj_dsum _ q (fun ls => apply_str S ls qs rho)).
      unfold sum4, dadd.
      rewrite (pconj_ext LI q _ _ IH), (pconj_ext LX q _ _ IH), (pconj_ext LY q _ _ IH), (pconj_ext LZ q _ _ IH).
      ring.
  Qed.

  (* a weight vector that is a on the identity string and b elsewhere *)
  Lemma weighted_strings k : forall (t : list letter -> K) a b,
    ksuml S (map (fun ls => cirq_weights S a b ls * t ls) (strings k))
    = (a - b) * t (repeat LI k) + b * ksuml S (map t (strings k)).
  Proof.
    induction k as [|k IH]; intros t a b.
    - simpl. unfold cirq_weights. simpl. ring.
    - simpl strings. rewrite !app_nil_r, !map_app, !ksuml_app, !map_map.
      rewrite (ksuml_ext (fun x => cirq_weights S a b (LI :: x) * t (LI :: x))
                         (fun x => cirq_weights S a b x * t (LI :: x))) by (intro; reflexivity).
      rewrite (IH (fun ls => t (LI :: ls)) a b).
      rewrite (ksuml_ext (fun x => cirq_weights S a b (LX :: x) * t (LX :: x)) (fun x => b * t (LX :: x)))
        by (intro; reflexivity).
      rewrite (ksuml_ext (fun x => cirq_weights S a b (LY :: x) * t (LY :: x)) (fun x => b * t (LY :: x)))
        by (intro; reflexivity).
      rewrite (ksuml_ext (fun x => cirq_weights S a b (LZ :: x) * t (LZ :: x)) (fun x => b * t (LZ :: x)))
        by (intro; reflexivity).
      rewrite !ksuml_scale. simpl repeat. ring.
  Qed.

  Lemma count_strings k : ksuml S (map (fun _ => 1) (strings k)) = kpow S (four S) k.
  Proof.
    induction k as [|k IH]; [simpl; ring|].
    simpl strings. rewrite !app_nil_r, !map_app, !ksuml_app, !map_map. rewrite IH. simpl. unfold four. ring.
  Qed.

  Lemma four_quarter : four S * quarter S = 1.
  Proof.
    unfold four, quarter. transitivity ((khalf + khalf) * (khalf + khalf) : K); [ring|].
    rewrite k_half. ring.
  Qed.

  Lemma four_quarter_pow k : kpow S (four S) k * kpow S (quarter S) k = 1.
  Proof.
    induction k as [|k IH]; simpl; [ring|].
    transitivity ((four S * quarter S) * (kpow S (four S) k * kpow S (quarter S) k)); [ring|].
    rewrite four_quarter, IH. ring.
  Qed.

  (* ---- weights of cirq.depolarize(p', k) for Tangelo's p' = p (4^k - 1)/4^k ---- *)
  (* the 4^k - 1 non-identity strings share p' equally: (4^k - 1) * (p/4^k) = p' *)
  Lemma tangelo_rate_split p k : (kpow S (four S) k - 1) * each_weight S p k = tangelo_rate S p k.
  Proof. unfold each_weight, tangelo_rate. ring. Qed.

  (* the identity string has weight 1 - p' = 1 - p + p/4^k *)
  Lemma tangelo_identity_weight p k : 1 - tangelo_rate S p k = 1 - p + each_weight S p k.
  Proof.
    unfold each_weight, tangelo_rate.
    transitivity (1 - p * (kpow S (four S) k * kpow S (quarter S) k) + p * kpow S (quarter S) k); [ring|].
    rewrite four_quarter_pow. ring.
  Qed.

  (* the weights form a probability vector *)
  Lemma depol_weights_total p k :
    ksuml S (map (cirq_weights S (1 - tangelo_rate S p k) (each_weight S p k)) (strings k)) = 1.
  Proof.
    rewrite (ksuml_ext _ (fun ls => cirq_weights S (1 - tangelo_rate S p k) (each_weight S p k) ls * 1))
      by (intro; ring).
    rewrite weighted_strings, count_strings, tangelo_identity_weight.
    unfold each_weight.
    transitivity (1 - p + p * (kpow S (four S) k * kpow S (quarter S) k)); [ring|].
    rewrite four_quarter_pow. ring.
  Qed.

  Lemma twirl_sumall qs rho r c :
    twirl S qs rho r c = kpow S (quarter S) (length qs) * sumall S qs rho r c.
  Proof.
    revert r c. induction qs as [|q qs IH]; intros r c; simpl; [ring|].
    unfold tw1, dscale.
    rewrite (sum4_ext q _ (dscale S (kpow S (quarter S) (length qs)) (sumall S qs rho))) by (intros r' c'; apply IH).
    rewrite sum4_scale. ring.
  Qed.

  Lemma twirl_ext qs rho sigma : deq rho sigma -> deq (twirl S qs rho) (twirl S qs sigma).
  Proof.
    intro H. induction qs as [|q qs IH]; [exact H|].
    intros r c. simpl. unfold tw1, dscale. rewrite (sum4_ext q _ _ IH). reflexivity.
  Qed.

  (* MAIN: cirq.depolarize(p (4^k-1)/4^k, k) is rho |-> (1-p) rho + p * twirl(rho), for every k *)
  Theorem depol_tangelo_twirl p qs rho : deq (depol_tangelo S p qs rho) (depol_twirl S p qs rho).
  Proof.
    intros r c. unfold depol_tangelo, depol_cirq, pauli_mixture.
    rewrite dsum_ksuml.
    rewrite (weighted_strings (length qs) (fun ls => apply_str S ls qs rho r c)).
    rewrite <- (dsum_ksuml1 (fun ls => apply_str S ls qs rho)).
    rewrite sum_strings, apply_str_id.
    unfold depol_twirl, dadd, dscale. rewrite twirl_sumall.
    rewrite tangelo_identity_weight. unfold each_weight. ring.
  Qed.

  (* the twirl is  I/2 (x) tr_q  qubit by qubit *)
  Lemma tw1_ptrace q rho : deq (tw1 S q rho) (ptrace_mix S q rho).
  Proof.
    intros r c. unfold tw1, dscale, sum4, dadd. rewrite !pconj_closed_ok.
    unfold pconj_closed, ptrace_mix, sg, quarter.
    destruct (Bool.eqb (bit r q) (bit c q)).
    - transitivity ((khalf + khalf) * (khalf * (rho r c + rho (flip r q) (flip c q)))); [ring|].
      rewrite k_half. ring.
    - ring.
  Qed.

  Lemma ptrace_mix_ext q rho sigma : deq rho sigma -> deq (ptrace_mix S q rho) (ptrace_mix S q sigma).
  Proof. intros H r c. unfold ptrace_mix. rewrite !H. reflexivity. Qed.

  Lemma twirl_ptrace qs rho : deq (twirl S qs rho) (ptrace_mix_all S qs rho).
  Proof.
    induction qs as [|q qs IH]; [intros r c; reflexivity|].
    intros r c. simpl. rewrite tw1_ptrace. apply ptrace_mix_ext. exact IH.
  Qed.

  Lemma depol_zero qs rho : deq (depol_tangelo S 0 qs rho) rho.
  Proof. intros r c. rewrite depol_tangelo_twirl. unfold depol_twirl, dadd, dscale. ring. Qed.

  (* trace of the depolarising channel *)
  Lemma ptrace_mix_trace n q rho : (q < N.of_nat n)%N -> dtrace S n (ptrace_mix S q rho) = dtrace S n rho.
  Proof.
    intro Hq. unfold dtrace at 1.
    rewrite (ksuml_ext _ (fun x => khalf * rho x x + khalf * rho (flip x q) (flip x q))).
    - rewrite ksuml_add, !ksuml_scale, (trace_flip n q rho Hq). unfold dtrace.
      transitivity ((khalf + khalf) * ksuml S (map (fun x => rho x x) (indices n))); [ring|].
      rewrite k_half. ring.
    - intro x. unfold ptrace_mix. rewrite eqb_reflx. ring.
  Qed.

  Lemma dtrace_ext n rho sigma : deq rho sigma -> dtrace S n rho = dtrace S n sigma.
  Proof. intro H. unfold dtrace. apply ksuml_ext. intro x. apply H. Qed.

  Lemma depol_trace n p qs rho :
    Forall (fun q => (q < N.of_nat n)%N) qs -> dtrace S n (depol_tangelo S p qs rho) = dtrace S n rho.
  Proof.
    intro Hqs.
    rewrite (dtrace_ext n _ _ (depol_tangelo_twirl p qs rho)).
    assert (Ht : dtrace S n (twirl S qs rho) = dtrace S n rho).
    { induction Hqs as [|q qs Hq _ IH]; [reflexivity|].
      simpl. rewrite (dtrace_ext n _ _ (tw1_ptrace q (twirl S qs rho))).
      rewrite ptrace_mix_trace by exact Hq. exact IH. }
    unfold dtrace, depol_twirl, dadd, dscale.
    rewrite ksuml_add, !ksuml_scale. fold (dtrace S n rho). fold (dtrace S n (twirl S qs rho)).
    rewrite Ht. ring.
  Qed.

  (* ---------------- noisy programs ---------------- *)
  Lemma depol_twirl_ext p qs rho sigma : deq rho sigma -> deq (depol_twirl S p qs rho) (depol_twirl S p qs sigma).
  Proof. intros H r c. unfold depol_twirl, dadd, dscale. rewrite (twirl_ext qs _ _ H), H. reflexivity. Qed.

  Lemma den_nop_ext o rho sigma : deq rho sigma -> deq (den_nop S o rho) (den_nop S o sigma).
  Proof.
    intro H. destruct o as [g|px py pz q|p qs]; simpl.
    - apply dconj_ext; [apply den_gate_ext | exact H].
    - intros r c. rewrite !pauli_chan_closed_ok. unfold pauli_chan_closed. rewrite !H. reflexivity.
    - intros r c. rewrite !depol_tangelo_twirl. apply depol_twirl_ext. exact H.
  Qed.

  Lemma den_nops_ext ops : forall rho sigma, deq rho sigma -> deq (den_nops S ops rho) (den_nops S ops sigma).
  Proof.
    induction ops as [|o ops IH]; intros rho sigma H; [exact H|].
    simpl. apply IH. apply den_nop_ext. exact H.
  Qed.

  Lemma den_nops_app a b rho : den_nops S (a ++ b) rho = den_nops S b (den_nops S a rho).
  Proof. unfold den_nops. apply fold_left_app. Qed.

  (* the cheap forms used for execution denote the same *)
  Lemma den_nop_fast_ok o rho : deq (den_nop_fast S o rho) (den_nop S o rho).
  Proof.
    destruct o as [g|px py pz q|p qs]; simpl; intros r c.
    - reflexivity.
    - symmetry. apply pauli_chan_closed_ok.
    - rewrite depol_tangelo_twirl. unfold depol_twirl, dadd, dscale. rewrite twirl_ptrace. reflexivity.
  Qed.

  (* a noisy program whose rates are all zero maps |psi><psi| to |C psi><C psi|, C its gates *)
  Theorem zero_noise_noiseless ops : forall psi,
    Forall (nop_zero S) ops -> deq (den_nops S ops (pure psi)) (pure (den S (gates_of S ops) psi)).
  Proof.
    induction ops as [|o ops IH]; intros psi Hz; [intros r c; reflexivity|].
    inversion Hz as [|o' ops' Ho Hops]; subst.
    destruct o as [g|px py pz q|p qs]; simpl in *.
    - intros r c.
      rewrite (den_nops_ext ops _ (pure (den_gate S g psi))).
      + apply IH. exact Hops.
      + apply dconj_pure; [apply den_gate_ext | apply den_gate_homog].
    - destruct Ho as [-> [-> ->]]. intros r c.
      rewrite (den_nops_ext ops _ (pure psi)); [apply IH; exact Hops | apply pauli_chan_zero].
    - subst p. intros r c.
      rewrite (den_nops_ext ops _ (pure psi)); [apply IH; exact Hops | apply depol_zero].
  Qed.

  (* every noisy program preserves the trace contribution of its channels: channels on qubits < n *)
  Lemma den_nop_trace_channel n o rho :
    Forall (fun q => (q < N.of_nat n)%N) (nop_qubits S o) ->
    match o with NGate _ => True | _ => dtrace S n (den_nop S o rho) = dtrace S n rho end.
  Proof.
    intro H. destruct o as [g|px py pz q|p qs]; simpl in *; [exact I| |].
    - apply pauli_chan_trace. inversion H; assumption.
    - apply depol_trace. exact H.
  Qed.
End DensityProofs.
