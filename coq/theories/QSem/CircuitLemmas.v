(* CircuitLemmas.v — inverse of gates and circuits in the reference semantics, for all angles,
   any number of controls, any placement. *)
From Coq Require Import NArith List Bool Lia.
From Tangelo Require Import Num.KStruct QSem.State QSem.StateLemmas QSem.GateLemmas.
Import ListNotations.

Section CircuitLemmas.
  Variable S : KS.
  Add Ring kring : (k_ring S).
  Open Scope K_scope.
  Notation state := (state S).

  Definition base_inv (b : base S) : base S :=
    match b with
    | B1 g q => B1 (g1_inv S g) q
    | BSWAP q1 q2 => BSWAP q1 q2
    | BXX a q1 q2 => BXX (aopp a) q1 q2
    end.
  Definition gate_inv (g : gate S) : gate S := Gate (base_inv (gbase g)) (gctrl g).
  Definition circuit_inv (c : circuit S) : circuit S := map gate_inv (rev c).

  (* a gate is well formed when its controls are disjoint from the qubits of its base gate *)
  Definition gate_wf (g : gate S) : Prop := forall q, In q (base_qubits S (gbase g)) -> ~ In q (gctrl g).

  Lemma flip2_invol x q1 q2 : flip2 (flip2 x q1 q2) q1 q2 = x.
  Proof. unfold flip2. rewrite (flip_comm (flip x q1) q2 q1), (flip_flip x q1), flip_flip. reflexivity. Qed.

  Lemma swapq_invol q1 q2 x : swapq q1 q2 (swapq q1 q2 x) = x.
  Proof.
    unfold swapq. destruct (Bool.eqb (bit x q1) (bit x q2)) eqn:E.
    - rewrite E. reflexivity.
    - assert (Hne : q1 <> q2). { intro H. subst. rewrite eqb_reflx in E. discriminate. }
      assert (E' : Bool.eqb (bit (flip2 x q1 q2) q1) (bit (flip2 x q1 q2) q2) = false).
      { unfold flip2.
        rewrite (bit_flip_other _ q2 q1) by (intro H; apply Hne; symmetry; exact H).
        rewrite bit_flip_same, bit_flip_same, (bit_flip_other _ q1 q2) by assumption.
        destruct (bit x q1), (bit x q2); simpl in *; congruence. }
      rewrite E'. apply flip2_invol.
  Qed.

  Lemma den_base_inv_l b psi : den_base S (base_inv b) (den_base S b psi) = psi.
  Proof.
    destruct b as [g q|q1 q2|a q1 q2]; simpl.
    - rewrite app1_compose, g1_inv_l. apply app1_id.
    - apply state_ext. intro x. unfold app_swap. rewrite swapq_invol. reflexivity.
    - apply state_ext. intro x. unfold app_xx. rewrite flip2_invol, cosh_opp, misinh_opp.
      transitivity ((cosh_ S a * cosh_ S a - misinh S a * misinh S a) * psi x); [ring|].
      rewrite pythagoras. ring.
  Qed.

  Lemma base_inv_invol_den b psi : den_base S b (den_base S (base_inv b) psi) = psi.
  Proof.
    destruct b as [g q|q1 q2|a q1 q2]; simpl.
    - rewrite app1_compose, g1_inv_r. apply app1_id.
    - apply state_ext. intro x. unfold app_swap. rewrite swapq_invol. reflexivity.
    - apply state_ext. intro x. unfold app_xx. rewrite flip2_invol, cosh_opp, misinh_opp.
      transitivity ((cosh_ S a * cosh_ S a - misinh S a * misinh S a) * psi x); [ring|].
      rewrite pythagoras. ring.
  Qed.

  Lemma den_base_local cs b : (forall q, In q (base_qubits S b) -> ~ In q cs) -> local_off S cs (den_base S b).
  Proof.
    intro H. destruct b as [g q|q1 q2|a q1 q2]; simpl in *.
    - apply app1_local. apply H. left. reflexivity.
    - apply app_swap_local; apply H; simpl; auto.
    - apply app_xx_local; apply H; simpl; auto.
  Qed.

  Lemma base_inv_qubits b : base_qubits S (base_inv b) = base_qubits S b.
  Proof. destruct b; reflexivity. Qed.

  Lemma gate_inv_wf g : gate_wf g -> gate_wf (gate_inv g).
  Proof. unfold gate_wf, gate_inv; simpl. rewrite base_inv_qubits. auto. Qed.

  Lemma den_gate_inv_l g psi : gate_wf g -> den_gate S (gate_inv g) (den_gate S g psi) = psi.
  Proof.
    intro Hwf. unfold den_gate, gate_inv; simpl.
    rewrite ctrl_compose.
    - rewrite (ctrl_ext S _ _ (fun s => s)); [apply ctrl_id|]. intro s. apply den_base_inv_l.
    - apply den_base_local. rewrite base_inv_qubits. exact Hwf.
  Qed.

  Lemma den_gate_inv_r g psi : gate_wf g -> den_gate S g (den_gate S (gate_inv g) psi) = psi.
  Proof.
    intro Hwf. unfold den_gate, gate_inv; simpl.
    rewrite ctrl_compose.
    - rewrite (ctrl_ext S _ _ (fun s => s)); [apply ctrl_id|]. intro s. apply base_inv_invol_den.
    - apply den_base_local. exact Hwf.
  Qed.

  (* the inverse circuit (reversed order, each gate inverted) undoes the circuit, on every state *)
  Theorem circuit_inv_l c psi : Forall gate_wf c -> den S (circuit_inv c) (den S c psi) = psi.
  Proof.
    unfold circuit_inv. revert psi. induction c as [|g r IH]; intros psi Hwf; [reflexivity|].
    inversion Hwf; subst. simpl rev. rewrite map_app, den_app.
    change (den S (g :: r) psi) with (den S r (den_gate S g psi)).
    rewrite IH by assumption. simpl. apply den_gate_inv_l. assumption.
  Qed.

  Theorem circuit_inv_r c psi : Forall gate_wf c -> den S c (den S (circuit_inv c) psi) = psi.
  Proof.
    unfold circuit_inv. revert psi. induction c as [|g r IH]; intros psi Hwf; [reflexivity|].
    inversion Hwf; subst. simpl rev. rewrite map_app, den_app.
    change (den S (g :: r) (den S (map gate_inv [g]) (den S (map gate_inv (rev r)) psi)))
      with (den S r (den_gate S g (den_gate S (gate_inv g) (den S (map gate_inv (rev r)) psi)))).
    rewrite den_gate_inv_r by assumption. apply IH. assumption.
  Qed.
End CircuitLemmas.
